(* C02 dyn_refines_reload: replaying the commands checkBackendPair wrote on the simulated
   HAProxy gives, slot by slot, what HAProxy would hold after loading the new configuration;
   the layout invariant is preserved, so the statement composes over histories. *)
From Coq Require Import List String Ascii Bool Arith ZArith NArith Lia Permutation.
From HI Require Import Model.Dyn Proofs.Dyn_Base Proofs.Dyn_Pair.
Import ListNotations.
Open Scope string_scope.

(* ------------------------------------------------------------------ commands, slot by slot *)

Definition cmd_slot (c : cmd) : option string :=
  match c with
  | CAddr _ s _ _ | CState _ s _ | CWeight _ s _ => Some s
  | CSetCert _ _ | CCommit _ => None
  end.
Definition targets (n : string) (c : cmd) : bool :=
  match cmd_slot c with Some m => m =? n | None => false end.
Definition srv_apply (s : server) (c : cmd) : server :=
  match c with
  | CAddr _ _ ip p => mkS (s_name s) ip p (s_weight s) (s_adm s) (s_cookie s)
  | CState _ _ a => mkS (s_name s) (s_addr s) (s_port s) (s_weight s) a (s_cookie s)
  | CWeight _ _ w => mkS (s_name s) (s_addr s) (s_port s) w (s_adm s) (s_cookie s)
  | CSetCert _ _ | CCommit _ => s
  end.

Lemma lookup_upd : forall n m f st, (forall s, s_name (f s) = s_name s) ->
  lookup n (upd_server m f st) = if m =? n then option_map f (lookup n st) else lookup n st.
Proof.
  intros n m f st Hf. unfold lookup, upd_server.
  induction st as [|s st IH]; cbn [map find].
  - destruct (m =? n); reflexivity.
  - destruct (s_name s =? m) eqn:Em.
    + rewrite Hf. destruct (s_name s =? n) eqn:En.
      * apply String.eqb_eq in Em, En. subst. rewrite String.eqb_refl. reflexivity.
      * exact IH.
    + destruct (s_name s =? n) eqn:En.
      * apply String.eqb_eq in En. subst. rewrite String.eqb_sym, Em. reflexivity.
      * exact IH.
Qed.

Lemma lookup_apply_cmd : forall n st c,
  lookup n (apply_cmd st c) = if targets n c then option_map (fun s => srv_apply s c) (lookup n st) else lookup n st.
Proof.
  intros n st c. destruct c; cbn [apply_cmd targets cmd_slot srv_apply]; try reflexivity;
    rewrite lookup_upd by reflexivity; reflexivity.
Qed.

Lemma lookup_apply_cmds : forall n cs st,
  lookup n (apply_cmds st cs) =
  option_map (fun s => fold_left srv_apply (filter (targets n) cs) s) (lookup n st).
Proof.
  unfold apply_cmds. intros n cs; induction cs as [|c cs IH]; intros st; cbn [fold_left filter].
  - destruct (lookup n st); reflexivity.
  - rewrite IH, lookup_apply_cmd. destruct (targets n c); [|reflexivity].
    destruct (lookup n st); reflexivity.
Qed.

Lemma names_apply_cmd : forall st c, map s_name (apply_cmd st c) = map s_name st.
Proof.
  intros st c. destruct c as [b k ip p|b k a|b k w|f pl|f]; cbn [apply_cmd]; try reflexivity; unfold upd_server; rewrite map_map;
    apply map_ext; intros x; destruct (s_name x =? k); reflexivity.
Qed.

Lemma names_apply_cmds : forall cs st, map s_name (apply_cmds st cs) = map s_name st.
Proof.
  unfold apply_cmds. induction cs as [|c cs IH]; intros st; cbn [fold_left]; [reflexivity|].
  rewrite IH. apply names_apply_cmd.
Qed.

(* groups of commands, each addressed to one slot *)
Definition group := (string * list cmd)%type.
Definition group_ok (g : group) : Prop := Forall (fun c => cmd_slot c = Some (fst g)) (snd g).

Lemma filter_group_same : forall g, group_ok g -> filter (targets (fst g)) (snd g) = snd g.
Proof.
  intros [k cs] H. cbn [fst snd] in *. unfold group_ok in H. cbn [fst snd] in H.
  induction H as [|c cs Hc _ IH]; [reflexivity|]. cbn [filter]. unfold targets at 1. rewrite Hc, String.eqb_refl.
  f_equal. exact IH.
Qed.

Lemma filter_group_other : forall g n, group_ok g -> fst g <> n -> filter (targets n) (snd g) = [].
Proof.
  intros [k cs] n H Hne. cbn [fst snd] in *. unfold group_ok in H. cbn [fst snd] in H.
  induction H as [|c cs Hc _ IH]; [reflexivity|]. cbn [filter]. unfold targets at 1. rewrite Hc.
  destruct (String.eqb_spec k n); [contradiction|]. exact IH.
Qed.

Lemma filter_groups_notin : forall (gs : list group) n,
  Forall group_ok gs -> ~ In n (map fst gs) -> filter (targets n) (flat_map snd gs) = [].
Proof.
  induction gs as [|h gs IH]; intros n Hok Hn; [reflexivity|].
  inversion Hok as [|? ? Hh Hok']; subst. cbn [flat_map map] in *. rewrite filter_app.
  rewrite filter_group_other.
  - cbn [app]. apply IH; auto. intros Hc. apply Hn. right. exact Hc.
  - exact Hh.
  - intros Ec. apply Hn. left. exact Ec.
Qed.

Lemma filter_groups_in : forall (gs : list group) g,
  Forall group_ok gs -> NoDup (map fst gs) -> In g gs ->
  filter (targets (fst g)) (flat_map snd gs) = snd g.
Proof.
  induction gs as [|h gs IH]; intros g Hok Hn Hin; [contradiction|].
  inversion Hok as [|? ? Hh Hok']; subst. cbn [map] in Hn. inversion Hn as [|? ? Hx Hn']; subst.
  cbn [flat_map]. rewrite filter_app. destruct Hin as [->|Hin].
  - rewrite filter_group_same by exact Hh.
    rewrite (filter_groups_notin gs (fst g)) by auto.
    rewrite app_nil_r. reflexivity.
  - rewrite filter_group_other; auto.
    + cbn [app]. apply IH; auto.
    + intros Ec. apply Hx. rewrite Ec. apply in_map. exact Hin.
Qed.

(* ------------------------------------------------------------------ commands of a successful update *)

Definition pair_cmds (id : string) (p : endpoint * option endpoint) : list cmd :=
  match snd p with
  | None => disable_cmds id (fst p)
  | Some c => let c' := set_name c (ep_name (fst p)) in
              if ep_eqb (set_srcip (fst p) (ep_srcip c')) c' then [] else enable_cmds id c'
  end.
Definition fill_cmds (id : string) (f : endpoint * endpoint) : list cmd :=
  enable_cmds id (set_name (fst f) (ep_name (snd f))).

(* what a successful update guarantees about preserved cookies *)
Definition pair_cookie_ok (pre : bool) (p : endpoint * option endpoint) : Prop :=
  match snd p with
  | None => True
  | Some c => ep_eqb (set_srcip (fst p) (ep_srcip c)) (set_name c (ep_name (fst p))) = true \/
              (pre = true -> ep_cookie (fst p) = ep_cookie c)
  end.
Definition fill_cookie_ok (pre : bool) (f : endpoint * endpoint) : Prop :=
  pre = true -> ep_cookie (fst f) = ep_cookie (snd f).

Lemma cookie_test : forall pre a b, pre && negb (a =? b) = false -> pre = true -> a = b.
Proof.
  intros pre a b H Hp. subst pre. cbn in H. apply negb_false_iff in H. apply String.eqb_eq in H. exact H.
Qed.

Lemma pair_cmds_some : forall id o c,
  pair_cmds id (o, Some c) =
  if ep_eqb (set_srcip o (ep_srcip c)) (set_name c (ep_name o)) then [] else enable_cmds id (set_name c (ep_name o)).
Proof. reflexivity. Qed.
Lemma pair_cmds_none : forall id o, pair_cmds id (o, None) = disable_cmds id o.
Proof. reflexivity. Qed.

Lemma exec_pairs_true : forall id pre ps resp n w,
  exec_pairs id pre ps resp n = (true, w) ->
  w = flat_map (pair_cmds id) ps /\ Forall (pair_cookie_ok pre) ps.
Proof.
  induction ps as [|[o [c|]] ps IH]; intros resp n w H; cbn [exec_pairs] in H.
  - inversion H; subst. split; [reflexivity|constructor].
  - destruct (check_endpoint_pair id pre o (set_name c (ep_name o)) resp n) as [ok w1] eqn:E1.
    destruct (exec_pairs id pre ps resp (n + List.length w1)) as [ok' w2] eqn:E2.
    inversion H as [[Hok Hw]]. subst w. apply andb_true_iff in Hok. destruct Hok as [-> ->].
    destruct (IH _ _ _ E2) as [-> Hc]. cbn [flat_map]. rewrite pair_cmds_some.
    unfold check_endpoint_pair in E1.
    change (ep_srcip (set_name c (ep_name o))) with (ep_srcip c) in E1.
    change (ep_cookie (set_name c (ep_name o))) with (ep_cookie c) in E1.
    destruct (ep_eqb (set_srcip o (ep_srcip c)) (set_name c (ep_name o))) eqn:Eq.
    + inversion E1; subst. split; [reflexivity|]. constructor; auto. left. exact Eq.
    + destruct (pre && negb (ep_cookie o =? ep_cookie c)) eqn:Ck; [discriminate|].
      unfold exec_enable in E1.
      destruct (set_server_group (enable_cmds id (set_name c (ep_name o))) resp n) as [ok w'] eqn:E.
      inversion E1 as [[Hok Hw]]. subst w'.
      apply andb_true_iff in Hok. destruct Hok as [Hok _]. apply andb_true_iff in Hok. destruct Hok as [-> _].
      apply set_server_group_ok in E. destruct E as [-> _].
      split; [reflexivity|]. constructor; auto. right. cbn [fst snd]. intros Hp.
      eapply cookie_test in Ck; eauto.
  - unfold exec_disable in H.
    destruct (set_server_group (disable_cmds id o) resp n) as [ok w1] eqn:E1.
    destruct (exec_pairs id pre ps resp (n + List.length w1)) as [ok' w2] eqn:E2.
    inversion H as [[Hok Hw]]. subst w. apply andb_true_iff in Hok. destruct Hok as [Hok ->].
    apply andb_true_iff in Hok. destruct Hok as [-> _].
    apply set_server_group_ok in E1. destruct E1 as [-> _].
    destruct (IH _ _ _ E2) as [-> Hc]. cbn [flat_map]. rewrite pair_cmds_none.
    split; [reflexivity|]. constructor; auto. exact I.
Qed.

Lemma exec_fills_true : forall id pre fs resp n w,
  exec_fills id pre fs resp n = (true, w) ->
  w = flat_map (fill_cmds id) fs /\ Forall (fill_cookie_ok pre) fs.
Proof.
  induction fs as [|[c e] fs IH]; intros resp n w H; cbn [exec_fills] in H.
  - inversion H; subst. split; [reflexivity|constructor].
  - destruct (pre && negb (ep_cookie c =? ep_cookie e)) eqn:Ck.
    + destruct (exec_fills id pre fs resp n) as [ok' w']. discriminate.
    + unfold exec_enable in H.
      destruct (set_server_group (enable_cmds id (set_name c (ep_name e))) resp n) as [ok w1] eqn:E1.
      destruct (exec_fills id pre fs resp (n + List.length w1)) as [ok' w2] eqn:E2.
      inversion H as [[Hok Hw]]. subst w. apply andb_true_iff in Hok. destruct Hok as [Hok ->].
      apply andb_true_iff in Hok. destruct Hok as [-> _].
      apply set_server_group_ok in E1. destruct E1 as [-> _].
      destruct (IH _ _ _ E2) as [-> Hc]. split; [reflexivity|]. constructor; auto.
      unfold fill_cookie_ok. cbn [fst snd]. intros Hp. eapply cookie_test in Ck; eauto.
Qed.

Definition pair_group (id : string) (p : endpoint * option endpoint) : group := (ep_name (fst p), pair_cmds id p).
Definition fill_group (id : string) (f : endpoint * endpoint) : group := (ep_name (snd f), fill_cmds id f).

Lemma pair_group_ok : forall id p, group_ok (pair_group id p).
Proof.
  intros id [o [c|]]; unfold group_ok, pair_group, pair_cmds; cbn [fst snd].
  - destruct (ep_eqb _ _); [constructor|]. repeat constructor.
  - repeat constructor.
Qed.
Lemma fill_group_ok : forall id f, group_ok (fill_group id f).
Proof. intros id [c e]; unfold group_ok, fill_group, fill_cmds; cbn [fst snd]. repeat constructor. Qed.

Lemma flat_map_groups : forall {A} (g : A -> group) l, flat_map snd (map g l) = flat_map (fun x => snd (g x)) l.
Proof. induction l as [|x l IH]; cbn [map flat_map]; [reflexivity|]. rewrite IH. reflexivity. Qed.

(* ------------------------------------------------------------------ effect of a group on a server *)

Lemma apply_enable : forall id c s,
  fold_left srv_apply (enable_cmds id c) s =
  mkS (s_name s) (ep_ip c) (ep_port c) (ep_weight c) (if (0 <? ep_weight c)%Z then Ready else Drain) (s_cookie s).
Proof. reflexivity. Qed.

Lemma apply_disable : forall id o s,
  fold_left srv_apply (disable_cmds id o) s = mkS (s_name s) "127.0.0.1" 1023 0 Maint (s_cookie s).
Proof. reflexivity. Qed.

(* ------------------------------------------------------------------ the relation running state / layout *)

(* server s is what HAProxy holds for the slot written as endpoint e, as far as the property
   observes: same name; disabled <-> maintenance; for an enabled slot the address, the port and
   the effective weight; the cookie value when cookies are preserved *)
Definition ep_rel (pre : bool) (s : server) (e : endpoint) : Prop :=
  s_name s = ep_name e /\
  (ep_enabled e = false -> s_adm s = Maint) /\
  (ep_enabled e = true -> s_adm s <> Maint /\ s_addr s = ep_ip e /\ s_port s = ep_port e /\ eff_weight s = ep_weight e) /\
  (pre = true -> s_cookie s = ep_cookie e).

Definition slot_rel (pre : bool) (run : run_state) (eps : list endpoint) : Prop :=
  Permutation (map s_name run) (map ep_name eps) /\
  forall e, In e eps -> exists s, lookup (ep_name e) run = Some s /\ ep_rel pre s e.

Lemma ep_rel_load : forall pre e, ep_rel pre (load_ep e) e.
Proof.
  intros pre e. unfold ep_rel, load_ep, eff_weight. cbn [s_name s_adm s_addr s_port s_weight s_cookie].
  repeat split; auto.
  - intros ->. reflexivity.
  - rewrite H. discriminate.
  - rewrite H. reflexivity.
Qed.

Lemma lookup_load : forall eps e, NoDup (map ep_name eps) -> In e eps -> lookup (ep_name e) (load eps) = Some (load_ep e).
Proof.
  induction eps as [|x eps IH]; intros e Hn Hin; [contradiction|].
  cbn [map] in Hn. inversion Hn as [|? ? Hx Hn']; subst.
  unfold load, lookup. cbn [map find]. cbn [load_ep s_name].
  destruct Hin as [->|Hin].
  - rewrite String.eqb_refl. reflexivity.
  - destruct (String.eqb_spec (ep_name x) (ep_name e)) as [E|_].
    + exfalso. apply Hx. rewrite E. apply in_map. exact Hin.
    + apply IH; auto.
Qed.

(* loading the files gives a state related to the layout they were rendered from *)
Lemma slot_rel_load : forall pre eps, NoDup (map ep_name eps) -> slot_rel pre (load eps) eps.
Proof.
  intros pre eps Hn. split.
  - unfold load. rewrite map_map. cbn [load_ep s_name]. reflexivity.
  - intros e Hin. exists (load_ep e). split; [apply lookup_load; auto|apply ep_rel_load].
Qed.

Lemma lookup_none_notin : forall n st, lookup n st = None -> ~ In n (map s_name st).
Proof.
  unfold lookup. intros n st H Hin. apply in_map_iff in Hin. destruct Hin as [s [E Hs]].
  eapply find_none in H; eauto. cbn in H. rewrite E, String.eqb_refl in H. discriminate.
Qed.

Lemma lookup_some_name : forall n st s, lookup n st = Some s -> s_name s = n /\ In s st.
Proof.
  unfold lookup. intros n st s H. apply find_some in H. destruct H as [Hi E]. apply String.eqb_eq in E. auto.
Qed.

Lemma lookup_ep_nodup : forall eps e, NoDup (map ep_name eps) -> In e eps ->
  find (fun x => ep_name x =? ep_name e) eps = Some e.
Proof.
  induction eps as [|x eps IH]; intros e Hn Hin; [contradiction|].
  cbn [map] in Hn. inversion Hn as [|? ? Hx Hn']; subst. cbn [find].
  destruct Hin as [->|Hin].
  - rewrite String.eqb_refl. reflexivity.
  - destruct (String.eqb_spec (ep_name x) (ep_name e)) as [E|_].
    + exfalso. apply Hx. rewrite E. apply in_map. exact Hin.
    + apply IH; auto.
Qed.

(* related states are indistinguishable by the property's observation, slot by slot *)
Theorem slot_rel_obs : forall pre run eps, NoDup (map ep_name eps) -> slot_rel pre run eps ->
  forall n, obs pre run n = obs pre (load eps) n.
Proof.
  intros pre run eps Hn [Hp Hr] n. unfold obs.
  destruct (in_dec string_dec n (map ep_name eps)) as [Hin|Hnot].
  - apply in_map_iff in Hin. destruct Hin as [e [<- He]].
    destruct (Hr e He) as [s [Hl [Hname [Hdis [Hen Hck]]]]]. rewrite Hl, lookup_load by auto.
    cbn [option_map]. f_equal. unfold obs_slot, load_ep, eff_weight. cbn [s_adm s_addr s_port s_weight s_cookie].
    destruct (ep_enabled e) eqn:En.
    + destruct (Hen eq_refl) as [Hm [Ha [Hpo Hw]]]. unfold eff_weight in Hw.
      destruct (s_adm s) eqn:Ad; try contradiction; rewrite Ha, Hpo, <- Hw; destruct pre; try rewrite (Hck eq_refl); reflexivity.
    + rewrite (Hdis eq_refl). reflexivity.
  - assert (L1 : lookup n run = None).
    { destruct (lookup n run) eqn:L; auto. apply lookup_some_name in L. destruct L as [E Hi].
      exfalso. apply Hnot. eapply Permutation_in; [exact Hp|]. rewrite <- E. apply in_map. exact Hi. }
    assert (L2 : lookup n (load eps) = None).
    { destruct (lookup n (load eps)) eqn:L; auto. apply lookup_some_name in L. destruct L as [E Hi].
      exfalso. apply Hnot. unfold load in Hi. apply in_map_iff in Hi. destruct Hi as [e [<- He]].
      cbn [load_ep s_name] in E. rewrite <- E. apply in_map. exact He. }
    rewrite L1, L2. reflexivity.
Qed.

(* ------------------------------------------------------------------ ep_rel under the three cases *)

Lemma ep_rel_enable : forall pre id s c n,
  s_name s = n -> ep_enabled c = true -> (0 <= ep_weight c)%Z -> (pre = true -> s_cookie s = ep_cookie c) ->
  ep_rel pre (fold_left srv_apply (enable_cmds id (set_name c n)) s) (set_name c n).
Proof.
  intros pre id s c n Hn Hen Hw Hck. rewrite apply_enable. unfold ep_rel, eff_weight.
  cbn [s_name s_adm s_addr s_port s_weight s_cookie set_name ep_name ep_enabled ep_ip ep_port ep_weight ep_cookie].
  split; [exact Hn|]. split; [intros E; congruence|]. split; [|exact Hck].
  intros _. destruct (Z.ltb_spec 0 (ep_weight c)).
  - repeat split; try discriminate; reflexivity.
  - repeat split; try discriminate; try reflexivity. lia.
Qed.

Lemma ep_rel_disable : forall pre id s o e',
  s_name s = ep_name e' -> ep_enabled e' = false -> (pre = true -> s_cookie s = ep_cookie e') ->
  ep_rel pre (fold_left srv_apply (disable_cmds id o) s) e'.
Proof.
  intros pre id s o e' Hn Hd Hck. rewrite apply_disable. unfold ep_rel.
  cbn [s_name s_adm s_addr s_port s_weight s_cookie].
  split; [exact Hn|]. split; [reflexivity|]. split; [intros E; congruence|exact Hck].
Qed.

Lemma ep_rel_same_fields : forall pre s o e,
  ep_rel pre s o -> ep_name e = ep_name o -> ep_enabled e = ep_enabled o -> ep_ip e = ep_ip o ->
  ep_port e = ep_port o -> ep_weight e = ep_weight o -> ep_cookie e = ep_cookie o -> ep_rel pre s e.
Proof.
  unfold ep_rel. intros pre s o e [H1 [H2 [H3 H4]]] -> -> -> -> -> ->. auto.
Qed.

(* ------------------------------------------------------------------ structure of the new layout *)

Definition copy_of (e cp : endpoint) : Prop :=
  ep_name cp = ep_name e /\ ep_cookie cp = ep_cookie e /\ ep_enabled cp = false /\ is_empty cp = true /\ ep_port cp = 1023%Z.

Lemma copy_empties_spec : forall w rest eps, exists cps,
  copy_empties w rest eps = (eps ++ cps)%list /\ Forall2 copy_of rest cps.
Proof.
  induction rest as [|e rest IH]; intros eps; cbn [copy_empties].
  - exists []. rewrite app_nil_r. split; [reflexivity|constructor].
  - destruct (IH (eps ++ [set_cookie (set_name (empty_endpoint w (S (List.length eps))) (ep_name e)) (ep_cookie e)])%list) as [cps [E F]].
    eexists. split.
    + rewrite E, <- app_assoc. cbn [app]. reflexivity.
    + constructor; [|exact F]. repeat split; reflexivity.
Qed.

Lemma slot_of_pairs_some : forall t ps n, slot_of_pairs t ps = Some n ->
  exists o c, In (o, Some c) ps /\ ep_target c = t /\ n = ep_name o.
Proof.
  induction ps as [|[o [c|]] ps IH]; intros n H; cbn [slot_of_pairs] in H; [discriminate| |].
  - destruct (String.eqb_spec (ep_target c) t) as [E|_].
    + inversion H; subst. exists o, c. split; [left; reflexivity|auto].
    + destruct (IH _ H) as [o' [c' [Hi Hr]]]. exists o', c'. split; [right; exact Hi|exact Hr].
  - destruct (IH _ H) as [o' [c' [Hi Hr]]]. exists o', c'. split; [right; exact Hi|exact Hr].
Qed.

Lemma slot_of_pairs_none : forall t ps, slot_of_pairs t ps = None ->
  forall o c, In (o, Some c) ps -> ep_target c <> t.
Proof.
  induction ps as [|[o [c|]] ps IH]; intros H o' c' Hin; cbn [slot_of_pairs] in H; [contradiction| |].
  - destruct (String.eqb_spec (ep_target c) t) as [E|Hne]; [discriminate|].
    destruct Hin as [Hin|Hin]; [inversion Hin; subst; exact Hne|eapply IH; eauto].
  - destruct Hin as [Hin|Hin]; [discriminate|eapply IH; eauto].
Qed.

Lemma slot_of_fills_some : forall t fs n, slot_of_fills t fs = Some n ->
  exists c e, In (c, e) fs /\ ep_target c = t /\ n = ep_name e.
Proof.
  induction fs as [|[c e] fs IH]; intros n H; cbn [slot_of_fills] in H; [discriminate|].
  destruct (String.eqb_spec (ep_target c) t) as [E|_].
  - inversion H; subst. exists c, e. split; [left; reflexivity|auto].
  - destruct (IH _ H) as [c' [e' [Hi Hr]]]. exists c', e'. split; [right; exact Hi|exact Hr].
Qed.

Lemma slot_of_fills_none : forall t fs, slot_of_fills t fs = None ->
  forall c e, In (c, e) fs -> ep_target c <> t.
Proof.
  induction fs as [|[c e] fs IH]; intros H c' e' Hin; cbn [slot_of_fills] in H; [contradiction|].
  destruct (String.eqb_spec (ep_target c) t) as [E|Hne]; [discriminate|].
  destruct Hin as [Hin|Hin]; [inversion Hin; subst; exact Hne|eapply IH; eauto].
Qed.

(* positional versions, for the names *)
Definition some_olds (ps : list (endpoint * option endpoint)) : list endpoint :=
  flat_map (fun p => match snd p with Some _ => [fst p] | None => [] end) ps.

Lemma slot_of_pairs_app : forall t a b,
  slot_of_pairs t (a ++ b) = match slot_of_pairs t a with Some n => Some n | None => slot_of_pairs t b end.
Proof.
  induction a as [|[o [c|]] a IH]; intros b; cbn [app slot_of_pairs]; [reflexivity| |apply IH].
  destruct (ep_target c =? t); [reflexivity|apply IH].
Qed.

Lemma slot_of_pairs_notin : forall t a, ~ In t (map ep_target (somes a)) -> slot_of_pairs t a = None.
Proof.
  intros t a Hn. destruct (slot_of_pairs t a) eqn:E; [|reflexivity].
  apply slot_of_pairs_some in E. destruct E as [o [c [Hi [Et _]]]].
  exfalso. apply Hn. rewrite <- Et. apply in_map. apply in_somes. eauto.
Qed.

Lemma somes_app : forall a b, somes (a ++ b) = (somes a ++ somes b)%list.
Proof. intros; unfold somes. apply flat_map_app. Qed.

Lemma pairs_slots_positional : forall suf pre,
  NoDup (map ep_target (somes (pre ++ suf))) ->
  map (fun c => slot_of_pairs (ep_target c) (pre ++ suf)) (somes suf) = map (fun o => Some (ep_name o)) (some_olds suf).
Proof.
  induction suf as [|[o [c|]] suf IH]; intros pre Hn; [reflexivity| |].
  - unfold somes, some_olds in *. cbn [flat_map snd fst some_list app map].
    f_equal.
    + rewrite slot_of_pairs_app. rewrite slot_of_pairs_notin.
      * cbn [slot_of_pairs]. rewrite String.eqb_refl. reflexivity.
      * fold (somes pre). rewrite flat_map_app in Hn. cbn [flat_map snd some_list app] in Hn.
        rewrite map_app in Hn. cbn [map] in Hn. apply NoDup_remove_2 in Hn.
        intros Hin. apply Hn. apply in_or_app. left. exact Hin.
    + specialize (IH (pre ++ [(o, Some c)])%list). rewrite <- app_assoc in IH. cbn [app] in IH. apply IH. exact Hn.
  - unfold somes, some_olds in *. cbn [flat_map snd fst some_list app map].
    specialize (IH (pre ++ [(o, None)])%list). rewrite <- app_assoc in IH. cbn [app] in IH. apply IH. exact Hn.
Qed.

Lemma slot_of_fills_app : forall t a b,
  slot_of_fills t (a ++ b) = match slot_of_fills t a with Some n => Some n | None => slot_of_fills t b end.
Proof.
  induction a as [|[c e] a IH]; intros b; cbn [app slot_of_fills]; [reflexivity|].
  destruct (ep_target c =? t); [reflexivity|apply IH].
Qed.

Lemma slot_of_fills_notin : forall t a, ~ In t (map ep_target (map fst a)) -> slot_of_fills t a = None.
Proof.
  intros t a Hn. destruct (slot_of_fills t a) eqn:E; [|reflexivity].
  apply slot_of_fills_some in E. destruct E as [c [e [Hi [Et _]]]].
  exfalso. apply Hn. rewrite <- Et. apply in_map. apply in_map_iff. exists (c, e). auto.
Qed.

Lemma fills_slots_positional : forall suf pre,
  NoDup (map ep_target (map fst (pre ++ suf))) ->
  map (fun f => slot_of_fills (ep_target (fst f)) (pre ++ suf)) suf = map (fun f => Some (ep_name (snd f))) suf.
Proof.
  induction suf as [|[c e] suf IH]; intros pre Hn; [reflexivity|].
  cbn [map fst snd]. f_equal.
  - rewrite slot_of_fills_app, slot_of_fills_notin.
    + cbn [slot_of_fills]. rewrite String.eqb_refl. reflexivity.
    + rewrite !map_app in Hn. cbn [map fst] in Hn. apply NoDup_remove_2 in Hn.
      intros Hin. apply Hn. apply in_or_app. left. exact Hin.
  - specialize (IH (pre ++ [(c, e)])%list). rewrite <- app_assoc in IH. cbn [app] in IH. apply IH. exact Hn.
Qed.

Lemma map_option_names : forall {A B} (g : A -> option string) (k : A -> string) (h : B -> string) l l',
  map g l = map (fun o => Some (h o)) l' -> (forall c n, In c l -> g c = Some n -> k c = n) -> map k l = map h l'.
Proof.
  induction l as [|x l IH]; intros l' E Hk; destruct l' as [|y l']; cbn [map] in *; try discriminate; [reflexivity|].
  inversion E as [[E1 E2]]. f_equal; [apply Hk; [left; reflexivity|exact E1]|apply IH; auto].
  intros c n Hc. apply Hk. right. exact Hc.
Qed.

Lemma NoDup_app_remove_l : forall {A} (a b : list A), NoDup (a ++ b) -> NoDup b.
Proof.
  induction a as [|x a IH]; intros b H; [exact H|]. cbn [app] in H. inversion H; subst. apply IH. assumption.
Qed.
Lemma NoDup_app_remove_r : forall {A} (a b : list A), NoDup (a ++ b) -> NoDup a.
Proof.
  induction a as [|x a IH]; intros b H; [constructor|]. cbn [app] in H. inversion H as [|? ? Hx Hn]; subst.
  constructor; [|eapply IH; eauto]. intros Hin. apply Hx. apply in_or_app. left. exact Hin.
Qed.

Lemma firstn_In : forall {A} k (l : list A) x, In x (firstn k l) -> In x l.
Proof.
  intros A k l x H. rewrite <- (firstn_skipn k l). apply in_or_app. left. exact H.
Qed.

Lemma nodup_app_disjoint : forall {A} (a b : list A) x, NoDup (a ++ b) -> In x a -> In x b -> False.
Proof.
  induction a as [|y a IH]; intros b x Hn Ha Hb; [contradiction|].
  cbn [app] in Hn. inversion Hn as [|? ? Hy Hn']; subst. destruct Ha as [->|Ha].
  - apply Hy. apply in_or_app. right. exact Hb.
  - eapply IH; eauto.
Qed.

Lemma rename_name_pairs : forall ps fs c n, slot_of_pairs (ep_target c) ps = Some n -> ep_name (rename ps fs c) = n.
Proof. intros ps fs c n H. unfold rename. rewrite H. reflexivity. Qed.
Lemma rename_name_fills : forall ps fs c n, slot_of_pairs (ep_target c) ps = None ->
  slot_of_fills (ep_target c) fs = Some n -> ep_name (rename ps fs c) = n.
Proof. intros ps fs c n H1 H2. unfold rename. rewrite H1, H2. reflexivity. Qed.

Lemma some_olds_vacated_perm : forall ps, Permutation (map fst ps) (some_olds ps ++ vacated ps).
Proof.
  induction ps as [|[o [c|]] ps IH]; unfold some_olds, vacated in *; cbn [map fst snd flat_map filter app]; [constructor| |].
  - constructor. exact IH.
  - eapply perm_trans; [apply perm_skip; exact IH|]. apply Permutation_middle.
Qed.

Lemma combine_fst : forall {A B} (a : list A) (b : list B), (List.length a <= List.length b)%nat -> map fst (combine a b) = a.
Proof.
  induction a as [|x a IH]; intros b H; [reflexivity|]. destruct b as [|y b]; cbn [List.length] in H; [lia|].
  cbn [combine map fst]. f_equal. apply IH. lia.
Qed.
Lemma combine_snd : forall {A B} (a : list A) (b : list B), (List.length a <= List.length b)%nat ->
  map snd (combine a b) = firstn (List.length a) b.
Proof.
  induction a as [|x a IH]; intros b H; [reflexivity|]. destruct b as [|y b]; cbn [List.length] in H; [lia|].
  cbn [combine map snd List.length firstn]. f_equal. apply IH. lia.
Qed.

Lemma skipn_firstn_disjoint : forall {A B} (f : A -> B) k l x,
  NoDup (map f l) -> In x (skipn k l) -> ~ In (f x) (map f (firstn k l)).
Proof.
  intros A B f k l x Hn Hx Hin.
  rewrite <- (firstn_skipn k l) in Hn. rewrite map_app in Hn.
  apply in_map with (f := f) in Hx.
  revert Hn Hin Hx. generalize (map f (firstn k l)) (map f (skipn k l)) (f x). clear.
  induction l as [|a l IH]; intros l2 b Hn H1 H2; [contradiction|].
  cbn [app] in Hn. inversion Hn as [|? ? Ha Hn']; subst.
  destruct H1 as [->|H1].
  - apply Ha. apply in_or_app. right. exact H2.
  - eapply IH; eauto.
Qed.

(* ------------------------------------------------------------------ the pairing branch *)

(* the new endpoints, as the converters create them: enabled, not the 127.0.0.1 of an empty slot,
   weight not negative *)
Definition cur_ok (cur : list endpoint) : Prop :=
  Forall (fun c => ep_enabled c = true /\ is_empty c = false /\ (0 <= ep_weight c)%Z) cur.

Lemma cur_ok_enabled : forall cur, cur_ok cur -> cur_enabled cur.
Proof. intros cur H. eapply Forall_impl; [|exact H]. intros a Ha; cbn beta in *; tauto. Qed.

Section MainBranch.
  Variables (id : string) (pre : bool) (initw : Z) (old cur : list endpoint) (run : run_state).
  Let en := filter ep_enabled old.
  Let empty0 := filter (fun e => negb (ep_enabled e)) old.
  Let added0 := filter (fun c => match find_target (ep_target c) en with None => true | Some _ => false end) cur.

  Hypothesis Hnames : NoDup (map ep_name old).
  Hypothesis Hcurok : cur_ok cur.
  Hypothesis Hold : dup_target old = false.
  Hypothesis Hcur : NoDup (map ep_target cur).
  Hypothesis Hlen : (List.length cur <= List.length old)%nat.

  Variables (ps : list (endpoint * option endpoint)) (added : list endpoint).
  Hypothesis Hloop : pair_loop (sort_by_target en) cur added0 = (ps, added).

  Let empty := (empty0 ++ vacated ps)%list.
  Let fs := combine added empty.
  Let k := List.length added.

  Hypothesis Hpc : Forall (pair_cookie_ok pre) ps.
  Hypothesis Hfc : Forall (fill_cookie_ok pre) fs.
  Hypothesis Hrun : slot_rel pre run old.

  Let cmds := (flat_map (pair_cmds id) ps ++ flat_map (fill_cmds id) fs)%list.
  Let eps' := copy_empties initw (skipn k empty) (map (rename ps fs) cur).

  Let Hperm : Permutation cur (somes ps ++ added) := pairing_perm old cur Hold Hcur ps added Hloop.

  Lemma mb_k_le : (k <= List.length empty)%nat.
  Proof. unfold k, empty, empty0. eapply pairing_no_panic; eauto. Qed.

  Lemma mb_fst_ps : map fst ps = sort_by_target en.
  Proof. destruct (pair_loop_spec _ _ _ _ _ Hloop) as [H _]. exact H. Qed.

  Lemma mb_old_perm : Permutation old (sort_by_target en ++ empty0).
  Proof.
    eapply perm_trans; [apply (filter_partition_perm ep_enabled)|].
    apply Permutation_app_tail. symmetry. apply sort_by_target_perm.
  Qed.

  Lemma mb_names_sorted_empty0 : NoDup (map ep_name (sort_by_target en ++ empty0)).
  Proof. eapply Permutation_NoDup; [|exact Hnames]. apply Permutation_map. apply mb_old_perm. Qed.

  Lemma mb_vacated_in_sorted : forall e, In e (vacated ps) -> In (e, None) ps /\ In e (sort_by_target en).
  Proof.
    intros e H. unfold vacated in H. apply in_map_iff in H. destruct H as [[o x] [E Hf]].
    apply filter_In in Hf. destruct Hf as [Hin Hs]. cbn [fst snd] in *. subst o.
    destruct x; [discriminate|]. split; auto. rewrite <- mb_fst_ps. apply in_map with (f := fst) in Hin. exact Hin.
  Qed.

  Lemma mb_added_nil_or_novac : added = [] \/ vacated ps = [].
  Proof.
    destruct (pair_loop_spec _ _ _ _ _ Hloop) as [_ [_ [Hv _]]].
    destruct (vacated ps) eqn:E; [right; reflexivity|left]. apply Hv. discriminate.
  Qed.

  Lemma mb_names_empty : NoDup (map ep_name empty).
  Proof.
    unfold empty. destruct mb_added_nil_or_novac as [_ | ->].
    2:{ rewrite app_nil_r. pose proof mb_names_sorted_empty0 as H. rewrite map_app in H. apply NoDup_app_remove_l in H. exact H. }
    (* general case: empty0 ++ vacated is a sub-multiset of sorted ++ empty0 *)
    pose proof mb_names_sorted_empty0 as H.
    assert (Hp : Permutation (map fst ps) (some_olds ps ++ vacated ps)) by apply some_olds_vacated_perm.
    rewrite mb_fst_ps in Hp.
    assert (Hq : Permutation (sort_by_target en ++ empty0) (some_olds ps ++ (empty0 ++ vacated ps))).
    { eapply perm_trans; [apply Permutation_app_tail; exact Hp|].
      rewrite <- app_assoc. apply Permutation_app_head. apply Permutation_app_comm. }
    eapply Permutation_NoDup in H; [|apply Permutation_map; exact Hq].
    rewrite map_app in H. apply NoDup_app_remove_l in H. exact H.
  Qed.

  Lemma mb_fs_fst : map fst fs = added.
  Proof. unfold fs. apply combine_fst. apply mb_k_le. Qed.
  Lemma mb_fs_snd : map snd fs = firstn k empty.
  Proof. unfold fs, k. apply combine_snd. apply mb_k_le. Qed.

  Lemma mb_fill_in_empty0 : forall c e, In (c, e) fs -> In e empty0 /\ In c added.
  Proof.
    intros c e H. split.
    - assert (He : In e (firstn k empty)) by (rewrite <- mb_fs_snd; apply in_map_iff; exists (c, e); auto).
      apply firstn_In in He. unfold empty in He.
      destruct mb_added_nil_or_novac as [Ha|Hv].
      + exfalso. unfold fs in H. rewrite Ha in H. cbn in H. exact H.
      + rewrite Hv, app_nil_r in He. exact He.
    - rewrite <- mb_fs_fst. apply in_map_iff. exists (c, e). auto.
  Qed.

  Definition mb_groups : list group := (map (pair_group id) ps ++ map (fill_group id) fs)%list.

  Lemma mb_groups_cmds : flat_map snd mb_groups = cmds.
  Proof. unfold mb_groups, cmds. rewrite flat_map_app, !flat_map_groups. reflexivity. Qed.

  Lemma mb_groups_ok : Forall group_ok mb_groups.
  Proof.
    unfold mb_groups. apply Forall_app. split; apply Forall_forall; intros g Hg; apply in_map_iff in Hg;
      destruct Hg as [x [<- _]]; [apply pair_group_ok|apply fill_group_ok].
  Qed.

  Lemma mb_groups_keys : map fst mb_groups = (map ep_name (sort_by_target en) ++ map ep_name (firstn k empty))%list.
  Proof.
    unfold mb_groups. rewrite map_app, !map_map. cbn [pair_group fill_group fst].
    rewrite <- mb_fst_ps, <- mb_fs_snd, !map_map. reflexivity.
  Qed.

  Lemma mb_groups_nodup : NoDup (map fst mb_groups).
  Proof.
    rewrite mb_groups_keys. pose proof mb_names_sorted_empty0 as H. rewrite map_app in H.
    destruct mb_added_nil_or_novac as [Ha|Hv].
    - unfold k. rewrite Ha. cbn [List.length firstn map]. rewrite app_nil_r. apply NoDup_app_remove_r in H. exact H.
    - unfold empty. rewrite Hv, app_nil_r.
      rewrite <- (firstn_skipn k empty0) in H. rewrite map_app, app_assoc in H. apply NoDup_app_remove_r in H. exact H.
  Qed.

  Lemma mb_lookup_final : forall g s, In g mb_groups -> lookup (fst g) run = Some s ->
    lookup (fst g) (apply_cmds run cmds) = Some (fold_left srv_apply (snd g) s).
  Proof.
    intros g s Hg Hl. rewrite lookup_apply_cmds, <- mb_groups_cmds, Hl.
    rewrite filter_groups_in; auto using mb_groups_ok, mb_groups_nodup.
  Qed.

  Lemma mb_lookup_untouched : forall n, ~ In n (map fst mb_groups) ->
    lookup n (apply_cmds run cmds) = lookup n run.
  Proof.
    intros n Hn. rewrite lookup_apply_cmds, <- mb_groups_cmds.
    rewrite filter_groups_notin; auto using mb_groups_ok. destruct (lookup n run); reflexivity.
  Qed.

  Lemma mb_old_rel : forall o, In o old -> exists s, lookup (ep_name o) run = Some s /\ ep_rel pre s o.
  Proof. intros o Ho. destruct Hrun as [_ H]. apply H. exact Ho. Qed.

  Lemma mb_sorted_old : forall o, In o (sort_by_target en) -> In o old /\ ep_enabled o = true.
  Proof.
    intros o H. eapply Permutation_in in H; [|apply sort_by_target_perm]. apply filter_In in H. exact H.
  Qed.
  Lemma mb_empty0_old : forall e, In e empty0 -> In e old /\ ep_enabled e = false.
  Proof.
    intros e H. apply filter_In in H. destruct H as [H1 H2]. split; auto. apply negb_true_iff in H2. exact H2.
  Qed.

  Lemma mb_targets_nodup : NoDup (map ep_target (somes ps ++ added)).
  Proof. eapply Permutation_NoDup; [|exact Hcur]. apply Permutation_map. exact Hperm. Qed.

  Lemma mb_cur_fields : forall c, In c cur -> ep_enabled c = true /\ (0 <= ep_weight c)%Z.
  Proof. intros c H. unfold cur_ok in Hcurok. rewrite Forall_forall in Hcurok. destruct (Hcurok c H) as [? [? ?]]. auto. Qed.

  Lemma mb_in_somes_cur : forall c, In c (somes ps) -> In c cur.
  Proof. intros c H. eapply Permutation_in; [symmetry; exact Hperm|]. apply in_or_app; left; exact H. Qed.
  Lemma mb_in_added_cur : forall c, In c added -> In c cur.
  Proof. intros c H. eapply Permutation_in; [symmetry; exact Hperm|]. apply in_or_app; right; exact H. Qed.

  (* every new endpoint ends in a slot whose running server is related to it *)
  Lemma mb_renamed_rel : forall c, In c cur ->
    exists s, lookup (ep_name (rename ps fs c)) (apply_cmds run cmds) = Some s /\ ep_rel pre s (rename ps fs c).
  Proof.
    intros c Hc. destruct (mb_cur_fields c Hc) as [Hen Hw].
    assert (Hc' : In c (somes ps ++ added)) by (eapply Permutation_in; [exact Hperm|exact Hc]).
    destruct (slot_of_pairs (ep_target c) ps) as [n|] eqn:S1.
    - (* the slot of a pair *)
      destruct (slot_of_pairs_some _ _ _ S1) as [o [c0 [Hin [Et ->]]]].
      assert (c0 = c).
      { eapply NoDup_map_injective with (f := ep_target); [exact Hcur| |exact Hc|exact Et].
        apply mb_in_somes_cur. apply in_somes. eauto. }
      subst c0. unfold rename. rewrite S1.
      assert (Ho : In o (sort_by_target en)) by (rewrite <- mb_fst_ps; apply in_map with (f := fst) in Hin; exact Hin).
      destruct (mb_sorted_old o Ho) as [Hoo Hoen].
      destruct (mb_old_rel o Hoo) as [s [Hl Hr]].
      assert (Hg : In (pair_group id (o, Some c)) mb_groups).
      { unfold mb_groups. apply in_or_app. left. apply in_map. exact Hin. }
      pose proof (mb_lookup_final _ s Hg Hl) as Hfin. cbn [pair_group fst snd] in Hfin.
      change (ep_name (set_name c (ep_name o))) with (ep_name o).
      rewrite Hfin. eexists. split; [reflexivity|].
      rewrite pair_cmds_some.
      pose proof Hpc as Hp0. rewrite Forall_forall in Hp0. specialize (Hp0 _ Hin). unfold pair_cookie_ok in Hp0. cbn [fst snd] in Hp0.
      destruct (ep_eqb (set_srcip o (ep_srcip c)) (set_name c (ep_name o))) eqn:Eq.
      + cbn [fold_left]. apply ep_eqb_eq in Eq.
        eapply ep_rel_same_fields; [exact Hr| | | | | |]; rewrite <- Eq; reflexivity.
      + destruct Hp0 as [Hp0|Hp0]; [congruence|].
        apply ep_rel_enable; auto.
        * destruct Hr as [Hn _]. exact Hn.
        * intros Hp. destruct Hr as [_ [_ [_ Hk]]]. rewrite (Hk Hp). apply Hp0. exact Hp.
    - (* an empty slot *)
      assert (Hadd : In c added).
      { apply in_app_or in Hc'. destruct Hc' as [Hs|Ha]; auto.
        exfalso. apply in_somes in Hs. destruct Hs as [o Ho].
        eapply slot_of_pairs_none in S1; eauto. }
      destruct (slot_of_fills (ep_target c) fs) as [n|] eqn:S2.
      2:{ exfalso. rewrite <- mb_fs_fst in Hadd. apply in_map_iff in Hadd. destruct Hadd as [[c1 e1] [E Hin]].
          cbn [fst] in E. subst c1. eapply slot_of_fills_none in S2; eauto. }
      destruct (slot_of_fills_some _ _ _ S2) as [c0 [e [Hin [Et ->]]]].
      destruct (mb_fill_in_empty0 _ _ Hin) as [He Hc0].
      assert (c0 = c).
      { eapply NoDup_map_injective with (f := ep_target); [exact Hcur| |exact Hc|exact Et]. apply mb_in_added_cur. exact Hc0. }
      subst c0. unfold rename. rewrite S1, S2.
      destruct (mb_empty0_old e He) as [Heo Hed].
      destruct (mb_old_rel e Heo) as [s [Hl Hr]].
      assert (Hg : In (fill_group id (c, e)) mb_groups).
      { unfold mb_groups. apply in_or_app. right. apply in_map. exact Hin. }
      pose proof (mb_lookup_final _ s Hg Hl) as Hfin. cbn [fill_group fst snd] in Hfin.
      change (ep_name (set_name c (ep_name e))) with (ep_name e).
      rewrite Hfin. eexists. split; [reflexivity|].
      unfold fill_cmds. cbn [fst snd].
      pose proof Hfc as Hf0. rewrite Forall_forall in Hf0. specialize (Hf0 _ Hin). unfold fill_cookie_ok in Hf0. cbn [fst snd] in Hf0.
      apply ep_rel_enable; auto.
      + destruct Hr as [Hn _]. exact Hn.
      + intros Hp. destruct Hr as [_ [_ [_ Hk]]]. rewrite (Hk Hp). symmetry. apply Hf0. exact Hp.
  Qed.

  (* every remaining empty slot is in maintenance in the running state *)
  Lemma mb_copy_rel : forall e cp, In e (skipn k empty) -> copy_of e cp ->
    exists s, lookup (ep_name cp) (apply_cmds run cmds) = Some s /\ ep_rel pre s cp.
  Proof.
    intros e cp He [Hn [Hck [Hdis _]]].
    assert (Hemp : In e empty) by (rewrite <- (firstn_skipn k empty); apply in_or_app; right; exact He).
    unfold empty in Hemp. apply in_app_or in Hemp. destruct Hemp as [H0|Hv].
    - (* an empty slot that was not used: untouched *)
      destruct (mb_empty0_old e H0) as [Heo Hed].
      destruct (mb_old_rel e Heo) as [s [Hl Hr]].
      assert (Hnot : ~ In (ep_name e) (map fst mb_groups)).
      { rewrite mb_groups_keys. intros Hin. apply in_app_or in Hin. destruct Hin as [Hin|Hin].
        - pose proof mb_names_sorted_empty0 as Hnd. rewrite map_app in Hnd.
          apply in_map_iff in Hin. destruct Hin as [o [En Ho]].
          eapply nodup_app_disjoint; [exact Hnd|apply in_map; exact Ho|]. rewrite En. apply in_map. exact H0.
        - eapply (skipn_firstn_disjoint ep_name k empty e); eauto using mb_names_empty. }
      rewrite Hn, (mb_lookup_untouched _ Hnot), Hl. eexists. split; [reflexivity|].
      destruct Hr as [R1 [R2 [R3 R4]]]. unfold ep_rel. rewrite Hn, Hck, Hdis.
      split; [exact R1|]. split; [intros _; apply R2; exact Hed|]. split; [discriminate|exact R4].
    - (* a vacated slot: disabled by its three commands *)
      destruct (mb_vacated_in_sorted e Hv) as [Hin Hs].
      destruct (mb_sorted_old e Hs) as [Heo Hen].
      destruct (mb_old_rel e Heo) as [s [Hl Hr]].
      assert (Hg : In (pair_group id (e, None)) mb_groups).
      { unfold mb_groups. apply in_or_app. left. apply in_map. exact Hin. }
      pose proof (mb_lookup_final _ s Hg Hl) as Hfin. cbn [pair_group fst snd] in Hfin.
      rewrite Hn, Hfin. eexists. split; [reflexivity|]. rewrite pair_cmds_none.
      destruct Hr as [R1 [_ [_ R4]]].
      apply ep_rel_disable; auto.
      + rewrite Hn. exact R1.
      + rewrite Hck. exact R4.
  Qed.

  (* the names of the new layout are the names of the old one *)
  Lemma mb_names_perm : forall cps, Forall2 copy_of (skipn k empty) cps ->
    Permutation (map ep_name (map (rename ps fs) cur ++ cps)) (map ep_name old).
  Proof.
    intros cps Hcp.
    assert (Hcps : map ep_name cps = map ep_name (skipn k empty)).
    { clear -Hcp. induction Hcp as [|e cp l l' [Hn _] _ IH]; [reflexivity|]. cbn [map]. rewrite Hn, IH. reflexivity. }
    rewrite map_app, Hcps, map_map.
    pose proof mb_targets_nodup as Hnd. rewrite map_app in Hnd.
    (* the renamed new endpoints *)
    assert (H1 : map (fun c => ep_name (rename ps fs c)) (somes ps) = map ep_name (some_olds ps)).
    { eapply map_option_names with (g := fun c => slot_of_pairs (ep_target c) ps).
      - apply (pairs_slots_positional ps []). cbn [app]. apply NoDup_app_remove_r in Hnd. exact Hnd.
      - intros c n _ H. apply rename_name_pairs. exact H. }
    assert (H2 : map (fun f => ep_name (rename ps fs (fst f))) fs = map (fun f => ep_name (snd f)) fs).
    { eapply map_option_names with (g := fun f => slot_of_fills (ep_target (fst f)) fs).
      - apply (fills_slots_positional fs []). cbn [app]. rewrite mb_fs_fst. apply NoDup_app_remove_l in Hnd. exact Hnd.
      - intros [c e] n Hin H. cbn [fst] in *. apply rename_name_fills; auto.
        apply slot_of_pairs_notin. intros Hs.
        assert (Hc : In c added) by (rewrite <- mb_fs_fst; apply in_map_iff; exists (c, e); auto).
        eapply nodup_app_disjoint; [exact Hnd|exact Hs|apply in_map; exact Hc]. }
    assert (H2' : map (fun c => ep_name (rename ps fs c)) added = map ep_name (firstn k empty)).
    { rewrite <- mb_fs_snd. rewrite <- mb_fs_fst at 1. rewrite !map_map. exact H2. }
    eapply perm_trans.
    { apply Permutation_app_tail. apply Permutation_map. exact Hperm. }
    rewrite map_app, H1, H2', <- app_assoc, <- map_app, firstn_skipn.
    unfold empty. rewrite map_app.
    eapply perm_trans; [|apply Permutation_map; symmetry; apply mb_old_perm].
    rewrite map_app, <- mb_fst_ps.
    eapply perm_trans; [|apply Permutation_app_tail; apply Permutation_map; symmetry; apply some_olds_vacated_perm].
    rewrite map_app, <- app_assoc. apply Permutation_app_head. apply Permutation_app_comm.
  Qed.

  Lemma mb_slot_rel : slot_rel pre (apply_cmds run cmds) eps'.
  Proof.
    unfold eps'. destruct (copy_empties_spec initw (skipn k empty) (map (rename ps fs) cur)) as [cps [E F]].
    rewrite E. split.
    - rewrite names_apply_cmds. destruct Hrun as [Hp _].
      eapply perm_trans; [exact Hp|]. symmetry. apply mb_names_perm. exact F.
    - intros e' Hin. apply in_app_or in Hin. destruct Hin as [Hin|Hin].
      + apply in_map_iff in Hin. destruct Hin as [c [<- Hc]]. apply mb_renamed_rel. exact Hc.
      + assert (Hex : exists e, In e (skipn k empty) /\ copy_of e e').
        { clear -F Hin. induction F as [|e cp l l' Hc _ IH]; [contradiction|].
          destruct Hin as [->|Hin]; [exists e; split; [left; reflexivity|exact Hc]|].
          destruct (IH Hin) as [e0 [H1 H2]]. exists e0. split; [right; exact H1|exact H2]. }
        destruct Hex as [e [He Hc]]. eapply mb_copy_rel; eauto.
  Qed.

  (* the new layout is again a layout: distinct names, empty slots disabled on 127.0.0.1:1023 *)
  Lemma mb_layout : NoDup (map ep_name eps') /\ List.length eps' = List.length old /\
    Forall (fun e => ep_enabled e = negb (is_empty e) /\ (ep_enabled e = false -> ep_port e = 1023%Z)) eps'.
  Proof.
    unfold eps'. destruct (copy_empties_spec initw (skipn k empty) (map (rename ps fs) cur)) as [cps [E F]].
    rewrite E. pose proof (mb_names_perm cps F) as Hp. split; [|split].
    - eapply Permutation_NoDup; [symmetry; exact Hp|exact Hnames].
    - apply Permutation_length in Hp. rewrite !map_length in Hp. exact Hp.
    - apply Forall_app. split.
      + apply Forall_forall. intros e' Hin. apply in_map_iff in Hin. destruct Hin as [c [<- Hc]].
        unfold cur_ok in Hcurok. rewrite Forall_forall in Hcurok. destruct (Hcurok c Hc) as [Hen [Hem _]].
        assert (Hf : ep_enabled (rename ps fs c) = ep_enabled c /\ is_empty (rename ps fs c) = is_empty c).
        { unfold rename. destruct (slot_of_pairs _ _); [split; reflexivity|]. destruct (slot_of_fills _ _); split; reflexivity. }
        destruct Hf as [-> ->]. rewrite Hen, Hem. split; [reflexivity|discriminate].
      + clear -F. induction F as [|e cp l l' [_ [_ [Hd [He Hpo]]]] _ IH]; constructor; auto.
        rewrite Hd, He. split; [reflexivity|intros _; exact Hpo].
  Qed.
End MainBranch.

(* ------------------------------------------------------------------ one update *)

(* a slot layout as earlier updates and alignSlots leave it: distinct server names; a slot is
   disabled exactly when it is an empty one (127.0.0.1), and then its port is 1023 *)
Definition layout_ok (eps : list endpoint) : Prop :=
  NoDup (map ep_name eps) /\
  Forall (fun e => ep_enabled e = negb (is_empty e) /\ (ep_enabled e = false -> ep_port e = 1023%Z)) eps.

Lemma layout_ok_perm : forall a b, Permutation a b -> layout_ok b -> layout_ok a.
Proof.
  intros a b Hp [H1 H2]. split.
  - eapply Permutation_NoDup; [apply Permutation_map; symmetry; exact Hp|exact H1].
  - eapply Permutation_Forall; [symmetry; exact Hp|exact H2].
Qed.

Lemma slot_rel_perm : forall pre run a b, Permutation a b -> slot_rel pre run b -> slot_rel pre run a.
Proof.
  intros pre run a b Hp [H1 H2]. split.
  - eapply perm_trans; [exact H1|]. apply Permutation_map. symmetry. exact Hp.
  - intros e He. apply H2. eapply Permutation_in; eauto.
Qed.

(* one update that checkBackendPair reports as applied: the commands it wrote take any running
   state related to the old layout to a running state related to the new layout, which is again
   a layout with the same number of slots *)
Theorem dyn_step : forall old cur resp run,
  layout_ok (b_eps old) -> cur_ok (b_eps cur) -> b_resolver cur = "" ->
  slot_rel (b_preserve cur) run (b_eps old) ->
  let r := check_backend_pair old cur resp in
  r_updated r = true ->
  slot_rel (b_preserve cur) (apply_cmds run (r_cmds r)) (r_eps r) /\
  layout_ok (r_eps r) /\ List.length (r_eps r) = List.length (b_eps old).
Proof.
  intros old cur resp run [Hnames Hlay] Hcok Hres Hrel. cbv zeta. unfold check_backend_pair.
  destruct (Nat.ltb_spec (List.length (b_eps old)) (List.length (b_eps cur))) as [|Hle]; [cbn; discriminate|].
  rewrite Hres. cbn [String.eqb negb].
  destruct (b_dyn cur); cbn [negb].
  2:{ cbn [r_updated r_cmds r_eps]. intros H. apply andb_true_iff in H. destruct H as [_ H].
      apply eps_eqb_eq in H. rewrite <- H. cbn [apply_cmds fold_left]. split; [exact Hrel|]. split; [split; assumption|reflexivity]. }
  destruct (dup_target (b_eps old)) eqn:D1; [cbn; discriminate|].
  destruct (dup_target (b_eps cur)) eqn:D2; [cbn; discriminate|]. cbn [orb].
  destruct (pair_loop _ _ _) as [ps added] eqn:L.
  destruct (exec_pairs _ _ ps resp 0) as [ok1 w1] eqn:E1.
  destruct (exec_fills _ _ _ resp _) as [ok2 w2] eqn:E2.
  cbn [r_updated r_cmds r_eps].
  intros Hup. apply andb_true_iff in Hup. destruct Hup as [Hup ->]. apply andb_true_iff in Hup. destruct Hup as [_ ->].
  apply exec_pairs_true in E1. destruct E1 as [-> Hpc].
  apply exec_fills_true in E2. destruct E2 as [-> Hfc].
  assert (Hcn : NoDup (map ep_target (b_eps cur))).
  { apply cur_nodup_of_dup_target; [apply cur_ok_enabled; exact Hcok|exact D2]. }
  assert (Hnp : (List.length added <=
                 List.length (filter (fun e => negb (ep_enabled e)) (b_eps old) ++ vacated ps))%nat).
  { eapply pairing_no_panic; eauto. }
  apply Nat.ltb_ge in Hnp. rewrite Hnp.
  split; [|split].
  - eapply mb_slot_rel; eauto.
  - pose proof (mb_layout (b_initw cur) (b_eps old) (b_eps cur) Hnames Hcok D1 Hcn Hle ps added L) as [H1 [_ H3]].
    split; assumption.
  - pose proof (mb_layout (b_initw cur) (b_eps old) (b_eps cur) Hnames Hcok D1 Hcn Hle ps added L) as [_ [H2 _]].
    exact H2.
Qed.

(* C02, one update from a freshly loaded HAProxy: after replaying the commands, every slot is
   observed (enabled?, address, port, effective weight, draining, preserved cookie) exactly as
   if HAProxy had loaded the new configuration *)
Theorem dyn_refines_reload : forall old cur resp,
  layout_ok (b_eps old) -> cur_ok (b_eps cur) -> b_resolver cur = "" ->
  let r := check_backend_pair old cur resp in
  r_updated r = true ->
  forall n, obs (b_preserve cur) (apply_cmds (load (b_eps old)) (r_cmds r)) n = obs (b_preserve cur) (load (r_eps r)) n.
Proof.
  intros old cur resp Hl Hc Hr. cbv zeta. intros Hup.
  destruct (dyn_step old cur resp (load (b_eps old)) Hl Hc Hr) as [Hrel [[Hn _] _]]; auto.
  - apply slot_rel_load. destruct Hl; assumption.
  - apply slot_rel_obs; assumption.
Qed.

(* a backend that uses a DNS resolver is written as one server-template line whose only varying
   part is the number of slots: an applied update keeps it *)
Theorem resolver_keeps_template : forall old cur resp,
  b_resolver cur <> "" ->
  let r := check_backend_pair old cur resp in
  r_updated r = true -> r_cmds r = [] /\ List.length (r_eps r) = List.length (b_eps old).
Proof.
  intros old cur resp Hr. cbv zeta. unfold check_backend_pair.
  destruct (Nat.ltb_spec (List.length (b_eps old)) (List.length (b_eps cur))) as [|Hle]; [cbn; discriminate|].
  destruct (String.eqb_spec (b_resolver cur) ""); [contradiction|]. cbn [negb r_updated r_cmds r_eps].
  intros ->. split; [reflexivity|]. rewrite add_empties_length. lia.
Qed.

(* ------------------------------------------------------------------ histories between two reloads *)

(* a history of applied updates on one backend: each one re-creates the backend and is checked
   against the layout the previous one left (possibly reordered in between: sort-endpoints-by) *)
Inductive history (pre : bool) : backend -> run_state -> backend -> run_state -> Prop :=
| hist_nil : forall b run, history pre b run b run
| hist_step : forall old run eps cur resp b' run',
    Permutation eps (b_eps old) ->
    cur_ok (b_eps cur) -> b_resolver cur = "" -> b_preserve cur = pre ->
    r_updated (check_backend_pair (set_eps old eps) cur resp) = true ->
    history pre (set_eps cur (r_eps (check_backend_pair (set_eps old eps) cur resp)))
            (apply_cmds run (r_cmds (check_backend_pair (set_eps old eps) cur resp))) b' run' ->
    history pre old run b' run'.

Theorem dyn_history_rel : forall pre old run b' run',
  history pre old run b' run' ->
  layout_ok (b_eps old) -> slot_rel pre run (b_eps old) ->
  slot_rel pre run' (b_eps b') /\ layout_ok (b_eps b') /\ List.length (b_eps b') = List.length (b_eps old).
Proof.
  induction 1 as [b run|old run eps cur resp b' run' Hp Hc Hr Hpre Hup _ IH]; intros Hl Hrel.
  - auto.
  - assert (Hl' : layout_ok (b_eps (set_eps old eps))) by (cbn; eapply layout_ok_perm; eauto).
    assert (Hrel' : slot_rel (b_preserve cur) run (b_eps (set_eps old eps))).
    { rewrite Hpre. cbn. eapply slot_rel_perm; eauto. }
    destruct (dyn_step (set_eps old eps) cur resp run Hl' Hc Hr Hrel' Hup) as [R1 [R2 R3]].
    rewrite Hpre in R1.
    destruct (IH R2 R1) as [I1 [I2 I3]]. split; [exact I1|]. split; [exact I2|].
    rewrite I3. cbn [set_eps b_eps] in *. rewrite R3. apply Permutation_length. exact Hp.
Qed.

(* C02 over histories: from a load of the files, after any number of applied updates, the
   running HAProxy is observed slot by slot as if it had loaded the last configuration written *)
Theorem dyn_history_refines_reload : forall pre old b' run',
  layout_ok (b_eps old) ->
  history pre old (load (b_eps old)) b' run' ->
  forall n, obs pre run' n = obs pre (load (b_eps b')) n.
Proof.
  intros pre old b' run' Hl H.
  destruct (dyn_history_rel _ _ _ _ _ H Hl) as [R1 [[R2 _] _]].
  - apply slot_rel_load. destruct Hl; assumption.
  - apply slot_rel_obs; assumption.
Qed.

(* the hypotheses are satisfiable: scale 2 -> 1 -> 2, both updates applied, the second one
   reuses the first empty slot *)
Example history_example :
  let e k ip := mkE (srv_name k) ip 80 (ip ^^ ":80") true 1 (srv_name k) "" "" 0 "" in
  let back eps := mkB "b" cfg0 true 1 1 false "" 1 eps in
  let old := back [e 1%nat "10.0.0.1"; e 2%nat "10.0.0.2"; empty_endpoint 1 3] in
  let c1 := back [e 1%nat "10.0.0.1"] in
  let c2 := back [e 1%nat "10.0.0.1"; e 2%nat "10.0.0.9"] in
  let ok := fun _ : nat => AText "" in
  let r1 := check_backend_pair old c1 ok in
  let r2 := check_backend_pair (set_eps c1 (r_eps r1)) c2 ok in
  r_updated r1 = true /\ List.length (r_cmds r1) = 3%nat /\
  r_updated r2 = true /\ List.length (r_cmds r2) = 3%nat /\ map ep_name (r_eps r2) = ["srv001"; "srv003"; "srv002"].
Proof. vm_compute. repeat split; reflexivity. Qed.
