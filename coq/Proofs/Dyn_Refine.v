(* C02 dyn_refines_reload: replaying the commands checkBackendPair wrote on the simulated
   HAProxy gives, slot by slot, what HAProxy would hold after loading the new configuration;
   the layout invariant is preserved, so the statement composes over histories. *)
From Coq Require Import List String Ascii Bool Arith ZArith NArith Lia Permutation.
From HI Require Import Model.Dyn Proofs.Dyn_Base Proofs.Dyn_Pair.
Import ListNotations.
Open Scope string_scope.

(* ------------------------------------------------------------------ commands, slot by slot *)

Definition cmd_slot (c : cmd) : option string :=
  match c with
  | CAddr _ s _ _ | CState _ s _ | CWeight _ s _ => Some s
  | CSetCert _ _ | CCommit _ => None
  end.
Definition targets (n : string) (c : cmd) : bool :=
  match cmd_slot c with Some m => m =? n | None => false end.
Definition srv_apply (s : server) (c : cmd) : server :=
  match c with
  | CAddr _ _ ip p => mkS (s_name s) ip p (s_weight s) (s_adm s) (s_cookie s)
  | CState _ _ a => mkS (s_name s) (s_addr s) (s_port s) (s_weight s) a (s_cookie s)
  | CWeight _ _ w => mkS (s_name s) (s_addr s) (s_port s) w (s_adm s) (s_cookie s)
  | CSetCert _ _ | CCommit _ => s
  end.

Lemma lookup_upd : forall n m f st, (forall s, s_name (f s) = s_name s) ->
  lookup n (upd_server m f st) = if m =? n then option_map f (lookup n st) else lookup n st.
Proof.
  intros n m f st Hf. unfold lookup, upd_server.
  induction st as [|s st IH]; cbn [map find].
  - destruct (m =? n); reflexivity.
  - destruct (s_name s =? m) eqn:Em.
    + rewrite Hf. destruct (s_name s =? n) eqn:En.
      * apply String.eqb_eq in Em, En. subst. rewrite String.eqb_refl. reflexivity.
      * exact IH.
    + destruct (s_name s =? n) eqn:En.
      * apply String.eqb_eq in En. subst. rewrite String.eqb_sym, Em. reflexivity.
      * exact IH.
Qed.

Lemma lookup_apply_cmd : forall n st c,
  lookup n (apply_cmd st c) = if targets n c then option_map (fun s => srv_apply s c) (lookup n st) else lookup n st.
Proof.
  intros n st c. destruct c; cbn [apply_cmd targets cmd_slot srv_apply]; try reflexivity;
    rewrite lookup_upd by reflexivity; reflexivity.
Qed.

Lemma lookup_apply_cmds : forall n cs st,
  lookup n (apply_cmds st cs) =
  option_map (fun s => fold_left srv_apply (filter (targets n) cs) s) (lookup n st).
Proof.
  unfold apply_cmds. intros n cs; induction cs as [|c cs IH]; intros st; cbn [fold_left filter].
  - destruct (lookup n st); reflexivity.
  - rewrite IH, lookup_apply_cmd. destruct (targets n c); [|reflexivity].
    destruct (lookup n st); reflexivity.
Qed.

Lemma names_apply_cmd : forall st c, map s_name (apply_cmd st c) = map s_name st.
Proof.
  intros st c. destruct c as [b k ip p|b k a|b k w|f pl|f]; cbn [apply_cmd]; try reflexivity; unfold upd_server; rewrite map_map;
    apply map_ext; intros x; destruct (s_name x =? k); reflexivity.
Qed.

Lemma names_apply_cmds : forall cs st, map s_name (apply_cmds st cs) = map s_name st.
Proof.
  unfold apply_cmds. induction cs as [|c cs IH]; intros st; cbn [fold_left]; [reflexivity|].
  rewrite IH. apply names_apply_cmd.
Qed.

(* groups of commands, each addressed to one slot *)
Definition group := (string * list cmd)%type.
Definition group_ok (g : group) : Prop := Forall (fun c => cmd_slot c = Some (fst g)) (snd g).

Lemma filter_group_same : forall g, group_ok g -> filter (targets (fst g)) (snd g) = snd g.
Proof.
  intros [k cs] H. cbn [fst snd] in *. unfold group_ok in H. cbn [fst snd] in H.
  induction H as [|c cs Hc _ IH]; [reflexivity|]. cbn [filter]. unfold targets at 1. rewrite Hc, String.eqb_refl.
  f_equal. exact IH.
Qed.

Lemma filter_group_other : forall g n, group_ok g -> fst g <> n -> filter (targets n) (snd g) = [].
Proof.
  intros [k cs] n H Hne. cbn [fst snd] in *. unfold group_ok in H. cbn [fst snd] in H.
  induction H as [|c cs Hc _ IH]; [reflexivity|]. cbn [filter]. unfold targets at 1. rewrite Hc.
  destruct (String.eqb_spec k n); [contradiction|]. exact IH.
Qed.

Lemma filter_groups_notin : forall (gs : list group) n,
  Forall group_ok gs -> ~ In n (map fst gs) -> filter (targets n) (flat_map snd gs) = [].
Proof.
  induction gs as [|h gs IH]; intros n Hok Hn; [reflexivity|].
  inversion Hok as [|? ? Hh Hok']; subst. cbn [flat_map map] in *. rewrite filter_app.
  rewrite filter_group_other.
  - cbn [app]. apply IH; auto. intros Hc. apply Hn. right. exact Hc.
  - exact Hh.
  - intros Ec. apply Hn. left. exact Ec.
Qed.

Lemma filter_groups_in : forall (gs : list group) g,
  Forall group_ok gs -> NoDup (map fst gs) -> In g gs ->
  filter (targets (fst g)) (flat_map snd gs) = snd g.
Proof.
  induction gs as [|h gs IH]; intros g Hok Hn Hin; [contradiction|].
  inversion Hok as [|? ? Hh Hok']; subst. cbn [map] in Hn. inversion Hn as [|? ? Hx Hn']; subst.
  cbn [flat_map]. rewrite filter_app. destruct Hin as [->|Hin].
  - rewrite filter_group_same by exact Hh.
    rewrite (filter_groups_notin gs (fst g)) by auto.
    rewrite app_nil_r. reflexivity.
  - rewrite filter_group_other; auto.
    + cbn [app]. apply IH; auto.
    + intros Ec. apply Hx. rewrite Ec. apply in_map. exact Hin.
Qed.

(* ------------------------------------------------------------------ commands of a successful update *)

Definition pair_cmds (id : string) (p : endpoint * option endpoint) : list cmd :=
  match snd p with
  | None => disable_cmds id (fst p)
  | Some c => let c' := set_name c (ep_name (fst p)) in
              if ep_eqb (set_srcip (fst p) (ep_srcip c')) c' then [] else enable_cmds id c'
  end.
Definition fill_cmds (id : string) (f : endpoint * endpoint) : list cmd :=
  enable_cmds id (set_name (fst f) (ep_name (snd f))).

(* what a successful update guarantees about preserved cookies *)
Definition pair_cookie_ok (pre : bool) (p : endpoint * option endpoint) : Prop :=
  match snd p with
  | None => True
  | Some c => ep_eqb (set_srcip (fst p) (ep_srcip c)) (set_name c (ep_name (fst p))) = true \/
              (pre = true -> ep_cookie (fst p) = ep_cookie c)
  end.
Definition fill_cookie_ok (pre : bool) (f : endpoint * endpoint) : Prop :=
  pre = true -> ep_cookie (fst f) = ep_cookie (snd f).

Lemma cookie_test : forall pre a b, pre && negb (a =? b) = false -> pre = true -> a = b.
Proof.
  intros pre a b H Hp. subst pre. cbn in H. apply negb_false_iff in H. apply String.eqb_eq in H. exact H.
Qed.

Lemma exec_pairs_true : forall id pre ps resp n w,
  exec_pairs id pre ps resp n = (true, w) ->
  w = flat_map (pair_cmds id) ps /\ Forall (pair_cookie_ok pre) ps.
Proof.
  induction ps as [|[o [c|]] ps IH]; intros resp n w H; cbn [exec_pairs] in H.
  - inversion H; subst. split; [reflexivity|constructor].
  - destruct (check_endpoint_pair id pre o (set_name c (ep_name o)) resp n) as [ok w1] eqn:E1.
    destruct (exec_pairs id pre ps resp (n + List.length w1)) as [ok' w2] eqn:E2.
    inversion H as [[Hok Hw]]. subst w. apply andb_true_iff in Hok. destruct Hok as [-> ->].
    destruct (IH _ _ _ E2) as [-> Hc]. cbn [flat_map]. unfold pair_cmds at 1. cbn [fst snd].
    unfold check_endpoint_pair in E1. cbn [ep_srcip set_name] in *.
    destruct (ep_eqb (set_srcip o (ep_srcip c)) (set_name c (ep_name o))) eqn:Eq.
    + inversion E1; subst. split; [reflexivity|]. constructor; auto. left. exact Eq.
    + destruct (pre && negb (ep_cookie o =? ep_cookie (set_name c (ep_name o)))) eqn:Ck; [discriminate|].
      unfold exec_enable in E1.
      destruct (set_server_group (enable_cmds id (set_name c (ep_name o))) resp n) as [ok w'] eqn:E.
      inversion E1 as [[Hok Hw]]. subst w'.
      apply andb_true_iff in Hok. destruct Hok as [Hok _]. apply andb_true_iff in Hok. destruct Hok as [-> _].
      apply set_server_group_ok in E. destruct E as [-> _].
      split; [reflexivity|]. constructor; auto. right. cbn [fst snd]. intros Hp.
      eapply cookie_test in Ck; eauto.
  - unfold exec_disable in H.
    destruct (set_server_group (disable_cmds id o) resp n) as [ok w1] eqn:E1.
    destruct (exec_pairs id pre ps resp (n + List.length w1)) as [ok' w2] eqn:E2.
    inversion H as [[Hok Hw]]. subst w. apply andb_true_iff in Hok. destruct Hok as [Hok ->].
    apply andb_true_iff in Hok. destruct Hok as [-> _].
    apply set_server_group_ok in E1. destruct E1 as [-> _].
    destruct (IH _ _ _ E2) as [-> Hc]. split; [reflexivity|]. constructor; auto. exact I.
Qed.

Lemma exec_fills_true : forall id pre fs resp n w,
  exec_fills id pre fs resp n = (true, w) ->
  w = flat_map (fill_cmds id) fs /\ Forall (fill_cookie_ok pre) fs.
Proof.
  induction fs as [|[c e] fs IH]; intros resp n w H; cbn [exec_fills] in H.
  - inversion H; subst. split; [reflexivity|constructor].
  - destruct (pre && negb (ep_cookie c =? ep_cookie e)) eqn:Ck.
    + destruct (exec_fills id pre fs resp n) as [ok' w']. discriminate.
    + unfold exec_enable in H.
      destruct (set_server_group (enable_cmds id (set_name c (ep_name e))) resp n) as [ok w1] eqn:E1.
      destruct (exec_fills id pre fs resp (n + List.length w1)) as [ok' w2] eqn:E2.
      inversion H as [[Hok Hw]]. subst w. apply andb_true_iff in Hok. destruct Hok as [Hok ->].
      apply andb_true_iff in Hok. destruct Hok as [-> _].
      apply set_server_group_ok in E1. destruct E1 as [-> _].
      destruct (IH _ _ _ E2) as [-> Hc]. split; [reflexivity|]. constructor; auto.
      unfold fill_cookie_ok. cbn [fst snd]. intros Hp. eapply cookie_test in Ck; eauto.
Qed.

Definition pair_group (id : string) (p : endpoint * option endpoint) : group := (ep_name (fst p), pair_cmds id p).
Definition fill_group (id : string) (f : endpoint * endpoint) : group := (ep_name (snd f), fill_cmds id f).

Lemma pair_group_ok : forall id p, group_ok (pair_group id p).
Proof.
  intros id [o [c|]]; unfold group_ok, pair_group, pair_cmds; cbn [fst snd].
  - destruct (ep_eqb _ _); [constructor|]. repeat constructor.
  - repeat constructor.
Qed.
Lemma fill_group_ok : forall id f, group_ok (fill_group id f).
Proof. intros id [c e]; unfold group_ok, fill_group, fill_cmds; cbn [fst snd]. repeat constructor. Qed.

Lemma flat_map_groups : forall {A} (g : A -> group) l, flat_map snd (map g l) = flat_map (fun x => snd (g x)) l.
Proof. induction l as [|x l IH]; cbn [map flat_map]; [reflexivity|]. rewrite IH. reflexivity. Qed.

(* ------------------------------------------------------------------ effect of a group on a server *)

Lemma apply_enable : forall id c s,
  fold_left srv_apply (enable_cmds id c) s =
  mkS (s_name s) (ep_ip c) (ep_port c) (ep_weight c) (if (0 <? ep_weight c)%Z then Ready else Drain) (s_cookie s).
Proof. reflexivity. Qed.

Lemma apply_disable : forall id o s,
  fold_left srv_apply (disable_cmds id o) s = mkS (s_name s) "127.0.0.1" 1023 0 Maint (s_cookie s).
Proof. reflexivity. Qed.

(* ------------------------------------------------------------------ the relation running state / layout *)

(* server s is what HAProxy holds for the slot written as endpoint e, as far as the property
   observes: same name; disabled <-> maintenance; for an enabled slot the address, the port and
   the effective weight; the cookie value when cookies are preserved *)
Definition ep_rel (pre : bool) (s : server) (e : endpoint) : Prop :=
  s_name s = ep_name e /\
  (ep_enabled e = false -> s_adm s = Maint) /\
  (ep_enabled e = true -> s_adm s <> Maint /\ s_addr s = ep_ip e /\ s_port s = ep_port e /\ eff_weight s = ep_weight e) /\
  (pre = true -> s_cookie s = ep_cookie e).

Definition slot_rel (pre : bool) (run : run_state) (eps : list endpoint) : Prop :=
  Permutation (map s_name run) (map ep_name eps) /\
  forall e, In e eps -> exists s, lookup (ep_name e) run = Some s /\ ep_rel pre s e.

Lemma ep_rel_load : forall pre e, ep_rel pre (load_ep e) e.
Proof.
  intros pre e. unfold ep_rel, load_ep, eff_weight. cbn [s_name s_adm s_addr s_port s_weight s_cookie].
  repeat split; auto.
  - intros ->. reflexivity.
  - rewrite H. discriminate.
  - rewrite H. reflexivity.
Qed.

Lemma lookup_load : forall eps e, NoDup (map ep_name eps) -> In e eps -> lookup (ep_name e) (load eps) = Some (load_ep e).
Proof.
  induction eps as [|x eps IH]; intros e Hn Hin; [contradiction|].
  cbn [map] in Hn. inversion Hn as [|? ? Hx Hn']; subst.
  unfold load, lookup. cbn [map find]. cbn [load_ep s_name].
  destruct Hin as [->|Hin].
  - rewrite String.eqb_refl. reflexivity.
  - destruct (String.eqb_spec (ep_name x) (ep_name e)) as [E|_].
    + exfalso. apply Hx. rewrite E. apply in_map. exact Hin.
    + apply IH; auto.
Qed.

(* loading the files gives a state related to the layout they were rendered from *)
Lemma slot_rel_load : forall pre eps, NoDup (map ep_name eps) -> slot_rel pre (load eps) eps.
Proof.
  intros pre eps Hn. split.
  - unfold load. rewrite map_map. cbn [load_ep s_name]. reflexivity.
  - intros e Hin. exists (load_ep e). split; [apply lookup_load; auto|apply ep_rel_load].
Qed.

Lemma lookup_none_notin : forall n st, lookup n st = None -> ~ In n (map s_name st).
Proof.
  unfold lookup. intros n st H Hin. apply in_map_iff in Hin. destruct Hin as [s [E Hs]].
  eapply find_none in H; eauto. cbn in H. rewrite E, String.eqb_refl in H. discriminate.
Qed.

Lemma lookup_some_name : forall n st s, lookup n st = Some s -> s_name s = n /\ In s st.
Proof.
  unfold lookup. intros n st s H. apply find_some in H. destruct H as [Hi E]. apply String.eqb_eq in E. auto.
Qed.

Lemma lookup_ep_nodup : forall eps e, NoDup (map ep_name eps) -> In e eps ->
  find (fun x => ep_name x =? ep_name e) eps = Some e.
Proof.
  induction eps as [|x eps IH]; intros e Hn Hin; [contradiction|].
  cbn [map] in Hn. inversion Hn as [|? ? Hx Hn']; subst. cbn [find].
  destruct Hin as [->|Hin].
  - rewrite String.eqb_refl. reflexivity.
  - destruct (String.eqb_spec (ep_name x) (ep_name e)) as [E|_].
    + exfalso. apply Hx. rewrite E. apply in_map. exact Hin.
    + apply IH; auto.
Qed.

(* related states are indistinguishable by the property's observation, slot by slot *)
Theorem slot_rel_obs : forall pre run eps, NoDup (map ep_name eps) -> slot_rel pre run eps ->
  forall n, obs pre run n = obs pre (load eps) n.
Proof.
  intros pre run eps Hn [Hp Hr] n. unfold obs.
  destruct (in_dec string_dec n (map ep_name eps)) as [Hin|Hnot].
  - apply in_map_iff in Hin. destruct Hin as [e [<- He]].
    destruct (Hr e He) as [s [Hl [Hname [Hdis [Hen Hck]]]]]. rewrite Hl, lookup_load by auto.
    cbn [option_map]. f_equal. unfold obs_slot, load_ep, eff_weight. cbn [s_adm s_addr s_port s_weight s_cookie].
    destruct (ep_enabled e) eqn:En.
    + destruct (Hen eq_refl) as [Hm [Ha [Hpo Hw]]]. unfold eff_weight in Hw.
      destruct (s_adm s) eqn:Ad; try contradiction; rewrite Ha, Hpo, <- Hw; destruct pre; try rewrite (Hck eq_refl); reflexivity.
    + rewrite (Hdis eq_refl). reflexivity.
  - assert (L1 : lookup n run = None).
    { destruct (lookup n run) eqn:L; auto. apply lookup_some_name in L. destruct L as [E Hi].
      exfalso. apply Hnot. eapply Permutation_in; [exact Hp|]. rewrite <- E. apply in_map. exact Hi. }
    assert (L2 : lookup n (load eps) = None).
    { destruct (lookup n (load eps)) eqn:L; auto. apply lookup_some_name in L. destruct L as [E Hi].
      exfalso. apply Hnot. unfold load in Hi. apply in_map_iff in Hi. destruct Hi as [e [<- He]].
      cbn [load_ep s_name] in E. rewrite <- E. apply in_map. exact He. }
    rewrite L1, L2. reflexivity.
Qed.
