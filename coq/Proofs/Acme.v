(* Proofs about Model/Acme.v (property C17) *)
From Coq Require Import ZArith NArith List Bool String Ascii Lia.
From HI Require Import Model.Acme.
Import ListNotations.
Open Scope string_scope.

(* ================================================================== signer *)

Lemma covers_false_iff dns domains :
  covers dns domains = false <-> exists d, In d domains /\ verify_hostname dns d = false.
Proof.
  unfold covers. induction domains as [|d t IH]; cbn [forallb].
  - split; [discriminate|intros (d & [] & _)].
  - destruct (verify_hostname dns d) eqn:E; cbn [andb].
    + rewrite IH. split.
      * intros (x & Hx & Hf). exists x. split; [right; exact Hx|exact Hf].
      * intros (x & [<-|Hx] & Hf); [congruence|]. exists x. auto.
    + split; [intros _; exists d; split; [left; reflexivity|exact E]|reflexivity].
Qed.

(* the certificate state asks for a signature *)
Definition needs_sign (now expiring : Z) (sec : secret_state) (domains : list string) : Prop :=
  sec = None \/
  exists not_after dns, sec = Some (not_after, dns) /\
    ((not_after < now + expiring)%Z \/ exists d, In d domains /\ verify_hostname dns d = false).

Lemma decision_none_iff now expiring sec domains :
  verify_decision now expiring sec domains = RNone <-> ~ needs_sign now expiring sec domains.
Proof.
  unfold verify_decision, needs_sign. destruct sec as [[na dns]|].
  - destruct (Z.ltb_spec na (now + expiring)) as [Hlt|Hge].
    + split; [discriminate|]. intros H. exfalso. apply H. right. exists na, dns. auto.
    + destruct (covers dns domains) eqn:Ec; cbn [negb].
      * split; [|reflexivity]. intros _ [H|(na' & dns' & H & [Hlt|Hd])]; [discriminate| |].
        -- injection H as <- <-. lia.
        -- injection H as <- <-. apply covers_false_iff in Hd. congruence.
      * split; [discriminate|]. intros H. exfalso. apply H. right. exists na, dns.
        split; [reflexivity|]. right. apply covers_false_iff. exact Ec.
  - split; [discriminate|]. intros H. exfalso. apply H. left. reflexivity.
Qed.

Lemma decision_needs now expiring sec domains :
  verify_decision now expiring sec domains <> RNone -> needs_sign now expiring sec domains.
Proof.
  unfold verify_decision, needs_sign. destruct sec as [[na dns]|]; [|left; reflexivity].
  intros H. right. exists na, dns. split; [reflexivity|].
  destruct (Z.ltb_spec na (now + expiring)); [left; lia|].
  right. apply covers_false_iff. destruct (covers dns domains); [|reflexivity].
  exfalso. apply H. reflexivity.
Qed.

Lemma needs_sign_dec now expiring sec domains :
  needs_sign now expiring sec domains \/ ~ needs_sign now expiring sec domains.
Proof.
  destruct (verify_decision now expiring sec domains) eqn:E.
  - right. apply decision_none_iff. exact E.
  - left. apply decision_needs. congruence.
  - left. apply decision_needs. congruence.
  - left. apply decision_needs. congruence.
Qed.

Lemma verify_signs now expiring sec ans secret chain domains :
  let out := verify now expiring sec ans secret chain domains in
  (needs_sign now expiring sec domains -> o_signs out = [(domains, chain)]) /\
  (~ needs_sign now expiring sec domains -> o_signs out = [] /\ o_sets out = [] /\ o_err out = 0%N).
Proof.
  cbv zeta. unfold verify. split.
  - intros Hn. destruct (verify_decision now expiring sec domains) eqn:E.
    + apply decision_none_iff in E. contradiction.
    + destruct (a_crt ans && a_key ans); reflexivity.
    + destruct (a_crt ans && a_key ans); reflexivity.
    + destruct (a_crt ans && a_key ans); reflexivity.
  - intros Hn. apply decision_none_iff in Hn. rewrite Hn. auto.
Qed.

Lemma verify_sets now expiring sec ans secret chain domains :
  let out := verify now expiring sec ans secret chain domains in
  (o_sets out = [secret] \/ o_sets out = []) /\
  (o_sets out = [secret] <->
   o_signs out = [(domains, chain)] /\ a_crt ans = true /\ a_key ans = true).
Proof.
  cbv zeta. unfold verify.
  destruct (verify_decision now expiring sec domains);
    [split; [right; reflexivity|split; [discriminate|intros (H & _); discriminate]]|..];
    destruct (a_crt ans) eqn:Ec, (a_key ans) eqn:Ek; cbn [andb o_sets o_signs];
    (split; [auto|]); split; try discriminate; auto; intros (_ & H1 & H2); discriminate.
Qed.

(* item = "secret,chain,domain,..." as built by buildAcmeStorages *)
Lemma notify_verify now expiring sec ans item secret chain domains :
  split "," item = secret :: chain :: domains ->
  notify true now expiring sec ans item = verify now expiring sec ans secret chain domains.
Proof. intros H. unfold notify. cbn [negb]. rewrite H. reflexivity. Qed.

Lemma sign_iff now expiring sec ans item secret chain domains :
  split "," item = secret :: chain :: domains ->
  let out := notify true now expiring sec ans item in
  (o_signs out = [(domains, chain)] \/ o_signs out = []) /\
  (o_signs out = [(domains, chain)] <->
     sec = None \/
     exists not_after dns, sec = Some (not_after, dns) /\
       ((not_after < now + expiring)%Z \/ exists d, In d domains /\ verify_hostname dns d = false)).
Proof.
  intros H. cbv zeta. rewrite (notify_verify _ _ _ _ _ _ _ _ H).
  pose proof (verify_signs now expiring sec ans secret chain domains) as [Hy Hn]. cbv zeta in Hy, Hn.
  fold (needs_sign now expiring sec domains).
  destruct (needs_sign_dec now expiring sec domains) as [N|N].
  - split; [left; auto|]. split; auto.
  - destruct (Hn N) as (E & _). split; [right; exact E|]. split; [rewrite E; discriminate|contradiction].
Qed.

Lemma store_only_complete now expiring sec ans item secret chain domains :
  split "," item = secret :: chain :: domains ->
  let out := notify true now expiring sec ans item in
  (o_sets out = [secret] \/ o_sets out = []) /\
  (o_sets out = [secret] <->
   o_signs out = [(domains, chain)] /\ a_crt ans = true /\ a_key ans = true).
Proof.
  intros H. cbv zeta. rewrite (notify_verify _ _ _ _ _ _ _ _ H). apply verify_sets.
Qed.

(* a certificate that is still valid at now + expiring (the boundary instant included) and
   covers every domain is left alone *)
Lemma valid_certificate_untouched now expiring ans item secret chain domains not_after dns :
  split "," item = secret :: chain :: domains ->
  (now + expiring <= not_after)%Z ->
  (forall d, In d domains -> verify_hostname dns d = true) ->
  let out := notify true now expiring (Some (not_after, dns)) ans item in
  o_signs out = [] /\ o_sets out = [] /\ o_err out = 0%N.
Proof.
  intros H Hna Hcov. cbv zeta. rewrite (notify_verify _ _ _ _ _ _ _ _ H).
  apply verify_signs. intros [E|(na & d & E & [Hlt|(x & Hx & Hf)])]; [discriminate| |].
  - injection E as <- <-. lia.
  - injection E as <- <-. rewrite (Hcov x Hx) in Hf. discriminate.
Qed.

Lemma no_account_no_call now expiring sec ans item :
  let out := notify false now expiring sec ans item in
  o_signs out = [] /\ o_sets out = [] /\ o_err out = 1%N.
Proof. cbv zeta. unfold notify. cbn [negb]. auto. Qed.

(* the hypotheses are satisfiable, and the boundary is strict: notAfter = now + expiring is kept *)
Example sign_iff_example :
  split "," "d/s1,chain1,a.example,www.a.example" = ["d/s1"; "chain1"; "a.example"; "www.a.example"] /\
  o_signs (notify true 1000 500 (Some (1500%Z, ["a.example"; "*.a.example"]))
             {| a_crt := true; a_key := true; a_err := false; a_set_err := false |}
             "d/s1,chain1,a.example,www.a.example") = [] /\
  o_signs (notify true 1000 500 (Some (1499%Z, ["a.example"; "*.a.example"]))
             {| a_crt := true; a_key := true; a_err := false; a_set_err := false |}
             "d/s1,chain1,a.example,www.a.example") = [(["a.example"; "www.a.example"], "chain1")] /\
  o_signs (notify true 1000 500 (Some (9999%Z, ["*.a.example"]))
             {| a_crt := true; a_key := true; a_err := false; a_set_err := false |}
             "d/s1,chain1,a.example,www.a.example") = [(["a.example"; "www.a.example"], "chain1")].
Proof. vm_compute. auto. Qed.

(* ================================================================== host name matching *)

(* after the first label, pattern and host labels must be equal *)
Lemma parts_match_succ i a b : parts_match (S i) a b = true <-> a = b.
Proof.
  revert i b. induction a as [|x t IH]; intros i [|y u]; cbn [parts_match]; try (split; [discriminate|congruence]).
  - split; reflexivity.
  - cbn [Nat.eqb andb orb]. rewrite andb_true_iff, String.eqb_eq, IH. split; [intros [-> ->]; reflexivity|].
    intros E. injection E; auto.
Qed.

(* the wildcard stands for exactly one label, the left-most one *)
Lemma parts_match_zero p pt h ht :
  parts_match 0 (p :: pt) (h :: ht) = true <-> (p = "*" \/ p = h) /\ pt = ht.
Proof.
  cbn [parts_match Nat.eqb andb]. rewrite andb_true_iff, orb_true_iff, !String.eqb_eq, parts_match_succ.
  tauto.
Qed.

Lemma parts_match_length i a b : parts_match i a b = true -> List.length a = List.length b.
Proof.
  revert i b. induction a as [|x t IH]; intros i [|y u]; cbn [parts_match List.length]; try discriminate; auto.
  rewrite andb_true_iff. intros [_ H]. f_equal. exact (IH _ _ H).
Qed.

(* ================================================================== association lists *)

Definition keys (m : smap) : list string := map fst m.

Lemma lookup_remove_eq n m : lookup n (remove n m) = None.
Proof.
  induction m as [|[k v] t IH]; cbn [remove lookup]; [reflexivity|].
  destruct (String.eqb_spec n k); [exact IH|]. cbn [lookup].
  destruct (String.eqb_spec n k); [contradiction|exact IH].
Qed.

Lemma lookup_remove_neq n k m : k <> n -> lookup k (remove n m) = lookup k m.
Proof.
  intros Hne. induction m as [|[x v] t IH]; cbn [remove lookup]; [reflexivity|].
  destruct (String.eqb_spec n x) as [->|Hnx].
  - destruct (String.eqb_spec k x); [contradiction|exact IH].
  - cbn [lookup]. destruct (String.eqb_spec k x); [reflexivity|exact IH].
Qed.

Lemma lookup_set_eq n v m : lookup n (set n v m) = Some v.
Proof. unfold set. cbn [lookup]. rewrite String.eqb_refl. reflexivity. Qed.

Lemma lookup_set_neq n k v m : k <> n -> lookup k (set n v m) = lookup k m.
Proof.
  intros Hne. unfold set. cbn [lookup]. destruct (String.eqb_spec k n); [contradiction|].
  apply lookup_remove_neq. exact Hne.
Qed.

Lemma in_keys_remove n k m : In k (keys (remove n m)) -> In k (keys m) /\ k <> n.
Proof.
  induction m as [|[x v] t IH]; cbn [remove keys map]; [intros []|].
  destruct (String.eqb_spec n x) as [->|Hnx].
  - intros H. destruct (IH H). split; [right; assumption|assumption].
  - cbn [map fst]. intros [<-|H]; [split; [left; reflexivity|congruence]|].
    destruct (IH H). split; [right; assumption|assumption].
Qed.

Lemma nodup_remove n m : NoDup (keys m) -> NoDup (keys (remove n m)).
Proof.
  induction m as [|[x v] t IH]; cbn [remove keys map fst]; [auto|].
  intros H. inversion H as [|? ? Hni Hnd]; subst.
  destruct (String.eqb_spec n x); [apply IH; exact Hnd|].
  cbn [map fst]. constructor; [|apply IH; exact Hnd].
  intros Hin. apply in_keys_remove in Hin as [Hin _]. contradiction.
Qed.

Lemma nodup_set n v m : NoDup (keys m) -> NoDup (keys (set n v m)).
Proof.
  intros H. unfold set. cbn [keys map fst]. constructor; [|apply nodup_remove; exact H].
  intros Hin. apply in_keys_remove in Hin as [_ Hne]. congruence.
Qed.

Lemma lookup_none_notin n m : lookup n m = None <-> ~ In n (keys m).
Proof.
  induction m as [|[k v] t IH]; cbn [lookup keys map fst]; [tauto|].
  destruct (String.eqb_spec n k) as [->|Hne].
  - split; [discriminate|]. intros H. exfalso. apply H. left. reflexivity.
  - rewrite IH. split; [intros H [E|Hin]; [congruence|contradiction]|intros H Hin; apply H; right; exact Hin].
Qed.

Lemma in_lookup n c m : NoDup (keys m) -> (In (n, c) m <-> lookup n m = Some c).
Proof.
  induction m as [|[k v] t IH]; cbn [lookup keys map fst In]; [intros _; split; [intros []|discriminate]|].
  intros H. inversion H as [|? ? Hni Hnd]; subst.
  destruct (String.eqb_spec n k) as [->|Hne].
  - split.
    + intros [E|Hin]; [injection E as <-; reflexivity|].
      exfalso. apply Hni. change k with (fst (k, c)). apply in_map. exact Hin.
    + intros E. injection E as <-. left. reflexivity.
  - rewrite <- (IH Hnd). split; [intros [E|Hin]; [congruence|exact Hin]|intros Hin; right; exact Hin].
Qed.

Lemma nodup_filter f (m : smap) : NoDup (keys m) -> NoDup (keys (filter f m)).
Proof.
  induction m as [|[k v] t IH]; cbn [filter keys map fst]; [auto|].
  intros H. inversion H as [|? ? Hni Hnd]; subst.
  destruct (f (k, v)); [|apply IH; exact Hnd].
  cbn [map fst]. constructor; [|apply IH; exact Hnd].
  intros Hin. apply Hni. unfold keys in *. apply in_map_iff in Hin as ([k' v'] & E & Hin).
  apply filter_In in Hin as [Hin _]. cbn [fst] in E. subst k'. change k with (fst (k, v')). apply in_map. exact Hin.
Qed.

Lemma acert_eqb_eq a b : acert_eqb a b = true <-> a = b.
Proof.
  unfold acert_eqb. destruct a as [d1 c1], b as [d2 c2]. cbn [doms chain].
  destruct (list_eq_dec string_dec d1 d2) as [->|Hne]; cbn [andb].
  - rewrite String.eqb_eq. split; [intros ->; reflexivity|intros E; injection E; auto].
  - split; [discriminate|intros E; injection E; intros; contradiction].
Qed.

Lemma same_in_spec m n c : same_in m (n, c) = true <-> lookup n m = Some c.
Proof.
  unfold same_in. cbn [fst snd]. destruct (lookup n m) as [v|].
  - rewrite acert_eqb_eq. split; [intros ->; reflexivity|intros E; injection E; auto].
  - split; discriminate.
Qed.

(* ================================================================== storages: one reconciliation *)

Definition wf (st : storages) : Prop :=
  NoDup (keys (items st)) /\ NoDup (keys (iadd st)) /\ NoDup (keys (idel st)).

(* the state between two reconciliations: everything committed *)
Definition committed (st : storages) : Prop :=
  NoDup (keys (items st)) /\ iadd st = [] /\ idel st = [] /\ full st = false.

(* invariant of a partial sync that started from the committed storages m0 *)
Record pinv (m0 : smap) (st : storages) : Prop := {
  p_wf : wf st;
  p_full : full st = false;
  p_add : forall n a, lookup n (iadd st) = Some a -> lookup n (items st) = Some a;
  p_del : forall n d, lookup n (idel st) = Some d -> lookup n m0 = Some d;
  p_same : forall n, lookup n (iadd st) = None -> lookup n (idel st) = None ->
                     lookup n (items st) = lookup n m0;
  p_gone : forall n d, lookup n (iadd st) = None -> lookup n (idel st) = Some d ->
                       lookup n (items st) = None;
  p_new : forall n a, lookup n (iadd st) = Some a -> lookup n (idel st) = None ->
                      lookup n m0 = None }.

Lemma pinv_committed st : committed st -> pinv (items st) st.
Proof.
  intros (Hnd & Ha & Hd & Hf). constructor; rewrite ?Ha, ?Hd; cbn [lookup]; try discriminate; auto.
  repeat split; rewrite ?Ha, ?Hd; cbn [keys map]; auto using NoDup_nil.
Qed.

Lemma pinv_remove_one m0 st n :
  pinv m0 st -> lookup n (iadd st) = None -> pinv m0 (remove_one st n).
Proof.
  intros [[Hi [Ha Hd]] Hf Hadd Hdel Hsame Hgone Hnew] Hna. unfold remove_one.
  destruct (lookup n (items st)) as [c|] eqn:E; [|constructor; auto; repeat split; auto].
  assert (Hm0 : lookup n m0 = Some c).
  { destruct (lookup n (idel st)) as [d|] eqn:Ed.
    - rewrite (Hgone n d Hna Ed) in E. discriminate.
    - rewrite <- (Hsame n Hna Ed). exact E. }
  constructor; cbn [items iadd idel full].
  - repeat split; cbn [items iadd idel]; auto using nodup_remove, nodup_set.
  - exact Hf.
  - intros k a Hk. destruct (string_dec k n) as [->|Hne]; [congruence|].
    rewrite lookup_remove_neq by exact Hne. auto.
  - intros k d. destruct (string_dec k n) as [->|Hne].
    + rewrite lookup_set_eq. intros H. injection H as <-. exact Hm0.
    + rewrite lookup_set_neq by exact Hne. auto.
  - intros k Hka. destruct (string_dec k n) as [->|Hne].
    + rewrite lookup_set_eq. discriminate.
    + rewrite lookup_set_neq, lookup_remove_neq by exact Hne. auto.
  - intros k d Hka. destruct (string_dec k n) as [->|Hne].
    + intros _. apply lookup_remove_eq.
    + rewrite lookup_set_neq, lookup_remove_neq by exact Hne. eauto.
  - intros k a Hka. destruct (string_dec k n) as [->|Hne]; [congruence|].
    rewrite lookup_set_neq by exact Hne. eauto.
Qed.

Lemma remove_one_iadd st n : iadd (remove_one st n) = iadd st.
Proof. unfold remove_one. destruct (lookup n (items st)); reflexivity. Qed.

Lemma pinv_remove_all m0 names : forall st,
  pinv m0 st -> iadd st = [] -> pinv m0 (remove_all names st) /\ iadd (remove_all names st) = [].
Proof.
  unfold remove_all. induction names as [|n t IH]; cbn [fold_left]; intros st Hp Ha; [auto|].
  apply IH.
  - apply pinv_remove_one; [exact Hp|rewrite Ha; reflexivity].
  - rewrite remove_one_iadd. exact Ha.
Qed.

Lemma pinv_acquire m0 st n ds ch : pinv m0 st -> pinv m0 (acquire n ds ch st).
Proof.
  intros [[Hi [Ha Hd]] Hf Hadd Hdel Hsame Hgone Hnew]. unfold acquire, mem.
  destruct (lookup n (items st)) as [c0|] eqn:E.
  - destruct (lookup n (iadd st)) as [a0|] eqn:Ea.
    + (* being changed in this cycle already *)
      constructor; cbn [items iadd idel full]; auto.
      * repeat split; cbn [items iadd idel]; auto using nodup_set.
      * intros k a. destruct (string_dec k n) as [->|Hne].
        -- rewrite !lookup_set_eq. auto.
        -- rewrite !lookup_set_neq by exact Hne. auto.
      * intros k. destruct (string_dec k n) as [->|Hne].
        -- rewrite lookup_set_eq. discriminate.
        -- rewrite !lookup_set_neq by exact Hne. auto.
      * intros k d. destruct (string_dec k n) as [->|Hne].
        -- rewrite lookup_set_eq. discriminate.
        -- rewrite !lookup_set_neq by exact Hne. eauto.
      * intros k a. destruct (string_dec k n) as [->|Hne].
        -- intros _ Hkd. exact (Hnew n a0 Ea Hkd).
        -- rewrite lookup_set_neq by exact Hne. eauto.
    + (* committed storage, cloned *)
      assert (Hnd : lookup n (idel st) = None).
      { destruct (lookup n (idel st)) as [d|] eqn:Ed; [|reflexivity].
        rewrite (Hgone n d Ea Ed) in E. discriminate. }
      assert (Hm0 : lookup n m0 = Some c0) by (rewrite <- (Hsame n Ea Hnd); exact E).
      constructor; cbn [items iadd idel full]; auto.
      * repeat split; cbn [items iadd idel]; auto using nodup_set.
      * intros k a. destruct (string_dec k n) as [->|Hne].
        -- rewrite !lookup_set_eq. auto.
        -- rewrite !lookup_set_neq by exact Hne. auto.
      * intros k d. destruct (string_dec k n) as [->|Hne].
        -- rewrite lookup_set_eq. intros H. injection H as <-. exact Hm0.
        -- rewrite lookup_set_neq by exact Hne. auto.
      * intros k. destruct (string_dec k n) as [->|Hne].
        -- rewrite lookup_set_eq. discriminate.
        -- rewrite !lookup_set_neq by exact Hne. auto.
      * intros k d. destruct (string_dec k n) as [->|Hne].
        -- rewrite lookup_set_eq. discriminate.
        -- rewrite !lookup_set_neq by exact Hne. eauto.
      * intros k a. destruct (string_dec k n) as [->|Hne].
        -- rewrite !lookup_set_eq. discriminate.
        -- rewrite !lookup_set_neq by exact Hne. eauto.
  - (* not wanted so far: new storage *)
    assert (Ea : lookup n (iadd st) = None).
    { destruct (lookup n (iadd st)) as [a|] eqn:Ea; [|reflexivity].
      rewrite (Hadd n a Ea) in E. discriminate. }
    constructor; cbn [items iadd idel full]; auto.
    + repeat split; cbn [items iadd idel]; auto using nodup_set.
    + intros k a. destruct (string_dec k n) as [->|Hne].
      * rewrite !lookup_set_eq. auto.
      * rewrite !lookup_set_neq by exact Hne. auto.
    + intros k. destruct (string_dec k n) as [->|Hne].
      * rewrite lookup_set_eq. discriminate.
      * rewrite !lookup_set_neq by exact Hne. auto.
    + intros k d. destruct (string_dec k n) as [->|Hne].
      * rewrite lookup_set_eq. discriminate.
      * rewrite !lookup_set_neq by exact Hne. eauto.
    + intros k a. destruct (string_dec k n) as [->|Hne].
      * intros _ Hkd. rewrite <- (Hsame n Ea Hkd). exact E.
      * rewrite lookup_set_neq by exact Hne. eauto.
Qed.

Lemma pinv_acqs m0 acqs : forall st, pinv m0 st -> pinv m0 (fold_left do_acq acqs st).
Proof.
  induction acqs as [|[[n ds] ch] t IH]; cbn [fold_left]; intros st H; [exact H|].
  apply IH. cbn [do_acq]. apply pinv_acquire. exact H.
Qed.

Lemma in_filter_lookup f (m : smap) n c :
  NoDup (keys m) -> (In (n, c) (filter f m) <-> lookup n m = Some c /\ f (n, c) = true).
Proof. intros H. rewrite filter_In, (in_lookup n c m H). tauto. Qed.

(* what AcmeUpdate passes to the queue after a partial sync *)
Lemma pinv_shrink m0 st :
  pinv m0 st ->
  NoDup (keys (iadd (shrink st))) /\ NoDup (keys (idel (shrink st))) /\
  (forall n c, In (n, c) (iadd (shrink st)) <->
               lookup n (items st) = Some c /\ lookup n m0 <> Some c) /\
  (forall n c, In (n, c) (idel (shrink st)) <->
               lookup n m0 = Some c /\ lookup n (items st) <> Some c).
Proof.
  intros [[Hi [Ha Hd]] Hf Hadd Hdel Hsame Hgone Hnew]. unfold shrink. rewrite Hf. cbn [iadd idel].
  split; [apply nodup_filter; exact Ha|]. split; [apply nodup_filter; exact Hd|]. split.
  - intros n c. rewrite in_filter_lookup by exact Ha. rewrite negb_true_iff.
    rewrite <- not_true_iff_false, same_in_spec. split.
    + intros [Hna Hnd]. split; [auto|].
      destruct (lookup n (idel st)) as [d|] eqn:Ed.
      * rewrite (Hdel n d Ed). congruence.
      * rewrite (Hnew n c Hna Ed). discriminate.
    + intros [Hni Hn0].
      destruct (lookup n (iadd st)) as [a|] eqn:Ea.
      * pose proof (Hadd n a Ea) as H. rewrite Hni in H. injection H as <-.
        split; [reflexivity|]. intros Hd'. apply Hn0. exact (Hdel n c Hd').
      * exfalso. destruct (lookup n (idel st)) as [d|] eqn:Ed.
        -- rewrite (Hgone n d Ea Ed) in Hni. discriminate.
        -- rewrite (Hsame n Ea Ed) in Hni. contradiction.
  - intros n c. rewrite in_filter_lookup by exact Hd. rewrite negb_true_iff.
    rewrite <- not_true_iff_false, same_in_spec. split.
    + intros [Hnd Hna]. split; [auto|].
      destruct (lookup n (iadd st)) as [a|] eqn:Ea.
      * rewrite (Hadd n a Ea). congruence.
      * rewrite (Hgone n c Ea Hnd). discriminate.
    + intros [Hn0 Hni].
      destruct (lookup n (idel st)) as [d|] eqn:Ed.
      * pose proof (Hdel n d Ed) as H. rewrite Hn0 in H. injection H as <-.
        split; [reflexivity|]. intros Ha'. apply Hni. exact (Hadd n c Ha').
      * exfalso. destruct (lookup n (iadd st)) as [a|] eqn:Ea.
        -- rewrite (Hnew n a Ea Ed) in Hn0. discriminate.
        -- rewrite (Hsame n Ea Ed) in Hni. contradiction.
Qed.

(* invariant of a full sync that started from the committed storages m0 *)
Record finv (m0 : smap) (st : storages) : Prop := {
  f_wf : wf st;
  f_full : full st = true;
  f_add : forall n, lookup n (iadd st) = lookup n (items st);
  f_del : forall n, lookup n (idel st) = lookup n m0 }.

Lemma fold_set_lookup (m : smap) : forall d0 n,
  NoDup (keys m) ->
  lookup n (fold_left (fun d e => set (fst e) (snd e) d) m d0) =
  match lookup n m with Some c => Some c | None => lookup n d0 end.
Proof.
  induction m as [|[k v] t IH]; cbn [fold_left lookup fst snd]; intros d0 n H; [reflexivity|].
  inversion H as [|? ? Hni Hnd]; subst. rewrite (IH _ _ Hnd).
  destruct (String.eqb_spec n k) as [->|Hne].
  - apply lookup_none_notin in Hni. rewrite Hni. apply lookup_set_eq.
  - destruct (lookup n t); [reflexivity|]. apply lookup_set_neq. exact Hne.
Qed.

Lemma fold_set_nodup (m : smap) : forall d0,
  NoDup (keys d0) -> NoDup (keys (fold_left (fun d e => set (fst e) (snd e) d) m d0)).
Proof.
  induction m as [|[k v] t IH]; cbn [fold_left]; intros d0 H; [exact H|].
  apply IH. apply nodup_set. exact H.
Qed.

Lemma finv_clear st : committed st -> finv (items st) (clear st).
Proof.
  intros (Hnd & Ha & Hd & Hf). unfold clear. rewrite Ha, Hd.
  assert (E : fold_left (fun d e => if mem (fst e) [] then d else set (fst e) (snd e) d) (items st) []
              = fold_left (fun d e => set (fst e) (snd e) d) (items st) []).
  { reflexivity. }
  rewrite E. constructor; cbn [items iadd idel full]; auto.
  - repeat split; cbn [items iadd idel keys map]; auto using NoDup_nil.
    apply fold_set_nodup. constructor.
  - intros n. rewrite fold_set_lookup by exact Hnd. destruct (lookup n (items st)); reflexivity.
Qed.

Lemma finv_acquire m0 st n ds ch : finv m0 st -> finv m0 (acquire n ds ch st).
Proof.
  intros [[Hi [Ha Hd]] Hf Hadd Hdel]. unfold acquire, mem. rewrite (Hadd n).
  destruct (lookup n (items st)) as [c0|] eqn:E.
  - constructor; cbn [items iadd idel full]; auto.
    + repeat split; cbn [items iadd idel]; auto using nodup_set.
    + intros k. destruct (string_dec k n) as [->|Hne].
      * rewrite !lookup_set_eq. reflexivity.
      * rewrite !lookup_set_neq by exact Hne. auto.
  - constructor; cbn [items iadd idel full]; auto.
    + repeat split; cbn [items iadd idel]; auto using nodup_set.
    + intros k. destruct (string_dec k n) as [->|Hne].
      * rewrite !lookup_set_eq. reflexivity.
      * rewrite !lookup_set_neq by exact Hne. auto.
Qed.

Lemma finv_acqs m0 acqs : forall st, finv m0 st -> finv m0 (fold_left do_acq acqs st).
Proof.
  induction acqs as [|[[n ds] ch] t IH]; cbn [fold_left]; intros st H; [exact H|].
  apply IH. cbn [do_acq]. apply finv_acquire. exact H.
Qed.

(* what AcmeUpdate passes to the queue after a full sync: every wanted storage is added again *)
Lemma finv_shrink m0 st :
  finv m0 st ->
  NoDup (keys (iadd (shrink st))) /\ NoDup (keys (idel (shrink st))) /\
  (forall n c, In (n, c) (iadd (shrink st)) <-> lookup n (items st) = Some c) /\
  (forall n c, In (n, c) (idel (shrink st)) <->
               lookup n m0 = Some c /\ lookup n (items st) <> Some c).
Proof.
  intros [[Hi [Ha Hd]] Hf Hadd Hdel]. unfold shrink. rewrite Hf. cbn [iadd idel].
  split; [exact Ha|]. split; [apply nodup_filter; exact Hd|]. split.
  - intros n c. rewrite (in_lookup n c _ Ha), Hadd. tauto.
  - intros n c. rewrite in_filter_lookup by exact Hd. rewrite negb_true_iff.
    rewrite <- not_true_iff_false, same_in_spec, Hadd, Hdel. tauto.
Qed.

Lemma shrink_items st : items (shrink st) = items st.
Proof. reflexivity. Qed.

Lemma acme_update_items l a st : items (fst (fst (acme_update l a st))) = items st.
Proof. unfold acme_update. destruct l, a; reflexivity. Qed.

Lemma committed_commit st : NoDup (keys (items st)) -> committed (commit st).
Proof. intros H. unfold committed, commit. cbn [items iadd idel full]. auto. Qed.

(* the statement of "the queue follows the cluster" for one reconciliation *)
Definition step_spec (tr : step_trace) : Prop :=
  let s := t_step tr in
  if s_called s && s_leader s && s_account s then
    NoDup (map fst (t_adds tr)) /\ NoDup (map fst (t_dels tr)) /\
    (forall n c, In (n, c) (t_adds tr) <->
       lookup n (t_after tr) = Some c /\
       (is_full (s_sync s) = true \/ lookup n (t_before tr) <> Some c)) /\
    (forall n c, In (n, c) (t_dels tr) <->
       lookup n (t_before tr) = Some c /\ lookup n (t_after tr) <> Some c)
  else t_adds tr = [] /\ t_dels tr = [].

Lemma reconcile_spec st s :
  committed st ->
  committed (fst (reconcile st s)) /\ step_spec (snd (reconcile st s)).
Proof.
  intros Hc. unfold reconcile.
  set (st1 := do_sync (s_sync s) st).
  assert (Hsync : (is_full (s_sync s) = false /\ pinv (items st) st1) \/
                  (is_full (s_sync s) = true /\ finv (items st) st1)).
  { unfold st1. destruct (s_sync s) as [dirty acqs|acqs]; cbn [do_sync is_full].
    - left. split; [reflexivity|]. apply pinv_acqs.
      apply (pinv_remove_all (items st) dirty st); [apply pinv_committed; exact Hc|apply Hc].
    - right. split; [reflexivity|]. apply finv_acqs. apply finv_clear. exact Hc. }
  assert (Hnd1 : NoDup (keys (items st1))).
  { destruct Hsync as [[_ H]|[_ H]]; [apply (p_wf _ _ H)|apply (f_wf _ _ H)]. }
  destruct (s_called s) eqn:Ecall; cbn [andb].
  - destruct (acme_update (s_leader s) (s_account s) st1) as [[st2 adds] dels] eqn:Eu.
    assert (Hi2 : items st2 = items st1).
    { pose proof (acme_update_items (s_leader s) (s_account s) st1) as H. rewrite Eu in H. exact H. }
    cbn [fst snd]. split; [apply committed_commit; rewrite Hi2; exact Hnd1|].
    unfold step_spec. cbn [t_step t_adds t_dels t_before t_after]. rewrite Ecall. cbn [andb].
    unfold acme_update in Eu. destruct (s_leader s), (s_account s); cbn [andb];
      try (injection Eu as <- <- <-; auto; fail).
    injection Eu as <- <- <-.
    destruct Hsync as [[Ef Hp]|[Ef Hp]]; rewrite Ef.
    + destruct (pinv_shrink _ _ Hp) as (H1 & H2 & H3 & H4).
      split; [exact H1|]. split; [exact H2|]. split; [|exact H4].
      intros n c. rewrite H3. intuition discriminate.
    + destruct (finv_shrink _ _ Hp) as (H1 & H2 & H3 & H4).
      split; [exact H1|]. split; [exact H2|]. split; [|exact H4].
      intros n c. rewrite H3. intuition.
  - cbn [fst snd]. split; [apply committed_commit; exact Hnd1|].
    unfold step_spec. cbn [t_step t_adds t_dels]. rewrite Ecall. cbn [andb]. auto.
Qed.

Lemma committed_empty : committed empty_storages.
Proof. unfold committed, empty_storages. cbn. auto using NoDup_nil. Qed.

Lemma reconcile_all_spec h : forall st, committed st -> Forall step_spec (reconcile_all st h).
Proof.
  induction h as [|s t IH]; cbn [reconcile_all]; intros st Hc; [constructor|].
  pose proof (reconcile_spec st s Hc) as [H1 H2].
  destruct (reconcile st s) as [st' tr]. cbn [fst snd] in *.
  constructor; [exact H2|apply IH; exact H1].
Qed.

(* for every history of reconciliations from the start of the controller *)
Lemma queue_follows_cluster h : Forall step_spec (reconcile_all empty_storages h).
Proof. apply reconcile_all_spec. apply committed_empty. Qed.

(* ================================================================== the storages follow the declarations *)

(* what the Acquire calls of one sync declare for storage n, starting from `base` *)
Definition declared (n : string) (acqs : list acq) (base : option acert) : option acert :=
  fold_left (fun cur (a : acq) =>
               let '(k, ds, ch) := a in
               if String.eqb k n
               then Some (mutate (match cur with Some c => c | None => empty_cert end) ds ch)
               else cur) acqs base.

Lemma acquire_items n k ds ch st :
  lookup k (items (acquire n ds ch st)) =
  if String.eqb n k
  then Some (mutate (match lookup k (items st) with Some c => c | None => empty_cert end) ds ch)
  else lookup k (items st).
Proof.
  unfold acquire. destruct (String.eqb_spec n k) as [->|Hne].
  - destruct (lookup k (items st)) as [c0|]; [destruct (mem k (iadd st))|]; cbn [items]; apply lookup_set_eq.
  - assert (k <> n) by congruence.
    destruct (lookup n (items st)) as [c0|]; [destruct (mem n (iadd st))|]; cbn [items];
      apply lookup_set_neq; assumption.
Qed.

Lemma acqs_items n acqs : forall st,
  lookup n (items (fold_left do_acq acqs st)) = declared n acqs (lookup n (items st)).
Proof.
  unfold declared. induction acqs as [|[[k ds] ch] t IH]; cbn [fold_left]; intros st; [reflexivity|].
  rewrite IH. cbn [do_acq]. rewrite acquire_items. reflexivity.
Qed.

Lemma remove_one_items st n k :
  lookup k (items (remove_one st n)) = if String.eqb k n then None else lookup k (items st).
Proof.
  unfold remove_one. destruct (String.eqb_spec k n) as [->|Hne].
  - destruct (lookup n (items st)) eqn:E; cbn [items]; [apply lookup_remove_eq|exact E].
  - destruct (lookup n (items st)); cbn [items]; [apply lookup_remove_neq; exact Hne|reflexivity].
Qed.

Lemma remove_all_items names k : forall st,
  lookup k (items (remove_all names st)) =
  if existsb (String.eqb k) names then None else lookup k (items st).
Proof.
  unfold remove_all. induction names as [|n t IH]; cbn [fold_left existsb]; intros st; [reflexivity|].
  rewrite IH, remove_one_items. destruct (String.eqb k n), (existsb (String.eqb k) t); reflexivity.
Qed.

(* the wanted storages after a sync: untouched ones stay, dirty ones (all of them in a full
   sync) restart from nothing, and each gets the domains and chain declared by the Acquire calls *)
Lemma wanted_after_sync s st n :
  lookup n (items (do_sync s st)) =
  match s with
  | Partial dirty acqs =>
      declared n acqs (if existsb (String.eqb n) dirty then None else lookup n (items st))
  | Full acqs => declared n acqs None
  end.
Proof.
  destruct s as [dirty acqs|acqs]; cbn [do_sync]; rewrite acqs_items.
  - rewrite remove_all_items. reflexivity.
  - reflexivity.
Qed.

(* ================================================================== tie between the two drivers *)

(* the calls of one reconciliation, as the op list that the correspondence runs *)
Definition ops_of_step (s : step) : list op :=
  (match s_sync s with
   | Partial dirty acqs => ORemove dirty :: map (fun a : acq => let '(n, ds, ch) := a in OAcquire n ds ch) acqs
   | Full acqs => OClear :: map (fun a : acq => let '(n, ds, ch) := a in OAcquire n ds ch) acqs
   end)
  ++ (if s_called s then [OUpdate (s_leader s) (s_account s)] else []) ++ [OCommit].

Lemma run_acqs acqs rest : forall st,
  run (map (fun a : acq => let '(n, ds, ch) := a in OAcquire n ds ch) acqs ++ rest) st =
  run rest (fold_left do_acq acqs st).
Proof.
  induction acqs as [|[[n ds] ch] t IH]; cbn [map app fold_left]; intros st; [reflexivity|].
  cbn [run]. rewrite IH. reflexivity.
Qed.

Lemma run_reconcile st s :
  let '(st', tr) := reconcile st s in
  run (ops_of_step s) st =
  (st', if s_called s
        then [(map render (t_adds tr), map render (t_dels tr), map render (t_after tr))]
        else []).
Proof.
  unfold reconcile, ops_of_step.
  assert (E : forall rest, run ((match s_sync s with
                 | Partial dirty acqs => ORemove dirty :: map (fun a : acq => let '(n, ds, ch) := a in OAcquire n ds ch) acqs
                 | Full acqs => OClear :: map (fun a : acq => let '(n, ds, ch) := a in OAcquire n ds ch) acqs
                 end) ++ rest) st = run rest (do_sync (s_sync s) st)).
  { intros rest. destruct (s_sync s) as [dirty acqs|acqs]; cbn [app run do_sync]; apply run_acqs. }
  rewrite E. destruct (s_called s); cbn [app run].
  - destruct (acme_update (s_leader s) (s_account s) (do_sync (s_sync s) st)) as [[st2 adds] dels].
    cbn [t_adds t_dels t_after]. reflexivity.
  - reflexivity.
Qed.

(* ================================================================== examples *)

(* the hypotheses of the history theorem are met by any history; two concrete ones, evaluated:
   the shared-secret history and the full sync that drops a storage (the two defects repaired
   in /repo) *)
Example shared_secret_history :
  map (fun tr => (map render (t_adds tr), map render (t_dels tr)))
    (reconcile_all empty_storages
       [ {| s_sync := Full [("d/s1", ["a.example"], "")]; s_called := true; s_leader := true; s_account := true |};
         {| s_sync := Partial [] [("d/s1", ["b.example"], "")]; s_called := true; s_leader := true; s_account := true |};
         {| s_sync := Partial ["d/s1"] [("d/s1", ["b.example"; "a.example"], "")]; s_called := true; s_leader := true; s_account := true |} ])
  = [ (["d/s1,,a.example"], []);
      (["d/s1,,a.example,b.example"], ["d/s1,,a.example"]);
      ([], []) ].
Proof. vm_compute. reflexivity. Qed.

Example full_sync_history :
  map (fun tr => (map render (t_adds tr), map render (t_dels tr)))
    (reconcile_all empty_storages
       [ {| s_sync := Full [("d/s1", ["a.example"], ""); ("d/s2", ["b.example"], "")]; s_called := true; s_leader := true; s_account := true |};
         {| s_sync := Full [("d/s1", ["a.example"], "")]; s_called := true; s_leader := true; s_account := true |};
         {| s_sync := Full [("d/s1", ["a.example"], "")]; s_called := true; s_leader := false; s_account := true |} ])
  = [ (["d/s2,,b.example"; "d/s1,,a.example"], []);
      (["d/s1,,a.example"], ["d/s2,,b.example"]);
      ([], []) ].
Proof. vm_compute. reflexivity. Qed.

(* outside the call pattern of converters.Sync the diff is not exact: RemoveAll called twice in
   one cycle forgets the committed state (API level only; syncPartial calls it once) *)
Example removeall_twice_forgets :
  snd (run [ OAcquire "s" ["a"] ""; OUpdate true true; OCommit;
             ORemove ["s"]; OAcquire "s" ["b"] ""; ORemove ["s"]; OAcquire "s" ["b"] "";
             OUpdate true true ] empty_storages)
  = [ (["s,,a"], [], ["s,,a"]); ([], [], ["s,,b"]) ].
Proof. vm_compute. reflexivity. Qed.

(* ================================================================== the acme account *)

(* the signer holds an account exactly while it holds its client *)
Definition sg_inv (s : signer_state) : Prop := sg_client s = false -> sg_account s = empty_account.

Lemma sg_inv_new : sg_inv new_signer.
Proof. intros _. reflexivity. Qed.

Lemma acme_account_inv ok cfg s : sg_inv s -> sg_inv (acme_account ok cfg s).
Proof.
  intros Hi. unfold acme_account. destruct (account_eqb _ _); [exact Hi|].
  destruct (negb (configured cfg)); [apply sg_inv_new|]. destruct ok; [|apply sg_inv_new].
  intros H. discriminate.
Qed.

Lemma account_eqb_eq a b : account_eqb a b = true <-> a = b.
Proof.
  unfold account_eqb. destruct a as [e1 m1 t1], b as [e2 m2 t2]. cbn [ac_endpoint ac_emails ac_terms].
  rewrite !andb_true_iff, !String.eqb_eq, Bool.eqb_true_iff. split.
  - intros [[-> ->] ->]. reflexivity.
  - intros E. injection E; auto.
Qed.

(* whenever acme is configured and the load can succeed, the call ends with the account loaded *)
Lemma account_loads_when_possible cfg s :
  sg_inv s -> configured cfg = true -> sg_client (acme_account true cfg s) = true.
Proof.
  intros Hi Hc. unfold acme_account. rewrite Hc. cbn [negb].
  destruct (account_eqb (sg_account s) _) eqn:E; [|reflexivity].
  apply account_eqb_eq in E. destruct (sg_client s) eqn:Ec; [reflexivity|].
  exfalso. rewrite (Hi Ec) in E. unfold empty_account in E. injection E as E1 E2 E3.
  unfold configured in Hc. rewrite <- E1, <- E2, <- E3 in Hc. cbn in Hc. discriminate.
Qed.

Definition run_accounts (h : list (bool * account)) (s : signer_state) : signer_state :=
  fold_left (fun s (e : bool * account) => acme_account (fst e) (snd e) s) h s.

Lemma run_accounts_inv h : forall s, sg_inv s -> sg_inv (run_accounts h s).
Proof.
  unfold run_accounts. induction h as [|e t IH]; cbn [fold_left]; intros s Hi; [exact Hi|].
  apply IH. apply acme_account_inv. exact Hi.
Qed.

(* no sticky failure: after any history of calls (failed loads, removals, other accounts) *)
Lemma account_retry h cfg :
  configured cfg = true -> sg_client (acme_account true cfg (run_accounts h new_signer)) = true.
Proof.
  intros Hc. apply account_loads_when_possible; [|exact Hc]. apply run_accounts_inv. apply sg_inv_new.
Qed.

(* a loaded account is kept while its configuration stays the same, whatever the environment does *)
Lemma account_kept ok cfg s :
  sg_client s = true ->
  sg_account s = {| ac_endpoint := normal_endpoint (ac_endpoint cfg); ac_emails := ac_emails cfg; ac_terms := ac_terms cfg |} ->
  acme_account ok cfg s = s.
Proof.
  intros _ E. unfold acme_account. rewrite E. rewrite (proj2 (account_eqb_eq _ _) eq_refl). reflexivity.
Qed.

(* the sticky case of the code before the fix, as a history the theorem covers: configured,
   removed, configured again; and the one of the seeded change: first load fails, then succeeds *)
Example account_retry_examples :
  let a := {| ac_endpoint := "https://acme.example"; ac_emails := "admin@example.com"; ac_terms := true |} in
  sg_client (run_accounts [(true, a); (true, empty_account); (true, a)] new_signer) = true /\
  sg_client (run_accounts [(false, a); (true, a)] new_signer) = true /\
  sg_client (run_accounts [(true, a); (false, a)] new_signer) = true /\
  sg_client (run_accounts [(false, a)] new_signer) = false.
Proof. vm_compute. auto. Qed.

(* the queue follows the cluster with the real signer: for every history, each step satisfies the
   statement of one reconciliation with "has an account" computed by the signer, and the account
   is there as soon as it can be *)
Definition astep_spec (e : astep * step_trace * bool) : Prop :=
  let '(s, tr, has) := e in
  step_spec tr /\
  s_called (t_step tr) = true /\ s_leader (t_step tr) = as_leader s /\ s_account (t_step tr) = has /\
  (as_leader s = true -> as_load_ok s = true -> configured (as_config s) = true -> has = true).

Lemma areconcile_all_spec h : forall st sg,
  committed st -> sg_inv sg -> Forall astep_spec (areconcile_all (st, sg) h).
Proof.
  induction h as [|s t IH]; intros st sg Hc Hi; cbn [areconcile_all]; [constructor|].
  unfold areconcile.
  set (sg' := if as_leader s then acme_account (as_load_ok s) (as_config s) sg else sg).
  set (stp := {| s_sync := as_sync s; s_called := true; s_leader := as_leader s; s_account := sg_client sg' |}).
  pose proof (reconcile_spec st stp Hc) as [H1 H2].
  assert (Et : t_step (snd (reconcile st stp)) = stp).
  { unfold reconcile. destruct (if s_called stp then _ else _) as [[? ?] ?]. reflexivity. }
  destruct (reconcile st stp) as [st' tr]. cbn [fst snd] in *.
  assert (Hi' : sg_inv sg').
  { subst sg'. destruct (as_leader s); [apply acme_account_inv; exact Hi|exact Hi]. }
  constructor; [|apply IH; assumption].
  unfold astep_spec. rewrite Et. cbn [stp s_called s_leader s_account]. repeat split; auto.
  intros Hl Hok Hcfg. subst sg'. rewrite Hl, Hok. apply account_loads_when_possible; assumption.
Qed.

Lemma queue_follows_cluster_account h :
  Forall astep_spec (areconcile_all (empty_storages, new_signer) h).
Proof. apply areconcile_all_spec; [apply committed_empty|apply sg_inv_new]. Qed.
