(* C15, composition: converter model (Model/Conv.v) -> crt-list (Model/CrtList.v) ->
   HAProxy's SNI selection, for full syncs and for every history of partial syncs; the hosts
   the crt-list is generated from are exactly the hosts of the converter's state; rotation
   extended to delete / re-create and to replicated secrets; every step of a history. *)
From Coq Require Import List Bool String Ascii ZArith Sorted Permutation Lia.
From HI Require Import Model.Tracker Model.Conv Model.CrtList
                       Proofs.IncSync Proofs.Conv Proofs.ConvSort Proofs.ConvHist Proofs.CrtList.
From HI Require Proofs.ConvHist_multi.
Import ListNotations.
Open Scope string_scope.

(* ================================================================== *)
(* A. the hosts of the state of a full sync are the declared names     *)
(* ================================================================== *)
Definition hex (s : cstate) (h : string) : bool :=
  match get_host s h with Some _ => true | None => false end.

Lemma hex_state_eq s1 s2 h : s1 (THost h) = s2 (THost h) -> hex s1 h = hex s2 h.
Proof. intros H. unfold hex, get_host. rewrite H. reflexivity. Qed.

Lemma hex_iff s h : hex s h = true <-> get_host s h <> None.
Proof. unfold hex. destruct (get_host s h); split; congruence. Qed.

Lemma add_host_hex i hn x h : hex (fst (add_host i hn x)) h = hex (fst x) h || String.eqb h hn.
Proof.
  destruct (String.eqb_spec h hn) as [->|Hne].
  - rewrite orb_true_r. apply hex_iff. apply add_host_present.
  - rewrite orb_false_r. apply hex_state_eq. apply add_host_other. exact Hne.
Qed.

Lemma sync_path_hex w i hn x r h : hex (fst (sync_path w i hn x r)) h = hex (fst x) h.
Proof.
  destruct (String.eqb_spec h hn) as [->|Hne];
    [|apply hex_state_eq; apply sync_path_other; exact Hne].
  unfold sync_path.
  destruct (get_host (fst x) hn) as [hr|] eqn:E; [|reflexivity].
  destruct (has_path hr _ _); [reflexivity|].
  pose proof (add_backend_spec w i hn r x) as [_ Hh].
  destruct (add_backend w i hn r x) as [x1 ob]. cbn [fst] in Hh.
  destruct ob as [bid|]; [|apply hex_state_eq; apply Hh].
  destruct x1 as [s1 T1]. cbn [fst] in Hh.
  assert (Hg : get_host s1 hn = Some hr) by (unfold get_host in *; rewrite Hh; exact E).
  rewrite Hg. cbn [fst]. unfold hex at 1. unfold get_host at 1. rewrite upd_same.
  unfold hex. rewrite E. reflexivity.
Qed.

Lemma fold_hex_same {A} (f : st -> A -> st) (l : list A) h :
  (forall a x, hex (fst (f x a)) h = hex (fst x) h) ->
  forall x, hex (fst (fold_left f l x)) h = hex (fst x) h.
Proof.
  intros Hf. induction l as [|a l IH]; intros x; cbn [fold_left]; [reflexivity|].
  rewrite IH. apply Hf.
Qed.

Lemma fold_hex_names {A} (f : st -> A -> st) (nm : A -> list string) (l : list A) h :
  (forall a x, hex (fst (f x a)) h = hex (fst x) h || mem_str h (nm a)) ->
  forall x, hex (fst (fold_left f l x)) h = hex (fst x) h || mem_str h (flat_map nm l).
Proof.
  intros Hf. induction l as [|a l IH]; intros x; cbn [fold_left flat_map].
  - cbn. rewrite orb_false_r. reflexivity.
  - rewrite IH, Hf. unfold mem_str. rewrite existsb_app, orb_assoc. reflexivity.
Qed.

Lemma flat_map_single {A B} (g : A -> B) (l : list A) : flat_map (fun a => [g a]) l = map g l.
Proof. induction l as [|a l IH]; cbn; [reflexivity|]. rewrite IH. reflexivity. Qed.

Lemma sync_rule_hex w i x rule h :
  hex (fst (sync_rule w i x rule)) h = hex (fst x) h || mem_str h [norm_host (fst rule)].
Proof.
  unfold sync_rule. rewrite fold_hex_same by (intros; apply sync_path_hex).
  rewrite add_host_hex. cbn. rewrite orb_false_r. destruct (i_class i); reflexivity.
Qed.

Lemma sync_tls_host_hex w i sec x hn h :
  hex (fst (sync_tls_host w i sec x hn)) h = hex (fst x) h || mem_str h [hn].
Proof.
  cbn. rewrite orb_false_r. rewrite <- (add_host_hex i hn x h).
  destruct (String.eqb_spec h hn) as [->|Hne].
  - unfold sync_tls_host.
    pose proof (add_host_present i hn x) as Hp.
    destruct (add_host i hn x) as [s1 T1]. cbn [fst] in *.
    destruct (tls_of w i sec T1) as [hash T2].
    destruct (get_host s1 hn) as [hr|] eqn:E; [|contradiction].
    assert (H1 : hex s1 hn = true) by (unfold hex; rewrite E; reflexivity). rewrite H1.
    destruct (h_tls hr); cbn [fst]; [exact H1|].
    unfold hex, get_host. rewrite upd_same. reflexivity.
  - rewrite (hex_state_eq _ _ h (sync_tls_host_other w i sec x hn h Hne)).
    symmetry. apply hex_state_eq. apply add_host_other. exact Hne.
Qed.

Lemma sync_tls_hex w i x blk h :
  hex (fst (sync_tls w i x blk)) h = hex (fst x) h || mem_str h (fst blk).
Proof.
  unfold sync_tls.
  rewrite (fold_hex_names (sync_tls_host w i (snd blk)) (fun hn => [hn]) (fst blk) h)
    by (intros; apply sync_tls_host_hex).
  rewrite (flat_map_single (fun hn : string => hn)), map_id. reflexivity.
Qed.

Lemma sync_ingress_hex w i x h :
  hex (fst (sync_ingress w x i)) h = hex (fst x) h || mem_str h (ing_hosts i).
Proof.
  unfold sync_ingress, ing_hosts.
  rewrite (fold_hex_names (sync_tls w i) fst (i_tls i) h) by (intros; apply sync_tls_hex).
  rewrite (fold_hex_names (sync_rule w i) (fun rule => [norm_host (fst rule)]) (i_rules i) h)
    by (intros; apply sync_rule_hex).
  rewrite (flat_map_single (fun rule : string * list prule => norm_host (fst rule))).
  unfold mem_str. rewrite existsb_app, orb_assoc. reflexivity.
Qed.

Lemma flat_map_hosts_sorted w h :
  In h (flat_map ing_hosts (sort_ings (w_ings w))) <-> In h (flat_map ing_hosts (w_ings w)).
Proof.
  rewrite !in_flat_map. split; intros (i & Hi & Hh); exists i; split; try exact Hh;
    apply sort_ings_In; exact Hi.
Qed.

(* the keys of the hosts map after a full sync *)
Theorem hosts_of_sync_full w h :
  get_host (fst (sync_full w)) h <> None <-> In h (host_names w).
Proof.
  rewrite <- hex_iff. unfold sync_full.
  rewrite (fold_hex_names (sync_ingress w) ing_hosts) by (intros; apply sync_ingress_hex).
  cbn [fst]. unfold hex at 1, get_host, empty_state. cbn [orb].
  rewrite mem_str_In, flat_map_hosts_sorted. symmetry. apply host_names_In.
Qed.

(* ================================================================== *)
(* B. end to end                                                       *)
(* ================================================================== *)
Definition declared_cert (w : world) (n : string) : string :=
  match effective_ref w n with Some r => ref_cert w r | None => default_crt end.

Theorem end_to_end : forall w,
  (forall h, In h (host_names w) <-> get_host (fst (sync_full w)) h <> None) /\
  (forall n, name_ok n ->
     sni_select (crt_list (host_names w) (fst (sync_full w))) n = declared_cert w n).
Proof.
  intros w. split.
  - intros h. symmetry. apply hosts_of_sync_full.
  - intros n Hok. exact (served_spec w n Hok).
Qed.

Lemma hosts_eq_get_host s1 s2 : hosts_eq s1 s2 -> forall h, get_host s1 h = get_host s2 h.
Proof. intros H h. unfold get_host. rewrite (H h). reflexivity. Qed.

Theorem end_to_end_history : forall (w0 : world) (h : list (batch * world)),
  hist_ok_g w0 h ->
  exists x', run_hist (sync_full w0) h = Some x' /\
    (forall hn, In hn (host_names (last_w w0 h)) <-> get_host (fst x') hn <> None) /\
    (forall n, name_ok n ->
       sni_select (crt_list (host_names (last_w w0 h)) (fst x')) n = declared_cert (last_w w0 h) n).
Proof.
  intros w0 h Hok. destruct (model_history_general w0 h Hok) as (x' & Hr & He).
  exists x'. split; [exact Hr|]. split.
  - intros hn. rewrite (hosts_eq_get_host _ _ He hn). symmetry. apply hosts_of_sync_full.
  - intros n Hn. rewrite (crt_list_hosts_eq _ _ _ He). exact (served_spec _ n Hn).
Qed.

(* ... and at EVERY step of the history, not only at its end *)
Lemma hist_ok_g_prefix : forall h1 h2 w, hist_ok_g w (h1 ++ h2) -> hist_ok_g w h1.
Proof.
  induction h1 as [|[b w'] r IH]; intros h2 w H; cbn [hist_ok_g app] in *; [exact I|].
  destruct H as (H1 & H2 & H3). refine (conj H1 (conj H2 _)). exact (IH h2 w' H3).
Qed.

Theorem end_to_end_every_step : forall (w0 : world) (h1 h2 : list (batch * world)),
  hist_ok_g w0 (h1 ++ h2) ->
  exists x1, run_hist (sync_full w0) h1 = Some x1 /\
    forall n, name_ok n ->
      sni_select (crt_list (host_names (last_w w0 h1)) (fst x1)) n = declared_cert (last_w w0 h1) n.
Proof.
  intros w0 h1 h2 H. destruct (end_to_end_history w0 h1 (hist_ok_g_prefix h1 h2 w0 H)) as (x1 & Hr & _ & Hs).
  exists x1. split; assumption.
Qed.

(* ================================================================== *)
(* C. rotation: delete, re-create, replicated secrets                  *)
(* ================================================================== *)
Fixpoint del_secret (k : string) (l : list (string * string)) : list (string * string) :=
  match l with
  | [] => []
  | (k', v) :: r => if String.eqb k k' then del_secret k r else (k', v) :: del_secret k r
  end.

Lemma assoc_del_secret_same k l : assoc k (del_secret k l) = None.
Proof.
  induction l as [|[k' v] l IH]; cbn; [reflexivity|].
  destruct (String.eqb k k') eqn:E; [exact IH|]. cbn. rewrite E. exact IH.
Qed.

Lemma assoc_del_secret_other k l k' : k' <> k -> assoc k' (del_secret k l) = assoc k' l.
Proof.
  intros Hne. induction l as [|[k2 v] l IH]; cbn; [reflexivity|].
  destruct (String.eqb_spec k k2) as [<-|H2].
  - destruct (String.eqb_spec k' k); [contradiction|exact IH].
  - cbn. destruct (String.eqb k' k2); [reflexivity|exact IH].
Qed.

Definition without_secret (w : world) (k : string) : world :=
  {| w_ings := w_ings w; w_svcs := w_svcs w; w_eps := w_eps w; w_secrets := del_secret k (w_secrets w) |}.

(* the secret is deleted (or becomes invalid): its users fall back to the default
   certificate, nobody else changes *)
Theorem rotation_delete : forall w k n, name_ok n -> k <> "" ->
  (effective_ref w n = Some k -> served (without_secret w k) n = default_crt) /\
  (effective_ref w n <> Some k -> served (without_secret w k) n = served w n).
Proof.
  intros w k n Hok Hk.
  destruct (rotation_local w (without_secret w k) k eq_refl
              (fun k' H => assoc_del_secret_other k (w_secrets w) k' H) n Hok) as [H1 H2].
  split; [|exact H2]. intros He. rewrite (H1 He). unfold ref_cert.
  destruct (String.eqb_spec k ""); [contradiction|].
  cbn [without_secret w_secrets]. rewrite assoc_del_secret_same. reflexivity.
Qed.

(* deleted, then created again with new content *)
Theorem rotation_recreate : forall w k c n, name_ok n -> k <> "" ->
  (effective_ref w n = Some k -> served (with_secret (without_secret w k) k c) n = c) /\
  (effective_ref w n <> Some k -> served (with_secret (without_secret w k) k c) n = served w n).
Proof.
  intros w k c n Hok Hk.
  assert (He : effective_ref (without_secret w k) n = effective_ref w n)
    by (apply effective_ref_ings; reflexivity).
  destruct (rotation_replace (without_secret w k) k c n Hok Hk) as [H1 H2]. rewrite He in H1, H2.
  split; [exact H1|]. intros Hne. rewrite (H2 Hne). exact (proj2 (rotation_delete w k n Hok Hk) Hne).
Qed.

(* a secret replicated into two namespaces (same content c under the keys k1 and k2):
   replacing, deleting or re-creating k1 leaves the names decided by k2 served with c *)
Theorem rotation_replicated : forall w w' k1 k2 c n, name_ok n ->
  k1 <> k2 -> k2 <> "" ->
  assoc k2 (w_secrets w) = Some c ->
  w_ings w' = w_ings w ->
  (forall k', k' <> k1 -> assoc k' (w_secrets w') = assoc k' (w_secrets w)) ->
  effective_ref w n = Some k2 ->
  served w' n = c.
Proof.
  intros w w' k1 k2 c n Hok Hne Hk2 Hc Hi Hs He.
  destruct (rotation_local w w' k1 Hi Hs n Hok) as [_ H2].
  rewrite H2 by (rewrite He; congruence).
  rewrite (served_spec w n Hok), He. unfold ref_cert.
  destruct (String.eqb_spec k2 ""); [contradiction|]. rewrite Hc. reflexivity.
Qed.

(* the same through the incremental path: any well formed history ending in a cluster that
   differs from w at most in secret k1 *)
Theorem history_rotation_replicated :
  forall (w0 : world) (h : list (batch * world)) (w : world) (k1 k2 c : string),
  hist_ok_g w0 h ->
  k1 <> k2 -> k2 <> "" ->
  assoc k2 (w_secrets w) = Some c ->
  w_ings (last_w w0 h) = w_ings w ->
  (forall k', k' <> k1 -> assoc k' (w_secrets (last_w w0 h)) = assoc k' (w_secrets w)) ->
  exists x', run_hist (sync_full w0) h = Some x' /\
    forall n, name_ok n -> effective_ref w n = Some k2 ->
      served_in (host_names (last_w w0 h)) (fst x') n = c.
Proof.
  intros w0 h w k1 k2 c Hok Hne Hk2 Hc Hi Hs.
  destruct (history_served w0 h Hok) as (x' & Hr & He).
  exists x'. split; [exact Hr|]. intros n Hn Hef. rewrite He.
  exact (rotation_replicated w (last_w w0 h) k1 k2 c n Hn Hne Hk2 Hc Hi Hs Hef).
Qed.

(* ---- executable witnesses: replicated secret, rollback, delete + re-create ---- *)
Definition xr : prule := {| r_path := "/"; r_type := Prefix; r_svc := "svc1"; r_port := "80" |}.
Definition z_ing_a : ingress :=
  {| i_ns := "ns1"; i_name := "inga"; i_stamp := 10; i_class := None;
     i_rules := [("a.corp.example", [xr])]; i_tls := [(["a.corp.example"], "tls-wild")] |}.
Definition z_ing_b : ingress :=
  {| i_ns := "ns2"; i_name := "ingb"; i_stamp := 11; i_class := None;
     i_rules := [("b.corp.example", [xr])]; i_tls := [(["b.corp.example"], "tls-wild")] |}.
Definition zW (secs : list (string * string)) : world :=
  {| w_ings := [z_ing_a; z_ing_b]; w_svcs := []; w_eps := []; w_secrets := secs |}.
Definition z_w0 := zW [("ns1/tls-wild", "A"); ("ns2/tls-wild", "A")].
Definition z_w1 := zW [("ns1/tls-wild", "B"); ("ns2/tls-wild", "A")].   (* ns1 rotates *)
Definition z_w2 := zW [("ns1/tls-wild", "A"); ("ns2/tls-wild", "A")].   (* ns1 rolls back *)
Definition z_w3 := zW [("ns2/tls-wild", "A")].                           (* ns1 deletes *)
Definition z_w4 := zW [("ns2/tls-wild", "A"); ("ns1/tls-wild", "C")].   (* ns1 re-creates *)
Definition z_b : batch := {| b_links := [(KSecret, "ns1/tls-wild")]; b_add := []; b_upd := []; b_del := [] |}.
Definition z_hist : list (batch * world) := [(z_b, z_w1); (z_b, z_w2); (z_b, z_w3); (z_b, z_w4)].

Example z_hist_ok : hist_ok_g z_w0 z_hist.
Proof.
  unfold z_hist. cbn [hist_ok_g].
  refine (conj _ (conj _ (conj _ (conj _ (conj _ (conj _ (conj _ (conj _ I))))))));
    first [apply ConvHist_multi.batch_wfb_sound; vm_compute; reflexivity
          |apply ConvHist_multi.batch_links_okb_sound; vm_compute; reflexivity].
Qed.

Definition served_pair (x : option st) (w : world) : option (string * string) :=
  match x with
  | Some x' => Some (served_in (host_names w) (fst x') "a.corp.example",
                     served_in (host_names w) (fst x') "b.corp.example")
  | None => None
  end.

Example z_hist_eval :
  served_pair (run_hist (sync_full z_w0) []) z_w0 = Some ("A", "A") /\
  served_pair (run_hist (sync_full z_w0) [(z_b, z_w1)]) z_w1 = Some ("B", "A") /\
  served_pair (run_hist (sync_full z_w0) [(z_b, z_w1); (z_b, z_w2)]) z_w2 = Some ("A", "A") /\
  served_pair (run_hist (sync_full z_w0) [(z_b, z_w1); (z_b, z_w2); (z_b, z_w3)]) z_w3 = Some (default_crt, "A") /\
  served_pair (run_hist (sync_full z_w0) z_hist) z_w4 = Some ("C", "A").
Proof. vm_compute. auto 10. Qed.
