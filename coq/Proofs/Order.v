(* Proofs/Order.v -- proofs about Model/Order.v (C06).  Quantified over all inputs, all
   permutations of the API list / of a batch, all visiting orders of the Go maps. *)
From Coq Require Import List Bool String ZArith Ascii Arith Lia Sorted Permutation Relations.
From HI Require Import Model.Tracker Model.Conv Model.Order Proofs.Tracker Proofs.Conv Proofs.ConvSort Proofs.ConvHist_keys
                       Proofs.ConvHist_base.
Import ListNotations.
Open Scope string_scope.
Open Scope list_scope.

(* ================================================================== *)
(* 0. insertion sort with a comparator that is a strict order, total   *)
(*    on distinct keys: the result depends on the set of elements only *)
(* ================================================================== *)
Section ISortProofs.
  Context {A K : Type} (ltb : A -> A -> bool) (key : A -> K).
  Hypothesis ltb_irrefl : forall a, ltb a a = false.
  Hypothesis ltb_trans : forall a b c, ltb a b = true -> ltb b c = true -> ltb a c = true.
  Hypothesis ltb_total : forall a b, key a <> key b -> ltb a b = false -> ltb b a = true.

  Let lt (a b : A) : Prop := ltb a b = true.

  Lemma insert_by_perm x l : Permutation (x :: l) (insert_by ltb x l).
  Proof.
    induction l as [|j r IH]; cbn [insert_by]; [apply Permutation_refl|].
    destruct (ltb j x); [|apply Permutation_refl].
    eapply perm_trans; [apply perm_swap|]. apply perm_skip. exact IH.
  Qed.

  Lemma isort_permutation l : Permutation l (isort ltb l).
  Proof.
    induction l as [|i l IH]; cbn; [constructor|].
    eapply perm_trans; [apply perm_skip; exact IH|]. apply insert_by_perm.
  Qed.

  Lemma isort_In l i : In i (isort ltb l) <-> In i l.
  Proof.
    split; intros H.
    - eapply Permutation_in; [apply Permutation_sym; apply isort_permutation|exact H].
    - eapply Permutation_in; [apply isort_permutation|exact H].
  Qed.

  Lemma insert_by_sorted i l :
    StronglySorted lt l -> ~ In (key i) (map key l) -> StronglySorted lt (insert_by ltb i l).
  Proof.
    induction l as [|j r IH]; intros Hs Hn; cbn [insert_by].
    - constructor; constructor.
    - inversion Hs as [|? ? Hr Hall]; subst. destruct (ltb j i) eqn:E.
      + constructor; [apply IH; [exact Hr|intros Hc; apply Hn; right; exact Hc]|].
        rewrite Forall_forall in *. intros x Hx.
        apply (Permutation_in _ (Permutation_sym (insert_by_perm i r))) in Hx.
        destruct Hx as [<-|Hx]; [exact E|apply Hall; exact Hx].
      + assert (Hij : ltb i j = true).
        { apply ltb_total; [|exact E]. intros Hc. apply Hn. left. exact Hc. }
        constructor; [exact Hs|]. constructor; [exact Hij|].
        rewrite Forall_forall in *. intros x Hx. eapply ltb_trans; [exact Hij|apply Hall; exact Hx].
  Qed.

  Lemma isort_sorted l : NoDup (map key l) -> StronglySorted lt (isort ltb l).
  Proof.
    induction l as [|i l IH]; intros Hn; cbn; [constructor|].
    inversion Hn as [|? ? Hni Hn']; subst. apply insert_by_sorted; [apply IH; exact Hn'|].
    intros Hc. apply Hni. apply in_map_iff in Hc as (x & Hx & Hin). apply in_map_iff.
    exists x. split; [exact Hx|]. apply isort_In. exact Hin.
  Qed.

  Lemma lt_sorted_unique (l1 : list A) : forall l2,
    StronglySorted lt l1 -> StronglySorted lt l2 ->
    (forall x, In x l1 <-> In x l2) -> l1 = l2.
  Proof.
    induction l1 as [|a l1 IH]; intros l2 H1 H2 Hiff.
    - destruct l2 as [|b l2]; [reflexivity|]. exfalso. apply (proj2 (Hiff b)). left. reflexivity.
    - destruct l2 as [|b l2]; [exfalso; apply (proj1 (Hiff a)); left; reflexivity|].
      inversion H1 as [|? ? Hs1 Ha]; subst. inversion H2 as [|? ? Hs2 Hb]; subst.
      rewrite Forall_forall in Ha, Hb.
      assert (Hab : a = b).
      { destruct (proj1 (Hiff a) (or_introl eq_refl)) as [Hc|Hc]; [symmetry; exact Hc|].
        destruct (proj2 (Hiff b) (or_introl eq_refl)) as [Hd|Hd]; [exact Hd|].
        pose proof (ltb_trans a b a (Ha b Hd) (Hb a Hc)) as He.
        rewrite ltb_irrefl in He. discriminate. }
      subst b. f_equal. apply IH; [exact Hs1|exact Hs2|].
      intros x. split; intros Hx.
      + destruct (proj1 (Hiff x) (or_intror Hx)) as [<-|Hc]; [|exact Hc].
        pose proof (Ha a Hx) as He. unfold lt in He. rewrite ltb_irrefl in He. discriminate.
      + destruct (proj2 (Hiff x) (or_intror Hx)) as [<-|Hc]; [|exact Hc].
        pose proof (Hb a Hx) as He. unfold lt in He. rewrite ltb_irrefl in He. discriminate.
  Qed.

  Theorem isort_perm l1 l2 :
    Permutation l1 l2 -> NoDup (map key l1) -> isort ltb l1 = isort ltb l2.
  Proof.
    intros Hp Hn. apply lt_sorted_unique.
    - apply isort_sorted. exact Hn.
    - apply isort_sorted. eapply Permutation_NoDup; [apply Permutation_map; exact Hp|exact Hn].
    - intros x. rewrite !isort_In. split; intros Hx.
      + eapply Permutation_in; [exact Hp|exact Hx].
      + eapply Permutation_in; [apply Permutation_sym; exact Hp|exact Hx].
  Qed.

  (* the first element of the sorted list is the least one *)
  Lemma isort_head_least l a r : NoDup (map key l) -> isort ltb l = a :: r ->
    forall x, In x l -> x = a \/ ltb a x = true.
  Proof.
    intros Hn He x Hx. pose proof (isort_sorted l Hn) as Hs. rewrite He in Hs.
    apply isort_In in Hx. rewrite He in Hx. destruct Hx as [<-|Hx]; [left; reflexivity|right].
    inversion Hs as [|? ? _ Hall]; subst. rewrite Forall_forall in Hall. apply Hall. exact Hx.
  Qed.
End ISortProofs.

(* sort_ings is this insertion sort *)
Lemma sort_ings_isort l : sort_ings l = isort ing_ltb l.
Proof.
  unfold sort_ings, isort. induction l as [|i l IH]; cbn [fold_right]; [reflexivity|].
  rewrite IH. generalize (fold_right (insert_by ing_ltb) [] l). intros m.
  induction m as [|j r IHm]; cbn [insert_ing insert_by]; [reflexivity|]. rewrite IHm. reflexivity.
Qed.

(* sortIngress on ingresses that carry annotations *)
Theorem sort_aings_perm l1 l2 :
  Permutation l1 l2 -> NoDup (map a_name l1) -> sort_aings l1 = sort_aings l2.
Proof.
  apply (isort_perm aing_ltb a_name).
  - intros a. apply ing_ltb_irrefl.
  - intros a b c. apply ing_ltb_trans.
  - intros a b Hn. apply ing_ltb_total. exact Hn.
Qed.

Theorem sort_hings_perm l1 l2 :
  Permutation l1 l2 -> NoDup (map (fun i => i_full (hi_ing i)) l1) -> sort_hings l1 = sort_hings l2.
Proof.
  apply (isort_perm hing_ltb (fun i => i_full (hi_ing i))).
  - intros a. apply ing_ltb_irrefl.
  - intros a b c. apply ing_ltb_trans.
  - intros a b Hn. apply ing_ltb_total. exact Hn.
Qed.

Theorem sort_hosts_perm (l1 l2 : list ohost) :
  Permutation l1 l2 -> NoDup (map fst l1) -> isort ohost_ltb l1 = isort ohost_ltb l2.
Proof.
  apply (isort_perm ohost_ltb fst).
  - intros a. apply str_ltb_irrefl.
  - intros a b c. apply str_ltb_trans.
  - intros a b Hn H. destruct (str_ltb (fst b) (fst a)) eqn:E; [exact E|].
    exfalso. apply Hn. apply str_ltb_trich; assumption.
Qed.

(* ================================================================== *)
(* 1. readConfigKeys                                                    *)
(* ================================================================== *)
Lemma assoc_app {A} k (l1 l2 : list (string * A)) :
  assoc k (l1 ++ l2) = match assoc k l1 with Some v => Some v | None => assoc k l2 end.
Proof.
  induction l1 as [|[k' v] r IH]; cbn [app assoc]; [reflexivity|].
  destruct (String.eqb k k'); [reflexivity|exact IH].
Qed.

Lemma trim_prefix_spec p : forall s k, trim_prefix p s = Some k -> s = (p ++ k)%string.
Proof.
  induction p as [|a p IH]; intros s k H; cbn in *.
  - inversion H. reflexivity.
  - destruct s as [|b s]; [discriminate|]. destruct (Ascii.eqb_spec a b) as [->|]; [|discriminate].
    f_equal. apply IH. exact H.
Qed.

Lemma trim_prefix_app p k : trim_prefix p (p ++ k)%string = Some k.
Proof. induction p as [|a p IH]; cbn; [reflexivity|]. rewrite Ascii.eqb_refl. exact IH. Qed.

(* the entry of one pass that yields configuration key k: the first in visiting order *)
Definition offers_key (prefix k : string) (e : string * string) : bool :=
  match trim_prefix prefix (fst e) with Some k' => String.eqb k' k | None => false end.
Definition offer (prefix : string) (visit : annots) (k : string) : option string :=
  option_map snd (find (offers_key prefix k) visit).

Lemma pass_assoc prefix visit : forall keys k,
  assoc k (fold_left (rck_step prefix) visit keys)
  = match assoc k keys with Some v => Some v | None => offer prefix visit k end.
Proof.
  induction visit as [|e r IH]; intros keys k; cbn [fold_left].
  - unfold offer. cbn. destruct (assoc k keys); reflexivity.
  - rewrite IH. unfold offer, rck_step, offers_key. cbn [find].
    destruct (trim_prefix prefix (fst e)) as [key|] eqn:Et.
    + destruct (assoc key keys) as [v0|] eqn:Ea.
      * destruct (String.eqb_spec key k) as [->|Hne]; [rewrite Ea; reflexivity|reflexivity].
      * rewrite assoc_app. cbn [assoc]. destruct (assoc k keys) as [v1|] eqn:Ek; [reflexivity|].
        rewrite (String.eqb_sym key k).
        destruct (String.eqb_spec k key) as [->|Hne]; [reflexivity|reflexivity].
    + reflexivity.
Qed.

(* first prefix wins: the key comes from the first pass (option order) that offers it *)
Definition offers (passes : list (string * annots)) (k : string) : option string :=
  first_some (fun pass => offer (fst pass ++ "/")%string (snd pass) k) passes.

Lemma read_config_keys_from passes : forall keys k,
  assoc k (fold_left (fun keys pass => fold_left (rck_step (fst pass ++ "/")%string) (snd pass) keys) passes keys)
  = match assoc k keys with Some v => Some v | None => offers passes k end.
Proof.
  induction passes as [|p r IH]; intros keys k; cbn [fold_left].
  - cbn. destruct (assoc k keys); reflexivity.
  - rewrite IH, pass_assoc. unfold offers. cbn [first_some].
    destruct (assoc k keys); reflexivity.
Qed.

Theorem read_config_keys_first_prefix passes k :
  assoc k (read_config_keys passes) = offers passes k.
Proof. unfold read_config_keys. rewrite read_config_keys_from. reflexivity. Qed.

Lemma NoDup_fst_inj {A B} (l : list (A * B)) e1 e2 :
  NoDup (map fst l) -> In e1 l -> In e2 l -> fst e1 = fst e2 -> e1 = e2.
Proof.
  induction l as [|x r IH]; intros Hn H1 H2 He; [destruct H1|].
  inversion Hn as [|? ? Hx Hr]; subst. destruct H1 as [<-|H1], H2 as [<-|H2].
  - reflexivity.
  - exfalso. apply Hx. rewrite He. apply in_map. exact H2.
  - exfalso. apply Hx. rewrite <- He. apply in_map. exact H1.
  - apply IH; assumption.
Qed.

Lemma find_perm_unique {A} (f : A -> bool) l l' :
  Permutation l l' ->
  (forall x y, In x l -> In y l -> f x = true -> f y = true -> x = y) ->
  find f l = find f l'.
Proof.
  intros Hp Hu.
  assert (Hchar : forall m, Permutation l m -> forall x, find f m = Some x -> In x l /\ f x = true).
  { intros m Hm x Hx. apply find_some in Hx as [Hi Hf]. split; [|exact Hf].
    eapply Permutation_in; [apply Permutation_sym; exact Hm|exact Hi]. }
  destruct (find f l) as [x|] eqn:E1; destruct (find f l') as [y|] eqn:E2.
  - f_equal. destruct (Hchar l (Permutation_refl l) x E1) as [Hx Hfx].
    destruct (Hchar l' Hp y E2) as [Hy Hfy]. apply Hu; assumption.
  - exfalso. apply find_some in E1 as [Hi Hf].
    pose proof (find_none f l' E2 x (Permutation_in _ Hp Hi)) as Hc. congruence.
  - exfalso. apply find_some in E2 as [Hi Hf].
    pose proof (find_none f l E1 y (Permutation_in _ (Permutation_sym Hp) Hi)) as Hc. congruence.
  - reflexivity.
Qed.

Lemma offer_perm prefix visit visit' k :
  Permutation visit visit' -> NoDup (map fst visit) -> offer prefix visit k = offer prefix visit' k.
Proof.
  intros Hp Hn. unfold offer. f_equal. apply find_perm_unique; [exact Hp|].
  intros x y Hx Hy Hfx Hfy. apply (NoDup_fst_inj visit); [exact Hn|exact Hx|exact Hy|].
  unfold offers_key in *.
  destruct (trim_prefix prefix (fst x)) as [kx|] eqn:Ex; [|discriminate].
  destruct (trim_prefix prefix (fst y)) as [ky|] eqn:Ey; [|discriminate].
  apply String.eqb_eq in Hfx, Hfy. subst kx ky.
  rewrite (trim_prefix_spec _ _ _ Ex), (trim_prefix_spec _ _ _ Ey). reflexivity.
Qed.

Definition pass_perm (p p' : string * annots) : Prop := fst p = fst p' /\ Permutation (snd p) (snd p').
Definition pass_wf (p : string * annots) : Prop := NoDup (map fst (snd p)).

(* every pass may visit the annotations map in its own order: the keys read are the same *)
Theorem read_config_keys_order_indep passes passes' :
  Forall2 pass_perm passes passes' -> Forall pass_wf passes ->
  forall k, assoc k (read_config_keys passes) = assoc k (read_config_keys passes').
Proof.
  intros H2 Hwf k. rewrite !read_config_keys_first_prefix. unfold offers.
  induction H2 as [|p p' r r' [Hf Hp] Hr IH]; [reflexivity|].
  inversion Hwf as [|? ? Hw Hwr]; subst. cbn [first_some].
  rewrite <- Hf, (offer_perm _ (snd p) (snd p') k Hp Hw), (IH Hwr). reflexivity.
Qed.

(* the loops the other way round would depend on the visiting order *)
Theorem read_config_keys_swapped_order_dependent :
  exists prefixes visit visit' k,
    Permutation visit visit' /\ NoDup (map fst visit) /\
    assoc k (read_config_keys_swapped prefixes visit) <> assoc k (read_config_keys_swapped prefixes visit').
Proof.
  exists ["haproxy-ingress.github.io"; "ingress.kubernetes.io"],
         [("haproxy-ingress.github.io/app-root", "/a"); ("ingress.kubernetes.io/app-root", "/b")],
         [("ingress.kubernetes.io/app-root", "/b"); ("haproxy-ingress.github.io/app-root", "/a")],
         "app-root".
  split; [apply perm_swap|]. split.
  - cbn. constructor; [intros [H|[]]; discriminate|]. constructor; [intros []|constructor].
  - vm_compute. discriminate.
Qed.

(* the premises are satisfiable, and two prefixes naming one key with two values are settled
   by the order of the option, not by the visiting order *)
Example read_config_keys_example :
  let ann := [("ingress.kubernetes.io/app-root", "/b"); ("haproxy-ingress.github.io/app-root", "/a");
              ("haproxy-ingress.github.io/redirect-from", "r.example")] in
  Forall pass_wf [("haproxy-ingress.github.io", ann); ("ingress.kubernetes.io", rev ann)] /\
  read_config_keys [("haproxy-ingress.github.io", ann); ("ingress.kubernetes.io", rev ann)]
    = [("app-root", "/a"); ("redirect-from", "r.example")].
Proof.
  split; [|vm_compute; reflexivity].
  repeat constructor; cbn; intuition discriminate.
Qed.

(* ================================================================== *)
(* 2. annotations.Mapper                                                *)
(* ================================================================== *)
(* two mappers are the same for every reader when they hold the same entries per key, in
   the same order (the relative order of entries of different keys is never read) *)
Definition meq (m m' : mlog) : Prop := forall k, key_configs m k = key_configs m' k.

Lemma meq_refl m : meq m m. Proof. intros k. reflexivity. Qed.

Lemma path_get_key_configs m p k :
  path_get m p k = find (fun e => String.eqb (e_path e) p) (key_configs m k).
Proof.
  unfold path_get, key_configs. induction m as [|e r IH]; cbn [find filter]; [reflexivity|].
  destruct (String.eqb (e_key e) k); cbn [find].
  - rewrite andb_true_r. destruct (String.eqb (e_path e) p); [reflexivity|exact IH].
  - rewrite andb_false_r. exact IH.
Qed.

Lemma meq_path_get m m' p k : meq m m' -> path_get m p k = path_get m' p k.
Proof. intros H. rewrite !path_get_key_configs, (H k). reflexivity. Qed.

Lemma assoc_find {A} k (l : list (string * A)) :
  assoc k l = option_map snd (find (fun e => String.eqb k (fst e)) l).
Proof.
  induction l as [|[k' v] r IH]; cbn [assoc find fst]; [reflexivity|].
  destruct (String.eqb k k'); [reflexivity|exact IH].
Qed.

Lemma assoc_perm {A} k (l l' : list (string * A)) :
  Permutation l l' -> NoDup (map fst l) -> assoc k l = assoc k l'.
Proof.
  intros Hp Hn. rewrite !assoc_find. f_equal. apply find_perm_unique; [exact Hp|].
  intros x y Hx Hy Hfx Hfy. apply (NoDup_fst_inj l); [exact Hn|exact Hx|exact Hy|].
  apply String.eqb_eq in Hfx, Hfy. congruence.
Qed.

Lemma assoc_None_notin {A} k (l : list (string * A)) : assoc k l = None <-> ~ In k (map fst l).
Proof.
  induction l as [|[k' v] r IH]; cbn [assoc map fst In]; [tauto|].
  destruct (String.eqb_spec k k') as [->|Hne].
  - split; [discriminate|]. intros H. exfalso. apply H. left. reflexivity.
  - rewrite IH. split; [intros H [Hc|Hc]; [congruence|contradiction]|tauto].
Qed.

Lemma filter_perm {A} (f : A -> bool) l l' : Permutation l l' -> Permutation (filter f l) (filter f l').
Proof.
  induction 1 as [|x l l' Hp IH|x y l|l1 l2 l3 H1 IH1 H2 IH2]; cbn [filter].
  - constructor.
  - destruct (f x); [apply perm_skip|]; exact IH.
  - destruct (f x), (f y); try apply Permutation_refl. apply perm_swap.
  - eapply perm_trans; eassumption.
Qed.

Section MapperProofs.
  Variable vld : string -> string -> option string.

  Definition add1 (src p : string) (m : mlog) (kv : string * string) : mlog :=
    fst (add_annotation vld m src p (fst kv) (snd kv)).
  Definition add_all (m : mlog) (src p : string) (ann : annots) : mlog := fold_left (add1 src p) ann m.
  Definition conf (src p : string) (m : mlog) (kv : string * string) : bool :=
    snd (add_annotation vld m src p (fst kv) (snd kv)).

  Lemma add_annotations_fst ann : forall m src p cf,
    fst (fold_left (fun acc kv =>
      let r := add_annotation vld (fst acc) src p (fst kv) (snd kv) in
      (fst r, if snd r then snd acc ++ [fst kv] else snd acc)) ann (m, cf)) = add_all m src p ann.
  Proof.
    induction ann as [|kv r IH]; intros m src p cf; cbn [fold_left add_all]; [reflexivity|].
    cbn [fst snd]. rewrite IH. reflexivity.
  Qed.

  Lemma run_call_add_all m c : run_call vld m c = add_all m (c_src c) (c_path c) (c_ann c).
  Proof. unfold run_call, add_annotations. apply add_annotations_fst. Qed.

  Lemma key_configs_app m1 m2 k : key_configs (m1 ++ m2) k = key_configs m1 k ++ key_configs m2 k.
  Proof. unfold key_configs. apply filter_app. Qed.

  Lemma add_annotation_key_other m src p k v k' :
    k' <> k -> key_configs (fst (add_annotation vld m src p k v)) k' = key_configs m k'.
  Proof.
    intros Hne. unfold add_annotation. destruct (path_get m p k); [reflexivity|].
    destruct (vld k v); [|reflexivity]. cbn [fst]. rewrite key_configs_app. cbn.
    destruct (String.eqb_spec k k') as [->|_]; [contradiction|]. apply app_nil_r.
  Qed.

  Lemma add_annotation_respects m m' src p k v :
    key_configs m k = key_configs m' k ->
    key_configs (fst (add_annotation vld m src p k v)) k = key_configs (fst (add_annotation vld m' src p k v)) k
    /\ snd (add_annotation vld m src p k v) = snd (add_annotation vld m' src p k v).
  Proof.
    intros H. unfold add_annotation. rewrite !path_get_key_configs, H.
    destruct (find _ (key_configs m' k)); [split; [exact H|reflexivity]|].
    destruct (vld k v); [|split; [exact H|reflexivity]]. cbn [fst snd].
    rewrite !key_configs_app, H. split; reflexivity.
  Qed.

  Lemma add_all_other ann : forall m src p k,
    ~ In k (map fst ann) -> key_configs (add_all m src p ann) k = key_configs m k.
  Proof.
    induction ann as [|[k1 v1] r IH]; intros m src p k Hn; cbn [add_all fold_left]; [reflexivity|].
    fold (add_all (add1 src p m (k1, v1)) src p r). rewrite IH.
    - apply add_annotation_key_other. intros ->. apply Hn. left. reflexivity.
    - intros Hc. apply Hn. right. exact Hc.
  Qed.

  (* the effect of one AddAnnotations call on key k: that of the single entry of k *)
  Lemma add_all_key ann : forall m src p k, NoDup (map fst ann) ->
    key_configs (add_all m src p ann) k
    = match assoc k ann with
      | None => key_configs m k
      | Some v => key_configs (fst (add_annotation vld m src p k v)) k
      end.
  Proof.
    induction ann as [|[k1 v1] r IH]; intros m src p k Hn; cbn [add_all fold_left assoc]; [reflexivity|].
    inversion Hn as [|? ? Hk1 Hr]; subst. fold (add_all (add1 src p m (k1, v1)) src p r).
    destruct (String.eqb_spec k k1) as [->|Hne].
    - rewrite add_all_other; [reflexivity|exact Hk1].
    - rewrite IH; [|exact Hr].
      assert (He : key_configs (add1 src p m (k1, v1)) k = key_configs m k)
        by (apply add_annotation_key_other; exact Hne).
      destruct (assoc k r) as [v|]; [|exact He].
      apply (add_annotation_respects _ _ src p k v He).
  Qed.

  (* one call, its map visited in any order, from equivalent mappers: equivalent mappers *)
  Lemma add_all_perm m m' src p ann ann' :
    NoDup (map fst ann) -> Permutation ann ann' -> meq m m' ->
    meq (add_all m src p ann) (add_all m' src p ann').
  Proof.
    intros Hn Hp Hm k.
    assert (Hn' : NoDup (map fst ann')) by (eapply Permutation_NoDup; [apply Permutation_map; exact Hp|exact Hn]).
    rewrite !add_all_key; [|exact Hn'|exact Hn]. rewrite <- (assoc_perm k ann ann' Hp Hn).
    destruct (assoc k ann) as [v|]; [|apply Hm]. apply add_annotation_respects. apply Hm.
  Qed.

  (* the conflicts reported by a call: the entries whose key the path already holds with
     another value -- judged against the mapper as it was before the call *)
  Lemma conflicts_char ann : forall m src p cf, NoDup (map fst ann) ->
    snd (fold_left (fun acc kv =>
      let r := add_annotation vld (fst acc) src p (fst kv) (snd kv) in
      (fst r, if snd r then snd acc ++ [fst kv] else snd acc)) ann (m, cf))
    = cf ++ map fst (filter (conf src p m) ann).
  Proof.
    induction ann as [|[k1 v1] r IH]; intros m src p cf Hn.
    - cbn. symmetry. apply app_nil_r.
    - inversion Hn as [|? ? Hk1 Hr]; subst. cbn [fold_left fst snd].
      rewrite IH by exact Hr.
      assert (Hf : filter (conf src p (fst (add_annotation vld m src p k1 v1))) r = filter (conf src p m) r).
      { apply filter_ext_in. intros [k v] Hin. unfold conf. cbn [fst snd].
        apply add_annotation_respects. apply add_annotation_key_other.
        intros ->. apply Hk1. apply in_map_iff. exists (k1, v). split; [reflexivity|exact Hin]. }
      rewrite Hf. cbn [filter]. unfold conf at 2. cbn [fst snd].
      destruct (snd (add_annotation vld m src p k1 v1)).
      + cbn [map fst]. rewrite <- app_assoc. reflexivity.
      + reflexivity.
  Qed.

  Theorem add_annotations_iter_indep m m' src p ann ann' :
    NoDup (map fst ann) -> Permutation ann ann' -> meq m m' ->
    meq (fst (add_annotations vld m src p ann)) (fst (add_annotations vld m' src p ann')) /\
    Permutation (snd (add_annotations vld m src p ann)) (snd (add_annotations vld m' src p ann')).
  Proof.
    intros Hn Hp Hm. unfold add_annotations.
    assert (Hn' : NoDup (map fst ann')) by (eapply Permutation_NoDup; [apply Permutation_map; exact Hp|exact Hn]).
    rewrite !add_annotations_fst, !conflicts_char; [|exact Hn'|exact Hn]. cbn [app].
    split; [apply add_all_perm; assumption|].
    apply Permutation_map.
    assert (He : filter (conf src p m') ann' = filter (conf src p m) ann').
    { apply filter_ext. intros [k v]. unfold conf. cbn [fst snd]. symmetry.
      apply add_annotation_respects. apply Hm. }
    rewrite He. apply filter_perm. exact Hp.
  Qed.

  (* any number of calls *)
  Theorem run_calls_iter_indep cs : forall cs' m m',
    Forall2 call_perm cs cs' -> Forall call_wf cs -> meq m m' ->
    meq (run_calls vld m cs) (run_calls vld m' cs').
  Proof.
    induction cs as [|c r IH]; intros cs' m m' H2 Hwf Hm; inversion H2 as [|? c' ? r' [Hs [Hpt Hp]] Hr]; subst.
    - exact Hm.
    - inversion Hwf as [|? ? Hw Hwr]; subst. cbn [run_calls fold_left].
      apply IH; [exact Hr|exact Hwr|]. rewrite !run_call_add_all, <- Hs, <- Hpt.
      apply add_all_perm; assumption.
  Qed.

  Lemma meq_mget defaults m m' k : meq m m' -> mget defaults m k = mget defaults m' k.
  Proof. intros H. unfold mget. rewrite (H k). reflexivity. Qed.
  Lemma meq_cget defaults m m' p k : meq m m' -> cget defaults m p k = cget defaults m' p k.
  Proof. intros H. unfold cget. rewrite (meq_path_get m m' p k H). reflexivity. Qed.

  (* ---- first writer wins ---- *)
  Lemma find_app {A} (f : A -> bool) l1 l2 :
    find f (l1 ++ l2) = match find f l1 with Some x => Some x | None => find f l2 end.
  Proof. induction l1 as [|x r IH]; cbn [app find]; [reflexivity|]. destruct (f x); [reflexivity|exact IH]. Qed.

  Lemma run_call_path_get m c p k : call_wf c ->
    path_get (run_call vld m c) p k
    = match path_get m p k with Some e => Some e | None => call_offer vld c p k end.
  Proof.
    intros Hwf. rewrite run_call_add_all, path_get_key_configs, add_all_key; [|exact Hwf].
    unfold call_offer. destruct (assoc k (c_ann c)) as [v|].
    - unfold add_annotation. destruct (path_get m (c_path c) k) as [e0|] eqn:E0.
      + cbn [fst]. rewrite <- path_get_key_configs.
        destruct (String.eqb_spec (c_path c) p) as [<-|Hne]; [rewrite E0; reflexivity|].
        destruct (path_get m p k); reflexivity.
      + destruct (vld k v) as [rv|].
        * cbn [fst]. rewrite key_configs_app, find_app, <- path_get_key_configs.
          destruct (path_get m p k) as [e1|] eqn:E1; [reflexivity|].
          cbn. rewrite String.eqb_refl. cbn.
          destruct (String.eqb_spec (c_path c) p) as [<-|Hne]; reflexivity.
        * cbn [fst]. rewrite <- path_get_key_configs.
          destruct (path_get m p k); [reflexivity|]. destruct (String.eqb (c_path c) p); reflexivity.
    - rewrite <- path_get_key_configs. destruct (path_get m p k); [reflexivity|].
      destruct (String.eqb (c_path c) p); reflexivity.
  Qed.

  Theorem run_calls_first_writer cs : forall m p k, Forall call_wf cs ->
    path_get (run_calls vld m cs) p k
    = match path_get m p k with Some e => Some e | None => first_offer vld cs p k end.
  Proof.
    induction cs as [|c r IH]; intros m p k Hwf; cbn [run_calls fold_left first_offer].
    - destruct (path_get m p k); reflexivity.
    - inversion Hwf as [|? ? Hw Hwr]; subst. fold (run_calls vld (run_call vld m c) r).
      rewrite IH, run_call_path_get; [|exact Hw|exact Hwr].
      destruct (path_get m p k); [reflexivity|]. destruct (call_offer vld c p k); reflexivity.
  Qed.

  Corollary first_writer_wins cs p k : Forall call_wf cs ->
    path_get (run_calls vld [] cs) p k = first_offer vld cs p k.
  Proof. intros H. rewrite run_calls_first_writer; [reflexivity|exact H]. Qed.

  (* ---- canonical order: sortIngress first ---- *)
  Theorem feed_perm l l' : Permutation l l' -> NoDup (map a_name l) -> feed l = feed l'.
  Proof. intros Hp Hn. unfold feed. rewrite (sort_aings_perm l l' Hp Hn). reflexivity. Qed.

  (* The value every reader gets (Mapper.Get, KeyConfig.Get) is a function of the set of
     ingresses: the API may list them in any order (l' instead of l), and every
     AddAnnotations call may visit its map in any order (cs' instead of feed l'). *)
  Theorem mapper_order_indep defaults l l' cs' :
    Permutation l l' -> NoDup (map a_name l) -> Forall call_wf (feed l) ->
    Forall2 call_perm (feed l') cs' ->
    (forall k, mget defaults (run_calls vld [] cs') k = mget defaults (run_calls vld [] (feed l)) k) /\
    (forall p k, cget defaults (run_calls vld [] cs') p k = cget defaults (run_calls vld [] (feed l)) p k).
  Proof.
    intros Hp Hn Hwf H2. rewrite <- (feed_perm l l' Hp Hn) in H2.
    pose proof (run_calls_iter_indep (feed l) cs' [] [] H2 Hwf (meq_refl [])) as Hm.
    split; intros; symmetry; [apply meq_mget|apply meq_cget]; exact Hm.
  Qed.
End MapperProofs.

(* the service's annotations are offered before the ingress' for the same path, an older
   ingress before a younger one; hypotheses of the theorems satisfiable *)
Example mapper_example :
  let vld := fun (_ v : string) => Some v in
  let old := {| a_ing := {| i_ns := "n"; i_name := "old"; i_stamp := 1; i_class := None; i_rules := []; i_tls := [] |};
                a_ann := [("balance-algorithm", "leastconn"); ("timeout-server", "5s")];
                a_paths := [{| ap_link := "h/a"; ap_svc := "n/s"; ap_svc_ann := [("balance-algorithm", "first")] |}] |} in
  let young := {| a_ing := {| i_ns := "n"; i_name := "young"; i_stamp := 2; i_class := None; i_rules := []; i_tls := [] |};
                  a_ann := [("timeout-server", "9s"); ("maxconn-server", "7")];
                  a_paths := [{| ap_link := "h/b"; ap_svc := "n/s"; ap_svc_ann := [("balance-algorithm", "first")] |}] |} in
  Forall call_wf (feed [young; old]) /\ NoDup (map a_name [young; old]) /\
  feed [young; old] = feed [old; young] /\
  map (fun k => mget [("maxconn-server", "0")] (run_calls vld [] (feed [young; old])) k)
      ["balance-algorithm"; "timeout-server"; "maxconn-server"; "hsts"]
  = [(Some "Service n/s", "first"); (Some "Ingress n/old", "5s"); (Some "Ingress n/young", "7"); (None, "")].
Proof.
  cbv zeta. split; [|split; [|split]].
  - vm_compute. repeat constructor; cbn; intuition discriminate.
  - cbn. repeat constructor; cbn; intuition discriminate.
  - vm_compute. reflexivity.
  - vm_compute. reflexivity.
Qed.

(* ================================================================== *)
(* 3. redirect-from: first come, first served                           *)
(* ================================================================== *)
Definition claim (regex : bool) (h : hostclaim) : string := if regex then hc_redir_re h else hc_redir h.
Definition claims (regex : bool) (r : string) (h : hostclaim) : bool := hc_paths h && String.eqb (claim regex h) r.
Definition field (regex : bool) (e : string * (string * string)) : string :=
  if regex then snd (snd e) else fst (snd e).

Lemma find_target_spec st r regex : r <> "" ->
  find_target st r regex = option_map fst (find (fun e => String.eqb (field regex e) r) st).
Proof.
  intros Hr. unfold find_target. destruct (String.eqb_spec r "") as [->|_]; [contradiction|].
  reflexivity.
Qed.

(* the field written by buildHostRedirect *)
Definition written (st : rstate) (regex : bool) (h : hostclaim) : string :=
  match find_target st (claim regex h) regex with
  | Some _ => ""
  | None => if hc_paths h then claim regex h else ""
  end.

Lemma build_host_redirect_written st h :
  build_host_redirect st h = st ++ [(hc_name h, (written st false h, written st true h))].
Proof. reflexivity. Qed.

Definition holder_inv (st : rstate) (done : list hostclaim) : Prop :=
  forall regex r, r <> "" ->
    find_target st r regex = option_map hc_name (find (claims regex r) done).

Lemma holder_step st done h : holder_inv st done -> holder_inv (build_host_redirect st h) (done ++ [h]).
Proof.
  intros Hinv regex r Hr. rewrite build_host_redirect_written.
  rewrite find_target_spec by exact Hr. rewrite !find_app.
  pose proof (Hinv regex r Hr) as Hi. rewrite find_target_spec in Hi by exact Hr.
  destruct (find (fun e => String.eqb (field regex e) r) st) as [e|] eqn:E1;
    destruct (find (claims regex r) done) as [d|] eqn:E2; cbn [option_map] in Hi |- *; try discriminate.
  - exact Hi.
  - (* nobody holds r yet *)
    cbn [find]. assert (Hw : String.eqb (field regex (hc_name h, (written st false h, written st true h))) r
                           = claims regex r h).
    { assert (Hf : field regex (hc_name h, (written st false h, written st true h)) = written st regex h)
        by (destruct regex; reflexivity).
      rewrite Hf. unfold written, claims.
      destruct (String.eqb_spec (claim regex h) r) as [Heq|Hne].
      - rewrite Heq. rewrite find_target_spec by exact Hr. rewrite E1. cbn [option_map].
        destruct (hc_paths h); cbn [andb].
        + apply String.eqb_refl.
        + apply String.eqb_neq. intros Hc. apply Hr. symmetry. exact Hc.
      - rewrite andb_false_r.
        destruct (find_target st (claim regex h) regex); [|destruct (hc_paths h)];
          apply String.eqb_neq; try (intros Hc; apply Hr; symmetry; exact Hc). exact Hne. }
    rewrite Hw. destruct (claims regex r h); reflexivity.
Qed.

Lemma apply_redirects_inv order : forall st done,
  holder_inv st done -> holder_inv (fold_left build_host_redirect order st) (done ++ order).
Proof.
  induction order as [|h r IH]; intros st done Hinv; cbn [fold_left].
  - rewrite app_nil_r. exact Hinv.
  - replace (done ++ h :: r) with ((done ++ [h]) ++ r) by (rewrite <- app_assoc; reflexivity).
    apply IH. apply holder_step. exact Hinv.
Qed.

(* the requests for r go to the first host, in sync order, that has paths and claims r *)
Theorem redirect_first_claim order regex r : r <> "" ->
  find_target (apply_redirects order) r regex = option_map hc_name (find (claims regex r) order).
Proof.
  intros Hr. unfold apply_redirects.
  apply (apply_redirects_inv order [] []); [|exact Hr].
  intros rg r' Hr'. rewrite find_target_spec by exact Hr'. reflexivity.
Qed.

(* no two hosts with paths claim the same name *)
Definition unique_claims (order : list hostclaim) : Prop :=
  forall regex h1 h2, In h1 order -> In h2 order -> hc_paths h1 = true -> hc_paths h2 = true ->
    claim regex h1 = claim regex h2 -> claim regex h1 <> "" -> h1 = h2.

Theorem redirects_order_indep_under_H order order' :
  Permutation order order' -> unique_claims order ->
  forall regex r, find_target (apply_redirects order) r regex = find_target (apply_redirects order') r regex.
Proof.
  intros Hp Hu regex r. destruct (String.eqb_spec r "") as [->|Hr].
  - unfold find_target. cbn. reflexivity.
  - rewrite !redirect_first_claim by exact Hr. f_equal. apply find_perm_unique; [exact Hp|].
    intros x y Hx Hy Hfx Hfy. unfold claims in Hfx, Hfy.
    apply andb_true_iff in Hfx as [Hpx Hcx]. apply andb_true_iff in Hfy as [Hpy Hcy].
    apply String.eqb_eq in Hcx, Hcy. apply (Hu regex); try assumption; congruence.
Qed.

(* ... and without that hypothesis the order of the hosts loop decides: what Go's map
   iteration did before the hosts were visited in declaration order *)
Theorem redirects_order_refuted :
  exists order order', Permutation order order' /\ NoDup (map hc_name order) /\
    redirect_of (apply_redirects order) "redir.example" <> redirect_of (apply_redirects order') "redir.example".
Proof.
  exists [ {| hc_name := "a.example"; hc_paths := true; hc_redir := "redir.example"; hc_redir_re := "" |};
           {| hc_name := "b.example"; hc_paths := true; hc_redir := "redir.example"; hc_redir_re := "" |} ],
         [ {| hc_name := "b.example"; hc_paths := true; hc_redir := "redir.example"; hc_redir_re := "" |};
           {| hc_name := "a.example"; hc_paths := true; hc_redir := "redir.example"; hc_redir_re := "" |} ].
  split; [apply perm_swap|]. split.
  - cbn. repeat constructor; cbn; intuition discriminate.
  - vm_compute. discriminate.
Qed.

Example unique_claims_example :
  unique_claims [ {| hc_name := "a.example"; hc_paths := true; hc_redir := "r1.example"; hc_redir_re := "" |};
                  {| hc_name := "b.example"; hc_paths := false; hc_redir := "r1.example"; hc_redir_re := "" |} ].
Proof.
  intros regex h1 h2 [<-|[<-|[]]] [<-|[<-|[]]] H1 H2 Hc Hne; try reflexivity; cbn in *; discriminate.
Qed.

(* the hosts loop as the code runs it now: declaration order of the sorted ingress list.
   Whatever order the API lists the ingresses in, the same redirects come out, and the
   winner of a name is the first declaring host of the oldest ingresses *)
Section HostChainProofs.
  Variable vld : string -> string -> option string.
  Variable defaults : annots.
  Variable prefixes : list string.

  Theorem host_redirects_perm ings ings' :
    Permutation ings ings' -> NoDup (map (fun i => i_full (hi_ing i)) ings) ->
    host_redirects vld defaults prefixes ings = host_redirects vld defaults prefixes ings'.
  Proof. intros Hp Hn. unfold host_redirects. rewrite (sort_hings_perm ings ings' Hp Hn). reflexivity. Qed.

  Theorem host_app_root_perm ings ings' h :
    Permutation ings ings' -> NoDup (map (fun i => i_full (hi_ing i)) ings) ->
    host_app_root vld defaults prefixes ings h = host_app_root vld defaults prefixes ings' h.
  Proof. intros Hp Hn. unfold host_app_root. rewrite (sort_hings_perm ings ings' Hp Hn). reflexivity. Qed.

  Theorem host_redirects_first_claim ings regex r : r <> "" ->
    let sorted := sort_hings ings in
    find_target (host_redirects vld defaults prefixes ings) r regex
    = option_map hc_name (find (claims regex r) (map (claim_of vld defaults prefixes sorted) (decl_order sorted))).
  Proof. intros Hr. apply redirect_first_claim. exact Hr. Qed.
End HostChainProofs.

(* ================================================================== *)
(* 4. auth proxy ports, oauth lookup, alias owner, userlists            *)
(* ================================================================== *)
Lemma alloc_fold_inv cap all requests : forall bound res,
  NoDup bound -> incl bound all -> incl requests all ->
  List.length (nodup string_dec all) <= cap ->
  Forall (fun r => snd r = true) res ->
  Forall (fun r => snd r = true) (snd (fold_left (alloc_step cap) requests (bound, res))).
Proof.
  induction requests as [|t r IH]; intros bound res Hnd Hb Hr Hcap Hres; cbn [fold_left]; [exact Hres|].
  unfold alloc_step at 2.
  assert (Hrr : incl r all) by (intros x Hx; apply Hr; right; exact Hx).
  assert (Hok : Forall (fun r0 : string * bool => snd r0 = true) (res ++ [(t, true)])).
  { apply Forall_app. split; [exact Hres|]. constructor; [reflexivity|constructor]. }
  destruct (existsb (String.eqb t) bound) eqn:Ee.
  - apply IH; assumption.
  - assert (Hnt : ~ In t bound).
    { intros Hc. apply Bool.not_true_iff_false in Ee. apply Ee. apply existsb_exists.
      exists t. split; [exact Hc|apply String.eqb_refl]. }
    assert (Hlt : List.length bound < cap).
    { assert (Hl : List.length (t :: bound) <= List.length (nodup string_dec all)).
      { apply NoDup_incl_length; [constructor; assumption|].
        intros x [<-|Hx]; apply nodup_In; [apply Hr; left; reflexivity|apply Hb; exact Hx]. }
      cbn [List.length] in Hl. lia. }
    apply Nat.ltb_lt in Hlt. rewrite Hlt. apply IH; try assumption.
    + apply NoDup_app_intro; [exact Hnd|constructor; [intros []|constructor]|].
      intros x Hx [<-|[]]. contradiction.
    + intros x Hx. apply in_app_or in Hx as [Hx|[<-|[]]]; [apply Hb; exact Hx|apply Hr; left; reflexivity].
Qed.

(* enough ports for the distinct authentication services: everybody is served, in any order *)
Theorem alloc_all_granted_under_H cap requests :
  List.length (nodup string_dec requests) <= cap ->
  Forall (fun r => snd r = true) (alloc_auth cap requests).
Proof.
  intros Hcap. unfold alloc_auth.
  apply (alloc_fold_inv cap requests requests [] []); try assumption.
  - constructor.
  - intros x [].
  - apply incl_refl.
  - constructor.
Qed.

Lemma alloc_auth_targets cap requests : map fst (alloc_auth cap requests) = requests.
Proof.
  unfold alloc_auth.
  assert (H : forall bound res, map fst (snd (fold_left (alloc_step cap) requests (bound, res))) = map fst res ++ requests).
  { induction requests as [|t r IH]; intros bound res; cbn [fold_left]; [symmetry; apply app_nil_r|].
    unfold alloc_step at 2.
    destruct (existsb (String.eqb t) bound); [|destruct (Nat.ltb (List.length bound) cap)];
      rewrite IH, map_app, <- app_assoc; reflexivity. }
  apply (H [] []).
Qed.

Lemma assoc_all_true (l : list (string * bool)) t :
  Forall (fun r => snd r = true) l ->
  assoc t l = if existsb (String.eqb t) (map fst l) then Some true else None.
Proof.
  induction l as [|[t1 b1] r IH]; intros Hf; cbn [assoc map fst existsb]; [reflexivity|].
  inversion Hf as [|? ? Hb Hr]; subst. cbn [snd] in Hb. subst b1.
  destruct (String.eqb t t1); [reflexivity|]. cbn [orb]. apply IH. exact Hr.
Qed.

Theorem alloc_order_indep_under_H cap requests requests' t :
  Permutation requests requests' -> List.length (nodup string_dec requests) <= cap ->
  auth_granted cap requests t = auth_granted cap requests' t.
Proof.
  intros Hp Hcap.
  assert (Hcap' : List.length (nodup string_dec requests') <= cap).
  { assert (Hl : List.length (nodup string_dec requests') <= List.length (nodup string_dec requests)).
    { apply NoDup_incl_length; [apply NoDup_nodup|]. intros x Hx. apply nodup_In. apply nodup_In in Hx.
      eapply Permutation_in; [apply Permutation_sym; exact Hp|exact Hx]. }
    lia. }
  assert (Hall : forall reqs, List.length (nodup string_dec reqs) <= cap ->
            auth_granted cap reqs t = if existsb (String.eqb t) reqs then Some true else None).
  { intros reqs Hc. unfold auth_granted.
    rewrite (assoc_all_true _ t (alloc_all_granted_under_H cap reqs Hc)), alloc_auth_targets. reflexivity. }
  rewrite (Hall requests Hcap), (Hall requests' Hcap').
  assert (He : existsb (String.eqb t) requests = existsb (String.eqb t) requests').
  { apply eq_true_iff_eq. rewrite !existsb_exists. split; intros (x & Hx & He); exists x; (split; [|exact He]).
    - eapply Permutation_in; [exact Hp|exact Hx].
    - eapply Permutation_in; [apply Permutation_sym; exact Hp|exact Hx]. }
  rewrite He. reflexivity.
Qed.

(* more services than ports: who is denied depends on who came first *)
Theorem alloc_order_refuted :
  exists cap requests requests' t, Permutation requests requests' /\
    auth_granted cap requests t <> auth_granted cap requests' t.
Proof.
  exists 1, ["_auth_a"; "_auth_b"], ["_auth_b"; "_auth_a"], "_auth_a".
  split; [apply perm_swap|]. vm_compute. discriminate.
Qed.

(* ---- oauth ---- *)
Lemma filter_name_find {B} (l : list (string * B)) n :
  NoDup (map fst l) ->
  filter (fun h => String.eqb (fst h) n) l
  = match find (fun h => String.eqb (fst h) n) l with Some h => [h] | None => [] end.
Proof.
  induction l as [|[a b] r IH]; intros Hn; cbn [filter find fst]; [reflexivity|].
  inversion Hn as [|? ? Ha Hr]; subst. destruct (String.eqb_spec a n) as [->|Hne].
  - f_equal. rewrite IH by exact Hr.
    destruct (find (fun h => String.eqb (fst h) n) r) as [h|] eqn:E; [|reflexivity].
    exfalso. apply find_some in E as [Hi He]. apply String.eqb_eq in He. apply Ha. rewrite <- He. apply in_map. exact Hi.
  - apply IH. exact Hr.
Qed.

Lemma find_name_perm {B} (l l' : list (string * B)) n :
  Permutation l l' -> NoDup (map fst l) ->
  find (fun h => String.eqb (fst h) n) l = find (fun h => String.eqb (fst h) n) l'.
Proof.
  intros Hp Hn. apply find_perm_unique; [exact Hp|].
  intros x y Hx Hy Hfx Hfy. apply String.eqb_eq in Hfx, Hfy.
  apply (NoDup_fst_inj l); [exact Hn|exact Hx|exact Hy|congruence].
Qed.

Lemma NoDup_fst_filter {B} (f : string * B -> bool) (l : list (string * B)) :
  NoDup (map fst l) -> NoDup (map fst (filter f l)).
Proof.
  induction l as [|x r IH]; intros Hn; cbn [filter map]; [constructor|].
  inversion Hn as [|? ? Hx Hr]; subst. destruct (f x); [|apply IH; exact Hr].
  cbn [map]. constructor; [|apply IH; exact Hr].
  intros Hc. apply Hx. apply in_map_iff in Hc as (y & Hy & Hin). apply in_map_iff. exists y.
  split; [exact Hy|]. apply filter_In in Hin. apply Hin.
Qed.

(* the hosts map may be iterated in any order: the same oauth backend is found *)
Theorem find_oauth_order_indep visit visit' own ns prefix :
  Permutation visit visit' -> NoDup (map fst visit) ->
  find_oauth visit own ns prefix = find_oauth visit' own ns prefix.
Proof.
  intros Hp Hn.
  assert (Hn' : NoDup (map fst visit')) by (eapply Permutation_NoDup; [apply Permutation_map; exact Hp|exact Hn]).
  unfold find_oauth.
  rewrite (filter_name_find visit own Hn), (filter_name_find visit' own Hn'), (find_name_perm visit visit' own Hp Hn).
  rewrite (filter_name_find visit default_host Hn), (filter_name_find visit' default_host Hn'),
          (find_name_perm visit visit' default_host Hp Hn).
  rewrite (sort_hosts_perm (filter (fun h => negb (String.eqb (fst h) default_host)) visit)
                           (filter (fun h => negb (String.eqb (fst h) default_host)) visit')).
  - reflexivity.
  - apply filter_perm. exact Hp.
  - apply NoDup_fst_filter. exact Hn.
Qed.

(* before the fix *)
Theorem find_oauth_old_refuted :
  exists visit visit' ns prefix, Permutation visit visit' /\ NoDup (map fst visit) /\
    find_oauth_old visit ns prefix <> find_oauth_old visit' ns prefix.
Proof.
  exists [("a.example", [("/oauth2", "ns1", "ns1_proxya_4180")]); ("b.example", [("/oauth2", "ns1", "ns1_proxyb_4180")])],
         [("b.example", [("/oauth2", "ns1", "ns1_proxyb_4180")]); ("a.example", [("/oauth2", "ns1", "ns1_proxya_4180")])],
         "ns1", "/oauth2".
  split; [apply perm_swap|]. split.
  - cbn. repeat constructor; cbn; intuition discriminate.
  - vm_compute. discriminate.
Qed.

(* the path of the own host has precedence *)
Theorem find_oauth_own_first visit own ns prefix h b :
  NoDup (map fst visit) -> In h visit -> fst h = own -> host_oauth ns prefix h = Some b ->
  find_oauth visit own ns prefix = Some b.
Proof.
  intros Hn Hin Ho Hb. unfold find_oauth. rewrite (filter_name_find visit own Hn).
  destruct (find (fun h0 => String.eqb (fst h0) own) visit) as [h'|] eqn:E.
  - apply find_some in E as [Hi He]. apply String.eqb_eq in He.
    assert (h' = h) by (apply (NoDup_fst_inj visit); [exact Hn|exact Hi|exact Hin|congruence]).
    subst h'. cbn [first_some]. rewrite Hb. reflexivity.
  - exfalso. pose proof (find_none _ _ E h Hin) as Hc. cbn in Hc. rewrite Ho, String.eqb_refl in Hc. discriminate.
Qed.

(* ---- server alias ---- *)
Theorem alias_owner_order_indep visit visit' alias :
  Permutation visit visit' -> NoDup (map fst visit) ->
  alias_owner visit alias = alias_owner visit' alias.
Proof.
  intros Hp Hn. unfold alias_owner. destruct (String.eqb alias ""); [reflexivity|].
  assert (He : existsb (fun h => String.eqb (fst h) alias) visit = existsb (fun h => String.eqb (fst h) alias) visit').
  { apply eq_true_iff_eq. rewrite !existsb_exists. split; intros (x & Hx & He); exists x; (split; [|exact He]).
    - eapply Permutation_in; [exact Hp|exact Hx].
    - eapply Permutation_in; [apply Permutation_sym; exact Hp|exact Hx]. }
  rewrite He. destruct (existsb _ visit'); [reflexivity|].
  rewrite (isort_perm alias_ltb fst) with (l2 := filter (fun h => negb (String.eqb (fst h) default_host)) visit');
    [reflexivity| | | |apply filter_perm; exact Hp|apply NoDup_fst_filter; exact Hn].
  - intros a. apply str_ltb_irrefl.
  - intros a b c. apply str_ltb_trans.
  - intros a b Hne H. destruct (str_ltb (fst b) (fst a)) eqn:E; [exact E|].
    exfalso. apply Hne. apply str_ltb_trich; assumption.
Qed.

(* ---- userlists ---- *)
Lemma userlists_fold secrets reqs : forall built name,
  assoc name (fold_left (userlist_step secrets) reqs built)
  = match assoc name built with
    | Some u => Some u
    | None => if existsb (fun r => String.eqb (snd r) name) reqs then assoc name secrets else None
    end.
Proof.
  induction reqs as [|[b s] r IH]; intros built name; cbn [fold_left existsb].
  - destruct (assoc name built); reflexivity.
  - rewrite IH. unfold userlist_step. cbn [snd].
    destruct (assoc s secrets) as [users|] eqn:Es.
    + destruct (assoc s built) as [u0|] eqn:Eb.
      * destruct (assoc name built) eqn:En; [reflexivity|].
        destruct (String.eqb_spec s name) as [->|_]; [congruence|reflexivity].
      * rewrite assoc_app. cbn [assoc]. destruct (assoc name built) eqn:En; [reflexivity|].
        rewrite (String.eqb_sym s name).
        destruct (String.eqb_spec name s) as [->|_]; [cbn [orb]; symmetry; exact Es|reflexivity].
    + destruct (assoc name built); [reflexivity|].
      destruct (String.eqb_spec s name) as [->|_]; cbn [orb]; [|reflexivity].
      rewrite Es. destruct (existsb _ r); reflexivity.
Qed.

(* a userlist holds the users of the secret it is named after, whoever asked first *)
Theorem userlists_order_indep secrets reqs reqs' name :
  Permutation reqs reqs' ->
  assoc name (userlists_of secrets reqs) = assoc name (userlists_of secrets reqs').
Proof.
  intros Hp. unfold userlists_of. rewrite !userlists_fold. cbn [assoc].
  assert (He : existsb (fun r => String.eqb (snd r) name) reqs = existsb (fun r => String.eqb (snd r) name) reqs').
  { apply eq_true_iff_eq. rewrite !existsb_exists. split; intros (x & Hx & He); exists x; (split; [|exact He]).
    - eapply Permutation_in; [exact Hp|exact Hx].
    - eapply Permutation_in; [apply Permutation_sym; exact Hp|exact Hx]. }
  rewrite He. reflexivity.
Qed.

(* ================================================================== *)
(* the annotations phase as a whole (hosts loop, then backends loop)   *)
(* ================================================================== *)
(* side condition H: no redirect-from / redirect-from-regex name claimed by two hosts that
   have paths, and at least as many auth proxy ports as distinct authentication services *)
Theorem annotations_order_indep_under_H hosts hosts' cap reqs reqs' :
  Permutation hosts hosts' -> unique_claims hosts ->
  Permutation reqs reqs' -> List.length (nodup string_dec reqs) <= cap ->
  (forall regex r, find_target (apply_redirects hosts) r regex = find_target (apply_redirects hosts') r regex) /\
  (forall t, auth_granted cap reqs t = auth_granted cap reqs' t).
Proof.
  intros Hp Hu Hq Hc. split.
  - apply redirects_order_indep_under_H; assumption.
  - intros t. apply alloc_order_indep_under_H; assumption.
Qed.

Theorem annotations_order_refuted :
  (exists hosts hosts', Permutation hosts hosts' /\ NoDup (map hc_name hosts) /\
     redirect_of (apply_redirects hosts) "redir.example" <> redirect_of (apply_redirects hosts') "redir.example") /\
  (exists cap reqs reqs' t, Permutation reqs reqs' /\ auth_granted cap reqs t <> auth_granted cap reqs' t).
Proof. exact (conj redirects_order_refuted alloc_order_refuted). Qed.

(* ================================================================== *)
(* the host chain with every map visit free                             *)
(* ================================================================== *)
Lemma rck_step_NoDup prefix keys e : NoDup (map fst keys) -> NoDup (map fst (rck_step prefix keys e)).
Proof.
  intros Hn. unfold rck_step. destruct (trim_prefix prefix (fst e)) as [key|]; [|exact Hn].
  destruct (assoc key keys) eqn:Ea; [exact Hn|]. rewrite map_app. cbn [map fst].
  apply NoDup_app_intro; [exact Hn|constructor; [intros []|constructor]|].
  intros x Hx [<-|[]]. apply assoc_None_notin in Ea. contradiction.
Qed.

Lemma pass_NoDup pre l : forall keys, NoDup (map fst keys) -> NoDup (map fst (fold_left (rck_step pre) l keys)).
Proof.
  induction l as [|e l IHl]; intros keys Hn; cbn [fold_left]; [exact Hn|].
  apply IHl. apply rck_step_NoDup. exact Hn.
Qed.

Lemma read_config_keys_NoDup passes : NoDup (map fst (read_config_keys passes)).
Proof.
  unfold read_config_keys.
  assert (H : forall keys, NoDup (map fst keys) ->
            NoDup (map fst (fold_left (fun keys pass => fold_left (rck_step (fst pass ++ "/")%string) (snd pass) keys) passes keys))).
  { induction passes as [|p r IH]; intros keys Hn; cbn [fold_left]; [exact Hn|]. apply IH.
    apply pass_NoDup. exact Hn. }
  apply H. constructor.
Qed.

Lemma In_assoc {A} (l : list (string * A)) k v : NoDup (map fst l) -> (In (k, v) l <-> assoc k l = Some v).
Proof.
  induction l as [|[k' v'] r IH]; intros Hn; cbn [In assoc]; [split; [intros []|discriminate]|].
  inversion Hn as [|? ? Hk Hr]; subst. destruct (String.eqb_spec k k') as [->|Hne].
  - split.
    + intros [H|H]; [inversion H; reflexivity|]. exfalso. apply Hk. apply in_map_iff. exists (k', v). split; [reflexivity|exact H].
    + intros H. inversion H. left. reflexivity.
  - rewrite <- (IH Hr). split; [intros [H|H]; [inversion H; congruence|exact H]|intros H; right; exact H].
Qed.

Lemma assoc_eq_perm {A} (l l' : list (string * A)) :
  NoDup (map fst l) -> NoDup (map fst l') -> (forall k, assoc k l = assoc k l') -> Permutation l l'.
Proof.
  intros Hn Hn' He. apply NoDup_Permutation.
  - eapply NoDup_map_inv. exact Hn.
  - eapply NoDup_map_inv. exact Hn'.
  - intros [k v]. rewrite (In_assoc l k v Hn), (In_assoc l' k v Hn'), (He k). tauto.
Qed.

Lemma call_perm_trans a b c : call_perm a b -> call_perm b c -> call_perm a c.
Proof.
  intros (H1 & H2 & H3) (H4 & H5 & H6). repeat split; try congruence. eapply perm_trans; eassumption.
Qed.

Lemma Forall2_trans {A} (R : A -> A -> Prop) :
  (forall a b c, R a b -> R b c -> R a c) -> forall l1 l2 l3, Forall2 R l1 l2 -> Forall2 R l2 l3 -> Forall2 R l1 l3.
Proof.
  intros Ht l1 l2 l3 H12. revert l3. induction H12 as [|a b r s Hab Hrs IH]; intros l3 H23; inversion H23; subst; constructor.
  - eapply Ht; eassumption.
  - apply IH. assumption.
Qed.

Section HostChainIter.
  Variable vld : string -> string -> option string.
  Variable defaults : annots.

  (* the claim of a host, from its mapper *)
  Definition claim_from (sorted : list hing) (h : string) (m : mlog) : hostclaim :=
    {| hc_name := h; hc_paths := host_has_paths sorted h;
       hc_redir := snd (mget defaults m "redirect-from");
       hc_redir_re := snd (mget defaults m "redirect-from-regex") |}.

  Lemma claim_of_from prefixes sorted h :
    claim_of vld defaults prefixes sorted h
    = claim_from sorted h (run_calls vld [] (host_calls (keys_of prefixes) sorted h)).
  Proof. reflexivity. Qed.

  Lemma host_calls_perm keys keys' sorted h :
    (forall i, NoDup (map fst (keys i))) -> (forall i, NoDup (map fst (keys' i))) ->
    (forall i k, assoc k (keys i) = assoc k (keys' i)) ->
    Forall2 call_perm (host_calls keys sorted h) (host_calls keys' sorted h) /\
    Forall call_wf (host_calls keys sorted h).
  Proof.
    intros Hn Hn' He. unfold host_calls. induction sorted as [|i r [IH1 IH2]]; cbn [flat_map]; [split; constructor|].
    split.
    - apply Forall2_app; [|exact IH1]. induction (filter (String.eqb h) (host_decls i)) as [|x l IHl]; cbn [map]; constructor; [|exact IHl].
      repeat split; cbn [c_src c_path c_ann]. unfold ann_host. apply filter_perm.
      apply assoc_eq_perm; [apply Hn|apply Hn'|apply He].
    - apply Forall_app. split; [|exact IH2].
      induction (filter (String.eqb h) (host_decls i)) as [|x l IHl]; cbn [map]; constructor; [|exact IHl].
      unfold call_wf. cbn [c_ann]. unfold ann_host. apply NoDup_fst_filter. apply Hn.
  Qed.

  (* readConfigKeys may visit the annotations in any order in every pass (keys' for keys),
     and every AddAnnotations call of addHost may visit its map in any order (cs'):
     the host claims the same redirect-from names *)
  Theorem host_claim_iter_indep keys keys' sorted h cs' :
    (forall i, NoDup (map fst (keys i))) -> (forall i, NoDup (map fst (keys' i))) ->
    (forall i k, assoc k (keys i) = assoc k (keys' i)) ->
    Forall2 call_perm (host_calls keys' sorted h) cs' ->
    claim_from sorted h (run_calls vld [] cs') = claim_from sorted h (run_calls vld [] (host_calls keys sorted h)).
  Proof.
    intros Hn Hn' He H2. destruct (host_calls_perm keys keys' sorted h Hn Hn' He) as [Hp Hwf].
    pose proof (Forall2_trans call_perm call_perm_trans _ _ _ Hp H2) as H3.
    pose proof (run_calls_iter_indep vld _ _ [] [] H3 Hwf (meq_refl [])) as Hm.
    unfold claim_from. rewrite <- !(meq_mget defaults _ _ _ Hm). reflexivity.
  Qed.

  (* instance: the keys of two runs of readConfigKeys whose passes visited the map differently *)
  Theorem host_claim_iter_indep_keys prefixes (visits : hing -> list (string * annots)) sorted h cs' :
    (forall i, Forall2 pass_perm (map (fun p => (p, hi_raw i)) prefixes) (visits i)) ->
    (forall i, NoDup (map fst (hi_raw i))) ->
    Forall2 call_perm (host_calls (fun i => read_config_keys (visits i)) sorted h) cs' ->
    claim_from sorted h (run_calls vld [] cs') = claim_of vld defaults prefixes sorted h.
  Proof.
    intros Hv Hraw H2. rewrite claim_of_from. apply (host_claim_iter_indep (keys_of prefixes) (fun i => read_config_keys (visits i))).
    - intros i. apply read_config_keys_NoDup.
    - intros i. apply read_config_keys_NoDup.
    - intros i k. unfold keys_of. apply read_config_keys_order_indep; [apply Hv|].
      apply Forall_forall. intros p Hp. apply in_map_iff in Hp as (x & <- & _). exact (Hraw i).
    - exact H2.
  Qed.
End HostChainIter.

(* ---- tcp-services ConfigMap ---- *)
Theorem tcp_owner_order_indep valid visit visit' port :
  Permutation visit visit' -> NoDup (map fst visit) ->
  tcp_owner valid visit port = tcp_owner valid visit' port.
Proof.
  intros Hp Hn. unfold tcp_owner.
  rewrite (isort_perm alias_ltb fst) with (l2 := visit'); [reflexivity| | | |exact Hp|exact Hn].
  - intros a. apply str_ltb_irrefl.
  - intros a b c. apply str_ltb_trans.
  - intros a b Hne H. destruct (str_ltb (fst b) (fst a)) eqn:E; [exact E|].
    exfalso. apply Hne. apply str_ltb_trich; assumption.
Qed.

Theorem tcp_name_old_refuted :
  exists valid visit visit' port, Permutation visit visit' /\ NoDup (map fst visit) /\
    tcp_name_old valid visit port <> tcp_name_old valid visit' port.
Proof.
  exists (fun _ => true), [("9000", "ns1/svc1:80"); ("09000", "ns1/svc2:80")],
         [("09000", "ns1/svc2:80"); ("9000", "ns1/svc1:80")], 9000%Z.
  split; [apply perm_swap|]. split.
  - cbn. repeat constructor; cbn; intuition discriminate.
  - vm_compute. discriminate.
Qed.

(* ---- Gateway API routes ---- *)
Theorem sort_routes_perm l1 l2 :
  Permutation l1 l2 -> NoDup (map gr_full l1) -> sort_routes l1 = sort_routes l2.
Proof.
  apply (isort_perm groute_ltb gr_full).
  - intros a. apply ing_ltb_irrefl.
  - intros a b c. apply ing_ltb_trans.
  - intros a b Hn. apply ing_ltb_total. exact Hn.
Qed.

Theorem gateway_sort_perm l1 l2 :
  Permutation l1 l2 -> NoDup (map gr_full l1) ->
  sort_routes l1 = sort_routes l2 /\ route_conversion l1 = route_conversion l2 /\
  StronglySorted (fun a b => groute_ltb a b = true) (sort_routes l1).
Proof.
  intros Hp Hn. split; [apply sort_routes_perm; assumption|]. split.
  - unfold route_conversion. rewrite (sort_routes_perm l1 l2 Hp Hn). reflexivity.
  - apply (isort_sorted groute_ltb gr_full); [| |exact Hn].
    + intros a b c. apply ing_ltb_trans.
    + intros a b Hne. apply ing_ltb_total. exact Hne.
Qed.

(* a claim goes to the first route, in (creation, namespace/name) order, that makes it *)
Lemma claim_fold cs : forall taken k,
  assoc k (fold_left claim_step cs taken)
  = match assoc k taken with Some v => Some v | None => assoc k cs end.
Proof.
  induction cs as [|[k1 v1] r IH]; intros taken k; cbn [fold_left assoc].
  - destruct (assoc k taken); reflexivity.
  - rewrite IH. unfold claim_step. cbn [fst].
    destruct (assoc k1 taken) as [v0|] eqn:E1.
    + destruct (assoc k taken) eqn:Ek; [reflexivity|].
      destruct (String.eqb_spec k k1) as [->|_]; [congruence|reflexivity].
    + rewrite assoc_app. cbn [assoc]. destruct (assoc k taken); [reflexivity|].
      destruct (String.eqb k k1); reflexivity.
Qed.

Theorem route_first_claim l k :
  assoc k (route_conversion l) = assoc k (flat_map gr_claims (sort_routes l)).
Proof. unfold route_conversion. rewrite claim_fold. reflexivity. Qed.

(* ---- EndpointSlices ---- *)
Lemma existsb_perm {A} (f : A -> bool) l l' : Permutation l l' -> existsb f l = existsb f l'.
Proof.
  intros Hp. apply eq_true_iff_eq. rewrite !existsb_exists.
  split; intros (x & Hx & Hf); exists x; (split; [|exact Hf]).
  - eapply Permutation_in; [exact Hp|exact Hx].
  - eapply Permutation_in; [apply Permutation_sym; exact Hp|exact Hx].
Qed.

(* the servers of a service are a function of the SET of its slices *)
Theorem endpointslices_perm drain pname l l' t :
  Permutation l l' -> slice_server drain pname l t = slice_server drain pname l' t.
Proof.
  intros Hp. unfold slice_server.
  assert (He : Permutation (slices_entries pname l) (slices_entries pname l'))
    by (unfold slices_entries; apply Permutation_flat_map; exact Hp).
  rewrite (existsb_perm (target_eqb t) (notready_targets (slices_entries pname l)) (notready_targets (slices_entries pname l'))),
          (existsb_perm (target_eqb t) (ready_targets (slices_entries pname l)) (ready_targets (slices_entries pname l'))).
  - reflexivity.
  - unfold ready_targets. apply Permutation_map. apply filter_perm. exact He.
  - unfold notready_targets. apply Permutation_map. apply filter_perm. exact He.
Qed.

(* ... which a first-occurrence-wins de-duplication would break *)
Theorem endpointslices_dedup_first_refuted :
  exists drain pname l l' t, Permutation l l' /\
    slice_server_dedup_first drain pname l t <> slice_server_dedup_first drain pname l' t.
Proof.
  exists false, "http",
    [ {| sl_ports := [("http", 8080%Z)]; sl_eps := [("172.17.0.11", Some true); ("172.17.0.12", Some false)] |};
      {| sl_ports := [("http", 8080%Z)]; sl_eps := [("172.17.0.12", Some true); ("172.17.0.13", Some true)] |} ],
    [ {| sl_ports := [("http", 8080%Z)]; sl_eps := [("172.17.0.12", Some true); ("172.17.0.13", Some true)] |};
      {| sl_ports := [("http", 8080%Z)]; sl_eps := [("172.17.0.11", Some true); ("172.17.0.12", Some false)] |} ],
    ("172.17.0.12", 8080%Z).
  split; [apply perm_swap|]. vm_compute. discriminate.
Qed.

(* ---- annotation names are compared exactly ---- *)
(* within one pass, two annotation names that yield the same configuration key are the same
   name: the code identifies no two distinct names (no letter case folding, no "_" for "-",
   no trimming); keys are opaque strings *)
Theorem read_config_keys_names_exact prefix n1 n2 k :
  trim_prefix prefix n1 = Some k -> trim_prefix prefix n2 = Some k -> n1 = n2.
Proof.
  intros H1 H2. rewrite (trim_prefix_spec _ _ _ H1), (trim_prefix_spec _ _ _ H2). reflexivity.
Qed.

Lemma str_append_assoc (a b c : string) : ((a ++ b) ++ c)%string = (a ++ (b ++ c))%string.
Proof. induction a as [|x a IH]; cbn; [reflexivity|]. rewrite IH. reflexivity. Qed.

(* hence a map with distinct names offers every key of a pass at most once: the value read
   does not depend on the visiting order (this is offer_perm) and a name that is not exactly
   prefix ++ "/" ++ key never contributes to key *)
Theorem read_config_keys_other_names (passes : list (string * annots)) k :
  (forall p e, In p passes -> In e (snd p) -> fst e <> (fst p ++ "/" ++ k)%string) ->
  assoc k (read_config_keys passes) = None.
Proof.
  intros H. rewrite read_config_keys_first_prefix. unfold offers.
  induction passes as [|p r IH]; [reflexivity|]. cbn [first_some].
  assert (Ho : offer (fst p ++ "/")%string (snd p) k = None).
  { unfold offer. destruct (find _ (snd p)) as [e|] eqn:E; [|reflexivity]. exfalso.
    apply find_some in E as [Hin Hf]. unfold offers_key in Hf.
    destruct (trim_prefix (fst p ++ "/")%string (fst e)) as [k'|] eqn:Et; [|discriminate].
    apply String.eqb_eq in Hf. subst k'. apply (H p e); [left; reflexivity|exact Hin|].
    rewrite (trim_prefix_spec _ _ _ Et). apply str_append_assoc. }
  cbv beta. rewrite Ho. apply IH. intros p' e Hp. apply H. right. exact Hp.
Qed.
