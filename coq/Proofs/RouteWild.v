(* Proofs for Model/RouteWild.v: wildcard hosts and strict-host. *)
From Coq Require Import List Bool String ZArith NArith Ascii Lia.
From HI Require Import Model.Maps Proofs.HAMatch Proofs.Maps Model.Route Model.RouteMaps Proofs.Route Proofs.RouteMaps Model.RouteWild.
Import ListNotations.
Open Scope list_scope.

(* ------------------------------------------------------------------ helpers *)

Lemma best_map {A B} (proj : B -> decl) (g : A -> B) (l : list A) :
  Route.best proj (map g l) = option_map g (Route.best (fun x => proj (g x)) l).
Proof.
  unfold Route.best.
  assert (G : forall acc, fold_left (best_step proj) (map g l) (option_map g acc)
                          = option_map g (fold_left (best_step (fun x => proj (g x))) l acc)).
  { induction l as [|x l IH]; intros acc; cbn; [reflexivity|].
    rewrite <- IH. f_equal. destruct acc as [a|]; cbn; [|reflexivity].
    destruct (better (proj (g x)) (proj (g a))); reflexivity. }
  apply (G None).
Qed.

Lemma filter_map_lift (P : decl -> bool) (l : list (decl * bkey)) :
  filter (fun x : wpath => P (fst x)) (map lift l) = map lift (filter (fun x => P (fst x)) l).
Proof.
  induction l as [|x l IH]; cbn; [reflexivity|].
  destruct (P (fst x)); cbn; rewrite IH; reflexivity.
Qed.

Lemma filter_ext_in' {A} (f g : A -> bool) (l : list A) :
  (forall x, In x l -> f x = g x) -> filter f l = filter g l.
Proof.
  induction l as [|a l IH]; intros H; cbn; [reflexivity|].
  rewrite (H a (or_introl eq_refl)). rewrite IH; [reflexivity|]. intros x Hx. apply H. right. exact Hx.
Qed.

Lemma number_lift_some (l : list (decl * bkey)) n nx :
  In nx (number n (map lift l)) -> exists k, snd (snd nx) = Some k /\ In (fst (snd nx), k) l.
Proof.
  revert n. induction l as [|x l IH]; intros n; cbn; [contradiction|].
  intros [<-|H].
  - exists (snd x). cbn. split; [reflexivity|]. left. destruct x; reflexivity.
  - destruct (IH _ H) as [k [E Hin]]. exists k. split; [exact E|right; exact Hin].
Qed.

Lemma first_by_in {A} (before : A -> A -> bool) (l : list A) (x : A) :
  first_by before l = Some x -> In x l.
Proof.
  unfold first_by.
  assert (G : forall acc, fold_left (fun acc x => match acc with None => Some x | Some a => if before x a then Some x else Some a end) l acc = Some x ->
              In x l \/ acc = Some x).
  { induction l as [|y l IH]; intros acc H; cbn in *; [right; exact H|].
    destruct (IH _ H) as [Hin|Hacc]; [left; right; exact Hin|].
    destruct acc as [a|].
    - destruct (before y a); [injection Hacc as <-; left; left; reflexivity|right; exact Hacc].
    - injection Hacc as <-. left. left. reflexivity. }
  intros H. destruct (G None H) as [Hin|Hn]; [exact Hin|discriminate].
Qed.

Lemma first_by_none {A} (before : A -> A -> bool) (l : list A) : first_by before l = None -> l = [].
Proof.
  unfold first_by. destruct l as [|x l]; [reflexivity|]. cbn.
  assert (G : forall l a, fold_left (fun acc x => match acc with None => Some x | Some a => if before x a then Some x else Some a end) l (Some a) <> None).
  { induction l0 as [|y l0 IH]; intros a; cbn; [discriminate|]. destruct (before y a); apply IH. }
  intros H. exfalso. exact (G _ _ H).
Qed.

(* ------------------------------------------------------------------ route_w follows spec_target_w (strict-host off) *)

Lemma paths_w_off c st : paths_w false c st = map lift (st_paths st).
Proof. unfold paths_w. apply app_nil_r. Qed.

Lemma sel_lift (f : decl -> bool) (p : string) (l : list (decl * bkey)) :
  Route.best fst (filter (fun x : wpath => f (fst x) && Route.path_matches (d_type (fst x)) (d_path (fst x)) p) (map lift l))
  = option_map lift (Route.best fst (filter (fun x => f (fst x) && Route.path_matches (d_type (fst x)) (d_path (fst x)) p) l)).
Proof.
  rewrite (filter_map_lift (fun d => f d && Route.path_matches (d_type d) (d_path d) p)).
  rewrite best_map. reflexivity.
Qed.

Definition served_by_w (c : cluster) (o : outcome) (svc : service) (sp : sport) : Prop :=
  find_service c (s_ns svc) (s_name svc) = Some svc /\ In sp (s_ports svc) /\
  exists srv, lookup_back (key_of svc sp) (st_backs (sync_full c)) = Some srv /\ o = Serve srv.

Lemma path_entry_served c o d k :
  In (d, k) (st_paths (sync_full c)) -> o = serve_back (sync_full c) k ->
  exists svc sp, resolve c d = Some (svc, sp) /\ served_by_w c o svc sp.
Proof.
  intros Hin Ho. destruct (sync_full_ok c) as [_ [Hp _]].
  destruct (Hp _ _ Hin) as [svc [sp [R [K [srv L]]]]]. subst k.
  exists svc, sp. split; [exact R|].
  destruct (resolve_some _ _ _ _ R) as [Fs Hsp].
  destruct (find_service_some _ _ _ _ Fs) as [_ [Hns Hname]].
  split; [rewrite Hns, Hname; exact Fs|]. split; [exact Hsp|]. exists srv. split; [exact L|].
  rewrite Ho. unfold serve_back. rewrite L. reflexivity.
Qed.

Theorem route_w_target : forall c r, wild_conform c r = true ->
  match spec_target_w c r with
  | TDecl d => exists svc sp, resolve c d = Some (svc, sp) /\ served_by_w c (route_w false c r) svc sp
  | TDefaultBackend => exists svc sp, default_backend_port c = Some (svc, sp) /\ served_by_w c (route_w false c r) svc sp
  | TNotFound => route_w false c r = NotFound
  end.
Proof.
  intros c r Hconf. unfold spec_target_w.
  rewrite <- (candidates_eq c (exact_visible (tls_hosts c) r) (rq_path r)).
  rewrite <- (candidates_eq c (wild_visible (tls_hosts c) r) (rq_path r)).
  rewrite <- (candidates_eq c default_visible (rq_path r)).
  rewrite <- !best_proj.
  unfold route_w. rewrite paths_w_off, sync_full_tls, !sel_lift.
  unfold wild_conform, wild_code_choice, wild_spec_choice in Hconf.
  set (st := sync_full c) in *.
  remember (Route.best fst (filter (fun x => exact_visible (tls_hosts c) r (fst x) && Route.path_matches (d_type (fst x)) (d_path (fst x)) (rq_path r)) (st_paths st))) as b1 eqn:B1.
  remember (Route.best fst (filter (fun x => wild_visible (tls_hosts c) r (fst x) && Route.path_matches (d_type (fst x)) (d_path (fst x)) (rq_path r)) (st_paths st))) as b2 eqn:B2.
  remember (Route.best fst (filter (fun x => default_visible (fst x) && Route.path_matches (d_type (fst x)) (d_path (fst x)) (rq_path r)) (st_paths st))) as b3 eqn:B3.
  remember (first_by key_before (filter (fun nx => wild_visible (tls_hosts c) r (fst (snd nx)) && path_matches_re (fst (snd nx)) (rq_path r)) (number 0 (map lift (st_paths st))))) as fb eqn:FB.
  symmetry in B1, B2, B3, FB.
  destruct b1 as [[d k]|]; cbn [option_map lift fst snd serve_w].
  - apply (path_entry_served c _ d k); [|reflexivity].
    apply best_in in B1. apply filter_In in B1. apply B1.
  - destruct b2 as [[d k]|]; cbn [option_map lift fst snd] in *.
    + destruct fb as [nx|]; cbn in Hconf; [|discriminate].
      destruct (snd (snd nx)) as [k'|] eqn:K; cbn in Hconf; [|discriminate].
      apply bkey_eqb_eq in Hconf. subst k'. cbn [serve_w].
      apply (path_entry_served c _ d k); [|reflexivity].
      apply best_in in B2. apply filter_In in B2. apply B2.
    + destruct fb as [nx|].
      * exfalso. apply first_by_in in FB. apply filter_In in FB. destruct FB as [Hin _].
        destruct (number_lift_some _ _ _ Hin) as [k [E _]]. rewrite E in Hconf. cbn in Hconf. discriminate.
      * destruct b3 as [[d k]|]; cbn [option_map lift fst snd serve_w].
        -- apply (path_entry_served c _ d k); [|reflexivity].
           apply best_in in B3. apply filter_In in B3. apply B3.
        -- unfold st. rewrite sync_full_default.
           destruct (default_backend_port c) as [[svc sp]|] eqn:DB; cbn [option_map fst snd].
           ++ exists svc, sp. split; [reflexivity|].
              unfold default_backend_port in DB.
              destruct (c_default_backend c) as [[ns name]|] eqn:CD; [|discriminate].
              destruct (find_service c ns name) as [svc'|] eqn:Fs; [|discriminate].
              destruct (s_ports svc') as [|sp' ps] eqn:P; [discriminate|]. injection DB as -> ->.
              destruct (find_service_some _ _ _ _ Fs) as [_ [Hns Hname]].
              destruct (sync_full_ok c) as [_ [_ Hd]].
              destruct (Hd (key_of svc sp)) as [srv L].
              { rewrite sync_full_default. unfold default_backend_port. rewrite CD, Fs, P. reflexivity. }
              split; [rewrite Hns, Hname; exact Fs|]. split; [rewrite P; left; reflexivity|].
              exists srv. split; [exact L|]. unfold serve_back. rewrite L. reflexivity.
           ++ reflexivity.
Qed.

Lemma served_w_designated c o svc sp : ports_consistent c -> served_by_w c o svc sp ->
  exists srv, o = Serve srv /\ forall s, In s srv <-> designated c svc sp s.
Proof.
  intros PC [Fs [Hsp [srv [L Ho]]]]. exists srv. split; [exact Ho|].
  intros s. destruct (sync_full_ok c) as [Hb _].
  rewrite (back_servers c (sync_full c) svc sp srv PC Hb Fs Hsp L).
  apply servers_of_designated.
Qed.

(* C03 with wildcard hosts (strict-host off): when the wildcard tier of the code agrees with the
   documented matching for the request, the request reaches exactly the designated servers *)
Theorem route_w_full_spec_under_H : forall c r,
  ports_consistent c -> wild_conform c r = true -> full_spec_w_for (route_w false c r) c r.
Proof.
  intros c r PC Hc. unfold full_spec_w_for. pose proof (route_w_target c r Hc) as H.
  destruct (spec_target_w c r) as [d| |].
  - destruct H as [svc [sp [R S]]]. exists svc, sp. split; [exact R|]. apply served_w_designated; assumption.
  - destruct H as [svc [sp [R S]]]. exists svc, sp. split; [exact R|]. apply served_w_designated; assumption.
  - exact H.
Qed.

(* ------------------------------------------------------------------ precedence of the host tiers *)

Lemma best_some_of_in {A} (proj : A -> decl) (l : list A) (x : A) : In x l -> exists y, Route.best proj l = Some y.
Proof.
  intros Hin. destruct (Route.best proj l) as [y|] eqn:B; [exists y; reflexivity|].
  apply best_none_nil in B. subst l. contradiction.
Qed.

(* a rule of the exact host that matches wins over every wildcard host; a matching rule of the
   wildcard host wins over the default host *)
Theorem wildcard_host_precedence : forall c r,
  let matches d := Route.path_matches (d_type d) (d_path d) (rq_path r) = true in
  ((exists d, In d (effective_decls c) /\ exact_visible (tls_hosts c) r d = true /\ matches d) ->
     exists d', spec_target_w c r = TDecl d' /\ In d' (effective_decls c) /\
                exact_visible (tls_hosts c) r d' = true /\ matches d') /\
  ((forall d, In d (effective_decls c) -> exact_visible (tls_hosts c) r d = true -> ~ matches d) ->
   (exists d, In d (effective_decls c) /\ wild_visible (tls_hosts c) r d = true /\ matches d) ->
     exists d', spec_target_w c r = TDecl d' /\ In d' (effective_decls c) /\
                wild_visible (tls_hosts c) r d' = true /\ matches d').
Proof.
  intros c r matches. unfold spec_target_w.
  set (cands f := filter (fun d => f d && Route.path_matches (d_type d) (d_path d) (rq_path r)) (effective_decls c)).
  split.
  - intros [d [Hin [Hv Hm]]].
    assert (In d (cands (exact_visible (tls_hosts c) r))) as Hc.
    { apply filter_In. split; [exact Hin|]. rewrite Hv. exact Hm. }
    destruct (best_some_of_in (fun d0 => d0) _ _ Hc) as [y B]. fold (cands (exact_visible (tls_hosts c) r)). rewrite B.
    exists y. split; [reflexivity|]. apply best_in in B. apply filter_In in B. destruct B as [Hy Hf].
    apply andb_true_iff in Hf. destruct Hf. auto.
  - intros Hno [d [Hin [Hv Hm]]].
    assert (Route.best (fun d0 => d0) (cands (exact_visible (tls_hosts c) r)) = None) as B1.
    { destruct (Route.best (fun d0 => d0) (cands (exact_visible (tls_hosts c) r))) as [y|] eqn:B; [|reflexivity].
      exfalso. apply best_in in B. apply filter_In in B. destruct B as [Hy Hf].
      apply andb_true_iff in Hf. destruct Hf as [A M]. exact (Hno y Hy A M). }
    fold (cands (exact_visible (tls_hosts c) r)). rewrite B1.
    assert (In d (cands (wild_visible (tls_hosts c) r))) as Hc.
    { apply filter_In. split; [exact Hin|]. rewrite Hv. exact Hm. }
    destruct (best_some_of_in (fun d0 => d0) _ _ Hc) as [y B]. fold (cands (wild_visible (tls_hosts c) r)). rewrite B.
    exists y. split; [reflexivity|]. apply best_in in B. apply filter_In in B. destruct B as [Hy Hf].
    apply andb_true_iff in Hf. destruct Hf. auto.
Qed.

(* at most one wildcard suffix can match a host: the host without its first label *)
Theorem wildcard_suffix_unique : forall h1 h2 reqhost,
  wild_host_matches h1 reqhost = true -> wild_host_matches h2 reqhost = true ->
  Route.lower (wild_suffix h1) = Route.lower (wild_suffix h2).
Proof.
  unfold wild_host_matches. intros h1 h2 rh H1 H2.
  apply andb_true_iff in H1. destruct H1 as [_ H1]. apply andb_true_iff in H1. destruct H1 as [_ H1].
  apply andb_true_iff in H2. destruct H2 as [_ H2]. apply andb_true_iff in H2. destruct H2 as [_ H2].
  apply String.eqb_eq in H1. apply String.eqb_eq in H2. congruence.
Qed.

(* a wildcard host never takes a request that a rule of the exact host matches: the implementation
   answers it from the exact host's rules, whatever the wildcard hosts declare (no hypothesis) *)
Theorem route_w_exact_first : forall strict c r x,
  let st := sync_full c in
  Route.best fst (filter (fun x => exact_visible (st_tls st) r (fst x) &&
                                    Route.path_matches (d_type (fst x)) (d_path (fst x)) (rq_path r))
                         (paths_w strict c st)) = Some x ->
  route_w strict c r = serve_w st (snd x).
Proof. intros strict c r x st H. unfold route_w. fold st. rewrite H. reflexivity. Qed.

(* ------------------------------------------------------------------ conservative extension *)

Lemma is_wild_false_visible c r d : no_wildcards c -> In d (effective_decls c) ->
  exact_visible (tls_hosts c) r d = host_visible (tls_hosts c) r d /\ wild_visible (tls_hosts c) r d = false.
Proof.
  intros NW Hin. unfold exact_visible, host_visible, wild_visible, wild_host_matches, tls_ok.
  destruct (d_host d) as [h|] eqn:Hh; [|auto].
  rewrite (NW d h Hin Hh). cbn. auto.
Qed.

Theorem route_w_conservative : forall c r, no_wildcards c -> route_w false c r = route_impl c r.
Proof.
  intros c r NW. unfold route_w, route_impl, route. cbv zeta. rewrite paths_w_off, !sel_lift, sync_full_tls.
  assert (Hin : forall x, In x (st_paths (sync_full c)) -> In (fst x) (effective_decls c)).
  { intros x Hx. rewrite <- sync_full_paths. apply in_map. exact Hx. }
  rewrite (filter_ext_in' (fun x => exact_visible (tls_hosts c) r (fst x) && Route.path_matches (d_type (fst x)) (d_path (fst x)) (rq_path r))
                          (fun x => host_visible (tls_hosts c) r (fst x) && Route.path_matches (d_type (fst x)) (d_path (fst x)) (rq_path r))).
  2:{ intros x Hx. destruct (is_wild_false_visible c r (fst x) NW (Hin x Hx)) as [-> _]. reflexivity. }
  assert (E : filter (fun nx : N * wpath => wild_visible (tls_hosts c) r (fst (snd nx)) && path_matches_re (fst (snd nx)) (rq_path r))
                     (number 0 (map lift (st_paths (sync_full c)))) = []).
  { destruct (filter _ _) as [|nx l] eqn:F; [reflexivity|]. exfalso.
    assert (In nx (nx :: l)) as Hn by (left; reflexivity). rewrite <- F in Hn.
    apply filter_In in Hn. destruct Hn as [Hn Hf].
    destruct (number_lift_some _ _ _ Hn) as [k [_ Hk]].
    destruct (is_wild_false_visible c r (fst (snd nx)) NW (Hin _ Hk)) as [_ W].
    cbn in Hf. rewrite W in Hf. discriminate. }
  unfold wpath in *. rewrite E. cbn [first_by fold_left].
  destruct (Route.best fst _) as [[d k]|]; [reflexivity|].
  destruct (Route.best fst _) as [[d k]|]; reflexivity.
Qed.

(* ------------------------------------------------------------------ strict-host *)

Lemma dedup_hosts_in l seen h : In h l -> existsb (ohost_eqb h) seen = false -> In h (dedup_hosts seen l).
Proof.
  revert seen. induction l as [|a l IH]; intros seen Hin Hs; cbn; [contradiction|].
  cbn in Hin. destruct (existsb (ohost_eqb a) seen) eqn:E.
  - destruct Hin as [Heq|Hin]; [subst a; congruence|]. apply IH; assumption.
  - destruct Hin as [Heq|Hin]; [subst a; left; reflexivity|].
    destruct (ohost_eqb h a) eqn:Eh.
    + apply ohost_eqb_eq in Eh. subst. left. reflexivity.
    + right. apply IH; [exact Hin|]. cbn. rewrite Eh. exact Hs.
Qed.

Lemma begin_root_matches p : String.prefix "/"%string p = true ->
  Route.path_matches Route.Begin "/"%string p = true.
Proof.
  destruct p as [|a p]; [discriminate|].
  cbn [String.prefix]. destruct (ascii_dec "/"%char a) as [E|N]; [|intros H; discriminate H]. subst a. intros _.
  cbn. destruct (Route.lower p); reflexivity.
Qed.

(* with strict-host a request of an existing exact host is always answered inside that host: by one
   of its rules or by the ("/", begin) path strict-host added (bound to strict_root), never by a
   wildcard host nor by the default host's other paths *)
Theorem strict_host_answers_inside : forall c r h,
  let st := sync_full c in
  In (Some h) (acquired_hosts c st) ->
  exact_visible (st_tls st) r (strict_decl (Some h)) = true ->
  String.prefix "/"%string (rq_path r) = true ->
  exists x, In x (paths_w true c st) /\ exact_visible (st_tls st) r (fst x) = true /\
            route_w true c r = serve_w st (snd x).
Proof.
  intros c r h st Hacq Hvis Hp.
  assert (Hroot : exists x, In x (paths_w true c st) /\ d_host (fst x) = Some h /\ d_path (fst x) = "/"%string /\
                            d_type (fst x) = Route.Begin).
  { unfold paths_w. destruct (has_root_begin st (Some h)) eqn:HR.
    - unfold has_root_begin in HR. apply existsb_exists in HR. destruct HR as [y [Hy E]].
      apply andb_true_iff in E. destruct E as [E E3]. apply andb_true_iff in E. destruct E as [E1 E2].
      apply ohost_eqb_eq in E1. apply String.eqb_eq in E2.
      exists (lift y). split; [apply in_app_iff; left; apply in_map; exact Hy|]. cbn.
      split; [exact E1|]. split; [exact E2|]. destruct (d_type (fst y)); try discriminate. reflexivity.
    - exists (strict_decl (Some h), strict_root st). split.
      + apply in_app_iff. right. unfold strict_entries.
        apply (in_map (fun h0 => (strict_decl h0, strict_root st))). apply filter_In. split.
        * apply dedup_hosts_in; [exact Hacq|reflexivity].
        * rewrite HR. reflexivity.
      + cbn. auto. }
  destruct Hroot as [x0 [Hin0 [Hh0 [Hp0 Ht0]]]].
  set (sel := filter (fun x : wpath => exact_visible (st_tls st) r (fst x) &&
                        Route.path_matches (d_type (fst x)) (d_path (fst x)) (rq_path r)) (paths_w true c st)).
  assert (Hsel0 : In x0 sel).
  { apply filter_In. split; [exact Hin0|].
    assert (exact_visible (st_tls st) r (fst x0) = true) as ->.
    { unfold exact_visible in *. rewrite Hh0. cbn in Hvis. exact Hvis. }
    rewrite Hp0, Ht0. apply begin_root_matches. exact Hp. }
  destruct (best_some_of_in fst sel x0 Hsel0) as [x B].
  exists x. pose proof (best_in _ _ _ B) as Hx. apply filter_In in Hx. destruct Hx as [Hx Hf].
  split; [exact Hx|]. split.
  - apply andb_true_iff in Hf. apply Hf.
  - apply (route_w_exact_first true c r x). exact B.
Qed.
