(* Generic theory of incremental re-synchronisation, the proof skeleton of C01.

   A configuration state maps targets (hosts, backends, ...) to content. Each source
   (an Ingress) is a state transformer `run w i` in world w that only reads and writes
   its footprint `fp w i`. A full sync folds the sources of the world, in their sorted
   order, over the empty state. A partial sync removes a set X of dirty targets from
   the old state and re-runs only the dirty sources.

   Theorem `partial_step` : under the conditions that the tracker-based dirty
   computation is meant to establish (named H_* below), the partial sync yields the
   state a full sync of the new world yields.  `partial_history` lifts it to every finite
   history.  `Section FromTracker` derives the H_* conditions from a closed set of the
   tracking relation (what QueryLinks returns, Proofs/Tracker.v). *)
From Coq Require Import List Bool Relations.
Import ListNotations.

Section IncSync.
  Variables (world src tgt content : Type).

  Definition state := tgt -> option content.
  Definition seq (s1 s2 : state) : Prop := forall t, s1 t = s2 t.
  Definition empty : state := fun _ => None.

  Variable run : world -> src -> state -> state.
  Variable fp : world -> src -> tgt -> bool.

  (* a run leaves everything outside its footprint untouched ... *)
  Hypothesis run_frame : forall w i s t, fp w i t = false -> run w i s t = s t.
  (* ... and what it writes depends on the footprint only *)
  Hypothesis run_local : forall w i s1 s2,
    (forall t, fp w i t = true -> s1 t = s2 t) ->
    forall t, fp w i t = true -> run w i s1 t = run w i s2 t.

  Lemma seq_refl s : seq s s. Proof. intros t; reflexivity. Qed.
  Lemma seq_sym s1 s2 : seq s1 s2 -> seq s2 s1. Proof. intros H t; symmetry; apply H. Qed.
  Lemma seq_trans s1 s2 s3 : seq s1 s2 -> seq s2 s3 -> seq s1 s3.
  Proof. intros H1 H2 t; rewrite H1; apply H2. Qed.

  Lemma run_proper w i s1 s2 : seq s1 s2 -> seq (run w i s1) (run w i s2).
  Proof.
    intros H t. destruct (fp w i t) eqn:E.
    - apply run_local; [intros; apply H|exact E].
    - rewrite !run_frame by exact E. apply H.
  Qed.

  Definition disjoint (w : world) (i j : src) : Prop :=
    forall t, fp w i t = true -> fp w j t = false.

  Lemma run_comm w i j s : disjoint w i j -> seq (run w i (run w j s)) (run w j (run w i s)).
  Proof.
    intros Hd t. destruct (fp w i t) eqn:Ei.
    - pose proof (Hd t Ei) as Ej.
      rewrite (run_frame w j (run w i s) t Ej).
      apply run_local; [|exact Ei]. intros u Hu. apply run_frame. apply Hd. exact Hu.
    - rewrite (run_frame w i (run w j s) t Ei).
      destruct (fp w j t) eqn:Ej.
      + apply run_local; [|exact Ej]. intros u Hu. symmetry. apply run_frame.
        destruct (fp w i u) eqn:Eu; [|reflexivity]. rewrite (Hd u Eu) in Hu. discriminate.
      + rewrite !run_frame by assumption. reflexivity.
  Qed.

  Definition runs (w : world) (l : list src) (s : state) : state :=
    fold_left (fun s i => run w i s) l s.

  Lemma runs_proper w l : forall s1 s2, seq s1 s2 -> seq (runs w l s1) (runs w l s2).
  Proof.
    induction l as [|i l IH]; intros s1 s2 H; cbn; [exact H|].
    apply IH. apply run_proper. exact H.
  Qed.

  Lemma runs_app w l1 l2 s : runs w (l1 ++ l2) s = runs w l2 (runs w l1 s).
  Proof. unfold runs. apply fold_left_app. Qed.

  (* a run commutes past a list of runs it is disjoint from *)
  Lemma run_past w x K : forall s,
    (forall k, In k K -> disjoint w x k) ->
    seq (runs w K (run w x s)) (run w x (runs w K s)).
  Proof.
    induction K as [|k K IH]; intros s Hd; cbn; [apply seq_refl|].
    eapply seq_trans; [|apply IH; intros; apply Hd; right; assumption].
    apply runs_proper. apply seq_sym. apply run_comm. apply Hd. left. reflexivity.
  Qed.

  (* the sources selected by d can be run after all the others *)
  Lemma runs_split w (d : src -> bool) l : forall s,
    (forall i j, In i l -> In j l -> d i = true -> d j = false -> disjoint w i j) ->
    seq (runs w l s) (runs w (filter d l) (runs w (filter (fun i => negb (d i)) l) s)).
  Proof.
    induction l as [|x l IH]; intros s Hd; cbn [filter]; [apply seq_refl|].
    assert (Hd' : forall i j, In i l -> In j l -> d i = true -> d j = false -> disjoint w i j)
      by (intros; apply Hd; try right; assumption).
    destruct (d x) eqn:Ex; cbn [negb runs fold_left].
    - eapply seq_trans; [apply (IH (run w x s) Hd')|].
      apply runs_proper. apply run_past.
      intros k Hk. apply filter_In in Hk as [Hk Hn]. apply Hd; [left; reflexivity|right; exact Hk|exact Ex|].
      destruct (d k); [discriminate|reflexivity].
    - apply (IH (run w x s) Hd').
  Qed.

  (* sources not touching t leave it alone *)
  Lemma runs_frame w l t : forall s,
    (forall i, In i l -> fp w i t = false) -> runs w l s t = s t.
  Proof.
    induction l as [|i l IH]; intros s H; [reflexivity|].
    change (runs w l (run w i s) t = s t).
    rewrite IH by (intros; apply H; right; assumption).
    apply run_frame. apply H. left. reflexivity.
  Qed.

  (* the same list run in two worlds in which its members behave alike *)
  Lemma runs_same w w' l : forall s1 s2,
    (forall i, In i l -> forall s, seq (run w i s) (run w' i s)) ->
    seq s1 s2 -> seq (runs w l s1) (runs w' l s2).
  Proof.
    induction l as [|i l IH]; intros s1 s2 H Hs; cbn; [exact Hs|].
    apply IH; [intros; apply H; right; assumption|].
    eapply seq_trans; [apply H; left; reflexivity|].
    (* run w' i respects seq, by frame/local of w' *)
    intros t. destruct (fp w' i t) eqn:E.
    - apply run_local; [intros; apply Hs|exact E].
    - rewrite !run_frame by exact E. apply Hs.
  Qed.

  Lemma clean_same_strong w w' l :
    (forall k, In k l -> forall s, seq (run w k s) (run w' k s)) ->
    seq (runs w l empty) (runs w' l empty).
  Proof. intros H. apply runs_same; [exact H|apply seq_refl]. Qed.

  Definition full (w : world) (ord : list src) : state := runs w ord empty.

  Definition remove (X : tgt -> bool) (s : state) : state :=
    fun t => if X t then None else s t.

  Definition partial (w' : world) (dirty_sorted : list src) (X : tgt -> bool) (s : state) : state :=
    runs w' dirty_sorted (remove X s).

  Lemma remove_proper X s1 s2 : seq s1 s2 -> seq (remove X s1) (remove X s2).
  Proof. intros H t. unfold remove. destruct (X t); [reflexivity|apply H]. Qed.

  (* ---------------- one partial step ---------------- *)
  Section Step.
    Variables (w w' : world) (ord ord' : list src).
    Variable dirty : src -> bool.
    Variable X : tgt -> bool.

    Let clean := fun i => negb (dirty i).

    (* the sources that are not dirty are the same, in the same order, in both worlds *)
    Hypothesis H_K : filter clean ord = filter clean ord'.
    (* and running them, alone and in order, gives the same state in both worlds
       (lemma clean_same_strong below derives this when every clean source behaves alike
       on every state) *)
    Hypothesis H_same : seq (runs w (filter clean ord) empty) (runs w' (filter clean ord) empty).
    (* a source that is not dirty never touched a dirty target *)
    Hypothesis H_clean_X : forall k, In k ord -> dirty k = false ->
      forall t, fp w k t = true -> X t = false.
    (* everything a dirty source had touched is dirty *)
    Hypothesis H_dirty_X : forall d, In d ord -> dirty d = true ->
      forall t, fp w d t = true -> X t = true.
    (* cover: what a dirty source touches in the new world is touched by no clean source *)
    Hypothesis H_cover : forall d k, In d ord' -> In k ord' -> dirty d = true -> dirty k = false ->
      forall t, fp w' d t = true -> fp w' k t = false.

    Theorem partial_step s :
      seq s (full w ord) ->
      seq (partial w' (filter dirty ord') X s) (full w' ord').
    Proof.
      intros Hs. unfold partial, full.
      set (K := filter clean ord).
      (* 1. the old state is: clean part, then old dirty part *)
      assert (H1 : seq (runs w ord empty) (runs w (filter dirty ord) (runs w K empty))).
      { apply runs_split. intros i j Hi Hj Di Dj t Ht.
        destruct (fp w j t) eqn:E; [|reflexivity].
        pose proof (H_dirty_X i Hi Di t Ht) as A. pose proof (H_clean_X j Hj Dj t E) as B.
        rewrite A in B. discriminate. }
      (* 2. removing X leaves exactly the clean part *)
      assert (H2 : seq (remove X s) (runs w K empty)).
      { eapply seq_trans; [apply remove_proper; eapply seq_trans; [exact Hs|exact H1]|].
        intros t. unfold remove. destruct (X t) eqn:EX.
        - symmetry. rewrite runs_frame; [reflexivity|].
          intros k Hk. apply filter_In in Hk as [Hk Hc]. unfold clean in Hc.
          destruct (fp w k t) eqn:E; [|reflexivity].
          assert (Dk : dirty k = false) by (destruct (dirty k); [discriminate|reflexivity]).
          pose proof (H_clean_X k Hk Dk t E) as B. rewrite B in EX. discriminate.
        - apply runs_frame. intros d Hd. apply filter_In in Hd as [Hd Dd].
          destruct (fp w d t) eqn:E; [|reflexivity].
          pose proof (H_dirty_X d Hd Dd t E) as A. rewrite A in EX. discriminate. }
      (* 3. the clean part is the same in the new world *)
      assert (H3 : seq (runs w K empty) (runs w' K empty)) by exact H_same.
      (* 4. the new full state is: clean part, then new dirty part *)
      assert (H4 : seq (runs w' ord' empty) (runs w' (filter dirty ord') (runs w' (filter clean ord') empty))).
      { apply runs_split. intros i j Hi Hj Di Dj t Ht. apply (H_cover i j Hi Hj Di Dj t Ht). }
      eapply seq_trans; [apply runs_proper; eapply seq_trans; [exact H2|exact H3]|].
      apply seq_sym. unfold K. rewrite H_K. exact H4.
    Qed.
  End Step.

  (* ---------------- the conditions, from the tracker ---------------- *)
  (* C is the set QueryLinks returned for the batch (closed under the links of the
     tracker, Proofs/Tracker.v); dirty and X are read off it. The footprint of every
     source of the old world is tracked; the footprint a dirty source has in the new
     world is either tracked already (old link or trackAddedIngress) or touched by no
     clean source. *)
  Section FromTracker.
    Variables (w w' : world) (ord ord' : list src).
    Variable node : Type.
    Variable edge : node -> node -> Prop.
    Variables (nS : src -> node) (nT : tgt -> node).
    Variable C : node -> Prop.
    Variable dirty : src -> bool.
    Variable X : tgt -> bool.

    Hypothesis edge_sym : forall a b, edge a b -> edge b a.
    Hypothesis C_closed : forall a b, C a -> edge a b -> C b.
    Hypothesis X_spec : forall t, X t = true <-> C (nT t).
    Hypothesis dirty_old : forall i, In i ord -> dirty i = true ->
      C (nS i) \/ (forall t, fp w i t = false).
    Hypothesis clean_old : forall i, In i ord -> dirty i = false -> ~ C (nS i).
    Hypothesis tracked : forall i t, In i ord -> fp w i t = true -> edge (nS i) (nT t).
    Hypothesis clean_kept : forall k, In k ord' -> dirty k = false ->
      In k ord /\ (forall t, fp w' k t = fp w k t).
    Hypothesis pre_cover : forall d t, In d ord' -> dirty d = true -> fp w' d t = true ->
      (C (nS d) /\ edge (nS d) (nT t)) \/
      (forall k, In k ord' -> dirty k = false -> fp w' k t = false).

    Lemma tracker_dirty_X : forall d, In d ord -> dirty d = true ->
      forall t, fp w d t = true -> X t = true.
    Proof.
      intros d Hd Dd t Ht. apply X_spec.
      destruct (dirty_old d Hd Dd) as [Hc|Hn]; [|rewrite Hn in Ht; discriminate].
      eapply C_closed; [exact Hc|apply tracked; assumption].
    Qed.

    Lemma tracker_clean_X : forall k, In k ord -> dirty k = false ->
      forall t, fp w k t = true -> X t = false.
    Proof.
      intros k Hk Dk t Ht. destruct (X t) eqn:E; [|reflexivity]. exfalso.
      apply (clean_old k Hk Dk). apply X_spec in E.
      eapply C_closed; [exact E|apply edge_sym; apply tracked; assumption].
    Qed.

    Lemma tracker_cover : forall d k, In d ord' -> In k ord' -> dirty d = true -> dirty k = false ->
      forall t, fp w' d t = true -> fp w' k t = false.
    Proof.
      intros d k Hd Hk Dd Dk t Ht.
      destruct (pre_cover d t Hd Dd Ht) as [[Hc He]|Hn]; [|apply Hn; assumption].
      destruct (fp w' k t) eqn:E; [|reflexivity]. exfalso.
      destruct (clean_kept k Hk Dk) as [Hko Hfp]. rewrite Hfp in E.
      apply (clean_old k Hko Dk).
      eapply C_closed; [eapply C_closed; [exact Hc|exact He]|].
      apply edge_sym. apply tracked; assumption.
    Qed.
    Theorem tracker_conditions :
      (forall d, In d ord -> dirty d = true -> forall t, fp w d t = true -> X t = true) /\
      (forall k, In k ord -> dirty k = false -> forall t, fp w k t = true -> X t = false) /\
      (forall d k, In d ord' -> In k ord' -> dirty d = true -> dirty k = false ->
         forall t, fp w' d t = true -> fp w' k t = false).
    Proof. exact (conj tracker_dirty_X (conj tracker_clean_X tracker_cover)). Qed.
  End FromTracker.

  (* ---------------- histories ---------------- *)

  (* one reconciliation: the new world with its sorted sources, and either a full sync or
     a partial sync with its dirty set *)
  Inductive step :=
  | Full (w' : world) (ord' : list src)
  | Partial (w' : world) (ord' : list src) (dirty : src -> bool) (X : tgt -> bool).

  Definition step_world (st : step) : world * list src :=
    match st with Full w' o => (w', o) | Partial w' o _ _ => (w', o) end.

  Definition apply_step (s : state) (st : step) : state :=
    match st with
    | Full w' ord' => full w' ord'
    | Partial w' ord' dirty X => partial w' (filter dirty ord') X s
    end.

  (* the side conditions of partial_step, as one predicate on (old world, step) *)
  Definition step_ok (w : world) (ord : list src) (st : step) : Prop :=
    match st with
    | Full _ _ => True
    | Partial w' ord' dirty X =>
        filter (fun i => negb (dirty i)) ord = filter (fun i => negb (dirty i)) ord' /\
        seq (runs w (filter (fun i => negb (dirty i)) ord) empty)
            (runs w' (filter (fun i => negb (dirty i)) ord) empty) /\
        (forall k, In k ord -> dirty k = false -> forall t, fp w k t = true -> X t = false) /\
        (forall d, In d ord -> dirty d = true -> forall t, fp w d t = true -> X t = true) /\
        (forall d k, In d ord' -> In k ord' -> dirty d = true -> dirty k = false ->
           forall t, fp w' d t = true -> fp w' k t = false)
    end.

  Fixpoint history_ok (w : world) (ord : list src) (h : list step) : Prop :=
    match h with
    | [] => True
    | st :: h' => step_ok w ord st /\ history_ok (fst (step_world st)) (snd (step_world st)) h'
    end.

  Fixpoint last_world (w : world) (ord : list src) (h : list step) : world * list src :=
    match h with
    | [] => (w, ord)
    | st :: h' => last_world (fst (step_world st)) (snd (step_world st)) h'
    end.

  Theorem partial_history : forall h w ord s,
    seq s (full w ord) -> history_ok w ord h ->
    seq (fold_left apply_step h s)
        (full (fst (last_world w ord h)) (snd (last_world w ord h))).
  Proof.
    induction h as [|st h IH]; intros w ord s Hs Hok; cbn [fold_left last_world]; [exact Hs|].
    destruct Hok as [Hst Hrest]. apply IH; [|exact Hrest].
    destruct st as [w' ord'|w' ord' dirty X]; cbn [apply_step step_world fst snd].
    - apply seq_refl.
    - destruct Hst as (HK & Hsame & HcX & HdX & Hcov).
      eapply partial_step; eassumption.
  Qed.
End IncSync.
