(* Composition of C03 (Proofs/Route.v) with C04 (Proofs/Maps.v): routing through the
   generated map files agrees with the specification-level choice of Model/Route.v. *)
From Coq Require Import List Bool String ZArith NArith Ascii Lia.
From HI Require Import Model.Maps Proofs.HAMatch Proofs.Maps Model.Route Model.RouteMaps Proofs.Route.
Import ListNotations.
Open Scope list_scope.

(* ------------------------------------------------------------------ strings: string vs list ascii *)

Lemma s2l_app a b : s2l (a ++ b)%string = s2l a ++ s2l b.
Proof. induction a as [|x a IH]; cbn; [reflexivity|]. unfold s2l in *. cbn. rewrite IH. reflexivity. Qed.

Lemma s2l_inj a b : s2l a = s2l b -> a = b.
Proof.
  intros H. rewrite <- (string_of_list_ascii_of_string a), <- (string_of_list_ascii_of_string b).
  unfold s2l in H. rewrite H. reflexivity.
Qed.

Lemma s2l_length a : List.length (s2l a) = String.length a.
Proof. induction a as [|x a IH]; cbn; [reflexivity|]. unfold s2l in *. cbn. rewrite IH. reflexivity. Qed.

Lemma eqb_s2l a b : (a =? b)%string = true <-> s2l a = s2l b.
Proof. rewrite String.eqb_eq. split; [intros ->; reflexivity|apply s2l_inj]. Qed.

Lemma lower_ascii_same a : Route.lower_ascii a = Maps_Strs.lower_ascii a.
Proof. destruct a as [[] [] [] [] [] [] [] []]; vm_compute; reflexivity. Qed.

Lemma s2l_lower s : s2l (Route.lower s) = Maps_Strs.lower (s2l s).
Proof.
  induction s as [|a s IH]; [reflexivity|].
  unfold s2l in *. cbn. rewrite IH, lower_ascii_same. reflexivity.
Qed.

Lemma prefix_s2l a b : String.prefix a b = true <-> Maps_Strs.is_prefix (s2l a) (s2l b) = true.
Proof.
  revert b. induction a as [|x a IH]; intros b.
  - destruct b; cbn; split; reflexivity.
  - destruct b as [|y b]; cbn.
    + split; discriminate.
    + unfold s2l in *. cbn. destruct (ascii_dec x y) as [->|N].
      * rewrite Ascii.eqb_refl. cbn. apply IH.
      * assert (Ascii.eqb x y = false) as -> by (apply Ascii.eqb_neq; exact N). cbn. split; discriminate.
Qed.

Lemma drop_slashes_app x y :
  drop_slashes (x ++ y) = match drop_slashes x with [] => drop_slashes y | r => r ++ y end.
Proof.
  induction x as [|a x IH]; cbn; [reflexivity|].
  destruct (Ascii.eqb a c_slash); [exact IH|reflexivity].
Qed.

Lemma strip_slash_cons a p :
  strip_slash (a :: p) = match strip_slash p with
                         | [] => if Ascii.eqb a c_slash then [] else [a]
                         | r => a :: r
                         end.
Proof.
  unfold strip_slash. cbn [rev]. rewrite drop_slashes_app.
  destruct (drop_slashes (rev p)) as [|z r] eqn:E; cbn [rev].
  - cbn. destruct (Ascii.eqb a c_slash); reflexivity.
  - rewrite rev_app_distr. cbn [rev app].
    destruct (rev r ++ [z]) eqn:E2; [destruct (rev r); discriminate|].
    rewrite <- E2. reflexivity.
Qed.

Lemma s2l_strip s : s2l (strip_trailing_slashes s) = strip_slash (s2l s).
Proof.
  induction s as [|a s IH]; [reflexivity|].
  change (s2l (String a s)) with (a :: s2l s). rewrite strip_slash_cons, <- IH.
  cbn [strip_trailing_slashes].
  destruct (strip_trailing_slashes s) as [|b t]; cbn.
  - unfold c_slash. destruct (Ascii.eqb a "/"); reflexivity.
  - reflexivity.
Qed.

(* ------------------------------------------------------------------ "applies" of C04 = candidate of C03 *)

Lemma path_matches_bridge t d p :
  HAMatch.path_matches (mt t) (s2l d) (s2l p) <-> Route.path_matches t d p = true.
Proof.
  destruct t; cbn [mt HAMatch.path_matches Route.path_matches].
  - rewrite eqb_s2l. split; intros H; symmetry; exact H.
  - rewrite orb_true_iff, eqb_s2l, prefix_s2l, s2l_app, s2l_strip.
    change (s2l "/") with [c_slash]. rewrite is_prefix_spec. split.
    + intros [H|[rest H]]; [left; exact H|right; exists rest; rewrite H, <- app_assoc; reflexivity].
    + intros [H|[rest H]]; [left; exact H|right; exists rest; rewrite H, <- app_assoc; reflexivity].
  - rewrite prefix_s2l, !s2l_lower, is_prefix_spec. reflexivity.
Qed.

Lemma applies_bridge enc x host p :
  applies (rule_of (fed_of enc x)) host (s2l p) <->
  Maps_Strs.lower (host_str (d_host (fst (snd x)))) = Maps_Strs.lower host /\
  Route.path_matches (d_type (fst (snd x))) (d_path (fst (snd x))) p = true.
Proof.
  unfold applies, rule_of, fed_of. cbn. rewrite path_matches_bridge. reflexivity.
Qed.

Lemma number_in {A} (l : list A) n p : In p (number n l) -> In (snd p) l.
Proof.
  revert n. induction l as [|x l IH]; intros n; cbn; [contradiction|].
  intros [<-|H]; [left; reflexivity|right; eapply IH; exact H].
Qed.

Lemma in_number {A} (l : list A) n x : In x l -> exists k, In (k, x) (number n l).
Proof.
  revert n. induction l as [|y l IH]; intros n; cbn; [contradiction|].
  intros [->|H]; [exists n; left; reflexivity|]. destruct (IH (N.succ n) H) as [k Hk]. exists k. right. exact Hk.
Qed.

Lemma rank2_cases a b : rank2 a = rank2 b <->
  (is_exact a = true /\ is_exact b = true) \/
  (is_exact a = false /\ is_exact b = false /\ String.length (d_path a) = String.length (d_path b)).
Proof.
  unfold rank2. destruct (is_exact a), (is_exact b); split; intros H; try discriminate; auto.
  - destruct H as [[? ?]|[? _]]; discriminate.
  - destruct H as [[? ?]|[_ [? _]]]; discriminate.
  - right. injection H as H. auto.
  - destruct H as [[? _]|[_ [_ ->]]]; [discriminate|reflexivity].
Qed.

Lemma mt_exact t : mt t = HAMatch.Exact <-> t = Route.Exact.
Proof. destruct t; cbn; split; intros H; try reflexivity; discriminate. Qed.

Lemma best_none_nil {A} (proj : A -> decl) (l : list A) : Route.best proj l = None -> l = [].
Proof.
  unfold Route.best. destruct l as [|x l]; [reflexivity|]. cbn.
  assert (forall l a, fold_left (best_step proj) l (Some a) <> None) as G.
  { induction l0 as [|y l0 IH]; intros a; cbn; [discriminate|]. destruct (better (proj y) (proj a)); apply IH. }
  intros H. exfalso. exact (G _ _ H).
Qed.

Lemma best_fst_max (l : list (decl * bkey)) x :
  Route.best fst l = Some x -> In x l /\ forall y, In y l -> better (fst y) (fst x) = false.
Proof.
  intros H. split; [apply (best_in _ _ _ H)|].
  pose proof (best_proj fst l) as P. rewrite H in P. cbn in P. symmetry in P.
  destruct (best_is_maximal _ _ P) as [_ M]. intros y Hy. apply M. apply in_map. exact Hy.
Qed.

(* one map: the lookup over the generated files of the tier's rules answers the backend of the
   specification-level winner among the tier's candidates, and nothing when there is none *)
Lemma tier_lookup tree mo enc (l : list (decl * bkey)) (host : str) (p : string) :
  forallb wf_fed (feds_of enc l) = true -> permitted mo -> wf_request host (s2l p) ->
  let cands := filter (fun x => str_eqb (Maps_Strs.lower (host_str (d_host (fst x)))) (Maps_Strs.lower host) &&
                                 Route.path_matches (d_type (fst x)) (d_path (fst x)) p) l in
  tie_free cands ->
  lookup tree (rebuild_current mo (map add (feds_of enc l))) (sample host (s2l p))
  = option_map (fun x => enc (snd x)) (Route.best fst cands).
Proof.
  intros Hwf Hmo Hreq cands Htie.
  pose proof (rebuild_current_precedence tree mo (feds_of enc l) Hwf Hmo host (s2l p) Hreq) as P.
  assert (Hcand : forall k y, In (k, y) (number 0 l) ->
            (applies (rule_of (fed_of enc (k, y))) host (s2l p) <-> In y cands)).
  { intros k y Hin. rewrite applies_bridge. cbn [fst snd]. unfold cands. rewrite filter_In, andb_true_iff, str_eqb_eq.
    split; [intros [A B]; split; [apply (number_in _ _ _ Hin)|auto]|intros [_ [A B]]; auto]. }
  destruct (Route.best fst cands) as [x|] eqn:B; cbn [option_map].
  - destruct (best_fst_max _ _ B) as [Hx Hmax].
    assert (Hxl : In x l) by (apply filter_In in Hx; apply Hx).
    destruct (in_number l 0 x Hxl) as [kx Hkx].
    destruct (lookup tree _ _) as [v|].
    + destruct P as [r [[Hr [Happ Hbest]] Hv]]. subst v.
      apply in_map_iff in Hr. destruct Hr as [f [<- Hf]].
      unfold feds_of in Hf. apply in_map_iff in Hf. destruct Hf as [[k y] [<- Hky]].
      assert (Hy : In y cands) by (apply (Hcand k y Hky); exact Happ).
      f_equal. cbn. f_equal. apply Htie; [exact Hy|exact Hx|].
      apply rank2_cases. pose proof (Hmax y Hy) as M.
      unfold better in M.
      destruct Hbest as [Hex|Hall].
      * cbn in Hex. apply mt_exact in Hex.
        assert (Ey : is_exact (fst y) = true) by (unfold is_exact; rewrite Hex; reflexivity).
        rewrite Ey in M. left. split; [exact Ey|]. destruct (is_exact (fst x)); [reflexivity|discriminate].
      * assert (Ax : applies (rule_of (fed_of enc (kx, x))) host (s2l p)) by (apply (Hcand kx x Hkx); exact Hx).
        destruct (Hall (rule_of (fed_of enc (kx, x)))) as [Nex Hlen]; [|exact Ax|].
        { apply in_map. unfold feds_of. apply in_map. exact Hkx. }
        cbn in Nex, Hlen. rewrite !s2l_length in Hlen.
        assert (Ex : is_exact (fst x) = false).
        { unfold is_exact. destruct (d_type (fst x)); cbn in *; try reflexivity. exfalso. apply Nex. reflexivity. }
        destruct (is_exact (fst y)) eqn:Ey.
        -- rewrite Ex in M. discriminate.
        -- right. split; [reflexivity|]. split; [exact Ex|]. rewrite Ex in M.
           destruct (Nat.ltb (String.length (d_path (fst x))) (String.length (d_path (fst y)))) eqn:L; [discriminate|].
           apply Nat.ltb_ge in L. lia.
    + exfalso. apply (P (rule_of (fed_of enc (kx, x)))).
      * apply in_map. unfold feds_of. apply in_map. exact Hkx.
      * apply (Hcand kx x Hkx). exact Hx.
  - apply best_none_nil in B.
    destruct (lookup tree _ _) as [v|]; [|reflexivity]. exfalso.
    destruct P as [r [[Hr [Happ _]] _]].
    apply in_map_iff in Hr. destruct Hr as [f [<- Hf]].
    unfold feds_of in Hf. apply in_map_iff in Hf. destruct Hf as [[k y] [<- Hky]].
    assert (Hy : In y cands) by (apply (Hcand k y Hky); exact Happ).
    rewrite B in Hy. contradiction.
Qed.

(* ------------------------------------------------------------------ assembling the frontends *)

Lemma filter_filter_ext {A} (P Q R : A -> bool) (l : list A) :
  (forall x, In x l -> P x && Q x = R x) -> filter P (filter Q l) = filter R l.
Proof.
  induction l as [|a l IH]; intros H; cbn; [reflexivity|].
  pose proof (H a (or_introl eq_refl)) as Ha.
  assert (IH' : filter P (filter Q l) = filter R l) by (apply IH; intros x Hx; apply H; right; exact Hx).
  destruct (Q a); cbn.
  - rewrite andb_true_r in Ha. rewrite Ha. destruct (R a); rewrite IH'; reflexivity.
  - rewrite andb_false_r in Ha. rewrite <- Ha. exact IH'.
Qed.

Lemma wf_fed_of enc x : wf_fed (fed_of enc x) = wf_decl (fst (snd x)).
Proof. reflexivity. Qed.

Lemma feds_in_guard enc c (Q : decl * bkey -> bool) :
  decls_in_guard c -> forallb wf_fed (feds_of enc (filter Q (st_paths (sync_full c)))) = true.
Proof.
  intros G. apply forallb_forall. intros f Hf. unfold feds_of in Hf.
  apply in_map_iff in Hf. destruct Hf as [p [<- Hp]]. rewrite wf_fed_of. apply G.
  apply number_in in Hp. apply filter_In in Hp. destruct Hp as [Hp _].
  rewrite <- sync_full_paths. apply in_map. exact Hp.
Qed.

Lemma lower_idem_string s : Route.lower (Route.lower s) = Route.lower s.
Proof. apply s2l_inj. rewrite !s2l_lower. apply lower_idem. Qed.

Lemma req_host_lower r : Maps_Strs.lower (s2l (req_host r)) = s2l (req_host r).
Proof. unfold req_host. rewrite <- s2l_lower, lower_idem_string. reflexivity. Qed.

Lemma str_eqb_s2l a b : str_eqb (s2l a) (s2l b) = (a =? b)%string.
Proof.
  destruct (a =? b)%string eqn:E.
  - apply String.eqb_eq in E. subst. apply str_eqb_refl.
  - apply str_eqb_neq. intros H. apply s2l_inj in H. apply String.eqb_neq in E. contradiction.
Qed.

Lemma default_host_guard p : path_chars_ok (s2l p) = true -> wf_request default_host (s2l p).
Proof. intros H. split; [vm_compute; reflexivity|exact H]. Qed.

(* the candidates of the three maps are the candidates of route *)
Lemma cands_named c r (Q : decl * bkey -> bool) :
  (forall x, Q x = match d_host (fst x) with
                   | Some h => negb (rq_https r) || existsb (String.eqb h) (tls_hosts c)
                   | None => false end) ->
  filter (fun x => str_eqb (Maps_Strs.lower (host_str (d_host (fst x)))) (Maps_Strs.lower (s2l (req_host r))) &&
                   Route.path_matches (d_type (fst x)) (d_path (fst x)) (rq_path r))
         (filter Q (st_paths (sync_full c)))
  = candidates (host_visible (tls_hosts c) r) c r.
Proof.
  intros HQ. unfold candidates. apply filter_filter_ext. intros x _. rewrite HQ.
  rewrite req_host_lower. unfold host_visible, host_str.
  destruct (d_host (fst x)) as [h|].
  - rewrite <- s2l_lower, str_eqb_s2l.
    destruct (Route.lower h =? req_host r)%string, (negb (rq_https r) || existsb (String.eqb h) (tls_hosts c)),
      (Route.path_matches (d_type (fst x)) (d_path (fst x)) (rq_path r)); reflexivity.
  - rewrite andb_false_r. reflexivity.
Qed.

Lemma cands_default c r :
  filter (fun x => str_eqb (Maps_Strs.lower (host_str (d_host (fst x)))) (Maps_Strs.lower default_host) &&
                   Route.path_matches (d_type (fst x)) (d_path (fst x)) (rq_path r))
         (filter is_default_host (st_paths (sync_full c)))
  = candidates default_visible c r.
Proof.
  unfold candidates. apply filter_filter_ext. intros x _.
  unfold default_visible, is_default_host, is_named_host, host_str.
  destruct (d_host (fst x)) as [h|]; cbn [negb].
  - rewrite andb_false_r. reflexivity.
  - rewrite str_eqb_refl, andb_true_r. reflexivity.
Qed.

Lemma serve_id_back enc c k :
  ids_distinct enc c -> (exists srv, lookup_back k (st_backs (sync_full c)) = Some srv) ->
  serve_id enc (sync_full c) (Some (enc k)) = serve_back (sync_full c) k.
Proof.
  intros Hinj [srv L]. unfold serve_id, serve_back, lookup_back in *.
  assert (Hk : In k (map fst (st_backs (sync_full c)))).
  { destruct (find (fun b => bkey_eqb k (fst b)) (st_backs (sync_full c))) as [b|] eqn:F; [|discriminate].
    apply find_some in F. destruct F as [Hin E]. apply bkey_eqb_eq in E. subst k. apply in_map. exact Hin. }
  assert (E : forall l, (forall b, In b l -> In b (st_backs (sync_full c))) ->
            find (fun b => str_eqb (enc (fst b)) (enc k)) l = find (fun b => bkey_eqb k (fst b)) l).
  { induction l as [|b l IH]; intros Hl; cbn; [reflexivity|].
    assert (str_eqb (enc (fst b)) (enc k) = bkey_eqb k (fst b)) as ->.
    { destruct (bkey_eqb k (fst b)) eqn:Eb.
      - apply bkey_eqb_eq in Eb. subst k. apply str_eqb_refl.
      - apply str_eqb_neq. intros H. apply Hinj in H; [subst k; rewrite bkey_eqb_refl in Eb; discriminate| |exact Hk].
        apply in_map. apply Hl. left. reflexivity. }
    destruct (bkey_eqb k (fst b)); [reflexivity|]. apply IH. intros b' Hb'. apply Hl. right. exact Hb'. }
  rewrite E by auto.
  destruct (find (fun b => bkey_eqb k (fst b)) (st_backs (sync_full c))); reflexivity.
Qed.

Theorem maps_agree_under_H : forall tree mo enc c r,
  permitted mo -> decls_in_guard c -> request_in_guard r -> ids_distinct enc c -> unambiguous c r ->
  maps_agree_at tree mo enc c r.
Proof.
  intros tree mo enc c r Hmo Hg [Hh Hp] Hids [T1 T2].
  unfold maps_agree_at, route_maps, route_files, chain_lookup, render. cbn [rd_http rd_https rd_default rd_defback].
  destruct (sync_full_ok c) as [Hb [Hpaths Hdef]].
  rewrite sync_full_tls.
  assert (L1 : lookup tree (if rq_https r
                 then rebuild_current mo (map add (feds_of enc (filter (is_tls_host (tls_hosts c)) (st_paths (sync_full c)))))
                 else rebuild_current mo (map add (feds_of enc (filter is_named_host (st_paths (sync_full c))))))
                (sample (s2l (req_host r)) (s2l (rq_path r)))
             = option_map (fun x => enc (snd x)) (Route.best fst (candidates (host_visible (tls_hosts c) r) c r))).
  { destruct (rq_https r) eqn:Q.
    - rewrite <- (cands_named c r (is_tls_host (tls_hosts c))).
      + apply tier_lookup; try assumption; [apply feds_in_guard; assumption|split; assumption|].
        rewrite (cands_named c r (is_tls_host (tls_hosts c))); [exact T1|].
        intros x. unfold is_tls_host. rewrite Q. reflexivity.
      + intros x. unfold is_tls_host. rewrite Q. reflexivity.
    - rewrite <- (cands_named c r is_named_host).
      + apply tier_lookup; try assumption; [apply feds_in_guard; assumption|split; assumption|].
        rewrite (cands_named c r is_named_host); [exact T1|].
        intros x. unfold is_named_host. rewrite Q. destruct (d_host (fst x)); reflexivity.
      + intros x. unfold is_named_host. rewrite Q. destruct (d_host (fst x)); reflexivity. }
  assert (L2 : lookup tree (rebuild_current mo (map add (feds_of enc (filter is_default_host (st_paths (sync_full c))))))
                (sample default_host (s2l (rq_path r)))
             = option_map (fun x => enc (snd x)) (Route.best fst (candidates default_visible c r))).
  { rewrite <- cands_default.
    apply tier_lookup; try assumption; [apply feds_in_guard; assumption|apply default_host_guard; exact Hp|].
    rewrite cands_default. exact T2. }
  rewrite L1, L2. clear L1 L2.
  unfold route_impl, route. rewrite sync_full_tls.
  change (filter (fun x => host_visible (tls_hosts c) r (fst x) && Route.path_matches (d_type (fst x)) (d_path (fst x)) (rq_path r))
                 (st_paths (sync_full c))) with (candidates (host_visible (tls_hosts c) r) c r).
  change (filter (fun x => default_visible (fst x) && Route.path_matches (d_type (fst x)) (d_path (fst x)) (rq_path r))
                 (st_paths (sync_full c))) with (candidates default_visible c r).
  assert (In_paths : forall f x, In x (candidates f c r) -> exists srv, lookup_back (snd x) (st_backs (sync_full c)) = Some srv).
  { intros f [d k] Hx. apply filter_In in Hx. destruct Hx as [Hx _].
    destruct (Hpaths _ _ Hx) as [_ [_ [_ [_ L]]]]. exact L. }
  destruct (Route.best fst (candidates (host_visible (tls_hosts c) r) c r)) as [x|] eqn:B1; cbn [option_map].
  - apply serve_id_back; [exact Hids|]. eapply In_paths. eapply best_in. exact B1.
  - destruct (Route.best fst (candidates default_visible c r)) as [x|] eqn:B2; cbn [option_map].
    + apply serve_id_back; [exact Hids|]. eapply In_paths. eapply best_in. exact B2.
    + destruct (st_default (sync_full c)) as [k|] eqn:D; cbn [option_map].
      * apply serve_id_back; [exact Hids|]. apply Hdef. reflexivity.
      * reflexivity.
Qed.

(* C03 end to end: through the generated maps every request reaches exactly the designated servers *)
Lemma full_spec_for_impl c r : route_full_spec_at c r <-> full_spec_for (route_impl c r) c r.
Proof. unfold route_full_spec_at, full_spec_for, reaches. reflexivity. Qed.

Theorem end_to_end_under_H : forall tree mo enc c r,
  ports_consistent c ->
  permitted mo -> decls_in_guard c -> request_in_guard r -> ids_distinct enc c -> unambiguous c r ->
  full_spec_for (route_maps tree mo enc c r) c r.
Proof.
  intros tree mo enc c r PC Hmo Hg Hr Hids Hu.
  rewrite (maps_agree_under_H tree mo enc c r Hmo Hg Hr Hids Hu).
  apply full_spec_for_impl. apply route_full_spec_under_H. exact PC.
Qed.

(* ------------------------------------------------------------------ the hypotheses are decidable *)

Lemma decls_in_guardb_sound c : decls_in_guardb c = true -> decls_in_guard c.
Proof. unfold decls_in_guardb, decls_in_guard. rewrite forallb_forall. auto. Qed.

Lemma request_in_guardb_sound r : request_in_guardb r = true -> request_in_guard r.
Proof. unfold request_in_guardb, request_in_guard, wf_request. apply andb_true_iff. Qed.

Lemma ids_distinctb_sound enc c : ids_distinctb enc c = true -> ids_distinct enc c.
Proof.
  unfold ids_distinctb, ids_distinct. intros H k k' Hk Hk' E.
  rewrite forallb_forall in H. specialize (H _ Hk). rewrite forallb_forall in H. specialize (H _ Hk').
  rewrite E, str_eqb_refl in H. cbn in H. apply bkey_eqb_eq. exact H.
Qed.


Lemma tie_freeb_sound l : tie_freeb l = true -> tie_free l.
Proof.
  unfold tie_freeb, tie_free. intros H x y Hx Hy E.
  rewrite forallb_forall in H. specialize (H _ Hx). rewrite forallb_forall in H. specialize (H _ Hy).
  assert (rank2_eqb (fst x) (fst y) = true) as R.
  { apply rank2_cases in E. unfold rank2_eqb.
    destruct E as [[-> ->]|[-> [-> ->]]]; [reflexivity|]. cbn. apply Nat.eqb_refl. }
  rewrite R in H. cbn in H. apply bkey_eqb_eq. exact H.
Qed.

Lemma unambiguousb_sound c r : unambiguousb c r = true -> unambiguous c r.
Proof.
  unfold unambiguousb, unambiguous. intros H. apply andb_true_iff in H. destruct H as [A B].
  split; apply tie_freeb_sound; assumption.
Qed.

Lemma default_order_permitted : permitted default_order.
Proof.
  unfold permitted, default_order. split; [apply nodup4|]. cbn. auto 10.
Qed.

(* ------------------------------------------------------------------ witnesses *)

(* without `unambiguous` the composition is false: /api ImplementationSpecific (begin) and
   /api Prefix on one host, plus / Prefix. The generator moves the begin rule to a priority
   file (it overlaps "/"), which is looked up before the default prefix file: the maps answer
   the begin rule, the specification-level matcher of Route.v prefers the prefix rule.
   C04 leaves the order of two rules of equal length unspecified. *)
Definition svc_t1 : service := {| s_ns := "ns1"; s_name := "svc1"; s_ports := [sp_http]; s_selector := [] |}.
Definition svc_t2 : service := {| s_ns := "ns1"; s_name := "svc2"; s_ports := [sp_http]; s_selector := [] |}.
Definition ing_tie : ingress := {| i_stamp := 10; i_ns := "ns1"; i_name := "ing1"; i_valid := true; i_default := None;
  i_rules := [ {| ir_host := "a.example"; ir_paths :=
     [ {| ip_path := "/api"; ip_type := Route.Begin; ip_svc := "svc1"; ip_port := pnum 80 "80" |};
       {| ip_path := "/api"; ip_type := Route.Prefix; ip_svc := "svc2"; ip_port := pnum 80 "80" |};
       {| ip_path := "/"; ip_type := Route.Prefix; ip_svc := "svc2"; ip_port := pnum 80 "80" |} ] |} ];
  i_tls := [] |}.
Definition cluster_tie : cluster := {| c_ingresses := [ing_tie]; c_services := [svc_t1; svc_t2];
  c_endpoints := [ep_of "svc1" "10.0.0.1" "10.0.0.3"; ep_of "svc2" "10.0.0.2" "10.0.0.4"]; c_pods := [];
  c_default_backend := None; c_drain := false |}.
Definition request_tie : request := {| rq_https := false; rq_host := "a.example"; rq_path := "/api" |}.

Theorem maps_agree_refuted : exists tree mo enc c r,
  permitted mo /\ decls_in_guard c /\ request_in_guard r /\ ids_distinct enc c /\ ports_consistent c /\
  ~ maps_agree_at tree mo enc c r.
Proof.
  exists true, default_order, bid, cluster_tie, request_tie.
  split; [apply default_order_permitted|].
  split; [apply decls_in_guardb_sound; vm_compute; reflexivity|].
  split; [apply request_in_guardb_sound; vm_compute; reflexivity|].
  split; [apply ids_distinctb_sound; vm_compute; reflexivity|].
  split; [apply ports_consistentb_sound; vm_compute; reflexivity|].
  unfold maps_agree_at.
  assert (A : route_maps true default_order bid cluster_tie request_tie
              = Serve [{| sv_ip := "10.0.0.1"; sv_port := 8080; sv_drain := false |}]) by (vm_compute; reflexivity).
  assert (B : route_impl cluster_tie request_tie
              = Serve [{| sv_ip := "10.0.0.2"; sv_port := 8080; sv_drain := false |}]) by (vm_compute; reflexivity).
  rewrite A, B. discriminate.
Qed.

Example cluster_tie_ambiguous : unambiguousb cluster_tie request_tie = false.
Proof. vm_compute. reflexivity. Qed.

(* a non-trivial cluster inside all the hypotheses (duplicated path, TLS, default backend, drain) *)
Example cluster_ok_hypotheses :
  ports_consistent cluster_ok /\ decls_in_guard cluster_ok /\ ids_distinct bid cluster_ok /\
  forall r, In r [ {| rq_https := true; rq_host := "A.example:443"; rq_path := "/x" |};
                   {| rq_https := false; rq_host := "a.example"; rq_path := "/b" |};
                   {| rq_https := false; rq_host := "zzz.example"; rq_path := "/" |} ] ->
            request_in_guard r /\ unambiguous cluster_ok r.
Proof.
  split; [apply cluster_ok_consistent|].
  split; [apply decls_in_guardb_sound; vm_compute; reflexivity|].
  split; [apply ids_distinctb_sound; vm_compute; reflexivity|].
  intros r [<-|[<-|[<-|[]]]]; (split; [apply request_in_guardb_sound|apply unambiguousb_sound]); vm_compute; reflexivity.
Qed.

Example cluster_ok_through_maps :
  route_maps true default_order bid cluster_ok {| rq_https := true; rq_host := "A.example:443"; rq_path := "/x" |}
  = Serve [ {| sv_ip := "10.0.0.2"; sv_port := 8080; sv_drain := false |};
            {| sv_ip := "10.0.0.4"; sv_port := 8080; sv_drain := true |};
            {| sv_ip := "10.0.0.9"; sv_port := 8080; sv_drain := true |} ].
Proof. vm_compute. reflexivity. Qed.
