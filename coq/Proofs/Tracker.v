(* Proofs about Model/Tracker.v: QueryLinks returns exactly the nodes reachable by at
   least one link from the input, never runs out of fuel, and removal deletes exactly the
   pairs incident to a returned node. *)
From Coq Require Import List Bool Arith Lia Relations.
From HI Require Import Model.Tracker.
Import ListNotations.

Section TrackerProofs.
  Variable node : Type.
  Variable eqb : node -> node -> bool.
  Hypothesis eqb_spec : forall a b, reflect (a = b) (eqb a b).

  Notation tracker := (tracker node).
  Notation mem := (mem eqb).

  Lemma mem_In n l : mem n l = true <-> In n l.
  Proof.
    unfold Tracker.mem. rewrite existsb_exists. split.
    - intros (x & Hx & He). destruct (eqb_spec n x); [subst; exact Hx|discriminate].
    - intros H. exists n. split; [exact H|]. destruct (eqb_spec n n); [reflexivity|contradiction].
  Qed.

  Lemma mem_false n l : mem n l = false <-> ~ In n l.
  Proof.
    rewrite <- mem_In. destruct (mem n l); split; intros H.
    - discriminate.
    - exfalso. apply H. reflexivity.
    - intros Hc. discriminate.
    - reflexivity.
  Qed.

  Definition edge (T : tracker) (a b : node) : Prop := In (a, b) T.

  Lemma neighbors_spec T n m : In m (neighbors eqb T n) <-> edge T n m.
  Proof.
    unfold neighbors, edge. rewrite in_map_iff. split.
    - intros ([a b] & Hs & Hf). cbn in Hs. subst b. apply filter_In in Hf as [Hin He].
      cbn in He. destruct (eqb_spec a n); [subst; exact Hin|discriminate].
    - intros H. exists (n, m). split; [reflexivity|]. apply filter_In. split; [exact H|].
      cbn. destruct (eqb_spec n n); [reflexivity|contradiction].
  Qed.

  (* ---- fresh ---- *)
  Lemma fresh_spec l : forall acc m,
    In m (fresh eqb l acc) <-> In m l /\ ~ In m acc.
  Proof.
    induction l as [|x r IH]; intros acc m; cbn [fresh].
    - cbn. tauto.
    - destruct (mem x acc) eqn:E.
      + apply mem_In in E. rewrite IH. cbn. split; [tauto|].
        intros [[->|H] Hn]; [contradiction|tauto].
      + apply mem_false in E. cbn. rewrite IH. rewrite in_app_iff. cbn. split.
        * intros [->|[H Hn]]; [tauto|]. split; [tauto|]. intros Hc. apply Hn. left. exact Hc.
        * intros [[->|H] Hn]; [left; reflexivity|].
          destruct (eqb_spec x m) as [->|Hne]; [left; reflexivity|].
          right. split; [exact H|]. intros [Hc|[Hc|[]]]; [contradiction|congruence].
  Qed.

  Lemma fresh_NoDup l : forall acc, NoDup (fresh eqb l acc).
  Proof.
    induction l as [|x r IH]; intros acc; cbn [fresh]; [constructor|].
    destruct (mem x acc); [apply IH|]. constructor; [|apply IH].
    intros Hc. apply fresh_spec in Hc as [_ Hn]. apply Hn. apply in_or_app. right. left. reflexivity.
  Qed.

  Lemma NoDup_app_disj (l1 l2 : list node) :
    NoDup l1 -> NoDup l2 -> (forall x, In x l1 -> In x l2 -> False) -> NoDup (l1 ++ l2).
  Proof.
    induction l1 as [|a l1 IH]; intros H1 H2 Hd; cbn; [exact H2|].
    inversion H1; subst. constructor.
    - intros Hc. apply in_app_or in Hc as [Hc|Hc]; [contradiction|].
      apply (Hd a); [left; reflexivity|exact Hc].
    - apply IH; [assumption|exact H2|]. intros x Hx Hy. apply (Hd x); [right; exact Hx|exact Hy].
  Qed.

  (* ---- reachability ---- *)
  Definition reach (T : tracker) (input : list node) (m : node) : Prop :=
    exists n, In n input /\ clos_trans node (edge T) n m.

  Section Walk.
    Variable T : tracker.
    Variable input : list node.

    (* soundness invariant *)
    Definition sound (stack out : list node) : Prop :=
      (forall m, In m out -> reach T input m) /\
      (forall n, In n stack -> In n input \/ In n out).

    Lemma walk_sound fuel : forall stack out res,
      sound stack out -> walk eqb fuel T stack out = Some res ->
      forall m, In m res -> reach T input m.
    Proof.
      induction fuel as [|f IH]; intros stack out res [Ho Hs] Hw m Hm.
      - destruct stack; cbn in Hw; [|discriminate]. inversion Hw; subst. auto.
      - destruct stack as [|n rest]; cbn [walk] in Hw; [inversion Hw; subst; auto|].
        eapply IH; [|exact Hw|exact Hm]. split.
        + intros x Hx. apply in_app_or in Hx as [Hx|Hx]; [auto|].
          apply fresh_spec in Hx as [Hx _]. apply neighbors_spec in Hx.
          destruct (Hs n (or_introl eq_refl)) as [Hi|Hi].
          * exists n. split; [exact Hi|]. apply t_step. exact Hx.
          * destruct (Ho n Hi) as (i & Hii & Hr). exists i. split; [exact Hii|].
            eapply t_trans; [exact Hr|apply t_step; exact Hx].
        + intros x Hx. apply in_app_or in Hx as [Hx|Hx].
          * right. apply in_or_app. right. exact Hx.
          * destruct (Hs x (or_intror Hx)) as [Hi|Hi]; [left; exact Hi|].
            right. apply in_or_app. left. exact Hi.
    Qed.

    (* completeness invariant, with the ghost list of expanded nodes *)
    Definition closed_inv (done stack out : list node) : Prop :=
      (forall v m, In v done -> edge T v m -> In m out) /\
      (forall v, In v input \/ In v out -> In v done \/ In v stack).

    Lemma walk_complete fuel : forall stack out done res,
      closed_inv done stack out -> walk eqb fuel T stack out = Some res ->
      (forall m, In m out -> In m res) /\
      exists done', closed_inv done' [] res.
    Proof.
      induction fuel as [|f IH]; intros stack out done res Hinv Hw.
      - destruct stack; cbn in Hw; [|discriminate]. inversion Hw; subst.
        split; [auto|]. exists done. exact Hinv.
      - destruct stack as [|n rest]; cbn [walk] in Hw.
        { inversion Hw; subst. split; [auto|]. exists done. exact Hinv. }
        destruct Hinv as [Hd Hall].
        destruct (IH (fresh eqb (neighbors eqb T n) out ++ rest)
                     (out ++ fresh eqb (neighbors eqb T n) out) (n :: done) res) as [Hsub Hex];
          [|exact Hw|].
        + split.
          * intros v m [<-|Hv] He.
            -- destruct (mem m out) eqn:E.
               ++ apply mem_In in E. apply in_or_app. left. exact E.
               ++ apply mem_false in E. apply in_or_app. right. apply fresh_spec.
                  split; [apply neighbors_spec; exact He|exact E].
            -- apply in_or_app. left. eapply Hd; eassumption.
          * intros v [Hv|Hv].
            -- destruct (Hall v (or_introl Hv)) as [H|[<-|H]];
                 [left; right; exact H|left; left; reflexivity|right; apply in_or_app; right; exact H].
            -- apply in_app_or in Hv as [Hv|Hv].
               ++ destruct (Hall v (or_intror Hv)) as [H|[<-|H]];
                    [left; right; exact H|left; left; reflexivity|right; apply in_or_app; right; exact H].
               ++ right. apply in_or_app. left. exact Hv.
        + split; [|exact Hex]. intros m Hm. apply Hsub. apply in_or_app. left. exact Hm.
    Qed.

    Lemma closed_reach done res :
      closed_inv done [] res -> forall m, reach T input m -> In m res.
    Proof.
      intros [Hd Hall] m (n & Hn & Hr).
      apply clos_trans_tn1 in Hr. induction Hr as [m He|m z He Hr IH].
      - destruct (Hall n (or_introl Hn)) as [H|[]]. eapply Hd; eassumption.
      - destruct (Hall m (or_intror IH)) as [H|[]]. eapply Hd; eassumption.
    Qed.

    (* fuel *)
    Lemma walk_fuel fuel : forall stack out,
      NoDup out -> incl out (map snd T) ->
      length stack + (length T - length out) <= fuel ->
      walk eqb fuel T stack out <> None.
    Proof.
      induction fuel as [|f IH]; intros stack out Hnd Hincl Hle.
      - destruct stack; cbn; [discriminate|cbn in Hle; lia].
      - destruct stack as [|n rest]; cbn [walk]; [discriminate|].
        set (new := fresh eqb (neighbors eqb T n) out).
        assert (Hnd' : NoDup (out ++ new)).
        { apply NoDup_app_disj; [exact Hnd|apply fresh_NoDup|].
          intros x Hx Hy. apply fresh_spec in Hy as [_ Hy]. contradiction. }
        assert (Hincl' : incl (out ++ new) (map snd T)).
        { intros x Hx. apply in_app_or in Hx as [Hx|Hx]; [auto|].
          apply fresh_spec in Hx as [Hx _]. apply neighbors_spec in Hx.
          apply in_map_iff. exists (n, x). split; [reflexivity|exact Hx]. }
        apply IH; [exact Hnd'|exact Hincl'|].
        pose proof (NoDup_incl_length Hnd' Hincl') as Hl.
        rewrite map_length in Hl. rewrite !app_length in *. cbn [length] in Hle. lia.
    Qed.
  End Walk.

  (* ---- the theorems ---- *)

  Theorem query_links_total T input : query_links eqb T input <> None.
  Proof.
    unfold query_links, fuel_for. apply walk_fuel; [constructor|intros x []|]. cbn. lia.
  Qed.

  Theorem query_links_reach T input out :
    query_links eqb T input = Some out ->
    forall m, In m out <-> reach T input m.
  Proof.
    unfold query_links. intros Hw m. split.
    - eapply (walk_sound T input (fuel_for T input) input []); [|exact Hw]. split; [intros x []|intros n Hn; left; exact Hn].
    - destruct (walk_complete T input (fuel_for T input) input [] [] out) as [_ [done Hc]]; [|exact Hw|].
      + split; [intros v x []|]. intros v [Hv|[]]. right. exact Hv.
      + apply (closed_reach T input done out Hc).
  Qed.

  Theorem query_links_NoDup T input out :
    query_links eqb T input = Some out -> NoDup out.
  Proof.
    unfold query_links. generalize (fuel_for T input). intros fuel.
    assert (H : NoDup (@nil node)) by constructor. revert H.
    generalize (@nil node) as acc. generalize input as stack.
    induction fuel as [|f IH]; intros stack acc Hnd Hw.
    - destruct stack; cbn in Hw; [inversion Hw; subst; exact Hnd|discriminate].
    - destruct stack as [|n rest]; cbn [walk] in Hw; [inversion Hw; subst; exact Hnd|].
      eapply IH; [|exact Hw].
      apply NoDup_app_disj; [exact Hnd|apply fresh_NoDup|].
      intros x Hx Hy. apply fresh_spec in Hy as [_ Hy]. contradiction.
  Qed.

  (* removal: a pair survives iff neither end was returned *)
  Theorem remove_refs_spec T out a b :
    In (a, b) (remove_refs eqb T out) <-> In (a, b) T /\ ~ In a out /\ ~ In b out.
  Proof.
    unfold remove_refs. rewrite filter_In. cbn [fst snd].
    rewrite negb_true_iff, orb_false_iff, !mem_false. tauto.
  Qed.

  (* on a symmetric tracker the removed pairs are exactly those with an end in the
     component: nothing outside the component loses a link *)
  Definition symmetric (T : tracker) : Prop := forall a b, In (a, b) T -> In (b, a) T.

  Lemma track_symmetric T a b : symmetric T -> symmetric (track T a b).
  Proof.
    intros Hs x y [H|[H|H]]; unfold track.
    - inversion H; subst. right. left. reflexivity.
    - inversion H; subst. left. reflexivity.
    - right. right. apply Hs. exact H.
  Qed.

  Lemma remove_refs_symmetric T out : symmetric T -> symmetric (remove_refs eqb T out).
  Proof.
    intros Hs a b H. apply remove_refs_spec in H as (H & Ha & Hb).
    apply remove_refs_spec. split; [apply Hs; exact H|tauto].
  Qed.

  Theorem query_remove_component T input out T' :
    symmetric T ->
    query_remove eqb T input = Some (out, T') ->
    (forall m, In m out <-> reach T input m) /\
    (forall a b, In (a, b) T' <-> In (a, b) T /\ ~ reach T input a) /\
    (forall n, In n input -> (exists m, edge T n m) -> In n out).
  Proof.
    intros Hsym Hq. unfold query_remove in Hq.
    destruct (query_links eqb T input) as [o|] eqn:E; [|discriminate]. inversion Hq; subst. clear Hq.
    pose proof (query_links_reach T input out E) as Hr.
    split; [exact Hr|]. split.
    - intros a b. rewrite remove_refs_spec, !Hr. split; [tauto|].
      intros [H Hna]. split; [exact H|]. split; [exact Hna|].
      intros (n & Hn & Hc). apply Hna. exists n. split; [exact Hn|].
      eapply t_trans; [exact Hc|apply t_step; apply Hsym; exact H].
    - intros n Hn [m Hm]. apply Hr. exists n. split; [exact Hn|].
      eapply t_trans; [apply t_step; exact Hm|apply t_step; apply Hsym; exact Hm].
  Qed.
End TrackerProofs.
