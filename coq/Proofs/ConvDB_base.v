(* Base lemmas about Model/ConvDB.v:
   - dsort (sortIngress on ingresses with a default backend) sorts, permutes, is determined
     by the set of elements and commutes with filter, when the names are distinct;
   - addDefaultHostBackend (sync_db) seen at one host: frame, growth of the tracker, which
     Service-Host links it adds, simulation in two worlds (R of Proofs/ConvHist_sim.v),
     and the link it always leaves between the ingress and the default host (dlink);
   - the same for sync_dingress and its folds. *)
From Coq Require Import List Bool String ZArith Lia Relations Sorted Permutation.
From HI Require Import Model.Tracker Model.Conv Model.ConvDB Proofs.Tracker Proofs.IncSync Proofs.Conv
                       Proofs.ConvSort Proofs.ConvHist_base Proofs.ConvHist_keys Proofs.ConvHist_sim
                       Proofs.ConvBack.
Import ListNotations.
Open Scope string_scope.

Definition dname (d : dingress) : string := i_full (d_ing d).
Definition dnode (d : dingress) : node := (KIngress, dname d).

(* the hosts an ingress may write: the default host when it has a default backend, the
   hosts of its rules and tls blocks *)
Definition ddecl (d : dingress) : list string :=
  match d_db d with Some _ => [default_host] | None => [] end ++ declared (d_ing d).
Definition ddeclares (d : dingress) (h : string) : bool := existsb (String.eqb h) (ddecl d).

Lemma ddeclares_In d h : ddeclares d h = true <-> In h (ddecl d).
Proof. apply (namein_In h (ddecl d)). Qed.

Lemma ddecl_declared d h : In h (declared (d_ing d)) -> In h (ddecl d).
Proof. intros H. unfold ddecl. apply in_or_app. right. exact H. Qed.

Lemma ddeclares_false_declares d h : ddeclares d h = false -> declares (d_ing d) h = false.
Proof.
  intros H. destruct (declares (d_ing d) h) eqn:E; [|reflexivity].
  apply declares_In in E. apply ddecl_declared in E. apply ddeclares_In in E. congruence.
Qed.

(* ------------------------------------------------------------------ *)
(* dsort                                                                *)
(* ------------------------------------------------------------------ *)
Definition d_lt (a b : dingress) : Prop := ing_ltb (d_ing a) (d_ing b) = true.

Lemma dinsert_perm d l : Permutation (d :: l) (dinsert d l).
Proof.
  induction l as [|e r IH]; cbn [dinsert]; [apply Permutation_refl|].
  destruct (ing_ltb (d_ing e) (d_ing d)); [|apply Permutation_refl].
  eapply perm_trans; [apply perm_swap|]. apply perm_skip. exact IH.
Qed.

Lemma dsort_permutation l : Permutation l (dsort l).
Proof.
  induction l as [|d l IH]; cbn; [constructor|].
  eapply perm_trans; [apply perm_skip; exact IH|]. apply dinsert_perm.
Qed.

Lemma dsort_In l d : In d (dsort l) <-> In d l.
Proof.
  split; intros H.
  - eapply Permutation_in; [apply Permutation_sym; apply dsort_permutation|exact H].
  - eapply Permutation_in; [apply dsort_permutation|exact H].
Qed.

Lemma dinsert_sorted d l :
  StronglySorted d_lt l -> ~ In (dname d) (map dname l) -> StronglySorted d_lt (dinsert d l).
Proof.
  induction l as [|e r IH]; intros Hs Hn; cbn [dinsert].
  - constructor; constructor.
  - inversion Hs as [|? ? Hr Hall]; subst. destruct (ing_ltb (d_ing e) (d_ing d)) eqn:E.
    + constructor; [apply IH; [exact Hr|intros Hc; apply Hn; right; exact Hc]|].
      rewrite Forall_forall in *. intros x Hx.
      apply (Permutation_in _ (Permutation_sym (dinsert_perm d r))) in Hx.
      destruct Hx as [<-|Hx]; [exact E|apply Hall; exact Hx].
    + assert (Hde : ing_ltb (d_ing d) (d_ing e) = true).
      { apply ing_ltb_total; [|exact E]. intros Hc. apply Hn. left. exact Hc. }
      constructor; [exact Hs|]. constructor; [exact Hde|].
      rewrite Forall_forall in *. intros x Hx. unfold d_lt. eapply ing_ltb_trans; [exact Hde|apply Hall; exact Hx].
Qed.

Lemma dsort_sorted l : NoDup (map dname l) -> StronglySorted d_lt (dsort l).
Proof.
  induction l as [|d l IH]; intros Hn; cbn; [constructor|].
  inversion Hn as [|? ? Hni Hn']; subst. apply dinsert_sorted; [apply IH; exact Hn'|].
  intros Hc. apply Hni. apply in_map_iff in Hc as (x & Hx & Hin). apply in_map_iff.
  exists x. split; [exact Hx|]. apply dsort_In. exact Hin.
Qed.

Lemma dsorted_unique (l1 : list dingress) : forall l2,
  StronglySorted d_lt l1 -> StronglySorted d_lt l2 -> (forall x, In x l1 <-> In x l2) -> l1 = l2.
Proof.
  induction l1 as [|a l1 IH]; intros l2 H1 H2 Hiff.
  - destruct l2 as [|b l2]; [reflexivity|]. exfalso. apply (proj2 (Hiff b)). left. reflexivity.
  - destruct l2 as [|b l2]; [exfalso; apply (proj1 (Hiff a)); left; reflexivity|].
    inversion H1 as [|? ? Hs1 Ha]; subst. inversion H2 as [|? ? Hs2 Hb]; subst.
    rewrite Forall_forall in Ha, Hb.
    assert (Hab : a = b).
    { destruct (proj1 (Hiff a) (or_introl eq_refl)) as [Hc|Hc]; [symmetry; exact Hc|].
      destruct (proj2 (Hiff b) (or_introl eq_refl)) as [Hd|Hd]; [exact Hd|].
      pose proof (ing_ltb_trans _ _ _ (Ha b Hd) (Hb a Hc)) as He.
      rewrite ing_ltb_irrefl in He. discriminate. }
    subst b. f_equal. apply IH; [exact Hs1|exact Hs2|].
    intros x. split; intros Hx.
    + destruct (proj1 (Hiff x) (or_intror Hx)) as [<-|Hc]; [|exact Hc].
      pose proof (Ha a Hx) as He. unfold d_lt in He. rewrite ing_ltb_irrefl in He. discriminate.
    + destruct (proj2 (Hiff x) (or_intror Hx)) as [<-|Hc]; [|exact Hc].
      pose proof (Hb a Hx) as He. unfold d_lt in He. rewrite ing_ltb_irrefl in He. discriminate.
Qed.

Theorem dsort_same_elements l1 l2 :
  NoDup (map dname l1) -> NoDup (map dname l2) -> (forall x, In x l1 <-> In x l2) -> dsort l1 = dsort l2.
Proof.
  intros H1 H2 Hiff. apply dsorted_unique; [apply dsort_sorted; exact H1|apply dsort_sorted; exact H2|].
  intros x. rewrite !dsort_In. apply Hiff.
Qed.

Theorem dsort_filter (p : dingress -> bool) l :
  NoDup (map dname l) -> dsort (filter p l) = filter p (dsort l).
Proof.
  intros Hn. apply dsorted_unique.
  - apply dsort_sorted. apply NoDup_map_filter. exact Hn.
  - apply filter_sorted. apply dsort_sorted. exact Hn.
  - intros x. rewrite dsort_In, !filter_In, dsort_In. reflexivity.
Qed.

Lemma NoDup_dnames_inj l a b : NoDup (map dname l) -> In a l -> In b l -> dname a = dname b -> a = b.
Proof.
  induction l as [|c l IH]; intros Hn Ha Hb He; [contradiction|].
  cbn [map] in Hn. inversion Hn as [|? ? Hnc Hn']; subst.
  destruct Ha as [<-|Ha], Hb as [<-|Hb].
  - reflexivity.
  - exfalso. apply Hnc. rewrite He. apply in_map. exact Hb.
  - exfalso. apply Hnc. rewrite <- He. apply in_map. exact Ha.
  - apply IH; assumption.
Qed.

Lemma dingress_eq_dec (a b : dingress) : {a = b} + {a <> b}.
Proof. decide equality; [repeat decide equality|apply ingress_eq_dec]. Defined.

(* ------------------------------------------------------------------ *)
(* sync_db                                                              *)
(* ------------------------------------------------------------------ *)
Definition skipdb (x : st) : bool :=
  match get_host (fst x) default_host with Some hr => has_path hr "/" Begin | None => false end.

Lemma skipdb_agree x1 x2 : agree default_host x1 x2 -> skipdb x1 = skipdb x2.
Proof. intros Ha. unfold skipdb. rewrite (get_host_agree default_host x1 x2 Ha). reflexivity. Qed.

Lemma sync_db_unfold w i svc port x :
  sync_db w i svc port x =
  if skipdb x then (fst x, track (snd x) (KIngress, i_full i) (KHost, default_host))
  else
    let '(x1, ob) := add_backend w i default_host (root_rule svc port) x in
    match ob with
    | None => (fst x1, track (snd x1) (KIngress, i_full i) (KService, i_ns i ++ "/" ++ svc))
    | Some bid =>
        let '(s2, T2) := add_host i default_host x1 in
        match get_host s2 default_host with
        | None => (s2, T2)
        | Some hr =>
            (upd s2 (THost default_host)
                 (CHost {| h_paths := h_paths hr ++ [{| hp_path := "/"; hp_type := Begin; hp_back := bid |}];
                           h_tls := h_tls hr |}), T2)
        end
    end.
Proof. reflexivity. Qed.

Lemma sync_db_sgrows w i svc port x : sgrows x (sync_db w i svc port x).
Proof.
  rewrite sync_db_unfold. destruct (skipdb x); [unfold sgrows; cbn [snd]; apply grows_track|].
  pose proof (add_backend_sgrows w i default_host (root_rule svc port) x) as G.
  destruct (add_backend w i default_host (root_rule svc port) x) as [x1 ob]. cbn [fst] in G.
  destruct ob as [bid|].
  - pose proof (add_host_sgrows i default_host x1) as G2.
    destruct (add_host i default_host x1) as [s2 T2].
    assert (G3 : sgrows x (s2, T2)) by (eapply sgrows_trans; eassumption).
    destruct (get_host s2 default_host); exact G3.
  - unfold sgrows. cbn [snd]. eapply grows_trans; [exact G|apply grows_track].
Qed.

Lemma sync_db_other w i svc port x h :
  h <> default_host -> fst (sync_db w i svc port x) (THost h) = fst x (THost h).
Proof.
  intros Hne. rewrite sync_db_unfold. destruct (skipdb x); [reflexivity|].
  pose proof (proj2 (add_backend_spec w i default_host (root_rule svc port) x) h) as Hh.
  destruct (add_backend w i default_host (root_rule svc port) x) as [x1 ob]. cbn [fst] in Hh.
  destruct ob as [bid|]; [|exact Hh].
  pose proof (add_host_other i default_host x1 h Hne) as Hh2.
  destruct (add_host i default_host x1) as [s2 T2]. cbn [fst] in Hh2.
  destruct (get_host s2 default_host); cbn [fst]; [rewrite upd_other by congruence|]; congruence.
Qed.

Lemma sync_db_svc_iff w i svc port x n h :
  In (hsvc n h) (snd (sync_db w i svc port x)) <->
  In (hsvc n h) (snd x) \/ (h = default_host /\ n = i_ns i ++ "/" ++ svc /\ skipdb x = false).
Proof.
  rewrite sync_db_unfold. destruct (skipdb x).
  - cbn [snd]. unfold track, hsvc. cbn [In]. split.
    + intros [H|[H|H]]; try discriminate. left. exact H.
    + intros [H|(_ & _ & H)]; [right; right; exact H|discriminate].
  - pose proof (add_backend_svc_iff w i default_host (root_rule svc port) x n h) as Hb.
    cbn [r_svc root_rule] in Hb.
    destruct (add_backend w i default_host (root_rule svc port) x) as [x1 ob]. cbn [fst] in Hb.
    assert (Hgoal : In (hsvc n h) (snd x1) <->
                    In (hsvc n h) (snd x) \/ (h = default_host /\ n = i_ns i ++ "/" ++ svc /\ false = false))
      by (rewrite Hb; tauto).
    destruct ob as [bid|].
    + pose proof (add_host_svc_iff i default_host x1 n h) as Ha.
      destruct (add_host i default_host x1) as [s2 T2]. cbn [snd] in Ha.
      destruct (get_host s2 default_host); cbn [snd]; rewrite Ha; exact Hgoal.
    + cbn [snd]. rewrite <- Hgoal. unfold track at 1, hsvc. cbn [In]. split.
      * intros [H|[H|H]]; try discriminate. exact H.
      * intros H. right. right. exact H.
Qed.

Lemma sync_db_agree3 w w' i svc port x1 x2 h :
  (h = default_host -> skipdb x1 = false ->
     resolve w i (root_rule svc port) = resolve w' i (root_rule svc port)) ->
  agree h x1 x2 -> agree h (sync_db w i svc port x1) (sync_db w' i svc port x2).
Proof.
  intros Hres Ha. unfold agree. destruct (String.eqb_spec h default_host) as [->|Hne];
    [|rewrite !sync_db_other by exact Hne; exact Ha].
  rewrite !sync_db_unfold, <- (skipdb_agree x1 x2 Ha).
  destruct (skipdb x1) eqn:Es; [exact Ha|].
  pose proof (Hres eq_refl eq_refl) as Hr.
  pose proof (add_backend_spec w i default_host (root_rule svc port) x1) as [Ho1 Hh1].
  pose proof (add_backend_spec w' i default_host (root_rule svc port) x2) as [Ho2 Hh2].
  destruct (add_backend w i default_host (root_rule svc port) x1) as [y1 ob1].
  destruct (add_backend w' i default_host (root_rule svc port) x2) as [y2 ob2].
  cbn [fst snd] in *. subst ob1 ob2. rewrite Hr.
  assert (Hay : agree default_host y1 y2) by (unfold agree; rewrite Hh1, Hh2; exact Ha).
  destruct (resolve w' i (root_rule svc port)) as [bid|]; [|exact Hay].
  pose proof (add_host_agree i default_host y1 y2 default_host Hay) as Hb. unfold agree in Hb.
  destruct (add_host i default_host y1) as [s2 T2]. destruct (add_host i default_host y2) as [s2' T2'].
  cbn [fst] in Hb.
  assert (Hg : get_host s2 default_host = get_host s2' default_host) by (unfold get_host; rewrite Hb; reflexivity).
  rewrite Hg. destruct (get_host s2' default_host); cbn [fst]; [|exact Hb].
  rewrite !upd_same. reflexivity.
Qed.

Lemma sync_db_sim w w' i svc port x1 x2 h (Tfin : ctracker) :
  R h x1 x2 -> incl (snd (sync_db w i svc port x1)) Tfin ->
  (h = default_host -> In (hsvc (i_ns i ++ "/" ++ svc) default_host) Tfin ->
     resolve w i (root_rule svc port) = resolve w' i (root_rule svc port)) ->
  R h (sync_db w i svc port x1) (sync_db w' i svc port x2).
Proof.
  intros [Ha Hl] Hincl Hres. split.
  - apply sync_db_agree3; [|exact Ha]. intros -> Hs. apply Hres; [reflexivity|].
    apply Hincl. apply sync_db_svc_iff. right. repeat split. exact Hs.
  - intros n Hn. apply sync_db_svc_iff in Hn. apply sync_db_svc_iff.
    destruct Hn as [Hn|(-> & -> & Hs)]; [left; apply Hl; exact Hn|].
    right. repeat split. rewrite (skipdb_agree x1 x2 Ha). exact Hs.
Qed.

(* the link the step always leaves between the ingress and the default host: direct (the
   path was taken, or skipped), or through the Service it could not resolve *)
Definition dlink (T : ctracker) (name : string) : Prop :=
  In ((KIngress, name), (KHost, default_host)) T \/
  exists n, In ((KIngress, name), (KService, n)) T /\ In ((KService, n), (KHost, default_host)) T.

Lemma dlink_mono T T' name : incl T T' -> dlink T name -> dlink T' name.
Proof. intros Hi [H|(n & H1 & H2)]; [left; auto|right; exists n; auto]. Qed.

Lemma sync_db_dlink w i svc port x : dlink (snd (sync_db w i svc port x)) (i_full i).
Proof.
  rewrite sync_db_unfold. destruct (skipdb x); [left; cbn [snd]; apply track_In|].
  pose proof (add_backend_link w i default_host (root_rule svc port) x) as Hl.
  destruct (add_backend w i default_host (root_rule svc port) x) as [x1 ob]. cbn [fst] in Hl.
  destruct ob as [bid|].
  - pose proof (add_host_snd i default_host x1) as Hs.
    destruct (add_host i default_host x1) as [s2 T2]. cbn [snd] in Hs.
    left. destruct (get_host s2 default_host); cbn [snd]; rewrite Hs; apply track_In.
  - right. exists (i_ns i ++ "/" ++ svc). cbn [snd]. split; [apply track_In|].
    right. right. exact Hl.
Qed.

(* backends *)
Lemma sync_db_J w i svc port x : J w x -> J w (sync_db w i svc port x).
Proof.
  intros HJ. rewrite sync_db_unfold. destruct (skipdb x); [apply J_track; exact HJ|].
  (* add_backend needs the Ingress - Host link only for the witness of a new backend; it
     is not there yet (addHost runs after), so go through the state with the link and
     observe that add_backend does not read the tracker *)
  set (xl := (fst x, track (snd x) (KIngress, i_full i) (KHost, default_host))).
  assert (HJl : J w xl) by (apply J_track; exact HJ).
  destruct (add_backend_J w i default_host (root_rule svc port) xl HJl (track_In _ _ _)) as [HJ1 Hacq].
  (* relate add_backend on x and on xl: same state, tracker of xl has one more pair *)
  destruct x as [s T]. unfold xl in *. cbn [fst snd] in *. clear xl.
  unfold add_backend in *.
  set (full := i_ns i ++ "/" ++ r_svc (root_rule svc port)) in *.
  destruct (find_svc w full) as [sv|] eqn:Es.
  2:{ cbn [fst snd] in *. apply (J_track w (s, _)).
      destruct HJ as [Hb Hp]. split.
      - intros bid br Hg. eapply back_wit_mono; [|apply Hb; exact Hg]. intros e He. do 4 right. exact He.
      - intros h hr p Hg Hin. destruct (Hp h hr p Hg Hin) as [H1 (i0 & H2 & H3)].
        split; [exact H1|]. exists i0. split; do 4 right; assumption. }
  destruct (pick_port sv (r_port (root_rule svc port))) as [p|] eqn:Ep.
  2:{ cbn [fst snd] in *. apply (J_track w (s, _)).
      destruct HJ as [Hb Hp]. split.
      - intros bid br Hg. eapply back_wit_mono; [|apply Hb; exact Hg]. intros e He. do 4 right. exact He.
      - intros h hr p Hg Hin. destruct (Hp h hr p Hg Hin) as [H1 (i0 & H2 & H3)].
        split; [exact H1|]. exists i0. split; do 4 right; assumption. }
  cbn [fst snd] in *.
  set (bid := backend_id (s_ns sv) (s_name sv) (sp_target p)) in *.
  set (s' := match get_back s bid with Some _ => s | None => upd s (TBack bid) (CBack {| b_servers := servers w sv p |}) end) in *.
  set (Tx := track (track (track T (KService, full) (KHost, default_host)) (KEndpoints, full) (KHost, default_host))
                   (KIngress, i_full i) (KBackend, bid)).
  set (Tl := track (track (track (track T (KIngress, i_full i) (KHost, default_host)) (KService, full) (KHost, default_host))
                          (KEndpoints, full) (KHost, default_host)) (KIngress, i_full i) (KBackend, bid)) in *.
  destruct (Hacq bid eq_refl) as [Hpres _].
  (* after add_host the tracker holds every pair of Tl *)
  pose proof (add_host_J w i default_host (s', Tl) HJ1) as HJ2.
  assert (Hincl : incl (snd (add_host i default_host (s', Tl))) (snd (add_host i default_host (s', Tx)))).
  { rewrite !add_host_snd. cbn [snd]. unfold Tl, Tx, track. intros e He. cbn [In] in *.
    repeat (destruct He as [He|He]; [subst e; auto 12|]). auto 14. }
  assert (HJ3 : J w (add_host i default_host (s', Tx))).
  { destruct HJ2 as [Hb2 Hp2]. split.
    - intros b0 br Hg. rewrite add_host_get_back in Hg. eapply back_wit_mono; [exact Hincl|].
      apply (Hb2 b0 br). rewrite add_host_get_back. exact Hg.
    - intros h hr p0 Hg Hin. rewrite add_host_get in Hg.
      assert (Hg2 : get_host (fst (add_host i default_host (s', Tl))) h = Some hr) by (rewrite add_host_get; exact Hg).
      destruct (Hp2 h hr p0 Hg2 Hin) as [H1 (i0 & H2 & H3)]. rewrite add_host_get_back in H1.
      split; [rewrite add_host_get_back; exact H1|]. exists i0. split; apply Hincl; assumption. }
  pose proof (add_host_get_back i default_host (s', Tx) bid) as Hgb. cbn [fst] in Hgb.
  pose proof (add_host_snd i default_host (s', Tx)) as Hsn. cbn [snd] in Hsn.
  destruct (add_host i default_host (s', Tx)) as [s2 T2]. cbn [fst snd] in *.
  destruct (get_host s2 default_host) as [hr|] eqn:E2; [|exact HJ3].
  destruct HJ3 as [Hb3 Hp3]. split.
  - intros b0 br Hg. cbn [fst snd] in *. rewrite get_back_upd_host in Hg. apply Hb3. exact Hg.
  - intros h hr' p0 Hg Hin. cbn [fst snd] in *. rewrite get_host_upd_host in Hg. rewrite get_back_upd_host.
    destruct (String.eqb_spec h default_host) as [->|Hne].
    + injection Hg as <-. cbn [h_paths] in Hin. apply in_app_or in Hin as [Hin|[<-|[]]].
      * apply (Hp3 default_host hr p0 E2 Hin).
      * cbn [hp_back]. split; [rewrite Hgb; exact Hpres|]. exists i. rewrite Hsn. split.
        -- right. right. unfold Tx. apply track_In.
        -- apply track_In.
    + apply (Hp3 h hr' p0 Hg Hin).
Qed.

(* ------------------------------------------------------------------ *)
(* sync_dingress                                                        *)
(* ------------------------------------------------------------------ *)
Lemma class_track_sgrows i x : sgrows x (class_track i x).
Proof. unfold class_track. destruct (i_class i); [unfold sgrows; cbn [snd]; apply grows_track|apply sgrows_refl]. Qed.

Lemma class_track_fst i x : fst (class_track i x) = fst x.
Proof. unfold class_track. destruct (i_class i); reflexivity. Qed.

Lemma class_track_svc_iff i x n h : In (hsvc n h) (snd (class_track i x)) <-> In (hsvc n h) (snd x).
Proof.
  unfold class_track. destruct (i_class i); [|reflexivity]. cbn [snd]. unfold track, hsvc. cbn [In]. split.
  - intros [H|[H|H]]; try discriminate. exact H.
  - intros H. right. right. exact H.
Qed.

Lemma class_track_R i x1 x2 h : R h x1 x2 -> R h (class_track i x1) (class_track i x2).
Proof.
  intros [Ha Hl]. split.
  - unfold agree. rewrite !class_track_fst. exact Ha.
  - intros n Hn. apply class_track_svc_iff in Hn. apply class_track_svc_iff. apply Hl. exact Hn.
Qed.

Lemma class_track_J w i x : J w x -> J w (class_track i x).
Proof. intros HJ. unfold class_track. destruct (i_class i); [apply J_track|]; exact HJ. Qed.

Lemma sync_dingress_sgrows w x d : sgrows x (sync_dingress w x d).
Proof.
  unfold sync_dingress. eapply sgrows_trans; [|apply sync_ingress_sgrows].
  destruct (d_db d) as [[svc port]|]; [|apply sgrows_refl].
  eapply sgrows_trans; [apply class_track_sgrows|apply sync_db_sgrows].
Qed.

Lemma sync_dingress_frame w x d h :
  ddeclares d h = false -> fst (sync_dingress w x d) (THost h) = fst x (THost h).
Proof.
  intros Hd. unfold sync_dingress. rewrite (sync_ingress_frame w (d_ing d) _ h (ddeclares_false_declares d h Hd)).
  destruct (d_db d) as [[svc port]|] eqn:E; [|reflexivity].
  rewrite sync_db_other, class_track_fst; [reflexivity|].
  intros ->. assert (Hc : ddeclares d default_host = true).
  { apply ddeclares_In. unfold ddecl. rewrite E. left. reflexivity. }
  congruence.
Qed.

Lemma sync_dingress_new_svc w x d n h :
  In (hsvc n h) (snd (sync_dingress w x d)) -> In (hsvc n h) (snd x) \/ In h (ddecl d).
Proof.
  unfold sync_dingress. intros H. apply sync_ingress_new_svc in H as [H|H]; [|right; apply ddecl_declared; exact H].
  destruct (d_db d) as [[svc port]|] eqn:E; [|left; exact H].
  apply sync_db_svc_iff in H as [H|(-> & _ & _)].
  - left. apply class_track_svc_iff in H. exact H.
  - right. unfold ddecl. rewrite E. left. reflexivity.
Qed.

Definition res_ok_d (w w' : world) (h : string) (Tfin : ctracker) (d : dingress) : Prop :=
  res_ok w w' h Tfin (d_ing d) /\
  (forall svc port, d_db d = Some (svc, port) -> h = default_host ->
     In (hsvc (i_ns (d_ing d) ++ "/" ++ svc) default_host) Tfin ->
     resolve w (d_ing d) (root_rule svc port) = resolve w' (d_ing d) (root_rule svc port)).

Lemma res_ok_d_same w h Tfin d : res_ok_d w w h Tfin d.
Proof. split; [apply res_ok_same|reflexivity]. Qed.

Theorem sync_dingress_sim w w' d x1 x2 h (Tfin : ctracker) :
  R h x1 x2 -> incl (snd (sync_dingress w x1 d)) Tfin -> res_ok_d w w' h Tfin d ->
  R h (sync_dingress w x1 d) (sync_dingress w' x2 d).
Proof.
  intros HR Hincl [Hres Hdb]. unfold sync_dingress in *.
  apply (sync_ingress_sim w w' (d_ing d) _ _ h Tfin); [|exact Hincl|exact Hres].
  destruct (d_db d) as [[svc port]|]; [|exact HR].
  apply (sync_db_sim w w' (d_ing d) svc port _ _ h Tfin).
  - apply class_track_R. exact HR.
  - eapply incl_tran; [|exact Hincl]. apply (proj1 (sync_ingress_sgrows w _ (d_ing d))).
  - intros Eh. apply (Hdb svc port eq_refl Eh).
Qed.

Lemma sync_dingress_sim_same w d x1 x2 h : R h x1 x2 -> R h (sync_dingress w x1 d) (sync_dingress w x2 d).
Proof.
  intros HR. apply (sync_dingress_sim w w d x1 x2 h (snd (sync_dingress w x1 d)) HR (incl_refl _)).
  apply res_ok_d_same.
Qed.

Theorem fold_dsync_sim w w' l h (Tfin : ctracker) :
  (forall d, In d l -> res_ok_d w w' h Tfin d) ->
  forall x1 x2, R h x1 x2 -> incl (snd (fold_left (sync_dingress w) l x1)) Tfin ->
    R h (fold_left (sync_dingress w) l x1) (fold_left (sync_dingress w') l x2).
Proof.
  intros Hok. apply (fold_sim (sync_dingress w) (sync_dingress w') l h Tfin).
  - intros; apply sync_dingress_sgrows.
  - intros d y1 y2 Hd HRy Hincl. apply (sync_dingress_sim w w' d y1 y2 h Tfin HRy Hincl). apply Hok. exact Hd.
Qed.

Lemma fold_dsync_sgrows w l x : sgrows x (fold_left (sync_dingress w) l x).
Proof. apply (fold_rel sgrows (sync_dingress w) l sgrows_refl sgrows_trans). intros; apply sync_dingress_sgrows. Qed.

Lemma fold_dfilter_R_l w l h : forall x1 x2, R h x1 x2 ->
  R h (fold_left (sync_dingress w) l x1)
      (fold_left (sync_dingress w) (filter (fun d => ddeclares d h) l) x2).
Proof.
  induction l as [|d l IH]; intros x1 x2 HR; cbn [fold_left filter]; [exact HR|].
  destruct (ddeclares d h) eqn:E; cbn [fold_left].
  - apply IH. apply sync_dingress_sim_same. exact HR.
  - apply IH. destruct HR as [Ha Hl]. split.
    + unfold agree. rewrite (sync_dingress_frame w x1 d h E). exact Ha.
    + intros n Hn. apply (proj1 (sync_dingress_sgrows w x1 d)). apply Hl. exact Hn.
Qed.

Lemma fold_dfilter_R_r w l h : forall x1 x2, R h x1 x2 ->
  R h (fold_left (sync_dingress w) (filter (fun d => ddeclares d h) l) x1)
      (fold_left (sync_dingress w) l x2).
Proof.
  induction l as [|d l IH]; intros x1 x2 HR; cbn [fold_left filter]; [exact HR|].
  destruct (ddeclares d h) eqn:E; cbn [fold_left].
  - apply IH. apply sync_dingress_sim_same. exact HR.
  - apply IH. destruct HR as [Ha Hl]. split.
    + unfold agree. rewrite (sync_dingress_frame w x2 d h E). exact Ha.
    + intros n Hn. apply sync_dingress_new_svc in Hn. destruct Hn as [Hn|Hn]; [apply Hl; exact Hn|].
      apply ddeclares_In in Hn. congruence.
Qed.

Lemma fold_dsync_frame w l x h :
  (forall d, In d l -> ddeclares d h = false) ->
  fst (fold_left (sync_dingress w) l x) (THost h) = fst x (THost h).
Proof.
  revert x. induction l as [|d l IH]; intros x H; cbn [fold_left]; [reflexivity|].
  rewrite IH by (intros; apply H; right; assumption).
  apply sync_dingress_frame. apply H. left. reflexivity.
Qed.

(* links *)
Lemma sync_dingress_link w x d h : In h (declared (d_ing d)) ->
  In ((KIngress, dname d), (KHost, h)) (snd (sync_dingress w x d)).
Proof. intros Hh. unfold sync_dingress. apply sync_ingress_link. exact Hh. Qed.

Lemma sync_dingress_dlink w x d : d_db d <> None -> dlink (snd (sync_dingress w x d)) (dname d).
Proof.
  intros Hdb. unfold sync_dingress. destruct (d_db d) as [[svc port]|]; [|contradiction].
  eapply dlink_mono; [apply (proj1 (sync_ingress_sgrows w _ (d_ing d)))|]. apply sync_db_dlink.
Qed.

Lemma fold_dsync_at w l d x : In d l ->
  exists y, sgrows (sync_dingress w y d) (fold_left (sync_dingress w) l x).
Proof.
  intros Hd. apply (fold_rel_at sgrows (sync_dingress w) l d sgrows_refl sgrows_trans
                      (fun y a _ => sync_dingress_sgrows w y a) Hd x).
Qed.

Lemma fold_dsync_link w l x d h : In d l -> In h (declared (d_ing d)) ->
  In ((KIngress, dname d), (KHost, h)) (snd (fold_left (sync_dingress w) l x)).
Proof.
  intros Hd Hh. destruct (fold_dsync_at w l d x Hd) as [y G]. apply (proj1 G). apply sync_dingress_link. exact Hh.
Qed.

Lemma fold_dsync_dlink w l x d : In d l -> d_db d <> None ->
  dlink (snd (fold_left (sync_dingress w) l x)) (dname d).
Proof.
  intros Hd Hdb. destruct (fold_dsync_at w l d x Hd) as [y G].
  eapply dlink_mono; [exact (proj1 G)|]. apply sync_dingress_dlink. exact Hdb.
Qed.

Lemma fold_dsync_sec w l x d blk : In d l -> In blk (i_tls (d_ing d)) -> fst blk <> [] -> snd blk <> "" ->
  In (sec_link (d_ing d) (snd blk)) (snd (fold_left (sync_dingress w) l x)).
Proof.
  intros Hd Hb Hh Hs. destruct (fold_dsync_at w l d x Hd) as [y G]. apply (proj1 G).
  unfold sync_dingress. apply sync_ingress_sec; assumption.
Qed.

Lemma sync_dingress_J w x d : J w x -> J w (sync_dingress w x d).
Proof.
  intros HJ. unfold sync_dingress. apply sync_ingress_J.
  destruct (d_db d) as [[svc port]|]; [|exact HJ]. apply sync_db_J. apply class_track_J. exact HJ.
Qed.

Lemma fold_dsync_J w l x : J w x -> J w (fold_left (sync_dingress w) l x).
Proof. apply fold_pres. intros; apply sync_dingress_J; assumption. Qed.
