(* C04, theorem B: the layout produced by the model of rebuildMatchFiles is accepted by
   the checker `layout_ok`, for every rule set within the guard, every visiting order of
   the hosts, every permitted path-type order and every arrangement the sorts may yield. *)
From Coq Require Import Ascii String.
From Coq Require Import List Bool Arith NArith Lia Permutation.
From HI Require Import Model.HAMatch Model.Maps Proofs.HAMatch.
Import ListNotations.

(* ------------------------------------------------------------------ small list facts *)

Lemma in_split_mid : forall (A : Type) (x : A) l, In x l -> exists l1 l2, l = l1 ++ x :: l2.
Proof. intros. now apply in_split. Qed.

Lemma mtype_eqb_eq : forall a b, mtype_eqb a b = true <-> a = b.
Proof. intros [] []; cbn; split; congruence. Qed.

Lemma mtype_dec : forall a b : mtype, a = b \/ a <> b.
Proof. intros [] []; (now left) || (right; congruence). Qed.

Lemma mtype_eqb_refl : forall a, mtype_eqb a a = true.
Proof. intros []; reflexivity. Qed.

Lemma mtype_eqb_neq : forall a b, mtype_eqb a b = false <-> a <> b.
Proof. intros [] []; cbn; split; congruence. Qed.

(* ------------------------------------------------------------------ growth of the priority list *)

Definition ftype (files : list pfile) (k : nat) : mtype := fst (nth k files (Regex, [])).
Definition fents (files : list pfile) (k : nat) : list entry := snd (nth k files (Regex, [])).

(* files' extends files: same types at the old indices, entries only added *)
Definition grows (files files' : list pfile) : Prop :=
  length files <= length files' /\
  forall k, k < length files -> ftype files' k = ftype files k /\
                               forall e, In e (fents files k) -> In e (fents files' k).

Lemma nth_fents : forall (files : list pfile) k f, nth k files (Regex, []) = f ->
  fents files k = snd f /\ ftype files k = fst f.
Proof. intros files k f <-. split; reflexivity. Qed.

Lemma grows_refl : forall f, grows f f.
Proof. intro f. split; auto. Qed.

Lemma grows_trans : forall a b c, grows a b -> grows b c -> grows a c.
Proof.
  intros a b c [L1 G1] [L2 G2]. split; [lia|]. intros k Hk.
  destruct (G1 k Hk) as [T1 E1]. destruct (G2 k ltac:(lia)) as [T2 E2]. split; [congruence|auto].
Qed.

Lemma grows_app : forall f x, grows f (f ++ [x]).
Proof.
  intros f x. split; [rewrite app_length; lia|]. intros k Hk. unfold ftype, fents.
  rewrite app_nth1 by auto. auto.
Qed.

Lemma add_at_length : forall i e files, length (add_at i e files) = length files.
Proof. intros i e files. revert i. induction files as [|f fs IH]; intros [|i]; cbn; auto. Qed.

Lemma add_at_spec : forall i e files, i < length files ->
  ftype (add_at i e files) i = ftype files i /\
  fents (add_at i e files) i = fents files i ++ [e] /\
  forall k, k <> i -> nth k (add_at i e files) (Regex, []) = nth k files (Regex, []).
Proof.
  intros i e files. revert i. induction files as [|f fs IH]; intros i Hi; cbn in Hi; [lia|].
  destruct i as [|i]; cbn [add_at].
  - unfold ftype, fents. cbn. repeat split; auto. intros [|k] Hk; [congruence|reflexivity].
  - destruct (IH i ltac:(lia)) as [T [E O]]. unfold ftype, fents in *. cbn [nth]. repeat split; auto.
    intros [|k] Hk; cbn [nth]; auto.
Qed.

Lemma grows_add_at : forall i e files, i < length files -> grows files (add_at i e files).
Proof.
  intros i e files Hi. destruct (add_at_spec i e files Hi) as [T [E O]].
  split; [rewrite add_at_length; lia|]. intros k Hk. destruct (Nat.eq_dec k i) as [->|N].
  - split; auto. intros x I. rewrite E. apply in_or_app. now left.
  - unfold ftype, fents. rewrite (O k N). auto.
Qed.

(* find_file: the first index at or after `from` with the wanted type *)
Lemma find_file_some : forall t files i from j, find_file t files i from = Some j ->
  i <= j /\ from <= j /\ j - i < length files /\ fst (nth (j - i) files (Regex, [])) = t /\
  forall k, i <= k -> from <= k -> k < j -> fst (nth (k - i) files (Regex, [])) <> t.
Proof.
  intros t files. induction files as [|f fs IH]; intros i from j H; cbn in H; [discriminate|].
  destruct ((from <=? i) && mtype_eqb (fst f) t) eqn:E.
  - inversion H; subst. apply andb_true_iff in E as [E1 E2]. apply Nat.leb_le in E1. apply mtype_eqb_eq in E2.
    rewrite Nat.sub_diag. cbn. repeat split; auto; try lia.
  - apply IH in H as [H1 [H2 [H3 [H4 H5]]]].
    replace (j - i) with (S (j - S i)) by lia. cbn [nth length]. repeat split; auto; try lia.
    intros k K1 K2 K3. destruct (Nat.eq_dec k i) as [->|N].
    + rewrite Nat.sub_diag. cbn. intro F. apply andb_false_iff in E as [E|E].
      * apply Nat.leb_gt in E. lia.
      * apply mtype_eqb_neq in E. contradiction.
    + replace (k - i) with (S (k - S i)) by lia. cbn [nth]. apply H5; lia.
Qed.

Lemma find_file_none : forall t files i from, find_file t files i from = None ->
  forall k, i <= k -> from <= k -> k - i < length files -> fst (nth (k - i) files (Regex, [])) <> t.
Proof.
  intros t files. induction files as [|f fs IH]; intros i from H k K1 K2 K3; cbn in K3; [lia|].
  cbn in H. destruct ((from <=? i) && mtype_eqb (fst f) t) eqn:E; [discriminate|].
  destruct (Nat.eq_dec k i) as [->|N].
  - rewrite Nat.sub_diag. cbn. intro F. apply andb_false_iff in E as [E|E].
    + apply Nat.leb_gt in E. lia.
    + apply mtype_eqb_neq in E. contradiction.
  - replace (k - i) with (S (k - S i)) by lia. cbn [nth]. eapply IH; eauto; lia.
Qed.

Definition upn (u : option nat) : nat := match u with Some j => j | None => 0 end.

(* place: where the entry lands *)
Lemma place_spec : forall files u e, upn u <= length files ->
  let r := place files u e in
  grows files (fst r) /\
  snd r < length (fst r) /\ ftype (fst r) (snd r) = etype e /\ In e (fents (fst r) (snd r)) /\
  upn u <= snd r /\
  (forall k, upn u <= k -> k < snd r -> ftype (fst r) k <> etype e) /\
  (forall k x, In x (fents (fst r) k) -> In x (fents files k) \/ (k = snd r /\ x = e)).
Proof.
  intros files u e Hu. cbv zeta. unfold place. fold (upn u).
  destruct (find_file (etype e) files 0 (upn u)) as [j|] eqn:F; cbn [fst snd].
  - apply find_file_some in F as [_ [F2 [F3 [F4 F5]]]]. rewrite Nat.sub_0_r in F3, F4.
    destruct (add_at_spec j e files F3) as [T [E O]].
    split; [now apply grows_add_at|]. split; [now rewrite add_at_length|].
    split; [rewrite T; exact F4|]. split; [rewrite E; apply in_or_app; right; now left|].
    split; auto. split.
    + intros k K1 K2. unfold ftype. rewrite O by lia. specialize (F5 k ltac:(lia) K1 K2).
      now rewrite Nat.sub_0_r in F5.
    + intros k x I. destruct (Nat.eq_dec k j) as [->|N].
      * rewrite E in I. apply in_app_or in I as [I|[<-|[]]]; auto.
      * unfold fents in *. rewrite O in I by auto. auto.
  - split; [apply grows_app|]. rewrite app_length. cbn [length].
    split; [lia|]. unfold ftype, fents. rewrite app_nth2, Nat.sub_diag by lia. cbn [nth fst snd].
    split; auto. split; [now left|]. split; auto. split.
    + intros k K1 K2. rewrite app_nth1 by auto.
      pose proof (find_file_none _ _ _ _ F k ltac:(lia) K1) as G. rewrite Nat.sub_0_r in G. now apply G.
    + intros k x I. destruct (lt_dec k (length files)) as [L|L].
      * rewrite app_nth1 in I by auto. auto.
      * destruct (Nat.eq_dec k (length files)) as [->|N].
        -- rewrite app_nth2, Nat.sub_diag in I by lia. cbn in I. destruct I as [<-|[]]. auto.
        -- rewrite nth_overflow in I by (rewrite app_length; cbn; lia). destruct I.
Qed.

(* ------------------------------------------------------------------ the _upper mark *)

Lemma upn_step : forall u i,
  upn (match u with None => Some i | Some j => if j <? i then Some i else Some j end) = Nat.max (upn u) i.
Proof.
  intros [j|] i; cbn [upn]; [|lia].
  destruct (j <? i) eqn:L; cbn [upn]; [apply Nat.ltb_lt in L | apply Nat.ltb_ge in L]; lia.
Qed.

Lemma upper_of_cons : forall z k earlier b,
  upn (upper_of ((z, k) :: earlier) b) =
  if overlaps z b then Nat.max (upn (upper_of earlier b)) k else upn (upper_of earlier b).
Proof. intros. cbn [upper_of]. destruct (overlaps z b); auto. apply upn_step. Qed.

Lemma upper_of_ge : forall placed b a i, In (a, i) placed -> overlaps a b = true ->
  i <= upn (upper_of placed b).
Proof.
  induction placed as [|[z k] earlier IH]; intros b a i I O; [destruct I|].
  rewrite upper_of_cons. destruct I as [E|I].
  - inversion E; subst. rewrite O. lia.
  - specialize (IH b a i I O). destruct (overlaps z b); lia.
Qed.

Lemma upper_of_witness : forall placed b, upn (upper_of placed b) = 0 \/
  exists a i, In (a, i) placed /\ overlaps a b = true /\ upn (upper_of placed b) = i.
Proof.
  induction placed as [|[z k] earlier IH]; intros b; [now left|].
  rewrite upper_of_cons. destruct (overlaps z b) eqn:O.
  - destruct (Nat.max_spec (upn (upper_of earlier b)) k) as [[L ->]|[L ->]].
    + right. exists z, k. cbn. auto.
    + destruct (IH b) as [Z|[a [i [I [Oa E]]]]]; [now left|]. right. exists a, i. cbn. auto.
  - destruct (IH b) as [Z|[a [i [I [Oa E]]]]]; [now left|]. right. exists a, i. cbn. auto.
Qed.

(* a mark computed from more overlapping entries is not smaller *)
Lemma upper_of_mono : forall P Q a b,
  (forall z k, In (z, k) P -> In (z, k) Q) ->
  (forall z, overlaps z a = true -> overlaps z b = true) ->
  upn (upper_of P a) <= upn (upper_of Q b).
Proof.
  intros P Q a b Sub Ov. destruct (upper_of_witness P a) as [Z|[z [k [I [O E]]]]]; [lia|].
  rewrite E. eapply upper_of_ge; eauto.
Qed.

(* ------------------------------------------------------------------ one host: proc_host *)

(* what holds of an entry b moved to file j when the entries in `earlier` had been moved *)
Definition rec_ok (files : list pfile) (earlier : list (entry * nat)) (b : entry) (j : nat) : Prop :=
  j < length files /\ ftype files j = etype b /\ In b (fents files j) /\
  upn (upper_of earlier b) <= j /\
  forall k, upn (upper_of earlier b) <= k -> k < j -> ftype files k <> etype b.

Fixpoint recs_ok (files : list pfile) (placed : list (entry * nat)) : Prop :=
  match placed with
  | [] => True
  | (b, j) :: earlier => rec_ok files earlier b j /\ recs_ok files earlier
  end.

Lemma rec_ok_grows : forall files files' earlier b j, grows files files' ->
  rec_ok files earlier b j -> rec_ok files' earlier b j.
Proof.
  intros files files' earlier b j [L G] [H1 [H2 [H3 [H4 H5]]]].
  destruct (G j H1) as [T E]. repeat split; auto; try lia; try congruence.
  intros k K1 K2. destruct (G k ltac:(lia)) as [Tk _]. rewrite Tk. auto.
Qed.

Lemma recs_ok_grows : forall files files' placed, grows files files' ->
  recs_ok files placed -> recs_ok files' placed.
Proof.
  intros files files' placed G. induction placed as [|[b j] earlier IH]; cbn; auto.
  intros [H1 H2]. split; auto. eapply rec_ok_grows; eauto.
Qed.

Lemma recs_ok_split : forall files N1 b j N2, recs_ok files (N1 ++ (b, j) :: N2) -> rec_ok files N2 b j.
Proof. induction N1 as [|[a i] N1 IH]; intros b j N2 H; cbn in H; destruct H; eauto. Qed.

Lemma recs_ok_index : forall files placed a i, recs_ok files placed -> In (a, i) placed -> i < length files.
Proof.
  intros files placed a i R I. apply in_split in I as [N1 [N2 ->]]. apply recs_ok_split in R. apply R.
Qed.

Lemma upper_in_range : forall files placed e, recs_ok files placed ->
  upn (upper_of placed e) <= length files.
Proof.
  intros files placed e R. destruct (upper_of_witness placed e) as [Z|[a [i [I [_ ->]]]]]; [lia|].
  pose proof (recs_ok_index _ _ _ _ R I). lia.
Qed.

(* records in the order they were made: R a b for every a recorded before b *)
Fixpoint chron (R : entry -> entry -> Prop) (placed : list (entry * nat)) : Prop :=
  match placed with
  | [] => True
  | (b, j) :: earlier => (forall a i, In (a, i) earlier -> R a b) /\ chron R earlier
  end.

Lemma chron_split : forall R N1 b j N2, chron R (N1 ++ (b, j) :: N2) ->
  forall a i, In (a, i) N2 -> R a b.
Proof. induction N1 as [|[c k] N1 IH]; intros b j N2 H; cbn in H; destruct H; eauto. Qed.

Lemma chron_app_last : forall R N e i, chron R N -> (forall b j, In (b, j) N -> R e b) ->
  chron R (N ++ [(e, i)]).
Proof.
  induction N as [|[b j] N IH]; intros e i C H; cbn; auto.
  - split; auto. intros a k [].
  - destruct C as [C1 C2]. split.
    + intros a k I. apply in_app_or in I as [I|[I|[]]]; eauto. inversion I; subst. apply (H b j). now left.
    + apply IH; auto. intros b' j' I. apply (H b' j'). now right.
Qed.

Lemma sorted_by_cons : forall (A : Type) (less : A -> A -> bool) x l, sorted_by less (x :: l) ->
  (forall y, In y l -> less y x = false) /\ sorted_by less l.
Proof.
  intros A less x l S. split.
  - intros y I. apply (S [] x l eq_refl y I).
  - intros l1 z l2 E y I. apply (S (x :: l1) z l2); auto. now rewrite E.
Qed.

Lemma proc_host_spec : forall less l files placed,
  sorted_by less l -> recs_ok files placed ->
  exists newer,
    snd (proc_host files placed l) = newer ++ placed /\
    grows files (fst (proc_host files placed l)) /\
    recs_ok (fst (proc_host files placed l)) (newer ++ placed) /\
    chron (fun a b => less b a = false) newer /\
    (forall k x, In x (fents (fst (proc_host files placed l)) k) -> In x (fents files k) \/ In (x, k) newer) /\
    (forall x k, In (x, k) newer -> exists l1 l2, l = l1 ++ x :: l2 /\ existsb (overlaps x) l2 = true) /\
    (forall l1 x l2, l = l1 ++ x :: l2 -> existsb (overlaps x) l2 = true -> exists k, In (x, k) newer).
Proof.
  intros less. induction l as [|e rest IH]; intros files placed S R.
  - exists []. cbn [proc_host fst snd app chron].
    split; auto. split; [apply grows_refl|]. split; auto. split; auto. split; auto. split.
    + intros x k [].
    + intros l1 x l2 E. destruct l1; discriminate.
  - apply sorted_by_cons in S as [S1 S2]. cbn [proc_host].
    destruct (existsb (overlaps e) rest) eqn:X.
    + pose proof (place_spec files (upper_of placed e) e (upper_in_range _ _ _ R)) as PS. cbv zeta in PS.
      set (fi := place files (upper_of placed e) e) in *.
      destruct PS as [G [P1 [P2 [P3 [P4 [P5 P6]]]]]].
      assert (R' : recs_ok (fst fi) ((e, snd fi) :: placed)).
      { cbn. split; [|eapply recs_ok_grows; eauto]. repeat split; auto. }
      destruct (IH (fst fi) ((e, snd fi) :: placed) S2 R') as [newer [E [G' [R'' [C [M1 [M2 M3]]]]]]].
      exists (newer ++ [(e, snd fi)]). rewrite <- app_assoc. cbn [app].
      split; auto. split; [eapply grows_trans; eauto|]. split; auto. split.
      * apply chron_app_last; auto. intros b j I. apply M2 in I as [l1 [l2 [-> _]]].
        apply S1. apply in_or_app. right. now left.
      * split; [|split].
        -- intros k x I. apply M1 in I as [I|I].
           ++ apply P6 in I as [I|[-> ->]]; auto. right. apply in_or_app. right. now left.
           ++ right. apply in_or_app. now left.
        -- intros x k I. apply in_app_or in I as [I|[I|[]]].
           ++ apply M2 in I as [l1 [l2 [-> O]]]. exists (e :: l1), l2. auto.
           ++ inversion I; subst. exists [], rest. auto.
        -- intros l1 x l2 El O. destruct l1 as [|y l1]; cbn in El; inversion El; subst.
           ++ exists (snd fi). apply in_or_app. right. now left.
           ++ destruct (M3 l1 x l2 eq_refl O) as [k I]. exists k. apply in_or_app. now left.
    + destruct (IH files placed S2 R) as [newer [E [G' [R'' [C [M1 [M2 M3]]]]]]].
      exists newer. split; auto. split; auto. split; auto. split; auto. split; auto. split.
      * intros x k I. apply M2 in I as [l1 [l2 [-> O]]]. exists (e :: l1), l2. auto.
      * intros l1 x l2 El O. destruct l1 as [|y l1]; cbn in El; inversion El; subst.
        -- congruence.
        -- eauto.
Qed.

(* ------------------------------------------------------------------ all hosts *)

Fixpoint runs (files : list pfile) (hls : list (list entry))
  : list pfile * list (list entry * list (entry * nat)) :=
  match hls with
  | [] => (files, [])
  | l :: rest =>
      let r := proc_host files [] l in
      let rr := runs (fst r) rest in
      (fst rr, (l, snd r) :: snd rr)
  end.

Definition moved_of (rs : list (list entry * list (entry * nat))) : list entry :=
  flat_map (fun lp => map fst (snd lp)) rs.

Lemma proc_hosts_runs : forall hls files moved,
  proc_hosts files moved hls = (fst (runs files hls), moved ++ moved_of (snd (runs files hls))).
Proof.
  induction hls as [|l rest IH]; intros files moved; cbn [proc_hosts runs fst snd moved_of flat_map].
  - now rewrite app_nil_r.
  - rewrite IH. f_equal. now rewrite <- app_assoc.
Qed.

(* what is known of the run of one host list, with respect to the final priority files *)
Definition run_ok (less : entry -> entry -> bool) (F : list pfile) (l : list entry) (P : list (entry * nat)) : Prop :=
  recs_ok F P /\ chron (fun a b => less b a = false) P /\
  (forall x k, In (x, k) P -> exists l1 l2, l = l1 ++ x :: l2 /\ existsb (overlaps x) l2 = true) /\
  (forall l1 x l2, l = l1 ++ x :: l2 -> existsb (overlaps x) l2 = true -> exists k, In (x, k) P).

Lemma runs_spec : forall less hls files,
  (forall l, In l hls -> sorted_by less l) ->
  grows files (fst (runs files hls)) /\
  map fst (snd (runs files hls)) = hls /\
  (forall l P, In (l, P) (snd (runs files hls)) -> run_ok less (fst (runs files hls)) l P) /\
  (forall k x, In x (fents (fst (runs files hls)) k) ->
     In x (fents files k) \/ exists l P, In (l, P) (snd (runs files hls)) /\ In (x, k) P).
Proof.
  intros less. induction hls as [|l rest IH]; intros files S; cbn [runs fst snd map].
  - split; [apply grows_refl|]. split; auto. split; [intros l P []|auto].
  - destruct (proc_host_spec less l files [] (S l (or_introl eq_refl)) I) as [newer [E [G [R [C [M1 [M2 M3]]]]]]].
    rewrite app_nil_r in *.
    destruct (IH (fst (proc_host files [] l)) (fun l' I' => S l' (or_intror I'))) as [G' [Mp [RO Src]]].
    split; [eapply grows_trans; eauto|]. split; [now rewrite Mp|]. split.
    + intros l' P [Eq|I'].
      * injection Eq as <- <-. rewrite E. split; [eapply recs_ok_grows; eauto|]. split; auto.
      * auto.
    + intros k x I'. apply Src in I' as [I'|[l' [P [I1 I2]]]].
      * apply M1 in I' as [I'|I']; auto. right. exists l, newer. split; auto. left. now rewrite E.
      * right. exists l', P. split; auto. now right.
Qed.

(* ------------------------------------------------------------------ entries within the guard *)

Definition fe (e : entry) : fentry := (meth_of (etype e), ekey e, evalue e).

Definition wf_entry (e : entry) : Prop :=
  host_chars_ok (ehost e) = true /\ lower (ehost e) = ehost e /\
  path_chars_ok (epath e) = true /\ etype e <> Regex /\
  ekey e = ehost e ++ c_hash :: epath e /\
  (etype e = Begin -> lower (epath e) = epath e) /\
  (etype e = Prefix -> epath e = strip_slash (epath e) \/ epath e = strip_slash (epath e) ++ [c_slash]).

Lemma drop_slashes_split : forall s, exists t, s = t ++ drop_slashes s /\ forall c, In c t -> c = c_slash.
Proof.
  induction s as [|c s [t [E H]]]; cbn [drop_slashes].
  - exists []. split; auto. intros c [].
  - destruct (Ascii.eqb c c_slash) eqn:Ec.
    + apply Ascii.eqb_eq in Ec. subst c. exists (c_slash :: t). split; [cbn; congruence|].
      intros c [<-|I]; auto.
    + exists []. split; auto. intros c' [].
Qed.

Lemma strip_slash_split : forall p, exists t, p = strip_slash p ++ t /\ forall c, In c t -> c = c_slash.
Proof.
  intro p. unfold strip_slash. destruct (drop_slashes_split (rev p)) as [t [E H]].
  exists (rev t). split.
  - rewrite <- rev_app_distr, <- E. now rewrite rev_involutive.
  - intros c I. apply in_rev in I. auto.
Qed.

Lemma strip_slash_cases : forall p, one_trailing_slash p = true ->
  p = strip_slash p \/ p = strip_slash p ++ [c_slash].
Proof.
  intros p H. unfold one_trailing_slash in H. apply Nat.leb_le in H.
  destruct (strip_slash_split p) as [t [E Ht]].
  destruct t as [|c [|d t]].
  - left. now rewrite app_nil_r in E.
  - right. rewrite (Ht c (or_introl eq_refl)) in E. exact E.
  - exfalso. rewrite E in H at 1. rewrite app_length in H. cbn in H. lia.
Qed.

Lemma nonempty_lower : forall s, nonempty (lower s) = nonempty s.
Proof. destruct s; reflexivity. Qed.

Lemma path_chars_ok_lower : forall p, path_chars_ok (lower p) = path_chars_ok p.
Proof. intro p. unfold path_chars_ok. now rewrite no_hash_lower, no_quest_lower. Qed.

Lemma wf_add : forall f, wf_fed f = true -> wf_entry (add f) /\ fe (add f) = rule_entry (rule_of f) /\
  wf_ruleb (rule_of f) = true.
Proof.
  intros f H. unfold wf_fed in H. apply andb_true_iff in H as [H _]. apply andb_true_iff in H as [H _].
  apply andb_true_iff in H as [H _]. apply andb_true_iff in H as [W T]. pose proof W as W0.
  unfold wf_ruleb in W. cbn [rule_of rhost rpath rtype] in W.
  apply andb_true_iff in W as [W W5]. apply andb_true_iff in W as [W W4].
  apply andb_true_iff in W as [W W3]. apply andb_true_iff in W as [W1 W2].
  assert (K : ekey (add f) = ehost (add f) ++ c_hash :: epath (add f)).
  { unfold add, add_target. cbn [ekey ehost epath]. unfold build_map_key.
    rewrite nonempty_lower, W1. destruct (ftyp f); rewrite ?nonempty_lower, W3; reflexivity. }
  split; [|split; auto].
  - unfold wf_entry. rewrite K. unfold add, add_target. cbn [ehost epath etype].
    split; [now rewrite host_chars_ok_lower|]. split; [apply lower_idem|].
    split; [destruct (ftyp f); rewrite ?path_chars_ok_lower; auto|].
    split; [intro E; rewrite E in W5; discriminate|]. split; auto.
    split; [intro E; rewrite E; apply lower_idem|].
    intro E. rewrite E in *. cbn in T. now apply strip_slash_cases.
  - unfold fe, rule_entry. rewrite K. unfold add, add_target, key_of, rule_of.
    cbn [ehost epath etype evalue rhost rpath rtype rtarget]. reflexivity.
Qed.

Lemma dir_prefix_inv : forall p q, dir_prefix p q = true -> exists rest, q = p ++ rest /\ ends_ok rest = true.
Proof. intros p q H. apply (dirm_inv p q H). Qed.

Lemma dir_prefix_key : forall h1 h2 q1 q2, no_char c_hash h1 = true -> no_char c_hash h2 = true ->
  dir_prefix (h1 ++ c_hash :: q1) (h2 ++ c_hash :: q2) = true ->
  h1 = h2 /\ exists rest, q2 = q1 ++ rest /\ ends_ok rest = true.
Proof.
  intros h1 h2 q1 q2 N1 N2 H. apply dir_prefix_inv in H as [rest [E K]].
  rewrite <- app_assoc in E. cbn [app] in E. apply hash_eq in E as [E1 E2]; auto. split; eauto.
Qed.

Lemma dir_pat_entry : forall e, wf_entry e ->
  dir_pat (ekey e) = ehost e ++ c_hash :: strip_slash (epath e).
Proof.
  intros e [H [_ [P [_ [K _]]]]]. rewrite K, dir_pat_key by auto.
  rewrite strip_trail_slash; auto. unfold path_chars_ok in P. now apply andb_true_iff in P as [_ P].
Qed.

Lemma strip_slash_prefix : forall p, is_prefix (strip_slash p) p = true.
Proof. intro p. destruct (strip_slash_split p) as [t [E _]]. rewrite E at 2. apply is_prefix_app. Qed.

Lemma strip_slash_length : forall p, length (strip_slash p) <= length p.
Proof. intro p. apply is_prefix_length, strip_slash_prefix. Qed.

Lemma no_quest_path : forall e c, wf_entry e -> In c (epath e) -> c <> c_quest.
Proof.
  intros e c [_ [_ [P _]]] I. unfold path_chars_ok in P. apply andb_true_iff in P as [_ P].
  apply no_char_spec in P. intros ->. contradiction.
Qed.

(* the next byte after a directory boundary inside a path is a slash *)
Lemma ends_ok_slash : forall e pre d rest, wf_entry e -> epath e = pre ++ d :: rest ->
  ends_ok (d :: rest) = true -> d = c_slash.
Proof.
  intros e pre d rest W E K. cbn in K. apply is_delim_cases in K as [-> | ->]; auto.
  exfalso. eapply (no_quest_path e c_quest W); auto. rewrite E. apply in_or_app. right. now left.
Qed.

Definition nonexact (e : entry) : Prop := etype e = Prefix \/ etype e = Begin.

(* what `beats later earlier` means for two entries within the guard *)
Lemma one_slash_len : forall p, p = strip_slash p \/ p = strip_slash p ++ [c_slash] ->
  length p <= S (length (strip_slash p)).
Proof. intros p [E|E]; rewrite E at 1; rewrite ?app_length; cbn; lia. Qed.

Lemma len_app1 : forall (p q : str) c, p = q ++ [c] -> length p = S (length q).
Proof. intros p q c E. rewrite E, app_length. cbn. lia. Qed.

Ltac beats_fin Ta Tb E LL :=
  split; [unfold nonexact; rewrite Ta; auto|];
  split; [unfold nonexact; rewrite Tb; auto|];
  split; [exact E|];
  split; [exact LL|];
  split.

(* what `beats later earlier` means for two entries within the guard *)
Lemma beats_inv : forall a b, wf_entry a -> wf_entry b -> beats (fe a) (fe b) = true ->
  (etype a = Exact /\ etype b <> Exact) \/
  (nonexact a /\ nonexact b /\ ehost a = ehost b /\ length (epath b) < length (epath a) /\
   is_prefix (lower (epath b)) (lower (epath a)) = true /\
   (etype a = etype b -> is_prefix (epath b) (epath a) = true)).
Proof.
  intros a b Wa Wb H.
  pose proof Wa as [Ha [Hla [Pa [Ra [Ka [Ba Sa]]]]]]. pose proof Wb as [Hb [Hlb [Pb [Rb [Kb [Bb Sb]]]]]].
  assert (Na : no_char c_hash (ehost a) = true) by now apply host_ok_nohash.
  assert (Nb : no_char c_hash (ehost b) = true) by now apply host_ok_nohash.
  pose proof (strip_slash_prefix (epath a)) as SPa. pose proof (strip_slash_length (epath a)) as SLa.
  pose proof (strip_slash_prefix (epath b)) as SPb. pose proof (strip_slash_length (epath b)) as SLb.
  unfold beats, fe, fe_meth, fe_key in H. cbn [fst snd] in H.
  destruct (etype a) eqn:Ta; cbn [meth_of is_str] in H; [| | |congruence].
  - left. split; auto. apply andb_true_iff in H as [H _]. intro E. rewrite E in H. discriminate.
  - (* a is a prefix rule *)
    right. apply andb_true_iff in H as [H L]. apply andb_true_iff in H as [H C].
    apply Nat.ltb_lt in L. rewrite Ka, Kb, !app_length in L. cbn [length] in L.
    pose proof (dir_pat_entry a Wa) as Da. specialize (Sa eq_refl). pose proof (one_slash_len _ Sa) as OSa.
    unfold conflictb, fe_meth, fe_key in C. cbn [fst snd meth_of] in C.
    destruct (etype b) eqn:Tb; cbn [meth_of is_str negb] in H; try discriminate; try congruence.
    + (* dir / dir *)
      pose proof (dir_pat_entry b Wb) as Db. specialize (Sb eq_refl). pose proof (one_slash_len _ Sb) as OSb.
      cbn [meth_of] in C. rewrite Da, Db in C. apply orb_true_iff in C as [C|C].
      * apply dir_prefix_key in C as [E [rest [Er Kr]]]; auto. rewrite E in L.
        assert (LL : length (epath b) < length (epath a)) by lia.
        pose proof (f_equal (@length ascii) Er) as Lr. rewrite app_length in Lr.
        assert (Eb : epath b = strip_slash (epath b)) by (symmetry; apply is_prefix_same_length; auto; lia).
        assert (Eq : strip_slash (epath b) = strip_slash (epath a)).
        { destruct rest; [now rewrite app_nil_r in Er | cbn in Lr; lia]. }
        assert (PP : is_prefix (epath b) (epath a) = true) by (rewrite Eb, Eq; exact SPa).
        beats_fin Ta Tb E LL; [now apply lower_prefix | auto].
      * apply dir_prefix_key in C as [E [rest [Er Kr]]]; auto. symmetry in E. rewrite E in L.
        assert (LL : length (epath b) < length (epath a)) by lia.
        pose proof (f_equal (@length ascii) Er) as Lr. rewrite app_length in Lr.
        assert (PP : is_prefix (epath b) (epath a) = true).
        { destruct Sb as [Sb|Sb].
          - rewrite Sb. eapply is_prefix_trans; [|exact SPa]. rewrite Er. apply is_prefix_app.
          - pose proof (len_app1 _ _ _ Sb) as Lb. destruct rest as [|d rest].
            + exfalso. cbn in Lr. lia.
            + assert (d = c_slash).
              { destruct Sa as [Sa|Sa].
                - eapply (ends_ok_slash a (strip_slash (epath b)) d rest); eauto. now rewrite Sa at 1.
                - eapply (ends_ok_slash a (strip_slash (epath b)) d (rest ++ [c_slash])); eauto.
                  rewrite Sa at 1. rewrite Er, <- app_assoc. reflexivity. }
              subst d. rewrite Sb. eapply is_prefix_trans; [|exact SPa]. rewrite Er.
              rewrite is_prefix_app_same. cbn [is_prefix]. rewrite Ascii.eqb_refl. reflexivity. }
        beats_fin Ta Tb E LL; [now apply lower_prefix | auto].
    + (* a dir, b beg *)
      specialize (Bb eq_refl). rewrite Da in C. rewrite lower_app in C. cbn [lower map] in C.
      fold (lower (strip_slash (epath a))) in C. rewrite Hla, lower_hash, Kb in C.
      assert (LP : is_prefix (lower (strip_slash (epath a))) (lower (epath a)) = true) by now apply lower_prefix.
      apply orb_true_iff in C as [C|C].
      * apply hash_prefix in C as [E C]; auto. symmetry in E. rewrite E in L.
        assert (LL : length (epath b) < length (epath a)) by lia.
        beats_fin Ta Tb E LL; [rewrite Bb; eapply is_prefix_trans; eauto | congruence].
      * apply dir_prefix_key in C as [E [rest [Er Kr]]]; auto. rewrite E in L.
        assert (LL : length (epath b) < length (epath a)) by lia.
        pose proof (f_equal (@length ascii) Er) as Lr. rewrite app_length, lower_length in Lr.
        assert (Eq : epath b = lower (strip_slash (epath a))).
        { destruct rest; [now rewrite app_nil_r in Er | cbn in Lr; lia]. }
        beats_fin Ta Tb E LL; [rewrite Bb, Eq; exact LP | congruence].
  - (* a is a begin rule *)
    right. apply andb_true_iff in H as [H L]. apply andb_true_iff in H as [H C].
    apply Nat.ltb_lt in L. rewrite Ka, Kb, !app_length in L. cbn [length] in L.
    specialize (Ba eq_refl).
    unfold conflictb, fe_meth, fe_key in C. cbn [fst snd meth_of] in C.
    destruct (etype b) eqn:Tb; cbn [meth_of is_str negb] in H; try discriminate; try congruence.
    + (* a beg, b dir *)
      pose proof (dir_pat_entry b Wb) as Db. specialize (Sb eq_refl). pose proof (one_slash_len _ Sb) as OSb.
      cbn [meth_of] in C. rewrite Db in C. rewrite lower_app in C. cbn [lower map] in C.
      fold (lower (strip_slash (epath b))) in C. rewrite Hlb, lower_hash, Ka in C.
      apply orb_true_iff in C as [C|C].
      * exfalso. apply hash_prefix in C as [E C]; auto. apply is_prefix_length in C.
        rewrite lower_length in C. rewrite E in L. lia.
      * apply dir_prefix_key in C as [E [rest [Er Kr]]]; auto. symmetry in E. rewrite E in L.
        assert (LL : length (epath b) < length (epath a)) by lia.
        pose proof (f_equal (@length ascii) Er) as Lr. rewrite app_length, lower_length in Lr.
        assert (PP : is_prefix (lower (epath b)) (epath a) = true).
        { destruct Sb as [Sb|Sb].
          - rewrite Sb at 1. rewrite Er. apply is_prefix_app.
          - pose proof (len_app1 _ _ _ Sb) as Lb. destruct rest as [|d rest].
            + exfalso. cbn in Lr. lia.
            + assert (d = c_slash) by (eapply (ends_ok_slash a _ d rest); eauto).
              subst d. rewrite Sb at 1. rewrite lower_app. cbn [lower map]. rewrite Er.
              rewrite is_prefix_app_same. cbn [is_prefix]. replace (lower_ascii c_slash) with c_slash by reflexivity.
              rewrite Ascii.eqb_refl. reflexivity. }
        beats_fin Ta Tb E LL; [now rewrite Ba | congruence].
    + (* beg / beg *)
      specialize (Bb eq_refl). cbn [meth_of] in C. rewrite Ka, Kb in C. apply orb_true_iff in C as [C|C].
      * exfalso. apply hash_prefix in C as [E C]; auto. apply is_prefix_length in C. rewrite E in L. lia.
      * apply hash_prefix in C as [E C]; auto. symmetry in E. rewrite E in L.
        assert (LL : length (epath b) < length (epath a)) by lia.
        beats_fin Ta Tb E LL; [now apply lower_prefix | auto].
Qed.

(* ------------------------------------------------------------------ consequences for the comparators *)

Lemma proper_prefix_ltb : forall p q : str, is_prefix p q = true -> length p < length q -> str_ltb p q = true.
Proof.
  intros p q H L. apply is_prefix_spec in H as [r ->]. apply str_ltb_prefix.
  intros ->. rewrite app_nil_r in L. lia.
Qed.

Lemma neq_by_length : forall p q : str, length p < length q -> str_eqb q p = false.
Proof. intros p q L. apply str_eqb_neq. intros ->. lia. Qed.

Lemma nested_host_less : forall a b, length (epath b) < length (epath a) ->
  is_prefix (lower (epath b)) (lower (epath a)) = true -> host_less a b = true.
Proof.
  intros a b L P. unfold host_less.
  rewrite neq_by_length by (rewrite !lower_length; exact L).
  apply proper_prefix_ltb; auto. now rewrite !lower_length.
Qed.

Lemma nested_overlaps : forall a b, nonexact a -> nonexact b -> etype a <> etype b ->
  length (epath b) < length (epath a) -> is_prefix (lower (epath b)) (lower (epath a)) = true ->
  overlaps a b = true.
Proof.
  intros a b Na Nb T L P. unfold overlaps. rewrite P, (neq_by_length _ _ L).
  destruct Na as [Ea|Ea], Nb as [Eb|Eb]; rewrite Ea, Eb in *; cbn; congruence.
Qed.

Lemma nested_file_less : forall t a b, t = Prefix \/ t = Begin -> ehost a = ehost b ->
  length (epath b) < length (epath a) -> is_prefix (epath b) (epath a) = true -> file_less t a b = true.
Proof.
  intros t a b T E L P.
  assert (G : (if str_eqb (ehost a) (ehost b) then
                 if str_eqb (epath a) (epath b) then N.ltb (eorder a) (eorder b) else str_ltb (epath b) (epath a)
               else str_ltb (ekey a) (ekey b)) = true).
  { rewrite E, str_eqb_refl, (neq_by_length _ _ L). now apply proper_prefix_ltb. }
  destruct T as [->| ->]; exact G.
Qed.

Lemma overlaps_inv : forall a b, overlaps a b = true ->
  nonexact a /\ nonexact b /\ etype a <> etype b /\ epath a <> epath b /\
  is_prefix (lower (epath b)) (lower (epath a)) = true.
Proof.
  intros a b H. unfold overlaps in H.
  apply andb_true_iff in H as [H H7]. apply andb_true_iff in H as [H H6]. apply andb_true_iff in H as [H H5].
  apply andb_true_iff in H as [H H4]. apply andb_true_iff in H as [H H3]. apply andb_true_iff in H as [H1 H2].
  apply negb_true_iff in H1, H2, H3, H4, H5, H6.
  apply str_eqb_neq in H2. unfold nonexact.
  destruct (etype a), (etype b); cbn in *; try discriminate; repeat split; auto; congruence.
Qed.

(* an entry overlapping the longer of two nested entries of one type overlaps the shorter *)
Lemma overlaps_down : forall z y x, overlaps z y = true -> etype y = etype x ->
  length (epath x) < length (epath y) -> is_prefix (lower (epath x)) (lower (epath y)) = true ->
  overlaps z x = true.
Proof.
  intros z y x O T L P. apply overlaps_inv in O as [Nz [Ny [Tz [_ Pz]]]].
  apply nested_overlaps; auto.
  - unfold nonexact in *. congruence.
  - congruence.
  - apply is_prefix_length in Pz. rewrite !lower_length in Pz. lia.
  - eapply is_prefix_trans; eauto.
Qed.

(* ------------------------------------------------------------------ the default files *)

Definition dflt (entries moved : list entry) (t : mtype) : list entry :=
  filter (fun e => mtype_eqb (etype e) t && negb (is_moved moved e)) entries.

Definition dstep (entries moved : list entry) (acc : list pfile) (t : mtype) : list pfile :=
  match dflt entries moved t with
  | [] => acc
  | es => if mtype_eqb t Exact then (t, es) :: acc else acc ++ [(t, es)]
  end.

Lemma default_files_fold : forall mo entries moved prio,
  default_files mo entries moved prio = fold_left (dstep entries moved) mo prio.
Proof. reflexivity. Qed.

Lemma default_files_shape : forall entries moved mo acc, NoDup mo ->
  exists X Y, fold_left (dstep entries moved) mo acc = X ++ acc ++ Y /\
    (forall f, In f X -> f = (Exact, dflt entries moved Exact)) /\
    (forall f, In f Y -> fst f <> Exact /\ In (fst f) mo /\ snd f = dflt entries moved (fst f) /\ snd f <> []) /\
    NoDup (map fst Y) /\
    (forall t, In t mo -> dflt entries moved t <> [] ->
       (t = Exact -> In (t, dflt entries moved t) X) /\ (t <> Exact -> In (t, dflt entries moved t) Y)).
Proof.
  intros entries moved. induction mo as [|t mo IH]; intros acc ND; cbn [fold_left].
  - exists [], []. rewrite app_nil_r. cbn. split; auto. split; [intros f []|]. split; [intros f []|].
    split; [constructor|]. intros t [].
  - inversion ND as [|? ? Nt ND']; subst.
    unfold dstep at 2. destruct (dflt entries moved t) as [|e0 es0] eqn:D.
    + destruct (IH acc ND') as [X [Y [E [HX [HY [NY HP]]]]]]. exists X, Y. split; auto. split; auto.
      split; [intros f I; destruct (HY f I) as [A [B [C C']]]; repeat split; auto; now right|].
      split; auto. intros t' [->|I] Ne; [congruence | auto].
    + destruct (mtype_eqb t Exact) eqn:TE.
      * apply mtype_eqb_eq in TE. subst t.
        destruct (IH ((Exact, e0 :: es0) :: acc) ND') as [X [Y [E [HX [HY [NY HP]]]]]].
        exists (X ++ [(Exact, e0 :: es0)]), Y. split; [rewrite E, <- app_assoc; reflexivity|].
        split; [intros f I; apply in_app_or in I as [I|[<-|[]]]; [auto | now rewrite D]|].
        split; [intros f I; destruct (HY f I) as [A [B [C C']]]; repeat split; auto; now right|].
        split; auto. intros t' [<-|I] Ne.
        -- split; [intros _; apply in_or_app; right; left; now rewrite D | congruence].
        -- destruct (HP t' I Ne) as [A B]. split; auto. intro Et. apply in_or_app. left. auto.
      * apply mtype_eqb_neq in TE.
        destruct (IH (acc ++ [(t, e0 :: es0)]) ND') as [X [Y [E [HX [HY [NY HP]]]]]].
        exists X, ((t, e0 :: es0) :: Y). split; [rewrite E, <- !app_assoc; reflexivity|].
        split; auto.
        split; [intros f [<-|I]; [cbn [fst snd]; repeat split; auto; [now left | congruence] |
                 destruct (HY f I) as [A [B [C C']]]; repeat split; auto; now right]|].
        split.
        -- cbn. constructor; auto. intro I. apply in_map_iff in I as [f [Ef I]].
           destruct (HY f I) as [_ [B _]]. rewrite Ef in B. contradiction.
        -- intros t' [<-|I] Ne.
           ++ split; [congruence | intros _; left; now rewrite D].
           ++ destruct (HP t' I Ne) as [A B]. split; auto. intro Et. right. auto.
Qed.

(* ------------------------------------------------------------------ building `ordered` *)

Lemma ordered_app_intro : forall a b, ordered a = true -> ordered b = true ->
  (forall x y, In x a -> In y b -> beats y x = false) -> ordered (a ++ b) = true.
Proof.
  induction a as [|e a IH]; intros b Ha Hb H; cbn [app ordered]; auto.
  cbn [ordered] in Ha. apply andb_true_iff in Ha as [H1 H2].
  apply andb_true_iff. split.
  - rewrite forallb_app, H1. cbn [andb]. apply forallb_forall. intros y I. apply negb_true_iff.
    apply H; auto. now left.
  - apply IH; auto. intros x y I J. apply H; auto. now right.
Qed.

Lemma ordered_map_intro : forall (A : Type) (g : A -> fentry) l,
  (forall l1 x l2, l = l1 ++ x :: l2 -> forall y, In y l2 -> beats (g y) (g x) = false) ->
  ordered (map g l) = true.
Proof.
  intros A g. induction l as [|x l IH]; intros H; cbn [map ordered]; auto.
  apply andb_true_iff. split.
  - apply forallb_forall. intros y' I. apply in_map_iff in I as [y [<- I]]. apply negb_true_iff.
    apply (H [] x l eq_refl y I).
  - apply IH. intros l1 z l2 E y I. apply (H (x :: l1) z l2); auto. now rewrite E.
Qed.

Lemma ordered_flat_map_intro : forall (A : Type) (g : A -> list fentry) l,
  (forall f, In f l -> ordered (g f) = true) ->
  (forall l1 f l2, l = l1 ++ f :: l2 -> forall f', In f' l2 ->
     forall x y, In x (g f) -> In y (g f') -> beats y x = false) ->
  ordered (flat_map g l) = true.
Proof.
  intros A g. induction l as [|f l IH]; intros W C; cbn [flat_map]; auto.
  apply ordered_app_intro.
  - apply W. now left.
  - apply IH.
    + intros f' I. apply W. now right.
    + intros l1 f1 l2 E f' I. apply (C (f :: l1) f1 l2); auto. now rewrite E.
  - intros x y I J. apply in_flat_map in J as [f' [J1 J2]]. apply (C [] f l eq_refl f' J1); auto.
Qed.

Lemma split_nth : forall (A : Type) (d : A) G G1 f G2 f', G = G1 ++ f :: G2 -> In f' G2 ->
  exists i j, i < j /\ j < length G /\ nth i G d = f /\ nth j G d = f'.
Proof.
  intros A d G G1 f G2 f' E I. apply (In_nth _ _ d) in I as [n [L N]].
  exists (length G1), (length G1 + S n). subst G. rewrite app_length. cbn [length].
  split; [lia|]. split; [lia|]. split.
  - rewrite app_nth2, Nat.sub_diag by lia. reflexivity.
  - rewrite app_nth2 by lia. replace (length G1 + S n - length G1) with (S n) by lia. exact N.
Qed.

Lemma beats_earlier_exact : forall y' x, etype x = Exact -> beats y' (fe x) = false.
Proof.
  intros y' x E. unfold beats, fe, fe_meth. cbn [fst snd]. rewrite E. cbn [meth_of is_str negb].
  destruct (is_str (fst (fst y'))); reflexivity.
Qed.

Lemma entry_eqb_eq : forall a b, entry_eqb a b = true -> a = b.
Proof.
  intros [h1 p1 t1 o1 k1 v1] [h2 p2 t2 o2 k2 v2] H. unfold entry_eqb in H. cbn in H.
  apply andb_true_iff in H as [H H6]. apply andb_true_iff in H as [H H5]. apply andb_true_iff in H as [H H4].
  apply andb_true_iff in H as [H H3]. apply andb_true_iff in H as [H1 H2].
  apply str_eqb_eq in H1, H2, H5, H6. apply mtype_eqb_eq in H3. apply N.eqb_eq in H4. congruence.
Qed.

Lemma entry_eqb_refl : forall a, entry_eqb a a = true.
Proof.
  intro a. unfold entry_eqb. rewrite !str_eqb_refl, mtype_eqb_refl, N.eqb_refl. reflexivity.
Qed.

Lemma is_moved_true : forall moved e, is_moved moved e = true <-> In e moved.
Proof.
  intros moved e. unfold is_moved. rewrite existsb_exists. split.
  - intros [m [I E]]. apply entry_eqb_eq in E. now subst.
  - intro I. exists e. split; auto. apply entry_eqb_refl.
Qed.

(* ------------------------------------------------------------------ priority files are never empty *)

Definition all_nonempty (files : list pfile) : Prop := forall k, k < length files -> fents files k <> [].

Lemma place_unfold : forall files u e, place files u e =
  match find_file (etype e) files 0 (upn u) with
  | Some i => (add_at i e files, i)
  | None => (files ++ [(etype e, [e])], length files)
  end.
Proof. reflexivity. Qed.

Lemma place_nonempty : forall files u e, upn u <= length files -> all_nonempty files ->
  all_nonempty (fst (place files u e)).
Proof.
  intros files u e Hu A k Hk.
  destruct (place_spec files u e Hu) as [[L G] [P1 [P2 [P3 _]]]].
  destruct (lt_dec k (length files)) as [Lk|Lk].
  - destruct (G k Lk) as [_ Ge]. specialize (A k Lk).
    destruct (fents files k) as [|x xs] eqn:Ef; [congruence|]. intro Z.
    specialize (Ge x (or_introl eq_refl)). rewrite Z in Ge. destruct Ge.
  - (* only one file can be new, and it holds e *)
    rewrite place_unfold in *. destruct (find_file (etype e) files 0 (upn u)) as [j|] eqn:F; cbn [fst snd] in *.
    + rewrite add_at_length in Hk. lia.
    + rewrite app_length in Hk. cbn in Hk. assert (k = length files) by lia. subst k.
      unfold fents. rewrite app_nth2, Nat.sub_diag by lia. cbn. congruence.
Qed.

Lemma proc_host_nonempty : forall l files placed, recs_ok files placed -> all_nonempty files ->
  all_nonempty (fst (proc_host files placed l)).
Proof.
  induction l as [|e rest IH]; intros files placed R A; cbn [proc_host]; auto.
  destruct (existsb (overlaps e) rest); auto.
  pose proof (place_spec files (upper_of placed e) e (upper_in_range _ _ _ R)) as PS. cbv zeta in PS.
  destruct PS as [G [P1 [P2 [P3 [P4 [P5 P6]]]]]].
  apply IH.
  - cbn. split; [|eapply recs_ok_grows; eauto]. repeat split; auto.
  - apply place_nonempty; auto. apply upper_in_range; auto.
Qed.

Lemma proc_host_recs : forall l files placed, recs_ok files placed ->
  recs_ok (fst (proc_host files placed l)) (snd (proc_host files placed l)).
Proof.
  intros l files placed R.
  destruct (proc_host_spec (fun _ _ => false) l files placed) as [newer [E [_ [R' _]]]]; auto.
  - intros l1 x l2 _ y _. reflexivity.
  - now rewrite E.
Qed.

Lemma runs_nonempty : forall hls files, all_nonempty files -> all_nonempty (fst (runs files hls)).
Proof.
  induction hls as [|l rest IH]; intros files A; cbn [runs fst]; auto.
  apply IH. apply proc_host_nonempty; auto. exact I.
Qed.

(* ------------------------------------------------------------------ the main argument *)

Section Main.
  Variable fsort : mtype -> list entry -> list entry.
  Variable mo : list mtype.
  Variable hls : list (list entry).
  Variable feds : list fed.
  Hypothesis Hwf : forallb wf_fed feds = true.
  Hypothesis Hmo : permitted mo.
  Hypothesis Hsort : sorter_ok fsort (map add feds).
  Hypothesis Hhls : hls_ok hls (map add feds).

  Local Notation entries := (map add feds).
  Local Notation F := (fst (runs [] hls)).
  Local Notation RS := (snd (runs [] hls)).
  Local Notation moved := (moved_of (snd (runs [] hls))).

  Lemma entries_wf : forall e, In e entries ->
    wf_entry e /\ exists f, In f feds /\ e = add f /\ fe e = rule_entry (rule_of f) /\ wf_ruleb (rule_of f) = true.
  Proof.
    intros e I. apply in_map_iff in I as [f [<- I]].
    pose proof (proj1 (forallb_forall _ _) Hwf) as Hwf'. destruct (wf_add f (Hwf' f I)) as [W [E R]].
    split; auto. exists f. auto.
  Qed.

  Lemma RS_facts :
    map fst RS = hls /\
    (forall l P, In (l, P) RS -> run_ok host_less F l P) /\
    (forall k x, In x (fents F k) -> exists l P, In (l, P) RS /\ In (x, k) P).
  Proof.
    destruct Hhls as [H1 _].
    destruct (runs_spec host_less hls [] H1) as [_ [Mp [RO Src]]].
    split; auto. split; auto. intros k x I. apply Src in I as [I|I]; auto.
    unfold fents in I. destruct k; cbn in I; destruct I.
  Qed.

  Lemma in_RS_hls : forall l P, In (l, P) RS -> In l hls.
  Proof.
    intros l P I. destruct RS_facts as [Mp _].
    assert (K : In l (map fst RS)) by (apply in_map_iff; exists (l, P); auto).
    now rewrite Mp in K.
  Qed.

  Lemma hls_in_RS : forall l, In l hls -> exists P, In (l, P) RS.
  Proof.
    intros l I. destruct RS_facts as [Mp _].
    assert (K : In l (map fst RS)) by (rewrite Mp; exact I).
    apply in_map_iff in K as [[l' P] [E K]]. cbn in E. subst. eauto.
  Qed.

  Lemma same_list : forall l l' e e', In l hls -> In l' hls -> In e l -> In e' l' ->
    ehost e = ehost e' -> l = l'.
  Proof.
    intros l l' e e' Il Il' Ie Ie' E. destruct Hhls as [_ [_ [_ [_ H5]]]].
    destruct (ForallOrdPairs_In H5 l l' Il Il') as [Eq|[D|D]]; auto; exfalso.
    - apply (D e e'); auto.
    - apply (D e' e); auto.
  Qed.

  Lemma same_run_gen : forall (rs : list (list entry * list (entry * nat))) l P P' e,
    ForallOrdPairs disjoint_hosts (map fst rs) ->
    In (l, P) rs -> In (l, P') rs -> In e l -> P = P'.
  Proof.
    induction rs as [|[l0 P0] rs IH]; intros l P P' e FO I I' Ie; [destruct I|].
    cbn [map fst] in FO. inversion FO as [|? ? Hd FO']; subst.
    assert (NotIn : forall Q, In (l0, Q) rs -> In e l0 -> False).
    { intros Q J Je. rewrite Forall_forall in Hd.
      assert (K : In l0 (map fst rs)) by (apply in_map_iff; exists (l0, Q); auto).
      apply (Hd l0 K e e); auto. }
    destruct I as [I|I], I' as [I'|I'].
    - congruence.
    - inversion I; subst. exfalso. eapply NotIn; eauto.
    - inversion I'; subst. exfalso. eapply NotIn; eauto.
    - eapply IH; eauto.
  Qed.

  Lemma same_run : forall l P P' e, In (l, P) RS -> In (l, P') RS -> In e l -> P = P'.
  Proof.
    intros l P P' e I I' Ie. eapply same_run_gen; eauto.
    destruct RS_facts as [Mp _]. rewrite Mp. apply Hhls.
  Qed.

  (* an entry with a record *)
  Lemma rec_entry : forall l P x k, In (l, P) RS -> In (x, k) P ->
    In x l /\ In x entries /\ wf_entry x /\ nonexact x /\
    k < length F /\ ftype F k = etype x /\ In x (fents F k).
  Proof.
    intros l P x k I J. destruct RS_facts as [_ [RO _]]. destruct (RO l P I) as [R [_ [M2 _]]].
    destruct (M2 x k J) as [l1 [l2 [El O]]].
    assert (Ix : In x l) by (rewrite El; apply in_or_app; right; now left).
    assert (Ie : In x entries) by (destruct Hhls as [_ [H2 _]]; eapply H2; eauto using in_RS_hls).
    apply in_split in J as [N1 [N2 ->]]. apply recs_ok_split in R as [R1 [R2 [R3 _]]].
    apply existsb_exists in O as [z [_ O]]. apply overlaps_inv in O as [Nx _].
    assert (Wx : wf_entry x) by (apply entries_wf; auto).
    split; [exact Ix|]. split; [exact Ie|]. split; [exact Wx|]. split; [exact Nx|].
    split; [exact R1|]. split; [exact R2 | exact R3].
  Qed.

  Lemma moved_record : forall x, In x moved <-> exists l P k, In (l, P) RS /\ In (x, k) P.
  Proof.
    intro x. unfold moved_of. rewrite in_flat_map. split.
    - intros [[l P] [I J]]. cbn [snd] in J. apply in_map_iff in J as [[x' k] [E J]]. cbn in E. subst.
      exists l, P, k. auto.
    - intros [l [P [k [I J]]]]. exists (l, P). split; auto. cbn [snd]. apply in_map_iff. exists (x, k). auto.
  Qed.

  (* position of two elements of a sorted list, one of which has to come first *)
  Lemma sorted_after : forall (l : list entry) l1 y l2 z, sorted_by host_less l -> l = l1 ++ y :: l2 ->
    In z l -> host_less y z = true -> In z l2.
  Proof.
    intros l l1 y l2 z S E I H. rewrite E in I. apply in_app_or in I as [I|[I|I]]; auto.
    - exfalso. apply in_split in I as [a [b ->]].
      rewrite <- app_assoc in E. cbn [app] in E.
      assert (host_less y z = false) by (apply (S a z (b ++ y :: l2) E); apply in_or_app; right; now left).
      congruence.
    - subst z. unfold host_less in H. rewrite str_eqb_refl, str_ltb_irrefl in H. discriminate.
  Qed.

  (* the longer of two nested entries of one host is moved as soon as the shorter one
     has another type or was moved itself *)
  Lemma longer_moved : forall x y, In x entries -> In y entries ->
    nonexact x -> nonexact y -> ehost y = ehost x -> length (epath x) < length (epath y) ->
    is_prefix (lower (epath x)) (lower (epath y)) = true ->
    (etype y <> etype x \/ In x moved) -> In y moved.
  Proof.
    intros x y Ix Iy Nx Ny Eh L P Why.
    destruct Hhls as [H1 [H2 [H3 [H4 H5]]]].
    destruct (H3 y Iy) as [l [Il Iyl]]. destruct (H3 x Ix) as [l' [Il' Ixl']].
    assert (l = l') by (eapply same_list; eauto). subst l'.
    destruct (hls_in_RS l Il) as [Pl IRS]. destruct RS_facts as [_ [RO _]].
    destruct (RO l Pl IRS) as [_ [_ [_ M3]]].
    destruct (in_split _ _ Iyl) as [l1 [l2 El]].
    assert (Partner : exists z, In z l /\ overlaps y z = true /\ host_less y z = true).
    { destruct Why as [T|Mx].
      - exists x. split; auto. split; [apply nested_overlaps; auto | apply nested_host_less; auto].
      - apply moved_record in Mx as [lx [Px [k [Ix1 Ix2]]]].
        destruct (rec_entry _ _ _ _ Ix1 Ix2) as [Ixl [_ _]].
        assert (lx = l) by (eapply same_list; eauto using in_RS_hls). subst lx.
        destruct (RO l Px Ix1) as [_ [_ [M2 _]]]. destruct (M2 x k Ix2) as [a [b [Ea O]]].
        apply existsb_exists in O as [z [Iz O]].
        destruct (mtype_dec (etype y) (etype x)) as [T|T].
        + pose proof (overlaps_inv _ _ O) as [_ [Nz [Tz [_ Pz]]]].
          assert (Lz : length (epath z) <= length (epath x))
            by (apply is_prefix_length in Pz; now rewrite !lower_length in Pz).
          exists z. split; [rewrite Ea; apply in_or_app; right; now right|]. split.
          * apply nested_overlaps; auto; try congruence; try lia. eapply is_prefix_trans; eauto.
          * apply nested_host_less; try lia. eapply is_prefix_trans; eauto.
        + exists x. split; auto. split; [apply nested_overlaps; auto | apply nested_host_less; auto]. }
    destruct Partner as [z [Iz [O Hl]]].
    assert (In z l2) by (eapply sorted_after; eauto).
    destruct (M3 l1 y l2 El) as [k Ik]; [apply existsb_exists; eauto|].
    apply moved_record. eauto.
  Qed.

  (* two priority files: nothing in the later one has to come before something in the earlier one *)
  Lemma prio_pair : forall i j x y, i < j -> In x (fents F i) -> In y (fents F j) ->
    beats (fe y) (fe x) = false.
  Proof.
    intros i j x y Lij Ix Iy. destruct (beats (fe y) (fe x)) eqn:B; auto. exfalso.
    destruct RS_facts as [_ [RO Src]].
    destruct (Src i x Ix) as [lx [Px [Rx Jx]]]. destruct (Src j y Iy) as [ly [Py [Ry Jy]]].
    destruct (rec_entry _ _ _ _ Rx Jx) as [Ixl [Ixe [Wx [Nx [Li [Ti _]]]]]].
    destruct (rec_entry _ _ _ _ Ry Jy) as [Iyl [Iye [Wy [Ny [Lj [Tj _]]]]]].
    destruct (beats_inv y x Wy Wx B) as [[E _]|[_ [_ [Eh [L [P Praw]]]]]].
    { destruct Ny as [Ny|Ny]; congruence. }
    assert (ly = lx) by (eapply same_list; eauto using in_RS_hls). subst ly.
    assert (Py = Px) by (eapply same_run; eauto). subst Py.
    destruct (RO lx Px Rx) as [R [C _]].
    pose proof (nested_host_less y x L P) as HL.
    destruct (in_split _ _ Jx) as [N1 [N2 EP]]. rewrite EP in Jy.
    apply in_app_or in Jy as [Jy|[Jy|Jy]].
    - apply in_split in Jy as [A [B' ->]]. rewrite <- app_assoc in EP. cbn [app] in EP. rewrite EP in C.
      pose proof (chron_split _ _ _ _ _ C x i ltac:(apply in_or_app; right; now left)) as K.
      cbn in K. congruence.
    - inversion Jy. lia.
    - rewrite EP in R. pose proof (recs_ok_split _ _ _ _ _ R) as [_ [_ [_ [U4 _]]]].
      destruct (mtype_dec (etype y) (etype x)) as [T|T].
      + apply in_split in Jy as [A [B' EN]].
        assert (Ry' : rec_ok F B' y j).
        { rewrite EN in R. replace (N1 ++ (x, i) :: A ++ (y, j) :: B') with ((N1 ++ (x, i) :: A) ++ (y, j) :: B') in R
            by (rewrite <- app_assoc; reflexivity).
          now apply recs_ok_split in R. }
        destruct Ry' as [_ [_ [_ [_ D5]]]].
        assert (M : upn (upper_of B' y) <= upn (upper_of N2 x)).
        { apply upper_of_mono.
          - intros z k I. rewrite EN. apply in_or_app. right. now right.
          - intros z O. eapply overlaps_down; eauto. }
        apply (D5 i); try lia. congruence.
      + assert (O : overlaps y x = true) by (apply nested_overlaps; auto).
        pose proof (upper_of_ge N2 x y j Jy O). lia.
  Qed.

  (* ---------- the emitted files *)
  Definition gE (f : pfile) : list fentry := map fe (fsort (fst f) (snd f)).
  Definition typed (f : pfile) : Prop := forall e, In e (snd f) -> etype e = fst f /\ In e entries.

  Lemma Hsort_typed : forall f, typed f ->
    (forall e, In e (fsort (fst f) (snd f)) <-> In e (snd f)) /\
    sorted_by (file_less (fst f)) (fsort (fst f) (snd f)).
  Proof. intros f T. apply Hsort. intros e I. now apply T. Qed.

  Lemma in_gE : forall f x', typed f -> In x' (gE f) -> exists x, x' = fe x /\ In x (snd f).
  Proof.
    intros f x' T I. unfold gE in I. apply in_map_iff in I as [x [<- I]]. exists x. split; auto.
    now apply (Hsort_typed f T).
  Qed.

  Lemma emit_flat : forall G, (forall f, In f G -> typed f) ->
    flat (map (emit_with fsort) G) = flat_map gE G.
  Proof.
    induction G as [|f G IH]; intros T; auto.
    cbn [map]. unfold flat in *. cbn [flat_map]. rewrite IH by (intros f' I; apply T; now right).
    f_equal. unfold emit_with, gE. cbn [mmeth mentries]. rewrite map_map. apply map_ext_in.
    intros e I. cbn [fst snd]. unfold fe. apply (Hsort_typed f (T f (or_introl eq_refl))) in I.
    destruct (T f (or_introl eq_refl) e I) as [-> _]. reflexivity.
  Qed.

  Lemma within_file : forall f, typed f -> ordered (gE f) = true.
  Proof.
    intros f T. unfold gE. apply ordered_map_intro. intros l1 x l2 E y I.
    destruct (beats (fe y) (fe x)) eqn:B; auto. exfalso.
    destruct (Hsort_typed f T) as [Mem Srt].
    assert (Ix : In x (snd f)) by (apply Mem; rewrite E; apply in_or_app; right; now left).
    assert (Iy : In y (snd f)) by (apply Mem; rewrite E; apply in_or_app; right; now right).
    destruct (T x Ix) as [Tx Ex]. destruct (T y Iy) as [Ty Ey].
    destruct (entries_wf x Ex) as [Wx _]. destruct (entries_wf y Ey) as [Wy _].
    destruct (beats_inv y x Wy Wx B) as [[E1 E2]|[Ny [_ [Eh [L [_ Praw]]]]]]; [congruence|].
    assert (FL : file_less (fst f) y x = true).
    { apply nested_file_less; auto; [|apply Praw; congruence].
      destruct Ny as [Ny|Ny]; rewrite Ny in Ty; auto. }
    pose proof (Srt l1 x l2 E y I). congruence.
  Qed.

  Lemma F_typed : forall k x, In x (fents F k) ->
    etype x = ftype F k /\ In x entries /\ In x moved /\ nonexact x /\ k < length F.
  Proof.
    intros k x I. destruct RS_facts as [_ [_ Src]]. destruct (Src k x I) as [l [P [R J]]].
    destruct (rec_entry _ _ _ _ R J) as [_ [Ie [_ [Nx [Lk [Tk _]]]]]].
    repeat split; auto. apply moved_record. eauto.
  Qed.

  Lemma dflt_in : forall t e, In e (dflt entries moved t) <-> In e entries /\ etype e = t /\ ~ In e moved.
  Proof.
    intros t e. unfold dflt. rewrite filter_In, andb_true_iff, mtype_eqb_eq, negb_true_iff. split.
    - intros [I [T M]]. repeat split; auto. intro J. apply is_moved_true in J. congruence.
    - intros [I [T M]]. repeat split; auto. destruct (is_moved moved e) eqn:Q; auto.
      apply is_moved_true in Q. contradiction.
  Qed.

  Lemma ordered_layout : ordered (flat (rebuild_with fsort mo hls entries)) = true.
  Proof.
    unfold rebuild_with. rewrite proc_hosts_runs. cbn [fst snd app]. rewrite default_files_fold.
    destruct Hmo as [ND _].
    destruct (default_files_shape entries moved mo F ND) as [X [Y [E [HX [HY [NY _]]]]]].
    rewrite E.
    assert (TX : forall f, In f X -> typed f).
    { intros f I e Ie. rewrite (HX f I) in *. cbn [fst snd] in *. apply dflt_in in Ie. tauto. }
    assert (TY : forall f, In f Y -> typed f).
    { intros f I e Ie. destruct (HY f I) as [_ [_ [Es _]]]. rewrite Es in Ie. apply dflt_in in Ie. tauto. }
    assert (TF : forall f, In f F -> typed f).
    { intros f I e Ie. apply (In_nth _ _ (Regex, [])) in I as [k [Lk Ek]].
      destruct (nth_fents _ _ _ Ek) as [Ef Et].
      assert (Ie' : In e (fents F k)) by (now rewrite Ef).
      destruct (F_typed k e Ie') as [T [Ien _]]. rewrite Et in T. auto. }
    rewrite emit_flat.
    2:{ intros f I. apply in_app_or in I as [I|I]; auto. apply in_app_or in I as [I|I]; auto. }
    rewrite !flat_map_app.
    apply ordered_app_intro; [| apply ordered_app_intro |].
    - (* exact files *)
      apply ordered_flat_map_intro; [intros f I; apply within_file; auto|].
      intros l1 f l2 EX f' I' x' y' Ix Iy.
      assert (If : In f X) by (rewrite EX; apply in_or_app; right; now left).
      apply in_gE in Ix as [x [-> Ix]]; auto.
      apply beats_earlier_exact.
      destruct (TX f If x Ix) as [T _]. rewrite (HX f If) in T. exact T.
    - (* priority files *)
      apply ordered_flat_map_intro; [intros f I; apply within_file; auto|].
      intros l1 f l2 EF f' I' x' y' Ix Iy.
      assert (If : In f F) by (rewrite EF; apply in_or_app; right; now left).
      assert (If' : In f' F) by (rewrite EF; apply in_or_app; right; now right).
      apply in_gE in Ix as [x [-> Ix]]; auto. apply in_gE in Iy as [y [-> Iy]]; auto.
      destruct (split_nth _ (Regex, []) _ _ _ _ _ EF I') as [i [j [Lij [Lj [Ni Nj]]]]].
      destruct (nth_fents _ _ _ Ni) as [Efi _]. destruct (nth_fents _ _ _ Nj) as [Efj _].
      apply (prio_pair i j); auto; [now rewrite Efi | now rewrite Efj].
    - (* default files *)
      apply ordered_flat_map_intro; [intros f I; apply within_file; auto|].
      intros l1 f l2 EY f' I' x' y' Ix Iy.
      assert (If : In f Y) by (rewrite EY; apply in_or_app; right; now left).
      assert (If' : In f' Y) by (rewrite EY; apply in_or_app; right; now right).
      apply in_gE in Ix as [x [-> Ix]]; auto. apply in_gE in Iy as [y [-> Iy]]; auto.
      destruct (beats (fe y) (fe x)) eqn:B; auto. exfalso.
      destruct (HY f If) as [_ [_ [Es _]]]. destruct (HY f' If') as [Ne' [_ [Es' _]]].
      rewrite Es in Ix. rewrite Es' in Iy. apply dflt_in in Ix as [Ixe [Tx Mx]]. apply dflt_in in Iy as [Iye [Ty My]].
      destruct (entries_wf x Ixe) as [Wx _]. destruct (entries_wf y Iye) as [Wy _].
      destruct (beats_inv y x Wy Wx B) as [[E1 _]|[Ny [Nx [Eh [L [P _]]]]]]; [congruence|].
      apply My. apply (longer_moved x y); auto. left.
      rewrite Tx, Ty. intro Q.
      (* two different files of Y have different types *)
      rewrite EY in NY. rewrite map_app in NY. cbn [map] in NY. apply NoDup_remove_2 in NY.
      apply NY. apply in_or_app. right. rewrite <- Q. apply in_map. exact I'.
    - (* priority files before default files *)
      intros x' y' Ix Iy. apply in_flat_map in Ix as [f [If Ix]]. apply in_gE in Ix as [x [-> Ix]]; auto.
      apply in_flat_map in Iy as [f' [If' Iy]]. apply in_gE in Iy as [y [-> Iy]]; auto.
      destruct (beats (fe y) (fe x)) eqn:B; auto. exfalso.
      apply (In_nth _ _ (Regex, [])) in If as [k [Lk Ek]].
      destruct (nth_fents _ _ _ Ek) as [Ef _].
      assert (Ix' : In x (fents F k)) by (now rewrite Ef).
      destruct (F_typed k x Ix') as [_ [Ixe [Mx [Nx _]]]].
      destruct (HY f' If') as [Ne' [_ [Es' _]]]. rewrite Es' in Iy. apply dflt_in in Iy as [Iye [Ty My]].
      destruct (entries_wf x Ixe) as [Wx _]. destruct (entries_wf y Iye) as [Wy _].
      destruct (beats_inv y x Wy Wx B) as [[E1 _]|[Ny [_ [Eh [L [P _]]]]]]; [congruence|].
      apply My. apply (longer_moved x y); auto.
    - (* exact files before all the others *)
      intros x' y' Ix Iy. apply in_flat_map in Ix as [f [If Ix]]. apply in_gE in Ix as [x [-> Ix]]; auto.
      apply beats_earlier_exact. destruct (TX f If x Ix) as [T _]. rewrite (HX f If) in T. exact T.
  Qed.

  Lemma meth_eqb_refl : forall m, meth_eqb m m = true.
  Proof. intros []; reflexivity. Qed.

  Lemma layout_shape : exists X Y,
    rebuild_with fsort mo hls entries = map (emit_with fsort) (X ++ F ++ Y) /\
    (forall f, In f X -> f = (Exact, dflt entries moved Exact)) /\
    (forall f, In f Y -> fst f <> Exact /\ In (fst f) mo /\ snd f = dflt entries moved (fst f) /\ snd f <> []) /\
    (forall t, In t mo -> dflt entries moved t <> [] ->
       (t = Exact -> In (t, dflt entries moved t) X) /\ (t <> Exact -> In (t, dflt entries moved t) Y)).
  Proof.
    unfold rebuild_with. rewrite proc_hosts_runs. cbn [fst snd app]. rewrite default_files_fold.
    destruct Hmo as [ND _].
    destruct (default_files_shape entries moved mo F ND) as [X [Y [E [HX [HY [NY HP]]]]]].
    exists X, Y. rewrite E. auto.
  Qed.

  Lemma all_typed : forall X Y,
    (forall f, In f X -> f = (Exact, dflt entries moved Exact)) ->
    (forall f, In f Y -> fst f <> Exact /\ In (fst f) mo /\ snd f = dflt entries moved (fst f) /\ snd f <> []) ->
    forall f, In f (X ++ F ++ Y) -> typed f /\ fst f <> Regex.
  Proof.
    intros X Y HX HY f I. apply in_app_or in I as [I|I]; [|apply in_app_or in I as [I|I]].
    - rewrite (HX f I). split; [|cbn; congruence]. intros e Ie. cbn [fst snd] in *. apply dflt_in in Ie. tauto.
    - apply (In_nth _ _ (Regex, [])) in I as [k [Lk Ek]]. destruct (nth_fents _ _ _ Ek) as [Ef Et].
      assert (TF : typed f).
      { intros e Ie. rewrite <- Ef in Ie. destruct (F_typed k e Ie) as [T [Ien _]]. rewrite Et in T. auto. }
      split; auto.
      assert (A : all_nonempty F) by (apply runs_nonempty; intros k' Hk'; cbn in Hk'; lia).
      specialize (A k Lk). destruct (fents F k) as [|e es] eqn:Q; [congruence|].
      assert (Ie : In e (fents F k)) by (rewrite Q; now left).
      destruct (F_typed k e Ie) as [T [_ [_ [[N|N] _]]]]; rewrite <- Et, <- T, N; congruence.
    - destruct (HY f I) as [_ [_ [Es Ne]]].
      assert (TY : typed f) by (intros e Ie; rewrite Es in Ie; apply dflt_in in Ie; tauto).
      split; auto. destruct (snd f) as [|e es] eqn:Q; [congruence|].
      destruct (TY e ltac:(rewrite Q; now left)) as [T Ie]. destruct (entries_wf e Ie) as [[_ [_ [_ [R _]]]] _].
      congruence.
  Qed.

  Lemma rule_in_emit : forall f e r, typed f -> In e (snd f) -> etype e = fst f -> fe e = rule_entry r ->
    rule_in_file r (emit_with fsort f) = true.
  Proof.
    intros f e r Tf I T E. unfold rule_in_file, emit_with. cbn [mmeth mentries].
    unfold fe, rule_entry in E. inversion E as [[E1 E2 E3]].
    rewrite T, meth_eqb_refl. cbn [andb]. apply existsb_exists.
    exists (ekey e, evalue e). split.
    - apply in_map_iff. exists e. split; auto. now apply (Hsort_typed f Tf).
    - cbn [fst snd]. now rewrite !str_eqb_refl.
  Qed.

  Theorem rebuild_with_ok : layout_ok (rebuild_with fsort mo hls entries) (map rule_of feds) = true.
  Proof.
    unfold layout_ok. rewrite ordered_layout, andb_true_r.
    destruct layout_shape as [X [Y [E [HX [HY HP]]]]]. rewrite E.
    pose proof (all_typed X Y HX HY) as AT.
    repeat (apply andb_true_iff; split).
    - (* the rules are within the guard *)
      apply forallb_forall. intros r I. apply in_map_iff in I as [f [<- I]].
      pose proof (proj1 (forallb_forall _ _) Hwf) as Hwf'. apply (wf_add f (Hwf' f I)).
    - (* methods and lower flags *)
      apply forallb_forall. intros mf I. apply in_map_iff in I as [f [<- I]].
      destruct (AT f I) as [_ NR]. unfold file_ok, emit_with. cbn [mmeth mlower].
      destruct (fst f); cbn; congruence.
    - (* every rule is in some file *)
      apply forallb_forall. intros r I. apply in_map_iff in I as [f0 [<- I]].
      assert (Ie : In (add f0) entries) by (apply in_map; exact I).
      pose proof (proj1 (forallb_forall _ _) Hwf) as Hwf'. destruct (wf_add f0 (Hwf' f0 I)) as [W [Efe _]].
      apply existsb_exists.
      destruct (is_moved moved (add f0)) eqn:M.
      + apply is_moved_true in M. apply moved_record in M as [l [P [k [R J]]]].
        destruct (rec_entry _ _ _ _ R J) as [_ [_ [_ [_ [Lk [Tk Ik]]]]]].
        exists (emit_with fsort (nth k F (Regex, []))). split.
        * apply in_map. apply in_or_app. right. apply in_or_app. left. now apply nth_In.
        * destruct (AT (nth k F (Regex, []))) as [Tk' _];
            [apply in_or_app; right; apply in_or_app; left; now apply nth_In|].
          eapply rule_in_emit; eauto.
      + assert (D : In (add f0) (dflt entries moved (etype (add f0)))).
        { apply dflt_in. repeat split; auto. intro Q. apply is_moved_true in Q. congruence. }
        assert (Ne : dflt entries moved (etype (add f0)) <> []) by (intro Q; rewrite Q in D; destruct D).
        assert (Tm : In (etype (add f0)) mo).
        { destruct Hmo as [_ [M1 [M2 [M3 M4]]]]. destruct (etype (add f0)); auto. }
        destruct (HP _ Tm Ne) as [A B].
        exists (emit_with fsort (etype (add f0), dflt entries moved (etype (add f0)))). split.
        * apply in_map. destruct (mtype_dec (etype (add f0)) Exact) as [Q|Q].
          -- apply in_or_app. left. auto.
          -- apply in_or_app. right. apply in_or_app. right. auto.
        * assert (Td : typed (etype (add f0), dflt entries moved (etype (add f0)))).
          { intros e Ie'. cbn [fst snd] in *. apply dflt_in in Ie'. tauto. }
          eapply rule_in_emit; eauto.
    - (* every entry comes from a rule *)
      rewrite emit_flat by (intros f I; apply AT; auto).
      apply forallb_forall. intros x' I. apply in_flat_map in I as [f [If I]].
      destruct (AT f If) as [T _]. apply in_gE in I as [x [-> Ix]]; auto. destruct (T x Ix) as [_ Ie].
      destruct (entries_wf x Ie) as [_ [f0 [I0 [_ [Efe _]]]]].
      unfold entry_of_rule. apply existsb_exists. exists (rule_of f0). split; [now apply in_map|].
      rewrite Efe. unfold rule_entry, fe_meth, fe_key, fe_val. cbn [fst snd].
      now rewrite meth_eqb_refl, !str_eqb_refl.
  Qed.
End Main.

(* ------------------------------------------------------------------ the insertion sort sorts *)

Section SortFacts.
  Context {A : Type} (less : A -> A -> bool) (D : A -> Prop).
  Hypothesis asym : forall a b, D a -> D b -> less a b = true -> less b a = false.
  Hypothesis negtrans : forall a b c, D a -> D b -> D c ->
    less a b = false -> less b c = false -> less a c = false.

  (* reversed sorted prefix: the head is the last element *)
  Fixpoint rs (racc : list A) : Prop :=
    match racc with
    | [] => True
    | y :: r => (forall x, In x r -> less y x = false) /\ rs r
    end.

  Fixpoint ss (l : list A) : Prop :=
    match l with
    | [] => True
    | x :: r => (forall y, In y r -> less y x = false) /\ ss r
    end.

  Lemma ins_rev_in : forall x racc z, In z (ins_rev less x racc) <-> z = x \/ In z racc.
  Proof.
    intros x racc z. induction racc as [|y r IH]; cbn [ins_rev].
    - cbn. intuition.
    - destruct (less x y); cbn [In]; [rewrite IH|]; intuition.
  Qed.

  Lemma ins_rev_rs : forall x racc, D x -> (forall y, In y racc -> D y) -> rs racc -> rs (ins_rev less x racc).
  Proof.
    intros x racc Dx. induction racc as [|y r IH]; intros Dr R; cbn [ins_rev].
    - cbn [rs]. split; [intros z []|exact I].
    - destruct R as [R1 R2]. destruct (less x y) eqn:L.
      + cbn [rs]. split.
        * intros z I. apply ins_rev_in in I as [->|I]; auto.
          apply asym; auto. apply Dr. now left.
        * apply IH; auto. intros z I. apply Dr. now right.
      + cbn [rs]. split; [|split; auto].
        intros z [<-|I]; auto. apply (negtrans x y z); auto; apply Dr; [now left | now right].
  Qed.

  Lemma fold_ins_spec : forall l racc, (forall y, In y racc -> D y) -> (forall y, In y l -> D y) -> rs racc ->
    rs (fold_left (fun r x => ins_rev less x r) l racc) /\
    forall z, In z (fold_left (fun r x => ins_rev less x r) l racc) <-> In z l \/ In z racc.
  Proof.
    induction l as [|x l IH]; intros racc Dr Dl R; cbn [fold_left].
    - split; auto. intro z. cbn. intuition.
    - destruct (IH (ins_rev less x racc)) as [R' M].
      + intros y I. apply ins_rev_in in I as [->|I]; auto. apply Dl. now left.
      + intros y I. apply Dl. now right.
      + apply ins_rev_rs; auto. apply Dl. now left.
      + split; auto. intro z. rewrite M, ins_rev_in. cbn [In]. intuition.
  Qed.

  Lemma ss_app_last : forall l y, ss l -> (forall x, In x l -> less y x = false) -> ss (l ++ [y]).
  Proof.
    induction l as [|x l IH]; intros y S H; cbn [app ss].
    - split; auto. intros z [].
    - destruct S as [S1 S2]. split.
      + intros z I. apply in_app_or in I as [I|[<-|[]]]; auto. apply H. now left.
      + apply IH; auto. intros z I. apply H. now right.
  Qed.

  Lemma rs_ss_rev : forall racc, rs racc -> ss (rev racc).
  Proof.
    induction racc as [|y r IH]; intros R; cbn [rev]; [exact I|].
    destruct R as [R1 R2]. apply ss_app_last; auto. intros x I. apply R1. now apply in_rev.
  Qed.

  Lemma ss_sorted_by : forall l, ss l -> sorted_by less l.
  Proof.
    induction l as [|x l IH]; intros S l1 z l2 E y I.
    - destruct l1; discriminate.
    - destruct S as [S1 S2]. destruct l1 as [|x' l1]; cbn [app] in E; inversion E; subst.
      + auto.
      + eapply IH; eauto.
  Qed.

  Lemma gosort_spec : forall l, (forall y, In y l -> D y) ->
    sorted_by less (gosort less l) /\ forall z, In z (gosort less l) <-> In z l.
  Proof.
    intros l Dl. unfold gosort. destruct (fold_ins_spec l [] (fun y (I : In y []) => match I with end) Dl I) as [R M].
    split.
    - apply ss_sorted_by, rs_ss_rev, R.
    - intro z. rewrite <- in_rev, M. cbn. intuition.
  Qed.
End SortFacts.

(* lexicographic comparators *)
Section Lex.
  Context {A B : Type} (eqA ltA : A -> A -> bool) (ltB : B -> B -> bool).
  Hypothesis eqA_spec : forall a b, eqA a b = true <-> a = b.
  Hypothesis ltA_irrefl : forall a, ltA a a = false.
  Hypothesis ltA_trans : forall a b c, ltA a b = true -> ltA b c = true -> ltA a c = true.
  Hypothesis ltA_total : forall a b, ltA a b = false -> ltA b a = false -> a = b.
  Hypothesis ltB_asym : forall a b, ltB a b = true -> ltB b a = false.
  Hypothesis ltB_negtrans : forall a b c, ltB a b = false -> ltB b c = false -> ltB a c = false.

  Definition lex (x y : A * B) : bool :=
    if eqA (fst x) (fst y) then ltB (snd x) (snd y) else ltA (fst x) (fst y).

  Lemma ltA_asym : forall a b, ltA a b = true -> ltA b a = false.
  Proof.
    intros a b H. destruct (ltA b a) eqn:E; auto.
    pose proof (ltA_trans _ _ _ H E) as T. rewrite ltA_irrefl in T. discriminate.
  Qed.

  Lemma eqA_refl : forall a, eqA a a = true.
  Proof. intro a. now apply eqA_spec. Qed.

  Lemma eqA_false : forall a b, eqA a b = false <-> a <> b.
  Proof.
    intros a b. split; intro H.
    - intro E. apply eqA_spec in E. congruence.
    - destruct (eqA a b) eqn:E; auto. apply eqA_spec in E. contradiction.
  Qed.

  Lemma lex_asym : forall x y, lex x y = true -> lex y x = false.
  Proof.
    intros [a1 b1] [a2 b2]. unfold lex. cbn [fst snd]. destruct (eqA a1 a2) eqn:E.
    - apply eqA_spec in E. subst. rewrite eqA_refl. apply ltB_asym.
    - apply eqA_false in E. assert (E' : eqA a2 a1 = false) by (apply eqA_false; congruence).
      rewrite E'. apply ltA_asym.
  Qed.

  Lemma lex_negtrans : forall x y z, lex x y = false -> lex y z = false -> lex x z = false.
  Proof.
    intros [a1 b1] [a2 b2] [a3 b3]. unfold lex. cbn [fst snd].
    destruct (eqA a1 a2) eqn:E12; destruct (eqA a2 a3) eqn:E23.
    - apply eqA_spec in E12, E23. subst. rewrite eqA_refl. apply ltB_negtrans.
    - apply eqA_spec in E12. subst. rewrite E23. auto.
    - apply eqA_spec in E23. subst. rewrite E12. auto.
    - intros H1 H2. apply eqA_false in E12, E23.
      assert (G1 : ltA a2 a1 = true).
      { destruct (ltA a2 a1) eqn:Q; [reflexivity|]. exfalso. apply E12. now apply ltA_total. }
      assert (G2 : ltA a3 a2 = true).
      { destruct (ltA a3 a2) eqn:Q; [reflexivity|]. exfalso. apply E23. now apply ltA_total. }
      pose proof (ltA_trans _ _ _ G2 G1) as G3.
      assert (E13 : eqA a1 a3 = false).
      { apply eqA_false. intros ->. rewrite ltA_irrefl in G3. discriminate. }
      rewrite E13. now apply ltA_asym.
  Qed.
End Lex.

(* a strict total order is in particular asymmetric and negatively transitive *)
Lemma total_negtrans : forall (A : Type) (lt : A -> A -> bool),
  (forall a, lt a a = false) -> (forall a b c, lt a b = true -> lt b c = true -> lt a c = true) ->
  (forall a b, lt a b = false -> lt b a = false -> a = b) ->
  forall a b c, lt a b = false -> lt b c = false -> lt a c = false.
Proof.
  intros A lt Irr Tr Tot a b c H1 H2. destruct (lt a c) eqn:E; auto. exfalso.
  destruct (lt b a) eqn:Q1.
  - pose proof (Tr _ _ _ Q1 E). congruence.
  - assert (a = b) by now apply Tot. subst. congruence.
Qed.

Lemma total_asym : forall (A : Type) (lt : A -> A -> bool),
  (forall a, lt a a = false) -> (forall a b c, lt a b = true -> lt b c = true -> lt a c = true) ->
  forall a b, lt a b = true -> lt b a = false.
Proof.
  intros A lt Irr Tr a b H. destruct (lt b a) eqn:E; auto. pose proof (Tr _ _ _ H E) as T. rewrite Irr in T. discriminate.
Qed.

Lemma str_eqb_sym : forall a b, str_eqb a b = str_eqb b a.
Proof.
  intros a b. destruct (str_eqb a b) eqn:E.
  - apply str_eqb_eq in E. subst. symmetry. apply str_eqb_refl.
  - symmetry. apply str_eqb_neq. apply str_eqb_neq in E. congruence.
Qed.

Definition gtb (a b : str) : bool := str_ltb b a.

Lemma gtb_irrefl : forall a, gtb a a = false. Proof. intro. apply str_ltb_irrefl. Qed.
Lemma gtb_trans : forall a b c, gtb a b = true -> gtb b c = true -> gtb a c = true.
Proof. unfold gtb. intros. eapply str_ltb_trans; eauto. Qed.
Lemma gtb_total : forall a b, gtb a b = false -> gtb b a = false -> a = b.
Proof. unfold gtb. intros. now apply str_ltb_total. Qed.

Lemma Nltb_asym : forall a b : N, N.ltb a b = true -> N.ltb b a = false.
Proof. intros a b H. apply N.ltb_lt in H. apply N.ltb_ge. lia. Qed.
Lemma Nltb_negtrans : forall a b c : N, N.ltb a b = false -> N.ltb b c = false -> N.ltb a c = false.
Proof. intros a b c H1 H2. apply N.ltb_ge in H1, H2. apply N.ltb_ge. lia. Qed.

(* the per-host comparator *)
Definition hkey (e : entry) : str * str := (lower (epath e), epath e).

Lemma host_less_lex : forall a b, host_less a b = lex str_eqb gtb gtb (hkey a) (hkey b).
Proof. intros a b. unfold host_less, lex, hkey, gtb. cbn [fst snd]. reflexivity. Qed.

Lemma host_less_asym : forall a b, host_less a b = true -> host_less b a = false.
Proof.
  intros a b. rewrite !host_less_lex. apply lex_asym.
  - apply str_eqb_eq. - apply gtb_irrefl. - apply gtb_trans.
  - apply total_asym; [apply gtb_irrefl | apply gtb_trans].
Qed.

Lemma host_less_negtrans : forall a b c, host_less a b = false -> host_less b c = false -> host_less a c = false.
Proof.
  intros a b c. rewrite !host_less_lex. apply lex_negtrans.
  - apply str_eqb_eq. - apply gtb_irrefl. - apply gtb_trans. - apply gtb_total.
  - apply total_negtrans; [apply gtb_irrefl | apply gtb_trans | apply gtb_total].
Qed.

(* ------------------------------------------------------------------ the per-file comparators *)

Definition kwf (e : entry) : Prop :=
  no_char c_hash (ehost e) = true /\ ekey e = ehost e ++ c_hash :: epath e.

Lemma N_ascii_cases : forall x y : ascii,
  (N.ltb (N_of_ascii x) (N_of_ascii y) = true /\ N.ltb (N_of_ascii y) (N_of_ascii x) = false) \/
  (N.ltb (N_of_ascii x) (N_of_ascii y) = false /\ N.ltb (N_of_ascii y) (N_of_ascii x) = true) \/
  (x = y /\ N.ltb (N_of_ascii x) (N_of_ascii y) = false /\ N.ltb (N_of_ascii y) (N_of_ascii x) = false).
Proof.
  intros x y. destruct (N.ltb_spec (N_of_ascii x) (N_of_ascii y)), (N.ltb_spec (N_of_ascii y) (N_of_ascii x));
    try lia; auto. right. right. split; auto. apply N_of_ascii_inj. lia.
Qed.

Lemma str_ltb_cons : forall x a y b, str_ltb (x :: a) (y :: b) =
  if N.ltb (N_of_ascii x) (N_of_ascii y) then true
  else if N.ltb (N_of_ascii y) (N_of_ascii x) then false else str_ltb a b.
Proof. reflexivity. Qed.

Lemma key_ltb_hosts : forall h1 h2 p1 p2,
  no_char c_hash h1 = true -> no_char c_hash h2 = true -> h1 <> h2 ->
  str_ltb (h1 ++ c_hash :: p1) (h2 ++ c_hash :: p2) = str_ltb (h1 ++ [c_hash]) (h2 ++ [c_hash]).
Proof.
  induction h1 as [|x h1 IH]; intros [|y h2] p1 p2 N1 N2 Ne; try congruence; cbn [app]; rewrite !str_ltb_cons.
  - apply no_char_cons in N2 as [N2 _].
    destruct (N_ascii_cases c_hash y) as [[E1 E2]|[[E1 E2]|[E _]]]; rewrite ?E1, ?E2; auto. congruence.
  - apply no_char_cons in N1 as [N1 _].
    destruct (N_ascii_cases x c_hash) as [[E1 E2]|[[E1 E2]|[E _]]]; rewrite ?E1, ?E2; auto. congruence.
  - apply no_char_cons in N1 as [_ N1]. apply no_char_cons in N2 as [_ N2].
    destruct (N_ascii_cases x y) as [[E1 E2]|[[E1 E2]|[E [E1 E2]]]]; rewrite ?E1, ?E2; auto.
    apply IH; auto. congruence.
Qed.

Lemma str_eqb_app_tail : forall a b t, str_eqb (a ++ t) (b ++ t) = str_eqb a b.
Proof.
  intros a b t. destruct (str_eqb a b) eqn:E.
  - apply str_eqb_eq in E. subst. apply str_eqb_refl.
  - apply str_eqb_neq. apply str_eqb_neq in E. intro Q. apply app_inv_tail in Q. contradiction.
Qed.

Definition inl (x y : str * N) : bool := lex str_eqb gtb N.ltb x y.
Definition okey (e : entry) : str * (str * N) := (ehost e ++ [c_hash], (epath e, eorder e)).

Lemma inl_asym : forall x y, inl x y = true -> inl y x = false.
Proof. apply lex_asym; [apply str_eqb_eq | apply gtb_irrefl | apply gtb_trans | apply Nltb_asym]. Qed.

Lemma inl_negtrans : forall x y z, inl x y = false -> inl y z = false -> inl x z = false.
Proof.
  apply lex_negtrans; [apply str_eqb_eq | apply gtb_irrefl | apply gtb_trans | apply gtb_total | apply Nltb_negtrans].
Qed.

Lemma file_less_default_lex : forall t a b, t = Prefix \/ t = Begin -> kwf a -> kwf b ->
  file_less t a b = lex str_eqb str_ltb inl (okey a) (okey b).
Proof.
  intros t a b T [Na Ka] [Nb Kb].
  assert (G : (if str_eqb (ehost a) (ehost b) then
                 if str_eqb (epath a) (epath b) then N.ltb (eorder a) (eorder b) else str_ltb (epath b) (epath a)
               else str_ltb (ekey a) (ekey b)) = lex str_eqb str_ltb inl (okey a) (okey b)).
  { unfold lex, okey, inl. cbn [fst snd]. rewrite str_eqb_app_tail.
    destruct (str_eqb (ehost a) (ehost b)) eqn:E.
    - unfold lex, gtb. cbn [fst snd]. reflexivity.
    - apply str_eqb_neq in E. rewrite Ka, Kb. now apply key_ltb_hosts. }
  destruct T as [-> | ->]; exact G.
Qed.

Definition ekey2 (e : entry) : str * N := (ekey e, eorder e).
Definition lex2 (x y : str * N) : bool := lex str_eqb str_ltb N.ltb x y.

Lemma lex2_asym : forall x y, lex2 x y = true -> lex2 y x = false.
Proof. apply lex_asym; [apply str_eqb_eq | apply str_ltb_irrefl | apply str_ltb_trans | apply Nltb_asym]. Qed.

Lemma lex2_negtrans : forall x y z, lex2 x y = false -> lex2 y z = false -> lex2 x z = false.
Proof.
  apply lex_negtrans; [apply str_eqb_eq | apply str_ltb_irrefl | apply str_ltb_trans | apply str_ltb_total | apply Nltb_negtrans].
Qed.

Definition ngtb (a b : nat) : bool := b <? a.
Definition rkey (e : entry) : nat * (str * N) := (length (ekey e), ekey2 e).

Lemma file_less_regex_lex : forall a b, file_less Regex a b = lex Nat.eqb ngtb lex2 (rkey a) (rkey b).
Proof.
  intros a b. unfold file_less, lex, rkey, ngtb. cbn [fst snd].
  destruct (length (ekey a) =? length (ekey b)); reflexivity.
Qed.

Lemma file_less_weak : forall t,
  (forall a b, kwf a -> kwf b -> file_less t a b = true -> file_less t b a = false) /\
  (forall a b c, kwf a -> kwf b -> kwf c ->
     file_less t a b = false -> file_less t b c = false -> file_less t a c = false).
Proof.
  intros t. destruct t.
  - (* exact *)
    split.
    + intros a b _ _. apply (lex2_asym (ekey2 a) (ekey2 b)).
    + intros a b c _ _ _. apply (lex2_negtrans (ekey2 a) (ekey2 b) (ekey2 c)).
  - split.
    + intros a b Wa Wb. rewrite !(file_less_default_lex Prefix) by auto.
      apply lex_asym; [apply str_eqb_eq | apply str_ltb_irrefl | apply str_ltb_trans | apply inl_asym].
    + intros a b c Wa Wb Wc. rewrite !(file_less_default_lex Prefix) by auto.
      apply lex_negtrans; [apply str_eqb_eq | apply str_ltb_irrefl | apply str_ltb_trans | apply str_ltb_total | apply inl_negtrans].
  - split.
    + intros a b Wa Wb. rewrite !(file_less_default_lex Begin) by auto.
      apply lex_asym; [apply str_eqb_eq | apply str_ltb_irrefl | apply str_ltb_trans | apply inl_asym].
    + intros a b c Wa Wb Wc. rewrite !(file_less_default_lex Begin) by auto.
      apply lex_negtrans; [apply str_eqb_eq | apply str_ltb_irrefl | apply str_ltb_trans | apply str_ltb_total | apply inl_negtrans].
  - assert (Irr : forall a, ngtb a a = false) by (intro a; apply Nat.ltb_irrefl).
    assert (Tr : forall a b c, ngtb a b = true -> ngtb b c = true -> ngtb a c = true)
      by (unfold ngtb; intros a b c H1 H2; apply Nat.ltb_lt in H1, H2; apply Nat.ltb_lt; lia).
    assert (Tot : forall a b, ngtb a b = false -> ngtb b a = false -> a = b)
      by (unfold ngtb; intros a b H1 H2; apply Nat.ltb_ge in H1, H2; lia).
    split.
    + intros a b _ _. rewrite !file_less_regex_lex.
      apply lex_asym; [apply Nat.eqb_eq | exact Irr | exact Tr | apply lex2_asym].
    + intros a b c _ _ _. rewrite !file_less_regex_lex.
      apply lex_negtrans; [apply Nat.eqb_eq | exact Irr | exact Tr | exact Tot | apply lex2_negtrans].
Qed.

(* ------------------------------------------------------------------ theorem B for the model that is run *)

Lemma wf_entry_kwf : forall e, wf_entry e -> kwf e.
Proof. intros e [H [_ [_ [_ [K _]]]]]. split; auto. now apply host_ok_nohash. Qed.

Lemma gosort_sorter_ok : forall feds, forallb wf_fed feds = true ->
  sorter_ok (fun t => gosort (file_less t)) (map add feds).
Proof.
  intros feds Hwf t es Sub.
  assert (K : forall y, In y es -> kwf y).
  { intros y I. apply Sub in I. apply in_map_iff in I as [f [<- I]].
    rewrite forallb_forall in Hwf. apply wf_entry_kwf. apply (wf_add f (Hwf f I)). }
  destruct (file_less_weak t) as [As Nt].
  destruct (gosort_spec (file_less t) kwf As Nt es K) as [S M]. split; auto.
Qed.

Lemma host_lists_ok : forall ho entries, host_order_ok ho entries ->
  hls_ok (map (fun h => gosort host_less (host_entries entries h)) ho) entries.
Proof.
  intros ho entries [ND Cov].
  assert (G : forall h, sorted_by host_less (gosort host_less (host_entries entries h)) /\
                        forall z, In z (gosort host_less (host_entries entries h)) <-> In z (host_entries entries h)).
  { intro h. apply (gosort_spec host_less (fun _ => True)); auto.
    - intros a b _ _. apply host_less_asym.
    - intros a b c _ _ _. apply host_less_negtrans. }
  assert (HE : forall h e, In e (host_entries entries h) <-> In e entries /\ ehost e = h).
  { intros h e. unfold host_entries. rewrite filter_In, str_eqb_eq. tauto. }
  split; [|split; [|split; [|split]]].
  - intros l I. apply in_map_iff in I as [h [<- _]]. apply G.
  - intros l e I Ie. apply in_map_iff in I as [h [<- _]]. apply G in Ie. now apply HE in Ie.
  - intros e I. exists (gosort host_less (host_entries entries (ehost e))). split.
    + apply in_map_iff. exists (ehost e). split; auto.
    + apply G. apply HE. auto.
  - intros l e e' I Ie Ie'. apply in_map_iff in I as [h [<- _]].
    apply G in Ie, Ie'. apply HE in Ie, Ie'. destruct Ie, Ie'. congruence.
  - clear Cov. induction ND as [|h ho Nh ND IH]; cbn [map]; constructor; auto.
    apply Forall_forall. intros l I. apply in_map_iff in I as [h' [<- I]].
    intros e e' Ie Ie'. apply G in Ie, Ie'. apply HE in Ie, Ie'. destruct Ie as [_ <-], Ie' as [_ <-].
    intro Q. rewrite Q in Nh. contradiction.
Qed.

Theorem rebuild_layout_ok : forall mo hostorder feds,
  forallb wf_fed feds = true -> permitted mo -> host_order_ok hostorder (map add feds) ->
  layout_ok (rebuild mo hostorder (map add feds)) (map rule_of feds) = true.
Proof.
  intros mo ho feds Hwf Hmo Hho. unfold rebuild.
  apply rebuild_with_ok; auto.
  - now apply gosort_sorter_ok.
  - now apply host_lists_ok.
Qed.

(* the hypotheses are satisfiable, on the rule set that used to defeat the algorithm *)
Example rebuild_layout_ok_example :
  let mk h p t o v := {| fhost := s2l h; fpath := s2l p; ftyp := t; forder := o; ftarget := s2l v |} in
  let feds := [ mk "g" "/a/b/c" Prefix 0%N "t0"; mk "g" "/a/b" Begin 1%N "t1"; mk "g" "/a" Prefix 2%N "t2";
                mk "h" "/a/x/y" Begin 0%N "t3"; mk "h" "/a/x" Prefix 1%N "t4"; mk "h" "/a/b/c" Prefix 2%N "t5";
                mk "h" "/a" Begin 3%N "t6"; mk "h" "/" Prefix 4%N "t7"; mk "h" "/App/sub" Prefix 5%N "t8";
                mk "h" "/app" Exact 6%N "t9" ]%string in
  forallb wf_fed feds = true /\
  layout_ok (rebuild [Exact; Prefix; Begin; Regex] [s2l "h"; s2l "g"] (map add feds)) (map rule_of feds) = true.
Proof. vm_compute. split; reflexivity. Qed.

(* ------------------------------------------------------------------ A and B together *)

Theorem rebuild_precedence : forall tree mo hostorder feds,
  forallb wf_fed feds = true -> permitted mo -> host_order_ok hostorder (map add feds) ->
  forall host path, wf_request host path ->
  match lookup tree (rebuild mo hostorder (map add feds)) (sample host path) with
  | Some v => exists r, best (map rule_of feds) host path r /\ rtarget r = v
  | None => forall r, In r (map rule_of feds) -> ~ applies r host path
  end.
Proof.
  intros tree mo ho feds Hwf Hmo Hho. apply layout_ok_sound. now apply rebuild_layout_ok.
Qed.

(* ------------------------------------------------------------------ before the two repairs (Model/Maps.v, rebuild_g) *)

Lemma rebuild_g_current : forall mo ho entries,
  rebuild_g overlaps host_less upper_of mo ho entries = rebuild mo ho entries.
Proof. reflexivity. Qed.

(* (i) case-sensitive overlap test: /App/sub/x is answered by the shorter begin rule *)
Example before_case_fix_refuted :
  let feds := [ mkfed "h" "/App/sub" Prefix 0%N "t0"; mkfed "h" "/app" Begin 1%N "t1" ] in
  let mo := [Exact; Begin; Prefix; Regex] in
  let old := rebuild_g overlaps_cs host_less_cs (upper_last overlaps_cs) mo [s2l "h"] (map add feds) in
  forallb wf_fed feds = true /\
  layout_ok old (map rule_of feds) = false /\
  lookup false old (sample (s2l "h") (s2l "/App/sub/x")) = Some (s2l "t1") /\
  lookup false (rebuild mo [s2l "h"] (map add feds)) (sample (s2l "h") (s2l "/App/sub/x")) = Some (s2l "t0").
Proof. vm_compute. repeat split; reflexivity. Qed.

(* (ii) the _upper mark moved backwards: h /a/x/z is answered by /a instead of /a/x
   (with the first repair already in place) *)
Example before_upper_fix_refuted :
  let feds := [ mkfed "g" "/a/b/c" Prefix 0%N "t0"; mkfed "g" "/a/b" Begin 1%N "t1"; mkfed "g" "/a" Prefix 2%N "t2";
                mkfed "h" "/a/x/y" Begin 0%N "t3"; mkfed "h" "/a/x" Prefix 1%N "t4"; mkfed "h" "/a/b/c" Prefix 2%N "t5";
                mkfed "h" "/a" Begin 3%N "t6"; mkfed "h" "/" Prefix 4%N "t7" ] in
  let mo := [Exact; Prefix; Begin; Regex] in
  let ho := [s2l "g"; s2l "h"] in
  let old := rebuild_g overlaps host_less (upper_last overlaps) mo ho (map add feds) in
  forallb wf_fed feds = true /\
  layout_ok old (map rule_of feds) = false /\
  lookup false old (sample (s2l "h") (s2l "/a/x/z")) = Some (s2l "t6") /\
  lookup false (rebuild mo ho (map add feds)) (sample (s2l "h") (s2l "/a/x/z")) = Some (s2l "t4").
Proof. vm_compute. repeat split; reflexivity. Qed.

Lemma nodup4 : NoDup [Exact; Prefix; Begin; Regex] /\ NoDup [Exact; Begin; Prefix; Regex].
Proof. split; repeat constructor; cbn; intuition congruence. Qed.

Theorem unrepaired_refuted :
  (exists mo ho feds, forallb wf_fed feds = true /\ permitted mo /\ host_order_ok ho (map add feds) /\
     layout_ok (rebuild_g overlaps_cs host_less_cs (upper_last overlaps_cs) mo ho (map add feds))
               (map rule_of feds) = false) /\
  (exists mo ho feds, forallb wf_fed feds = true /\ permitted mo /\ host_order_ok ho (map add feds) /\
     layout_ok (rebuild_g overlaps host_less (upper_last overlaps) mo ho (map add feds))
               (map rule_of feds) = false).
Proof.
  split.
  - exists [Exact; Begin; Prefix; Regex], [s2l "h"],
      [ mkfed "h" "/App/sub" Prefix 0%N "t0"; mkfed "h" "/app" Begin 1%N "t1" ].
    split; [reflexivity|]. split; [|split].
    + split; [apply nodup4|]. cbn. intuition.
    + split; [repeat constructor; cbn; intuition|]. intros e I. vm_compute in I. vm_compute. intuition; subst; auto.
    + vm_compute. reflexivity.
  - exists [Exact; Prefix; Begin; Regex], [s2l "g"; s2l "h"],
      [ mkfed "g" "/a/b/c" Prefix 0%N "t0"; mkfed "g" "/a/b" Begin 1%N "t1"; mkfed "g" "/a" Prefix 2%N "t2";
        mkfed "h" "/a/x/y" Begin 0%N "t3"; mkfed "h" "/a/x" Prefix 1%N "t4"; mkfed "h" "/a/b/c" Prefix 2%N "t5";
        mkfed "h" "/a" Begin 3%N "t6"; mkfed "h" "/" Prefix 4%N "t7" ].
    split; [reflexivity|]. split; [|split].
    + split; [apply nodup4|]. cbn. intuition.
    + split; [repeat constructor; cbn; intuition congruence|]. intros e I. vm_compute in I. vm_compute. intuition; subst; auto.
    + vm_compute. reflexivity.
Qed.

(* the hypotheses of theorem B (and of the combined theorem) are satisfiable *)
Example hypotheses_satisfiable :
  exists mo ho feds host path,
    forallb wf_fed feds = true /\ permitted mo /\ host_order_ok ho (map add feds) /\
    sorter_ok (fun t => gosort (file_less t)) (map add feds) /\
    hls_ok (map (fun h => gosort host_less (host_entries (map add feds) h)) ho) (map add feds) /\
    wf_request host path.
Proof.
  exists [Exact; Prefix; Begin; Regex], [s2l "h"],
    [ mkfed "h" "/App/sub" Prefix 0%N "t0"; mkfed "h" "/app" Begin 1%N "t1" ], (s2l "H"), (s2l "/App/sub/x").
  assert (HO : host_order_ok [s2l "h"] (map add [ mkfed "h" "/App/sub" Prefix 0%N "t0"; mkfed "h" "/app" Begin 1%N "t1" ])).
  { split; [repeat constructor; cbn; intuition|]. intros e I. vm_compute in I. vm_compute. intuition; subst; auto. }
  split; [reflexivity|]. split; [split; [apply nodup4|cbn; intuition]|]. split; [exact HO|].
  split; [now apply gosort_sorter_ok|]. split; [now apply host_lists_ok|].
  split; reflexivity.
Qed.

(* ------------------------------------------------------------------ the host order the code uses now *)

Lemma ins_rev_perm : forall (A : Type) (less : A -> A -> bool) x racc,
  Permutation (ins_rev less x racc) (x :: racc).
Proof.
  intros A less x. induction racc as [|y r IH]; cbn [ins_rev]; auto.
  destruct (less x y); auto. eapply perm_trans; [apply perm_skip, IH | apply perm_swap].
Qed.

Lemma gosort_perm : forall (A : Type) (less : A -> A -> bool) l, Permutation (gosort less l) l.
Proof.
  intros A less l. unfold gosort.
  assert (G : forall l racc, Permutation (fold_left (fun r x => ins_rev less x r) l racc) (l ++ racc)).
  { induction l0 as [|x l0 IH]; intros racc; cbn [fold_left app]; auto.
    eapply perm_trans; [apply IH|]. eapply perm_trans; [apply Permutation_app_head, ins_rev_perm|].
    symmetry. apply Permutation_middle. }
  eapply perm_trans; [symmetry; apply Permutation_rev|]. specialize (G l []). now rewrite app_nil_r in G.
Qed.

Lemma dedup_spec : forall l seen,
  NoDup (dedup seen l) /\ forall x, In x (dedup seen l) <-> In x l /\ ~ In x seen.
Proof.
  induction l as [|y l IH]; intros seen; cbn [dedup].
  - split; [constructor|]. intro x. cbn. tauto.
  - destruct (existsb (str_eqb y) seen) eqn:E.
    + destruct (IH seen) as [N M]. split; auto. intro x. rewrite M. cbn [In].
      apply existsb_exists in E as [z [Iz Ez]]. apply str_eqb_eq in Ez. subst z.
      split; [tauto|]. intros [[->|I] Ns]; [contradiction | tauto].
    + destruct (IH (y :: seen)) as [N M].
      assert (Ny : ~ In y seen).
      { intro I. assert (existsb (str_eqb y) seen = true) by (apply existsb_exists; exists y; split; auto; apply str_eqb_refl).
        congruence. }
      split.
      * constructor; auto. rewrite M. cbn [In]. tauto.
      * intro x. cbn [In]. rewrite M. cbn [In]. split.
        -- intros [<-|[I Ns]]; [tauto|]. split; [tauto|]. intro Q. apply Ns. now right.
        -- intros [[<-|I] Ns]; [now left|]. destruct (list_eq_dec ascii_dec y x) as [->|Nx]; [now left|].
           right. split; auto. intros [Q|Q]; auto.
Qed.

Lemma sorted_hosts_ok : forall entries, host_order_ok (sorted_hosts entries) entries.
Proof.
  intro entries. unfold sorted_hosts. destruct (dedup_spec (map ehost entries) []) as [N M]. split.
  - eapply Permutation_NoDup; [symmetry; apply gosort_perm | exact N].
  - intros e I. eapply Permutation_in; [symmetry; apply gosort_perm|]. apply M. split; [now apply in_map | auto].
Qed.

Theorem rebuild_current_precedence : forall tree mo feds,
  forallb wf_fed feds = true -> permitted mo ->
  forall host path, wf_request host path ->
  match lookup tree (rebuild_current mo (map add feds)) (sample host path) with
  | Some v => exists r, best (map rule_of feds) host path r /\ rtarget r = v
  | None => forall r, In r (map rule_of feds) -> ~ applies r host path
  end.
Proof.
  intros tree mo feds Hwf Hmo. unfold rebuild_current. apply rebuild_precedence; auto. apply sorted_hosts_ok.
Qed.

(* the boolean test of the path-type order is sound *)
Lemma permittedb_sound : forall mo, permittedb mo = true -> permitted mo.
Proof.
  intros mo. destruct mo as [|a [|b [|c [|d [|e r]]]]]; try discriminate.
  destruct a, b, c, d; try discriminate; intros _;
    (split; [repeat constructor; cbn; intuition congruence | cbn; intuition]).
Qed.
