(* C04, theorem A: the layout checker is sound. If `layout_ok files rules` holds then
   every request is answered by a rule the specification allows (HAMatch.best), for
   both ways HAProxy may index `beg` maps. *)
From Coq Require Import Ascii String.
From Coq Require Import List Bool Arith NArith Lia.
From HI Require Import Model.HAMatch.
Import ListNotations.

(* ------------------------------------------------------------------ characters *)

Lemma no_char_spec : forall c s, no_char c s = true <-> ~ In c s.
Proof.
  intros c s. unfold no_char. rewrite forallb_forall. split.
  - intros H I. apply H in I. rewrite Ascii.eqb_refl in I. discriminate.
  - intros H x I. destruct (Ascii.eqb x c) eqn:E; auto. apply Ascii.eqb_eq in E. subst. contradiction.
Qed.

Lemma no_char_app : forall c a b, no_char c (a ++ b) = no_char c a && no_char c b.
Proof. intros. unfold no_char. apply forallb_app. Qed.

Lemma no_char_lower_gen : forall c, (forall x, lower_ascii x = c <-> x = c) ->
  forall s, no_char c (lower s) = no_char c s.
Proof.
  intros c Hc. unfold no_char, lower. induction s as [|x s IH]; cbn; auto. rewrite IH. f_equal. f_equal.
  destruct (Ascii.eqb x c) eqn:E.
  - apply Ascii.eqb_eq in E. apply Ascii.eqb_eq. now apply (proj2 (Hc x)).
  - apply Ascii.eqb_neq in E. apply Ascii.eqb_neq. intro F. apply (proj1 (Hc x)) in F. contradiction.
Qed.

Lemma no_hash_lower : forall s, no_char c_hash (lower s) = no_char c_hash s.
Proof. apply no_char_lower_gen, lower_ascii_hash. Qed.
Lemma no_slash_lower : forall s, no_char c_slash (lower s) = no_char c_slash s.
Proof. apply no_char_lower_gen, lower_ascii_slash. Qed.
Lemma no_quest_lower : forall s, no_char c_quest (lower s) = no_char c_quest s.
Proof. apply no_char_lower_gen, lower_ascii_quest. Qed.

Lemma host_chars_ok_lower : forall h, host_chars_ok (lower h) = host_chars_ok h.
Proof. intro h. unfold host_chars_ok. now rewrite no_hash_lower, no_slash_lower, no_quest_lower. Qed.

Lemma is_delim_lower : forall c, is_delim (lower_ascii c) = is_delim c.
Proof. intros [[] [] [] [] [] [] [] []]; vm_compute; reflexivity. Qed.

Lemma is_delim_hash : is_delim c_hash = false.
Proof. reflexivity. Qed.

Lemma lower_hash : lower_ascii c_hash = c_hash.
Proof. reflexivity. Qed.

Lemma is_delim_cases : forall c, is_delim c = true -> c = c_slash \/ c = c_quest.
Proof.
  intros c H. unfold is_delim in H. apply orb_true_iff in H as [H|H]; apply Ascii.eqb_eq in H; auto.
Qed.

Lemma host_no_delim : forall h c, host_chars_ok h = true -> In c h -> is_delim c = false /\ c <> c_hash.
Proof.
  intros h c H I. unfold host_chars_ok in H.
  apply andb_true_iff in H as [H H3]. apply andb_true_iff in H as [H1 H2].
  apply no_char_spec in H1, H2, H3. split.
  - destruct (is_delim c) eqn:E; auto. apply is_delim_cases in E as [->| ->]; contradiction.
  - intros ->. contradiction.
Qed.

Lemma prefix_In : forall p s (x : ascii), is_prefix p s = true -> In x p -> In x s.
Proof. intros p s x H I. apply is_prefix_spec in H as [r ->]. apply in_or_app. auto. Qed.

(* ------------------------------------------------------------------ host # path *)

Lemma no_char_cons : forall c x s, no_char c (x :: s) = true -> x <> c /\ no_char c s = true.
Proof.
  intros c x s H. unfold no_char in *. cbn [forallb] in H. apply andb_true_iff in H as [H1 H2].
  split; auto. apply negb_true_iff in H1. now apply Ascii.eqb_neq.
Qed.

Lemma hash_prefix : forall h1 h2 p1 p2,
  no_char c_hash h1 = true -> no_char c_hash h2 = true ->
  is_prefix (h1 ++ c_hash :: p1) (h2 ++ c_hash :: p2) = true -> h1 = h2 /\ is_prefix p1 p2 = true.
Proof.
  induction h1 as [|x h1 IH]; intros h2 p1 p2 N1 N2 H.
  - destruct h2 as [|y h2]; cbn [app is_prefix] in H; apply andb_true_iff in H as [H H'].
    + auto.
    + apply Ascii.eqb_eq in H. subst y. apply no_char_cons in N2 as [N2 _]. congruence.
  - destruct h2 as [|y h2]; cbn [app is_prefix] in H; apply andb_true_iff in H as [H H'].
    + apply Ascii.eqb_eq in H. subst x. apply no_char_cons in N1 as [N1 _]. congruence.
    + apply Ascii.eqb_eq in H. subst y.
      apply no_char_cons in N1 as [_ N1]. apply no_char_cons in N2 as [_ N2].
      destruct (IH _ _ _ N1 N2 H') as [-> P]. auto.
Qed.

Lemma hash_eq : forall h1 h2 p1 p2,
  no_char c_hash h1 = true -> no_char c_hash h2 = true ->
  h1 ++ c_hash :: p1 = h2 ++ c_hash :: p2 -> h1 = h2 /\ p1 = p2.
Proof.
  intros h1 h2 p1 p2 N1 N2 E.
  assert (P : is_prefix (h1 ++ c_hash :: p1) (h2 ++ c_hash :: p2) = true) by (rewrite E; apply is_prefix_refl).
  destruct (hash_prefix _ _ _ _ N1 N2 P) as [-> _]. split; auto.
  apply app_inv_head in E. congruence.
Qed.

(* ------------------------------------------------------------------ stripping *)

Lemma drop_delims_app_keep : forall a c b, is_delim c = false ->
  drop_delims (a ++ c :: b) = drop_delims a ++ c :: b.
Proof.
  induction a as [|x a IH]; intros c b H; cbn.
  - now rewrite H.
  - destruct (is_delim x); auto.
Qed.

Lemma drop_delims_keep : forall c s, is_delim c = false -> drop_delims (c :: s) = c :: s.
Proof. intros c s H. cbn. now rewrite H. Qed.

Definition strip_trail (p : str) : str := rev (drop_delims (rev p)).

Lemma dir_pat_key : forall h p, host_chars_ok h = true ->
  dir_pat (h ++ c_hash :: p) = h ++ c_hash :: strip_trail p.
Proof.
  intros h p H. unfold dir_pat, strip_trail.
  assert (E : drop_delims (h ++ c_hash :: p) = h ++ c_hash :: p).
  { destruct h as [|x h]; cbn [app].
    - apply drop_delims_keep, is_delim_hash.
    - apply drop_delims_keep. apply (host_no_delim (x :: h)); auto. now left. }
  rewrite E. rewrite rev_app_distr. cbn [rev]. rewrite <- app_assoc. cbn [app].
  rewrite drop_delims_app_keep by apply is_delim_hash.
  rewrite rev_app_distr. cbn [rev]. rewrite rev_involutive. rewrite <- app_assoc. reflexivity.
Qed.

Lemma drop_delims_slashes : forall s, no_char c_quest s = true -> drop_delims s = drop_slashes s.
Proof.
  induction s as [|c s IH]; cbn; auto. intro H. apply andb_true_iff in H as [H1 H2].
  unfold is_delim. apply negb_true_iff in H1. rewrite H1, orb_false_r.
  destruct (Ascii.eqb c c_slash); auto.
Qed.

Lemma no_char_rev : forall c s, no_char c (rev s) = no_char c s.
Proof.
  intros c s. destruct (no_char c s) eqn:E.
  - apply no_char_spec. apply no_char_spec in E. intro I. apply E. now apply in_rev.
  - destruct (no_char c (rev s)) eqn:F; auto. apply no_char_spec in F.
    assert (G : ~ In c s) by (intro I; apply F; now apply in_rev in I).
    apply no_char_spec in G. congruence.
Qed.

Lemma strip_trail_slash : forall p, no_char c_quest p = true -> strip_trail p = strip_slash p.
Proof.
  intros p H. unfold strip_trail, strip_slash. rewrite drop_delims_slashes; auto. now rewrite no_char_rev.
Qed.

(* ------------------------------------------------------------------ match_word on keyed samples *)

Definition dirm (pat s : str) : bool := is_prefix pat s && ends_ok (skipn (length pat) s).

Lemma match_word_nohash : forall pat t may, In c_hash pat -> no_char c_hash t = true ->
  match_word pat t may = false.
Proof.
  intros pat t. induction t as [|c t IH]; intros may I N; cbn; auto.
  cbn in N. apply andb_true_iff in N as [N1 N2].
  destruct (is_delim c); auto.
  destruct (is_prefix pat (c :: t)) eqn:P.
  - exfalso. pose proof (prefix_In _ _ _ P I) as J. destruct J as [J|J].
    + subst c. rewrite Ascii.eqb_refl in N1. discriminate.
    + apply no_char_spec in N2. contradiction.
  - rewrite andb_false_r. cbn. auto.
Qed.

Lemma host_chars_ok_cons : forall x h, host_chars_ok (x :: h) = true ->
  is_delim x = false /\ x <> c_hash /\ host_chars_ok h = true.
Proof.
  intros x h H. pose proof (host_no_delim (x :: h) x H (or_introl eq_refl)) as [D N].
  split; auto. split; auto. unfold host_chars_ok in *.
  apply andb_true_iff in H as [H H3]. apply andb_true_iff in H as [H1 H2].
  apply no_char_cons in H1 as [_ H1]. apply no_char_cons in H2 as [_ H2]. apply no_char_cons in H3 as [_ H3].
  now rewrite H1, H2, H3.
Qed.

Lemma match_word_skip_host : forall pat h path, In c_hash pat ->
  host_chars_ok h = true -> no_char c_hash path = true ->
  match_word pat (h ++ c_hash :: path) false = false.
Proof.
  intros pat h path I H N. induction h as [|x h IH]; cbn [app match_word].
  - rewrite is_delim_hash. cbn [andb]. apply match_word_nohash; auto.
  - apply host_chars_ok_cons in H as [D [_ H]]. rewrite D. cbn [andb]. auto.
Qed.

Lemma match_word_key : forall pat h path, In c_hash pat ->
  host_chars_ok h = true -> no_char c_hash path = true ->
  match_word pat (h ++ c_hash :: path) true = dirm pat (h ++ c_hash :: path).
Proof.
  intros pat h path I H N. unfold dirm.
  destruct h as [|x h]; cbn [app match_word].
  - rewrite is_delim_hash. cbn [andb].
    rewrite match_word_nohash; auto.
    destruct (is_prefix pat (c_hash :: path) && ends_ok (skipn (length pat) (c_hash :: path))); auto.
  - apply host_chars_ok_cons in H as [D [_ H]]. rewrite D. cbn [andb].
    rewrite match_word_skip_host; auto.
    destruct (is_prefix pat (x :: h ++ c_hash :: path) && ends_ok (skipn (length pat) (x :: h ++ c_hash :: path))); auto.
Qed.

(* ------------------------------------------------------------------ dirm *)

Lemma dirm_app : forall pat rest, dirm pat (pat ++ rest) = ends_ok rest.
Proof.
  intros. unfold dirm. rewrite is_prefix_app. cbn [andb].
  rewrite skipn_app, skipn_all, Nat.sub_diag. reflexivity.
Qed.

Lemma dirm_inv : forall pat s, dirm pat s = true -> exists rest, s = pat ++ rest /\ ends_ok rest = true.
Proof.
  intros pat s H. pose proof H as H0. unfold dirm in H. apply andb_true_iff in H as [H _].
  apply is_prefix_spec in H as [rest ->]. exists rest. split; auto. now rewrite dirm_app in H0.
Qed.

Lemma ends_ok_lower : forall s, ends_ok (lower s) = ends_ok s.
Proof. destruct s; cbn; auto. apply is_delim_lower. Qed.

Lemma dirm_lower : forall pat s, dirm pat s = true -> dirm (lower pat) (lower s) = true.
Proof.
  intros pat s H. apply dirm_inv in H as [rest [-> E]].
  rewrite lower_app, dirm_app, ends_ok_lower. exact E.
Qed.

Lemma dirm_prefix_conflict : forall k P s, is_prefix k s = true -> dirm P s = true ->
  length P <= length k -> dir_prefix P k = true.
Proof.
  intros k P s Hk HP L. apply dirm_inv in HP as [rest [-> E]].
  assert (PK : is_prefix P k = true) by (eapply is_prefix_both; eauto; apply is_prefix_app).
  apply is_prefix_spec in PK as [r2 ->].
  unfold dir_prefix. rewrite is_prefix_app. cbn [andb].
  rewrite skipn_app, skipn_all, Nat.sub_diag. cbn [skipn app].
  rewrite is_prefix_app_same in Hk. apply is_prefix_spec in Hk as [r3 ->].
  destruct r2; auto.
Qed.

(* ------------------------------------------------------------------ entries of rules *)

Definition is_beg (m : meth) : bool := match m with MBeg => true | _ => false end.

Definition fe_matches (e : fentry) (s : str) : bool :=
  entry_match (fe_meth e) (fe_key e) (file_sample (is_beg (fe_meth e)) s).

Definition rule_entry (r : rule) : fentry := (meth_of (rtype r), key_of r, rtarget r).

Lemma sample_lower : forall h p, lower (sample h p) = lower h ++ c_hash :: lower p.
Proof. intros. unfold sample. rewrite lower_app. cbn. now rewrite lower_idem. Qed.

Lemma wf_ruleb_inv : forall r, wf_ruleb r = true ->
  host_chars_ok (lower (rhost r)) = true /\ path_chars_ok (rpath r) = true /\ rtype r <> Regex.
Proof.
  intros r H. unfold wf_ruleb in H.
  repeat (apply andb_true_iff in H as [H ?]).
  rewrite host_chars_ok_lower. repeat split; auto.
  intro E. rewrite E in H0. discriminate.
Qed.

Lemma host_ok_nohash : forall h, host_chars_ok h = true -> no_char c_hash h = true.
Proof. intros h H. unfold host_chars_ok in H. now apply andb_true_iff in H as [_ H]. Qed.

Lemma prefix_entry_dirm : forall r host path, wf_ruleb r = true -> wf_request host path ->
  rtype r = Prefix ->
  fe_matches (rule_entry r) (sample host path) = dirm (dir_pat (key_of r)) (sample host path)
  /\ dir_pat (key_of r) = lower (rhost r) ++ c_hash :: strip_slash (rpath r).
Proof.
  intros r host path W [Wh Wp] T. apply wf_ruleb_inv in W as [H [P _]].
  unfold fe_matches, rule_entry, key_of, fe_meth, fe_key. rewrite T. cbn [fst snd meth_of is_beg file_sample entry_match].
  rewrite dir_pat_key by auto.
  unfold path_chars_ok in P, Wp. apply andb_true_iff in P as [_ P]. apply andb_true_iff in Wp as [Wp _].
  rewrite strip_trail_slash by auto. split; auto.
  unfold sample. apply match_word_key; auto.
  - apply in_or_app. right. now left.
  - now rewrite host_chars_ok_lower.
Qed.

Lemma applies_match : forall r host path, wf_ruleb r = true -> wf_request host path ->
  (fe_matches (rule_entry r) (sample host path) = true <-> applies r host path).
Proof.
  intros r host path W Wr. pose proof W as W0. pose proof Wr as [Wh Wp].
  apply wf_ruleb_inv in W as [H [P NR]].
  assert (N1 : no_char c_hash (lower (rhost r)) = true) by now apply host_ok_nohash.
  assert (N2 : no_char c_hash (lower host) = true) by (apply host_ok_nohash; now rewrite host_chars_ok_lower).
  unfold applies. destruct (rtype r) eqn:T; [| | |congruence].
  - (* exact *)
    unfold fe_matches, rule_entry, key_of, fe_meth, fe_key. rewrite T.
    cbn [fst snd meth_of is_beg file_sample entry_match path_matches]. rewrite str_eqb_eq. unfold sample. split.
    + intro E. apply hash_eq in E as [E1 E2]; auto.
    + intros [E1 E2]. congruence.
  - (* prefix *)
    destruct (prefix_entry_dirm r host path W0 Wr T) as [-> ->].
    cbn [path_matches]. unfold sample. split.
    + intro D. apply dirm_inv in D as [rest [E K]].
      rewrite <- app_assoc in E. cbn [app] in E. apply hash_eq in E as [E1 E2]; auto.
      split; auto. destruct rest as [|d rest].
      * left. now rewrite app_nil_r in E2.
      * right. cbn in K. apply is_delim_cases in K as [->| ->].
        -- eauto.
        -- exfalso. unfold path_chars_ok in Wp. apply andb_true_iff in Wp as [_ Wp].
           apply no_char_spec in Wp. apply Wp. rewrite E2. apply in_or_app. right. now left.
    + intros [E [->|[rest ->]]]; rewrite E.
      * replace (lower host ++ c_hash :: strip_slash (rpath r)) with ((lower host ++ c_hash :: strip_slash (rpath r)) ++ []) at 2
          by apply app_nil_r.
        now rewrite dirm_app.
      * replace (lower host ++ c_hash :: strip_slash (rpath r) ++ c_slash :: rest)
          with ((lower host ++ c_hash :: strip_slash (rpath r)) ++ c_slash :: rest)
          by (now rewrite <- app_assoc).
        now rewrite dirm_app.
  - (* begin *)
    unfold fe_matches, rule_entry, key_of, fe_meth, fe_key. rewrite T.
    cbn [fst snd meth_of is_beg file_sample entry_match path_matches]. rewrite sample_lower. split.
    + intro E. apply hash_prefix in E as [E1 E2]; auto. split; auto. now apply is_prefix_spec.
    + intros [E1 E2]. rewrite E1.
      rewrite (is_prefix_app_same (lower host) (c_hash :: lower (rpath r)) (c_hash :: lower path)).
      cbn [is_prefix]. rewrite Ascii.eqb_refl. cbn [andb]. now apply is_prefix_spec.
Qed.

(* keys of one host: the length of the key orders like the length of the declared path *)
Lemma key_of_length : forall r, length (key_of r) = length (rhost r) + 1 + length (rpath r).
Proof.
  intro r. unfold key_of. rewrite app_length, lower_length. cbn [length].
  destruct (rtype r); rewrite ?lower_length; lia.
Qed.

(* ------------------------------------------------------------------ conflictb is complete *)

Lemma begin_entry_prefix : forall r host path, rtype r = Begin ->
  fe_matches (rule_entry r) (sample host path) = is_prefix (key_of r) (lower (sample host path)).
Proof.
  intros r host path T. unfold fe_matches, rule_entry, fe_meth, fe_key. rewrite T. reflexivity.
Qed.

Lemma conflict_sound : forall r1 r2 host path,
  wf_ruleb r1 = true -> wf_ruleb r2 = true -> wf_request host path ->
  rtype r1 <> Exact -> rtype r2 <> Exact ->
  fe_matches (rule_entry r1) (sample host path) = true ->
  fe_matches (rule_entry r2) (sample host path) = true ->
  conflictb (rule_entry r1) (rule_entry r2) = true.
Proof.
  intros r1 r2 host path W1 W2 Wr X1 X2 M1 M2.
  pose proof (wf_ruleb_inv _ W1) as [_ [_ R1]]. pose proof (wf_ruleb_inv _ W2) as [_ [_ R2]].
  unfold conflictb, rule_entry, fe_meth, fe_key. cbn [fst snd].
  destruct (rtype r1) eqn:T1; try congruence; destruct (rtype r2) eqn:T2; try congruence; cbn [meth_of].
  - (* dir dir *)
    destruct (prefix_entry_dirm r1 host path W1 Wr T1) as [E1 _]. rewrite E1 in M1.
    destruct (prefix_entry_dirm r2 host path W2 Wr T2) as [E2 _]. rewrite E2 in M2.
    apply orb_true_iff.
    destruct (le_ge_dec (length (dir_pat (key_of r1))) (length (dir_pat (key_of r2)))).
    + left. eapply dirm_prefix_conflict; eauto. unfold dirm in M2. now apply andb_true_iff in M2 as [M2 _].
    + right. eapply dirm_prefix_conflict; eauto. unfold dirm in M1. now apply andb_true_iff in M1 as [M1 _].
  - (* dir beg *)
    destruct (prefix_entry_dirm r1 host path W1 Wr T1) as [E1 _]. rewrite E1 in M1.
    rewrite begin_entry_prefix in M2 by auto.
    apply dirm_lower in M1. apply orb_true_iff.
    destruct (le_ge_dec (length (key_of r2)) (length (lower (dir_pat (key_of r1))))).
    + left. eapply is_prefix_both; eauto. unfold dirm in M1. now apply andb_true_iff in M1 as [M1 _].
    + right. eapply dirm_prefix_conflict; eauto.
  - (* beg dir *)
    destruct (prefix_entry_dirm r2 host path W2 Wr T2) as [E2 _]. rewrite E2 in M2.
    rewrite begin_entry_prefix in M1 by auto.
    apply dirm_lower in M2. apply orb_true_iff.
    destruct (le_ge_dec (length (key_of r1)) (length (lower (dir_pat (key_of r2))))).
    + left. eapply is_prefix_both; eauto. unfold dirm in M2. now apply andb_true_iff in M2 as [M2 _].
    + right. eapply dirm_prefix_conflict; eauto.
  - (* beg beg *)
    rewrite begin_entry_prefix in M1, M2 by auto. apply orb_true_iff.
    destruct (le_ge_dec (length (key_of r1)) (length (key_of r2))).
    + left. eapply is_prefix_both; eauto.
    + right. eapply is_prefix_both; eauto.
Qed.

(* ------------------------------------------------------------------ lookups *)

Definition fl (f : matchfile) : list fentry := map (fun kv => (mmeth f, fst kv, snd kv)) (mentries f).

Lemma flat_cons : forall f fs, flat (f :: fs) = fl f ++ flat fs.
Proof. reflexivity. Qed.

Lemma beats_self : forall e, beats e e = false.
Proof.
  intro e. unfold beats. destruct (is_str (fe_meth e)) eqn:E.
  - reflexivity.
  - rewrite Nat.ltb_irrefl. apply andb_false_r.
Qed.

Lemma ordered_app : forall a b, ordered (a ++ b) = true ->
  ordered a = true /\ ordered b = true /\ forall x y, In x a -> In y b -> beats y x = false.
Proof.
  induction a as [|e a IH]; intros b H; cbn [app ordered] in *.
  - repeat split; auto. intros x y [].
  - apply andb_true_iff in H as [H1 H2]. apply IH in H2 as [Ha [Hb Hab]].
    rewrite forallb_app in H1. apply andb_true_iff in H1 as [H1a H1b].
    rewrite H1a, Ha. repeat split; auto.
    intros x y [->|I] J; auto.
    rewrite forallb_forall in H1b. apply H1b in J. now apply negb_true_iff in J.
Qed.

Lemma ordered_cons_later : forall e l x, ordered (e :: l) = true -> In x l -> beats x e = false.
Proof.
  intros e l x H I. cbn in H. apply andb_true_iff in H as [H _].
  rewrite forallb_forall in H. apply H in I. now apply negb_true_iff in I.
Qed.

Lemma hd_filter_some : forall (A : Type) (P : A -> bool) l a, hd_error (filter P l) = Some a ->
  exists l1 l2, l = l1 ++ a :: l2 /\ P a = true /\ forall x, In x l1 -> P x = false.
Proof.
  intros A P. induction l as [|x l IH]; intros a H; cbn in H; [discriminate|].
  destruct (P x) eqn:E.
  - cbn in H. inversion H; subst. exists [], l. repeat split; auto. intros y [].
  - apply IH in H as [l1 [l2 [-> [Pa Hl]]]]. exists (x :: l1), l2. repeat split; auto.
    intros y [->|I]; auto.
Qed.

Lemma hd_filter_none : forall (A : Type) (P : A -> bool) l, hd_error (filter P l) = None ->
  forall x, In x l -> P x = false.
Proof.
  intros A P. induction l as [|y l IH]; intros H x I; [destruct I|].
  cbn in H. destruct (P y) eqn:E; [discriminate|]. destruct I as [->|I]; auto.
Qed.

Lemma longest_spec : forall l best kv, longest best l = Some kv ->
  (best = Some kv \/ In kv l) /\
  (forall b, best = Some b -> length (fst b) <= length (fst kv)) /\
  (forall x, In x l -> length (fst x) <= length (fst kv)).
Proof.
  induction l as [|x l IH]; intros best kv H; cbn [longest] in H.
  - subst. repeat split; auto. + intros b E. inversion E; subst; auto. + intros x [].
  - destruct best as [b|].
    + destruct (length (fst b) <? length (fst x)) eqn:E.
      * apply Nat.ltb_lt in E. apply IH in H as [H1 [H2 H3]]. repeat split.
        -- right. destruct H1 as [H1|H1]; [inversion H1; subst; now left | now right].
        -- intros b' Eb. inversion Eb; subst. specialize (H2 _ eq_refl). lia.
        -- intros y [->|I]; auto.
      * apply Nat.ltb_ge in E. apply IH in H as [H1 [H2 H3]]. repeat split.
        -- destruct H1 as [H1|H1]; [now left | right; now right].
        -- auto.
        -- intros y [->|I]; auto. specialize (H2 _ eq_refl). lia.
    + apply IH in H as [H1 [H2 H3]]. repeat split.
      * right. destruct H1 as [H1|H1]; [inversion H1; subst; now left | now right].
      * intros b E. discriminate.
      * intros y [->|I]; auto.
Qed.

Lemma longest_none : forall l, longest None l = None -> l = [].
Proof.
  destruct l as [|x l]; auto. cbn. intro H. exfalso.
  assert (G : forall l b, longest (Some b) l <> None).
  { induction l0 as [|y l0 IH]; intros b; cbn [longest]; [congruence|]. destruct (_ <? _); apply IH. }
  now apply G in H.
Qed.

Lemma file_ok_lower : forall f, file_ok f = true -> mlower f = is_beg (mmeth f) /\ mmeth f <> MReg.
Proof.
  intros f H. unfold file_ok in H. destruct (mmeth f); cbn; split; try congruence;
    try (apply negb_true_iff in H; auto); auto.
Qed.

Definition other_ok (all : list fentry) (s : str) (e : fentry) : Prop :=
  forall x, In x all -> fe_matches x s = true ->
    (ordered all = true -> beats x e = false) \/
    (fe_meth x = MBeg /\ fe_meth e = MBeg /\ length (fe_key x) <= length (fe_key e)).

Lemma file_lookup_some : forall tree f s v, file_ok f = true -> file_lookup tree f s = Some v ->
  exists e, In e (fl f) /\ fe_val e = v /\ fe_matches e s = true /\ other_ok (fl f) s e.
Proof.
  intros tree f s v OK H. apply file_ok_lower in OK as [L NR]. unfold file_lookup in H.
  set (P := fun kv : str * str => entry_match (mmeth f) (fst kv) (file_sample (mlower f) s)) in *.
  assert (PM : forall kv, fe_matches (mmeth f, fst kv, snd kv) s = P kv).
  { intro kv. unfold fe_matches, fe_meth, fe_key, P. cbn [fst snd]. now rewrite L. }
  assert (LIST : forall kv, hd_error (filter P (mentries f)) = Some kv ->
     In (mmeth f, fst kv, snd kv) (fl f) /\ fe_matches (mmeth f, fst kv, snd kv) s = true /\
     other_ok (fl f) s (mmeth f, fst kv, snd kv)).
  { intros kv Hh. apply hd_filter_some in Hh as [l1 [l2 [E [Pa Hl]]]].
    unfold fl. rewrite E, map_app. cbn [map]. split; [apply in_or_app; right; now left|].
    split; [now rewrite PM|].
    intros x I Mx. left. intro O. apply in_app_or in I as [I|[<-|I]].
    - exfalso. apply in_map_iff in I as [kv' [<- I]]. rewrite PM in Mx. apply Hl in I. congruence.
    - apply beats_self.
    - apply ordered_app in O as [_ [O _]]. eapply ordered_cons_later; eauto. }
  destruct (mmeth f) eqn:M; try congruence.
  - destruct (hd_error (filter P (mentries f))) as [kv|] eqn:Hh; [|discriminate].
    cbn in H. inversion H; subst. destruct (LIST kv eq_refl) as [A [B C]]. eauto.
  - destruct tree.
    + destruct (longest None (filter P (mentries f))) as [kv|] eqn:Hl; [|discriminate].
      cbn in H. inversion H; subst. apply longest_spec in Hl as [[Hl|Hl] [_ Hmax]]; [discriminate|].
      apply filter_In in Hl as [I Pa].
      exists (MBeg, fst kv, snd kv). split; [unfold fl; rewrite M; apply in_map_iff; eauto|].
      split; auto. split; [now rewrite PM|].
      intros x Ix Mx. right. unfold fl in Ix. rewrite M in Ix. apply in_map_iff in Ix as [kv' [<- Ix]].
      repeat split; auto. unfold fe_key. cbn [fst snd]. apply Hmax. apply filter_In. split; auto.
      now rewrite <- PM.
    + destruct (hd_error (filter P (mentries f))) as [kv|] eqn:Hh; [|discriminate].
      cbn in H. inversion H; subst. destruct (LIST kv eq_refl) as [A [B C]]. eauto.
  - destruct (hd_error (filter P (mentries f))) as [kv|] eqn:Hh.
    + assert (v = snd kv) by (destruct tree; cbn in H; congruence). subst.
      destruct (LIST kv eq_refl) as [A [B C]]. eauto.
    + destruct tree; discriminate.
Qed.

Lemma file_lookup_none : forall tree f s, file_ok f = true -> file_lookup tree f s = None ->
  forall x, In x (fl f) -> fe_matches x s = false.
Proof.
  intros tree f s OK H x I. apply file_ok_lower in OK as [L NR]. unfold file_lookup in H.
  set (P := fun kv : str * str => entry_match (mmeth f) (fst kv) (file_sample (mlower f) s)) in *.
  assert (PM : forall kv, fe_matches (mmeth f, fst kv, snd kv) s = P kv).
  { intro kv. unfold fe_matches, fe_meth, fe_key, P. cbn [fst snd]. now rewrite L. }
  unfold fl in I. apply in_map_iff in I as [kv [<- I]]. rewrite PM.
  assert (E : filter P (mentries f) = []).
  { destruct (mmeth f); destruct tree; try congruence;
      try (destruct (filter P (mentries f)); [reflexivity | discriminate]).
    destruct (longest None (filter P (mentries f))) eqn:Hl; [discriminate|]. now apply longest_none. }
  destruct (P kv) eqn:Pk; auto.
  assert (J : In kv (filter P (mentries f))) by (apply filter_In; auto). rewrite E in J. destruct J.
Qed.

Lemma lookup_some : forall tree files s v, forallb file_ok files = true ->
  lookup tree files s = Some v ->
  exists e, In e (flat files) /\ fe_val e = v /\ fe_matches e s = true /\ other_ok (flat files) s e.
Proof.
  intros tree files s v. induction files as [|f fs IH]; intros OK H; cbn [lookup] in H; [discriminate|].
  cbn [forallb] in OK. apply andb_true_iff in OK as [OKf OKs]. rewrite flat_cons.
  destruct (file_lookup tree f s) as [v'|] eqn:F.
  - inversion H; subst. apply file_lookup_some in F as [e [I [V [M O]]]]; auto.
    exists e. split; [apply in_or_app; now left|]. split; auto. split; auto.
    intros x Ix Mx. apply in_app_or in Ix as [Ix|Ix].
    + destruct (O x Ix Mx) as [O1|O1]; [left|now right].
      intro Ord. apply ordered_app in Ord as [Ord _]. auto.
    + left. intro Ord. apply ordered_app in Ord as [_ [_ Ord]]. auto.
  - destruct (IH OKs H) as [e [I [V [M O]]]].
    exists e. split; [apply in_or_app; now right|]. split; auto. split; auto.
    intros x Ix Mx. apply in_app_or in Ix as [Ix|Ix].
    + pose proof (file_lookup_none _ _ _ OKf F x Ix). congruence.
    + destruct (O x Ix Mx) as [O1|O1]; [left|now right].
      intro Ord. apply ordered_app in Ord as [_ [Ord _]]. auto.
Qed.

Lemma lookup_none : forall tree files s, forallb file_ok files = true ->
  lookup tree files s = None -> forall x, In x (flat files) -> fe_matches x s = false.
Proof.
  intros tree files s. induction files as [|f fs IH]; intros OK H x I; [destruct I|].
  cbn [forallb] in OK. apply andb_true_iff in OK as [OKf OKs]. rewrite flat_cons in I.
  cbn [lookup] in H. destruct (file_lookup tree f s) eqn:F; [discriminate|].
  apply in_app_or in I as [I|I]; [eapply file_lookup_none; eauto | auto].
Qed.

(* ------------------------------------------------------------------ theorem A *)

Lemma entry_of_rule_inv : forall rules e, entry_of_rule rules e = true ->
  exists r, In r rules /\ e = rule_entry r.
Proof.
  intros rules e H. unfold entry_of_rule in H. apply existsb_exists in H as [r [I H]].
  apply andb_true_iff in H as [H H3]. apply andb_true_iff in H as [H1 H2].
  apply str_eqb_eq in H2, H3. exists r. split; auto.
  destruct e as [[m k] v]. unfold rule_entry, fe_meth, fe_key, fe_val in *. cbn [fst snd] in *. subst.
  f_equal. f_equal. destruct (rtype r), m; cbn in *; congruence.
Qed.

Lemma rule_in_files_inv : forall files r, existsb (rule_in_file r) files = true ->
  In (rule_entry r) (flat files).
Proof.
  intros files r H. apply existsb_exists in H as [f [I H]]. unfold rule_in_file in H.
  apply andb_true_iff in H as [H1 H2]. apply existsb_exists in H2 as [kv [J H2]].
  apply andb_true_iff in H2 as [H2 H3]. apply str_eqb_eq in H2, H3.
  unfold flat. apply in_flat_map. exists f. split; auto. apply in_map_iff. exists kv. split; auto.
  unfold rule_entry. rewrite H2, H3. f_equal. f_equal.
  destruct (rtype r), (mmeth f); cbn in *; congruence.
Qed.

Theorem layout_ok_sound : forall tree files rules, layout_ok files rules = true ->
  forall host path, wf_request host path ->
  match lookup tree files (sample host path) with
  | Some v => exists r, best rules host path r /\ rtarget r = v
  | None => forall r, In r rules -> ~ applies r host path
  end.
Proof.
  intros tree files rules OK host path Wr. unfold layout_ok in OK.
  apply andb_true_iff in OK as [OK Hord]. apply andb_true_iff in OK as [OK Hent].
  apply andb_true_iff in OK as [OK Hpres]. apply andb_true_iff in OK as [Hwf Hfiles].
  rewrite forallb_forall in Hwf, Hpres, Hent.
  destruct (lookup tree files (sample host path)) as [v|] eqn:L.
  - apply lookup_some in L as [e [I [V [M O]]]]; auto.
    destruct (entry_of_rule_inv _ _ (Hent _ I)) as [r [Ir ->]].
    exists r. split; [|exact V]. split; auto.
    assert (Ar : applies r host path) by (apply applies_match; auto).
    split; auto.
    destruct (rtype r) eqn:T; [now left| | |]; right; intros r' Ir' Ar'.
    all: assert (Ix : In (rule_entry r') (flat files)) by (apply rule_in_files_inv; auto).
    all: assert (Mx : fe_matches (rule_entry r') (sample host path) = true) by (apply applies_match; auto).
    all: pose proof (wf_ruleb_inv _ (Hwf _ Ir)) as [_ [_ NRr]]; try congruence.
    all: assert (NE : rtype r' <> Exact).
    all: try (intro X; destruct (O _ Ix Mx) as [B|[B _]];
           [ specialize (B Hord); unfold beats, rule_entry, fe_meth, fe_key in B; cbn [fst snd] in B;
             rewrite X, T in B; cbn [meth_of is_str negb andb] in B;
             assert (K : key_of r' = sample host path)
               by (unfold key_of, sample; rewrite X; destruct Ar' as [E1 E2]; rewrite X in E2; cbn in E2; congruence);
             rewrite K in B; unfold fe_matches, rule_entry, fe_meth, fe_key in M; cbn [fst snd] in M;
             rewrite T in M; cbn [meth_of is_beg] in M; congruence
           | unfold rule_entry, fe_meth in B; cbn [fst snd] in B; rewrite X in B; discriminate ]).
    all: split; auto.
    all: destruct (le_lt_dec (length (rpath r')) (length (rpath r))) as [|LT]; auto; exfalso.
    all: assert (HL : length (rhost r') = length (rhost r))
           by (destruct Ar as [E1 _], Ar' as [E2 _]; rewrite <- (lower_length (rhost r')), <- (lower_length (rhost r)); congruence).
    all: assert (KL : length (key_of r) < length (key_of r')) by (rewrite !key_of_length; lia).
    all: destruct (O _ Ix Mx) as [B|[_ [_ B]]];
           [| unfold rule_entry, fe_key in B; cbn [fst snd] in B; lia].
    all: specialize (B Hord); unfold beats in B.
    all: assert (S1 : is_str (fe_meth (rule_entry r')) = false)
           by (unfold rule_entry, fe_meth; cbn [fst]; destruct (rtype r'); try congruence; auto;
               exfalso; pose proof (wf_ruleb_inv _ (Hwf _ Ir')) as [_ [_ Q]]; congruence).
    all: assert (S2 : is_str (fe_meth (rule_entry r)) = false)
           by (unfold rule_entry, fe_meth; cbn [fst]; rewrite T; auto).
    all: rewrite S1, S2 in B; cbn [negb andb] in B.
    all: assert (C : conflictb (rule_entry r') (rule_entry r) = true)
           by (eapply conflict_sound; eauto; congruence).
    all: rewrite C in B; cbn [andb] in B; apply Nat.ltb_ge in B.
    all: unfold rule_entry, fe_key in B; cbn [fst snd] in B; lia.
  - intros r Ir Ar.
    assert (Ix : In (rule_entry r) (flat files)) by (apply rule_in_files_inv; auto).
    assert (Mx : fe_matches (rule_entry r) (sample host path) = true) by (apply applies_match; auto).
    pose proof (lookup_none _ _ _ Hfiles L _ Ix). congruence.
Qed.

(* a rule of one host never answers a request for another host *)
Corollary lookup_same_host : forall tree files rules, layout_ok files rules = true ->
  forall host path v, wf_request host path -> lookup tree files (sample host path) = Some v ->
  exists r, In r rules /\ rtarget r = v /\ lower (rhost r) = lower host /\ path_matches (rtype r) (rpath r) path.
Proof.
  intros tree files rules OK host path v W L.
  pose proof (layout_ok_sound tree files rules OK host path W) as S. rewrite L in S.
  destruct S as [r [[I [[A1 A2] _]] T]]. eauto.
Qed.

(* when the allowed answer is unique, it is the answer *)
Corollary lookup_unique_best : forall tree files rules, layout_ok files rules = true ->
  forall host path r, wf_request host path -> best rules host path r ->
  (forall r', best rules host path r' -> rtarget r' = rtarget r) ->
  lookup tree files (sample host path) = Some (rtarget r).
Proof.
  intros tree files rules OK host path r W B U.
  pose proof (layout_ok_sound tree files rules OK host path W) as S.
  destruct (lookup tree files (sample host path)) as [v|].
  - destruct S as [r' [B' <-]]. f_equal. now apply U.
  - destruct B as [I [A _]]. exfalso. eapply S; eauto.
Qed.

(* the hypotheses are satisfiable: a layout the checker accepts, and one it rejects *)
Example layout_ok_example :
  let rules := [ {| rhost := s2l "h"; rpath := s2l "/App/sub"; rtype := Prefix; rtarget := s2l "t0" |};
                 {| rhost := s2l "h"; rpath := s2l "/app"; rtype := Begin; rtarget := s2l "t1" |};
                 {| rhost := s2l "h"; rpath := s2l "/app"; rtype := Exact; rtarget := s2l "t2" |} ] in
  layout_ok [ {| mmeth := MStr; mlower := false; mentries := [(s2l "h#/app", s2l "t2")] |};
              {| mmeth := MDir; mlower := false; mentries := [(s2l "h#/App/sub", s2l "t0")] |};
              {| mmeth := MBeg; mlower := true; mentries := [(s2l "h#/app", s2l "t1")] |} ] rules = true
  /\
  layout_ok [ {| mmeth := MStr; mlower := false; mentries := [(s2l "h#/app", s2l "t2")] |};
              {| mmeth := MBeg; mlower := true; mentries := [(s2l "h#/app", s2l "t1")] |};
              {| mmeth := MDir; mlower := false; mentries := [(s2l "h#/App/sub", s2l "t0")] |} ] rules = false.
Proof. vm_compute. split; reflexivity. Qed.
