(* C01 for Model/ConvDB.v (spec.defaultBackend), under the hypothesis that excludes exactly
   the known finding C01/ingress-default-backend-not-pretracked.

   H_db w' x b: whenever the batch adds or updates an ingress that carries a default backend
   (and is in the new cluster), QueryLinks -- asked on the tracker of x plus the links of
   trackAddedIngress -- returns the default host.  trackAddedIngress does not link such an
   ingress to the default host (it pre-tracks the backend only), so this does not hold in
   general: default_backend_refuted.  It does hold e.g. when no added / updated ingress has
   a default backend (H_db_no_db), or when each of them also has a rule without host.

   Under H_db the partial sync of ConvDB re-establishes, for every cluster, every well
   formed batch (several events per object included) that names the changed Services,
   Endpoints and Secrets, the invariant InvO_d: hosts of a full sync, tracker symmetric,
   every ingress linked to the hosts it may write (the default host possibly through the
   Service it could not resolve: dlink), the Service-Host links of a full sync, the
   Ingress-Secret links, fresh and anchored backends.  Hence the history theorems
   model_history_d_hosts / model_history_d_obs.  The proof is the host by host simulation
   of Proofs/ConvHist.v (general step), with sync_db added to every level. *)
From Coq Require Import List Bool String ZArith Lia Relations Sorted Permutation.
From HI Require Import Model.Tracker Model.Conv Model.ConvDB Proofs.Tracker Proofs.IncSync Proofs.Conv
                       Proofs.ConvSort Proofs.ConvHist_base Proofs.ConvHist_keys Proofs.ConvHist_sim
                       Proofs.ConvBack Proofs.ConvHist Proofs.ConvDB_base Proofs.ConvDB.
Import ListNotations.
Open Scope string_scope.

(* ---------- invariants ---------- *)
Definition links_ok_d (w : dworld) (T : ctracker) : Prop :=
  (forall d h, In d (dw_ings w) -> In h (declared (d_ing d)) -> In (dnode d, (KHost, h)) T) /\
  (forall d, In d (dw_ings w) -> d_db d <> None -> dlink T (dname d)).

Definition Inv_d (w : dworld) (x : st) : Prop :=
  hosts_eq (fst x) (fst (sync_full_d w)) /\ symmetric node (snd x) /\ links_ok_d w (snd x).

Definition svc_run_ok_d (w : dworld) (T : ctracker) : Prop :=
  forall n h, In (hsvc n h) (snd (sync_full_d w)) -> In (hsvc n h) T.

Definition sec_links_ok_d (w : dworld) (T : ctracker) : Prop :=
  forall d blk, In d (dw_ings w) -> In blk (i_tls (d_ing d)) -> fst blk <> [] -> snd blk <> "" ->
    In (sec_link (d_ing d) (snd blk)) T.

Definition InvO_d (w : dworld) (x : st) : Prop :=
  Inv_d w x /\ svc_run_ok_d w (snd x) /\ sec_links_ok_d w (snd x) /\ J (base w) x.

(* ---------- batches ---------- *)
Record batch_wf_d (w w' : dworld) (b : dbatch) : Prop := {
  dwf_nodup : NoDup (map dname (dw_ings w));
  dwf_nodup' : NoDup (map dname (dw_ings w'));
  dwf_new : forall d, In d (dw_ings w') -> ~ In d (dw_ings w) -> In d (db_add b) \/ In d (db_upd b);
  dwf_gone : forall n, In n (map dname (dw_ings w)) -> ~ In n (map dname (dw_ings w')) -> In n (db_del b);
  dwf_readd : forall n, In n (db_del b) -> In n (map dname (dw_ings w')) -> In n (map dname (db_add b));
  dwf_added_current : forall d, In d (db_add b) -> ~ In (dname d) (db_del b) ->
                        ~ In (dname d) (map dname (db_upd b)) -> In d (dw_ings w');
  dwf_links_ing : forall d, In d (db_add b ++ db_upd b) -> In (KIngress, dname d) (db_links b);
  dwf_links_del : forall n, In n (db_del b) -> In (KIngress, n) (db_links b)
}.

Definition T1_d (w' : dworld) (x : st) (b : dbatch) : ctracker :=
  fold_left (track_added_d (base w') (fst x)) (db_add b ++ db_upd b) (snd x).

(* the hypothesis that excludes the finding *)
Definition H_db (w' : dworld) (x : st) (b : dbatch) : Prop :=
  forall d, In d (db_add b ++ db_upd b) -> In d (dw_ings w') -> d_db d <> None ->
    reach node (T1_d w' x b) (db_links b) (KHost, default_host).

Lemma H_db_no_db w' x b :
  (forall d, In d (db_add b ++ db_upd b) -> d_db d = None) -> H_db w' x b.
Proof. intros H d Hd _ Hn. rewrite (H d Hd) in Hn. contradiction. Qed.

Lemma map_dname l : map i_full (map d_ing l) = map dname l.
Proof. rewrite map_map. reflexivity. Qed.

Lemma track_added_d_grows w s T d : grows T (track_added_d w s T d).
Proof.
  unfold track_added_d. eapply grows_trans; [|apply track_added_grows].
  destruct (d_db d) as [[svc port]|]; [|apply grows_refl].
  destruct (find_backend w s (d_ing d) (root_rule svc port)); [apply grows_track|apply grows_refl].
Qed.

Lemma track_added_d_link w s T d h : In h (declared (d_ing d)) ->
  In (dnode d, (KHost, h)) (track_added_d w s T d).
Proof. intros Hh. unfold track_added_d. apply track_added_link. exact Hh. Qed.

Lemma find_d_spec w n d : NoDup (map dname (dw_ings w)) ->
  find_d w n = Some d <-> In d (dw_ings w) /\ dname d = n.
Proof.
  intros Hn. unfold find_d. split.
  - intros H. apply find_some in H as [Hin He]. apply String.eqb_eq in He. tauto.
  - intros [Hi <-]. destruct (find _ (dw_ings w)) as [j|] eqn:E.
    + apply find_some in E as [Hin He]. apply String.eqb_eq in He. f_equal.
      eapply NoDup_dnames_inj; [exact Hn|exact Hin|exact Hi|exact He].
    + exfalso. pose proof (find_none _ _ E d Hi) as Hc. cbn in Hc. unfold dname in Hc.
      rewrite String.eqb_refl in Hc. discriminate.
Qed.

Section StepD.
  Variables (w w' : dworld) (s : cstate) (T : ctracker) (b : dbatch).
  Hypothesis Hok : batch_wf_d w w' b.
  Hypothesis Hsym : symmetric node T.
  Hypothesis Hlinks : links_ok_d w T.
  Variables (out : list node) (T2 : ctracker).

  Notation T1 := (T1_d w' (s, T) b).
  Notation C := (reach node T1 (db_links b)).
  Notation dirty := (fun d => dirty_of out (base_batch b) (d_ing d)).
  Notation dirtyM := (fun d => dirtyM_of out (base_batch b) (d_ing d)).
  Notation ord := (dsort (dw_ings w)).
  Notation ord' := (dsort (dw_ings w')).

  Hypothesis Hq : query_remove node_eqb T1 (db_links b) = Some (out, T2).
  Hypothesis Hdb : H_db w' (s, T) b.

  Lemma dT1_grows : grows T T1.
  Proof. unfold T1_d. cbn [fst snd]. apply fold_grows. intros; apply track_added_d_grows. Qed.

  Lemma dT1_sym : symmetric node T1.
  Proof. apply (proj2 dT1_grows). exact Hsym. Qed.

  Lemma dT1_incl e : In e T -> In e T1.
  Proof. apply (proj1 dT1_grows). Qed.

  Lemma dT1_new d h : In d (db_add b ++ db_upd b) -> In h (declared (d_ing d)) -> In (dnode d, (KHost, h)) T1.
  Proof.
    intros Hd Hh. unfold T1_d. cbn [fst snd]. apply (fold_grows_at _ _ d); [|exact Hd|].
    - intros; apply track_added_d_grows.
    - intros T0. apply track_added_d_link. exact Hh.
  Qed.

  Lemma dcomp :
    (forall m, In m out <-> C m) /\
    (forall a c, In (a, c) T2 <-> In (a, c) T1 /\ ~ C a) /\
    (forall n, In n (db_links b) -> (exists m, edge node T1 n m) -> In n out).
  Proof. exact (query_remove_component node node_eqb node_eqb_spec T1 (db_links b) out T2 dT1_sym Hq). Qed.

  Lemma dC_closed a c : C a -> edge node T1 a c -> C c.
  Proof.
    intros (n & Hn & Hr) He. exists n. split; [exact Hn|].
    eapply t_trans; [exact Hr|apply t_step; exact He].
  Qed.

  Lemma dC_back a c : C c -> edge node T1 a c -> C a.
  Proof. intros Hc He. eapply dC_closed; [exact Hc|]. apply dT1_sym. exact He. Qed.

  Lemma dC_input n m : In n (db_links b) -> edge node T1 n m -> C n.
  Proof.
    intros Hn He. apply (proj1 dcomp). apply (proj2 (proj2 dcomp)); [exact Hn|]. exists m. exact He.
  Qed.

  Lemma ddirty_cases d :
    dirty d = true <->
    In (dnode d) out \/ In (dname d) (map dname (db_add b)) \/
    In (dname d) (map dname (db_upd b)) \/ In (dname d) (db_del b).
  Proof. rewrite dirty_cases. cbn [base_batch b_add b_upd b_del]. rewrite !map_dname. reflexivity. Qed.

  Lemma ddirtyM_cases d :
    dirtyM d = true <->
    ((In (dnode d) out \/ In (dname d) (map dname (db_upd b))) /\ ~ In (dname d) (db_del b)) \/
    In (dname d) (map dname (db_add b)).
  Proof. rewrite dirtyM_cases. cbn [base_batch b_add b_upd b_del]. rewrite !map_dname. reflexivity. Qed.

  Lemma ddirtyM_dirty d : dirtyM d = true -> dirty d = true.
  Proof. apply dirtyM_dirty. Qed.

  Lemma dname_in_links n :
    In n (map dname (db_add b)) \/ In n (map dname (db_upd b)) \/ In n (db_del b) ->
    In (KIngress, n) (db_links b).
  Proof.
    intros [H|[H|H]].
    - apply in_map_iff in H as (j & <- & Hj). apply (dwf_links_ing _ _ _ Hok). apply in_or_app. left. exact Hj.
    - apply in_map_iff in H as (j & <- & Hj). apply (dwf_links_ing _ _ _ Hok). apply in_or_app. right. exact Hj.
    - apply (dwf_links_del _ _ _ Hok). exact H.
  Qed.

  Lemma dC_dirty d m : dirty d = true -> edge node T1 (dnode d) m -> C (dnode d).
  Proof.
    intros Hd He. apply ddirty_cases in Hd. destruct Hd as [Hd|Hd].
    - apply (proj1 dcomp). exact Hd.
    - eapply dC_input; [apply dname_in_links; exact Hd|exact He].
  Qed.

  Lemma dnew_cases d : In d (dw_ings w') -> In d (dw_ings w) \/ In d (db_add b) \/ In d (db_upd b).
  Proof.
    intros Hi. destruct (in_dec dingress_eq_dec d (dw_ings w)) as [Hw|Hw]; [left; exact Hw|].
    right. apply (dwf_new _ _ _ Hok); assumption.
  Qed.

  Lemma dclean_new_in_old d : In d (dw_ings w') -> dirty d = false -> In d (dw_ings w).
  Proof.
    intros Hi Hd. destruct (dnew_cases d Hi) as [H|H]; [exact H|].
    assert (Hc : dirty d = true).
    { apply ddirty_cases. destruct H as [H|H]; [right; left|right; right; left]; apply in_map; exact H. }
    congruence.
  Qed.

  Lemma dclean_old_in_new d : In d (dw_ings w) -> dirty d = false -> In d (dw_ings w').
  Proof.
    intros Hi Hd. destruct (string_in_dec (dname d) (map dname (dw_ings w'))) as [Hn|Hn].
    - apply in_map_iff in Hn as (j & Hj & Hjn).
      assert (Hdj : dirty j = false) by (unfold dirty_of in *; unfold dname in Hj; rewrite Hj; exact Hd).
      pose proof (dclean_new_in_old j Hjn Hdj) as Hjw.
      assert (j = d) by (eapply NoDup_dnames_inj; [apply (dwf_nodup _ _ _ Hok)|exact Hjw|exact Hi|exact Hj]).
      subst j. exact Hjn.
    - exfalso. assert (Hc : dirty d = true).
      { apply ddirty_cases. right. right. right. apply (dwf_gone _ _ _ Hok); [apply in_map; exact Hi|exact Hn]. }
      congruence.
  Qed.

  (* the model re-syncs every dirty ingress of the new cluster *)
  Lemma ddirty_dirtyM d : In d (dw_ings w') -> dirty d = true -> dirtyM d = true.
  Proof.
    intros Hi Hd. apply ddirtyM_cases.
    destruct (string_in_dec (dname d) (db_del b)) as [Hdel|Hdel].
    - right. apply (dwf_readd _ _ _ Hok); [exact Hdel|apply in_map; exact Hi].
    - apply ddirty_cases in Hd. destruct Hd as [Hd|[Hd|[Hd|Hd]]].
      + left. split; [left; exact Hd|exact Hdel].
      + right. exact Hd.
      + left. split; [right; exact Hd|exact Hdel].
      + contradiction.
  Qed.

  Lemma dclean_not_C d : dirty d = false -> ~ C (dnode d).
  Proof.
    intros Hd Hc. apply (proj1 dcomp) in Hc.
    assert (Hd' : dirty d = true) by (apply ddirty_cases; left; exact Hc). congruence.
  Qed.

  (* ---- an ingress and a host it may write are connected ---- *)
  Definition conn1 (d : dingress) (h : string) : Prop :=
    In (dnode d, (KHost, h)) T1 \/ (h = default_host /\ dlink T1 (dname d)).

  Lemma conn1_edge d h : conn1 d h -> exists m, edge node T1 (dnode d) m.
  Proof.
    intros [H|(_ & [H|(n & H & _)])]; [exists (KHost, h)|exists (KHost, default_host)|exists (KService, n)]; exact H.
  Qed.

  Lemma conn1_C d h : conn1 d h -> (C (dnode d) <-> C (KHost, h)).
  Proof.
    intros [H|(-> & [H|(n & H1 & H2)])].
    - split; intros Hc; [eapply dC_closed|eapply dC_back]; eassumption.
    - split; intros Hc; [eapply dC_closed|eapply dC_back]; eassumption.
    - split; intros Hc.
      + eapply dC_closed; [eapply dC_closed; [exact Hc|exact H1]|exact H2].
      + eapply dC_back; [eapply dC_back; [exact Hc|exact H2]|exact H1].
  Qed.

  Lemma in_ddecl d h : In h (ddecl d) -> In h (declared (d_ing d)) \/ (h = default_host /\ d_db d <> None).
  Proof.
    unfold ddecl. intros H. apply in_app_or in H as [H|H]; [|left; exact H].
    destruct (d_db d); [|contradiction]. destruct H as [<-|[]]. right. split; [reflexivity|discriminate].
  Qed.

  Lemma old_conn d h : In d (dw_ings w) -> In h (ddecl d) -> conn1 d h.
  Proof.
    intros Hd Hh. destruct (in_ddecl d h Hh) as [H|[-> H]].
    - left. apply dT1_incl. apply (proj1 Hlinks); assumption.
    - right. split; [reflexivity|]. eapply dlink_mono; [exact (proj1 dT1_grows)|]. apply (proj2 Hlinks); assumption.
  Qed.

  Lemma new_conn d h : In d (dw_ings w') -> In h (ddecl d) ->
    conn1 d h \/ (In d (db_add b ++ db_upd b) /\ h = default_host /\ d_db d <> None).
  Proof.
    intros Hd Hh. destruct (dnew_cases d Hd) as [Hw|Hn]; [left; apply old_conn; assumption|].
    destruct (in_ddecl d h Hh) as [H|[-> H]].
    - left. left. apply dT1_new; [apply in_or_app; exact Hn|exact H].
    - right. split; [apply in_or_app; exact Hn|]. split; [reflexivity|exact H].
  Qed.

  Lemma ddirty_host_out d h : In d (dw_ings w') -> dirty d = true -> In h (ddecl d) -> In (KHost, h) out.
  Proof.
    intros Hd Hdd Hh. apply (proj1 dcomp). destruct (new_conn d h Hd Hh) as [Hc|(Hin & -> & Hn)].
    - apply (conn1_C d h Hc). destruct (conn1_edge d h Hc) as [m Hm]. apply (dC_dirty d m Hdd Hm).
    - apply (Hdb d Hin Hd Hn).
  Qed.

  Lemma ddeclarers_dirtyM h d : In (KHost, h) out -> In d (dw_ings w') -> ddeclares d h = true -> dirtyM d = true.
  Proof.
    intros Ho Hd Hdec. apply ddeclares_In in Hdec. apply (ddirty_dirtyM d Hd).
    destruct (new_conn d h Hd Hdec) as [Hc|(Hin & _ & _)].
    - apply ddirty_cases. left. apply (proj1 dcomp). apply (conn1_C d h Hc). apply (proj1 dcomp). exact Ho.
    - apply ddirty_cases. apply in_app_or in Hin as [Hin|Hin]; [right; left|right; right; left]; apply in_map; exact Hin.
  Qed.

  Lemma ddeclarers_clean h d :
    ~ In (KHost, h) out -> In d (dw_ings w) \/ In d (dw_ings w') -> ddeclares d h = true -> dirty d = false.
  Proof.
    intros Ho Hi Hdec. apply ddeclares_In in Hdec. destruct (dirty d) eqn:ED; [|reflexivity].
    exfalso. apply Ho. destruct Hi as [Hi|Hi].
    - pose proof (old_conn d h Hi Hdec) as Hc. apply (proj1 dcomp). apply (conn1_C d h Hc).
      destruct (conn1_edge d h Hc) as [m Hm]. apply (dC_dirty d m ED Hm).
    - apply (ddirty_host_out d h Hi ED Hdec).
  Qed.

  (* ---- the list the model re-syncs ---- *)
  Lemma pick_d_spec n d : pick_d w' b n = Some d <-> In d (dw_ings w') /\ dname d = n.
  Proof.
    unfold pick_d.
    destruct (existsb (String.eqb n) (db_del b) || existsb (fun j => String.eqb (i_full (d_ing j)) n) (db_upd b)) eqn:Eb.
    - apply find_d_spec. apply (dwf_nodup' _ _ _ Hok).
    - apply orb_false_iff in Eb as [Ed Eu].
      assert (Hnd : ~ In n (db_del b)) by (apply namein_false; exact Ed).
      assert (Hnu : ~ In n (map dname (db_upd b))).
      { intros Hc. apply in_map_iff in Hc as (j & Hj & Hjin).
        assert (Ht : existsb (fun j => String.eqb (i_full (d_ing j)) n) (db_upd b) = true)
          by (apply existsb_exists; exists j; split; [exact Hjin|apply String.eqb_eq; exact Hj]).
        congruence. }
      destruct (find _ (rev (db_add b))) as [j|] eqn:E.
      + apply find_some in E as [Hin He]. apply in_rev in Hin. apply String.eqb_eq in He.
        assert (Hjw : In j (dw_ings w')).
        { apply (dwf_added_current _ _ _ Hok); [exact Hin|unfold dname; rewrite He; exact Hnd|unfold dname; rewrite He; exact Hnu]. }
        split.
        * intros Hj. injection Hj as <-. split; assumption.
        * intros [Hi Hn]. f_equal.
          eapply NoDup_dnames_inj; [apply (dwf_nodup' _ _ _ Hok)|exact Hjw|exact Hi|unfold dname in *; congruence].
      + apply find_d_spec. apply (dwf_nodup' _ _ _ Hok).
  Qed.

  Lemma dpicked_nodup names : NoDup names ->
    NoDup (map dname (flat_map (fun n => opt_list (pick_d w' b n)) names)).
  Proof.
    induction 1 as [|n r Hn Hnd IH]; cbn [flat_map]; [constructor|].
    rewrite map_app. destruct (pick_d w' b n) as [i|] eqn:E; cbn [opt_list map app]; [|exact IH].
    apply pick_d_spec in E as [_ En]. constructor; [|exact IH].
    rewrite En. intros Hc. apply in_map_iff in Hc as (j & Hjn & Hj).
    apply in_flat_map in Hj as (m & Hm & Hjm).
    destruct (pick_d w' b m) as [j'|] eqn:E2; cbn in Hjm; [|contradiction].
    destruct Hjm as [<-|[]]. apply pick_d_spec in E2 as [_ E2]. apply Hn. congruence.
  Qed.

  Lemma dings_ok :
    dsort (flat_map (fun n => opt_list (pick_d w' b n)) (merge_names (names_of KIngress out) (base_batch b)))
    = filter dirtyM ord'.
  Proof.
    rewrite <- dsort_filter by apply (dwf_nodup' _ _ _ Hok).
    apply dsort_same_elements.
    - apply dpicked_nodup. unfold merge_names. apply dedup_NoDup.
    - apply NoDup_map_filter. apply (dwf_nodup' _ _ _ Hok).
    - intros x. rewrite in_flat_map, filter_In. split.
      + intros (n & Hn & Hx). destruct (pick_d w' b n) as [i|] eqn:E; cbn in Hx; [|contradiction].
        destruct Hx as [<-|[]]. apply pick_d_spec in E as [Hi <-]. split; [exact Hi|].
        apply namein_In. exact Hn.
      + intros [Hi Hd]. exists (dname x). split; [apply namein_In; exact Hd|].
        rewrite (proj2 (pick_d_spec (dname x) x) (conj Hi eq_refl)). left. reflexivity.
  Qed.

  Definition step_result_d : st :=
    fold_left (sync_dingress (base w')) (filter dirtyM ord') (remove_all s out, T2).

  Lemma partial_eq_d : sync_partial_d w' (s, T) b = Some step_result_d.
  Proof.
    unfold sync_partial_d.
    change (fold_left (track_added_d (base w') s) (db_add b ++ db_upd b) T) with T1.
    rewrite Hq, dings_ok. reflexivity.
  Qed.

  Lemma dT2_sym : symmetric node T2.
  Proof.
    intros a c H. apply (proj1 (proj2 dcomp)) in H as [H Hn]. apply (proj1 (proj2 dcomp)).
    split; [apply dT1_sym; exact H|]. intros Hc. apply Hn. eapply dC_back; [exact Hc|exact H].
  Qed.

  Lemma dstep_sym : symmetric node (snd step_result_d).
  Proof. apply (proj2 (fold_dsync_sgrows (base w') (filter dirtyM ord') (remove_all s out, T2))). exact dT2_sym. Qed.

  Lemma dkeep a c : In (a, c) T -> ~ C a -> In (a, c) T2.
  Proof. intros H Hn. apply (proj1 (proj2 dcomp)). split; [apply dT1_incl; exact H|exact Hn]. Qed.

  Lemma dnotC_edge a c : In (a, c) T -> ~ C c -> ~ C a.
  Proof. intros H Hn Hc. apply Hn. eapply dC_closed; [exact Hc|apply dT1_incl; exact H]. Qed.

  Lemma dnotC_edge_r a c : In (a, c) T -> ~ C a -> ~ C c.
  Proof. intros H Hn Hc. apply Hn. eapply dC_back; [exact Hc|apply dT1_incl; exact H]. Qed.

  Lemma dstep_links : links_ok_d w' (snd step_result_d).
  Proof.
    pose proof (fold_dsync_sgrows (base w') (filter dirtyM ord') (remove_all s out, T2)) as G.
    split.
    - intros d h Hi Hh. unfold step_result_d. destruct (dirtyM d) eqn:EM.
      + apply fold_dsync_link; [|exact Hh]. apply filter_In. split; [apply dsort_In; exact Hi|exact EM].
      + apply (proj1 G). cbn [snd].
        destruct (dirty d) eqn:ED; [rewrite (ddirty_dirtyM d Hi ED) in EM; discriminate|].
        apply dkeep; [|apply dclean_not_C; exact ED].
        apply (proj1 Hlinks); [apply dclean_new_in_old; assumption|exact Hh].
    - intros d Hi Hn. unfold step_result_d. destruct (dirtyM d) eqn:EM.
      + apply fold_dsync_dlink; [|exact Hn]. apply filter_In. split; [apply dsort_In; exact Hi|exact EM].
      + eapply dlink_mono; [exact (proj1 G)|]. cbn [snd].
        destruct (dirty d) eqn:ED; [rewrite (ddirty_dirtyM d Hi ED) in EM; discriminate|].
        pose proof (dclean_not_C d ED) as NC.
        destruct (proj2 Hlinks d (dclean_new_in_old d Hi ED) Hn) as [H|(n & H1 & H2)].
        * left. apply dkeep; assumption.
        * right. exists n. split; [apply dkeep; assumption|].
          apply dkeep; [exact H2|]. apply (dnotC_edge_r _ _ H1 NC).
  Qed.

  Hypothesis Hsec : sec_links_ok_d w T.
  Hypothesis Hbl : batch_links_ok_e (base w) (base w') (base_batch b).

  Lemma dstep_sec_links : sec_links_ok_d w' (snd step_result_d).
  Proof.
    intros d blk Hi Hb Hne Hs. unfold step_result_d. destruct (dirtyM d) eqn:EM.
    - apply fold_dsync_sec; [|exact Hb|exact Hne|exact Hs].
      apply filter_In. split; [apply dsort_In; exact Hi|exact EM].
    - pose proof (fold_dsync_sgrows (base w') (filter dirtyM ord') (remove_all s out, T2)) as G.
      apply (proj1 G). cbn [snd].
      destruct (dirty d) eqn:ED; [rewrite (ddirty_dirtyM d Hi ED) in EM; discriminate|].
      apply dkeep; [|apply dclean_not_C; exact ED].
      apply (Hsec d blk); [apply dclean_new_in_old; assumption|exact Hb|exact Hne|exact Hs].
  Qed.

  (* ---- the general step, host by host ---- *)
  Hypothesis Hrun : svc_run_ok_d w T.
  Hypothesis Hhosts : hosts_eq s (fst (sync_full_d w)).

  Notation p0 := (remove_all s out, T2).
  Notation f0 := (empty_state, @nil (node * node)).

  Lemma dLh_eq h : ~ In (KHost, h) out ->
    filter (fun d => ddeclares d h) ord = filter (fun d => ddeclares d h) ord'.
  Proof.
    intros Ho.
    rewrite <- (dsort_filter _ (dw_ings w)) by apply (dwf_nodup _ _ _ Hok).
    rewrite <- (dsort_filter _ (dw_ings w')) by apply (dwf_nodup' _ _ _ Hok).
    apply dsort_same_elements.
    - apply NoDup_map_filter. apply (dwf_nodup _ _ _ Hok).
    - apply NoDup_map_filter. apply (dwf_nodup' _ _ _ Hok).
    - intros x. rewrite !filter_In. split; intros [Hi Hd]; (split; [|exact Hd]).
      + apply dclean_old_in_new; [exact Hi|apply (ddeclarers_clean h x Ho (or_introl Hi) Hd)].
      + apply dclean_new_in_old; [exact Hi|apply (ddeclarers_clean h x Ho (or_intror Hi) Hd)].
  Qed.

  Lemma dLh_dirty h : In (KHost, h) out ->
    filter (fun d => ddeclares d h) (filter dirtyM ord') = filter (fun d => ddeclares d h) ord'.
  Proof.
    intros Ho. apply filter_filter_sub. intros x Hx Hd.
    apply (ddeclarers_dirtyM h x Ho); [apply (proj1 (dsort_In _ _)); exact Hx|exact Hd].
  Qed.

  Lemma dgen_dirty_host h : In (KHost, h) out -> R h step_result_d (sync_full_d w').
  Proof.
    intros Ho. unfold step_result_d, sync_full_d.
    eapply R_trans; [apply (fold_dfilter_R_l (base w') (filter dirtyM ord') h p0 p0 (R_refl h p0))|].
    rewrite (dLh_dirty h Ho).
    eapply R_trans; [|apply (fold_dfilter_R_r (base w') ord' h f0 f0 (R_refl h f0))].
    apply (fold_dsync_sim (base w') (base w') _ h
             (snd (fold_left (sync_dingress (base w')) (filter (fun d => ddeclares d h) ord') p0))).
    - intros; apply res_ok_d_same.
    - split; [|intros n []]. unfold agree. cbn [fst]. unfold remove_all.
      apply (mem_In node node_eqb node_eqb_spec) in Ho. rewrite Ho. reflexivity.
    - apply incl_refl.
  Qed.

  Lemma dgen_clean_host h : ~ In (KHost, h) out -> R h (sync_full_d w) (sync_full_d w').
  Proof.
    intros Ho. unfold sync_full_d.
    set (Lh := filter (fun d => ddeclares d h) ord).
    assert (R1 : R h (fold_left (sync_dingress (base w)) ord f0) (fold_left (sync_dingress (base w)) Lh f0))
      by (apply fold_dfilter_R_l; apply R_refl).
    eapply R_trans; [exact R1|].
    assert (R3 : R h (fold_left (sync_dingress (base w')) Lh f0) (fold_left (sync_dingress (base w')) ord' f0)).
    { unfold Lh. rewrite (dLh_eq h Ho). apply fold_dfilter_R_r. apply R_refl. }
    eapply R_trans; [|exact R3].
    assert (HnC : ~ C (KHost, h)) by (intros Hc; apply Ho; apply (proj1 dcomp); exact Hc).
    assert (Hsvc_same : forall n, In (hsvc n h) (snd (fold_left (sync_dingress (base w)) Lh f0)) ->
                                  find_svc (base w) n = find_svc (base w') n).
    { intros n Hlink.
      destruct (opt_service_eq_dec (find_svc (base w) n) (find_svc (base w') n)) as [E|E]; [exact E|].
      exfalso. apply HnC.
      assert (HT : In (hsvc n h) T) by (apply Hrun; apply (proj2 R1); exact Hlink).
      assert (He : edge node T1 (KService, n) (KHost, h)) by (apply dT1_incl; exact HT).
      eapply dC_closed; [eapply dC_input; [apply (bl_svc _ _ _ (ble_base _ _ _ Hbl)); exact E|exact He]|exact He]. }
    apply (fold_dsync_sim (base w) (base w') Lh h (snd (fold_left (sync_dingress (base w)) Lh f0)));
      [|apply R_refl|apply incl_refl].
    intros d Hi. apply filter_In in Hi as [Hi Hd]. apply (proj1 (dsort_In _ _)) in Hi.
    pose proof (ddeclarers_clean h d Ho (or_introl Hi) Hd) as Hcl.
    split; [split|].
    - intros rule r Hrule Eh Hr Hlink. apply resolve_same_svc. apply Hsvc_same. exact Hlink.
    - intros blk Hb Hh. destruct (String.eqb_spec (snd blk) "") as [E0|E0]; [rewrite E0; apply tls_hash_empty|].
      apply tls_hash_same_sec.
      destruct (opt_string_eq_dec (assoc (i_ns (d_ing d) ++ "/" ++ snd blk) (w_secrets (base w)))
                                  (assoc (i_ns (d_ing d) ++ "/" ++ snd blk) (w_secrets (base w')))) as [E|E]; [exact E|].
      exfalso. apply HnC.
      assert (He : edge node T1 (KSecret, i_ns (d_ing d) ++ "/" ++ snd blk) (dnode d)).
      { apply dT1_sym. apply dT1_incl. apply (Hsec d blk); [exact Hi|exact Hb| |exact E0].
        intros Ec. rewrite Ec in Hh. exact Hh. }
      assert (He2 : edge node T1 (dnode d) (KHost, h))
        by (apply dT1_incl; apply (proj1 Hlinks); [exact Hi|apply (tls_host_declared (d_ing d) blk); assumption]).
      eapply dC_closed; [eapply dC_closed; [eapply dC_input; [apply (bl_sec _ _ _ (ble_base _ _ _ Hbl)); exact E|exact He]|exact He]|exact He2].
    - intros svc port Edb Eh Hlink. subst h. apply resolve_same_svc. cbn [r_svc root_rule].
      apply Hsvc_same. exact Hlink.
  Qed.

  Lemma dgen_hosts : hosts_eq (fst step_result_d) (fst (sync_full_d w')).
  Proof.
    intros h. destruct (mem node_eqb (KHost, h) out) eqn:E.
    - apply (mem_In node node_eqb node_eqb_spec) in E. exact (proj1 (dgen_dirty_host h E)).
    - pose proof E as Em. apply (mem_false node node_eqb node_eqb_spec) in E.
      rewrite <- (proj1 (dgen_clean_host h E)). rewrite <- (Hhosts h). unfold step_result_d.
      rewrite fold_dsync_frame.
      + cbn [fst]. unfold remove_all. rewrite Em. reflexivity.
      + intros d Hi. apply filter_In in Hi as [Hi HdM]. apply (proj1 (dsort_In _ _)) in Hi.
        destruct (ddeclares d h) eqn:Ed; [|reflexivity]. exfalso. apply E.
        apply ddeclares_In in Ed. apply (ddirty_host_out d h Hi (ddirtyM_dirty d HdM) Ed).
  Qed.

  Lemma dgen_run : svc_run_ok_d w' (snd step_result_d).
  Proof.
    intros n h Hn. destruct (mem node_eqb (KHost, h) out) eqn:E.
    - apply (mem_In node node_eqb node_eqb_spec) in E. exact (proj2 (dgen_dirty_host h E) n Hn).
    - apply (mem_false node node_eqb node_eqb_spec) in E.
      pose proof (proj2 (dgen_clean_host h E) n Hn) as HF. apply Hrun in HF.
      pose proof (fold_dsync_sgrows (base w') (filter dirtyM ord') (remove_all s out, T2)) as G.
      unfold step_result_d. apply (proj1 G). cbn [snd]. apply dkeep; [exact HF|].
      intros Hc. apply E. apply (proj1 dcomp). eapply dC_closed; [exact Hc|apply dT1_incl; exact HF].
  Qed.

  (* ---- backends ---- *)
  Hypothesis HJ : J (base w) (s, T).

  Lemma dstart_J : J (base w') (remove_all s out, T2).
  Proof.
    destruct HJ as [Hb Hp]. split.
    - intros bid br Hg. cbn [fst snd] in *. unfold get_back, remove_all in Hg.
      destruct (mem node_eqb (KBackend, bid) out) eqn:Em; [discriminate|].
      apply (mem_false node node_eqb node_eqb_spec) in Em.
      assert (Hg0 : get_back s bid = Some br) by exact Hg.
      destruct (Hb bid br Hg0) as (i & hn & svc & p & F & P & B & Rr & L1 & L2 & L3 & L4). cbn [snd] in *.
      assert (NB : ~ C (KBackend, bid)) by (intros Hc; apply Em; apply (proj1 dcomp); exact Hc).
      assert (NI : ~ C (KIngress, i_full i)) by (apply (dnotC_edge _ _ L1 NB)).
      assert (NH : ~ C (KHost, hn)) by (apply (dnotC_edge_r _ _ L2 NI)).
      assert (NS : ~ C (KService, s_full svc)) by (apply (dnotC_edge _ _ L3 NH)).
      assert (NE : ~ C (KEndpoints, s_full svc)) by (apply (dnotC_edge _ _ L4 NH)).
      assert (F' : find_svc (base w') (s_full svc) = Some svc).
      { destruct (opt_service_eq_dec (find_svc (base w) (s_full svc)) (find_svc (base w') (s_full svc))) as [E|E];
          [rewrite <- E; exact F|].
        exfalso. apply NS. eapply dC_input; [apply (bl_svc _ _ _ (ble_base _ _ _ Hbl)); exact E|apply dT1_incl; exact L3]. }
      assert (E' : assoc (s_full svc) (w_eps (base w)) = assoc (s_full svc) (w_eps (base w'))).
      { destruct (opt_subsets_eq_dec (assoc (s_full svc) (w_eps (base w))) (assoc (s_full svc) (w_eps (base w')))) as [E|E];
          [exact E|].
        exfalso. apply NE. eapply dC_input; [apply (ble_eps _ _ _ Hbl); exact E|apply dT1_incl; exact L4]. }
      exists i, hn, svc, p.
      split; [exact F'|]. split; [exact P|]. split; [exact B|].
      split; [rewrite Rr; f_equal; apply servers_same_eps; exact E'|].
      split; [apply dkeep; assumption|]. split; [apply dkeep; assumption|].
      split; apply dkeep; assumption.
    - intros hn hr p Hg Hin. cbn [fst snd] in *. unfold get_host, remove_all in Hg.
      destruct (mem node_eqb (KHost, hn) out) eqn:Em; [discriminate|].
      apply (mem_false node node_eqb node_eqb_spec) in Em.
      assert (Hg0 : get_host s hn = Some hr) by exact Hg.
      destruct (Hp hn hr p Hg0 Hin) as [H1 (i & L1 & L2)]. cbn [fst snd] in *.
      assert (NH : ~ C (KHost, hn)) by (intros Hc; apply Em; apply (proj1 dcomp); exact Hc).
      assert (NI : ~ C (KIngress, i_full i)) by (apply (dnotC_edge _ _ L2 NH)).
      assert (NB : ~ C (KBackend, hp_back p)) by (apply (dnotC_edge_r _ _ L1 NI)).
      split.
      + unfold get_back, remove_all. destruct (mem node_eqb (KBackend, hp_back p) out) eqn:Eb.
        * exfalso. apply NB. apply (proj1 dcomp). apply (mem_In node node_eqb node_eqb_spec). exact Eb.
        * exact H1.
      + exists i. split; apply dkeep; assumption.
  Qed.

  Lemma dstep_J : J (base w') step_result_d.
  Proof. unfold step_result_d. apply fold_dsync_J. exact dstart_J. Qed.
End StepD.

(* ------------------------------------------------------------------ *)
(* the step and the histories                                           *)
(* ------------------------------------------------------------------ *)
Theorem model_partial_step_d w w' x b :
  InvO_d w x -> batch_wf_d w w' b -> batch_links_ok_e (base w) (base w') (base_batch b) -> H_db w' x b ->
  exists x', sync_partial_d w' x b = Some x' /\ InvO_d w' x'.
Proof.
  destruct x as [s T]. intros ((Hh & Hs & Hl) & Hrun & Hsec & HJ) Hok Hbl Hdb. cbn [fst snd] in *.
  destruct (query_remove node_eqb (T1_d w' (s, T) b) (db_links b)) as [[out T2]|] eqn:Hq.
  - exists (step_result_d w' s b out T2). split; [eapply partial_eq_d; eassumption|].
    split; [split; [|split]|split; [|split]].
    + eapply dgen_hosts; eassumption.
    + eapply dstep_sym; eassumption.
    + eapply dstep_links; eassumption.
    + eapply dgen_run; eassumption.
    + eapply dstep_sec_links; eassumption.
    + eapply dstep_J; eassumption.
  - exfalso. unfold query_remove in Hq.
    destruct (query_links node_eqb (T1_d w' (s, T) b) (db_links b)) eqn:E; [discriminate|].
    exact (query_links_total node node_eqb node_eqb_spec _ _ E).
Qed.

Theorem sync_full_InvO_d w : InvO_d w (sync_full_d w).
Proof.
  unfold InvO_d, Inv_d. unfold sync_full_d at 2 3 4 5 6.
  split; [split; [intros h; reflexivity|split]|split; [|split]].
  - apply (proj2 (fold_dsync_sgrows (base w) (dsort (dw_ings w)) (empty_state, []))). intros a c [].
  - split.
    + intros d h Hi Hh. apply fold_dsync_link; [apply dsort_In; exact Hi|exact Hh].
    + intros d Hi Hn. apply fold_dsync_dlink; [apply dsort_In; exact Hi|exact Hn].
  - intros n h H. exact H.
  - intros d blk Hi Hb Hne Hs. apply fold_dsync_sec; [apply dsort_In; exact Hi|exact Hb|exact Hne|exact Hs].
  - apply fold_dsync_J. split.
    + intros bid br Hg. cbn in Hg. discriminate.
    + intros h hr p Hg. cbn in Hg. discriminate.
Qed.

Theorem InvO_d_obs w x : InvO_d w x -> back_det (base w) ->
  forall hn, obs_host (fst x) hn = obs_host (fst (sync_full_d w)) hn.
Proof.
  intros ((Hh & _) & _ & _ & HJ) Hdet.
  apply (obs_of_J (base w) x (sync_full_d w)); [exact Hh|exact HJ| |exact Hdet].
  exact (proj2 (proj2 (proj2 (sync_full_InvO_d w)))).
Qed.

(* every step: a well formed batch that names what changed, and the default host is dirty
   whenever the batch adds or updates an ingress with a default backend *)
Fixpoint hist_ok_d (w : dworld) (x : st) (h : list (dbatch * dworld)) : Prop :=
  match h with
  | [] => True
  | (b, w') :: r =>
      batch_wf_d w w' b /\ batch_links_ok_e (base w) (base w') (base_batch b) /\ H_db w' x b /\
      forall x', sync_partial_d w' x b = Some x' -> hist_ok_d w' x' r
  end.

Theorem model_history_d_from : forall h w x,
  InvO_d w x -> hist_ok_d w x h ->
  exists x', run_hist_d x h = Some x' /\ InvO_d (last_dw w h) x'.
Proof.
  induction h as [|[b w'] r IH]; intros w x HI Hh; cbn [run_hist_d last_dw].
  - exists x. split; [reflexivity|exact HI].
  - destruct Hh as (Hok & Hbl & Hdb & Hrest).
    destruct (model_partial_step_d w w' x b HI Hok Hbl Hdb) as (x' & Hp & HI').
    rewrite Hp. apply IH; [exact HI'|apply Hrest; exact Hp].
Qed.

Theorem model_history_d_hosts w0 h :
  hist_ok_d w0 (sync_full_d w0) h ->
  exists x', run_hist_d (sync_full_d w0) h = Some x' /\
             hosts_eq (fst x') (fst (sync_full_d (last_dw w0 h))).
Proof.
  intros Hh. destruct (model_history_d_from h w0 _ (sync_full_InvO_d w0) Hh) as (x' & Hr & HI).
  exists x'. split; [exact Hr|exact (proj1 (proj1 HI))].
Qed.

Theorem model_history_d_obs w0 h :
  hist_ok_d w0 (sync_full_d w0) h -> back_det (base (last_dw w0 h)) ->
  exists x', run_hist_d (sync_full_d w0) h = Some x' /\
             forall hn, obs_host (fst x') hn = obs_host (fst (sync_full_d (last_dw w0 h))) hn.
Proof.
  intros Hh Hdet. destruct (model_history_d_from h w0 _ (sync_full_InvO_d w0) Hh) as (x' & Hr & HI).
  exists x'. split; [exact Hr|apply InvO_d_obs; assumption].
Qed.

(* histories in which no added / updated ingress carries a default backend (ingresses with a
   default backend may exist, be deleted, lose or win the root path of the default host):
   a condition on the batches only *)
Fixpoint hist_ok_d_nodb (w : dworld) (h : list (dbatch * dworld)) : Prop :=
  match h with
  | [] => True
  | (b, w') :: r =>
      batch_wf_d w w' b /\ batch_links_ok_e (base w) (base w') (base_batch b) /\
      (forall d, In d (db_add b ++ db_upd b) -> d_db d = None) /\ hist_ok_d_nodb w' r
  end.

Lemma hist_ok_d_nodb_ok : forall h w x, hist_ok_d_nodb w h -> hist_ok_d w x h.
Proof.
  induction h as [|[b w'] r IH]; intros w x Hh; cbn; [exact I|].
  destruct Hh as (Hok & Hbl & Hn & Hrest).
  split; [exact Hok|]. split; [exact Hbl|]. split; [apply H_db_no_db; exact Hn|].
  intros x' _. apply IH. exact Hrest.
Qed.

Theorem model_history_d_nodb_obs w0 h :
  hist_ok_d_nodb w0 h -> back_det (base (last_dw w0 h)) ->
  exists x', run_hist_d (sync_full_d w0) h = Some x' /\
             forall hn, obs_host (fst x') hn = obs_host (fst (sync_full_d (last_dw w0 h))) hn.
Proof. intros Hh. apply model_history_d_obs. apply hist_ok_d_nodb_ok. exact Hh. Qed.

(* H_db holds when every added / updated ingress with a default backend also declares the
   default host in a rule or a tls block (trackAddedIngress links it then) *)
Lemma H_db_declared w' x b :
  (forall d, In d (db_add b ++ db_upd b) -> d_db d <> None ->
     In default_host (declared (d_ing d)) /\ In (KIngress, dname d) (db_links b)) ->
  H_db w' x b.
Proof.
  intros H d Hd _ Hn. destruct (H d Hd Hn) as [Hdec Hl].
  exists (dnode d). split; [exact Hl|]. apply t_step. unfold edge, T1_d.
  apply (fold_grows_at _ _ d); [|exact Hd|].
  - intros; apply track_added_d_grows.
  - intros T0. apply track_added_d_link. exact Hdec.
Qed.
