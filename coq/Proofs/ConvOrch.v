(* Orchestration (Model/ConvOrch.v): the ingress converter and the always-full gateway source
   G on one haproxy model and one tracker.

   InvOr w (s, T): the hosts of s are those of a full sync of both sources (sync_full_o w);
   T is symmetric, links every ingress to its hosts, holds the Service-Host links of that
   full sync and the Ingress-Secret links, and links the node gw to everything G tracks
   and to G's hosts.

   model_step_o: for every cluster, every well formed batch (several events per object) that
   names the changed Services and Secrets, sync_o re-establishes InvOr -- whether it decides
   for a full sync or for the ingress partial sync; in the latter case no host of G is
   removed or rebuilt.  Premises about G (which is abstract): its hosts are no ingress's
   (g_disjoint), and what it produces only changes when a gateway object changed or
   something it tracks is in changed.Links (g_stable).
   The partial case reuses the host by host argument of Proofs/ConvHist.v (its lemmas about
   the removal do not care what else the tracker holds), started from G's state.

   orchestration_old_refuted: sync_old, which asked G before the added ingress was linked to
   its hosts, lets the partial sync reach gw and drops G's hosts (/repo commit 5060862). *)
From Coq Require Import List Bool String ZArith Lia Relations Permutation.
From HI Require Import Model.Tracker Model.Conv Model.ConvOrch Proofs.Tracker Proofs.IncSync Proofs.Conv
                       Proofs.ConvSort Proofs.ConvHist_base Proofs.ConvHist_keys Proofs.ConvHist_sim
                       Proofs.ConvBack Proofs.ConvHist.
Import ListNotations.
Open Scope string_scope.

Definition GH (g : gout) (h : string) : Prop := In h (map fst (og_hosts g)).

Definition g_disjoint (w : oworld) : Prop :=
  forall i h, In i (w_ings (ow_base w)) -> In h (declared i) -> ~ GH (ow_g w) h.

Definition g_stable (w w' : oworld) (b : obatch) : Prop :=
  ob_full b = false -> (forall n, In n (gnodes (ow_g w)) -> ~ In n (b_links (ob_base b))) -> ow_g w' = ow_g w.

Definition svc_run_ok_o (w : oworld) (T : ctracker) : Prop :=
  forall n h, In (hsvc n h) (snd (sync_full_o w)) -> In (hsvc n h) T.

Definition glinks_ok (g : gout) (T : ctracker) : Prop :=
  forall n, In n (gnodes g) -> In (n, gw) T /\ In (gw, n) T.

Definition InvOr (w : oworld) (x : st) : Prop :=
  hosts_eq (fst x) (fst (sync_full_o w)) /\ symmetric node (snd x) /\ links_ok (ow_base w) (snd x) /\
  svc_run_ok_o w (snd x) /\ sec_links_ok (ow_base w) (snd x) /\ glinks_ok (ow_g w) (snd x).

(* ---------- G ---------- *)
Lemma assoc_none_o {A} n (l : list (string * A)) : ~ In n (map fst l) -> assoc n l = None.
Proof.
  induction l as [|[k v] l IH]; cbn; intros Hn; [reflexivity|].
  destruct (String.eqb_spec n k) as [->|Hne]; [exfalso; apply Hn; left; reflexivity|].
  apply IH. intros Hc. apply Hn. right. exact Hc.
Qed.

Lemma gtrack_fold l : forall T e,
  In e (fold_left (fun T n => track T n gw) l T) <-> In e T \/ exists n, In n l /\ (e = (n, gw) \/ e = (gw, n)).
Proof.
  induction l as [|m l IH]; intros T e; cbn [fold_left].
  - split; [intros H; left; exact H|intros [H|(n & [] & _)]; exact H].
  - rewrite IH. unfold track. cbn [In]. split.
    + intros [[H|[H|H]]|(n & Hn & H)].
      * right. exists m. split; [left; reflexivity|left; symmetry; exact H].
      * right. exists m. split; [left; reflexivity|right; symmetry; exact H].
      * left. exact H.
      * right. exists n. split; [right; exact Hn|exact H].
    + intros [H|(n & [<-|Hn] & H)].
      * left. right. right. exact H.
      * left. destruct H as [->| ->]; [left; reflexivity|right; left; reflexivity].
      * right. exists n. split; assumption.
Qed.

Lemma gtrack_spec g T e :
  In e (gtrack g T) <-> In e T \/ exists n, In n (gnodes g) /\ (e = (n, gw) \/ e = (gw, n)).
Proof. apply gtrack_fold. Qed.

Lemma gtrack_grows g T : grows T (gtrack g T).
Proof. unfold gtrack. apply fold_grows. intros; apply grows_track. Qed.

Lemma gtrack_no_hsvc g n h : ~ In (hsvc n h) (gtrack g []).
Proof.
  intros H. apply gtrack_spec in H as [[]|(m & _ & [H|H])]; unfold hsvc, gw in H; inversion H.
Qed.

Lemma ginstall_nohost g s h : ~ GH g h -> ginstall g s (THost h) = s (THost h).
Proof. intros Hn. unfold ginstall. rewrite (assoc_none_o h (og_hosts g) Hn). reflexivity. Qed.

Lemma fold_sync_agree w l h : forall x1 x2, agree h x1 x2 ->
  agree h (fold_left (sync_ingress w) l x1) (fold_left (sync_ingress w) l x2).
Proof. apply fold_agree. intros i y1 y2. apply sync_ingress_agree. Qed.

(* the full sync of both sources establishes the invariant *)
Theorem sync_full_InvOr w : InvOr w (sync_full_o w).
Proof.
  unfold InvOr. split; [intros h; reflexivity|]. unfold sync_full_o at 1 2 4 5.
  set (xg := g_full (ow_g w) (empty_state, [])).
  pose proof (fold_sync_sgrows (ow_base w) (sort_ings (w_ings (ow_base w))) xg) as G.
  split; [|split; [|split; [|split]]].
  - apply (proj2 G). unfold xg, g_full. cbn [snd]. apply (proj2 (gtrack_grows (ow_g w) [])). intros a c [].
  - intros i h Hi Hh. apply fold_sync_link; [apply sort_ings_In; exact Hi|exact Hh].
  - intros n h H. exact H.
  - intros i blk Hi Hb Hne Hs. apply fold_sync_sec; [apply sort_ings_In; exact Hi|exact Hb|exact Hne|exact Hs].
  - intros n Hn. split; apply (proj1 G); unfold xg, g_full; cbn [snd]; apply gtrack_spec; right; exists n;
      (split; [exact Hn|]); [left|right]; reflexivity.
Qed.

(* ---------- the partial case ---------- *)
Section StepO.
  Variables (w w' : oworld) (s : cstate) (T : ctracker) (b : batch).
  Hypothesis Hok : batch_wf (ow_base w) (ow_base w') b.
  Hypothesis Hs : symmetric node T.
  Hypothesis Hl : links_ok (ow_base w) T.
  Variables (out : list node) (T2 : ctracker).
  Hypothesis Hq : query_remove node_eqb (T1_of (ow_base w') (s, T) b) (b_links b) = Some (out, T2).
  Hypothesis Hsec : sec_links_ok (ow_base w) T.
  Hypothesis Hbl : batch_links_ok (ow_base w) (ow_base w') b.
  Hypothesis Hrun : svc_run_ok_o w T.
  Hypothesis Hhosts : hosts_eq s (fst (sync_full_o w)).
  Hypothesis HG : glinks_ok (ow_g w) T.
  Hypothesis Hng : ~ In gw out.
  Hypothesis HGeq : ow_g w' = ow_g w.

  Notation T1 := (T1_of (ow_base w') (s, T) b).
  Notation C := (reach node T1 (b_links b)).
  Notation dirtyM := (dirtyM_of out b).
  Notation ord := (sort_ings (w_ings (ow_base w))).
  Notation ord' := (sort_ings (w_ings (ow_base w'))).
  Notation p0 := (remove_all s out, T2).
  Notation xg := (g_full (ow_g w) (empty_state, @nil (node * node))).
  Notation res := (step_result (ow_base w') s b out T2).

  Let Hcomp := comp (ow_base w') s T b Hs out T2 Hq.

  Lemma o_notC_gw : ~ C gw.
  Proof. intros Hc. apply Hng. apply (proj1 Hcomp). exact Hc. Qed.

  Lemma o_notC_gnode n : In n (gnodes (ow_g w)) -> ~ C n.
  Proof.
    intros Hn Hc. apply o_notC_gw. eapply C_closed; [exact Hc|]. apply T1_incl. exact (proj1 (HG n Hn)).
  Qed.

  Lemma o_GH_not_out h : GH (ow_g w) h -> ~ In (KHost, h) out.
  Proof.
    intros Hg Ho. apply (o_notC_gnode (KHost, h)); [|apply (proj1 Hcomp); exact Ho].
    unfold gnodes. apply in_or_app. right. unfold GH in Hg. apply in_map_iff in Hg as (p & <- & Hp).
    apply in_map_iff. exists p. split; [reflexivity|exact Hp].
  Qed.

  Lemma o_dirty_host h : In (KHost, h) out -> R h res (sync_full_o w').
  Proof.
    intros Ho. unfold step_result, sync_full_o. rewrite HGeq.
    eapply R_trans; [apply (fold_filter_R_l (ow_base w') (filter dirtyM ord') h p0 p0 (R_refl h p0))|].
    rewrite (Lh_dirty _ _ _ _ _ Hok Hs Hl _ _ Hq h Ho).
    eapply R_trans; [|apply (fold_filter_R_r (ow_base w') ord' h xg xg (R_refl h xg))].
    apply (fold_sync_sim (ow_base w') (ow_base w') _ h
             (snd (fold_left (sync_ingress (ow_base w')) (filter (fun i => declares i h) ord') p0))).
    - intros; apply res_ok_same.
    - split.
      + unfold agree, g_full. cbn [fst]. rewrite ginstall_nohost by (intros Hg; exact (o_GH_not_out h Hg Ho)).
        unfold remove_all. apply (mem_In node node_eqb node_eqb_spec) in Ho. rewrite Ho. reflexivity.
      + intros n Hn. unfold g_full in Hn. cbn [snd] in Hn. exfalso. exact (gtrack_no_hsvc _ _ _ Hn).
    - apply incl_refl.
  Qed.

  Lemma o_clean_host h : ~ In (KHost, h) out -> R h (sync_full_o w) (sync_full_o w').
  Proof.
    intros Ho. unfold sync_full_o. rewrite HGeq.
    set (Lh := filter (fun i => declares i h) ord).
    assert (R1 : R h (fold_left (sync_ingress (ow_base w)) ord xg) (fold_left (sync_ingress (ow_base w)) Lh xg))
      by (apply fold_filter_R_l; apply R_refl).
    eapply R_trans; [exact R1|].
    assert (R3 : R h (fold_left (sync_ingress (ow_base w')) Lh xg) (fold_left (sync_ingress (ow_base w')) ord' xg)).
    { unfold Lh. rewrite (Lh_eq _ _ _ _ _ Hok Hs Hl _ _ Hq h Ho). apply fold_filter_R_r. apply R_refl. }
    eapply R_trans; [|exact R3].
    assert (HnC : ~ C (KHost, h)) by (intros Hc; apply Ho; apply (proj1 Hcomp); exact Hc).
    apply (fold_sync_sim (ow_base w) (ow_base w') Lh h (snd (fold_left (sync_ingress (ow_base w)) Lh xg)));
      [|apply R_refl|apply incl_refl].
    intros i Hi. apply filter_In in Hi as [Hi Hd]. apply (proj1 (sort_ings_In _ _)) in Hi.
    apply declares_In in Hd. split.
    - intros rule r Hrule Eh Hr Hlink. apply resolve_same_svc.
      destruct (opt_service_eq_dec (find_svc (ow_base w) (i_ns i ++ "/" ++ r_svc r))
                                   (find_svc (ow_base w') (i_ns i ++ "/" ++ r_svc r))) as [E|E]; [exact E|].
      exfalso. apply HnC.
      assert (HT : In (hsvc (i_ns i ++ "/" ++ r_svc r) h) T) by (apply Hrun; apply (proj2 R1); exact Hlink).
      assert (He : edge node T1 (KService, i_ns i ++ "/" ++ r_svc r) (KHost, h)) by (apply T1_incl; exact HT).
      eapply C_closed; [eapply C_input; [exact Hs|exact Hq|apply (bl_svc _ _ _ Hbl); exact E|exact He]|exact He].
    - intros blk Hb Hh. destruct (String.eqb_spec (snd blk) "") as [E0|E0]; [rewrite E0; apply tls_hash_empty|].
      apply tls_hash_same_sec.
      destruct (opt_string_eq_dec (assoc (i_ns i ++ "/" ++ snd blk) (w_secrets (ow_base w)))
                                  (assoc (i_ns i ++ "/" ++ snd blk) (w_secrets (ow_base w')))) as [E|E]; [exact E|].
      exfalso. apply HnC.
      assert (He : edge node T1 (KSecret, i_ns i ++ "/" ++ snd blk) (nS i)).
      { apply T1_sym; [exact Hs|]. apply T1_incl. apply (Hsec i blk); [exact Hi|exact Hb| |exact E0].
        intros Ec. rewrite Ec in Hh. exact Hh. }
      assert (He2 : edge node T1 (nS i) (KHost, h))
        by (apply T1_incl; apply Hl; [exact Hi|apply (tls_host_declared i blk); assumption]).
      eapply C_closed; [eapply C_closed; [eapply C_input; [exact Hs|exact Hq|apply (bl_sec _ _ _ Hbl); exact E|exact He]|exact He]|exact He2].
  Qed.

  Lemma o_hosts : hosts_eq (fst res) (fst (sync_full_o w')).
  Proof.
    intros h. destruct (mem node_eqb (KHost, h) out) eqn:E.
    - apply (mem_In node node_eqb node_eqb_spec) in E. exact (proj1 (o_dirty_host h E)).
    - pose proof E as Em. apply (mem_false node node_eqb node_eqb_spec) in E.
      rewrite <- (proj1 (o_clean_host h E)). rewrite <- (Hhosts h). unfold step_result.
      rewrite fold_sync_frame.
      + cbn [fst]. unfold remove_all. rewrite Em. reflexivity.
      + intros i Hi. apply filter_In in Hi as [Hi HdM]. apply (proj1 (sort_ings_In _ _)) in Hi.
        destruct (declares i h) eqn:Ed; [|reflexivity]. exfalso. apply E.
        apply declares_In in Ed.
        exact (dirty_host_out _ _ _ _ _ Hok Hs Hl _ _ Hq i h Hi (dirtyM_dirty _ _ _ HdM) Ed).
  Qed.

  Lemma o_run : svc_run_ok_o w' (snd res).
  Proof.
    intros n h Hn. destruct (mem node_eqb (KHost, h) out) eqn:E.
    - apply (mem_In node node_eqb node_eqb_spec) in E. exact (proj2 (o_dirty_host h E) n Hn).
    - apply (mem_false node node_eqb node_eqb_spec) in E.
      pose proof (proj2 (o_clean_host h E) n Hn) as HF. apply Hrun in HF.
      pose proof (fold_sync_sgrows (ow_base w') (filter dirtyM ord') p0) as G.
      unfold step_result. apply (proj1 G). cbn [snd]. apply (proj1 (proj2 Hcomp)).
      split; [apply T1_incl; exact HF|].
      intros Hc. apply E. apply (proj1 Hcomp). eapply C_closed; [exact Hc|apply T1_incl; exact HF].
  Qed.

  (* the links of gw survive: nothing of G is reached *)
  Lemma o_glinks : glinks_ok (ow_g w') (snd res).
  Proof.
    rewrite HGeq. intros n Hn. destruct (HG n Hn) as [H1 H2].
    pose proof (fold_sync_sgrows (ow_base w') (filter dirtyM ord') p0) as G.
    split; apply (proj1 G); cbn [snd]; apply (proj1 (proj2 Hcomp)).
    - split; [apply T1_incl; exact H1|apply o_notC_gnode; exact Hn].
    - split; [apply T1_incl; exact H2|exact o_notC_gw].
  Qed.

  (* no host of G is removed by the ingress partial sync *)
  Lemma o_G_untouched h : GH (ow_g w) h -> fst res (THost h) = s (THost h).
  Proof.
    intros Hg. pose proof (o_GH_not_out h Hg) as Ho.
    unfold step_result. rewrite fold_sync_frame.
    - cbn [fst]. unfold remove_all. apply (mem_false node node_eqb node_eqb_spec) in Ho. rewrite Ho. reflexivity.
    - intros i Hi. apply filter_In in Hi as [Hi HdM]. apply (proj1 (sort_ings_In _ _)) in Hi.
      destruct (declares i h) eqn:Ed; [|reflexivity]. exfalso. apply Ho. apply declares_In in Ed.
      exact (dirty_host_out _ _ _ _ _ Hok Hs Hl _ _ Hq i h Hi (dirtyM_dirty _ _ _ HdM) Ed).
  Qed.
End StepO.

(* ------------------------------------------------------------------ *)
(* one reconciliation                                                   *)
(* ------------------------------------------------------------------ *)
Theorem model_step_o w w' x b :
  InvOr w x -> batch_wf (ow_base w) (ow_base w') (ob_base b) ->
  batch_links_ok (ow_base w) (ow_base w') (ob_base b) -> g_stable w w' b ->
  exists x', sync_o w' x b = Some x' /\ InvOr w' x'.
Proof.
  destruct x as [s T]. intros (Hh & Hs & Hl & Hrun & Hsec & HG) Hok Hbl Hst. cbn [fst snd] in *.
  unfold sync_o, need_full. change (pretrack (ow_base w') (s, T) (ob_base b)) with (T1_of (ow_base w') (s, T) (ob_base b)).
  destruct (query_links node_eqb (T1_of (ow_base w') (s, T) (ob_base b)) (b_links (ob_base b))) as [out|] eqn:Eq;
    [|exfalso; exact (query_links_total node node_eqb node_eqb_spec _ _ Eq)].
  destruct (ob_full b || mem node_eqb gw out) eqn:Ef.
  - exists (sync_full_o w'). split; [reflexivity|apply sync_full_InvOr].
  - apply orb_false_iff in Ef as [Efull Eg]. apply (mem_false node node_eqb node_eqb_spec) in Eg.
    assert (Hq : query_remove node_eqb (T1_of (ow_base w') (s, T) (ob_base b)) (b_links (ob_base b))
                 = Some (out, remove_refs node_eqb (T1_of (ow_base w') (s, T) (ob_base b)) out))
      by (unfold query_remove; rewrite Eq; reflexivity).
    set (T2 := remove_refs node_eqb (T1_of (ow_base w') (s, T) (ob_base b)) out) in *.
    pose proof (comp (ow_base w') s T (ob_base b) Hs out T2 Hq) as Hcomp.
    assert (HGeq : ow_g w' = ow_g w).
    { apply Hst; [exact Efull|]. intros n Hn Hin. apply Eg. apply (proj1 Hcomp).
      eapply C_closed; [eapply C_input; [exact Hs|exact Hq|exact Hin|]|]; apply T1_incl; exact (proj1 (HG n Hn)). }
    exists (step_result (ow_base w') s (ob_base b) out T2). split; [eapply partial_eq; eassumption|].
    split; [|split; [|split; [|split; [|split]]]].
    + eapply o_hosts; eassumption.
    + eapply step_sym; eassumption.
    + eapply step_links; eassumption.
    + eapply o_run; eassumption.
    + eapply step_sec_links; eassumption.
    + eapply o_glinks; eassumption.
Qed.

(* histories: after EVERY reconciliation the hosts of both owners are those of a full sync *)
Fixpoint hist_ok_or (w : oworld) (h : list (obatch * oworld)) : Prop :=
  match h with
  | [] => True
  | (b, w') :: r =>
      batch_wf (ow_base w) (ow_base w') (ob_base b) /\ batch_links_ok (ow_base w) (ow_base w') (ob_base b) /\
      g_stable w w' b /\ hist_ok_or w' r
  end.

(* the states after each reconciliation, with the cluster they must match *)
Fixpoint run_trace (x : st) (h : list (obatch * oworld)) : option (list (oworld * st)) :=
  match h with
  | [] => Some []
  | (b, w') :: r =>
      match sync_o w' x b with
      | Some x' => match run_trace x' r with Some t => Some ((w', x') :: t) | None => None end
      | None => None
      end
  end.

Theorem model_history_or : forall h w x,
  InvOr w x -> hist_ok_or w h ->
  exists t, run_trace x h = Some t /\
            forall w' x', In (w', x') t -> hosts_eq (fst x') (fst (sync_full_o w')).
Proof.
  induction h as [|[b w'] r IH]; intros w x HI Hh; cbn [run_trace].
  - exists []. split; [reflexivity|intros w' x' []].
  - destruct Hh as (Hok & Hbl & Hst & Hrest).
    destruct (model_step_o w w' x b HI Hok Hbl Hst) as (x' & Hp & HI'). rewrite Hp.
    destruct (IH w' x' HI' Hrest) as (t & Ht & Hall). rewrite Ht.
    exists ((w', x') :: t). split; [reflexivity|].
    intros w2 x2 [E|Hin]; [injection E as <- <-; exact (proj1 HI')|apply Hall; exact Hin].
Qed.

Theorem model_history_o w0 h :
  hist_ok_or w0 h ->
  exists t, run_trace (sync_full_o w0) h = Some t /\
            forall w' x', In (w', x') t -> hosts_eq (fst x') (fst (sync_full_o w')).
Proof. intros Hh. apply (model_history_or h w0); [apply sync_full_InvOr|exact Hh]. Qed.

(* what a full sync of both sources shows: G's hosts as G builds them, the others as the
   ingress converter alone builds them (conservativity) *)
Theorem sync_full_o_hosts w : g_disjoint w ->
  forall h, fst (sync_full_o w) (THost h)
            = match assoc h (og_hosts (ow_g w)) with
              | Some r => Some (CHost r)
              | None => fst (sync_full (ow_base w)) (THost h)
              end.
Proof.
  intros Hd h. unfold sync_full_o, sync_full.
  destruct (assoc h (og_hosts (ow_g w))) as [r|] eqn:E.
  - rewrite fold_sync_frame.
    + unfold g_full, ginstall. cbn [fst]. rewrite E. reflexivity.
    + intros i Hi. apply (proj1 (sort_ings_In _ _)) in Hi.
      destruct (declares i h) eqn:Ed; [|reflexivity]. exfalso. apply declares_In in Ed.
      apply (Hd i h Hi Ed). unfold GH.
      clear -E. induction (og_hosts (ow_g w)) as [|[k v] l IH]; cbn in *; [discriminate|].
      destruct (String.eqb_spec h k) as [->|]; [left; reflexivity|right; apply IH; exact E].
  - apply fold_sync_agree. unfold agree, g_full, ginstall. cbn [fst]. rewrite E. reflexivity.
Qed.
