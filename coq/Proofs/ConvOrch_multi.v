(* Model/ConvOrch.v, executable witnesses: the regression of /repo commit 5060862 (sync_old
   drops the hosts of G), the same history through sync_o, and a history that meets the
   premises of model_history_o with partial and full reconciliations. *)
From Coq Require Import List Bool String ZArith Lia Relations.
From HI Require Import Model.Tracker Model.Conv Model.ConvOrch Proofs.Tracker Proofs.IncSync Proofs.Conv
                       Proofs.ConvSort Proofs.ConvHist_base Proofs.ConvHist_keys Proofs.ConvHist_sim
                       Proofs.ConvBack Proofs.ConvHist Proofs.ConvHist_multi Proofs.ConvOrch.
Import ListNotations.
Open Scope string_scope.

Lemma gout_eq_dec (a c : gout) : {a = c} + {a <> c}.
Proof. repeat decide equality. Defined.

Definition g_stableb (w w' : oworld) (b : obatch) : bool :=
  ob_full b || existsb (fun n => mem node_eqb n (b_links (ob_base b))) (gnodes (ow_g w))
  || (if gout_eq_dec (ow_g w') (ow_g w) then true else false).

Lemma g_stableb_sound w w' b : g_stableb w w' b = true -> g_stable w w' b.
Proof.
  unfold g_stableb. intros H Hf Hn. apply orb_true_iff in H as [H|H].
  - apply orb_true_iff in H as [H|H]; [congruence|].
    exfalso. apply existsb_exists in H as (n & Hin & Hm). apply (mem_In node node_eqb node_eqb_spec) in Hm.
    exact (Hn n Hin Hm).
  - destruct (gout_eq_dec (ow_g w') (ow_g w)); [assumption|discriminate].
Qed.

Open Scope Z_scope.
(* Secret ns1/tls-1; Service ns1/svc1; Ingress ns1/ing3: b.example / -> svc1; Gateway gw1 with
   HTTPS listeners (certificate tls-1) and HTTPRoutes g1.gw.example, g2.gw.example -> svc1. *)
Definition o_svc1 := {| s_ns := "ns1"; s_name := "svc1"; s_ports := [ {| sp_name := "http"; sp_port := 80; sp_target := "8080" |} ] |}.
Definition o_svc2 := {| s_ns := "ns1"; s_name := "svc2"; s_ports := [ {| sp_name := "http"; sp_port := 80; sp_target := "9090" |} ] |}.
Definition o_eps (ip : string) := [("ns1/svc1", [ {| ss_name := "http"; ss_port := 8080; ss_ready := [ip] |} ]);
                                   ("ns1/svc2", [ {| ss_name := "http"; ss_port := 9090; ss_ready := ["10.1.0.2"] |} ])].
Definition o_ing (name : string) (stamp : Z) (host svc : string) : ingress :=
  {| i_ns := "ns1"; i_name := name; i_stamp := stamp; i_class := None;
     i_rules := [(host, [{| r_path := "/"; r_type := Prefix; r_svc := svc; r_port := "80" |}])]; i_tls := [] |}.
Definition o_ing3 := o_ing "ing3" 10 "b.example" "svc1".
Definition o_ing4 : ingress :=
  {| i_ns := "ns1"; i_name := "ing4"; i_stamp := 20; i_class := None; i_rules := [];
     i_tls := [(["b.example"], "tls-1")] |}.
Definition o_ing5 := o_ing "ing5" 15 "c.example" "svc2".
Definition o_ghost (ip : string) : hostrec :=
  {| h_paths := [{| hp_path := "/"; hp_type := Prefix; hp_back := "ns1_svc1_8080" |}]; h_tls := Some "H1" |}.
Definition o_g (ip : string) : gout :=
  {| og_hosts := [("g1.gw.example", o_ghost ip); ("g2.gw.example", o_ghost ip)];
     og_backs := [("ns1_svc1_8080", {| b_servers := [(ip, 8080)] |})];
     og_refs := [(KService, "ns1/svc1"); (KEndpoints, "ns1/svc1"); (KSecret, "ns1/tls-1")] |}.
Definition o_world (l : list ingress) (ip : string) : oworld :=
  {| ow_base := {| w_ings := l; w_svcs := [o_svc1; o_svc2]; w_eps := o_eps ip; w_secrets := [("ns1/tls-1", "H1")] |};
     ow_g := o_g ip |}.

Definition hosts_o (o : option st) : option (list (option hostrec)) :=
  match o with
  | Some x => Some (map (get_host (fst x)) ["b.example"; "g1.gw.example"; "g2.gw.example"; "c.example"])
  | None => None
  end.

(* ---- the regression: ing4 (only tls {b.example, tls-1}) is created ---- *)
Definition ow0 := o_world [o_ing3] "10.1.0.1".
Definition ow1 := o_world [o_ing3; o_ing4] "10.1.0.1".
Definition ob1 : obatch :=
  {| ob_base := {| b_links := [(KIngress, "ns1/ing4")]; b_add := [o_ing4]; b_upd := []; b_del := [] |}; ob_full := false |}.

Theorem orchestration_old_refuted :
  batch_wf (ow_base ow0) (ow_base ow1) (ob_base ob1) /\
  hosts_o (sync_old ow1 (sync_full_o ow0) ob1)
    = Some [Some {| h_paths := [{| hp_path := "/"; hp_type := Prefix; hp_back := "ns1_svc1_8080" |}]; h_tls := Some "H1" |};
            None; None; None] /\
  hosts_o (Some (sync_full_o ow1))
    = Some [Some {| h_paths := [{| hp_path := "/"; hp_type := Prefix; hp_back := "ns1_svc1_8080" |}]; h_tls := Some "H1" |};
            Some (o_ghost "10.1.0.1"); Some (o_ghost "10.1.0.1"); None] /\
  hosts_o (sync_o ow1 (sync_full_o ow0) ob1) = hosts_o (Some (sync_full_o ow1)).
Proof. split; [apply batch_wfb_sound; vm_compute; reflexivity|vm_compute; repeat split; reflexivity]. Qed.

(* ---- a history: partial (an ingress on another host and service), full (the Endpoints G
        reads change, G's backend follows), full (the regression batch) ---- *)
Definition ow2 := o_world [o_ing3; o_ing5] "10.1.0.1".
Definition ow3 := o_world [o_ing3; o_ing5] "10.1.0.7".
Definition ow4 := o_world [o_ing3; o_ing5; o_ing4] "10.1.0.7".
Definition ob2 : obatch :=
  {| ob_base := {| b_links := [(KIngress, "ns1/ing5")]; b_add := [o_ing5]; b_upd := []; b_del := [] |}; ob_full := false |}.
Definition ob3 : obatch :=
  {| ob_base := {| b_links := [(KEndpoints, "ns1/svc1")]; b_add := []; b_upd := []; b_del := [] |}; ob_full := false |}.
Definition ohist := [(ob2, ow2); (ob3, ow3); (ob1, ow4)].

Example orch_history_ok : hist_ok_or ow0 ohist.
Proof.
  unfold ohist. cbn [hist_ok_or].
  refine (conj _ (conj _ (conj _ (conj _ (conj _ (conj _ (conj _ (conj _ (conj _ I)))))))));
    first [apply batch_wfb_sound; vm_compute; reflexivity
          |apply batch_links_okb_sound; vm_compute; reflexivity
          |apply g_stableb_sound; vm_compute; reflexivity].
Qed.

Example orch_history_by_theorem :
  exists t, run_trace (sync_full_o ow0) ohist = Some t /\
            forall w' x', In (w', x') t -> hosts_eq (fst x') (fst (sync_full_o w')).
Proof. exact (model_history_o ow0 ohist orch_history_ok). Qed.

(* the first reconciliation is a partial sync that leaves G's hosts alone, the other two are
   full syncs asked by G *)
Example orch_history_eval :
  need_full (pretrack (ow_base ow2) (sync_full_o ow0) (ob_base ob2)) (b_links (ob_base ob2)) = Some false /\
  hosts_o (sync_o ow2 (sync_full_o ow0) ob2) = hosts_o (Some (sync_full_o ow2)) /\
  get_host (fst (sync_full_o ow2)) "c.example" <> None /\
  get_host (fst (sync_full_o ow2)) "g1.gw.example" = Some (o_ghost "10.1.0.1") /\
  need_full (pretrack (ow_base ow3) (sync_full_o ow2) (ob_base ob3)) (b_links (ob_base ob3)) = Some true.
Proof. vm_compute. repeat split; try reflexivity. discriminate. Qed.
