(* Base lemmas for the concrete history theorem of C01 (Proofs/ConvHist.v):
   - decidable equalities and reflection of the boolean tests of Model/Conv.v;
   - a sync of one ingress, seen at one host, reads the world only through the backend
     ids its paths resolve to and the certificate hashes of its tls blocks
     (sync_ingress_agree2: the two-world version of Proofs/Conv.sync_ingress_agree);
   - the tracker only grows through syncIngress / trackAddedIngress, stays symmetric, and
     ends up holding the Ingress-Host link of every declared host. *)
From Coq Require Import List Bool String ZArith Lia Relations.
From HI Require Import Model.Tracker Model.Conv Proofs.Tracker Proofs.IncSync Proofs.Conv.
Import ListNotations.
Open Scope string_scope.

(* ---------- reflection ---------- *)
Lemma kind_eqb_spec a b : reflect (a = b) (kind_eqb a b).
Proof. destruct a, b; cbn; constructor; congruence. Qed.

Lemma node_eqb_spec (a b : node) : reflect (a = b) (node_eqb a b).
Proof.
  destruct a as [ka na], b as [kb nb]. unfold node_eqb. cbn [fst snd].
  destruct (kind_eqb_spec ka kb) as [->|Hk]; cbn [andb].
  - destruct (String.eqb_spec na nb) as [->|Hn]; constructor; congruence.
  - constructor. congruence.
Qed.

Definition namein (n : string) (l : list string) : bool := existsb (String.eqb n) l.

Lemma namein_In n l : namein n l = true <-> In n l.
Proof.
  unfold namein. rewrite existsb_exists. split.
  - intros (x & Hx & He). apply String.eqb_eq in He. subst. exact Hx.
  - intros H. exists n. split; [exact H|apply String.eqb_refl].
Qed.

Lemma namein_false n l : namein n l = false <-> ~ In n l.
Proof.
  rewrite <- namein_In. destruct (namein n l); split; intros H.
  - discriminate.
  - exfalso. apply H. reflexivity.
  - intros Hc. discriminate.
  - reflexivity.
Qed.

Lemma names_of_In k n out : In n (names_of k out) <-> In (k, n) out.
Proof.
  unfold names_of. rewrite in_map_iff. split.
  - intros ([k' n'] & Hs & Hf). cbn in Hs. subst n'. apply filter_In in Hf as [Hin He]. cbn in He.
    destruct (kind_eqb_spec k' k); [subst; exact Hin|discriminate].
  - intros H. exists (k, n). split; [reflexivity|]. apply filter_In. split; [exact H|]. cbn.
    destruct (kind_eqb_spec k k); [reflexivity|contradiction].
Qed.

Lemma dedup_In x l : In x (dedup l) <-> In x l.
Proof.
  induction l as [|a l IH]; cbn [dedup]; [reflexivity|].
  destruct (existsb (String.eqb a) l) eqn:E.
  - rewrite IH. split; [intros H; right; exact H|]. intros [<-|H]; [|exact H].
    apply (namein_In a l). exact E.
  - cbn. rewrite IH. reflexivity.
Qed.

Lemma dedup_NoDup l : NoDup (dedup l).
Proof.
  induction l as [|a l IH]; cbn [dedup]; [constructor|].
  destruct (existsb (String.eqb a) l) eqn:E; [exact IH|].
  constructor; [|exact IH]. rewrite dedup_In. apply (namein_false a l). exact E.
Qed.

Lemma ingress_eq_dec (a b : ingress) : {a = b} + {a <> b}.
Proof. repeat decide equality. Defined.

Lemma service_eq_dec (a b : service) : {a = b} + {a <> b}.
Proof. repeat decide equality. Defined.

Lemma string_in_dec (n : string) (l : list string) : {In n l} + {~ In n l}.
Proof. apply in_dec. apply string_dec. Qed.

(* ---------- folds ---------- *)
Lemma fold_agree2 {A} (f g : st -> A -> st) (l : list A) h :
  (forall a x1 x2, In a l -> agree h x1 x2 -> agree h (f x1 a) (g x2 a)) ->
  forall x1 x2, agree h x1 x2 -> agree h (fold_left f l x1) (fold_left g l x2).
Proof.
  induction l as [|a l IH]; intros Hf x1 x2 Ha; cbn; [exact Ha|].
  apply IH; [intros; apply Hf; [right; assumption|assumption]|]. apply Hf; [left; reflexivity|exact Ha].
Qed.

Lemma fold_rel {S A} (R : S -> S -> Prop) (f : S -> A -> S) (l : list A) :
  (forall x, R x x) -> (forall x y z, R x y -> R y z -> R x z) ->
  (forall x a, In a l -> R x (f x a)) -> forall x, R x (fold_left f l x).
Proof.
  intros Hr Ht. induction l as [|a l IH]; intros Hf x; cbn; [apply Hr|].
  eapply Ht; [apply Hf; left; reflexivity|]. apply IH. intros; apply Hf; right; assumption.
Qed.

(* what the step of element a produced is below the final result *)
Lemma fold_rel_at {S A} (R : S -> S -> Prop) (f : S -> A -> S) (l : list A) a :
  (forall x, R x x) -> (forall x y z, R x y -> R y z -> R x z) ->
  (forall x a, In a l -> R x (f x a)) -> In a l ->
  forall x, exists y, R (f y a) (fold_left f l x).
Proof.
  intros Hr Ht. induction l as [|c l IH]; intros Hf Hin x; [contradiction|]. cbn [fold_left].
  destruct Hin as [->|Hin].
  - exists x. apply fold_rel; [exact Hr|exact Ht|]. intros; apply Hf; right; assumption.
  - apply IH; [intros; apply Hf; right; assumption|exact Hin].
Qed.

(* ---------- the world as one ingress sees it ---------- *)
Definition tls_hash (w : world) (i : ingress) (sec : string) : string := fst (tls_of w i sec []).

Definition view_eq (w w' : world) (i : ingress) : Prop :=
  (forall rule r, In rule (i_rules i) -> In r (snd rule) -> resolve w i r = resolve w' i r) /\
  (forall blk, In blk (i_tls i) -> fst blk <> [] -> tls_hash w i (snd blk) = tls_hash w' i (snd blk)).

Lemma sync_path_agree2 w w' i hn r x1 x2 h :
  resolve w i r = resolve w' i r ->
  agree h x1 x2 -> agree h (sync_path w i hn x1 r) (sync_path w' i hn x2 r).
Proof.
  intros Hr Ha. unfold agree. destruct (String.eqb_spec h hn) as [->|Hne];
    [|rewrite !sync_path_other by exact Hne; exact Ha].
  unfold sync_path. rewrite (get_host_agree hn x1 x2 Ha).
  destruct (get_host (fst x2) hn) as [hr|]; [|exact Ha].
  destruct (has_path hr _ _); [exact Ha|].
  pose proof (add_backend_spec w i hn r x1) as [Ho1 Hh1].
  pose proof (add_backend_spec w' i hn r x2) as [Ho2 Hh2].
  destruct (add_backend w i hn r x1) as [[s1 T1] ob1]. destruct (add_backend w' i hn r x2) as [[s2 T2] ob2].
  cbn [fst snd] in *. subst ob1 ob2. rewrite Hr.
  destruct (resolve w' i r) as [bid|]; cbn [fst]; [|rewrite Hh1, Hh2; exact Ha].
  assert (Hg : get_host s1 hn = get_host s2 hn) by (unfold get_host; rewrite Hh1, Hh2, Ha; reflexivity).
  rewrite Hg. destruct (get_host s2 hn); cbn [fst]; [|rewrite Hh1, Hh2; exact Ha].
  rewrite !upd_same. reflexivity.
Qed.

Lemma sync_rule_agree2 w w' i rule x1 x2 h :
  (forall r, In r (snd rule) -> resolve w i r = resolve w' i r) ->
  agree h x1 x2 -> agree h (sync_rule w i x1 rule) (sync_rule w' i x2 rule).
Proof.
  intros Hr Ha. unfold sync_rule. apply fold_agree2.
  - intros r y1 y2 Hin. apply sync_path_agree2. apply Hr. exact Hin.
  - apply add_host_agree. destruct (i_class i); exact Ha.
Qed.

Lemma sync_tls_host_agree2 w w' i sec hn x1 x2 h :
  tls_hash w i sec = tls_hash w' i sec ->
  agree h x1 x2 -> agree h (sync_tls_host w i sec x1 hn) (sync_tls_host w' i sec x2 hn).
Proof.
  intros Hhash Ha. unfold agree. destruct (String.eqb_spec h hn) as [->|Hne];
    [|rewrite !sync_tls_host_other by exact Hne; exact Ha].
  unfold sync_tls_host.
  pose proof (add_host_agree i hn x1 x2 hn Ha) as Hb. unfold agree in Hb.
  destruct (add_host i hn x1) as [s1 T1]. destruct (add_host i hn x2) as [s2 T2]. cbn [fst] in Hb.
  pose proof (tls_of_hash w i sec T1 []) as Hh1. pose proof (tls_of_hash w' i sec T2 []) as Hh2.
  fold (tls_hash w i sec) in Hh1. fold (tls_hash w' i sec) in Hh2. rewrite <- Hhash in Hh2.
  destruct (tls_of w i sec T1) as [hash1 T1']. destruct (tls_of w' i sec T2) as [hash2 T2'].
  cbn [fst] in Hh1, Hh2. subst hash1 hash2.
  assert (Hg : get_host s1 hn = get_host s2 hn) by (unfold get_host; rewrite Hb; reflexivity).
  rewrite Hg. destruct (get_host s2 hn) as [hr|]; cbn [fst]; [|exact Hb].
  destruct (h_tls hr); cbn [fst]; [exact Hb|]. rewrite !upd_same. reflexivity.
Qed.

Lemma sync_tls_agree2 w w' i blk x1 x2 h :
  (fst blk <> [] -> tls_hash w i (snd blk) = tls_hash w' i (snd blk)) ->
  agree h x1 x2 -> agree h (sync_tls w i x1 blk) (sync_tls w' i x2 blk).
Proof.
  intros Hh Ha. unfold sync_tls. apply fold_agree2; [|exact Ha].
  intros hn y1 y2 Hin. apply sync_tls_host_agree2. apply Hh. intros E. rewrite E in Hin. exact Hin.
Qed.

Theorem sync_ingress_agree2 w w' i x1 x2 h :
  view_eq w w' i ->
  agree h x1 x2 -> agree h (sync_ingress w x1 i) (sync_ingress w' x2 i).
Proof.
  intros [Hr Ht] Ha. unfold sync_ingress. apply fold_agree2.
  - intros blk y1 y2 Hin. apply sync_tls_agree2. apply Ht. exact Hin.
  - apply fold_agree2; [|exact Ha]. intros rule y1 y2 Hin. apply sync_rule_agree2.
    intros r Hrin. eapply Hr; eassumption.
Qed.

Lemma hrun_view_eq w w' i s : view_eq w w' i -> seq tgt content (hrun w i s) (hrun w' i s).
Proof.
  intros Hv t. destruct t as [h|bk]; cbn; [|reflexivity].
  apply (sync_ingress_agree2 w w' i (s, []) (s, []) h Hv). reflexivity.
Qed.

(* ---------- growth of the tracker ---------- *)
Definition grows (T T' : ctracker) : Prop :=
  incl T T' /\ (symmetric node T -> symmetric node T').

Lemma grows_refl T : grows T T.
Proof. split; [apply incl_refl|tauto]. Qed.

Lemma grows_trans T1 T2 T3 : grows T1 T2 -> grows T2 T3 -> grows T1 T3.
Proof. intros [I1 S1] [I2 S2]. split; [eapply incl_tran; eassumption|tauto]. Qed.

Lemma grows_track T a b : grows T (track T a b).
Proof.
  split; [intros e He; unfold track; right; right; exact He|]. apply track_symmetric.
Qed.

Lemma track_In T (a b : node) : In (a, b) (track T a b).
Proof. left. reflexivity. Qed.

Definition sgrows (x x' : st) : Prop := grows (snd x) (snd x').
Lemma sgrows_refl x : sgrows x x. Proof. apply grows_refl. Qed.
Lemma sgrows_trans x y z : sgrows x y -> sgrows y z -> sgrows x z. Proof. apply grows_trans. Qed.

Lemma add_host_snd i hn x : snd (add_host i hn x) = track (snd x) (KIngress, i_full i) (KHost, hn).
Proof. destruct x as [s T]. reflexivity. Qed.

Lemma add_host_sgrows i hn x : sgrows x (add_host i hn x).
Proof. unfold sgrows. rewrite add_host_snd. apply grows_track. Qed.

Lemma add_backend_sgrows w i hn r x : sgrows x (fst (add_backend w i hn r x)).
Proof.
  destruct x as [s T]. unfold sgrows, add_backend. cbn [snd].
  assert (G1 : grows T (track (track T (KService, i_ns i ++ "/" ++ r_svc r) (KHost, hn))
                              (KEndpoints, i_ns i ++ "/" ++ r_svc r) (KHost, hn))).
  { eapply grows_trans; apply grows_track. }
  destruct (find_svc w _) as [svc|]; [|exact G1].
  destruct (pick_port svc _) as [p|]; [|exact G1].
  cbn [fst snd]. eapply grows_trans; [exact G1|apply grows_track].
Qed.

Lemma sync_path_sgrows w i hn x r : sgrows x (sync_path w i hn x r).
Proof.
  unfold sync_path. destruct (get_host (fst x) hn) as [hr|]; [|apply sgrows_refl].
  destruct (has_path hr _ _); [apply sgrows_refl|].
  pose proof (add_backend_sgrows w i hn r x) as G.
  destruct (add_backend w i hn r x) as [x1 ob]. cbn [fst] in G.
  destruct ob as [bid|]; [|exact G]. destruct x1 as [s1 T1].
  destruct (get_host s1 hn); exact G.
Qed.

Lemma sync_rule_sgrows w i x rule : sgrows x (sync_rule w i x rule).
Proof.
  unfold sync_rule.
  eapply sgrows_trans;
    [|apply (fold_rel sgrows (sync_path w i (norm_host (fst rule))) (snd rule) sgrows_refl sgrows_trans);
      intros; apply sync_path_sgrows].
  eapply sgrows_trans; [|apply add_host_sgrows].
  destruct (i_class i); [|apply sgrows_refl]. unfold sgrows. cbn [snd]. apply grows_track.
Qed.

Lemma sync_rule_link w i x rule :
  In ((KIngress, i_full i), (KHost, norm_host (fst rule))) (snd (sync_rule w i x rule)).
Proof.
  unfold sync_rule.
  match goal with |- In _ (snd (fold_left ?f ?l ?x0)) =>
    assert (G : sgrows x0 (fold_left f l x0))
      by (apply (fold_rel sgrows f l sgrows_refl sgrows_trans); intros; apply sync_path_sgrows)
  end.
  apply (proj1 G). rewrite add_host_snd. apply track_In.
Qed.

Lemma tls_of_grows w i sec T : grows T (snd (tls_of w i sec T)).
Proof.
  unfold tls_of. destruct (String.eqb sec ""); [apply grows_refl|].
  destruct (assoc _ _); apply grows_track.
Qed.

Lemma sync_tls_host_snd w i sec x hn :
  snd (sync_tls_host w i sec x hn)
  = snd (tls_of w i sec (track (snd x) (KIngress, i_full i) (KHost, hn))).
Proof.
  unfold sync_tls_host. pose proof (add_host_snd i hn x) as Hs.
  destruct (add_host i hn x) as [s1 T1]. cbn [snd] in Hs. subst T1.
  destruct (tls_of w i sec _) as [hash T2]. cbn [snd].
  destruct (get_host s1 hn) as [hr|]; [|reflexivity]. destruct (h_tls hr); reflexivity.
Qed.

Lemma sync_tls_host_sgrows w i sec x hn : sgrows x (sync_tls_host w i sec x hn).
Proof.
  unfold sgrows. rewrite sync_tls_host_snd. eapply grows_trans; [apply grows_track|apply tls_of_grows].
Qed.

Lemma sync_tls_host_link w i sec x hn :
  In ((KIngress, i_full i), (KHost, hn)) (snd (sync_tls_host w i sec x hn)).
Proof. rewrite sync_tls_host_snd. apply (proj1 (tls_of_grows w i sec _)). apply track_In. Qed.

Lemma sync_tls_sgrows w i x blk : sgrows x (sync_tls w i x blk).
Proof.
  unfold sync_tls. apply (fold_rel sgrows _ (fst blk) sgrows_refl sgrows_trans). intros; apply sync_tls_host_sgrows.
Qed.

Lemma sync_tls_link w i x blk hn : In hn (fst blk) ->
  In ((KIngress, i_full i), (KHost, hn)) (snd (sync_tls w i x blk)).
Proof.
  intros Hin. unfold sync_tls.
  destruct (fold_rel_at sgrows (sync_tls_host w i (snd blk)) (fst blk) hn sgrows_refl sgrows_trans
              (fun y a _ => sync_tls_host_sgrows w i (snd blk) y a) Hin x) as [y G].
  apply (proj1 G). apply sync_tls_host_link.
Qed.

Theorem sync_ingress_sgrows w x i : sgrows x (sync_ingress w x i).
Proof.
  unfold sync_ingress. eapply sgrows_trans.
  - apply (fold_rel sgrows (sync_rule w i) (i_rules i) sgrows_refl sgrows_trans). intros; apply sync_rule_sgrows.
  - apply (fold_rel sgrows (sync_tls w i) (i_tls i) sgrows_refl sgrows_trans). intros; apply sync_tls_sgrows.
Qed.

Theorem sync_ingress_link w x i h : In h (declared i) ->
  In ((KIngress, i_full i), (KHost, h)) (snd (sync_ingress w x i)).
Proof.
  intros Hin. unfold declared in Hin. unfold sync_ingress. apply in_app_or in Hin as [Hin|Hin].
  - apply in_map_iff in Hin as (rule & <- & Hr).
    destruct (fold_rel_at sgrows (sync_rule w i) (i_rules i) rule sgrows_refl sgrows_trans
                (fun y a _ => sync_rule_sgrows w i y a) Hr x) as [y G].
    match goal with |- In _ (snd (fold_left ?f ?l ?x0)) =>
      assert (G2 : sgrows x0 (fold_left f l x0))
        by (apply (fold_rel sgrows f l sgrows_refl sgrows_trans); intros; apply sync_tls_sgrows)
    end.
    apply (proj1 G2). apply (proj1 G). apply sync_rule_link.
  - apply in_flat_map in Hin as (blk & Hb & Hh).
    match goal with |- In _ (snd (fold_left ?f ?l ?x0)) =>
      destruct (fold_rel_at sgrows f l blk sgrows_refl sgrows_trans
                  (fun y a _ => sync_tls_sgrows w i y a) Hb x0) as [y G]
    end.
    apply (proj1 G). apply sync_tls_link. exact Hh.
Qed.

Lemma fold_sync_sgrows w l x : sgrows x (fold_left (sync_ingress w) l x).
Proof. apply (fold_rel sgrows (sync_ingress w) l sgrows_refl sgrows_trans). intros; apply sync_ingress_sgrows. Qed.

Lemma fold_sync_link w l x i h : In i l -> In h (declared i) ->
  In ((KIngress, i_full i), (KHost, h)) (snd (fold_left (sync_ingress w) l x)).
Proof.
  intros Hi Hh.
  destruct (fold_rel_at sgrows (sync_ingress w) l i sgrows_refl sgrows_trans
              (fun y a _ => sync_ingress_sgrows w y a) Hi x) as [y G].
  apply (proj1 G). apply sync_ingress_link. exact Hh.
Qed.

(* ---------- trackAddedIngress ---------- *)
Lemma fold_grows {A} (f : ctracker -> A -> ctracker) (l : list A) :
  (forall T a, In a l -> grows T (f T a)) -> forall T, grows T (fold_left f l T).
Proof. apply (fold_rel grows f l grows_refl grows_trans). Qed.

Lemma fold_grows_at {A} (f : ctracker -> A -> ctracker) (l : list A) a e :
  (forall T a, In a l -> grows T (f T a)) -> In a l -> (forall T, In e (f T a)) ->
  forall T, In e (fold_left f l T).
Proof.
  intros Hf Hin He T.
  destruct (fold_rel_at grows f l a grows_refl grows_trans Hf Hin T) as [y G].
  apply (proj1 G). apply He.
Qed.

Lemma track_added_paths_grows w s i (l : list prule) T :
  grows T (fold_left (fun T r => match find_backend w s i r with
                                 | Some bid => track T (KIngress, i_full i) (KBackend, bid)
                                 | None => T end) l T).
Proof.
  apply fold_grows. intros T3 r _.
  destruct (find_backend w s i r); [apply grows_track|apply grows_refl].
Qed.

Lemma track_added_grows w s T i : grows T (track_added_ing w s T i).
Proof.
  unfold track_added_ing. eapply grows_trans.
  2:{ apply fold_grows. intros T0 blk _. apply fold_grows. intros T3 hn _. apply grows_track. }
  apply fold_grows. intros T0 rule _.
  eapply grows_trans; [apply grows_track|apply track_added_paths_grows].
Qed.

Lemma track_added_link w s T i h : In h (declared i) ->
  In ((KIngress, i_full i), (KHost, h)) (track_added_ing w s T i).
Proof.
  intros Hin. unfold declared in Hin. unfold track_added_ing. apply in_app_or in Hin as [Hin|Hin].
  - apply in_map_iff in Hin as (rule & <- & Hr).
    match goal with |- In _ (fold_left ?g (i_tls i) ?T0) =>
      assert (G2 : grows T0 (fold_left g (i_tls i) T0))
    end.
    { apply fold_grows. intros T0 blk _. apply fold_grows. intros T3 hn _. apply grows_track. }
    apply (proj1 G2).
    apply (fold_grows_at _ (i_rules i) rule); [|exact Hr|].
    + intros T0 a _. eapply grows_trans; [apply grows_track|apply track_added_paths_grows].
    + intros T0. apply (proj1 (track_added_paths_grows w s i (snd rule) _)). apply track_In.
  - apply in_flat_map in Hin as (blk & Hb & Hh).
    apply (fold_grows_at _ (i_tls i) blk); [|exact Hb|].
    + intros T0 a _. apply fold_grows. intros T3 hn _. apply grows_track.
    + intros T0. apply (fold_grows_at _ (fst blk) h); [|exact Hh|].
      * intros T3 hn _. apply grows_track.
      * intros T3. apply track_In.
Qed.

Lemma fold_track_added_grows w s l T : grows T (fold_left (track_added_ing w s) l T).
Proof. apply fold_grows. intros; apply track_added_grows. Qed.

Lemma fold_track_added_link w s l T i h : In i l -> In h (declared i) ->
  In ((KIngress, i_full i), (KHost, h)) (fold_left (track_added_ing w s) l T).
Proof.
  intros Hi Hh. apply (fold_grows_at _ l i); [|exact Hi|].
  - intros; apply track_added_grows.
  - intros T0. apply track_added_link. exact Hh.
Qed.
