(* C01, concrete history theorems at hosts level for the mini-converter of Model/Conv.v.

   Inv w (s, T): the hosts of s are those of a full sync of the cluster w, the tracker is
   symmetric and holds the Ingress-Host link of every host declared by a current ingress.

   batch_ok w w' b: the batch b is what the watchers report when the cluster goes from w
   to w' with at most one event per Ingress.  batch_wf w w' b is weaker and is what the
   proofs use; it also holds of batches with several events for one Ingress
   (Proofs/ConvHist_events.v: events_wf, for every sequence of add / update / delete).

   Three step theorems, each with its history theorem (a None of sync_partial never
   happens: query_links_total):

   1. model_partial_step(_wf): Inv w x -> batch_ok w w' b -> H_view w w' x b ->
        exists x', sync_partial w' x b = Some x' /\ Inv w' x'.
      Route: the generic theory of Proofs/IncSync.v (partial_step, tracker_conditions),
      sources = ingress records, dirty = reached by QueryLinks or added / updated /
      deleted, X = Xof out; ings_ok and (K) by Proofs/ConvSort.v.
      H_view w w' x b is a premise: an ingress that is unchanged and that QueryLinks does
      not reach sees the same world before and after (its paths resolve to the same
      backend ids, its tls blocks to the same certificate hashes).

   2. model_partial_step_tracked: H_view is derived from the extended invariant InvT (the
      Service-Host link of every path and the Ingress-Secret link of every tls block are
      in the tracker) when changed.Links names the changed Services and Secrets
      (batch_links_ok) and no (host, path, match type) is declared twice (no_redecl w':
      then no path is skipped as redeclared, and every path gets its Track call).

   3. model_partial_step_general: no view premise and no side condition on the paths.
      InvG: the tracker holds every Service-Host link that a full sync of the current
      cluster tracks (i.e. those of the paths that are not skipped), and the
      Ingress-Secret links.  Direct proof, host by host (Proofs/ConvHist_sim.v): a host
      returned by QueryLinks is removed and rebuilt by the same ingresses as in a full
      sync; a host not returned is built by the same ingresses, in the same order, in
      both clusters, and every Service / Secret these read through a path that is not
      skipped / a tls block is linked to the host, hence unchanged.
      model_history_general: for every cluster w0 and every finite list of (batch,
      cluster) steps with batch_wf and batch_links_ok, folding sync_partial from
      sync_full w0 never fails and ends with the hosts of sync_full of the last cluster.

   4. model_partial_step_obs / model_history_obs / model_steps_obs: the same for the full
      observation obs_host (paths with the servers of their backends, certificate).
      InvO adds J (Proofs/ConvBack.v): every backend is fresh for the current cluster and
      anchored in the tracker; batch_links_ok_e also names the changed Endpoints; the
      last cluster must satisfy back_det (same backend id => same servers).
      model_steps_*: histories that interleave full syncs. *)
From Coq Require Import List Bool String ZArith Lia Relations Permutation Sorted.
From HI Require Import Model.Tracker Model.Conv Proofs.Tracker Proofs.IncSync Proofs.Conv
                       Proofs.ConvSort Proofs.ConvHist_base Proofs.ConvHist_keys Proofs.ConvHist_sim Proofs.ConvBack.
Import ListNotations.
Open Scope string_scope.

Definition nS (i : ingress) : node := (KIngress, i_full i).
Definition nT (t : tgt) : node :=
  match t with THost h => (KHost, h) | TBack bk => (KBackend, bk) end.

(* every host declared by a current ingress is linked to it *)
Definition links_ok (w : world) (T : ctracker) : Prop :=
  forall i h, In i (w_ings w) -> In h (declared i) -> In (nS i, (KHost, h)) T.

Definition Inv (w : world) (x : st) : Prop :=
  hosts_eq (fst x) (fst (sync_full w)) /\ symmetric node (snd x) /\ links_ok w (snd x).

(* The batch the watchers build when the cluster goes from w to w', one event per object.
   Not needed and therefore not required: that the creation stamp of a name is constant
   (an updated ingress is re-sorted among the dirty ones anyway). The Service / Endpoints /
   Secret entries of b_links are only needed to establish H_view (see batch_links_ok). *)
Record batch_ok (w w' : world) (b : batch) : Prop := {
  bo_nodup : NoDup (map i_full (w_ings w));
  bo_nodup' : NoDup (map i_full (w_ings w'));
  (* added: the ingresses of w' whose name is new *)
  bo_add : forall i, In i (b_add b) <-> In i (w_ings w') /\ ~ In (i_full i) (map i_full (w_ings w));
  (* updated: the ingresses of w' whose name existed with another record *)
  bo_upd : forall i, In i (b_upd b) <->
             In i (w_ings w') /\ In (i_full i) (map i_full (w_ings w)) /\ ~ In i (w_ings w);
  (* deleted: the names of w that are gone *)
  bo_del : forall n, In n (b_del b) <-> In n (map i_full (w_ings w)) /\ ~ In n (map i_full (w_ings w'));
  (* every event also records the Ingress name in changed.Links *)
  bo_links_ing : forall i, In i (b_add b ++ b_upd b) -> In (KIngress, i_full i) (b_links b);
  bo_links_del : forall n, In n (b_del b) -> In (KIngress, n) (b_links b)
}.

(* What the proofs need of a batch -- weaker than batch_ok, and also true of batches that
   hold several events for one Ingress (created and deleted, deleted and re-created,
   created and updated, ... within one batch; see events_wf in Proofs/ConvHist_events.v):
   the objects of b_add / b_upd may be outdated and their names need not exist any more. *)
Record batch_wf (w w' : world) (b : batch) : Prop := {
  wf_nodup : NoDup (map i_full (w_ings w));
  wf_nodup' : NoDup (map i_full (w_ings w'));
  (* the current record of an ingress that is new or changed was reported *)
  wf_new : forall i, In i (w_ings w') -> ~ In i (w_ings w) -> In i (b_add b) \/ In i (b_upd b);
  (* a name that is gone was reported as deleted *)
  wf_gone : forall n, In n (map i_full (w_ings w)) -> ~ In n (map i_full (w_ings w')) -> In n (b_del b);
  (* a deleted name that exists (again) was re-added *)
  wf_readd : forall n, In n (b_del b) -> In n (map i_full (w_ings w')) -> In n (map i_full (b_add b));
  (* an object that was added, and neither updated nor deleted, is the current one *)
  wf_added_current : forall i, In i (b_add b) -> ~ In (i_full i) (b_del b) ->
                       ~ In (i_full i) (map i_full (b_upd b)) -> In i (w_ings w');
  wf_links_ing : forall i, In i (b_add b ++ b_upd b) -> In (KIngress, i_full i) (b_links b);
  wf_links_del : forall n, In n (b_del b) -> In (KIngress, n) (b_links b)
}.

Lemma batch_ok_wf w w' b : batch_ok w w' b -> batch_wf w w' b.
Proof.
  intros H. constructor.
  - apply (bo_nodup _ _ _ H).
  - apply (bo_nodup' _ _ _ H).
  - intros i Hi Hn. destruct (string_in_dec (i_full i) (map i_full (w_ings w))) as [Hm|Hm].
    + right. apply (bo_upd _ _ _ H). tauto.
    + left. apply (bo_add _ _ _ H). tauto.
  - intros n Hn Hn'. apply (bo_del _ _ _ H). tauto.
  - intros n Hn Hn'. apply (bo_del _ _ _ H) in Hn. tauto.
  - intros i Hi _ _. apply (bo_add _ _ _ H) in Hi. tauto.
  - apply (bo_links_ing _ _ _ H).
  - apply (bo_links_del _ _ _ H).
Qed.

Lemma find_ing_spec w n i : NoDup (map i_full (w_ings w)) ->
  find_ing w n = Some i <-> In i (w_ings w) /\ i_full i = n.
Proof.
  intros Hn. unfold find_ing. split.
  - intros H. apply find_some in H as [Hin He]. apply String.eqb_eq in He. tauto.
  - intros [Hi <-]. destruct (find _ (w_ings w)) as [j|] eqn:E.
    + apply find_some in E as [Hin He]. apply String.eqb_eq in He. f_equal.
      eapply NoDup_names_inj; [exact Hn|exact Hin|exact Hi|exact He].
    + exfalso. pose proof (find_none _ _ E i Hi) as Hc. cbn in Hc. rewrite String.eqb_refl in Hc. discriminate.
Qed.

(* changed.Links also names every Service and Secret whose entry differs between the two
   clusters (the Endpoints entries are not needed at hosts level) *)
Record batch_links_ok (w w' : world) (b : batch) : Prop := {
  bl_svc : forall n, find_svc w n <> find_svc w' n -> In (KService, n) (b_links b);
  bl_sec : forall n, assoc n (w_secrets w) <> assoc n (w_secrets w') -> In (KSecret, n) (b_links b)
}.

(* the invariant extended with the Service-Host links of the paths and the Ingress-Secret
   links of the tls blocks *)
Definition InvT (w : world) (x : st) : Prop :=
  Inv w x /\ svc_links_ok w (snd x) /\ sec_links_ok w (snd x).

(* ... and every Endpoints object whose entry differs (servers reads w_eps) *)
Record batch_links_ok_e (w w' : world) (b : batch) : Prop := {
  ble_base : batch_links_ok w w' b;
  ble_eps : forall n, assoc n (w_eps w) <> assoc n (w_eps w') -> In (KEndpoints, n) (b_links b)
}.

(* the general invariant: the tracker holds every Service-Host link that a full sync of
   the current cluster tracks (those of the paths that are not skipped as redeclared) *)
Definition svc_run_ok (w : world) (T : ctracker) : Prop :=
  forall n h, In (hsvc n h) (snd (sync_full w)) -> In (hsvc n h) T.

Definition InvG (w : world) (x : st) : Prop :=
  Inv w x /\ svc_run_ok w (snd x) /\ sec_links_ok w (snd x).

(* with the backends: every backend is fresh and anchored in the tracker (Proofs/ConvBack.v) *)
Definition InvO (w : world) (x : st) : Prop := InvG w x /\ J w x.

(* the tracker QueryLinks is asked: the old one plus the links of trackAddedIngress *)
Definition T1_of (w' : world) (x : st) (b : batch) : ctracker :=
  fold_left (track_added_ing w' (fst x)) (b_add b ++ b_upd b) (snd x).

Definition H_view (w w' : world) (x : st) (b : batch) : Prop :=
  forall i, In i (w_ings w) -> In i (w_ings w') ->
    ~ reach node (T1_of w' x b) (b_links b) (nS i) -> view_eq w w' i.

(* dirty sources: reached by QueryLinks, added, updated or deleted; those that the model
   re-syncs are the ones named by merge_names *)
Definition dnames (out : list node) (b : batch) : list string :=
  names_of KIngress out ++ map i_full (b_add b) ++ map i_full (b_upd b) ++ b_del b.
Definition dirty_of (out : list node) (b : batch) (i : ingress) : bool :=
  namein (i_full i) (dnames out b).
Definition dirtyM_of (out : list node) (b : batch) (i : ingress) : bool :=
  namein (i_full i) (merge_names (names_of KIngress out) b).

Lemma filter_filter_sub {A} (p q : A -> bool) l :
  (forall x, In x l -> q x = true -> p x = true) -> filter q (filter p l) = filter q l.
Proof.
  induction l as [|a l IH]; intros H; cbn [filter]; [reflexivity|].
  assert (IH' : filter q (filter p l) = filter q l) by (apply IH; intros; apply H; [right|]; assumption).
  destruct (p a) eqn:Ep; cbn [filter].
  - rewrite IH'. reflexivity.
  - destruct (q a) eqn:Eq; [|exact IH'].
    rewrite (H a (or_introl eq_refl) Eq) in Ep. discriminate.
Qed.

(* sources without footprint can be skipped *)
Lemma hruns_skip w (q : ingress -> bool) l :
  (forall i, In i l -> q i = false -> forall t, hfp w i t = false) ->
  forall s, hseq (hruns w (filter q l) s) (hruns w l s).
Proof.
  induction l as [|a l IH]; intros H s; cbn [filter]; [apply seq_refl|].
  assert (H' : forall i, In i l -> q i = false -> forall t, hfp w i t = false)
    by (intros; apply H; [right|]; assumption).
  destruct (q a) eqn:E.
  - change (hseq (hruns w (filter q l) (hrun w a s)) (hruns w l (hrun w a s))). apply IH. exact H'.
  - change (hseq (hruns w (filter q l) s) (hruns w l (hrun w a s))).
    eapply seq_trans; [apply IH; exact H'|].
    apply (runs_proper world ingress tgt content hrun hfp hrun_frame hrun_local).
    intros t. symmetry. apply hrun_frame. apply H; [left; reflexivity|exact E].
Qed.

Section Step.
  Variables (w w' : world) (s : cstate) (T : ctracker) (b : batch).
  Hypothesis Hok : batch_wf w w' b.
  Hypothesis Hsym : symmetric node T.
  Hypothesis Hlinks : links_ok w T.
  Variables (out : list node) (T2 : ctracker).

  Notation T1 := (T1_of w' (s, T) b).
  Notation C := (reach node T1 (b_links b)).
  Notation dirty := (dirty_of out b).
  Notation dirtyM := (dirtyM_of out b).
  Notation ord := (sort_ings (w_ings w)).
  Notation ord' := (sort_ings (w_ings w')).

  Hypothesis Hq : query_remove node_eqb T1 (b_links b) = Some (out, T2).

  Lemma T1_grows : grows T T1.
  Proof. unfold T1_of. cbn [fst snd]. apply fold_track_added_grows. Qed.

  Lemma T1_sym : symmetric node T1.
  Proof. apply (proj2 T1_grows). exact Hsym. Qed.

  Lemma T1_incl e : In e T -> In e T1.
  Proof. apply (proj1 T1_grows). Qed.

  Lemma T1_new i h : In i (b_add b ++ b_upd b) -> In h (declared i) -> In (nS i, (KHost, h)) T1.
  Proof. unfold T1_of. cbn [fst snd]. apply fold_track_added_link. Qed.

  Lemma comp :
    (forall m, In m out <-> C m) /\
    (forall a c, In (a, c) T2 <-> In (a, c) T1 /\ ~ C a) /\
    (forall n, In n (b_links b) -> (exists m, edge node T1 n m) -> In n out).
  Proof. exact (query_remove_component node node_eqb node_eqb_spec T1 (b_links b) out T2 T1_sym Hq). Qed.

  Lemma C_closed a c : C a -> edge node T1 a c -> C c.
  Proof.
    intros (n & Hn & Hr) He. exists n. split; [exact Hn|].
    eapply t_trans; [exact Hr|apply t_step; exact He].
  Qed.

  Lemma C_input n m : In n (b_links b) -> edge node T1 n m -> C n.
  Proof.
    intros Hn He. apply (proj1 comp). apply (proj2 (proj2 comp)); [exact Hn|]. exists m. exact He.
  Qed.

  Lemma dirty_cases i :
    dirty i = true <->
    In (KIngress, i_full i) out \/ In (i_full i) (map i_full (b_add b)) \/
    In (i_full i) (map i_full (b_upd b)) \/ In (i_full i) (b_del b).
  Proof.
    unfold dirty_of, dnames. rewrite namein_In, !in_app_iff, names_of_In. reflexivity.
  Qed.

  Lemma dirtyM_cases i :
    dirtyM i = true <->
    ((In (KIngress, i_full i) out \/ In (i_full i) (map i_full (b_upd b))) /\ ~ In (i_full i) (b_del b)) \/
    In (i_full i) (map i_full (b_add b)).
  Proof.
    unfold dirtyM_of, merge_names.
    rewrite namein_In, dedup_In, !in_app_iff, !filter_In, names_of_In, negb_true_iff.
    pose proof (namein_false (i_full i) (b_del b)) as H. unfold namein in H. rewrite H. tauto.
  Qed.

  Lemma dirtyM_dirty i : dirtyM i = true -> dirty i = true.
  Proof. rewrite dirtyM_cases, dirty_cases. tauto. Qed.

  Lemma name_in_links n :
    In n (map i_full (b_add b)) \/ In n (map i_full (b_upd b)) \/ In n (b_del b) ->
    In (KIngress, n) (b_links b).
  Proof.
    intros [H|[H|H]].
    - apply in_map_iff in H as (j & <- & Hj). apply (wf_links_ing _ _ _ Hok). apply in_or_app. left. exact Hj.
    - apply in_map_iff in H as (j & <- & Hj). apply (wf_links_ing _ _ _ Hok). apply in_or_app. right. exact Hj.
    - apply (wf_links_del _ _ _ Hok). exact H.
  Qed.

  Lemma C_dirty i h : dirty i = true -> edge node T1 (nS i) (KHost, h) -> C (nS i).
  Proof.
    intros Hd He. apply dirty_cases in Hd. destruct Hd as [Hd|Hd].
    - apply (proj1 comp). exact Hd.
    - eapply C_input; [apply name_in_links; exact Hd|exact He].
  Qed.

  Lemma new_cases i : In i (w_ings w') -> In i (w_ings w) \/ In i (b_add b) \/ In i (b_upd b).
  Proof.
    intros Hi. destruct (in_dec ingress_eq_dec i (w_ings w)) as [Hw|Hw]; [left; exact Hw|].
    right. apply (wf_new _ _ _ Hok); assumption.
  Qed.

  Lemma clean_new_in_old i : In i (w_ings w') -> dirty i = false -> In i (w_ings w).
  Proof.
    intros Hi Hd. destruct (new_cases i Hi) as [H|H]; [exact H|].
    assert (Hc : dirty i = true).
    { apply dirty_cases. destruct H as [H|H]; [right; left|right; right; left]; apply in_map; exact H. }
    congruence.
  Qed.

  Lemma clean_old_in_new i : In i (w_ings w) -> dirty i = false -> In i (w_ings w').
  Proof.
    intros Hi Hd. destruct (string_in_dec (i_full i) (map i_full (w_ings w'))) as [Hn|Hn].
    - apply in_map_iff in Hn as (j & Hj & Hjn).
      assert (Hdj : dirty j = false) by (unfold dirty_of in *; rewrite Hj; exact Hd).
      pose proof (clean_new_in_old j Hjn Hdj) as Hjw.
      assert (j = i) by (eapply NoDup_names_inj; [apply (wf_nodup _ _ _ Hok)|exact Hjw|exact Hi|exact Hj]).
      subst j. exact Hjn.
    - exfalso. assert (Hc : dirty i = true).
      { apply dirty_cases. right. right. right. apply (wf_gone _ _ _ Hok); [apply in_map; exact Hi|exact Hn]. }
      congruence.
  Qed.

  (* a dirty ingress of the new cluster that the model does not re-sync declares no host *)
  Lemma nohost i : In i (w_ings w') -> dirty i = true -> dirtyM i = false ->
    forall h, ~ In h (declared i).
  Proof.
    intros Hi Hd Hm h Hh.
    assert (HnM : ~ (((In (KIngress, i_full i) out \/ In (i_full i) (map i_full (b_upd b))) /\
                      ~ In (i_full i) (b_del b)) \/
                     In (i_full i) (map i_full (b_add b))))
      by (rewrite <- dirtyM_cases, Hm; discriminate).
    assert (Hna : ~ In (i_full i) (map i_full (b_add b))) by (intros Hc; apply HnM; right; exact Hc).
    assert (Hnd : ~ In (i_full i) (b_del b)).
    { intros Hc. apply Hna. apply (wf_readd _ _ _ Hok); [exact Hc|apply in_map; exact Hi]. }
    assert (Hno : ~ In (KIngress, i_full i) out).
    { intros Hc. apply HnM. left. split; [left; exact Hc|exact Hnd]. }
    apply Hno. apply (proj1 comp). apply (C_dirty i h Hd).
    destruct (new_cases i Hi) as [Hw|Hn].
    - apply T1_incl. apply Hlinks; assumption.
    - apply T1_new; [apply in_or_app; exact Hn|exact Hh].
  Qed.

  (* ---- ings_ok: the list the model re-syncs ---- *)
  Lemma pick_spec n i : pick_ing w' b n = Some i <-> In i (w_ings w') /\ i_full i = n.
  Proof.
    unfold pick_ing.
    destruct (existsb (String.eqb n) (b_del b) || existsb (fun j => String.eqb (i_full j) n) (b_upd b)) eqn:Eb.
    - apply find_ing_spec. apply (wf_nodup' _ _ _ Hok).
    - apply orb_false_iff in Eb as [Ed Eu].
      assert (Hnd : ~ In n (b_del b)) by (apply namein_false; exact Ed).
      assert (Hnu : ~ In n (map i_full (b_upd b))).
      { intros Hc. apply in_map_iff in Hc as (j & Hj & Hjin).
        assert (Ht : existsb (fun j => String.eqb (i_full j) n) (b_upd b) = true)
          by (apply existsb_exists; exists j; split; [exact Hjin|apply String.eqb_eq; exact Hj]).
        congruence. }
      destruct (find _ (rev (b_add b))) as [j|] eqn:E.
      + apply find_some in E as [Hin He]. apply in_rev in Hin. apply String.eqb_eq in He.
        assert (Hjw : In j (w_ings w')) by (apply (wf_added_current _ _ _ Hok); [exact Hin|rewrite He; exact Hnd|rewrite He; exact Hnu]).
        split.
        * intros Hj. injection Hj as <-. split; assumption.
        * intros [Hi Hn]. f_equal.
          eapply NoDup_names_inj; [apply (wf_nodup' _ _ _ Hok)|exact Hjw|exact Hi|congruence].
      + apply find_ing_spec. apply (wf_nodup' _ _ _ Hok).
  Qed.

  Lemma picked_nodup names : NoDup names ->
    NoDup (map i_full (flat_map (fun n => opt_list (pick_ing w' b n)) names)).
  Proof.
    induction 1 as [|n r Hn Hnd IH]; cbn [flat_map]; [constructor|].
    rewrite map_app. destruct (pick_ing w' b n) as [i|] eqn:E; cbn [opt_list map app]; [|exact IH].
    apply pick_spec in E as [_ En]. constructor; [|exact IH].
    rewrite En. intros Hc. apply in_map_iff in Hc as (j & Hjn & Hj).
    apply in_flat_map in Hj as (m & Hm & Hjm).
    destruct (pick_ing w' b m) as [j'|] eqn:E2; cbn in Hjm; [|contradiction].
    destruct Hjm as [<-|[]]. apply pick_spec in E2 as [_ E2]. apply Hn. congruence.
  Qed.

  (* for any duplicate-free list of names: the picked objects, sorted, are the ingresses
     of the new cluster with these names, in their order *)
  Lemma ings_of_names names : NoDup names ->
    sort_ings (flat_map (fun n => opt_list (pick_ing w' b n)) names)
    = filter (fun i => namein (i_full i) names) ord'.
  Proof.
    intros Hnd. rewrite <- sort_filter by apply (wf_nodup' _ _ _ Hok).
    apply sort_ings_same_elements.
    - apply picked_nodup. exact Hnd.
    - apply NoDup_map_filter. apply (wf_nodup' _ _ _ Hok).
    - intros x. rewrite in_flat_map, filter_In. split.
      + intros (n & Hn & Hx). destruct (pick_ing w' b n) as [i|] eqn:E; cbn in Hx; [|contradiction].
        destruct Hx as [<-|[]]. apply pick_spec in E as [Hi <-]. split; [exact Hi|].
        apply namein_In. exact Hn.
      + intros [Hi Hd]. exists (i_full x). split; [apply namein_In; exact Hd|].
        rewrite (proj2 (pick_spec (i_full x) x) (conj Hi eq_refl)). left. reflexivity.
  Qed.

  Lemma ings_ok :
    sort_ings (flat_map (fun n => opt_list (pick_ing w' b n)) (merge_names (names_of KIngress out) b))
    = filter dirtyM ord'.
  Proof. apply ings_of_names. unfold merge_names. apply dedup_NoDup. Qed.

  (* ---- (K): the clean sources are the same, in the same order ---- *)
  Lemma HK : filter (fun i => negb (dirty i)) ord = filter (fun i => negb (dirty i)) ord'.
  Proof.
    rewrite <- (sort_filter _ (w_ings w)) by apply (wf_nodup _ _ _ Hok).
    rewrite <- (sort_filter _ (w_ings w')) by apply (wf_nodup' _ _ _ Hok).
    apply sort_ings_same_elements.
    - apply NoDup_map_filter. apply (wf_nodup _ _ _ Hok).
    - apply NoDup_map_filter. apply (wf_nodup' _ _ _ Hok).
    - intros x. rewrite !filter_In, !negb_true_iff. split; intros [Hi Hd]; (split; [|exact Hd]).
      + apply clean_old_in_new; assumption.
      + apply clean_new_in_old; assumption.
  Qed.

  (* ---- (cleanX), (dirtyX), (cover) from the tracker ---- *)
  Lemma conds :
    (forall d, In d ord -> dirty d = true -> forall t, hfp w d t = true -> Xof out t = true) /\
    (forall k, In k ord -> dirty k = false -> forall t, hfp w k t = true -> Xof out t = false) /\
    (forall d k, In d ord' -> In k ord' -> dirty d = true -> dirty k = false ->
       forall t, hfp w' d t = true -> hfp w' k t = false).
  Proof.
    apply (tracker_conditions world ingress tgt hfp w w' ord ord' node (edge node T1) nS nT C dirty (Xof out)).
    - intros a c H. apply T1_sym. exact H.
    - exact C_closed.
    - intros t. destruct t as [h|bk]; cbn [Xof nT];
        rewrite (mem_In node node_eqb node_eqb_spec); apply (proj1 comp).
    - intros i Hi Hd. apply (proj1 (sort_ings_In _ _)) in Hi. destruct (declared i) as [|h r] eqn:E.
      + right. intros [h|bk]; cbn [hfp]; [|reflexivity]. unfold declares. rewrite E. reflexivity.
      + left. apply (C_dirty i h Hd). apply T1_incl. apply Hlinks; [exact Hi|rewrite E; left; reflexivity].
    - intros i Hi Hd Hc. apply (proj1 comp) in Hc.
      assert (Hd' : dirty i = true) by (apply dirty_cases; left; exact Hc). congruence.
    - intros i t Hi Hf. apply (proj1 (sort_ings_In _ _)) in Hi. destruct t as [h|bk]; cbn [hfp] in Hf; [|discriminate].
      apply declares_In in Hf. cbn [nT]. apply T1_incl. apply Hlinks; assumption.
    - intros k Hk Hd. apply (proj1 (sort_ings_In _ _)) in Hk. split; [|reflexivity].
      apply sort_ings_In. apply clean_new_in_old; assumption.
    - intros d t Hd Hdd Hf. apply (proj1 (sort_ings_In _ _)) in Hd. destruct t as [h|bk]; cbn [hfp] in Hf; [|discriminate].
      apply declares_In in Hf. left. cbn [nT].
      assert (He : edge node T1 (nS d) (KHost, h)).
      { destruct (new_cases d Hd) as [Hw|Hn].
        - apply T1_incl. apply Hlinks; assumption.
        - apply T1_new; [apply in_or_app; exact Hn|exact Hf]. }
      split; [apply (C_dirty d h Hdd He)|exact He].
  Qed.

  (* every host a dirty ingress of the new cluster declares is returned by QueryLinks *)
  Lemma new_edge d h : In d (w_ings w') -> In h (declared d) -> edge node T1 (nS d) (KHost, h).
  Proof.
    intros Hd Hf. destruct (new_cases d Hd) as [Hw|Hn].
    - apply T1_incl. apply Hlinks; assumption.
    - apply T1_new; [apply in_or_app; exact Hn|exact Hf].
  Qed.

  Lemma dirty_host_out d h : In d (w_ings w') -> dirty d = true -> In h (declared d) -> In (KHost, h) out.
  Proof.
    intros Hd Hdd Hf. pose proof (new_edge d h Hd Hf) as He. apply (proj1 comp).
    eapply C_closed; [apply (C_dirty d h Hdd He)|exact He].
  Qed.

  Lemma clean_not_C i : dirty i = false -> ~ C (nS i).
  Proof.
    intros Hd Hc. apply (proj1 comp) in Hc.
    assert (Hd' : dirty i = true) by (apply dirty_cases; left; exact Hc). congruence.
  Qed.

  (* ---- (same): from H_view ---- *)
  Hypothesis Hview : H_view w w' (s, T) b.

  Lemma Hsame :
    hseq (hruns w (filter (fun i => negb (dirty i)) ord) (empty tgt content))
         (hruns w' (filter (fun i => negb (dirty i)) ord) (empty tgt content)).
  Proof.
    apply (clean_same_strong world ingress tgt content hrun hfp hrun_frame hrun_local).
    intros k Hk s0. apply filter_In in Hk as [Hk Hc]. apply negb_true_iff in Hc.
    apply (proj1 (sort_ings_In _ _)) in Hk. apply hrun_view_eq. apply Hview; [exact Hk|apply clean_old_in_new; assumption|].
    intros Hr. apply (proj1 comp) in Hr.
    assert (Hd' : dirty k = true) by (apply dirty_cases; left; exact Hr). congruence.
  Qed.

  (* ---- the result ---- *)
  Definition step_result : st :=
    fold_left (sync_ingress w') (filter dirtyM ord') (remove_all s out, T2).

  Lemma partial_eq : sync_partial w' (s, T) b = Some step_result.
  Proof.
    unfold sync_partial.
    change (fold_left (track_added_ing w' s) (b_add b ++ b_upd b) T) with T1.
    rewrite Hq, ings_ok. reflexivity.
  Qed.

  Lemma step_hosts : hosts_eq s (fst (sync_full w)) -> hosts_eq (fst step_result) (fst (sync_full w')).
  Proof.
    intros Hs h. destruct conds as (HdX & HcX & Hcov).
    set (s0 := (fun t => match t with THost _ => s t | TBack _ => None end) : cstate).
    assert (Hfull : hseq s0 (hfull w ord)).
    { intros t. destruct t as [h0|b0]; cbn.
      - rewrite (Hs h0). apply sync_full_hosts.
      - unfold full. symmetry.
        apply (runs_frame world ingress tgt content hrun hfp hrun_frame). intros; reflexivity. }
    pose proof (partial_step_hosts w w' ord ord' dirty (Xof out) s0 HK Hsame HcX HdX Hcov Hfull (THost h)) as Hgen.
    rewrite (sync_full_hosts w' h). rewrite <- Hgen. unfold partial.
    rewrite <- (hruns_skip w' dirtyM (filter dirty ord')).
    - rewrite filter_filter_sub by (intros x _; apply dirtyM_dirty).
      apply (fold_sync_hosts w' (filter dirtyM ord') (remove_all s out, T2) (remove tgt content (Xof out) s0)).
      intros h0. cbn [fst]. rewrite remove_all_remove. unfold remove. destruct (Xof out (THost h0)); reflexivity.
    - intros i Hi Hm t. apply filter_In in Hi as [Hi Hd]. apply (proj1 (sort_ings_In _ _)) in Hi.
      destruct t as [h0|bk]; cbn [hfp]; [|reflexivity].
      destruct (declares i h0) eqn:E; [|reflexivity]. apply declares_In in E.
      exfalso. exact (nohost i Hi Hd Hm h0 E).
  Qed.

  Lemma T2_sym : symmetric node T2.
  Proof.
    intros a c H. apply (proj1 (proj2 comp)) in H as [H Hn]. apply (proj1 (proj2 comp)).
    split; [apply T1_sym; exact H|]. intros Hc. apply Hn.
    eapply C_closed; [exact Hc|]. apply T1_sym. exact H.
  Qed.

  Lemma step_sym : symmetric node (snd step_result).
  Proof.
    pose proof (fold_sync_sgrows w' (filter dirtyM ord') (remove_all s out, T2)) as G.
    apply (proj2 G). exact T2_sym.
  Qed.

  Lemma step_links : links_ok w' (snd step_result).
  Proof.
    intros i h Hi Hh. unfold step_result. destruct (dirtyM i) eqn:EM.
    - apply fold_sync_link; [|exact Hh]. apply filter_In. split; [apply sort_ings_In; exact Hi|exact EM].
    - pose proof (fold_sync_sgrows w' (filter dirtyM ord') (remove_all s out, T2)) as G.
      apply (proj1 G). cbn [snd]. apply (proj1 (proj2 comp)).
      destruct (dirty i) eqn:ED; [exfalso; exact (nohost i Hi ED EM h Hh)|].
      split.
      + apply T1_incl. apply Hlinks; [apply clean_new_in_old; assumption|exact Hh].
      + intros Hc. apply (proj1 comp) in Hc.
        assert (Hd' : dirty i = true) by (apply dirty_cases; left; exact Hc). congruence.
  Qed.

  (* ---- the view premise derived from the Service-Host and Ingress-Secret links ---- *)
  Hypothesis Hsvc : svc_links_ok w T.
  Hypothesis Hsec : sec_links_ok w T.
  Hypothesis Hbl : batch_links_ok w w' b.

  Lemma derived_view : H_view w w' (s, T) b.
  Proof.
    intros i Hi Hi' Hn. split.
    - intros rule r Hrule Hr. apply resolve_same_svc.
      destruct (opt_service_eq_dec (find_svc w (i_ns i ++ "/" ++ r_svc r))
                                   (find_svc w' (i_ns i ++ "/" ++ r_svc r))) as [E|E]; [exact E|].
      exfalso. apply Hn.
      assert (He : edge node T1 (KService, i_ns i ++ "/" ++ r_svc r) (KHost, norm_host (fst rule)))
        by (apply T1_incl; apply (Hsvc i rule r); assumption).
      assert (Hc1 : C (KService, i_ns i ++ "/" ++ r_svc r))
        by (eapply C_input; [apply (bl_svc _ _ _ Hbl); exact E|exact He]).
      eapply C_closed; [eapply C_closed; [exact Hc1|exact He]|].
      apply T1_sym. apply T1_incl. apply Hlinks; [exact Hi|apply rule_host_declared; exact Hrule].
    - intros blk Hb Hne. destruct (String.eqb_spec (snd blk) "") as [E0|E0]; [rewrite E0; apply tls_hash_empty|].
      apply tls_hash_same_sec.
      destruct (opt_string_eq_dec (assoc (i_ns i ++ "/" ++ snd blk) (w_secrets w))
                                  (assoc (i_ns i ++ "/" ++ snd blk) (w_secrets w'))) as [E|E]; [exact E|].
      exfalso. apply Hn.
      assert (He : edge node T1 (KSecret, i_ns i ++ "/" ++ snd blk) (nS i))
        by (apply T1_sym; apply T1_incl; apply (Hsec i blk); assumption).
      eapply C_closed; [eapply C_input; [apply (bl_sec _ _ _ Hbl); exact E|exact He]|exact He].
  Qed.

  Lemma step_sec_links : sec_links_ok w' (snd step_result).
  Proof.
    intros i blk Hi Hb Hne Hs. unfold step_result. destruct (dirtyM i) eqn:EM.
    - apply fold_sync_sec; [|exact Hb|exact Hne|exact Hs].
      apply filter_In. split; [apply sort_ings_In; exact Hi|exact EM].
    - pose proof (fold_sync_sgrows w' (filter dirtyM ord') (remove_all s out, T2)) as G.
      apply (proj1 G). cbn [snd]. apply (proj1 (proj2 comp)).
      destruct (fst blk) as [|hn rest] eqn:Eh; [contradiction|].
      assert (Hd : In hn (declared i)) by (apply (tls_host_declared i blk); [exact Hb|rewrite Eh; left; reflexivity]).
      destruct (dirty i) eqn:ED; [exfalso; exact (nohost i Hi ED EM hn Hd)|].
      split; [|apply clean_not_C; exact ED].
      apply T1_incl. apply (Hsec i blk); [apply clean_new_in_old; assumption|exact Hb|rewrite Eh; discriminate|exact Hs].
  Qed.

  Hypothesis Hnr : no_redecl w'.

  Lemma step_svc_links : svc_links_ok w' (snd step_result).
  Proof.
    intros i rule r Hi Hrule Hr. unfold step_result. destruct (dirtyM i) eqn:EM.
    - apply (fold_sync_svc_links (fun k => ~ In (KHost, fst (fst k)) out)).
      + intros hn hr p Hg _ Hc. cbn [fst] in *. unfold get_host, remove_all in Hg.
        apply (mem_In node node_eqb node_eqb_spec) in Hc. rewrite Hc in Hg. discriminate.
      + apply no_redecl_sorted_filter. exact Hnr.
      + intros k Hk Hp. apply Hp. apply in_flat_map in Hk as (d & Hd & Hkd).
        apply filter_In in Hd as [Hd HdM]. apply (proj1 (sort_ings_In _ _)) in Hd.
        apply (dirty_host_out d); [exact Hd|apply dirtyM_dirty; exact HdM|apply ing_keys_host; exact Hkd].
      + apply filter_In. split; [apply sort_ings_In; exact Hi|exact EM].
      + exact Hrule.
      + exact Hr.
    - pose proof (fold_sync_sgrows w' (filter dirtyM ord') (remove_all s out, T2)) as G.
      apply (proj1 G). cbn [snd]. apply (proj1 (proj2 comp)).
      pose proof (rule_host_declared i rule Hrule) as Hd.
      destruct (dirty i) eqn:ED; [exfalso; exact (nohost i Hi ED EM _ Hd)|].
      pose proof (clean_new_in_old i Hi ED) as Hiw.
      assert (He : edge node T1 (KService, i_ns i ++ "/" ++ r_svc r) (KHost, norm_host (fst rule)))
        by (apply T1_incl; apply (Hsvc i rule r); assumption).
      split; [exact He|].
      intros Hc. apply (clean_not_C i ED).
      eapply C_closed; [eapply C_closed; [exact Hc|exact He]|].
      apply T1_sym. apply T1_incl. apply Hlinks; assumption.
  Qed.
  (* ---- the general step: no view premise, redeclared paths allowed ---- *)
  Hypothesis Hrun : svc_run_ok w T.
  Hypothesis Hhosts : hosts_eq s (fst (sync_full w)).

  Notation p0 := (remove_all s out, T2).
  Notation f0 := (empty_state, @nil (node * node)).

  Lemma declarers_dirtyM h i :
    In (KHost, h) out -> In i (w_ings w') -> declares i h = true -> dirtyM i = true.
  Proof.
    intros Ho Hi Hd. apply declares_In in Hd.
    assert (Hc : In (nS i) out).
    { apply (proj1 comp). eapply C_closed; [apply (proj1 comp); exact Ho|].
      apply T1_sym. apply new_edge; assumption. }
    apply dirtyM_cases. destruct (string_in_dec (i_full i) (b_del b)) as [Hdel|Hdel].
    - right. apply (wf_readd _ _ _ Hok); [exact Hdel|apply in_map; exact Hi].
    - left. split; [left; exact Hc|exact Hdel].
  Qed.

  Lemma declarers_clean h i :
    ~ In (KHost, h) out -> In i (w_ings w) \/ In i (w_ings w') -> declares i h = true -> dirty i = false.
  Proof.
    intros Ho Hi Hd. apply declares_In in Hd. destruct (dirty i) eqn:ED; [|reflexivity].
    exfalso. apply Ho. destruct Hi as [Hi|Hi].
    - assert (He : edge node T1 (nS i) (KHost, h)) by (apply T1_incl; apply Hlinks; assumption).
      apply (proj1 comp). eapply C_closed; [apply (C_dirty i h ED He)|exact He].
    - apply (dirty_host_out i h Hi ED Hd).
  Qed.

  Lemma Lh_eq h : ~ In (KHost, h) out ->
    filter (fun i => declares i h) ord = filter (fun i => declares i h) ord'.
  Proof.
    intros Ho.
    rewrite <- (sort_filter _ (w_ings w)) by apply (wf_nodup _ _ _ Hok).
    rewrite <- (sort_filter _ (w_ings w')) by apply (wf_nodup' _ _ _ Hok).
    apply sort_ings_same_elements.
    - apply NoDup_map_filter. apply (wf_nodup _ _ _ Hok).
    - apply NoDup_map_filter. apply (wf_nodup' _ _ _ Hok).
    - intros x. rewrite !filter_In. split; intros [Hi Hd]; (split; [|exact Hd]).
      + apply clean_old_in_new; [exact Hi|apply (declarers_clean h x Ho (or_introl Hi) Hd)].
      + apply clean_new_in_old; [exact Hi|apply (declarers_clean h x Ho (or_intror Hi) Hd)].
  Qed.

  Lemma Lh_dirty h : In (KHost, h) out ->
    filter (fun i => declares i h) (filter dirtyM ord') = filter (fun i => declares i h) ord'.
  Proof.
    intros Ho. apply filter_filter_sub. intros x Hx Hd.
    apply (declarers_dirtyM h x Ho); [apply (proj1 (sort_ings_In _ _)); exact Hx|exact Hd].
  Qed.

  (* a host returned by QueryLinks: removed, then rebuilt by the same ingresses as in a
     full sync of the new cluster *)
  Lemma gen_dirty_host h : In (KHost, h) out -> R h step_result (sync_full w').
  Proof.
    intros Ho. unfold step_result, sync_full.
    eapply R_trans; [apply (fold_filter_R_l w' (filter dirtyM ord') h p0 p0 (R_refl h p0))|].
    rewrite (Lh_dirty h Ho).
    eapply R_trans; [|apply (fold_filter_R_r w' ord' h f0 f0 (R_refl h f0))].
    apply (fold_sync_sim w' w' _ h
             (snd (fold_left (sync_ingress w') (filter (fun i => declares i h) ord') p0))).
    - intros; apply res_ok_same.
    - split; [|intros n []]. unfold agree. cbn [fst]. unfold remove_all.
      apply (mem_In node node_eqb node_eqb_spec) in Ho. rewrite Ho. reflexivity.
    - apply incl_refl.
  Qed.

  (* a host not returned: the same ingresses, in the same order, build it in both clusters,
     and what they read of the cluster did not change *)
  Lemma gen_clean_host h : ~ In (KHost, h) out -> R h (sync_full w) (sync_full w').
  Proof.
    intros Ho. unfold sync_full.
    set (Lh := filter (fun i => declares i h) ord).
    assert (R1 : R h (fold_left (sync_ingress w) ord f0) (fold_left (sync_ingress w) Lh f0))
      by (apply fold_filter_R_l; apply R_refl).
    eapply R_trans; [exact R1|].
    assert (R3 : R h (fold_left (sync_ingress w') Lh f0) (fold_left (sync_ingress w') ord' f0)).
    { unfold Lh. rewrite (Lh_eq h Ho). apply fold_filter_R_r. apply R_refl. }
    eapply R_trans; [|exact R3].
    assert (HnC : ~ C (KHost, h)) by (intros Hc; apply Ho; apply (proj1 comp); exact Hc).
    apply (fold_sync_sim w w' Lh h (snd (fold_left (sync_ingress w) Lh f0))); [|apply R_refl|apply incl_refl].
    intros i Hi. apply filter_In in Hi as [Hi Hd]. apply (proj1 (sort_ings_In _ _)) in Hi.
    apply declares_In in Hd. split.
    - intros rule r Hrule Eh Hr Hlink. apply resolve_same_svc.
      destruct (opt_service_eq_dec (find_svc w (i_ns i ++ "/" ++ r_svc r))
                                   (find_svc w' (i_ns i ++ "/" ++ r_svc r))) as [E|E]; [exact E|].
      exfalso. apply HnC.
      assert (HT : In (hsvc (i_ns i ++ "/" ++ r_svc r) h) T) by (apply Hrun; apply (proj2 R1); exact Hlink).
      assert (He : edge node T1 (KService, i_ns i ++ "/" ++ r_svc r) (KHost, h)) by (apply T1_incl; exact HT).
      eapply C_closed; [eapply C_input; [apply (bl_svc _ _ _ Hbl); exact E|exact He]|exact He].
    - intros blk Hb Hh. destruct (String.eqb_spec (snd blk) "") as [E0|E0]; [rewrite E0; apply tls_hash_empty|].
      apply tls_hash_same_sec.
      destruct (opt_string_eq_dec (assoc (i_ns i ++ "/" ++ snd blk) (w_secrets w))
                                  (assoc (i_ns i ++ "/" ++ snd blk) (w_secrets w'))) as [E|E]; [exact E|].
      exfalso. apply HnC.
      assert (He : edge node T1 (KSecret, i_ns i ++ "/" ++ snd blk) (nS i)).
      { apply T1_sym. apply T1_incl. apply (Hsec i blk); [exact Hi|exact Hb| |exact E0].
        intros Ec. rewrite Ec in Hh. exact Hh. }
      assert (He2 : edge node T1 (nS i) (KHost, h))
        by (apply T1_incl; apply Hlinks; [exact Hi|apply (tls_host_declared i blk); assumption]).
      eapply C_closed; [eapply C_closed; [eapply C_input; [apply (bl_sec _ _ _ Hbl); exact E|exact He]|exact He]|exact He2].
  Qed.

  Lemma gen_hosts : hosts_eq (fst step_result) (fst (sync_full w')).
  Proof.
    intros h. destruct (mem node_eqb (KHost, h) out) eqn:E.
    - apply (mem_In node node_eqb node_eqb_spec) in E. exact (proj1 (gen_dirty_host h E)).
    - pose proof E as Em. apply (mem_false node node_eqb node_eqb_spec) in E.
      rewrite <- (proj1 (gen_clean_host h E)). rewrite <- (Hhosts h). unfold step_result.
      rewrite fold_sync_frame.
      + cbn [fst]. unfold remove_all. rewrite Em. reflexivity.
      + intros i Hi. apply filter_In in Hi as [Hi HdM]. apply (proj1 (sort_ings_In _ _)) in Hi.
        destruct (declares i h) eqn:Ed; [|reflexivity]. exfalso. apply E.
        apply declares_In in Ed. apply (dirty_host_out i h Hi (dirtyM_dirty i HdM) Ed).
  Qed.

  Lemma gen_run : svc_run_ok w' (snd step_result).
  Proof.
    intros n h Hn. destruct (mem node_eqb (KHost, h) out) eqn:E.
    - apply (mem_In node node_eqb node_eqb_spec) in E. exact (proj2 (gen_dirty_host h E) n Hn).
    - apply (mem_false node node_eqb node_eqb_spec) in E.
      pose proof (proj2 (gen_clean_host h E) n Hn) as HF. apply Hrun in HF.
      pose proof (fold_sync_sgrows w' (filter dirtyM ord') (remove_all s out, T2)) as G.
      unfold step_result. apply (proj1 G). cbn [snd]. apply (proj1 (proj2 comp)).
      split; [apply T1_incl; exact HF|].
      intros Hc. apply E. apply (proj1 comp). eapply C_closed; [exact Hc|apply T1_incl; exact HF].
  Qed.
  (* ---- backends: what is not removed is still fresh and anchored ---- *)
  Hypothesis HJ : J w (s, T).
  Hypothesis Heps : forall n, assoc n (w_eps w) <> assoc n (w_eps w') -> In (KEndpoints, n) (b_links b).

  Lemma keep a c : In (a, c) T -> ~ C a -> In (a, c) T2.
  Proof. intros H Hn. apply (proj1 (proj2 comp)). split; [apply T1_incl; exact H|exact Hn]. Qed.

  Lemma notC_edge a c : In (a, c) T -> ~ C c -> ~ C a.
  Proof. intros H Hn Hc. apply Hn. eapply C_closed; [exact Hc|apply T1_incl; exact H]. Qed.

  Lemma notC_edge_r a c : In (a, c) T -> ~ C a -> ~ C c.
  Proof. intros H Hn Hc. apply Hn. eapply C_closed; [exact Hc|apply T1_sym; apply T1_incl; exact H]. Qed.

  Lemma start_J : J w' (remove_all s out, T2).
  Proof.
    destruct HJ as [Hb Hp]. split.
    - intros bid br Hg. cbn [fst snd] in *. unfold get_back, remove_all in Hg.
      destruct (mem node_eqb (KBackend, bid) out) eqn:Em; [discriminate|].
      apply (mem_false node node_eqb node_eqb_spec) in Em.
      assert (Hg0 : get_back s bid = Some br) by exact Hg.
      destruct (Hb bid br Hg0) as (i & hn & svc & p & F & P & B & Rr & L1 & L2 & L3 & L4). cbn [snd] in *.
      assert (NB : ~ C (KBackend, bid)) by (intros Hc; apply Em; apply (proj1 comp); exact Hc).
      assert (NI : ~ C (KIngress, i_full i)) by (apply (notC_edge _ _ L1 NB)).
      assert (NH : ~ C (KHost, hn)) by (apply (notC_edge_r _ _ L2 NI)).
      assert (NS : ~ C (KService, s_full svc)) by (apply (notC_edge _ _ L3 NH)).
      assert (NE : ~ C (KEndpoints, s_full svc)) by (apply (notC_edge _ _ L4 NH)).
      assert (F' : find_svc w' (s_full svc) = Some svc).
      { destruct (opt_service_eq_dec (find_svc w (s_full svc)) (find_svc w' (s_full svc))) as [E|E];
          [rewrite <- E; exact F|].
        exfalso. apply NS. eapply C_input; [apply (bl_svc _ _ _ Hbl); exact E|apply T1_incl; exact L3]. }
      assert (E' : assoc (s_full svc) (w_eps w) = assoc (s_full svc) (w_eps w')).
      { destruct (opt_subsets_eq_dec (assoc (s_full svc) (w_eps w)) (assoc (s_full svc) (w_eps w'))) as [E|E];
          [exact E|].
        exfalso. apply NE. eapply C_input; [apply Heps; exact E|apply T1_incl; exact L4]. }
      exists i, hn, svc, p.
      split; [exact F'|]. split; [exact P|]. split; [exact B|].
      split; [rewrite Rr; f_equal; apply servers_same_eps; exact E'|].
      split; [apply keep; assumption|]. split; [apply keep; assumption|].
      split; apply keep; assumption.
    - intros hn hr p Hg Hin. cbn [fst snd] in *. unfold get_host, remove_all in Hg.
      destruct (mem node_eqb (KHost, hn) out) eqn:Em; [discriminate|].
      apply (mem_false node node_eqb node_eqb_spec) in Em.
      assert (Hg0 : get_host s hn = Some hr) by exact Hg.
      destruct (Hp hn hr p Hg0 Hin) as [H1 (i & L1 & L2)]. cbn [fst snd] in *.
      assert (NH : ~ C (KHost, hn)) by (intros Hc; apply Em; apply (proj1 comp); exact Hc).
      assert (NI : ~ C (KIngress, i_full i)) by (apply (notC_edge _ _ L2 NH)).
      assert (NB : ~ C (KBackend, hp_back p)) by (apply (notC_edge_r _ _ L1 NI)).
      split.
      + unfold get_back, remove_all. destruct (mem node_eqb (KBackend, hp_back p) out) eqn:Eb.
        * exfalso. apply NB. apply (proj1 comp). apply (mem_In node node_eqb node_eqb_spec). exact Eb.
        * exact H1.
      + exists i. split; apply keep; assumption.
  Qed.

  Lemma step_J : J w' step_result.
  Proof. unfold step_result. apply fold_sync_J. exact start_J. Qed.
End Step.

(* ------------------------------------------------------------------ *)
(* one partial step                                                     *)
(* ------------------------------------------------------------------ *)
Theorem model_partial_step_wf w w' x b :
  Inv w x -> batch_wf w w' b -> H_view w w' x b ->
  exists x', sync_partial w' x b = Some x' /\ Inv w' x'.
Proof.
  destruct x as [s T]. intros (Hh & Hs & Hl) Hok Hv. cbn [fst snd] in *.
  destruct (query_remove node_eqb (T1_of w' (s, T) b) (b_links b)) as [[out T2]|] eqn:Hq.
  - exists (step_result w' s b out T2). split.
    + eapply partial_eq; eassumption.
    + split; [|split].
      * eapply step_hosts; eassumption.
      * eapply step_sym; eassumption.
      * eapply step_links; eassumption.
  - exfalso. unfold query_remove in Hq.
    destruct (query_links node_eqb (T1_of w' (s, T) b) (b_links b)) eqn:E; [discriminate|].
    exact (query_links_total node node_eqb node_eqb_spec _ _ E).
Qed.

(* the statement for batches with one event per object *)
Theorem model_partial_step w w' x b :
  Inv w x -> batch_ok w w' b -> H_view w w' x b ->
  exists x', sync_partial w' x b = Some x' /\ Inv w' x'.
Proof. intros HI Hok Hv. apply (model_partial_step_wf w w' x b HI (batch_ok_wf w w' b Hok) Hv). Qed.

(* the full sync establishes the invariant *)
Theorem sync_full_Inv w : Inv w (sync_full w).
Proof.
  split; [intros h; reflexivity|]. unfold sync_full. split.
  - apply (proj2 (fold_sync_sgrows w (sort_ings (w_ings w)) (empty_state, []))). intros a c [].
  - intros i h Hi Hh. apply fold_sync_link; [apply sort_ings_In; exact Hi|exact Hh].
Qed.

(* ------------------------------------------------------------------ *)
(* histories                                                            *)
(* ------------------------------------------------------------------ *)
Fixpoint run_hist (x : st) (h : list (batch * world)) : option st :=
  match h with
  | [] => Some x
  | (b, w') :: r => match sync_partial w' x b with Some x' => run_hist x' r | None => None end
  end.

Fixpoint last_w (w : world) (h : list (batch * world)) : world :=
  match h with [] => w | (_, w') :: r => last_w w' r end.

(* every step of the history is a well formed batch between its two clusters, and the
   view premise holds for the state the model has reached at that point *)
Fixpoint hist_ok (w : world) (x : st) (h : list (batch * world)) : Prop :=
  match h with
  | [] => True
  | (b, w') :: r =>
      batch_wf w w' b /\ H_view w w' x b /\
      forall x', sync_partial w' x b = Some x' -> hist_ok w' x' r
  end.

Theorem model_history_from : forall h w x,
  Inv w x -> hist_ok w x h ->
  exists x', run_hist x h = Some x' /\ Inv (last_w w h) x'.
Proof.
  induction h as [|[b w'] r IH]; intros w x HI Hh; cbn [run_hist last_w].
  - exists x. split; [reflexivity|exact HI].
  - destruct Hh as (Hok & Hv & Hrest).
    destruct (model_partial_step_wf w w' x b HI Hok Hv) as (x' & Hp & HI').
    rewrite Hp. apply IH; [exact HI'|apply Hrest; exact Hp].
Qed.

Theorem model_history w0 h :
  hist_ok w0 (sync_full w0) h ->
  exists x', run_hist (sync_full w0) h = Some x' /\
             hosts_eq (fst x') (fst (sync_full (last_w w0 h))).
Proof.
  intros Hh. destruct (model_history_from h w0 (sync_full w0) (sync_full_Inv w0) Hh) as (x' & Hr & HI).
  exists x'. split; [exact Hr|exact (proj1 HI)].
Qed.

(* ------------------------------------------------------------------ *)
(* the same without the view premise, when no path is declared twice    *)
(* ------------------------------------------------------------------ *)
Theorem model_partial_step_tracked w w' x b :
  InvT w x -> batch_wf w w' b -> batch_links_ok w w' b -> no_redecl w' ->
  exists x', sync_partial w' x b = Some x' /\ InvT w' x'.
Proof.
  destruct x as [s T]. intros ((Hh & Hs & Hl) & Hsvc & Hsec) Hok Hbl Hnr. cbn [fst snd] in *.
  destruct (query_remove node_eqb (T1_of w' (s, T) b) (b_links b)) as [[out T2]|] eqn:Hq.
  - assert (Hv : H_view w w' (s, T) b) by (eapply derived_view; eassumption).
    exists (step_result w' s b out T2). split; [eapply partial_eq; eassumption|].
    split; [split; [|split]|split].
    + eapply step_hosts; eassumption.
    + eapply step_sym; eassumption.
    + eapply step_links; eassumption.
    + eapply step_svc_links; eassumption.
    + eapply step_sec_links; eassumption.
  - exfalso. unfold query_remove in Hq.
    destruct (query_links node_eqb (T1_of w' (s, T) b) (b_links b)) eqn:E; [discriminate|].
    exact (query_links_total node node_eqb node_eqb_spec _ _ E).
Qed.

Theorem sync_full_InvT w : no_redecl w -> InvT w (sync_full w).
Proof.
  intros Hnr. split; [apply sync_full_Inv|]. unfold sync_full. split.
  - intros i rule r Hi Hrule Hr.
    apply (fold_sync_svc_links (fun _ => False)); [| |intros k _ []|apply sort_ings_In; exact Hi|exact Hrule|exact Hr].
    + intros hn hr p Hg. cbn in Hg. discriminate.
    + eapply Permutation_NoDup; [|exact Hnr]. unfold world_keys.
      apply Permutation_flat_map. apply sort_ings_permutation.
  - intros i blk Hi Hb Hne Hs. apply fold_sync_sec; [apply sort_ings_In; exact Hi|exact Hb|exact Hne|exact Hs].
Qed.

(* a history described by the clusters and the batches only *)
Fixpoint hist_ok_t (w : world) (h : list (batch * world)) : Prop :=
  match h with
  | [] => True
  | (b, w') :: r => batch_wf w w' b /\ batch_links_ok w w' b /\ no_redecl w' /\ hist_ok_t w' r
  end.

Theorem model_history_tracked_from : forall h w x,
  InvT w x -> hist_ok_t w h ->
  exists x', run_hist x h = Some x' /\ InvT (last_w w h) x'.
Proof.
  induction h as [|[b w'] r IH]; intros w x HI Hh; cbn [run_hist last_w].
  - exists x. split; [reflexivity|exact HI].
  - destruct Hh as (Hok & Hbl & Hnr & Hrest).
    destruct (model_partial_step_tracked w w' x b HI Hok Hbl Hnr) as (x' & Hp & HI').
    rewrite Hp. apply IH; [exact HI'|exact Hrest].
Qed.

Theorem model_history_tracked w0 h :
  no_redecl w0 -> hist_ok_t w0 h ->
  exists x', run_hist (sync_full w0) h = Some x' /\
             hosts_eq (fst x') (fst (sync_full (last_w w0 h))).
Proof.
  intros Hnr Hh.
  destruct (model_history_tracked_from h w0 (sync_full w0) (sync_full_InvT w0 Hnr) Hh) as (x' & Hr & HI).
  exists x'. split; [exact Hr|exact (proj1 (proj1 HI))].
Qed.

(* ------------------------------------------------------------------ *)
(* the general theorem: no view premise, no side condition on the paths *)
(* ------------------------------------------------------------------ *)
Theorem model_partial_step_general w w' x b :
  InvG w x -> batch_wf w w' b -> batch_links_ok w w' b ->
  exists x', sync_partial w' x b = Some x' /\ InvG w' x'.
Proof.
  destruct x as [s T]. intros ((Hh & Hs & Hl) & Hrun & Hsec) Hok Hbl. cbn [fst snd] in *.
  destruct (query_remove node_eqb (T1_of w' (s, T) b) (b_links b)) as [[out T2]|] eqn:Hq.
  - exists (step_result w' s b out T2). split; [eapply partial_eq; eassumption|].
    split; [split; [|split]|split].
    + eapply gen_hosts; eassumption.
    + eapply step_sym; eassumption.
    + eapply step_links; eassumption.
    + eapply gen_run; eassumption.
    + eapply step_sec_links; eassumption.
  - exfalso. unfold query_remove in Hq.
    destruct (query_links node_eqb (T1_of w' (s, T) b) (b_links b)) eqn:E; [discriminate|].
    exact (query_links_total node node_eqb node_eqb_spec _ _ E).
Qed.

Theorem sync_full_InvG w : InvG w (sync_full w).
Proof.
  split; [apply sync_full_Inv|]. split; [intros n h H; exact H|].
  unfold sync_full. intros i blk Hi Hb Hne Hs.
  apply fold_sync_sec; [apply sort_ings_In; exact Hi|exact Hb|exact Hne|exact Hs].
Qed.

(* a history is described by the clusters and the batches only *)
Fixpoint hist_ok_g (w : world) (h : list (batch * world)) : Prop :=
  match h with
  | [] => True
  | (b, w') :: r => batch_wf w w' b /\ batch_links_ok w w' b /\ hist_ok_g w' r
  end.

Theorem model_history_general_from : forall h w x,
  InvG w x -> hist_ok_g w h ->
  exists x', run_hist x h = Some x' /\ InvG (last_w w h) x'.
Proof.
  induction h as [|[b w'] r IH]; intros w x HI Hh; cbn [run_hist last_w].
  - exists x. split; [reflexivity|exact HI].
  - destruct Hh as (Hok & Hbl & Hrest).
    destruct (model_partial_step_general w w' x b HI Hok Hbl) as (x' & Hp & HI').
    rewrite Hp. apply IH; [exact HI'|exact Hrest].
Qed.

Theorem model_history_general w0 h :
  hist_ok_g w0 h ->
  exists x', run_hist (sync_full w0) h = Some x' /\
             hosts_eq (fst x') (fst (sync_full (last_w w0 h))).
Proof.
  intros Hh.
  destruct (model_history_general_from h w0 (sync_full w0) (sync_full_InvG w0) Hh) as (x' & Hr & HI).
  exists x'. split; [exact Hr|exact (proj1 (proj1 HI))].
Qed.

(* ------------------------------------------------------------------ *)
(* the full observation: hosts, the servers their paths reach, tls      *)
(* ------------------------------------------------------------------ *)
Theorem model_partial_step_obs w w' x b :
  InvO w x -> batch_wf w w' b -> batch_links_ok_e w w' b ->
  exists x', sync_partial w' x b = Some x' /\ InvO w' x'.
Proof.
  destruct x as [s T]. intros [((Hh & Hs & Hl) & Hrun & Hsec) HJ] Hok [Hbl Heps]. cbn [fst snd] in *.
  destruct (query_remove node_eqb (T1_of w' (s, T) b) (b_links b)) as [[out T2]|] eqn:Hq.
  - exists (step_result w' s b out T2). split; [eapply partial_eq; eassumption|].
    split; [split; [split; [|split]|split]|].
    + eapply gen_hosts; eassumption.
    + eapply step_sym; eassumption.
    + eapply step_links; eassumption.
    + eapply gen_run; eassumption.
    + eapply step_sec_links; eassumption.
    + eapply step_J; eassumption.
  - exfalso. unfold query_remove in Hq.
    destruct (query_links node_eqb (T1_of w' (s, T) b) (b_links b)) eqn:E; [discriminate|].
    exact (query_links_total node node_eqb node_eqb_spec _ _ E).
Qed.

Theorem sync_full_InvO w : InvO w (sync_full w).
Proof. split; [apply sync_full_InvG|apply sync_full_J]. Qed.

(* a state that satisfies the invariant shows what a full sync shows *)
Theorem InvO_obs w x : InvO w x -> back_det w ->
  forall hn, obs_host (fst x) hn = obs_host (fst (sync_full w)) hn.
Proof.
  intros [HG HJ] Hdet. apply (obs_of_J w x (sync_full w)); [exact (proj1 (proj1 HG))|exact HJ|apply sync_full_J|exact Hdet].
Qed.

(* histories of partial steps *)
Fixpoint hist_ok_o (w : world) (h : list (batch * world)) : Prop :=
  match h with
  | [] => True
  | (b, w') :: r => batch_wf w w' b /\ batch_links_ok_e w w' b /\ hist_ok_o w' r
  end.

Theorem model_history_obs_from : forall h w x,
  InvO w x -> hist_ok_o w h ->
  exists x', run_hist x h = Some x' /\ InvO (last_w w h) x'.
Proof.
  induction h as [|[b w'] r IH]; intros w x HI Hh; cbn [run_hist last_w].
  - exists x. split; [reflexivity|exact HI].
  - destruct Hh as (Hok & Hbl & Hrest).
    destruct (model_partial_step_obs w w' x b HI Hok Hbl) as (x' & Hp & HI').
    rewrite Hp. apply IH; [exact HI'|exact Hrest].
Qed.

Theorem model_history_obs w0 h :
  hist_ok_o w0 h -> back_det (last_w w0 h) ->
  exists x', run_hist (sync_full w0) h = Some x' /\
             forall hn, obs_host (fst x') hn = obs_host (fst (sync_full (last_w w0 h))) hn.
Proof.
  intros Hh Hdet.
  destruct (model_history_obs_from h w0 (sync_full w0) (sync_full_InvO w0) Hh) as (x' & Hr & HI).
  exists x'. split; [exact Hr|apply InvO_obs; assumption].
Qed.

(* histories that interleave full syncs *)
Inductive hstep := HPartial (b : batch) (w' : world) | HFull (w' : world).

Fixpoint run_steps (x : st) (l : list hstep) : option st :=
  match l with
  | [] => Some x
  | HPartial b w' :: r => match sync_partial w' x b with Some x' => run_steps x' r | None => None end
  | HFull w' :: r => run_steps (sync_full w') r
  end.

Fixpoint last_ws (w : world) (l : list hstep) : world :=
  match l with [] => w | HPartial _ w' :: r => last_ws w' r | HFull w' :: r => last_ws w' r end.

Fixpoint steps_ok (w : world) (l : list hstep) : Prop :=
  match l with
  | [] => True
  | HPartial b w' :: r => batch_wf w w' b /\ batch_links_ok_e w w' b /\ steps_ok w' r
  | HFull w' :: r => steps_ok w' r
  end.

Theorem model_steps_obs_from : forall l w x,
  InvO w x -> steps_ok w l ->
  exists x', run_steps x l = Some x' /\ InvO (last_ws w l) x'.
Proof.
  induction l as [|[b w'|w'] r IH]; intros w x HI Hh; cbn [run_steps last_ws].
  - exists x. split; [reflexivity|exact HI].
  - destruct Hh as (Hok & Hbl & Hrest).
    destruct (model_partial_step_obs w w' x b HI Hok Hbl) as (x' & Hp & HI').
    rewrite Hp. apply IH; [exact HI'|exact Hrest].
  - apply IH; [apply sync_full_InvO|exact Hh].
Qed.

Theorem model_steps_obs w0 l :
  steps_ok w0 l -> back_det (last_ws w0 l) ->
  exists x', run_steps (sync_full w0) l = Some x' /\
             forall hn, obs_host (fst x') hn = obs_host (fst (sync_full (last_ws w0 l))) hn.
Proof.
  intros Hh Hdet.
  destruct (model_steps_obs_from l w0 (sync_full w0) (sync_full_InvO w0) Hh) as (x' & Hr & HI).
  exists x'. split; [exact Hr|apply InvO_obs; assumption].
Qed.

(* hosts level, without back_det *)
Theorem model_steps_hosts w0 l :
  steps_ok w0 l ->
  exists x', run_steps (sync_full w0) l = Some x' /\
             hosts_eq (fst x') (fst (sync_full (last_ws w0 l))).
Proof.
  intros Hh.
  destruct (model_steps_obs_from l w0 (sync_full w0) (sync_full_InvO w0) Hh) as (x' & Hr & HI).
  exists x'. split; [exact Hr|exact (proj1 (proj1 (proj1 HI)))].
Qed.
