(* C15 with the cross-namespace permission (Model/CrtList_xns.v): the converter model run
   on xworld d w serves, for every name, the secret the winning declaration names if it is
   readable from the namespace of the declaring ingress, else the default certificate. *)
From Coq Require Import List Bool String Ascii ZArith.
From HI Require Import Model.Tracker Model.Conv Model.CrtList Model.CrtList_xns
                       Proofs.Conv Proofs.ConvSort Proofs.ConvHist Proofs.CrtList Proofs.CrtList_e2e.
From HI Require Model.XNs Proofs.XNs.
Import ListNotations.
Open Scope string_scope.

Lemma assoc_functional {A} k (c : A) (l : list (string * A)) :
  (forall v, In (k, v) l -> v = c) -> In (k, c) l -> assoc k l = Some c.
Proof.
  induction l as [|[k' v] l IH]; cbn; intros Hf Hin; [contradiction|].
  destruct (String.eqb_spec k k') as [<-|Hne].
  - f_equal. apply Hf. left. reflexivity.
  - destruct Hin as [E|Hin]; [congruence|]. apply IH; [|exact Hin]. intros v' H. apply Hf. right. exact H.
Qed.

Lemma assoc_absent {A} k (l : list (string * A)) : (forall v, ~ In (k, v) l) -> assoc k l = None.
Proof.
  induction l as [|[k' v] l IH]; cbn; intros Hf; [reflexivity|].
  destruct (String.eqb_spec k k') as [<-|Hne]; [exfalso; apply (Hf v); left; reflexivity|].
  apply IH. intros v' H. apply (Hf v'). right. exact H.
Qed.

Definition looked_up (d : XNs.dyn) (w : world) (ns s : string) : option string :=
  match xresolve d ns s with Some k => assoc k (w_secrets w) | None => None end.

Lemma xentry_In d w i blk k v : In (k, v) (xentry d w i blk) ->
  k = i_ns i ++ "/" ++ snd blk /\ snd blk <> "" /\ looked_up d w (i_ns i) (snd blk) = Some v.
Proof.
  unfold xentry, looked_up. destruct (String.eqb_spec (snd blk) ""); [contradiction|].
  destruct (xresolve d (i_ns i) (snd blk)) as [k'|]; [|contradiction].
  destruct (assoc k' (w_secrets w)) as [c|]; [|contradiction].
  intros [E|[]]. injection E as <- <-. auto.
Qed.

Lemma key_inj a s b t :
  XNs_Strs.contains_char XNs_Strs.slash a = false -> XNs_Strs.contains_char XNs_Strs.slash b = false ->
  a ++ "/" ++ s = b ++ "/" ++ t -> a = b /\ s = t.
Proof. intros Ha Hb H. exact (Proofs.XNs.app_sep_inj XNs_Strs.slash a s b t Ha Hb H). Qed.

(* what the converter model reads for the key of a tls entry of the cluster *)
Lemma xsecrets_lookup d w i blk : ns_ok w ->
  In i (w_ings w) -> In blk (i_tls i) -> snd blk <> "" ->
  assoc (i_ns i ++ "/" ++ snd blk) (xsecrets d w) = looked_up d w (i_ns i) (snd blk).
Proof.
  intros Hns Hi Hb Hne.
  assert (Hall : forall v, In (i_ns i ++ "/" ++ snd blk, v) (xsecrets d w) ->
                           looked_up d w (i_ns i) (snd blk) = Some v).
  { intros v Hin. unfold xsecrets in Hin. apply in_flat_map in Hin as (i' & Hi' & Hin).
    apply in_flat_map in Hin as (blk' & Hb' & Hin). apply xentry_In in Hin as (Ek & _ & Hl).
    destruct (key_inj _ _ _ _ (Hns i Hi) (Hns i' Hi') Ek) as [E1 E2]. rewrite E1, E2. exact Hl. }
  destruct (looked_up d w (i_ns i) (snd blk)) as [c|] eqn:El.
  - apply assoc_functional.
    + intros v Hin. specialize (Hall v Hin). congruence.
    + unfold xsecrets. apply in_flat_map. exists i. split; [exact Hi|]. apply in_flat_map. exists blk.
      split; [exact Hb|]. unfold xentry. destruct (String.eqb_spec (snd blk) ""); [contradiction|].
      unfold looked_up in El. destruct (xresolve d (i_ns i) (snd blk)) as [k|]; [|discriminate].
      rewrite El. left. reflexivity.
  - apply assoc_absent. intros v Hin. specialize (Hall v Hin). discriminate.
Qed.

Lemma ref_cert_x d w i blk : ns_ok w -> In i (w_ings w) -> In blk (i_tls i) ->
  ref_cert (xworld d w) (secret_ref i (snd blk)) = cert_x d w (i_ns i) (snd blk).
Proof.
  intros Hns Hi Hb. unfold ref_cert, secret_ref, cert_x.
  destruct (String.eqb_spec (snd blk) "") as [E|E]; [reflexivity|].
  rewrite append_slash_ne. cbn [xworld w_secrets].
  rewrite (xsecrets_lookup d w i blk Hns Hi Hb E). unfold looked_up.
  destruct (xresolve d (i_ns i) (snd blk)); reflexivity.
Qed.

(* Conv -> CrtList -> sni_select with the permission: the first ingress, in (creation,
   ns/name) order, declaring tls for h decides; h is served with the secret it names if
   that one is readable from the namespace of the ingress, present and valid *)
Theorem sni_serves_declared_x : forall d w i pre blk post h,
  ns_ok w -> NoDup (map i_full (w_ings w)) ->
  In i (w_ings w) -> i_tls i = (pre ++ blk :: post)%list -> In h (fst blk) ->
  (forall b, In b pre -> ~ In h (fst b)) ->
  (forall j, In j (w_ings w) -> j <> i -> (exists b, In b (i_tls j) /\ In h (fst b)) -> ing_ltb i j = true) ->
  name_ok h ->
  sni_select (crt_list (host_names w) (fst (sync_full (xworld d w)))) h = cert_x d w (i_ns i) (snd blk).
Proof.
  intros d w i pre blk post h Hns Hnd Hi Ht Hh Hpre Hfirst Hok.
  change (served (xworld d w) h = cert_x d w (i_ns i) (snd blk)).
  rewrite (sni_serves_declared (xworld d w) i pre blk post h Hnd Hi Ht Hh Hpre Hfirst Hok).
  apply ref_cert_x; [exact Hns|exact Hi|]. rewrite Ht. apply in_or_app. right. left. reflexivity.
Qed.

(* every SNI name: the default certificate, or the certificate of the tls entry that decides
   (its own first declaration, else the one of the wildcard host covering it) *)
Theorem end_to_end_x : forall d w, ns_ok w ->
  (forall h, In h (host_names w) <-> get_host (fst (sync_full (xworld d w))) h <> None) /\
  (forall n, name_ok n ->
     let served_n := sni_select (crt_list (host_names w) (fst (sync_full (xworld d w)))) n in
     (effective_ref w n = None /\ served_n = default_crt) \/
     exists i blk dn, In i (w_ings w) /\ In blk (i_tls i) /\ In dn (fst blk) /\
                      (dn = n \/ wild_of n = Some dn) /\
                      effective_ref w n = Some (secret_ref i (snd blk)) /\
                      served_n = cert_x d w (i_ns i) (snd blk)).
Proof.
  intros d w Hns. split.
  - intros h. exact (proj1 (end_to_end (xworld d w)) h).
  - intros n Hok. cbv zeta.
    change (sni_select (crt_list (host_names w) (fst (sync_full (xworld d w)))) n) with (served (xworld d w) n).
    rewrite (served_spec (xworld d w) n Hok).
    change (effective_ref (xworld d w) n) with (effective_ref w n).
    unfold effective_ref.
    destruct (winner_ref w n) as [r|] eqn:Ew.
    + right. destruct (winner_ref_decl w n r Ew) as (i & blk & Hi & Hb & Hd & ->).
      exists i, blk, n. rewrite (ref_cert_x d w i blk Hns Hi Hb). auto 10.
    + destruct (wild_of n) as [wn|] eqn:Ewn; [|left; auto].
      destruct (winner_ref w wn) as [r|] eqn:Er; [|left; auto].
      right. destruct (winner_ref_decl w wn r Er) as (i & blk & Hi & Hb & Hd & ->).
      exists i, blk, wn. rewrite (ref_cert_x d w i blk Hns Hi Hb). auto 10.
Qed.

(* the permission at work: with the crt bit off a reference into another namespace serves
   the default certificate, with the bit on it serves that secret; the ca bit is not read *)
Definition q_ing : ingress :=
  {| i_ns := "a"; i_name := "inga"; i_stamp := 10; i_class := None; i_rules := [];
     i_tls := [(["a.example"], "b/tls-b"); (["s.example"], "secret://b/tls-b"); (["l.example"], "tls-a")] |}.
Definition q_world : world :=
  {| w_ings := [q_ing]; w_svcs := []; w_eps := []; w_secrets := [("b/tls-b", "HASH-B"); ("a/tls-a", "HASH-A")] |}.
Definition q_dyn (crt ca : bool) : XNs.dyn :=
  {| XNs.d_crt := crt; XNs.d_ca := ca; XNs.d_passwd := false; XNs.d_svc := false |}.

Example permission_example :
  map (served_x (q_dyn false true) q_world) ["a.example"; "s.example"; "l.example"] = [default_crt; default_crt; "HASH-A"] /\
  map (served_x (q_dyn true false) q_world) ["a.example"; "s.example"; "l.example"] = ["HASH-B"; "HASH-B"; "HASH-A"].
Proof. vm_compute. split; reflexivity. Qed.

Example q_ns_ok : ns_ok q_world.
Proof. intros i [<-|[]]. reflexivity. Qed.
