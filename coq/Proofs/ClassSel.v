(* Proofs about Model/ClassSel.v *)
From Coq Require Import String List Bool NArith.
From HI Require Import Lib.XNs_Strs Model.ClassSel.
Import ListNotations.
Open Scope string_scope.
Open Scope list_scope.

(* ---------- what a well formed input is ---------- *)

(* the controller name is "haproxy-ingress.github.io/controller[/suffix]": never empty
   (pkg/controller/config/config.go) *)
Definition wf_cfg (c : cfg) : Prop := c_controller c <> "".

(* metadata.name is unique among the IngressClass objects of a cluster *)
Definition wf_classes (cls : classes) : Prop := NoDup (map fst cls).

(* the API server only admits DNS subdomain names as ingressClassName: no '/' *)
Definition wf_ingress (ing : ingress) : Prop :=
  forall k, i_cls ing = Some k -> contains_char slash k = false.

(* ---------- find_class ---------- *)

Lemma find_class_In cls n ctrl : find_class cls n = Some ctrl -> In (n, ctrl) cls.
Proof.
  induction cls as [|[m c] r IH]; cbn [find_class]; [discriminate|].
  destruct (String.eqb_spec m n) as [->|Hne]; intros H.
  - injection H as ->. left. reflexivity.
  - right. apply IH. exact H.
Qed.

Lemma In_find_class cls n ctrl : wf_classes cls -> In (n, ctrl) cls -> find_class cls n = Some ctrl.
Proof.
  unfold wf_classes. induction cls as [|[m c] r IH]; cbn [find_class map fst In]; intros Hnd H; [destruct H|].
  inversion Hnd as [|? ? Hnotin Hnd']; subst.
  destruct H as [H|H].
  - injection H as -> ->. rewrite String.eqb_refl. reflexivity.
  - destruct (String.eqb_spec m n) as [->|Hne].
    + exfalso. apply Hnotin. apply (in_map fst) in H. exact H.
    + apply IH; assumption.
Qed.

(* ---------- 1. the abstraction is what the code's comparisons observe ---------- *)

Lemma get_class_controller_noslash cls k :
  contains_char slash k = false ->
  get_class_controller cls k = match find_class cls k with Some ctrl => ctrl | None => "" end.
Proof.
  intros H. unfold get_class_controller. rewrite (split_key_absent k H).
  rewrite String.eqb_refl. reflexivity.
Qed.

Lemma is_valid_abstract c cls ing :
  wf_cfg c -> wf_ingress ing ->
  is_valid c cls ing = is_valid_abs (abs_ann c ing) (abs_cls c cls ing) (c_watch c) (c_prec c).
Proof.
  intros Hc Hi. unfold is_valid, is_valid_abs, abs_ann, abs_cls, is_valid_class.
  assert (Hcls : match i_cls ing with
                 | Some k => String.eqb (get_class_controller cls k) (c_controller c)
                 | None => false
                 end =
                 match match i_cls ing with
                       | None => ClsAbsent
                       | Some k => match find_class cls k with
                                   | None => ClsDangling
                                   | Some ctrl => if String.eqb ctrl (c_controller c) then ClsOurs else ClsForeign
                                   end
                       end with ClsOurs => true | _ => false end).
  { destruct (i_cls ing) as [k|] eqn:Ek; [|reflexivity].
    rewrite (get_class_controller_noslash cls k (Hi k Ek)).
    destruct (find_class cls k) as [ctrl|].
    - destruct (String.eqb ctrl (c_controller c)); reflexivity.
    - destruct (String.eqb_spec "" (c_controller c)) as [E|_]; [|reflexivity].
      exfalso. apply Hc. symmetry. exact E. }
  rewrite Hcls. clear Hcls.
  destruct (i_ann ing) as [a|]; cbn [is_some].
  - destruct (String.eqb a (c_class c));
      destruct (i_cls ing) as [k|]; cbn [is_some];
      try destruct (find_class cls k) as [ctrl|];
      try destruct (String.eqb ctrl (c_controller c)); reflexivity.
  - destruct (i_cls ing) as [k|]; cbn [is_some];
      try destruct (find_class cls k) as [ctrl|];
      try destruct (String.eqb ctrl (c_controller c)); reflexivity.
Qed.

(* ---------- 2. the finite table ---------- *)

Lemma table_ok : forallb row_ok all_rows = true.
Proof. vm_compute. reflexivity. Qed.

Lemma all_rows_complete a k w p : In (a, k, w, p) all_rows.
Proof.
  unfold all_rows.
  apply in_flat_map. exists a. split; [destruct a; cbn; auto|].
  apply in_flat_map. exists k. split; [destruct k; cbn; auto|].
  apply in_flat_map. exists w. split; [destruct w; cbn; auto|].
  apply in_map_iff. exists p. split; [reflexivity|destruct p; cbn; auto].
Qed.

Lemma abs_decision a k w p : is_valid_abs a k w p = selected_abs a k w p.
Proof.
  pose proof (proj1 (forallb_forall row_ok all_rows) table_ok _ (all_rows_complete a k w p)) as H.
  cbn [row_ok] in H. apply Bool.eqb_prop in H. exact H.
Qed.

(* ---------- 3. the documented rule over the abstraction ---------- *)

Lemma ann_selects_abs c ing : ann_selects c ing <-> abs_ann c ing = AnnOurs.
Proof.
  unfold ann_selects, abs_ann. destruct (i_ann ing) as [a|].
  - destruct (String.eqb_spec a (c_class c)) as [->|Hne]; split; intros H; try reflexivity; try discriminate.
    injection H as H. contradiction.
  - split; discriminate.
Qed.

Lemma class_selects_abs c cls ing :
  wf_classes cls -> (class_selects c cls ing <-> abs_cls c cls ing = ClsOurs).
Proof.
  intros Hw. unfold class_selects, abs_cls. split.
  - intros (k & Ek & Hin). rewrite Ek. rewrite (In_find_class cls k _ Hw Hin).
    rewrite String.eqb_refl. reflexivity.
  - destruct (i_cls ing) as [k|]; [|discriminate].
    destruct (find_class cls k) as [ctrl|] eqn:Ef; [|discriminate].
    destruct (String.eqb_spec ctrl (c_controller c)) as [->|]; [|discriminate].
    intros _. exists k. split; [reflexivity|]. apply find_class_In. exact Ef.
Qed.

Lemma abs_ann_absent c ing : abs_ann c ing = AnnAbsent <-> i_ann ing = None.
Proof.
  unfold abs_ann. destruct (i_ann ing) as [a|]; [|tauto].
  destruct (String.eqb a (c_class c)); split; discriminate.
Qed.

Lemma abs_cls_absent c cls ing : abs_cls c cls ing = ClsAbsent <-> i_cls ing = None.
Proof.
  unfold abs_cls. destruct (i_cls ing) as [k|]; [|tauto].
  destruct (find_class cls k) as [ctrl|]; [destruct (String.eqb ctrl (c_controller c))|]; split; discriminate.
Qed.

Lemma selected_abstract c cls ing :
  wf_classes cls ->
  (selected c cls ing <-> selected_abs (abs_ann c ing) (abs_cls c cls ing) (c_watch c) (c_prec c) = true).
Proof.
  intros Hw.
  pose proof (ann_selects_abs c ing) as HA.
  pose proof (class_selects_abs c cls ing Hw) as HC.
  pose proof (abs_ann_absent c ing) as HAa.
  pose proof (abs_cls_absent c cls ing) as HCa.
  unfold selected.
  destruct (i_ann ing) as [a|] eqn:Ea; destruct (i_cls ing) as [k|] eqn:Ek.
  - (* both present *)
    assert (Hna : abs_ann c ing <> AnnAbsent) by (intros E; apply HAa in E; discriminate).
    assert (Hnc : abs_cls c cls ing <> ClsAbsent) by (intros E; apply HCa in E; discriminate).
    destruct (abs_ann c ing) eqn:EA; [contradiction| |];
      destruct (abs_cls c cls ing) eqn:EC; try contradiction;
      destruct (c_prec c); cbn [selected_abs negb];
      split; intros H; try reflexivity; try discriminate;
      try (left; split; [apply HA|apply HC]; reflexivity);
      try (right; split; [intros [H1 H2]|]; [|try (apply HA; reflexivity); try (apply HC; reflexivity)]);
      try (destruct H as [[H1 H2]|[H1 H2]];
           try (apply HA in H1; discriminate); try (apply HC in H2; discriminate);
           try (apply HA in H2; discriminate); try (apply HC in H1; discriminate));
      try (specialize (H1 (proj2 HA eq_refl)); apply HC in H1; discriminate);
      try (specialize (H2 (proj2 HC eq_refl)); apply HA in H2; discriminate).
  - (* annotation only *)
    assert (EC : abs_cls c cls ing = ClsAbsent) by (apply HCa; reflexivity).
    assert (Hna : abs_ann c ing <> AnnAbsent) by (intros E; apply HAa in E; discriminate).
    rewrite EC. destruct (abs_ann c ing) eqn:EA; cbn [selected_abs].
    + contradiction.
    + split; [reflexivity|intros _; apply HA; reflexivity].
    + split; [intros H; apply HA in H; discriminate|discriminate].
  - (* class only *)
    assert (EA : abs_ann c ing = AnnAbsent) by (apply HAa; reflexivity).
    assert (Hnc : abs_cls c cls ing <> ClsAbsent) by (intros E; apply HCa in E; discriminate).
    rewrite EA. destruct (abs_cls c cls ing) eqn:EC; cbn [selected_abs].
    + contradiction.
    + split; [reflexivity|intros _; apply HC; reflexivity].
    + split; [intros H; apply HC in H; discriminate|discriminate].
    + split; [intros H; apply HC in H; discriminate|discriminate].
  - (* unclassified *)
    assert (EA : abs_ann c ing = AnnAbsent) by (apply HAa; reflexivity).
    assert (EC : abs_cls c cls ing = ClsAbsent) by (apply HCa; reflexivity).
    rewrite EA, EC. cbn [selected_abs]. tauto.
Qed.

(* ---------- main theorem ---------- *)

Theorem is_valid_iff_selected c cls ing :
  wf_cfg c -> wf_classes cls -> wf_ingress ing ->
  (is_valid c cls ing = true <-> selected c cls ing).
Proof.
  intros Hc Hw Hi.
  rewrite (is_valid_abstract c cls ing Hc Hi), abs_decision.
  symmetry. apply selected_abstract. exact Hw.
Qed.

(* the hypotheses are satisfiable, and both outcomes occur *)
Example is_valid_iff_selected_nonvacuous :
  let c := {| c_class := "haproxy"; c_controller := "haproxy-ingress.github.io/controller";
              c_watch := false; c_prec := true |} in
  let cls := [("hap", "haproxy-ingress.github.io/controller"); ("other", "example.com/x")] in
  let i1 := {| i_name := "a/i1"; i_ann := Some "nginx"; i_cls := Some "hap"; i_oann := 0; i_spec := 0; i_gen := 1; i_rv := 1 |} in
  let i2 := {| i_name := "a/i2"; i_ann := Some "haproxy"; i_cls := Some "other"; i_oann := 0; i_spec := 0; i_gen := 1; i_rv := 2 |} in
  wf_cfg c /\ wf_classes cls /\ wf_ingress i1 /\ wf_ingress i2 /\
  is_valid c cls i1 = true /\ is_valid c cls i2 = false.
Proof.
  cbn zeta. repeat split; try (vm_compute; reflexivity).
  - discriminate.
  - unfold wf_classes. cbn. repeat constructor; cbn; intuition discriminate.
  - intros k H. injection H as <-. reflexivity.
  - intros k H. injection H as <-. reflexivity.
Qed.

(* Outside wf_ingress the code and the rule part: the key "/hap" is split into
   namespace "" and name "hap" by SplitMetaNamespaceKey, so the class "hap" is found
   although no IngressClass is named "/hap". Not reachable through an API server. *)
Example slash_class_name_is_looked_up :
  let c := {| c_class := "haproxy"; c_controller := "ctl"; c_watch := false; c_prec := false |} in
  let cls := [("hap", "ctl")] in
  let i := {| i_name := "a/i"; i_ann := None; i_cls := Some "/hap"; i_oann := 0; i_spec := 0; i_gen := 1; i_rv := 1 |} in
  is_valid c cls i = true /\ ~ selected c cls i.
Proof.
  cbn zeta. split; [vm_compute; reflexivity|].
  unfold selected, class_selects. cbn. intros (k & Hk & [H|[]]).
  injection Hk as <-. discriminate.
Qed.

(* ---------- the legacy copy decides the same ---------- *)

Theorem legacy_same_decision c cls ing :
  wf_cfg c -> wf_ingress ing -> is_valid_legacy c cls ing = is_valid c cls ing.
Proof.
  intros Hc Hi. unfold is_valid_legacy, is_valid, is_valid_class.
  destruct (i_cls ing) as [k|] eqn:Ek; [|reflexivity].
  rewrite (get_class_controller_noslash cls k (Hi k Ek)).
  destruct (find_class cls k) as [ctrl|]; [reflexivity|].
  destruct (String.eqb_spec "" (c_controller c)) as [E|_]; [|reflexivity].
  exfalso. apply Hc. symmetry. exact E.
Qed.

(* ---------- GetIngress / GetIngressList / full sync ---------- *)

Lemma get_ingress_list_spec c cls ings i :
  In i (get_ingress_list c cls ings) <-> In i ings /\ is_valid c cls i = true.
Proof. unfold get_ingress_list. apply filter_In. Qed.

Lemma get_ingress_valid c cls ings n i :
  get_ingress c cls ings n = Some i -> is_valid c cls i = true /\ i_name i = n /\ In i ings.
Proof.
  unfold get_ingress. destruct (find_ingress ings n) as [j|] eqn:Ef; [|discriminate].
  destruct (is_valid c cls j) eqn:Ev; [|discriminate]. intros H. injection H as <-.
  split; [exact Ev|]. clear Ev. induction ings as [|h t IH]; cbn [find_ingress] in Ef; [discriminate|].
  destruct (String.eqb_spec (i_name h) n) as [E|_].
  - injection Ef as <-. split; [exact E|left; reflexivity].
  - destruct (IH Ef) as [H1 H2]. split; [exact H1|right; exact H2].
Qed.

Lemma filter_filter_absorb {A} (f g : A -> bool) l :
  (forall x, In x l -> f x = true -> g x = true) -> filter f (filter g l) = filter f l.
Proof.
  induction l as [|h t IH]; intros H; cbn [filter]; [reflexivity|].
  assert (Ht : forall x, In x t -> f x = true -> g x = true) by (intros x Hx; apply H; right; exact Hx).
  destruct (g h) eqn:Eg; cbn [filter].
  - destruct (f h); rewrite (IH Ht); reflexivity.
  - destruct (f h) eqn:Ef.
    + rewrite (H h (or_introl eq_refl) Ef) in Eg. discriminate.
    + apply IH. exact Ht.
Qed.

(* erasing any set of ingresses that are not selected does not change a full sync *)
Theorem unselected_contributes_nothing {item env} (contrib : env -> ingress -> list item) e c cls ings keep :
  wf_cfg c -> wf_classes cls -> (forall i, In i ings -> wf_ingress i) ->
  (forall i, In i ings -> selected c cls i -> keep i = true) ->
  sync_full contrib e c cls (filter keep ings) = sync_full contrib e c cls ings.
Proof.
  intros Hc Hw Hi Hk. unfold sync_full, get_ingress_list. f_equal.
  apply filter_filter_absorb. intros i Hin Hv. apply Hk; [exact Hin|].
  apply is_valid_iff_selected; auto.
Qed.

(* and everything a full sync holds comes from a selected ingress *)
Theorem contribution_from_selected {item env} (contrib : env -> ingress -> list item) e c cls ings x :
  wf_cfg c -> wf_classes cls -> (forall i, In i ings -> wf_ingress i) ->
  In x (sync_full contrib e c cls ings) ->
  exists i, In i ings /\ selected c cls i /\ In x (contrib e i).
Proof.
  intros Hc Hw Hi H. unfold sync_full in H. apply in_flat_map in H as (i & Hin & Hx).
  apply get_ingress_list_spec in Hin as [Hin Hv]. exists i. split; [exact Hin|]. split; [|exact Hx].
  apply is_valid_iff_selected; auto.
Qed.

(* unselected_contributes_nothing is not vacuous: erasing the foreign ingress of a
   cluster leaves the full sync unchanged, and the selected one contributes *)
Example unselected_example :
  let c := {| c_class := "haproxy"; c_controller := "ctl"; c_watch := false; c_prec := false |} in
  let mk n a := {| i_name := n; i_ann := a; i_cls := None; i_oann := 0; i_spec := 0; i_gen := 1; i_rv := 1 |} in
  let ings := [mk "a/ours" (Some "haproxy"); mk "a/theirs" (Some "nginx"); mk "a/none" None] in
  let contrib (_ : unit) i := [i_name i] in
  sync_full contrib tt c [] ings = ["a/ours"] /\
  sync_full contrib tt c [] (filter (fun i => String.eqb (i_name i) "a/ours") ings) = ["a/ours"].
Proof. vm_compute. split; reflexivity. Qed.
