(* Model/ConvAnn.v (Conv.v plus the annotation mappers):
   - conservative: whatever the annotations, the Conv.v part of the state evolves exactly as
     in Model/Conv.v (sync_full_a_fst, sync_partial_a_fst), so every theorem of
     Properties/C01_model.v holds of the hosts / paths / servers / certificates of ConvAnn
     (history_general_a, history_obs_a);
   - the finding "a redeclared path that becomes effective acquires a backend that the
     partial sync did not remove, and its annotations are lost" is a behaviour of the model:
     annotations_refuted (vm_compute), on the history the harness replays on the real code. *)
From Coq Require Import List Bool String ZArith Lia Relations Permutation.
From HI Require Import Model.Tracker Model.Conv Model.ConvAnn Proofs.Tracker Proofs.IncSync Proofs.Conv
                       Proofs.ConvSort Proofs.ConvHist_base Proofs.ConvHist_keys Proofs.ConvHist_sim
                       Proofs.ConvBack Proofs.ConvHist Proofs.ConvHist_multi.
Import ListNotations.
Open Scope string_scope.

(* ------------------------------------------------------------------ *)
(* the Conv.v part of a ConvAnn run is the Conv.v run                   *)
(* ------------------------------------------------------------------ *)
Lemma fold_fst {S1 S2 A} (f : S1 * S2 -> A -> S1 * S2) (g : S1 -> A -> S1) l :
  (forall y a, fst (f y a) = g (fst y) a) -> forall y, fst (fold_left f l y) = fold_left g l (fst y).
Proof.
  intros H. induction l as [|a l IH]; intros y; cbn [fold_left]; [reflexivity|]. rewrite IH, H. reflexivity.
Qed.

Lemma async_path_fst w i hn y r : fst (async_path w i hn y r) = sync_path (aw_base w) i hn (fst y) r.
Proof. reflexivity. Qed.

Lemma async_rule_fst w i y rule : fst (async_rule w i y rule) = sync_rule (aw_base w) i (fst y) rule.
Proof.
  unfold async_rule, sync_rule. cbv zeta.
  etransitivity; [apply (fold_fst (async_path w i (norm_host (fst rule))) (sync_path (aw_base w) i (norm_host (fst rule)))); intros; reflexivity|].
  cbn [fst]. destruct (i_class i); reflexivity.
Qed.

Lemma async_tls_fst w i y blk : fst (async_tls w i y blk) = sync_tls (aw_base w) i (fst y) blk.
Proof.
  unfold async_tls, sync_tls. apply (fold_fst _ (sync_tls_host (aw_base w) i (snd blk))). intros; reflexivity.
Qed.

Lemma async_ingress_fst w y i : fst (async_ingress w y i) = sync_ingress (aw_base w) (fst y) i.
Proof.
  unfold async_ingress, sync_ingress.
  etransitivity; [apply (fold_fst (async_tls w i) (sync_tls (aw_base w) i)); intros; apply async_tls_fst|].
  f_equal. apply (fold_fst (async_rule w i) (sync_rule (aw_base w) i)). intros; apply async_rule_fst.
Qed.

Lemma fold_async_fst w l y :
  fst (fold_left (async_ingress w) l y) = fold_left (sync_ingress (aw_base w)) l (fst y).
Proof. apply fold_fst. intros; apply async_ingress_fst. Qed.

Theorem sync_full_a_fst w : fst (sync_full_a w) = sync_full (aw_base w).
Proof. unfold sync_full_a, sync_full. apply fold_async_fst. Qed.

Theorem sync_partial_a_fst w' x A b :
  option_map fst (sync_partial_a w' (x, A) b) = sync_partial (aw_base w') x b.
Proof.
  destruct x as [s T]. unfold sync_partial_a, sync_partial.
  destruct (query_remove _ _ _) as [[out T2]|]; [|reflexivity].
  cbn [option_map]. f_equal. apply fold_async_fst.
Qed.

(* histories *)
Fixpoint run_hist_a (y : ast) (h : list (batch * aworld)) : option ast :=
  match h with
  | [] => Some y
  | (b, w') :: r => match sync_partial_a w' y b with Some y' => run_hist_a y' r | None => None end
  end.

Fixpoint last_aw (w : aworld) (h : list (batch * aworld)) : aworld :=
  match h with [] => w | (_, w') :: r => last_aw w' r end.

Definition base_hist (h : list (batch * aworld)) : list (batch * world) :=
  map (fun p => (fst p, aw_base (snd p))) h.

Lemma run_hist_a_fst h : forall y, option_map fst (run_hist_a y h) = run_hist (fst y) (base_hist h).
Proof.
  induction h as [|[b w'] r IH]; intros [x A]; cbn [run_hist_a base_hist map run_hist fst snd]; [reflexivity|].
  pose proof (sync_partial_a_fst w' x A b) as H.
  destruct (sync_partial_a w' (x, A) b) as [y'|]; cbn [option_map] in H; rewrite <- H; [apply IH|reflexivity].
Qed.

Lemma last_aw_base h : forall w, last_w (aw_base w) (base_hist h) = aw_base (last_aw w h).
Proof. induction h as [|[b w'] r IH]; intros w; cbn; [reflexivity|]. apply IH. Qed.

(* the theorems of Conv hold of the Conv.v part of ConvAnn, whatever the annotations *)
Theorem history_general_a w0 h :
  hist_ok_g (aw_base w0) (base_hist h) ->
  exists y', run_hist_a (sync_full_a w0) h = Some y' /\
             hosts_eq (fst (fst y')) (fst (fst (sync_full_a (last_aw w0 h)))).
Proof.
  intros Hh. destruct (model_history_general _ _ Hh) as (x' & Hr & He).
  pose proof (run_hist_a_fst h (sync_full_a w0)) as Hf. rewrite sync_full_a_fst, Hr in Hf.
  destruct (run_hist_a (sync_full_a w0) h) as [y'|]; [|discriminate]. cbn in Hf. injection Hf as Hf.
  exists y'. split; [reflexivity|]. rewrite Hf, sync_full_a_fst, <- last_aw_base. exact He.
Qed.

Theorem history_obs_a w0 h :
  hist_ok_o (aw_base w0) (base_hist h) -> back_det (aw_base (last_aw w0 h)) ->
  exists y', run_hist_a (sync_full_a w0) h = Some y' /\
             forall hn, obs_host (fst (fst y')) hn = obs_host (fst (fst (sync_full_a (last_aw w0 h)))) hn.
Proof.
  intros Hh Hd. rewrite <- last_aw_base in Hd. destruct (model_history_obs _ _ Hh Hd) as (x' & Hr & He).
  pose proof (run_hist_a_fst h (sync_full_a w0)) as Hf. rewrite sync_full_a_fst, Hr in Hf.
  destruct (run_hist_a (sync_full_a w0) h) as [y'|]; [|discriminate]. cbn in Hf. injection Hf as Hf.
  exists y'. split; [reflexivity|]. rewrite Hf, sync_full_a_fst, <- last_aw_base. exact He.
Qed.

(* ------------------------------------------------------------------ *)
(* the finding, on the model                                            *)
(* ------------------------------------------------------------------ *)
Open Scope Z_scope.
(* ns1/ing0 (oldest) owns a.example / -> svc2; ns1/ing1 redeclares a.example / -> svc1 with
   backend annotations and is skipped; ns1/ing2 (youngest) uses svc1 on b.example and created
   backend ns1_svc1_8080.  ing0 is deleted. *)
Definition af_svc1 := {| s_ns := "ns1"; s_name := "svc1"; s_ports := [ {| sp_name := "http"; sp_port := 80; sp_target := "8080" |} ] |}.
Definition af_svc2 := {| s_ns := "ns1"; s_name := "svc2"; s_ports := [ {| sp_name := "http"; sp_port := 80; sp_target := "9090" |} ] |}.
Definition af_eps := [("ns1/svc1", [ {| ss_name := "http"; ss_port := 8080; ss_ready := ["10.1.0.1"] |} ]);
                      ("ns1/svc2", [ {| ss_name := "http"; ss_port := 9090; ss_ready := ["10.1.0.2"] |} ])].
Definition af_ing (name : string) (stamp : Z) (host svc : string) : ingress :=
  {| i_ns := "ns1"; i_name := name; i_stamp := stamp; i_class := None;
     i_rules := [(host, [{| r_path := "/"; r_type := Prefix; r_svc := svc; r_port := "80" |}])]; i_tls := [] |}.
Definition af_ing0 := af_ing "ing0" 1 "a.example" "svc2".
Definition af_ing1 := af_ing "ing1" 5 "a.example" "svc1".
Definition af_ing2 := af_ing "ing2" 9 "b.example" "svc1".
Definition af_ann : amap := [("balance-algorithm", "leastconn"); ("hsts-max-age", "100")].
Definition af_world (l : list ingress) : aworld :=
  {| aw_base := {| w_ings := l; w_svcs := [af_svc1; af_svc2]; w_eps := af_eps; w_secrets := [] |};
     aw_iann := [("ns1/ing1", ([], af_ann))]; aw_sann := [] |}.
Definition af_w0 := af_world [af_ing0; af_ing1; af_ing2].
Definition af_w1 := af_world [af_ing1; af_ing2].
Definition af_b1 := {| b_links := [(KIngress, "ns1/ing0")]; b_add := []; b_upd := []; b_del := ["ns1/ing0"] |}.

Definition obs_a (o : option ast) (h : string) := match o with Some y => Some (obs_ann y h) | None => None end.

(* incrementally the path of ing1 points to a backend that never saw ing1's annotations; a
   full sync converts ing1 before ing2 and its declarations come first *)
Theorem annotations_refuted :
  batch_ok (aw_base af_w0) (aw_base af_w1) af_b1 /\
  obs_a (run_hist_a (sync_full_a af_w0) [(af_b1, af_w1)]) "a.example"
    = Some (Some ([], [("/", Prefix, [], None)])) /\
  obs_a (Some (sync_full_a (last_aw af_w0 [(af_b1, af_w1)]))) "a.example"
    = Some (Some ([], [("/", Prefix, af_ann, Some af_ann)])).
Proof.
  split; [apply batch_okb_sound; vm_compute; reflexivity|vm_compute; split; reflexivity].
Qed.
