(* Proofs about Model/Gateway.v (property C10) *)
From Coq Require Import ZArith NArith List Bool String Ascii Lia.
From HI Require Import Model.Weights Proofs.Weights Model.Gateway.
Import ListNotations.
Open Scope string_scope.
Open Scope list_scope.

(* ================================================================== generic list lemmas *)

Lemma fold_left_flat_map {A B S} (f : S -> B -> S) (g : A -> list B) (l : list A) : forall s,
  fold_left (fun s x => fold_left f (g x) s) l s = fold_left f (flat_map g l) s.
Proof.
  induction l as [|x t IH]; cbn [fold_left flat_map]; intros s; [reflexivity|].
  rewrite fold_left_app. apply IH.
Qed.

Lemma fold_left_ext {A S} (f g : S -> A -> S) (l : list A) : forall s,
  (forall s x, In x l -> f s x = g s x) -> fold_left f l s = fold_left g l s.
Proof.
  induction l as [|x t IH]; cbn [fold_left]; intros s H; [reflexivity|].
  rewrite H by (left; reflexivity). apply IH. intros s' y Hy. apply H. right. exact Hy.
Qed.

Lemma flat_map_ext_in {A B} (f g : A -> list B) (l : list A) :
  (forall x, In x l -> f x = g x) -> flat_map f l = flat_map g l.
Proof.
  induction l as [|x t IH]; cbn [flat_map]; intros H; [reflexivity|].
  rewrite H by (left; reflexivity). f_equal. apply IH. intros y Hy. apply H. right. exact Hy.
Qed.

Lemma filter_flat_map {A B} (p : B -> bool) (f : A -> list B) (l : list A) :
  filter p (flat_map f l) = flat_map (fun x => filter p (f x)) l.
Proof.
  induction l as [|x t IH]; cbn [flat_map]; [reflexivity|]. rewrite filter_app, IH. reflexivity.
Qed.

Lemma filter_const {A} (p : A -> bool) (b : bool) (l : list A) :
  (forall x, In x l -> p x = b) -> filter p l = if b then l else [].
Proof.
  induction l as [|x t IH]; cbn [filter]; intros H; [destruct b; reflexivity|].
  rewrite (H x) by (left; reflexivity). rewrite IH by (intros y Hy; apply H; right; exact Hy).
  destruct b; reflexivity.
Qed.

Lemma flat_map_nil {A B} (l : list A) : flat_map (fun _ : A => @nil B) l = [].
Proof. induction l; cbn [flat_map]; [reflexivity|exact IHl]. Qed.

Lemma flat_map_if {A B} (b : bool) (f : A -> list B) (l : list A) :
  flat_map (fun x => if b then f x else []) l = if b then flat_map f l else [].
Proof. destruct b; [reflexivity|apply flat_map_nil]. Qed.

Lemma map_flat_map {A B C} (h : B -> C) (f : A -> list B) (l : list A) :
  map h (flat_map f l) = flat_map (fun x => map h (f x)) l.
Proof.
  induction l as [|x t IH]; cbn [flat_map map]; [reflexivity|]. rewrite map_app, IH. reflexivity.
Qed.

Lemma nodup_snoc {A} (l : list A) x : NoDup l -> ~ In x l -> NoDup (l ++ [x]).
Proof.
  induction l as [|y t IH]; cbn [app]; intros Hnd Hni; [constructor; [intros []|constructor]|].
  inversion Hnd as [|? ? Hy Ht]; subst. constructor.
  - rewrite in_app_iff. cbn [In]. intros [H|[E|[]]]; [contradiction|]. subst. apply Hni. left. reflexivity.
  - apply IH; [exact Ht|]. intros H. apply Hni. right. exact H.
Qed.

(* ================================================================== first declaration wins *)

Definition add_kv (ps : list (string * string)) (kv : string * string) : list (string * string) :=
  if has_key (fst kv) ps then ps else ps ++ [kv].
Definition first_wins (l : list (string * string)) : list (string * string) := fold_left add_kv l [].

Lemma has_key_in {A} k (l : list (string * A)) : has_key k l = true <-> In k (map fst l).
Proof.
  unfold has_key. rewrite existsb_exists. split.
  - intros ([x v] & Hin & E). cbn [fst] in E. apply String.eqb_eq in E. subst.
    change k with (fst (k, v)). apply in_map. exact Hin.
  - intros H. apply in_map_iff in H as ([x v] & E & Hin). cbn [fst] in E. subst.
    exists (k, v). split; [exact Hin|apply String.eqb_refl].
Qed.

Lemma has_key_app {A} k (a b : list (string * A)) : has_key k (a ++ b) = has_key k a || has_key k b.
Proof. unfold has_key. apply existsb_app. Qed.

(* invariant of the fold: the result holds, for each key seen so far, its first value *)
Lemma fold_add_kv_spec l : forall acc,
  NoDup (map fst acc) ->
  NoDup (map fst (fold_left add_kv l acc)) /\
  (forall k v, In (k, v) (fold_left add_kv l acc) <->
     In (k, v) acc \/
     (~ In k (map fst acc) /\ exists l1 l2, l = l1 ++ (k, v) :: l2 /\ ~ In k (map fst l1))).
Proof.
  induction l as [|[k0 v0] t IH]; cbn [fold_left]; intros acc Hnd.
  - split; [exact Hnd|]. intros k v. split; [auto|]. intros [H|(_ & l1 & l2 & E & _)]; [exact H|].
    destruct l1; discriminate.
  - assert (Hstep : add_kv acc (k0, v0) = if has_key k0 acc then acc else acc ++ [(k0, v0)]) by reflexivity.
    rewrite Hstep. clear Hstep. destruct (has_key k0 acc) eqn:Ek.
    + apply has_key_in in Ek. destruct (IH acc Hnd) as [H1 H2]. split; [exact H1|].
      intros k v. rewrite H2. split.
      * intros [H|(Hn & l1 & l2 & E & Hl)]; [left; exact H|]. right. split; [exact Hn|].
        exists ((k0, v0) :: l1), l2. split; [rewrite E; reflexivity|].
        cbn [map fst]. intros [E0|Hin]; [subst; contradiction|contradiction].
      * intros [H|(Hn & l1 & l2 & E & Hl)]; [left; exact H|]. right. split; [exact Hn|].
        destruct l1 as [|[k1 v1] l1]; cbn [app] in E.
        -- injection E as -> -> ->. contradiction.
        -- injection E as -> -> ->. exists l1, l2. split; [reflexivity|].
           intros Hin. apply Hl. right. exact Hin.
    + assert (Hni : ~ In k0 (map fst acc)).
      { intros Hin. apply has_key_in in Hin. congruence. }
      assert (Hnd' : NoDup (map fst (acc ++ [(k0, v0)]))).
      { rewrite map_app. cbn [map fst]. apply nodup_snoc; assumption. }
      destruct (IH _ Hnd') as [H1 H2]. split; [exact H1|].
      intros k v. rewrite H2. rewrite in_app_iff. cbn [In]. rewrite map_app, in_app_iff. cbn [map fst In]. split.
      * intros [[H|[E|[]]]|(Hn & l1 & l2 & E & Hl)].
        -- left. exact H.
        -- injection E as <- <-. right. split; [exact Hni|]. exists [], t. split; [reflexivity|intros []].
        -- right. split; [tauto|]. exists ((k0, v0) :: l1), l2. split; [rewrite E; reflexivity|].
           cbn [map fst]. intros [E0|Hin]; [subst; tauto|contradiction].
      * intros [H|(Hn & l1 & l2 & E & Hl)]; [left; left; exact H|].
        destruct l1 as [|[k1 v1] l1]; cbn [app] in E.
        -- injection E as -> -> ->. left. right. left. reflexivity.
        -- injection E as -> -> ->. right. split.
           ++ intros [Hin|[E0|[]]]; [contradiction|]. subst. apply Hl. left. reflexivity.
           ++ exists l1, l2. split; [reflexivity|]. intros Hin. apply Hl. right. exact Hin.
Qed.

(* ================================================================== the rules, as booleans and as propositions *)

Lemma or_default_eq (o : ostr) d v : v <> "" -> d = v ->
  (String.eqb (or_default o d) v = true <-> (o = None \/ o = Some "" \/ o = Some v)).
Proof.
  intros Hv ->. unfold or_default. destruct o as [s|].
  - destruct (String.eqb_spec s "") as [->|Hs].
    + rewrite String.eqb_refl. split; auto.
    + rewrite String.eqb_eq. split; [intros ->; auto|].
      intros [H|[H|H]]; [discriminate|injection H; congruence|injection H; auto].
  - rewrite String.eqb_refl. split; auto.
Qed.

Definition designates_b (r : route) (p : parentref) (g : gateway) : bool :=
  parent_is_gateway p && String.eqb (g_ns g) (parent_ns r p) && String.eqb (g_name g) (p_name p).

Lemma designates_spec r p g : designates_b r p g = true <-> designates r p g.
Proof.
  unfold designates_b, designates, parent_is_gateway, parent_ns.
  rewrite !andb_true_iff.
  rewrite (or_default_eq (p_group p) gateway_group gateway_group) by (reflexivity || discriminate).
  rewrite (or_default_eq (p_kind p) "Gateway" "Gateway") by (reflexivity || discriminate).
  rewrite !String.eqb_eq. unfold or_default. destruct (p_ns p) as [n|]; tauto.
Qed.

Lemma find_some_unique {A B} (key : A -> B) (l : list A) (f : A -> bool) x :
  NoDup (map key l) -> (forall y, f y = true -> In y l -> In x l -> f x = true -> key y = key x) ->
  In x l -> f x = true -> find f l = Some x.
Proof.
  induction l as [|y t IH]; cbn [find map]; intros Hnd Hk Hin Hf; [destruct Hin|].
  inversion Hnd as [|? ? Hny Hnt]; subst.
  destruct (f y) eqn:Ey.
  - destruct Hin as [->|Hin]; [reflexivity|]. exfalso. apply Hny.
    rewrite (Hk y Ey (or_introl eq_refl) (or_intror Hin) Hf). apply in_map. exact Hin.
  - destruct Hin as [->|Hin]; [congruence|]. apply IH; auto.
    intros z Hz Hzin Hxin Hfx. apply Hk; auto; right; assumption.
Qed.

Lemma class_ours_spec cl g :
  NoDup (map gc_name (c_classes cl)) -> (class_ours cl g = true <-> class_is_ours cl g).
Proof.
  intros Hnd. unfold class_ours, class_is_ours. split.
  - destruct (find _ _) as [c|] eqn:E; [|discriminate]. intros H.
    apply find_some in E as [Hin Hn]. apply String.eqb_eq in Hn. apply String.eqb_eq in H.
    exists c. auto.
  - intros (c & Hin & Hn & Hc).
    rewrite (find_some_unique gc_name (c_classes cl) _ c Hnd).
    + rewrite Hc. apply String.eqb_refl.
    + intros y Hy _ _ Hx. apply String.eqb_eq in Hy. apply String.eqb_eq in Hx. congruence.
    + exact Hin.
    + rewrite Hn. apply String.eqb_refl.
Qed.

Lemma section_spec p l : section_ok (p_section p) l = true <-> section_admits p l.
Proof.
  unfold section_ok, section_admits. destruct (p_section p) as [s|].
  - rewrite String.eqb_eq. split; [intros ->; auto|intros [H|H]; [discriminate|injection H; auto]].
  - split; auto.
Qed.

Lemma kind_allowed_spec kinds k : kind_allowed kinds k = true <-> kinds_admit kinds k.
Proof.
  unfold kind_allowed, kinds_admit. destruct kinds as [|x t]; [split; auto|].
  set (l := x :: t). rewrite existsb_exists. split.
  - intros ([g k'] & Hin & H). cbn [fst snd] in H. apply andb_true_iff in H as [Hg Hk].
    apply String.eqb_eq in Hk. right. exists g, k'. split; [exact Hin|]. split; [|exact Hk].
    destruct g as [s|]; [right; apply String.eqb_eq in Hg; congruence|left; reflexivity].
  - intros [H|(g & k' & Hin & Hg & Hk)]; [discriminate|]. exists (g, k'). split; [exact Hin|].
    cbn [fst snd]. apply andb_true_iff. split; [|apply String.eqb_eq; exact Hk].
    destruct Hg as [->| ->]; [reflexivity|apply String.eqb_refl].
Qed.

Lemma str_mem_in s l : str_mem s l = true <-> In s l.
Proof.
  unfold str_mem. rewrite existsb_exists. split.
  - intros (x & Hin & E). apply String.eqb_eq in E. subst. exact Hin.
  - intros H. exists s. split; [exact H|apply String.eqb_refl].
Qed.

Ltac op_cases e :=
  destruct (String.eqb_spec (lr_op e) "In") as [EIn|NIn];
  [|destruct (String.eqb_spec (lr_op e) "NotIn") as [ENotIn|NNotIn];
    [|destruct (String.eqb_spec (lr_op e) "Exists") as [EEx|NEx];
      [|destruct (String.eqb_spec (lr_op e) "DoesNotExist") as [EDne|NDne]]]].

Lemma req_valid_spec e :
  req_valid e = true <->
  (((lr_op e = "In" \/ lr_op e = "NotIn") /\ lr_values e <> []) \/
   ((lr_op e = "Exists" \/ lr_op e = "DoesNotExist") /\ lr_values e = [])).
Proof.
  unfold req_valid. op_cases e; cbn [orb].
  - rewrite EIn. cbn. destruct (lr_values e); cbn [negb]; split; try discriminate; auto.
    + intros [[_ H]|[[H|H] _]]; [contradiction|discriminate|discriminate].
    + intros _. left. split; [auto|discriminate].
  - rewrite ENotIn. cbn. destruct (lr_values e); cbn [negb]; split; try discriminate; auto.
    + intros [[_ H]|[[H|H] _]]; [contradiction|discriminate|discriminate].
    + intros _. left. split; [auto|discriminate].
  - rewrite EEx. cbn. destruct (lr_values e); split; try discriminate; auto.
    intros [[[H|H] _]|[_ H]]; discriminate.
  - rewrite EDne. cbn. destruct (lr_values e); split; try discriminate; auto.
    intros [[[H|H] _]|[_ H]]; discriminate.
  - split; [discriminate|]. intros [[[H|H] _]|[[H|H] _]]; contradiction.
Qed.

Lemma req_matches_spec ls e :
  req_valid e = true -> (req_matches ls e = true <-> expr_holds ls e).
Proof.
  intros Hv. apply req_valid_spec in Hv. unfold req_matches, expr_holds.
  op_cases e.
  - destruct Hv as [[_ Hne]|[[H|H] _]]; [|congruence|congruence].
    destruct (assoc (lr_key e) ls) as [v|] eqn:Ea.
    + rewrite str_mem_in. split.
      * intros Hin. left. repeat split; auto. exists v. auto.
      * intros [(_ & _ & v' & E & Hin)|[(H & _)|[(H & _)|(H & _)]]]; try congruence.
    + split; [discriminate|].
      intros [(_ & _ & v' & E & _)|[(H & _)|[(H & _)|(H & _)]]]; congruence.
  - destruct Hv as [[_ Hne]|[[H|H] _]]; [|congruence|congruence].
    destruct (assoc (lr_key e) ls) as [v|] eqn:Ea.
    + rewrite negb_true_iff, <- not_true_iff_false, str_mem_in. split.
      * intros Hni. right. left. repeat split; auto. intros v' E. injection E as <-. exact Hni.
      * intros [(H & _)|[(_ & _ & H)|[(H & _)|(H & _)]]]; try congruence. apply H. reflexivity.
    + split; [|reflexivity]. intros _. right. left. repeat split; auto. intros v' E. discriminate.
  - destruct Hv as [[[H|H] _]|[_ Hnil]]; [congruence|congruence|].
    destruct (assoc (lr_key e) ls) as [v|] eqn:Ea.
    + split; [|reflexivity]. intros _. right. right. left. repeat split; auto. discriminate.
    + split; [discriminate|].
      intros [(H & _)|[(H & _)|[(_ & _ & H)|(H & _)]]]; congruence.
  - destruct Hv as [[[H|H] _]|[_ Hnil]]; [congruence|congruence|].
    destruct (assoc (lr_key e) ls) as [v|] eqn:Ea.
    + split; [discriminate|].
      intros [(H & _)|[(H & _)|[(H & _)|(_ & _ & H)]]]; congruence.
    + split; [|reflexivity]. intros _. right. right. right. auto.
  - destruct Hv as [[[H|H] _]|[[H|H] _]]; contradiction.
Qed.

Lemma forallb_req_valid_spec s :
  forallb req_valid (sel_exprs s) = true <-> selector_wellformed s.
Proof.
  unfold selector_wellformed. rewrite forallb_forall. split; intros H e He; apply req_valid_spec; auto.
Qed.

Lemma selector_matches_spec s ls :
  selector_matches s ls = Some true <->
  (selector_wellformed s /\
   (forall k v, In (k, v) (sel_labels s) -> assoc k ls = Some v) /\
   (forall e, In e (sel_exprs s) -> expr_holds ls e)).
Proof.
  unfold selector_matches. destruct (forallb req_valid (sel_exprs s)) eqn:Ev.
  - assert (Hwf := Ev). apply forallb_req_valid_spec in Hwf. rewrite forallb_forall in Ev.
    split.
    + intros H. injection H as H. apply andb_true_iff in H as [Hl He].
      rewrite forallb_forall in Hl, He. split; [exact Hwf|]. split.
      * intros k v Hin. specialize (Hl (k, v) Hin). cbn [fst snd] in Hl.
        destruct (assoc k ls) as [v'|]; [|discriminate]. apply String.eqb_eq in Hl. congruence.
      * intros e Hin. apply req_matches_spec; auto.
    + intros (_ & Hl & He). f_equal. apply andb_true_iff. split; apply forallb_forall.
      * intros [k v] Hin. cbn [fst snd]. rewrite (Hl k v Hin). apply String.eqb_refl.
      * intros e Hin. apply req_matches_spec; auto.
  - split; [discriminate|]. intros (Hwf & _). apply forallb_req_valid_spec in Hwf. congruence.
Qed.

Lemma ns_allowed_spec cl g r rn :
  NoDup (map fst (c_namespaces cl)) ->
  (ns_allowed cl g r (Some rn) = true <-> namespaces_admit cl g r rn).
Proof.
  intros Hnd. unfold ns_allowed, namespaces_admit. destruct (rn_from rn) as [from|].
  2:{ split; [discriminate|]. intros [H|[[H _]|[H _]]]; discriminate. }
  destruct (String.eqb_spec from "Same") as [->|NSame]; cbn [andb].
  - destruct (String.eqb_spec (rt_ns r) (g_ns g)) as [E|NE].
    + split; auto.
    + cbn. split; [discriminate|]. intros [H|[[_ H]|[H _]]]; [discriminate|contradiction|discriminate].
  - destruct (String.eqb_spec from "All") as [->|NAll]; [split; auto|].
    destruct (String.eqb_spec from "Selector") as [->|NSel].
    + destruct (rn_selector rn) as [sel|].
      2:{ split; [discriminate|]. intros [H|[[H _]|(_ & sel & ls & H & _)]]; discriminate. }
      destruct (find _ (c_namespaces cl)) as [[n ls]|] eqn:Ef.
      * apply find_some in Ef as [Hin Hn]. cbn [fst] in Hn. apply String.eqb_eq in Hn. subst n.
        cbn [snd]. split.
        -- intros H. right. right. split; [reflexivity|]. exists sel, ls. split; [reflexivity|]. split; [exact Hin|].
           apply selector_matches_spec. destruct (selector_matches sel ls) as [[|]|]; congruence.
        -- intros [H|[[H _]|(_ & sel' & ls' & E & Hin' & Hrest)]]; [discriminate|discriminate|].
           injection E as <-.
           assert (ls' = ls).
           { clear - Hnd Hin Hin'. induction (c_namespaces cl) as [|[n0 l0] t IH]; [destruct Hin|].
             cbn [map fst] in Hnd. inversion Hnd as [|? ? Hni Hnt]; subst.
             destruct Hin as [E|Hin], Hin' as [E'|Hin'].
             - congruence.
             - injection E as -> ->. exfalso. apply Hni. change (rt_ns r) with (fst (rt_ns r, ls')). apply in_map. exact Hin'.
             - injection E' as -> ->. exfalso. apply Hni. change (rt_ns r) with (fst (rt_ns r, ls)). apply in_map. exact Hin.
             - apply IH; assumption. }
           subst ls'. apply selector_matches_spec in Hrest. rewrite Hrest. reflexivity.
      * split; [discriminate|]. intros [H|[[H _]|(_ & sel' & ls' & E & Hin' & _)]]; [discriminate|discriminate|].
        exfalso. apply (find_none _ _ Ef) in Hin'. cbn [fst] in Hin'. rewrite String.eqb_refl in Hin'. discriminate.
    + split; [discriminate|]. intros [H|[[H _]|[H _]]]; injection H; congruence.
Qed.

Definition listener_admits_b (cl : cluster) (r : route) (p : parentref) (g : gateway) (l : listener) : bool :=
  listener_ok cl r g (p_section p) l.

Lemma protocol_spec r l : protocol_ok r l = true <-> protocol_admits r l.
Proof.
  unfold protocol_ok, protocol_admits. destruct (rt_tcp r).
  - rewrite negb_true_iff, !orb_false_iff, !String.eqb_neq. split; [tauto|]. intros H. specialize (H eq_refl). tauto.
  - split; [discriminate|reflexivity].
Qed.

Lemma listener_admits_spec cl r p g l :
  NoDup (map fst (c_namespaces cl)) -> rt_kind r = true_kind r ->
  (listener_admits_b cl r p g l = true <-> listener_admits cl r p g l).
Proof.
  intros Hnd Hk. unfold listener_admits_b, listener_ok, listener_admits, listener_allowed.
  rewrite !andb_true_iff, section_spec, protocol_spec, Hk. split.
  - intros [[Hs Hp] H]. split; [exact Hs|]. split; [exact Hp|]. destruct (l_allowed l) as [a|]; [|discriminate].
    apply andb_true_iff in H as [Hkind Hns].
    destruct (al_namespaces a) as [rn|] eqn:En; [|discriminate].
    exists a, rn. repeat split; auto; [apply kind_allowed_spec; exact Hkind|apply ns_allowed_spec; assumption].
  - intros [Hs [Hp (a & rn & Ea & En & Hkind & Hns)]]. split; [auto|]. rewrite Ea, En.
    apply andb_true_iff. split; [apply kind_allowed_spec; exact Hkind|apply ns_allowed_spec; assumption].
Qed.

Definition usable_b (cl : cluster) (r : route) (rule : rrule) : bool :=
  match backend_servers cl (rt_ns r) (r_backends rule) with Some _ => true | None => false end.

Definition admitted_b (cl : cluster) (a : attachment) : bool :=
  designates_b (at_route a) (at_parent a) (at_gateway a)
  && class_ours cl (at_gateway a)
  && listener_admits_b cl (at_route a) (at_parent a) (at_gateway a) (at_listener a)
  && usable_b cl (at_route a) (at_rule a).

Lemma admitted_spec cl a :
  wf_objects cl -> In (at_route a) (c_routes cl) ->
  (admitted_b cl a = true <-> admitted cl a).
Proof.
  intros (Hc & _ & Hn & _ & Hk) Hin. unfold admitted_b, admitted.
  rewrite !andb_true_iff, designates_spec, (class_ours_spec _ _ Hc),
    (listener_admits_spec _ _ _ _ _ Hn (Hk _ Hin)).
  unfold usable_b. destruct (backend_servers _ _ _); intuition congruence.
Qed.

(* ================================================================== route order keeps the routes *)

Lemma in_insert_route x r l : In r (insert_route x l) <-> r = x \/ In r l.
Proof.
  induction l as [|y t IH]; cbn [insert_route In]; [intuition|].
  destruct (route_lt x y); cbn [In]; [intuition|]. rewrite IH. intuition.
Qed.

Lemma in_sort_routes r l : In r (sort_routes l) <-> In r l.
Proof.
  unfold sort_routes. induction l as [|y t IH]; cbn [fold_right In]; [tauto|].
  rewrite in_insert_route, IH. intuition.
Qed.

Lemma in_http_routes cl r : In r (http_routes cl) <-> In r (c_routes cl) /\ rt_tcp r = false.
Proof.
  unfold http_routes. rewrite in_sort_routes, filter_In, negb_true_iff. tauto.
Qed.

(* ================================================================== backends created so far *)

Definition rule_id (r : route) (i : nat) : string :=
  backend_id (rt_ns r) (rt_name r) ((if rt_tcp r then "_tcprule" else "_rule") ++ nat_str i)%string.

Definition rule_pairs (cl : cluster) : list (route * (nat * rrule)) :=
  flat_map (fun r => map (fun ir => (r, ir)) (indexed 0 (rt_rules r))) (c_routes cl).

Lemma rule_ids_pairs cl :
  rule_ids cl = map (fun x : route * (nat * rrule) => rule_id (fst x) (fst (snd x))) (rule_pairs cl).
Proof.
  unfold rule_ids, rule_pairs. rewrite map_flat_map. apply flat_map_ext_in. intros r _.
  rewrite map_map. reflexivity.
Qed.

Lemma nodup_map_inj {A B} (f : A -> B) (l : list A) x y :
  NoDup (map f l) -> In x l -> In y l -> f x = f y -> x = y.
Proof.
  induction l as [|z t IH]; cbn [map]; intros Hnd Hx Hy E; [destruct Hx|].
  inversion Hnd as [|? ? Hni Hnt]; subst.
  destruct Hx as [->|Hx], Hy as [->|Hy]; auto.
  - exfalso. apply Hni. rewrite E. apply in_map. exact Hy.
  - exfalso. apply Hni. rewrite <- E. apply in_map. exact Hx.
Qed.

Lemma in_rule_pairs cl r ir :
  In (r, ir) (rule_pairs cl) <-> In r (c_routes cl) /\ In ir (indexed 0 (rt_rules r)).
Proof.
  unfold rule_pairs. rewrite in_flat_map. split.
  - intros (r' & Hr & Hin). apply in_map_iff in Hin as (ir' & E & Hin). injection E as -> ->. auto.
  - intros [Hr Hin]. exists r. split; [exact Hr|]. apply in_map. exact Hin.
Qed.

(* every backend of the state was built from the backendRefs of the rule it is named after *)
Definition backs_inv (cl : cluster) (st : gstate) : Prop :=
  forall id eps, In (id, eps) (st_backs st) ->
    exists r ir, In (r, ir) (rule_pairs cl) /\ id = rule_id r (fst ir) /\
                 backend_servers cl (rt_ns r) (r_backends (snd ir)) = Some eps.

Lemma has_key_exists {A} k (l : list (string * A)) : has_key k l = true -> exists v, In (k, v) l.
Proof.
  unfold has_key. rewrite existsb_exists. intros ([x v] & Hin & E). cbn [fst] in E.
  apply String.eqb_eq in E. subst. exists v. exact Hin.
Qed.

Lemma create_backend_spec cl r ir st :
  NoDup (rule_ids cl) -> In (r, ir) (rule_pairs cl) -> backs_inv cl st ->
  let '(st', ob) := create_backend cl r ((if rt_tcp r then "_tcprule" else "_rule") ++ nat_str (fst ir))%string
                                   (r_backends (snd ir)) st in
  st_paths st' = st_paths st /\ st_tcp st' = st_tcp st /\ backs_inv cl st' /\
  ob = if usable_b cl r (snd ir) then Some (rule_id r (fst ir)) else None.
Proof.
  intros Hnd Hin Hinv. unfold create_backend. fold (rule_id r (fst ir)).
  destruct (has_key (rule_id r (fst ir)) (st_backs st)) eqn:Ek.
  - apply has_key_exists in Ek as (eps & Heps).
    destruct (Hinv _ _ Heps) as (r' & ir' & Hin' & Eid & Hs).
    rewrite rule_ids_pairs in Hnd.
    assert (E : (r, ir) = (r', ir')) by (apply (nodup_map_inj _ _ _ _ Hnd Hin Hin'); exact Eid).
    injection E as <- <-. unfold usable_b. rewrite Hs. auto.
  - unfold usable_b. destruct (backend_servers cl (rt_ns r) (r_backends (snd ir))) as [eps|] eqn:Es.
    + cbn [st_paths st_tcp st_backs]. repeat split; auto.
      intros id eps' Hi. apply in_app_or in Hi as [Hi|[E|[]]]; [apply Hinv; exact Hi|].
      injection E as <- <-. exists r, ir. auto.
    + auto.
Qed.

Lemma fold_add_path bid links : forall st,
  st_paths (fold_left (add_path bid) links st) =
    fold_left add_kv (map (fun k => (k, bid)) links) (st_paths st) /\
  st_backs (fold_left (add_path bid) links st) = st_backs st /\
  st_tcp (fold_left (add_path bid) links st) = st_tcp st.
Proof.
  induction links as [|k t IH]; cbn [fold_left map]; intros st; [auto|].
  destruct (IH (add_path bid st k)) as (H1 & H2 & H3). rewrite H1, H2, H3.
  unfold add_path, add_kv. cbn [fst]. destruct (has_key k (st_paths st)); cbn [st_paths st_backs st_tcp]; auto.
Qed.

(* the links produced by one rule on one admitted listener *)
Definition links_of (cl : cluster) (r : route) (l : listener) (ir : nat * rrule) : list (string * string) :=
  if usable_b cl r (snd ir) then map (fun k => (k, rule_id r (fst ir))) (rule_links l r (snd ir)) else [].

Lemma sync_rule_http cl r l ir st :
  NoDup (rule_ids cl) -> rt_tcp r = false -> In (r, ir) (rule_pairs cl) -> backs_inv cl st ->
  st_paths (sync_rule cl r l st ir) = fold_left add_kv (links_of cl r l ir) (st_paths st) /\
  backs_inv cl (sync_rule cl r l st ir).
Proof.
  intros Hnd Ht Hin Hinv. pose proof (create_backend_spec cl r ir st Hnd Hin Hinv) as H.
  unfold sync_rule, links_of. destruct ir as [i rule]. cbn [fst snd] in *. rewrite Ht in *.
  destruct (create_backend cl r ("_rule" ++ nat_str i)%string (r_backends rule) st) as [st1 ob].
  destruct H as (Hp & _ & Hi & Hob). subst ob. destruct (usable_b cl r rule).
  - destruct (fold_add_path (rule_id r i) (rule_links l r rule) st1) as (H1 & H2 & _).
    rewrite H1, Hp. split; [reflexivity|]. unfold backs_inv. rewrite H2. exact Hi.
  - cbn [fold_left]. auto.
Qed.

(* a level of nested loops: if each element acts on the paths as first-wins insertion of its
   links and keeps the invariant, so does the whole loop *)
Lemma fold_level {A} (inv : gstate -> Prop) (f : gstate -> A -> gstate) (links : A -> list (string * string)) (l : list A) :
  (forall x st, In x l -> inv st ->
     st_paths (f st x) = fold_left add_kv (links x) (st_paths st) /\ inv (f st x)) ->
  forall st, inv st ->
    st_paths (fold_left f l st) = fold_left add_kv (flat_map links l) (st_paths st) /\
    inv (fold_left f l st).
Proof.
  induction l as [|x t IH]; cbn [fold_left flat_map]; intros H st Hi; [auto|].
  destruct (H x st (or_introl eq_refl) Hi) as [H1 H2].
  destruct (IH (fun y s Hy => H y s (or_intror Hy)) _ H2) as [H3 H4].
  rewrite H3, H1, fold_left_app. auto.
Qed.

Definition links_listener (cl : cluster) (r : route) (p : parentref) (g : gateway) (l : listener) :=
  if listener_admits_b cl r p g l then flat_map (links_of cl r l) (indexed 0 (rt_rules r)) else [].

Definition links_parent (cl : cluster) (r : route) (p : parentref) :=
  if parent_is_gateway p then
    match get_gateway cl (parent_ns r p) (p_name p) with
    | Some g => flat_map (links_listener cl r p g) (g_listeners g)
    | None => []
    end
  else [].

Definition links_route (cl : cluster) (r : route) := flat_map (links_parent cl r) (rt_parents r).

Lemma sync_route_http cl r st :
  NoDup (rule_ids cl) -> rt_tcp r = false -> In r (c_routes cl) -> backs_inv cl st ->
  st_paths (sync_route cl st r) = fold_left add_kv (links_route cl r) (st_paths st) /\
  backs_inv cl (sync_route cl st r).
Proof.
  intros Hnd Ht Hr Hinv. unfold sync_route, links_route.
  apply (fold_level (backs_inv cl)); [|exact Hinv].
  intros p st0 _ Hi0. unfold sync_parent, links_parent.
  destruct (parent_is_gateway p); [|cbn [fold_left]; auto].
  destruct (get_gateway cl (parent_ns r p) (p_name p)) as [g|]; [|cbn [fold_left]; auto].
  apply (fold_level (backs_inv cl)); [|exact Hi0].
  intros l st1 _ Hi1. unfold sync_listener, links_listener, listener_admits_b.
  destruct (listener_ok cl r g (p_section p) l); [|cbn [fold_left]; auto].
  apply (fold_level (backs_inv cl)); [|exact Hi1].
  intros ir st2 Hir Hi2. apply sync_rule_http; auto.
  apply in_rule_pairs. auto.
Qed.

Lemma backs_inv_empty cl : backs_inv cl empty_state.
Proof. intros id eps []. Qed.

Lemma http_phase cl :
  NoDup (rule_ids cl) ->
  st_paths (fold_left (sync_route cl) (http_routes cl) empty_state) =
    first_wins (flat_map (links_route cl) (http_routes cl)) /\
  backs_inv cl (fold_left (sync_route cl) (http_routes cl) empty_state).
Proof.
  intros Hnd. unfold first_wins. change (@nil (string * string)) with (st_paths empty_state).
  apply (fold_level (backs_inv cl)); [|apply backs_inv_empty].
  intros r st Hr Hi. apply in_http_routes in Hr as [Hr Ht]. apply sync_route_http; auto.
Qed.

(* ================================================================== TCP routes leave the host paths alone *)

Lemma create_backend_paths cl r idx refs st :
  st_paths (fst (create_backend cl r idx refs st)) = st_paths st.
Proof.
  unfold create_backend. destruct (has_key _ _); [reflexivity|].
  destruct (backend_servers _ _ _); reflexivity.
Qed.

Lemma sync_route_tcp_paths cl r st : rt_tcp r = true -> st_paths (sync_route cl st r) = st_paths st.
Proof.
  intros Ht. unfold sync_route.
  assert (Hrule : forall l st ir, st_paths (sync_rule cl r l st ir) = st_paths st).
  { intros l st0 [i rule]. unfold sync_rule. rewrite Ht.
    pose proof (create_backend_paths cl r ("_tcprule" ++ nat_str i)%string (r_backends rule) st0) as H.
    destruct (create_backend cl r _ _ st0) as [st1 [bid|]]; cbn [fst] in H; [|exact H].
    unfold add_tcp. destruct (existsb _ _); cbn [st_paths]; exact H. }
  assert (Hrules : forall l rules st, st_paths (fold_left (sync_rule cl r l) rules st) = st_paths st).
  { intros l rules. induction rules as [|ir t IH]; cbn [fold_left]; intros st0; [reflexivity|].
    rewrite IH. apply Hrule. }
  assert (Hlis : forall g sec ls st, st_paths (fold_left (sync_listener cl r g sec) ls st) = st_paths st).
  { intros g sec ls. induction ls as [|l t IH]; cbn [fold_left]; intros st0; [reflexivity|].
    rewrite IH. unfold sync_listener. destruct (listener_ok _ _ _ _ _); [apply Hrules|reflexivity]. }
  induction (rt_parents r) as [|p t IH] in st |- *; cbn [fold_left]; [reflexivity|].
  rewrite IH. unfold sync_parent. destruct (parent_is_gateway p); [|reflexivity].
  destruct (get_gateway _ _ _); [apply Hlis|reflexivity].
Qed.

Lemma tcp_phase_paths cl l : forall st,
  (forall r, In r l -> rt_tcp r = true) -> st_paths (fold_left (sync_route cl) l st) = st_paths st.
Proof.
  induction l as [|r t IH]; cbn [fold_left]; intros st H; [reflexivity|].
  rewrite IH by (intros x Hx; apply H; right; exact Hx).
  apply sync_route_tcp_paths. apply H. left. reflexivity.
Qed.

Lemma impl_paths cl :
  NoDup (rule_ids cl) ->
  st_paths (attach_impl cl) = first_wins (flat_map (links_route cl) (http_routes cl)).
Proof.
  intros Hnd. unfold attach_impl. rewrite tcp_phase_paths.
  - apply (http_phase cl Hnd).
  - intros r Hr. apply (proj1 (in_sort_routes _ _)) in Hr. apply filter_In in Hr as [_ Ht]. exact Ht.
Qed.

(* ================================================================== the loops enumerate the admitted combinations *)

Definition at_kv (a : attachment) : string * string := (at_key a, at_owner a).

Lemma flat_map_all_nil {A B} (f : A -> list B) (l : list A) :
  (forall x, In x l -> f x = []) -> flat_map f l = [].
Proof.
  induction l as [|x t IH]; cbn [flat_map]; intros H; [reflexivity|].
  rewrite H by (left; reflexivity). apply IH. intros y Hy. apply H. right. exact Hy.
Qed.

Lemma flat_map_find_unique {A B} (key : A -> bool) (c : A -> bool) (Y : A -> list B) (kf : A -> string * string) (l : list A) :
  NoDup (map kf l) ->
  (forall x y, In x l -> In y l -> key x = true -> key y = true -> kf x = kf y) ->
  flat_map (fun x => if key x && c x then Y x else []) l =
  match find key l with Some x => if c x then Y x else [] | None => [] end.
Proof.
  induction l as [|x t IH]; cbn [flat_map find map]; intros Hnd Hk; [reflexivity|].
  inversion Hnd as [|? ? Hni Hnt]; subst.
  destruct (key x) eqn:Ex; cbn [andb].
  - assert (Hrest : flat_map (fun y => if key y && c y then Y y else []) t = []).
    { apply flat_map_all_nil. intros y Hy.
      destruct (key y) eqn:Ey; [|reflexivity]. exfalso. apply Hni.
      rewrite (Hk x y (or_introl eq_refl) (or_intror Hy) Ex Ey). apply in_map. exact Hy. }
    rewrite Hrest, app_nil_r. reflexivity.
  - apply IH; [exact Hnt|]. intros a b Ha Hb. apply Hk; right; assumption.
Qed.

Lemma rule_links_combos r p g l (ir : nat * rrule) :
  map at_kv
    (flat_map (fun m =>
       map (fun h => {| at_route := r; at_parent := p; at_gateway := g; at_listener := l;
                        at_index := fst ir; at_rule := snd ir; at_match := m; at_hostname := h |})
           (filter_hostnames l r))
       (matches_or_default (r_matches (snd ir)))) =
  map (fun k => (k, backend_id (rt_ns r) (rt_name r) ("_rule" ++ nat_str (fst ir))%string))
      (rule_links l r (snd ir)).
Proof.
  unfold rule_links. rewrite !map_flat_map. apply flat_map_ext_in. intros m _.
  rewrite !map_map. reflexivity.
Qed.

Lemma combos_of_route cl r :
  NoDup (map (fun g => (g_ns g, g_name g)) (c_gateways cl)) -> rt_tcp r = false ->
  map at_kv (filter (admitted_b cl)
    (flat_map (fun p =>
      flat_map (fun g =>
        flat_map (fun l =>
          flat_map (fun ir : nat * rrule =>
            flat_map (fun m =>
              map (fun h => {| at_route := r; at_parent := p; at_gateway := g; at_listener := l;
                               at_index := fst ir; at_rule := snd ir; at_match := m; at_hostname := h |})
                  (filter_hostnames l r))
              (matches_or_default (r_matches (snd ir))))
            (indexed 0 (rt_rules r)))
          (g_listeners g))
        (c_gateways cl))
      (rt_parents r))) = links_route cl r.
Proof.
  intros Hnd Ht. unfold links_route.
  rewrite filter_flat_map, map_flat_map. apply flat_map_ext_in. intros p _.
  rewrite filter_flat_map, map_flat_map.
  (* per gateway *)
  assert (Hg : forall g,
    map at_kv (filter (admitted_b cl)
      (flat_map (fun l =>
         flat_map (fun ir : nat * rrule =>
           flat_map (fun m =>
             map (fun h => {| at_route := r; at_parent := p; at_gateway := g; at_listener := l;
                              at_index := fst ir; at_rule := snd ir; at_match := m; at_hostname := h |})
                 (filter_hostnames l r))
             (matches_or_default (r_matches (snd ir))))
           (indexed 0 (rt_rules r)))
         (g_listeners g))) =
    if designates_b r p g && class_ours cl g
    then flat_map (links_listener cl r p g) (g_listeners g) else []).
  { intros g. rewrite filter_flat_map, map_flat_map.
    rewrite <- flat_map_if. apply flat_map_ext_in. intros l _.
    rewrite filter_flat_map, map_flat_map. unfold links_listener.
    transitivity (flat_map (fun ir : nat * rrule =>
        if designates_b r p g && class_ours cl g && listener_admits_b cl r p g l
        then links_of cl r l ir else []) (indexed 0 (rt_rules r))).
    - apply flat_map_ext_in. intros ir _.
      rewrite (filter_const _ (designates_b r p g && class_ours cl g && listener_admits_b cl r p g l
                               && usable_b cl r (snd ir))).
      + unfold links_of, rule_id. rewrite Ht.
        destruct (designates_b r p g && class_ours cl g && listener_admits_b cl r p g l); cbn [andb];
          [|reflexivity].
        destruct (usable_b cl r (snd ir)); [apply rule_links_combos|reflexivity].
      + intros a Ha. apply in_flat_map in Ha as (m & _ & Ha). apply in_map_iff in Ha as (h & <- & _).
        reflexivity.
    - rewrite flat_map_if.
      destruct (designates_b r p g && class_ours cl g), (listener_admits_b cl r p g l); reflexivity. }
  rewrite (flat_map_ext_in _ _ _ (fun g _ => Hg g)).
  unfold links_parent, designates_b.
  destruct (parent_is_gateway p); cbn [andb]; [|apply flat_map_nil].
  unfold get_gateway.
  rewrite (flat_map_find_unique
             (fun g => String.eqb (g_ns g) (parent_ns r p) && String.eqb (g_name g) (p_name p))
             (class_ours cl) _ (fun g => (g_ns g, g_name g)) (c_gateways cl) Hnd).
  - destruct (find _ (c_gateways cl)) as [g|]; [|reflexivity]. destruct (class_ours cl g); reflexivity.
  - intros x y _ _ Hx Hy. apply andb_true_iff in Hx as [Hx1 Hx2], Hy as [Hy1 Hy2].
    apply String.eqb_eq in Hx1, Hx2, Hy1, Hy2. congruence.
Qed.

Lemma links_are_admitted_combos cl :
  NoDup (map (fun g => (g_ns g, g_name g)) (c_gateways cl)) ->
  flat_map (links_route cl) (http_routes cl) = map at_kv (filter (admitted_b cl) (combinations cl)).
Proof.
  intros Hnd. unfold combinations. rewrite filter_flat_map, map_flat_map.
  apply flat_map_ext_in. intros r Hr. apply in_http_routes in Hr as [_ Ht].
  symmetry. apply combos_of_route; assumption.
Qed.

(* the converter's host paths are the admitted combinations, first declaration of a key winning *)
Lemma impl_is_spec cl :
  wf_objects cl ->
  st_paths (attach_impl cl) = first_wins (map at_kv (filter (admitted_b cl) (combinations cl))).
Proof.
  intros (_ & Hg & _ & Hid & _). rewrite impl_paths by exact Hid.
  rewrite links_are_admitted_combos by exact Hg. reflexivity.
Qed.

(* ================================================================== main theorems *)

Lemma split_map_filter {A B} (f : A -> B) (p : A -> bool) (C : list A) : forall l1 y l2,
  map f (filter p C) = l1 ++ y :: l2 ->
  exists c1 a c2, C = c1 ++ a :: c2 /\ p a = true /\ f a = y /\
                  map f (filter p c1) = l1 /\ map f (filter p c2) = l2.
Proof.
  induction C as [|x t IH]; cbn [filter map]; intros l1 y l2 E; [destruct l1; discriminate|].
  destruct (p x) eqn:Ep.
  - cbn [map] in E. destruct l1 as [|z l1]; cbn [app] in E.
    + injection E as E1 E2. exists [], x, t. cbn [filter map app]. auto.
    + injection E as E1 E2. destruct (IH _ _ _ E2) as (c1 & a & c2 & -> & Ha & Hf & H1 & H2).
      exists (x :: c1), a, c2. cbn [filter map app]. rewrite Ep. cbn [map]. rewrite H1, E1. auto.
  - destruct (IH _ _ _ E) as (c1 & a & c2 & -> & Ha & Hf & H1 & H2).
    exists (x :: c1), a, c2. cbn [filter app]. rewrite Ep. auto.
Qed.

Lemma first_occurrence (k : string) (L : list (string * string)) :
  In k (map fst L) -> exists v l1 l2, L = l1 ++ (k, v) :: l2 /\ ~ In k (map fst l1).
Proof.
  induction L as [|[k0 v0] t IH]; cbn [map fst In]; [intros []|].
  destruct (string_dec k0 k) as [->|Hne].
  - intros _. exists v0, [], t. split; [reflexivity|intros []].
  - intros [E|Hin]; [contradiction|]. destruct (IH Hin) as (v & l1 & l2 & -> & Hni).
    exists v, ((k0, v0) :: l1), l2. split; [reflexivity|]. cbn [map fst In]. intros [E|H]; auto.
Qed.

Lemma first_wins_spec L k v :
  In (k, v) (first_wins L) <-> exists l1 l2, L = l1 ++ (k, v) :: l2 /\ ~ In k (map fst l1).
Proof.
  unfold first_wins. destruct (fold_add_kv_spec L [] (NoDup_nil _)) as [_ H]. rewrite H.
  cbn [map In]. split.
  - intros [[]|(_ & l1 & l2 & E & Hn)]. exists l1, l2. auto.
  - intros (l1 & l2 & E & Hn). right. split; [tauto|]. exists l1, l2. auto.
Qed.

Lemma first_wins_nodup L : NoDup (map fst (first_wins L)).
Proof. unfold first_wins. apply (fold_add_kv_spec L [] (NoDup_nil _)). Qed.

Lemma combination_route cl a :
  In a (combinations cl) -> In (at_route a) (c_routes cl) /\ rt_tcp (at_route a) = false.
Proof.
  unfold combinations. intros H.
  apply in_flat_map in H as (r & Hr & H). apply in_flat_map in H as (p & _ & H).
  apply in_flat_map in H as (g & _ & H). apply in_flat_map in H as (l & _ & H).
  apply in_flat_map in H as (ir & _ & H). apply in_flat_map in H as (m & _ & H).
  apply in_map_iff in H as (h & <- & _). cbn [at_route]. apply in_http_routes. exact Hr.
Qed.

(* nothing is produced for a combination that is not admitted: every host/path rule of the
   configuration comes from an admitted combination, the first one with that key *)
Lemma attach_sound cl k b :
  wf_objects cl -> In (k, b) (st_paths (attach_impl cl)) ->
  exists a before after,
    combinations cl = before ++ a :: after /\
    admitted cl a /\ at_key a = k /\ at_owner a = b /\
    (forall a', In a' before -> admitted cl a' -> at_key a' <> k).
Proof.
  intros Hwf Hin. rewrite (impl_is_spec cl Hwf) in Hin.
  apply first_wins_spec in Hin as (l1 & l2 & E & Hni).
  apply split_map_filter in E as (c1 & a & c2 & Ec & Ha & Hkv & H1 & _).
  assert (Hra : In a (combinations cl)) by (rewrite Ec; apply in_or_app; right; left; reflexivity).
  exists a, c1, c2. split; [exact Ec|]. injection Hkv as Hk Hb.
  split; [apply admitted_spec; [exact Hwf|apply (combination_route cl a Hra)|exact Ha]|].
  split; [exact Hk|]. split; [exact Hb|].
  intros a' Ha' Hadm Hk'. apply Hni. rewrite <- H1, map_map.
  apply in_map_iff. exists a'. split; [exact Hk'|]. apply filter_In. split; [exact Ha'|].
  apply admitted_spec; [exact Hwf| |exact Hadm].
  apply (combination_route cl a'). rewrite Ec. apply in_or_app. left. exact Ha'.
Qed.

(* every admitted combination yields its host/path rule, and each key appears once *)
Lemma attach_complete cl a :
  wf_objects cl -> In a (combinations cl) -> admitted cl a ->
  exists b, In (at_key a, b) (st_paths (attach_impl cl)).
Proof.
  intros Hwf Hin Hadm. rewrite (impl_is_spec cl Hwf).
  assert (Hk : In (at_key a) (map fst (map at_kv (filter (admitted_b cl) (combinations cl))))).
  { rewrite map_map. apply in_map_iff. exists a. split; [reflexivity|]. apply filter_In. split; [exact Hin|].
    apply admitted_spec; [exact Hwf|apply (combination_route cl a Hin)|exact Hadm]. }
  apply first_occurrence in Hk as (v & l1 & l2 & E & Hni).
  exists v. apply first_wins_spec. exists l1, l2. auto.
Qed.

Lemma attach_keys_unique cl : wf_objects cl -> NoDup (map fst (st_paths (attach_impl cl))).
Proof. intros Hwf. rewrite (impl_is_spec cl Hwf). apply first_wins_nodup. Qed.

(* `combinations` misses no tuple *)
Lemma in_indexed {A} (l : list A) : forall k i x,
  In (i, x) (indexed k l) <-> (k <= i)%nat /\ nth_error l (i - k) = Some x.
Proof.
  induction l as [|y t IH]; cbn [indexed In]; intros k i x.
  - split; [intros []|]. intros [_ H]. destruct (i - k)%nat; discriminate.
  - rewrite IH. split.
    + intros [E|[Hle Hn]].
      * injection E as <- <-. rewrite Nat.sub_diag. split; [lia|reflexivity].
      * split; [lia|]. replace (i - k)%nat with (S (i - S k)) by lia. exact Hn.
    + intros [Hle Hn]. destruct (Nat.eq_dec i k) as [->|Hne].
      * rewrite Nat.sub_diag in Hn. cbn in Hn. injection Hn as <-. left. reflexivity.
      * right. split; [lia|]. replace (i - k)%nat with (S (i - S k)) in Hn by lia. exact Hn.
Qed.

Lemma combinations_exhaustive cl a :
  In a (combinations cl) <->
  In (at_route a) (c_routes cl) /\ rt_tcp (at_route a) = false /\
  In (at_parent a) (rt_parents (at_route a)) /\
  In (at_gateway a) (c_gateways cl) /\
  In (at_listener a) (g_listeners (at_gateway a)) /\
  nth_error (rt_rules (at_route a)) (at_index a) = Some (at_rule a) /\
  In (at_match a) (matches_or_default (r_matches (at_rule a))) /\
  In (at_hostname a) (filter_hostnames (at_listener a) (at_route a)).
Proof.
  unfold combinations. split.
  - intros H.
    apply in_flat_map in H as (r & Hr & H). apply in_flat_map in H as (p & Hp & H).
    apply in_flat_map in H as (g & Hg & H). apply in_flat_map in H as (l & Hl & H).
    apply in_flat_map in H as ([i rule] & Hir & H). apply in_flat_map in H as (m & Hm & H).
    apply in_map_iff in H as (h & <- & Hh). cbn [at_route at_parent at_gateway at_listener at_index at_rule at_match at_hostname fst snd] in *.
    apply in_http_routes in Hr as [Hr Ht]. apply in_indexed in Hir as [_ Hn]. rewrite Nat.sub_0_r in Hn.
    repeat split; assumption.
  - destruct a as [r p g l i rule m h]. cbn [at_route at_parent at_gateway at_listener at_index at_rule at_match at_hostname].
    intros (Hr & Ht & Hp & Hg & Hl & Hn & Hm & Hh).
    apply in_flat_map. exists r. split; [apply in_http_routes; auto|].
    apply in_flat_map. exists p. split; [exact Hp|].
    apply in_flat_map. exists g. split; [exact Hg|].
    apply in_flat_map. exists l. split; [exact Hl|].
    apply in_flat_map. exists (i, rule). split; [apply in_indexed; rewrite Nat.sub_0_r; split; [lia|exact Hn]|].
    apply in_flat_map. exists m. split; [exact Hm|]. cbn [fst snd].
    apply in_map_iff. exists h. auto.
Qed.

(* ================================================================== backends *)

Lemma fold_inv_only {A} (inv : gstate -> Prop) (f : gstate -> A -> gstate) (l : list A) :
  (forall x st, In x l -> inv st -> inv (f st x)) -> forall st, inv st -> inv (fold_left f l st).
Proof.
  induction l as [|x t IH]; cbn [fold_left]; intros H st Hi; [exact Hi|].
  apply IH; [intros y s Hy; apply H; right; exact Hy|]. apply H; [left; reflexivity|exact Hi].
Qed.

Lemma sync_rule_inv cl r l ir st :
  NoDup (rule_ids cl) -> In (r, ir) (rule_pairs cl) -> backs_inv cl st -> backs_inv cl (sync_rule cl r l st ir).
Proof.
  intros Hnd Hin Hinv. pose proof (create_backend_spec cl r ir st Hnd Hin Hinv) as H.
  unfold sync_rule. destruct ir as [i rule]. cbn [fst snd] in *. destruct (rt_tcp r).
  - destruct (create_backend cl r ("_tcprule" ++ nat_str i)%string (r_backends rule) st) as [st1 ob].
    destruct H as (_ & _ & Hi & _). destruct ob as [bid|]; [|exact Hi].
    unfold add_tcp. destruct (existsb _ _); [exact Hi|]. exact Hi.
  - destruct (create_backend cl r ("_rule" ++ nat_str i)%string (r_backends rule) st) as [st1 ob].
    destruct H as (_ & _ & Hi & _). destruct ob as [bid|]; [|exact Hi].
    unfold backs_inv. destruct (fold_add_path bid (rule_links l r rule) st1) as (_ & H2 & _).
    rewrite H2. exact Hi.
Qed.

Lemma sync_route_inv cl r st :
  NoDup (rule_ids cl) -> In r (c_routes cl) -> backs_inv cl st -> backs_inv cl (sync_route cl st r).
Proof.
  intros Hnd Hr. unfold sync_route. apply fold_inv_only. intros p st0 _ Hi0. unfold sync_parent.
  destruct (parent_is_gateway p); [|exact Hi0].
  destruct (get_gateway _ _ _) as [g|]; [|exact Hi0].
  revert st0 Hi0. apply fold_inv_only. intros l st1 _ Hi1. unfold sync_listener.
  destruct (listener_ok _ _ _ _ _); [|exact Hi1]. revert st1 Hi1. apply fold_inv_only.
  intros ir st2 Hir Hi2. apply sync_rule_inv; auto. apply in_rule_pairs. auto.
Qed.

(* every backend of the configuration is named after a rule of a listed route and holds the
   weighted servers of that rule's backendRefs *)
Lemma backends_from_rules cl id eps :
  wf_objects cl -> In (id, eps) (st_backs (attach_impl cl)) ->
  exists r i rule, In r (c_routes cl) /\ nth_error (rt_rules r) i = Some rule /\
    id = rule_id r i /\ backend_servers cl (rt_ns r) (r_backends rule) = Some eps.
Proof.
  intros (_ & _ & _ & Hnd & _) Hin.
  assert (Hinv : backs_inv cl (attach_impl cl)).
  { unfold attach_impl. apply fold_inv_only.
    - intros r st Hr. apply (proj1 (in_sort_routes _ _)) in Hr. apply filter_In in Hr as [Hr _].
      apply sync_route_inv; assumption.
    - apply fold_inv_only; [|apply backs_inv_empty].
      intros r st Hr. apply (proj1 (in_sort_routes _ _)) in Hr. apply filter_In in Hr as [Hr _].
      apply sync_route_inv; assumption. }
  destruct (Hinv _ _ Hin) as (r & [i rule] & Hp & Hid & Hs). cbn [fst snd] in *.
  apply in_rule_pairs in Hp as [Hr Hir]. apply in_indexed in Hir as [_ Hn]. rewrite Nat.sub_0_r in Hn.
  exists r, i, rule. auto.
Qed.

(* ================================================================== weights: through the C16 theorems *)


Lemma in_keep_some {A} (l : list (option A)) x : In x (keep_some l) <-> In (Some x) l.
Proof.
  induction l as [|[y|] t IH]; cbn [keep_some In]; [tauto| |].
  - rewrite IH. split; [intros [->|H]; auto|intros [E|H]; [injection E; auto|auto]].
  - rewrite IH. split; [auto|intros [E|H]; [discriminate|exact H]].
Qed.

Lemma in_combine_map_l {A B C} (f : A -> C) (us : list A) : forall (ws : list B) u w,
  In (u, w) (combine us ws) -> In (f u, w) (combine (map f us) ws).
Proof.
  induction us as [|x t IH]; cbn [combine map]; intros ws u w H; [destruct H|].
  destruct ws as [|y ws]; [destruct H|]. cbn [combine In] in *.
  destruct H as [E|H]; [injection E as -> ->; left; reflexivity|right; apply IH; exact H].
Qed.

(* the servers of a backend: each comes from a usable backendRef of the rule and carries the
   weight that the C16 model gives to that ref (base 128); with configured weights within
   0..256 it lies in 0..256 and is zero exactly when the configured weight is zero *)
Lemma backend_servers_weights cl ns refs eps :
  backend_servers cl ns refs = Some eps ->
  (forall u, In (Some u) (map (usable_ref cl ns) refs) -> (0 <= fst u <= 256)%Z) ->
  forall ip port w, In (ip, port, w) eps ->
    exists u, In (Some u) (map (usable_ref cl ns) refs) /\ In (ip, port) (snd u) /\
              (0 <= w <= 256)%Z /\ (w = 0%Z <-> fst u = 0%Z).
Proof.
  unfold backend_servers. set (us := keep_some (map (usable_ref cl ns) refs)).
  set (mk := fun u : Z * list (string * Z) => {| cw := fst u; clen := Z.of_nat (List.length (snd u)) |}).
  intros Hs Hw ip port w Hin.
  assert (Heps : eps = flat_map (fun uw : (Z * list (string * Z)) * Z =>
                        map (fun a : string * Z => (fst a, snd a, snd uw)) (snd (fst uw)))
                     (combine us (rebalance (map mk us) 128))).
  { destruct us; [discriminate|]. injection Hs as <-. reflexivity. }
  subst eps. apply in_flat_map in Hin as ([u w'] & Hc & Hin). cbn [fst snd] in Hin.
  apply in_map_iff in Hin as ([ip' port'] & E & Ha). cbn [fst snd] in E. injection E as -> -> ->.
  assert (Hu : In (Some u) (map (usable_ref cl ns) refs)).
  { apply in_keep_some. apply in_combine_l in Hc. exact Hc. }
  exists u. split; [exact Hu|]. split; [exact Ha|].
  assert (Hwf : wf_input (map mk us) 128).
  { split; [|lia]. intros c Hcin. apply in_map_iff in Hcin as (u0 & <- & Hu0). unfold mk. cbn [cw clen].
    split; [apply Hw; apply in_keep_some; exact Hu0|lia]. }
  assert (Hcm : In (mk u, w) (combine (map mk us) (rebalance (map mk us) 128)))
    by (apply in_combine_map_l; exact Hc).
  assert (Hlen : (0 < clen (mk u))%Z).
  { unfold mk. cbn [clen]. destruct (snd u); [destruct Ha|cbn [List.length]; lia]. }
  split.
  - exact (rebalance_range _ _ Hwf _ _ Hcm Hlen).
  - exact (rebalance_zero_iff _ _ Hwf _ _ Hcm Hlen).
Qed.

(* ================================================================== TCP services: same shape, keyed by port *)

Section FirstWinsG.
  Context {K : Type} (keqb : K -> K -> bool) (keqb_eq : forall a b, keqb a b = true <-> a = b).

  Definition has_k (k : K) (l : list (K * string)) : bool := existsb (fun e => keqb (fst e) k) l.
  Definition add_kv_g (ps : list (K * string)) (kv : K * string) : list (K * string) :=
    if has_k (fst kv) ps then ps else ps ++ [kv].
  Definition first_wins_g (l : list (K * string)) : list (K * string) := fold_left add_kv_g l [].

  Lemma has_k_in k l : has_k k l = true <-> In k (map fst l).
  Proof.
    unfold has_k. rewrite existsb_exists. split.
    - intros ([x v] & Hin & E). cbn [fst] in E. apply keqb_eq in E. subst.
      change k with (fst (k, v)). apply in_map. exact Hin.
    - intros H. apply in_map_iff in H as ([x v] & E & Hin). cbn [fst] in E. subst.
      exists (k, v). split; [exact Hin|apply keqb_eq; reflexivity].
  Qed.

  Lemma fold_add_kv_g_spec l : forall acc,
    NoDup (map fst acc) ->
    NoDup (map fst (fold_left add_kv_g l acc)) /\
    (forall k v, In (k, v) (fold_left add_kv_g l acc) <->
       In (k, v) acc \/
       (~ In k (map fst acc) /\ exists l1 l2, l = l1 ++ (k, v) :: l2 /\ ~ In k (map fst l1))).
  Proof.
    induction l as [|[k0 v0] t IH]; cbn [fold_left]; intros acc Hnd.
    - split; [exact Hnd|]. intros k v. split; [auto|]. intros [H|(_ & l1 & l2 & E & _)]; [exact H|].
      destruct l1; discriminate.
    - assert (Hstep : add_kv_g acc (k0, v0) = if has_k k0 acc then acc else acc ++ [(k0, v0)]) by reflexivity.
      rewrite Hstep. clear Hstep. destruct (has_k k0 acc) eqn:Ek.
      + apply has_k_in in Ek. destruct (IH acc Hnd) as [H1 H2]. split; [exact H1|].
        intros k v. rewrite H2. split.
        * intros [H|(Hn & l1 & l2 & E & Hl)]; [left; exact H|]. right. split; [exact Hn|].
          exists ((k0, v0) :: l1), l2. split; [rewrite E; reflexivity|].
          cbn [map fst]. intros [E0|Hin]; [subst; contradiction|contradiction].
        * intros [H|(Hn & l1 & l2 & E & Hl)]; [left; exact H|]. right. split; [exact Hn|].
          destruct l1 as [|[k1 v1] l1]; cbn [app] in E.
          -- injection E as -> -> ->. contradiction.
          -- injection E as -> -> ->. exists l1, l2. split; [reflexivity|].
             intros Hin. apply Hl. right. exact Hin.
      + assert (Hni : ~ In k0 (map fst acc)).
        { intros Hin. apply has_k_in in Hin. congruence. }
        assert (Hnd' : NoDup (map fst (acc ++ [(k0, v0)]))).
        { rewrite map_app. cbn [map fst]. apply nodup_snoc; assumption. }
        destruct (IH _ Hnd') as [H1 H2]. split; [exact H1|].
        intros k v. rewrite H2. rewrite in_app_iff. cbn [In]. rewrite map_app, in_app_iff. cbn [map fst In]. split.
        * intros [[H|[E|[]]]|(Hn & l1 & l2 & E & Hl)].
          -- left. exact H.
          -- injection E as <- <-. right. split; [exact Hni|]. exists [], t. split; [reflexivity|intros []].
          -- right. split; [tauto|]. exists ((k0, v0) :: l1), l2. split; [rewrite E; reflexivity|].
             cbn [map fst]. intros [E0|Hin]; [subst; tauto|contradiction].
        * intros [H|(Hn & l1 & l2 & E & Hl)]; [left; left; exact H|].
          destruct l1 as [|[k1 v1] l1]; cbn [app] in E.
          -- injection E as -> -> ->. left. right. left. reflexivity.
          -- injection E as -> -> ->. right. split.
             ++ intros [Hin|[E0|[]]]; [contradiction|]. subst. apply Hl. left. reflexivity.
             ++ exists l1, l2. split; [reflexivity|]. intros Hin. apply Hl. right. exact Hin.
  Qed.

  Lemma first_wins_g_spec L k v :
    In (k, v) (first_wins_g L) <-> exists l1 l2, L = l1 ++ (k, v) :: l2 /\ ~ In k (map fst l1).
  Proof.
    unfold first_wins_g. destruct (fold_add_kv_g_spec L [] (NoDup_nil _)) as [_ H]. rewrite H.
    cbn [map In]. split.
    - intros [[]|(_ & l1 & l2 & E & Hn)]. exists l1, l2. auto.
    - intros (l1 & l2 & E & Hn). right. split; [tauto|]. exists l1, l2. auto.
  Qed.

  Lemma first_wins_g_nodup L : NoDup (map fst (first_wins_g L)).
  Proof. unfold first_wins_g. apply (fold_add_kv_g_spec L [] (NoDup_nil _)). Qed.

  Lemma first_occurrence_g (k : K) (L : list (K * string)) :
    In k (map fst L) -> exists v l1 l2, L = l1 ++ (k, v) :: l2 /\ ~ In k (map fst l1).
  Proof.
    induction L as [|[k0 v0] t IH]; cbn [map fst In]; [intros []|].
    destruct (keqb k0 k) eqn:E0.
    - apply keqb_eq in E0. subst. intros _. exists v0, [], t. split; [reflexivity|intros []].
    - assert (Hne : k0 <> k) by (intros ->; rewrite (proj2 (keqb_eq k k) eq_refl) in E0; discriminate).
      intros [E|Hin]; [contradiction|]. destruct (IH Hin) as (v & l1 & l2 & -> & Hni).
      exists v, ((k0, v0) :: l1), l2. split; [reflexivity|]. cbn [map fst In]. intros [E|H]; auto.
  Qed.
End FirstWinsG.

Lemma fold_level_g {A K} (proj : gstate -> list (K * string))
    (add : list (K * string) -> K * string -> list (K * string))
    (inv : gstate -> Prop) (f : gstate -> A -> gstate) (links : A -> list (K * string)) (l : list A) :
  (forall x st, In x l -> inv st ->
     proj (f st x) = fold_left add (links x) (proj st) /\ inv (f st x)) ->
  forall st, inv st ->
    proj (fold_left f l st) = fold_left add (flat_map links l) (proj st) /\ inv (fold_left f l st).
Proof.
  induction l as [|x t IH]; cbn [fold_left flat_map]; intros H st Hi; [auto|].
  destruct (H x st (or_introl eq_refl) Hi) as [H1 H2].
  destruct (IH (fun y s Hy => H y s (or_intror Hy)) _ H2) as [H3 H4].
  rewrite H3, H1, fold_left_app. auto.
Qed.

Definition add_tcp_kv := add_kv_g Z.eqb.

Definition tcp_links_of (cl : cluster) (r : route) (l : listener) (ir : nat * rrule) : list (Z * string) :=
  if usable_b cl r (snd ir) then [(l_port l, rule_id r (fst ir))] else [].
Definition tcp_links_listener (cl : cluster) (r : route) (p : parentref) (g : gateway) (l : listener) :=
  if listener_admits_b cl r p g l then flat_map (tcp_links_of cl r l) (indexed 0 (rt_rules r)) else [].
Definition tcp_links_parent (cl : cluster) (r : route) (p : parentref) :=
  if parent_is_gateway p then
    match get_gateway cl (parent_ns r p) (p_name p) with
    | Some g => flat_map (tcp_links_listener cl r p g) (g_listeners g)
    | None => []
    end
  else [].
Definition tcp_links_route (cl : cluster) (r : route) := flat_map (tcp_links_parent cl r) (rt_parents r).

Lemma sync_rule_tcp cl r l ir st :
  NoDup (rule_ids cl) -> rt_tcp r = true -> In (r, ir) (rule_pairs cl) -> backs_inv cl st ->
  st_tcp (sync_rule cl r l st ir) = fold_left add_tcp_kv (tcp_links_of cl r l ir) (st_tcp st) /\
  backs_inv cl (sync_rule cl r l st ir).
Proof.
  intros Hnd Ht Hin Hinv. split; [|apply sync_rule_inv; assumption].
  pose proof (create_backend_spec cl r ir st Hnd Hin Hinv) as H.
  unfold sync_rule, tcp_links_of. destruct ir as [i rule]. cbn [fst snd] in *. rewrite Ht in *.
  destruct (create_backend cl r ("_tcprule" ++ nat_str i)%string (r_backends rule) st) as [st1 ob].
  destruct H as (_ & Htcp & _ & Hob). subst ob. destruct (usable_b cl r rule); cbn [fold_left].
  - unfold add_tcp, add_tcp_kv, add_kv_g, has_k. cbn [fst]. rewrite Htcp.
    destruct (existsb _ (st_tcp st)); [exact Htcp|reflexivity].
  - exact Htcp.
Qed.

Lemma sync_route_tcp cl r st :
  NoDup (rule_ids cl) -> rt_tcp r = true -> In r (c_routes cl) -> backs_inv cl st ->
  st_tcp (sync_route cl st r) = fold_left add_tcp_kv (tcp_links_route cl r) (st_tcp st) /\
  backs_inv cl (sync_route cl st r).
Proof.
  intros Hnd Ht Hr Hinv. unfold sync_route, tcp_links_route.
  apply (fold_level_g st_tcp add_tcp_kv (backs_inv cl)); [|exact Hinv].
  intros p st0 _ Hi0. unfold sync_parent, tcp_links_parent.
  destruct (parent_is_gateway p); [|cbn [fold_left]; auto].
  destruct (get_gateway cl (parent_ns r p) (p_name p)) as [g|]; [|cbn [fold_left]; auto].
  apply (fold_level_g st_tcp add_tcp_kv (backs_inv cl)); [|exact Hi0].
  intros l st1 _ Hi1. unfold sync_listener, tcp_links_listener, listener_admits_b.
  destruct (listener_ok cl r g (p_section p) l); [|cbn [fold_left]; auto].
  apply (fold_level_g st_tcp add_tcp_kv (backs_inv cl)); [|exact Hi1].
  intros ir st2 Hir Hi2. apply sync_rule_tcp; auto.
  apply in_rule_pairs. auto.
Qed.

(* HTTP routes leave the TCP services alone *)
Lemma create_backend_tcp cl r idx refs st :
  st_tcp (fst (create_backend cl r idx refs st)) = st_tcp st.
Proof.
  unfold create_backend. destruct (has_key _ _); [reflexivity|].
  destruct (backend_servers _ _ _); reflexivity.
Qed.

Lemma sync_route_http_tcp cl r st : rt_tcp r = false -> st_tcp (sync_route cl st r) = st_tcp st.
Proof.
  intros Ht. unfold sync_route.
  assert (Hrule : forall l st ir, st_tcp (sync_rule cl r l st ir) = st_tcp st).
  { intros l st0 [i rule]. unfold sync_rule. rewrite Ht.
    pose proof (create_backend_tcp cl r ("_rule" ++ nat_str i)%string (r_backends rule) st0) as H.
    destruct (create_backend cl r _ _ st0) as [st1 [bid|]]; cbn [fst] in H; [|exact H].
    destruct (fold_add_path bid (rule_links l r rule) st1) as (_ & _ & H3). rewrite H3. exact H. }
  assert (Hrules : forall l rules st, st_tcp (fold_left (sync_rule cl r l) rules st) = st_tcp st).
  { intros l rules. induction rules as [|ir t IH]; cbn [fold_left]; intros st0; [reflexivity|].
    rewrite IH. apply Hrule. }
  assert (Hlis : forall g sec ls st, st_tcp (fold_left (sync_listener cl r g sec) ls st) = st_tcp st).
  { intros g sec ls. induction ls as [|l t IH]; cbn [fold_left]; intros st0; [reflexivity|].
    rewrite IH. unfold sync_listener. destruct (listener_ok _ _ _ _ _); [apply Hrules|reflexivity]. }
  induction (rt_parents r) as [|p t IH] in st |- *; cbn [fold_left]; [reflexivity|].
  rewrite IH. unfold sync_parent. destruct (parent_is_gateway p); [|reflexivity].
  destruct (get_gateway _ _ _); [apply Hlis|reflexivity].
Qed.

Lemma http_phase_tcp cl l : forall st,
  (forall r, In r l -> rt_tcp r = false) -> st_tcp (fold_left (sync_route cl) l st) = st_tcp st.
Proof.
  induction l as [|r t IH]; cbn [fold_left]; intros st H; [reflexivity|].
  rewrite IH by (intros x Hx; apply H; right; exact Hx).
  apply sync_route_http_tcp. apply H. left. reflexivity.
Qed.

Lemma in_tcp_routes cl r : In r (tcp_routes cl) <-> In r (c_routes cl) /\ rt_tcp r = true.
Proof. unfold tcp_routes. rewrite in_sort_routes, filter_In. tauto. Qed.

Lemma impl_tcp cl :
  NoDup (rule_ids cl) ->
  st_tcp (attach_impl cl) = first_wins_g Z.eqb (flat_map (tcp_links_route cl) (tcp_routes cl)).
Proof.
  intros Hnd. unfold attach_impl. fold (http_routes cl). fold (tcp_routes cl).
  destruct (http_phase cl Hnd) as [_ Hinv].
  destruct (fold_level_g st_tcp add_tcp_kv (backs_inv cl) (sync_route cl) (tcp_links_route cl) (tcp_routes cl)) with
    (st := fold_left (sync_route cl) (http_routes cl) empty_state) as [H _].
  - intros r st Hr Hi. apply in_tcp_routes in Hr as [Hr Ht]. apply sync_route_tcp; auto.
  - exact Hinv.
  - rewrite H. rewrite http_phase_tcp; [reflexivity|].
    intros r Hr. apply in_http_routes in Hr. apply Hr.
Qed.

Definition tcp_admitted_b (cl : cluster) (a : tcp_attachment) : bool :=
  designates_b (ta_route a) (ta_parent a) (ta_gateway a)
  && class_ours cl (ta_gateway a)
  && listener_admits_b cl (ta_route a) (ta_parent a) (ta_gateway a) (ta_listener a)
  && usable_b cl (ta_route a) (ta_rule a).

Lemma tcp_admitted_spec cl a :
  wf_objects cl -> In (ta_route a) (c_routes cl) ->
  (tcp_admitted_b cl a = true <-> tcp_admitted cl a).
Proof.
  intros (Hc & _ & Hn & _ & Hk) Hin. unfold tcp_admitted_b, tcp_admitted.
  rewrite !andb_true_iff, designates_spec, (class_ours_spec _ _ Hc),
    (listener_admits_spec _ _ _ _ _ Hn (Hk _ Hin)).
  unfold usable_b. destruct (backend_servers _ _ _); intuition congruence.
Qed.

Definition ta_kv (a : tcp_attachment) : Z * string := (ta_port a, ta_owner a).

Lemma map_filter_map {A B C} (f : B -> C) (p : B -> bool) (g : A -> B) (l : list A) :
  map f (filter p (map g l)) = flat_map (fun x => if p (g x) then [f (g x)] else []) l.
Proof.
  induction l as [|x t IH]; cbn [map filter flat_map]; [reflexivity|].
  destruct (p (g x)); cbn [map app]; rewrite IH; reflexivity.
Qed.

Lemma tcp_combos_of_route cl r :
  NoDup (map (fun g => (g_ns g, g_name g)) (c_gateways cl)) -> rt_tcp r = true ->
  map ta_kv (filter (tcp_admitted_b cl)
    (flat_map (fun p =>
      flat_map (fun g =>
        flat_map (fun l =>
          map (fun ir : nat * rrule =>
                 {| ta_route := r; ta_parent := p; ta_gateway := g; ta_listener := l;
                    ta_index := fst ir; ta_rule := snd ir |})
              (indexed 0 (rt_rules r)))
          (g_listeners g))
        (c_gateways cl))
      (rt_parents r))) = tcp_links_route cl r.
Proof.
  intros Hnd Ht. unfold tcp_links_route.
  rewrite filter_flat_map, map_flat_map. apply flat_map_ext_in. intros p _.
  rewrite filter_flat_map, map_flat_map.
  assert (Hg : forall g,
    map ta_kv (filter (tcp_admitted_b cl)
      (flat_map (fun l =>
         map (fun ir : nat * rrule =>
                {| ta_route := r; ta_parent := p; ta_gateway := g; ta_listener := l;
                   ta_index := fst ir; ta_rule := snd ir |})
             (indexed 0 (rt_rules r)))
         (g_listeners g))) =
    if designates_b r p g && class_ours cl g
    then flat_map (tcp_links_listener cl r p g) (g_listeners g) else []).
  { intros g. rewrite filter_flat_map, map_flat_map.
    rewrite <- flat_map_if. apply flat_map_ext_in. intros l _.
    rewrite map_filter_map. unfold tcp_links_listener.
    transitivity (flat_map (fun ir : nat * rrule =>
        if designates_b r p g && class_ours cl g && listener_admits_b cl r p g l
        then tcp_links_of cl r l ir else []) (indexed 0 (rt_rules r))).
    - apply flat_map_ext_in. intros ir _. unfold tcp_admitted_b, tcp_links_of, ta_kv, ta_port, ta_owner, rule_id.
      cbn [ta_route ta_parent ta_gateway ta_listener ta_index ta_rule]. rewrite Ht.
      destruct (designates_b r p g && class_ours cl g && listener_admits_b cl r p g l); cbn [andb];
        [|reflexivity].
      destruct (usable_b cl r (snd ir)); reflexivity.
    - rewrite flat_map_if.
      destruct (designates_b r p g && class_ours cl g), (listener_admits_b cl r p g l); reflexivity. }
  rewrite (flat_map_ext_in _ _ _ (fun g _ => Hg g)).
  unfold tcp_links_parent, designates_b.
  destruct (parent_is_gateway p); cbn [andb]; [|apply flat_map_nil].
  unfold get_gateway.
  rewrite (flat_map_find_unique
             (fun g => String.eqb (g_ns g) (parent_ns r p) && String.eqb (g_name g) (p_name p))
             (class_ours cl) _ (fun g => (g_ns g, g_name g)) (c_gateways cl) Hnd).
  - destruct (find _ (c_gateways cl)) as [g|]; [|reflexivity]. destruct (class_ours cl g); reflexivity.
  - intros x y _ _ Hx Hy. apply andb_true_iff in Hx as [Hx1 Hx2], Hy as [Hy1 Hy2].
    apply String.eqb_eq in Hx1, Hx2, Hy1, Hy2. congruence.
Qed.

Lemma impl_tcp_is_spec cl :
  wf_objects cl ->
  st_tcp (attach_impl cl) =
    first_wins_g Z.eqb (map ta_kv (filter (tcp_admitted_b cl) (tcp_combinations cl))).
Proof.
  intros (_ & Hg & _ & Hid & _). rewrite impl_tcp by exact Hid. f_equal.
  unfold tcp_combinations. rewrite filter_flat_map, map_flat_map.
  apply flat_map_ext_in. intros r Hr. apply in_tcp_routes in Hr as [_ Ht].
  symmetry. apply tcp_combos_of_route; assumption.
Qed.

Lemma tcp_combination_route cl a :
  In a (tcp_combinations cl) -> In (ta_route a) (c_routes cl) /\ rt_tcp (ta_route a) = true.
Proof.
  unfold tcp_combinations. intros H.
  apply in_flat_map in H as (r & Hr & H). apply in_flat_map in H as (p & _ & H).
  apply in_flat_map in H as (g & _ & H). apply in_flat_map in H as (l & _ & H).
  apply in_map_iff in H as (ir & <- & _). cbn [ta_route]. apply in_tcp_routes. exact Hr.
Qed.

(* a TCP service exists on a port only through an admitted TCPRoute combination on a listener
   with that port, the first one declared *)
Lemma tcp_attach_sound cl port b :
  wf_objects cl -> In (port, b) (st_tcp (attach_impl cl)) ->
  exists a before after,
    tcp_combinations cl = before ++ a :: after /\
    tcp_admitted cl a /\ ta_port a = port /\ ta_owner a = b /\
    (forall a', In a' before -> tcp_admitted cl a' -> ta_port a' <> port).
Proof.
  intros Hwf Hin. rewrite (impl_tcp_is_spec cl Hwf) in Hin.
  apply (first_wins_g_spec Z.eqb Z.eqb_eq) in Hin as (l1 & l2 & E & Hni).
  apply split_map_filter in E as (c1 & a & c2 & Ec & Ha & Hkv & H1 & _).
  assert (Hra : In a (tcp_combinations cl)) by (rewrite Ec; apply in_or_app; right; left; reflexivity).
  exists a, c1, c2. split; [exact Ec|]. injection Hkv as Hk Hb.
  split; [apply tcp_admitted_spec; [exact Hwf|apply (tcp_combination_route cl a Hra)|exact Ha]|].
  split; [exact Hk|]. split; [exact Hb|].
  intros a' Ha' Hadm Hk'. apply Hni. rewrite <- H1, map_map.
  apply in_map_iff. exists a'. split; [exact Hk'|]. apply filter_In. split; [exact Ha'|].
  apply tcp_admitted_spec; [exact Hwf| |exact Hadm].
  apply (tcp_combination_route cl a'). rewrite Ec. apply in_or_app. left. exact Ha'.
Qed.

Lemma tcp_attach_complete cl a :
  wf_objects cl -> In a (tcp_combinations cl) -> tcp_admitted cl a ->
  exists b, In (ta_port a, b) (st_tcp (attach_impl cl)).
Proof.
  intros Hwf Hin Hadm. rewrite (impl_tcp_is_spec cl Hwf).
  assert (Hk : In (ta_port a) (map fst (map ta_kv (filter (tcp_admitted_b cl) (tcp_combinations cl))))).
  { rewrite map_map. apply in_map_iff. exists a. split; [reflexivity|]. apply filter_In. split; [exact Hin|].
    apply tcp_admitted_spec; [exact Hwf|apply (tcp_combination_route cl a Hin)|exact Hadm]. }
  apply (first_occurrence_g Z.eqb Z.eqb_eq) in Hk as (v & l1 & l2 & E & Hni).
  exists v. apply (first_wins_g_spec Z.eqb Z.eqb_eq). exists l1, l2. auto.
Qed.

(* ================================================================== the extended driver without passthrough *)

(* nothing of the passthrough machinery is active *)
Definition quiet (x : xstate) : Prop := x_modetcp x = [] /\ x_pass x = [] /\ x_hpb x = [].

Lemma fold_sim {A} (P : xstate -> Prop) (fx : xstate -> A -> xstate) (f : gstate -> A -> gstate) (l : list A) :
  (forall a x, In a l -> P x -> x_core (fx x a) = f (x_core x) a /\ P (fx x a)) ->
  forall x, P x -> x_core (fold_left fx l x) = fold_left f l (x_core x) /\ P (fold_left fx l x).
Proof.
  induction l as [|a t IH]; cbn [fold_left]; intros H x Hx; [auto|].
  destruct (H a x (or_introl eq_refl) Hx) as [H1 H2].
  destruct (IH (fun b y Hb => H b y (or_intror Hb)) _ H2) as [H3 H4].
  rewrite H3, H1. auto.
Qed.

Lemma add_path_x_quiet bid pairs : forall x hosts,
  x_modetcp x = [] -> x_pass x = [] -> x_hpb x = [] ->
  let r := fold_left (add_path_x bid false) pairs (x, hosts) in
  x_core (fst r) = fold_left (add_path bid) (map (fun mh : hmatch * string => link_hash (snd mh) (fst mh)) pairs) (x_core x) /\
  x_modetcp (fst r) = [] /\ x_pass (fst r) = [] /\ x_hpb (fst r) = [].
Proof.
  induction pairs as [|[m h] t IH]; cbn [fold_left map]; intros x hosts Hm Hp Hh; [auto|].
  cbn [fst snd].
  set (x1 := with_core x (with_paths (x_core x) (st_paths (x_core x) ++ [(link_hash h m, bid)]))).
  assert (Hstep : add_path_x bid false (x, hosts) (m, h) =
                  if has_key (link_hash h m) (st_paths (x_core x)) then (x, hosts)
                  else (x1, hosts ++ [host_name h])).
  { unfold add_path_x. rewrite Hp. cbn [str_mem existsb andb negb orb].
    destruct (has_key (link_hash h m) (st_paths (x_core x))); cbn [andb]; [reflexivity|].
    fold x1. f_equal. unfold handle_passthrough. subst x1. cbn [with_core x_pass]. rewrite Hp.
    cbn [str_mem existsb negb andb]. rewrite orb_true_r. reflexivity. }
  rewrite Hstep. unfold add_path at 2.
  destruct (has_key (link_hash h m) (st_paths (x_core x))) eqn:Ek.
  - apply IH; assumption.
  - specialize (IH x1 (hosts ++ [host_name h])).
    subst x1. cbn [with_core with_paths x_core x_modetcp x_pass x_hpb] in *.
    destruct (x_core x) as [ps bs ts]. cbn [st_paths st_backs st_tcp] in *. apply IH; assumption.
Qed.

Lemma rule_links_pairs l r ms :
  map (fun mh : hmatch * string => link_hash (snd mh) (fst mh))
      (flat_map (fun m => map (fun h => (m, h)) (filter_hostnames l r)) ms) =
  flat_map (fun m => map (fun h => link_hash h m) (filter_hostnames l r)) ms.
Proof.
  rewrite map_flat_map. apply flat_map_ext_in. intros m _. rewrite map_map. reflexivity.
Qed.

Lemma sync_rule_x_http cl r l x ir :
  rt_tcp r = false -> is_passthrough l = false -> quiet x ->
  x_core (sync_rule_x cl r l x ir) = sync_rule cl r l (x_core x) ir /\ quiet (sync_rule_x cl r l x ir).
Proof.
  intros Ht Hpt (Hm & Hp & Hh). unfold sync_rule_x, sync_rule. destruct ir as [i rule]. rewrite Ht.
  destruct (create_backend cl r ("_rule" ++ nat_str i)%string (r_backends rule) (x_core x)) as [c1 [bid|]].
  - rewrite Hpt, Hm. cbv zeta. cbn [x_modetcp str_mem existsb].
    set (x1 := {| x_core := c1; x_modetcp := []; x_pass := x_pass x; x_hpb := x_hpb x |}).
    pose proof (add_path_x_quiet bid
      (flat_map (fun m => map (fun h => (m, h)) (filter_hostnames l r)) (matches_or_default (r_matches rule)))
      x1 [] eq_refl Hp Hh) as H. cbv zeta in H.
    destruct (fold_left (add_path_x bid false) _ (x1, [])) as [x2 hosts]. cbn [fst] in H.
    destruct H as (H1 & H2 & H3 & H4). rewrite rule_links_pairs in H1.
    split; [exact H1|]. unfold quiet. auto.
  - cbn [with_core x_core]. split; [reflexivity|]. unfold quiet. cbn [x_modetcp x_pass x_hpb]. auto.
Qed.

(* TCP routes only touch the backends, the tcp services and the tcp-mode marks *)
Definition calm (x : xstate) : Prop := x_pass x = [] /\ x_hpb x = [].

Lemma sync_rule_x_tcp cl r l x ir :
  rt_tcp r = true -> calm x ->
  x_core (sync_rule_x cl r l x ir) = sync_rule cl r l (x_core x) ir /\ calm (sync_rule_x cl r l x ir).
Proof.
  intros Ht (Hp & Hh). unfold sync_rule_x, sync_rule. destruct ir as [i rule]. rewrite Ht.
  destruct (create_backend cl r ("_tcprule" ++ nat_str i)%string (r_backends rule) (x_core x)) as [c1 [bid|]];
    cbn [with_core x_core]; (split; [reflexivity|]); unfold calm; cbn [x_pass x_hpb]; auto.
Qed.

Lemma get_gateway_in cl ns name g : get_gateway cl ns name = Some g -> In g (c_gateways cl).
Proof.
  unfold get_gateway. destruct (find _ (c_gateways cl)) as [g0|] eqn:E; [|discriminate].
  destruct (class_ours cl g0); [|discriminate]. intros H. injection H as <-.
  apply find_some in E. apply E.
Qed.

Lemma sync_route_x_sim cl r (P : xstate -> Prop) :
  (forall g l x ir, In g (c_gateways cl) -> In l (g_listeners g) -> P x ->
     x_core (sync_rule_x cl r l x ir) = sync_rule cl r l (x_core x) ir /\ P (sync_rule_x cl r l x ir)) ->
  forall x, P x -> x_core (sync_route_x cl x r) = sync_route cl (x_core x) r /\ P (sync_route_x cl x r).
Proof.
  intros Hrule. unfold sync_route_x, sync_route. apply fold_sim.
  intros p x0 _ H0. unfold sync_parent_x, sync_parent.
  destruct (parent_is_gateway p); [|auto].
  destruct (get_gateway cl (parent_ns r p) (p_name p)) as [g|] eqn:Eg; [|auto].
  apply get_gateway_in in Eg. revert x0 H0. apply fold_sim.
  intros l x1 Hl H1. unfold sync_listener_x, sync_listener.
  destruct (listener_ok cl r g (p_section p) l); [|auto].
  revert x1 H1. apply fold_sim. intros ir x2 _ H2. apply (Hrule g l); assumption.
Qed.

Lemma quiet_calm x : quiet x -> calm x.
Proof. intros (_ & H1 & H2). split; assumption. Qed.

(* without a passthrough listener the extended driver is the plain one *)
Lemma attach_x_conservative cl :
  no_passthrough cl ->
  x_core (attach_impl_x cl) = attach_impl cl /\ x_pass (attach_impl_x cl) = [] /\ x_hpb (attach_impl_x cl) = [].
Proof.
  intros Hnp. unfold attach_impl_x, sync_cluster_x, attach_impl.
  set (http := sort_routes (filter (fun r => negb (rt_tcp r)) (c_routes cl))).
  set (tcp := sort_routes (filter rt_tcp (c_routes cl))).
  destruct (fold_sim quiet (sync_route_x cl) (sync_route cl) http) with (x := empty_xstate) as [H1 H2].
  - intros r x Hr Hx. apply (proj1 (in_sort_routes _ _)) in Hr. apply filter_In in Hr as [_ Ht].
    apply negb_true_iff in Ht. revert x Hx. apply sync_route_x_sim.
    intros g l x0 ir Hg Hl H0. apply sync_rule_x_http; [exact Ht|exact (Hnp g l Hg Hl)|exact H0].
  - unfold quiet, empty_xstate. cbn. auto.
  - destruct (fold_sim calm (sync_route_x cl) (sync_route cl) tcp) with (x := fold_left (sync_route_x cl) http empty_xstate) as [H3 H4].
    + intros r x Hr Hx. apply (proj1 (in_sort_routes _ _)) in Hr. apply filter_In in Hr as [_ Ht].
      revert x Hx. apply sync_route_x_sim. intros g l x0 ir _ _ H0. apply sync_rule_x_tcp; auto.
    + apply quiet_calm. exact H2.
    + rewrite H3, H1. cbn [empty_xstate x_core]. split; [reflexivity|]. exact H4.
Qed.

Lemma attach_versions_single cl : attach_versions [cl] = attach_impl_x cl.
Proof. reflexivity. Qed.

(* the main theorems, for the extended driver *)
Lemma attach_x_sound cl k b :
  wf_objects cl -> no_passthrough cl -> In (k, b) (st_paths (x_core (attach_impl_x cl))) ->
  exists a before after,
    combinations cl = before ++ a :: after /\
    admitted cl a /\ at_key a = k /\ at_owner a = b /\
    (forall a', In a' before -> admitted cl a' -> at_key a' <> k).
Proof.
  intros Hwf Hnp Hin. destruct (attach_x_conservative cl Hnp) as [E _]. rewrite E in Hin.
  exact (attach_sound cl k b Hwf Hin).
Qed.

Lemma attach_x_complete cl a :
  wf_objects cl -> no_passthrough cl -> In a (combinations cl) -> admitted cl a ->
  exists b, In (at_key a, b) (st_paths (x_core (attach_impl_x cl))).
Proof.
  intros Hwf Hnp Hin Ha. destruct (attach_x_conservative cl Hnp) as [E _]. rewrite E.
  exact (attach_complete cl a Hwf Hin Ha).
Qed.

(* ================================================================== against the Gateway API text alone *)

Lemma hostnames_spec_under_H l r :
  (l_hostname l = None \/ l_hostname l = Some "" \/ l_hostname l = Some "*" \/ rt_hostnames r = []) ->
  filter_hostnames l r = spec_hostnames l r.
Proof.
  unfold filter_hostnames, spec_hostnames. intros [H|[H|[H|H]]]; rewrite H; try reflexivity.
  all: try (destruct (l_hostname l) as [h|]; [|reflexivity];
            destruct (String.eqb h "" || String.eqb h "*"); reflexivity).
Qed.

Definition hl_example (h : string) : listener :=
  {| l_name := "l0"; l_hostname := Some h; l_port := 80; l_protocol := "HTTP"; l_tls := None; l_allowed := None |}.
Definition hr_example (hs : list string) : route :=
  {| rt_tcp := false; rt_kind := "HTTPRoute"; rt_ns := "a"; rt_name := "r"; rt_ts := 0; rt_parents := [];
     rt_hostnames := hs; rt_rules := [] |}.

(* the override is not the intersection: no common name, or a wildcard listener *)
Lemma hostnames_spec_refuted :
  exists l r, spec_hostnames l r = [] /\ filter_hostnames l r = ["gw.example"].
Proof. exists (hl_example "gw.example"), (hr_example ["b.example"]). vm_compute. auto. Qed.

Example spec_hostnames_table :
  spec_hostnames (hl_example "*.example") (hr_example ["a.example"; "b.test"; "*.x.example"; "example"]) = ["a.example"; "*.x.example"] /\
  filter_hostnames (hl_example "*.example") (hr_example ["a.example"; "b.test"; "*.x.example"; "example"]) = ["*.example"] /\
  spec_hostnames (hl_example "a.example") (hr_example ["*.example"; "*.test"]) = ["a.example"] /\
  spec_hostnames (hl_example "*.x.example") (hr_example ["*.example"]) = ["*.x.example"] /\
  spec_hostnames (hl_example "a.example") (hr_example []) = ["a.example"] /\
  spec_hostnames (hl_example "*") (hr_example []) = ["*"].
Proof. vm_compute. auto 10. Qed.

(* inside the documented conformance, the converter follows the Gateway API text *)
Lemma attach_sound_spec_under_H cl k b :
  wf_objects cl -> within_documented_conformance cl -> In (k, b) (st_paths (attach_impl cl)) ->
  exists a before after,
    combinations cl = before ++ a :: after /\
    admitted_by_spec cl a /\ at_key a = k /\ at_owner a = b /\
    (forall a', In a' before -> admitted_by_spec cl a' -> at_key a' <> k).
Proof.
  intros Hwf Hdoc Hin. destruct (attach_sound cl k b Hwf Hin) as (a & bf & af & Ec & Ha & Hk & Hb & Hfirst).
  assert (Hra : In a (combinations cl)) by (rewrite Ec; apply in_or_app; right; left; reflexivity).
  destruct (Hdoc a Hra Ha) as [Hp Hh].
  exists a, bf, af. split; [exact Ec|]. split.
  - split; [exact Ha|]. split; [exact Hp|]. rewrite <- Hh. apply (combinations_exhaustive cl a). exact Hra.
  - split; [exact Hk|]. split; [exact Hb|]. intros a' Hin' [Ha' _]. exact (Hfirst a' Hin' Ha').
Qed.

Lemma attach_complete_spec_under_H cl a :
  wf_objects cl -> In a (combinations cl) -> admitted_by_spec cl a ->
  exists b, In (at_key a, b) (st_paths (attach_impl cl)).
Proof. intros Hwf Hin [Ha _]. exact (attach_complete cl a Hwf Hin Ha). Qed.

(* ================================================================== examples *)

Definition ex_listener (name : string) (kinds : list (ostr * string)) (from : string) : listener :=
  {| l_name := name; l_hostname := None; l_port := 80; l_protocol := "HTTP"; l_tls := None;
     l_allowed := Some {| al_kinds := kinds;
                          al_namespaces := Some {| rn_from := Some from; rn_selector := None |} |} |}.
Definition ex_route (kind ns name : string) (gwns : ostr) (host : string) : route :=
  {| rt_tcp := false; rt_kind := kind; rt_ns := ns; rt_name := name; rt_ts := 0;
     rt_parents := [{| p_group := None; p_kind := None; p_ns := gwns; p_name := "gw0"; p_section := None |}];
     rt_hostnames := [host];
     rt_rules := [{| r_matches := []; r_backends := [{| b_name := "s0"; b_port := Some 8080%Z; b_weight := None |}] |}] |}.
Definition ex_service (ns : string) : service :=
  {| sv_ns := ns; sv_name := "s0"; sv_ports := [{| sp_name := "http"; sp_port := 8080; sp_target := Some 8080%Z |}];
     sv_endpoints := Some [{| ss_addrs := ["10.0.0.1"; "10.0.0.2"]; ss_ports := [("http", 8080%Z, true)] |}] |}.
Definition ex_cluster (kind class : string) : cluster :=
  {| c_controller := "haproxy-ingress.github.io/controller";
     c_classes := [{| gc_name := "haproxy"; gc_controller := "haproxy-ingress.github.io/controller" |};
                   {| gc_name := "other"; gc_controller := "example.com/other" |}];
     c_gateways := [{| g_ns := "a"; g_name := "gw0"; g_class := class;
                       g_listeners := [ex_listener "l0" [(None, "HTTPRoute")] "Same"; ex_listener "l1" [] "All"] |}];
     c_routes := [ex_route kind "a" "r0" None "a.example"; ex_route kind "b" "r1" (Some "a") "a.example"];
     c_services := [ex_service "a"; ex_service "b"];
     c_namespaces := [("a", [("env", "prod")]); ("b", [])] |}.

(* the hypotheses of the theorems are satisfiable: a well-formed cluster where route a/r0 is
   admitted by both listeners, b/r1 only by l1 (From All), and a/r0 declared the key first *)
Example wf_example : wf_objects (ex_cluster "HTTPRoute" "haproxy").
Proof.
  unfold wf_objects. cbn.
  repeat split; try (repeat constructor; cbn; intuition discriminate).
  intros r [<-|[<-|[]]]; reflexivity.
Qed.

Example attach_example :
  st_paths (attach_impl (ex_cluster "HTTPRoute" "haproxy")) =
    [(String.concat nl ["a.example"; "/"; "prefix"], "a_r0__rule0")] /\
  map fst (st_backs (attach_impl (ex_cluster "HTTPRoute" "haproxy"))) = ["a_r0__rule0"; "b_r1__rule0"] /\
  st_paths (attach_impl (ex_cluster "HTTPRoute" "other")) = [].
Proof. vm_compute. auto. Qed.

(* with a client that reports no Kind (the bare fake client), a listener naming kinds admits
   nothing: only l1 attaches.  This is why wf_objects asks for the Kind the informer cache reports. *)
Example empty_kind_example :
  map snd (st_paths (attach_impl (ex_cluster "" "haproxy"))) = ["a_r0__rule0"] /\
  listener_allowed (ex_cluster "" "haproxy")
    {| g_ns := "a"; g_name := "gw0"; g_class := "haproxy"; g_listeners := [] |}
    (ex_route "" "a" "r0" None "a.example") (ex_listener "l0" [(None, "HTTPRoute")] "Same") = false.
Proof. vm_compute. auto. Qed.

(* outside it, it does not: an HTTPRoute is attached through a listener whose protocol is TCP *)
Definition ex_cluster_tcp_listener : cluster :=
  {| c_controller := "haproxy-ingress.github.io/controller";
     c_classes := [{| gc_name := "haproxy"; gc_controller := "haproxy-ingress.github.io/controller" |}];
     c_gateways := [{| g_ns := "a"; g_name := "gw0"; g_class := "haproxy";
                       g_listeners := [{| l_name := "l0"; l_hostname := None; l_port := 6379; l_protocol := "TCP"; l_tls := None;
                                          l_allowed := Some {| al_kinds := []; al_namespaces := Some {| rn_from := Some "Same"; rn_selector := None |} |} |}] |}];
     c_routes := [ex_route "HTTPRoute" "a" "r0" None "a.example"];
     c_services := [ex_service "a"];
     c_namespaces := [("a", [])] |}.

Lemma attach_sound_spec_refuted :
  exists cl k b,
    wf_objects cl /\ no_passthrough cl /\ In (k, b) (st_paths (attach_impl cl)) /\
    forall a, In a (combinations cl) -> ~ admitted_by_spec cl a.
Proof.
  exists ex_cluster_tcp_listener, (String.concat nl ["a.example"; "/"; "prefix"]), "a_r0__rule0".
  split; [|split; [|split]].
  - unfold wf_objects. cbn. repeat split; try (repeat constructor; cbn; intuition discriminate).
    intros r [<-|[]]; reflexivity.
  - intros g l [<-|[]] [<-|[]]. reflexivity.
  - vm_compute. left. reflexivity.
  - intros a Hin (_ & Hp & _). apply combinations_exhaustive in Hin as (Hr & Ht & _ & Hg & Hl & _).
    unfold spec_protocol_admits in Hp. rewrite Ht in Hp.
    destruct Hg as [Eg|[]]. rewrite <- Eg in Hl. cbn [g_listeners] in Hl.
    destruct Hl as [El|[]]. rewrite <- El in Hp. cbn [l_protocol] in Hp. destruct Hp; discriminate.
Qed.

(* ================================================================== with passthrough and several versions *)

(* every host/path rule points to a backend that exists *)
Definition backed (c : gstate) : Prop :=
  forall k b, In (k, b) (st_paths c) -> has_key b (st_backs c) = true.

Lemma create_backend_backed cl r idx refs c :
  backed c ->
  backed (fst (create_backend cl r idx refs c)) /\
  (forall bid, snd (create_backend cl r idx refs c) = Some bid ->
     has_key bid (st_backs (fst (create_backend cl r idx refs c))) = true).
Proof.
  intros Hb. unfold create_backend.
  destruct (has_key (backend_id (rt_ns r) (rt_name r) idx) (st_backs c)) eqn:Ek; cbn [fst snd].
  - split; [exact Hb|]. intros bid E. injection E as <-. exact Ek.
  - destruct (backend_servers cl (rt_ns r) refs) as [eps|]; cbn [fst snd].
    + split.
      * intros k b Hin. cbn [st_paths st_backs] in *. rewrite has_key_app. rewrite (Hb k b Hin). reflexivity.
      * intros bid E. injection E as <-. cbn [st_backs]. rewrite has_key_app. unfold has_key at 2. cbn [existsb fst].
        rewrite String.eqb_refl. apply orb_true_r.
    + split; [exact Hb|discriminate].
Qed.

Lemma handle_passthrough_backed path h bid b x :
  backed (x_core x) -> backed (x_core (handle_passthrough path h bid b x)) /\
  st_backs (x_core (handle_passthrough path h bid b x)) = st_backs (x_core x).
Proof.
  intros Hb. unfold handle_passthrough. destruct (_ || _); [auto|].
  destruct (filter _ (st_paths (x_core x))) as [|first t]; [auto|].
  cbn [x_core with_paths st_paths st_backs]. split; [|reflexivity].
  intros k b0 Hin. apply filter_In in Hin as [Hin _]. exact (Hb k b0 Hin).
Qed.

Lemma add_path_x_backed bid b pairs : forall x hosts,
  backed (x_core x) -> has_key bid (st_backs (x_core x)) = true ->
  backed (x_core (fst (fold_left (add_path_x bid b) pairs (x, hosts)))).
Proof.
  induction pairs as [|[m h] t IH]; cbn [fold_left fst]; intros x hosts Hb Hk; [exact Hb|].
  unfold add_path_x at 2. destruct (_ && _).
  - apply IH; assumption.
  - set (x1 := with_core x (with_paths (x_core x) (st_paths (x_core x) ++ [(link_hash h m, bid)]))).
    assert (Hb1 : backed (x_core x1)).
    { subst x1. cbn [with_core x_core with_paths]. intros k b0 Hin. cbn [st_paths st_backs] in *.
      apply in_app_or in Hin as [Hin|[E|[]]]; [exact (Hb k b0 Hin)|]. injection E as <- <-. exact Hk. }
    destruct (handle_passthrough_backed (match_path m) (host_name h) bid b x1 Hb1) as [H1 H2].
    apply IH; [exact H1|]. rewrite H2. subst x1. cbn [with_core x_core with_paths st_backs]. exact Hk.
Qed.

Lemma sync_rule_x_backed cl r l x ir : backed (x_core x) -> backed (x_core (sync_rule_x cl r l x ir)).
Proof.
  intros Hb. unfold sync_rule_x. destruct ir as [i rule]. destruct (rt_tcp r).
  - pose proof (create_backend_backed cl r ("_tcprule" ++ nat_str i)%string (r_backends rule) (x_core x) Hb) as [H1 _].
    destruct (create_backend cl r _ _ (x_core x)) as [c1 [bid|]]; cbn [fst] in H1; cbn [x_core with_core]; [|exact H1].
    unfold add_tcp. destruct (existsb _ _); [exact H1|]. exact H1.
  - pose proof (create_backend_backed cl r ("_rule" ++ nat_str i)%string (r_backends rule) (x_core x) Hb) as [H1 H2].
    destruct (create_backend cl r _ _ (x_core x)) as [c1 [bid|]]; cbn [fst snd] in H1, H2; cbn [x_core with_core]; [|exact H1].
    specialize (H2 bid eq_refl). cbv zeta.
    match goal with |- context [fold_left (add_path_x bid ?b) ?ps (?x1, [])] =>
      pose proof (add_path_x_backed bid b ps x1 [] H1 H2) as H3;
      destruct (fold_left (add_path_x bid b) ps (x1, [])) as [x2 hosts] end.
    cbn [fst] in H3. destruct (is_passthrough l); exact H3.
Qed.

Lemma fold_backed {A} (fx : xstate -> A -> xstate) (l : list A) :
  (forall a x, backed (x_core x) -> backed (x_core (fx x a))) ->
  forall x, backed (x_core x) -> backed (x_core (fold_left fx l x)).
Proof.
  intros H. induction l as [|a t IH]; cbn [fold_left]; intros x Hx; [exact Hx|]. apply IH. apply H. exact Hx.
Qed.

Lemma sync_cluster_x_backed cl x : backed (x_core x) -> backed (x_core (sync_cluster_x cl x)).
Proof.
  assert (Hroute : forall r x, backed (x_core x) -> backed (x_core (sync_route_x cl x r))).
  { intros r. unfold sync_route_x. apply fold_backed. intros p x0 H0. unfold sync_parent_x.
    destruct (parent_is_gateway p); [|exact H0]. destruct (get_gateway _ _ _) as [g|]; [|exact H0].
    revert x0 H0. apply fold_backed. intros l x1 H1. unfold sync_listener_x.
    destruct (listener_ok _ _ _ _ _); [|exact H1]. revert x1 H1. apply fold_backed.
    intros ir x2 H2. apply sync_rule_x_backed. exact H2. }
  intros Hx. unfold sync_cluster_x. apply fold_backed; [exact Hroute|]. apply fold_backed; [exact Hroute|exact Hx].
Qed.

(* PARTIAL.  For any object sets, any listener TLS mode and any succession of API versions:
   every host/path rule of the configuration is served by a backend that exists.
   Gap: that the rule was admitted, and that every admitted combination is served, is proved
   only without passthrough listeners and for one API version (attach_x_sound / _complete);
   with passthrough the root path moves and matches are dropped, which the relation `admitted`
   does not describe. *)
Lemma attach_versions_backed_partial cls k b :
  In (k, b) (st_paths (x_core (attach_versions cls))) ->
  has_key b (st_backs (x_core (attach_versions cls))) = true.
Proof.
  assert (H : backed (x_core (attach_versions cls))).
  { unfold attach_versions. apply fold_backed.
    - intros cl x Hx. apply sync_cluster_x_backed. exact Hx.
    - intros k0 b0 []. }
  apply H.
Qed.

(* the hypothesis of the _under_H theorem is satisfiable *)
Example documented_conformance_example : within_documented_conformance (ex_cluster "HTTPRoute" "haproxy").
Proof.
  intros a Hin _. apply combinations_exhaustive in Hin as (Hr & Ht & _ & Hg & Hl & _).
  destruct Hg as [Eg|[]]. rewrite <- Eg in Hl. cbn [g_listeners ex_cluster] in Hl.
  unfold spec_protocol_admits. rewrite Ht.
  destruct Hl as [El|[El|[]]]; rewrite <- El; cbn [l_protocol ex_listener]; (split; [left; reflexivity|]);
    apply hostnames_spec_under_H; left; reflexivity.
Qed.

(* the unrepaired defect C10/passthrough-mode-leaks-to-plain-listener, as the model shows it:
   one HTTPRoute attached through a plain listener (hostname h.example) and a passthrough listener
   (hostname p.example); its single backend turns to tcp mode although h.example is a plain host *)
Definition ex_cluster_leak : cluster :=
  {| c_controller := "haproxy-ingress.github.io/controller";
     c_classes := [{| gc_name := "haproxy"; gc_controller := "haproxy-ingress.github.io/controller" |}];
     c_gateways := [{| g_ns := "a"; g_name := "gw0"; g_class := "haproxy";
       g_listeners := [
         {| l_name := "l0"; l_hostname := Some "h.example"; l_port := 80; l_protocol := "HTTP"; l_tls := None;
            l_allowed := Some {| al_kinds := []; al_namespaces := Some {| rn_from := Some "Same"; rn_selector := None |} |} |};
         {| l_name := "l1"; l_hostname := Some "p.example"; l_port := 443; l_protocol := "TLS"; l_tls := Some (Some "Passthrough");
            l_allowed := Some {| al_kinds := []; al_namespaces := Some {| rn_from := Some "Same"; rn_selector := None |} |} |}] |}];
     c_routes := [ex_route "HTTPRoute" "a" "r0" None "ignored.example"];
     c_services := [ex_service "a"];
     c_namespaces := [("a", [])] |}.

Example passthrough_leak_example :
  let x := attach_impl_x ex_cluster_leak in
  map snd (st_paths (x_core x)) = ["a_r0__rule0"; "a_r0__rule0"] /\
  x_modetcp x = ["a_r0__rule0"] /\ x_pass x = ["p.example"].
Proof. vm_compute. auto. Qed.
