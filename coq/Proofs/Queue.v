(* Proofs about Model/Queue.v: with one kind of item and callbacks shorter than the
   interval, every hand-over to the callback happens at a grant instant, hand-overs are
   at least delta apart and no notification is dropped. With two kinds of item sharing the
   limiter and the single worker the spacing per kind is refuted (witness below). *)
From Coq Require Import ZArith List Bool Lia.
From HI Require Import Model.Limiter Model.Queue Proofs.Limiter.
Import ListNotations.
Open Scope Z_scope.

(* instants of the hand-overs recorded in a log, newest first *)
Fixpoint runs (l : list obs) : list Z :=
  match l with
  | [] => []
  | ORun _ s :: r => s :: runs r
  | OArrive _ _ _ :: r => runs r
  end.

Fixpoint spaced_desc (delta : Z) (l : list Z) : Prop :=
  match l with
  | a :: (b :: _) as r => b + delta <= a /\ spaced_desc delta r
  | _ => True
  end.

Lemma runs_app a b : runs (a ++ b) = runs a ++ runs b.
Proof.
  induction a as [|o a IH]; [reflexivity|]. destruct o; cbn [app runs]; [exact IH|].
  now rewrite IH.
Qed.

Lemma runs_head_in log R rest : runs log = R :: rest -> exists i, In (ORun i R) log.
Proof.
  induction log as [|o log IH]; cbn [runs]; [discriminate|].
  destruct o as [i t g|i s]; intros H.
  - destruct (IH H) as [j Hj]. exists j. now right.
  - injection H as -> _. exists i. now left.
Qed.

Lemma spaced_desc_tail delta a l : spaced_desc delta (a :: l) -> spaced_desc delta l.
Proof. destruct l; cbn [spaced_desc]; tauto. Qed.

Lemma spaced_desc_app_r delta a b : spaced_desc delta (a ++ b) -> spaced_desc delta b.
Proof.
  induction a as [|x a IH]; [trivial|]. cbn [app]. intros H. apply IH.
  eapply spaced_desc_tail; exact H.
Qed.

Lemma spaced_desc_all delta a l : 0 <= delta -> spaced_desc delta (a :: l) ->
  forall b, In b l -> b + delta <= a.
Proof.
  intros Hd. revert a; induction l as [|x l IH]; intros a H b Hb; [destruct Hb|].
  cbn [spaced_desc] in H. destruct H as [Hx Hr].
  destruct Hb as [<-|Hb]; [exact Hx|].
  specialize (IH x Hr b Hb). lia.
Qed.

Lemma split_cons {A} (o x : A) log post pre :
  o :: log = post ++ x :: pre ->
  (post = [] /\ o = x /\ pre = log) \/ (exists post', post = o :: post' /\ log = post' ++ x :: pre).
Proof.
  destruct post as [|p post]; cbn [app]; intros H; injection H as -> ->.
  - left; auto.
  - right; eauto.
Qed.

(* ---------- facts about one call of the limiter ---------- *)

Lemma when_nonpos delta wait last t : 0 < delta -> 0 <= wait ->
  fst (reconciler_when delta wait last t) <= 0 ->
  last + delta <= t /\ snd (reconciler_when delta wait last t) = t /\
  fst (reconciler_when delta wait last t) = 0.
Proof.
  intros Hd Hw. unfold reconciler_when.
  destruct (Z.ltb_spec t last); cbn [fst snd]; [lia|].
  destruct (Z.ltb_spec (last + delta) t); cbn [fst snd]; lia.
Qed.

Section Single.
Variables delta wait D : Z.
Hypothesis Hdelta : 0 < delta.
Hypothesis Hwait : 0 <= wait.
Hypothesis HD0 : 0 <= D.
Hypothesis HD : D < delta.
Variable i0 : item.
Let f := reconciler_when delta wait.

Definition is_grant (log : list obs) (g : Z) : Prop := exists t, In (OArrive i0 t g) log.
Definition head_run (P : Z -> Prop) (log : list obs) : Prop :=
  forall R rest, runs log = R :: rest -> P R.

Record Inv (st : qstate) : Prop := {
  iv_log : forall o, In o (q_log st) ->
    match o with
    | OArrive i t g => i = i0 /\ t <= q_now st /\ (g = q_last st \/ g + delta <= q_last st)
    | ORun i s => i = i0 /\ s <= q_now st
    end;
  iv_pair : forall t1 g1 t2 g2,
    In (OArrive i0 t1 g1) (q_log st) -> In (OArrive i0 t2 g2) (q_log st) ->
    g1 = g2 \/ g1 + delta <= g2 \/ g2 + delta <= g1;
  iv_wait : q_wait st = [] \/
    exists r, q_wait st = [(i0, r)] /\ q_now st <= r /\ is_grant (q_log st) r /\
              head_run (fun R => R < r) (q_log st);
  iv_fifo : (q_fifo st = [] /\ q_dirty st = []) \/
    (q_fifo st = [i0] /\ q_dirty st = [i0] /\ q_proc st = None /\
     is_grant (q_log st) (q_now st) /\
     (forall r, q_wait st = [(i0, r)] -> q_now st < r) /\
     head_run (fun R => R + delta <= q_now st) (q_log st));
  iv_proc : match q_proc st with
            | None => True
            | Some (i, e) => i = i0 /\ q_now st <= e /\
                             exists R rest, runs (q_log st) = R :: rest /\ e <= R + D
            end;
  iv_runs : spaced_desc delta (runs (q_log st)) /\ head_run (is_grant (q_log st)) (q_log st);
  iv_A : forall post i s pre, q_log st = post ++ ORun i s :: pre ->
           exists t, In (OArrive i t s) pre;
  iv_C : forall post i t g pre, q_log st = post ++ OArrive i t g :: pre ->
           (exists s, In (ORun i s) post /\ t <= s <= g) \/
           (q_now st <= g /\ pending_by i g st)
}.

Lemma inv_init last now : Inv (q_init last now).
Proof.
  constructor; cbn [q_init q_log q_wait q_fifo q_dirty q_proc q_now q_last runs].
  - intros o [].
  - intros ? ? ? ? [].
  - now left.
  - now left.
  - exact I.
  - split; [exact I|]. intros R rest H; discriminate.
  - intros post i s pre H. destruct post; discriminate.
  - intros post i t g pre H. destruct post; discriminate.
Qed.

Lemma is_grant_cons log o g : is_grant log g -> is_grant (o :: log) g.
Proof. intros [t H]. exists t. now right. Qed.

Lemma grant_le_last st g : Inv st -> is_grant (q_log st) g -> g <= q_last st.
Proof.
  intros I [t H]. pose proof (iv_log st I _ H) as (_ & _ & Hg). cbn in Hg. lia.
Qed.

Lemma head_run_le_now st R rest : Inv st -> runs (q_log st) = R :: rest -> R <= q_now st.
Proof.
  intros I H. destruct (runs_head_in _ _ _ H) as [i Hi].
  pose proof (iv_log st I _ Hi) as Ho. cbn in Ho. lia.
Qed.

Lemma grants_apart st g1 g2 : Inv st -> is_grant (q_log st) g1 -> is_grant (q_log st) g2 ->
  g1 < g2 -> g1 + delta <= g2.
Proof.
  intros I [t1 H1] [t2 H2] Hlt. pose proof (iv_pair st I _ _ _ _ H1 H2). lia.
Qed.

Lemma dues_wait st t r i : forallb (fun d => t <=? d) (dues st) = true ->
  In (i, r) (q_wait st) -> t <= r.
Proof.
  intros H Hin. rewrite forallb_forall in H.
  apply Z.leb_le, H. unfold dues. apply in_or_app. left.
  change r with (snd (i, r)). now apply in_map.
Qed.

Lemma dues_proc st t i e : forallb (fun d => t <=? d) (dues st) = true ->
  q_proc st = Some (i, e) -> t <= e.
Proof.
  intros H Hp. rewrite forallb_forall in H.
  apply Z.leb_le, H. unfold dues. apply in_or_app. right. rewrite Hp. now left.
Qed.

Lemma dues_fifo st t i rest : forallb (fun d => t <=? d) (dues st) = true ->
  q_proc st = None -> q_fifo st = i :: rest -> t <= q_now st.
Proof.
  intros H Hp Hf. rewrite forallb_forall in H.
  apply Z.leb_le, H. unfold dues. apply in_or_app. right. rewrite Hp, Hf. now left.
Qed.

(* iv_C survives an event that leaves the log alone, given the pending part does *)
Lemma keep_C st st' :
  q_log st' = q_log st ->
  (forall i g, (exists t, In (OArrive i t g) (q_log st)) ->
     q_now st <= g /\ pending_by i g st -> q_now st' <= g /\ pending_by i g st') ->
  (forall post i t g pre, q_log st = post ++ OArrive i t g :: pre ->
     (exists s, In (ORun i s) post /\ t <= s <= g) \/ (q_now st <= g /\ pending_by i g st)) ->
  forall post i t g pre, q_log st' = post ++ OArrive i t g :: pre ->
     (exists s, In (ORun i s) post /\ t <= s <= g) \/ (q_now st' <= g /\ pending_by i g st').
Proof.
  intros El Hk HC post i t g pre Hs. rewrite El in Hs.
  destruct (HC _ _ _ _ _ Hs) as [L|R]; [now left|right].
  apply Hk; [|exact R]. exists t. rewrite Hs. apply in_or_app. right. now left.
Qed.

(* ... and one that logs a notification *)
Lemma keep_C_arrive st st' i' t' g' :
  q_log st' = OArrive i' t' g' :: q_log st ->
  (q_now st' <= g' /\ pending_by i' g' st') ->
  (forall i g, (exists t, In (OArrive i t g) (q_log st)) ->
     q_now st <= g /\ pending_by i g st -> q_now st' <= g /\ pending_by i g st') ->
  (forall post i t g pre, q_log st = post ++ OArrive i t g :: pre ->
     (exists s, In (ORun i s) post /\ t <= s <= g) \/ (q_now st <= g /\ pending_by i g st)) ->
  forall post i t g pre, q_log st' = post ++ OArrive i t g :: pre ->
     (exists s, In (ORun i s) post /\ t <= s <= g) \/ (q_now st' <= g /\ pending_by i g st').
Proof.
  intros El Hnew Hk HC post i t g pre Hs. rewrite El in Hs.
  destruct (split_cons _ _ _ _ _ Hs) as [(-> & [= -> -> ->] & ->)|(post' & -> & Hs')].
  - now right.
  - destruct (HC _ _ _ _ _ Hs') as [(s & Hin & Hb)|R].
    + left. exists s. split; [now right|exact Hb].
    + right. apply Hk; [|exact R]. exists t. rewrite Hs'. apply in_or_app. right. now left.
Qed.

Lemma keep_A_arrive log i' t' g' :
  (forall post i s pre, log = post ++ ORun i s :: pre -> exists t, In (OArrive i t s) pre) ->
  forall post i s pre, OArrive i' t' g' :: log = post ++ ORun i s :: pre ->
    exists t, In (OArrive i t s) pre.
Proof.
  intros HA post i s pre Hs.
  destruct (split_cons _ _ _ _ _ Hs) as [(_ & Ho & _)|(post' & -> & Hs')]; [discriminate|].
  eapply HA; exact Hs'.
Qed.

Lemma eqb_i0 : Nat.eqb i0 i0 = true.
Proof. apply Nat.eqb_refl. Qed.

(* ---------- the four events ---------- *)

Lemma inv_arrive st t st' :
  Inv st -> q_now st <= t -> forallb (fun d => t <=? d) (dues st) = true ->
  qevent_apply f D st t (Arrive i0) = Some st' -> Inv st'.
Proof.
  intros I Hnow Hdues Hap. cbn [qevent_apply] in Hap.
  pose proof (when_grant_is_last delta wait (q_last st) t) as Hgl.
  pose proof (when_step delta wait (q_last st) t Hwait) as Hst. cbn zeta in Hst.
  fold f in Hap, Hgl, Hst.
  set (d := fst (f (q_last st) t)) in *. set (l' := snd (f (q_last st) t)) in *.
  (* facts about old log entries, re-stated for the new last and now *)
  assert (Hlog' : forall o, In o (q_log st) ->
            match o with
            | OArrive i t0 g => i = i0 /\ t0 <= t /\ (g = l' \/ g + delta <= l')
            | ORun i s => i = i0 /\ s <= t
            end).
  { intros o Ho. pose proof (iv_log st I o Ho) as H. destruct o; lia. }
  assert (Hpair' : forall t1 g1 t2 g2,
            In (OArrive i0 t1 g1) (OArrive i0 t (t + d) :: q_log st) ->
            In (OArrive i0 t2 g2) (OArrive i0 t (t + d) :: q_log st) ->
            g1 = g2 \/ g1 + delta <= g2 \/ g2 + delta <= g1).
  { intros t1 g1 t2 g2 [E1|H1] [E2|H2].
    - injection E1 as <- <-. injection E2 as <- <-. now left.
    - injection E1 as <- <-. pose proof (Hlog' _ H2) as H. cbn in H. lia.
    - injection E2 as <- <-. pose proof (Hlog' _ H1) as H. cbn in H. lia.
    - eapply (iv_pair st I); eassumption. }
  destruct (Z.leb_spec d 0) as [Hd|Hd].
  - (* delay <= 0: Add right away *)
    destruct (when_nonpos delta wait (q_last st) t Hdelta Hwait Hd) as (Hle & Hl' & Hd0).
    fold f in Hl', Hd0. fold l' in Hl'. fold d in Hd0.
    injection Hap as <-. unfold q_add. cbn [q_dirty q_fifo q_proc processing q_now q_last q_wait q_log].
    destruct (iv_fifo st I) as [(Ef & Ed)|(Ef & Ed & Ep & Hg & _)].
    2:{ (* the item is queued already: then now = t is a grant <= last, impossible *)
        exfalso. pose proof (dues_fifo st t _ _ Hdues Ep Ef).
        pose proof (grant_le_last st _ I Hg). lia. }
    rewrite Ed, Ef. cbn [mem existsb app].
    pose proof (iv_proc st I) as Hp. destruct (q_proc st) as [[i e]|] eqn:Ep.
    { (* still processing: the callback would be longer than the interval *)
      exfalso. destruct Hp as (_ & _ & R & rest & HR & He).
      pose proof (dues_proc st t _ _ Hdues Ep).
      destruct (iv_runs st I) as [_ Hrg]. pose proof (grant_le_last st _ I (Hrg _ _ HR)). lia. }
    (* idle: the item is queued *)
    assert (Hw : q_wait st = []).
    { destruct (iv_wait st I) as [E|(r & E & _ & Hgr & _)]; [exact E|exfalso].
      pose proof (dues_wait st t r i0 Hdues) as H. rewrite E in H. specialize (H (or_introl eq_refl)).
      pose proof (grant_le_last st _ I Hgr). lia. }
    constructor; [cbn [q_log q_now q_last q_wait q_fifo q_dirty q_proc] .. |].
    + intros o [<-|Ho]; [cbn; lia|]. apply Hlog'; exact Ho.
    + exact Hpair'.
    + left. exact Hw.
    + right. repeat split; try reflexivity.
      * exists t. left. f_equal. lia.
      * intros r E. rewrite Hw in E. discriminate.
      * intros R rest HR. cbn [runs] in HR. destruct (iv_runs st I) as [_ Hrg].
        pose proof (grant_le_last st _ I (Hrg _ _ HR)). lia.
    + exact Logic.I.
    + cbn [runs]. destruct (iv_runs st I) as [Hs Hrg]. split; [exact Hs|].
      intros R rest HR. apply is_grant_cons. eapply Hrg; exact HR.
    + apply keep_A_arrive. exact (iv_A st I).
    + apply (keep_C_arrive st _ i0 t (t + d)); cbn [q_log q_now q_fifo q_wait]; try reflexivity.
      * split; [lia|]. right. now left.
      * intros i g _ (Hng & Hpend). destruct Hpend as [(r & Hin & _)|Hin].
        -- rewrite Hw in Hin. destruct Hin.
        -- rewrite Ef in Hin. destruct Hin.
      * exact (iv_C st I).
  - (* positive delay: the waiting loop keeps the earliest deadline *)
    assert (Hgt : t < l') by lia.
    injection Hap as <-.
    assert (Hwi : (q_wait st = [] /\ wait_insert i0 (t + d) (q_wait st) = [(i0, t + d)]) \/
                  (exists r, q_wait st = [(i0, r)] /\ wait_insert i0 (t + d) (q_wait st) = [(i0, r)] /\
                             t <= r /\ r <= t + d /\ is_grant (q_log st) r /\
                             head_run (fun R => R < r) (q_log st))).
    { destruct (iv_wait st I) as [E|(r & E & _ & Hgr & Hh)]; [left; rewrite E; split; reflexivity|].
      right. exists r. rewrite E. cbn [wait_insert]. rewrite eqb_i0.
      pose proof (dues_wait st t r i0 Hdues) as H. rewrite E in H. specialize (H (or_introl eq_refl)).
      pose proof (grant_le_last st _ I Hgr).
      destruct (Z.ltb_spec (t + d) r); [lia|]. repeat split; try assumption; lia. }
    constructor; [cbn [q_log q_now q_last q_wait q_fifo q_dirty q_proc] .. |].
    + intros o [<-|Ho]; [cbn; lia|]. apply Hlog'; exact Ho.
    + exact Hpair'.
    + right. destruct Hwi as [(_ & ->)|(r & _ & -> & Htr & _ & Hgr & Hh)].
      * exists (t + d). repeat split; [lia|exists t; now left|].
        intros R rest HR. cbn [runs] in HR. pose proof (head_run_le_now st _ _ I HR). lia.
      * exists r. repeat split; [exact Htr|apply is_grant_cons; exact Hgr|].
        intros R rest HR. cbn [runs] in HR. eapply Hh; exact HR.
    + destruct (iv_fifo st I) as [(Ef & Ed)|(Ef & Ed & Ep & Hg & Hwr & Hh)]; [left; auto|right].
      pose proof (dues_fifo st t _ _ Hdues Ep Ef) as Htn. assert (t = q_now st) as -> by lia.
      repeat split; try assumption.
      * apply is_grant_cons; exact Hg.
      * intros r' E'. destruct Hwi as [(_ & Ew)|(r & E & Ew & _)]; rewrite Ew in E'; injection E' as <-.
        -- lia.
        -- apply Hwr; exact E.
    + pose proof (iv_proc st I) as Hp. destruct (q_proc st) as [[i e]|] eqn:Ep; [|exact Logic.I].
      destruct Hp as (-> & _ & Hr). repeat split; [|exact Hr].
      eapply dues_proc; eassumption.
    + cbn [runs]. destruct (iv_runs st I) as [Hs Hrg]. split; [exact Hs|].
      intros R rest HR. apply is_grant_cons. eapply Hrg; exact HR.
    + apply keep_A_arrive. exact (iv_A st I).
    + apply (keep_C_arrive st _ i0 t (t + d)); cbn [q_log q_now q_fifo q_wait]; try reflexivity.
      * split; [lia|]. left. destruct Hwi as [(_ & ->)|(r & _ & -> & _ & Hr & _)].
        -- exists (t + d). split; [now left|lia].
        -- exists r. split; [now left|exact Hr].
      * intros i g _ (Hng & Hpend). destruct Hpend as [(r & Hin & Hrg)|Hin].
        -- pose proof (dues_wait st t r i Hdues Hin).
           split; [lia|]. left. exists r. split; [|exact Hrg].
           destruct Hwi as [(E & _)|(r0 & E & -> & _)]; [rewrite E in Hin; destruct Hin|].
           rewrite E in Hin. exact Hin.
        -- destruct (iv_fifo st I) as [(Ef & _)|(Ef & _ & Ep & _)]; [rewrite Ef in Hin; destruct Hin|].
           pose proof (dues_fifo st t _ _ Hdues Ep Ef). split; [lia|]. now right.
      * exact (iv_C st I).
Qed.

Lemma inv_fire st t i st' :
  Inv st -> q_now st <= t -> forallb (fun d => t <=? d) (dues st) = true ->
  qevent_apply f D st t (Fire i) = Some st' -> Inv st'.
Proof.
  intros I Hnow Hdues Hap. cbn [qevent_apply] in Hap.
  destruct (iv_wait st I) as [E|(r & E & Hnr & Hgr & Hh)]; rewrite E in Hap; cbn [wait_find] in Hap;
    [discriminate|].
  destruct (Nat.eqb_spec i i0) as [->|Hne]; [|discriminate].
  destruct (Z.leb_spec r t) as [Hrt|]; [|discriminate].
  pose proof (dues_wait st t r i0 Hdues) as Htr. rewrite E in Htr. specialize (Htr (or_introl eq_refl)).
  assert (t = r) as -> by lia. clear Hrt Htr.
  injection Hap as <-. unfold q_add, wait_remove.
  cbn [q_dirty q_fifo q_proc processing q_now q_last q_wait q_log filter fst]. rewrite eqb_i0. cbn [negb].
  destruct (iv_fifo st I) as [(Ef & Ed)|(Ef & Ed & Ep & _ & Hwr & _)].
  2:{ exfalso. pose proof (dues_fifo st r _ _ Hdues Ep Ef). specialize (Hwr r E). lia. }
  rewrite Ed, Ef. cbn [mem existsb app].
  pose proof (iv_proc st I) as Hp. destruct (q_proc st) as [[j e]|] eqn:Ep.
  { exfalso. destruct Hp as (_ & _ & R & rest & HR & He).
    pose proof (dues_proc st r _ _ Hdues Ep).
    destruct (iv_runs st I) as [_ Hrg].
    pose proof (grants_apart st R r I (Hrg _ _ HR) Hgr (Hh _ _ HR)). lia. }
  constructor; [cbn [q_log q_now q_last q_wait q_fifo q_dirty q_proc] .. |].
  - intros o Ho. pose proof (iv_log st I o Ho) as H. destruct o; lia.
  - exact (iv_pair st I).
  - now left.
  - right. repeat split; try reflexivity.
    + exact Hgr.
    + intros r' E'. discriminate.
    + intros R rest HR. destruct (iv_runs st I) as [_ Hrg].
      exact (grants_apart st R r I (Hrg _ _ HR) Hgr (Hh _ _ HR)).
  - exact Logic.I.
  - exact (iv_runs st I).
  - exact (iv_A st I).
  - apply (keep_C st); cbn [q_log q_now q_fifo q_wait]; [reflexivity| |exact (iv_C st I)].
    intros i g _ (Hng & Hpend). destruct Hpend as [(r' & Hin & Hr'g)|Hin].
    + rewrite E in Hin. destruct Hin as [[= -> ->]|[]]. split; [exact Hr'g|]. right. now left.
    + rewrite Ef in Hin. destruct Hin.
Qed.

Lemma inv_get st t d st' :
  Inv st -> q_now st <= t -> forallb (fun d => t <=? d) (dues st) = true ->
  qevent_apply f D st t (Get d) = Some st' -> Inv st'.
Proof.
  intros I Hnow Hdues Hap. cbn [qevent_apply] in Hap.
  destruct (q_proc st) as [[j e]|] eqn:Ep; [discriminate|].
  destruct (iv_fifo st I) as [(Ef & Ed)|(Ef & Ed & _ & Hg & Hwr & Hh)]; rewrite Ef in Hap; [discriminate|].
  destruct ((0 <=? d) && (d <=? D)) eqn:Hb; [|discriminate].
  apply andb_true_iff in Hb as [Hd0 HdD]. apply Z.leb_le in Hd0, HdD.
  pose proof (dues_fifo st t _ _ Hdues Ep Ef). assert (t = q_now st) as -> by lia.
  injection Hap as <-. rewrite Ed. unfold remove_item. cbn [filter]. rewrite eqb_i0. cbn [negb].
  constructor; [cbn [q_log q_now q_last q_wait q_fifo q_dirty q_proc] .. |].
  - intros o [<-|Ho]; [cbn; split; [reflexivity|lia]|]. exact (iv_log st I o Ho).
  - intros t1 g1 t2 g2 [E1|H1] [E2|H2]; try discriminate. eapply (iv_pair st I); eassumption.
  - destruct (iv_wait st I) as [E|(r & E & Hnr & Hgr & _)]; [now left|right].
    exists r. repeat split; [exact E|exact Hnr|apply is_grant_cons; exact Hgr|].
    intros R rest HR. cbn [runs] in HR. injection HR as <- _. apply Hwr; exact E.
  - now left.
  - repeat split; [lia|]. exists (q_now st), (runs (q_log st)). split; [reflexivity|lia].
  - cbn [runs]. destruct (iv_runs st I) as [Hs Hrg]. split.
    + destruct (runs (q_log st)) as [|R rest] eqn:HR; [exact Logic.I|]. split; [|exact Hs].
      exact (Hh _ _ HR).
    + intros R rest HR. injection HR as <- _. apply is_grant_cons; exact Hg.
  - intros post i s pre Hs.
    destruct (split_cons _ _ _ _ _ Hs) as [(_ & [= <- <-] & ->)|(post' & -> & Hs')].
    + exact Hg.
    + eapply (iv_A st I); exact Hs'.
  - intros post i t g pre Hs.
    destruct (split_cons _ _ _ _ _ Hs) as [(_ & Ho & _)|(post' & -> & Hs')]; [discriminate|].
    assert (Hin : In (OArrive i t g) (q_log st)) by (rewrite Hs'; apply in_or_app; right; now left).
    pose proof (iv_log st I _ Hin) as (-> & Htn & _).
    destruct (iv_C st I _ _ _ _ _ Hs') as [(s & Hin' & Hb)|(Hng & Hpend)].
    + left. exists s. split; [now right|exact Hb].
    + destruct Hpend as [(r & Hinw & Hrg)|_].
      * right. split; [exact Hng|]. left. exists r. split; assumption.
      * left. exists (q_now st). split; [now left|lia].
Qed.

Lemma inv_done st t st' :
  Inv st -> q_now st <= t -> forallb (fun d => t <=? d) (dues st) = true ->
  qevent_apply f D st t Done = Some st' -> Inv st'.
Proof.
  intros I Hnow Hdues Hap. cbn [qevent_apply] in Hap.
  pose proof (iv_proc st I) as Hp. destruct (q_proc st) as [[j e]|] eqn:Ep; [|discriminate].
  destruct (Z.leb_spec e t) as [Het|]; [|discriminate].
  destruct (iv_fifo st I) as [(Ef & Ed)|(_ & _ & Ep' & _)]; [|congruence].
  injection Hap as <-. rewrite Ed, Ef. cbn [mem existsb].
  constructor; [cbn [q_log q_now q_last q_wait q_fifo q_dirty q_proc] .. |].
  - intros o Ho. pose proof (iv_log st I o Ho) as H. destruct o; lia.
  - exact (iv_pair st I).
  - destruct (iv_wait st I) as [E|(r & E & _ & Hgr & Hh)]; [now left|right].
    exists r. repeat split; try assumption.
    pose proof (dues_wait st t r i0 Hdues) as H. rewrite E in H. exact (H (or_introl eq_refl)).
  - now left.
  - exact Logic.I.
  - exact (iv_runs st I).
  - exact (iv_A st I).
  - apply (keep_C st); cbn [q_log q_now q_fifo q_wait]; [reflexivity| |exact (iv_C st I)].
    intros i g _ (Hng & Hpend). destruct Hpend as [(r & Hin & Hrg)|Hin].
    + pose proof (dues_wait st t r i Hdues Hin). split; [lia|]. left. exists r. split; assumption.
    + rewrite Ef in Hin. destruct Hin.
Qed.

Lemma inv_forget st t i st' :
  Inv st -> q_now st <= t -> forallb (fun d => t <=? d) (dues st) = true ->
  qevent_apply f D st t (Forget i) = Some st' -> Inv st'.
Proof.
  intros I Hnow Hdues Hap. cbn [qevent_apply] in Hap. unfold reload_forget in Hap. injection Hap as <-.
  constructor; [cbn [q_log q_now q_last q_wait q_fifo q_dirty q_proc] .. |].
  - intros o Ho. pose proof (iv_log st I o Ho) as H. destruct o; lia.
  - exact (iv_pair st I).
  - destruct (iv_wait st I) as [E|(r & E & _ & Hgr & Hh)]; [now left|right].
    exists r. repeat split; try assumption.
    pose proof (dues_wait st t r i0 Hdues) as H. rewrite E in H. exact (H (or_introl eq_refl)).
  - destruct (iv_fifo st I) as [(Ef & Ed)|(Ef & Ed & Ep & Hg & Hwr & Hh)]; [left; auto|right].
    pose proof (dues_fifo st t _ _ Hdues Ep Ef). assert (t = q_now st) as -> by lia.
    repeat split; assumption.
  - pose proof (iv_proc st I) as Hp. destruct (q_proc st) as [[j e]|] eqn:Ep; [|exact Logic.I].
    destruct Hp as (-> & _ & Hr). repeat split; [|exact Hr]. eapply dues_proc; eassumption.
  - exact (iv_runs st I).
  - exact (iv_A st I).
  - apply (keep_C st); cbn [q_log q_now q_fifo q_wait]; [reflexivity| |exact (iv_C st I)].
    intros j g _ (Hng & Hpend). destruct Hpend as [(r & Hin & Hrg)|Hin].
    + pose proof (dues_wait st t r j Hdues Hin). split; [lia|]. left. exists r. split; assumption.
    + destruct (iv_fifo st I) as [(Ef & _)|(Ef & _ & Ep & _)]; [rewrite Ef in Hin; destruct Hin|].
      pose proof (dues_fifo st t _ _ Hdues Ep Ef). split; [lia|]. now right.
Qed.

Lemma inv_step st e st' :
  Inv st -> (forall i, snd e = Arrive i -> i = i0) -> (forall i d, snd e <> Retry i d) ->
  qstep f D st e = Some st' -> Inv st'.
Proof.
  intros I Hi Hnr. unfold qstep.
  destruct ((q_now st <=? fst e) && forallb (fun d => fst e <=? d) (dues st)) eqn:Hb; [|discriminate].
  apply andb_true_iff in Hb as [Hn Hd]. apply Z.leb_le in Hn. destruct e as [t ev]. cbn [fst snd] in *.
  destruct ev as [i|i|d| |i|i d].
  - rewrite (Hi i eq_refl). now apply inv_arrive.
  - now apply inv_fire.
  - now apply inv_get.
  - now apply inv_done.
  - eapply inv_forget; eassumption.
  - exfalso. exact (Hnr i d eq_refl).
Qed.

Lemma inv_exec tr : forall st st',
  Inv st -> arrives_only i0 tr -> no_retry tr -> qexec f D st tr = Some st' -> Inv st'.
Proof.
  induction tr as [|e tr IH]; intros st st' I Ha Hn Hx; cbn [qexec] in Hx.
  - injection Hx as <-. exact I.
  - destruct (qstep f D st e) as [st1|] eqn:E; [|discriminate].
    apply (IH st1 st'); [|intros t i Hin; apply (Ha t i); now right
                         |intros t i d Hin; apply (Hn t i d); now right|exact Hx].
    eapply inv_step; [exact I| | |exact E].
    + intros i Hi. destruct e as [t ev]. cbn [snd] in Hi. subst ev. apply (Ha t i). now left.
    + intros i d Hi. destruct e as [t ev]. cbn [snd] in Hi. subst ev. apply (Hn t i d). now left.
Qed.

(* (4) on the queue model, one kind of item, callbacks shorter than the interval *)
Theorem queue_single_kind last0 t0 tr st :
  arrives_only i0 tr -> no_retry tr ->
  qexec f D (q_init last0 t0) tr = Some st ->
  (* every hand-over to the callback happens at the grant instant of an earlier notification *)
  (forall post i s pre, q_log st = post ++ ORun i s :: pre -> exists t, In (OArrive i t s) pre) /\
  (* two hand-overs are at least delta apart *)
  (forall l3 i s2 l2 j s1 l1, q_log st = l3 ++ ORun i s2 :: l2 ++ ORun j s1 :: l1 -> s1 + delta <= s2) /\
  (* no notification is dropped: it is followed by a hand-over no later than its grant, or
     that instant has not passed yet and the item is waiting for it / queued *)
  (forall post i t g pre, q_log st = post ++ OArrive i t g :: pre ->
     (exists s, In (ORun i s) post /\ t <= s <= g) \/ (q_now st <= g /\ pending_by i g st)).
Proof.
  intros Ha Hn Hx. pose proof (inv_exec tr _ _ (inv_init last0 t0) Ha Hn Hx) as I.
  split; [exact (iv_A st I)|]. split; [|exact (iv_C st I)].
  intros l3 i s2 l2 j s1 l1 E. destruct (iv_runs st I) as [Hs _].
  rewrite E, runs_app in Hs. apply spaced_desc_app_r in Hs. cbn [runs] in Hs.
  rewrite runs_app in Hs. cbn [runs] in Hs.
  eapply spaced_desc_all; [lia|exact Hs|]. apply in_or_app. right. now left.
Qed.

(* once the grant instant is past, the hand-over has happened *)
Corollary queue_single_kind_served last0 t0 tr st post i t g pre :
  arrives_only i0 tr -> no_retry tr ->
  qexec f D (q_init last0 t0) tr = Some st ->
  q_log st = post ++ OArrive i t g :: pre -> g < q_now st ->
  exists s, In (ORun i s) post /\ t <= s <= g.
Proof.
  intros Ha Hn Hx E Hlt. destruct (queue_single_kind last0 t0 tr st Ha Hn Hx) as (_ & _ & HC).
  destruct (HC _ _ _ _ _ E) as [H|(H & _)]; [exact H|lia].
Qed.

End Single.

(* ---------- the reload queue: same limiter shape with wait = 0 ---------- *)

Lemma qstep_ext (f g : whenfn) : (forall l n, f l n = g l n) ->
  forall D st e, qstep f D st e = qstep g D st e.
Proof.
  intros E D st [t ev]. unfold qstep. cbn [fst snd].
  destruct ((q_now st <=? t) && forallb (fun d => t <=? d) (dues st)); [|reflexivity].
  destruct ev; cbn [qevent_apply]; try reflexivity. now rewrite E.
Qed.

Lemma qexec_ext (f g : whenfn) : (forall l n, f l n = g l n) ->
  forall D tr st, qexec f D st tr = qexec g D st tr.
Proof.
  intros E D tr; induction tr as [|e tr IH]; intros st; [reflexivity|].
  cbn [qexec]. rewrite (qstep_ext f g E). destruct (qstep g D st e); [apply IH|reflexivity].
Qed.

Theorem queue_reload interval D : 0 < interval -> 0 <= D -> D < interval ->
  forall i0 last0 t0 tr st,
  arrives_only i0 tr -> no_retry tr ->
  qexec (reload_when interval) D (q_init last0 t0) tr = Some st ->
  (forall post i s pre, q_log st = post ++ ORun i s :: pre -> exists t, In (OArrive i t s) pre) /\
  (forall l3 i s2 l2 j s1 l1, q_log st = l3 ++ ORun i s2 :: l2 ++ ORun j s1 :: l1 -> s1 + interval <= s2) /\
  (forall post i t g pre, q_log st = post ++ OArrive i t g :: pre ->
     (exists s, In (ORun i s) post /\ t <= s <= g) \/ (q_now st <= g /\ pending_by i g st)).
Proof.
  intros Hi HD0 HD i0 last0 t0 tr st Ha Hn Hx.
  rewrite (qexec_ext _ _ (reload_is_reconciler interval)) in Hx.
  exact (queue_single_kind interval 0 D Hi (Z.le_refl 0) HD0 HD i0 last0 t0 tr st Ha Hn Hx).
Qed.

(* ---------- any number of kinds, any callback duration, any limiter: nothing is dropped ---------- *)

Lemma mem_app i l j : mem i (l ++ [j]) = mem i l || Nat.eqb i j.
Proof.
  unfold mem. rewrite existsb_app. cbn [existsb]. now rewrite orb_false_r.
Qed.

Lemma mem_remove j i l : mem j (remove_item i l) = mem j l && negb (Nat.eqb i j).
Proof.
  unfold mem, remove_item. induction l as [|x l IH]; cbn [filter existsb]; [reflexivity|].
  destruct (Nat.eqb_spec i x) as [->|Hne]; cbn [negb].
  - rewrite IH. destruct (Nat.eqb_spec j x) as [->|Hjx]; cbn [orb].
    + rewrite Nat.eqb_refl. cbn [negb]. now rewrite andb_false_r.
    + reflexivity.
  - cbn [existsb]. rewrite IH. destruct (Nat.eqb_spec j x) as [->|Hjx]; cbn [orb]; [|reflexivity].
    destruct (Nat.eqb_spec i x); [contradiction|]. cbn [negb]. now rewrite andb_true_r.
Qed.

Lemma mem_in i l : mem i l = true <-> In i l.
Proof.
  unfold mem. rewrite existsb_exists. split.
  - intros (x & Hx & E). apply Nat.eqb_eq in E. now subst.
  - intros H. exists i. split; [exact H|apply Nat.eqb_refl].
Qed.

Lemma wait_find_insert_same i r w : wait_find i (wait_insert i r w) <> None.
Proof.
  induction w as [|[j rj] w IH]; cbn [wait_insert wait_find].
  - rewrite Nat.eqb_refl. discriminate.
  - destruct (Nat.eqb_spec i j) as [->|Hne].
    + destruct (r <? rj); cbn [wait_find]; rewrite Nat.eqb_refl; discriminate.
    + cbn [wait_find]. destruct (Nat.eqb_spec i j); [contradiction|exact IH].
Qed.

Lemma wait_find_insert_other j i r w : j <> i -> wait_find j (wait_insert i r w) = wait_find j w.
Proof.
  intros Hne. induction w as [|[k rk] w IH]; cbn [wait_insert wait_find].
  - destruct (Nat.eqb_spec j i); [contradiction|reflexivity].
  - destruct (Nat.eqb_spec i k) as [->|Hik].
    + destruct (r <? rk); cbn [wait_find]; destruct (Nat.eqb_spec j k); try contradiction; reflexivity.
    + cbn [wait_find]. destruct (Nat.eqb_spec j k); [reflexivity|exact IH].
Qed.

Lemma wait_find_remove_other j i w : j <> i -> wait_find j (wait_remove i w) = wait_find j w.
Proof.
  intros Hne. unfold wait_remove. induction w as [|[k rk] w IH]; cbn [filter wait_find fst]; [reflexivity|].
  destruct (Nat.eqb_spec i k) as [->|Hik]; cbn [negb wait_find].
  - destruct (Nat.eqb_spec j k); [contradiction|exact IH].
  - destruct (Nat.eqb_spec j k); [reflexivity|exact IH].
Qed.

(* the item is on its way to the callback: waiting for its timer, or marked dirty, and a
   dirty item is in the queue or is being processed (Done will queue it again) *)
Definition on_its_way (i : item) (st : qstate) : Prop :=
  wait_find i (q_wait st) <> None \/ mem i (q_dirty st) = true.

Record NInv (st : qstate) : Prop := {
  nv_dirty : forall i, mem i (q_dirty st) = true -> In i (q_fifo st) \/ processing i st = true;
  nv_served : forall post i t g pre, q_log st = post ++ OArrive i t g :: pre ->
                (exists s, In (ORun i s) post) \/ on_its_way i st
}.

Lemma q_add_spec i st :
  q_log (q_add i st) = q_log st /\ q_wait (q_add i st) = q_wait st /\ q_proc (q_add i st) = q_proc st /\
  mem i (q_dirty (q_add i st)) = true /\
  (forall j, mem j (q_dirty st) = true -> mem j (q_dirty (q_add i st)) = true) /\
  (forall j, In j (q_fifo st) -> In j (q_fifo (q_add i st))) /\
  (forall j, mem j (q_dirty (q_add i st)) = true ->
     mem j (q_dirty st) = true \/ (j = i /\ (In i (q_fifo (q_add i st)) \/ processing i st = true))).
Proof.
  unfold q_add. destruct (mem i (q_dirty st)) eqn:Em.
  - repeat split; auto.
  - cbn [q_log q_wait q_proc q_dirty q_fifo]. repeat split.
    + rewrite mem_app, Nat.eqb_refl. apply orb_true_r.
    + intros j Hj. rewrite mem_app, Hj. reflexivity.
    + intros j Hj. destruct (processing i st); [exact Hj|apply in_or_app; now left].
    + intros j Hj. rewrite mem_app in Hj. apply orb_true_iff in Hj as [Hj|Hj]; [now left|].
      apply Nat.eqb_eq in Hj. subst j. right. split; [reflexivity|].
      destruct (processing i st); [now right|left; apply in_or_app; right; now left].
Qed.

Lemma ninv_init last now : NInv (q_init last now).
Proof.
  constructor; cbn [q_init q_dirty q_log].
  - intros i H. discriminate.
  - intros post i t g pre H. destruct post; discriminate.
Qed.

Lemma ninv_arrive f D st t i st' :
  NInv st -> qevent_apply f D st t (Arrive i) = Some st' -> NInv st'.
Proof.
  intros [Hd Hs]. cbn [qevent_apply].
    set (r := f (q_last st) t).
    set (st1 := {| q_now := t; q_last := snd r; q_wait := q_wait st; q_fifo := q_fifo st;
                   q_dirty := q_dirty st; q_proc := q_proc st;
                   q_log := OArrive i t (t + fst r) :: q_log st |}).
    destruct (fst r <=? 0); intros [= <-].
    + destruct (q_add_spec i st1) as (El & Ew & Ep & Hi & Hmono & Hfifo & Hnew).
      constructor.
      * intros j Hj. destruct (Hnew j Hj) as [Hold|(-> & Hq)].
        -- destruct (Hd j Hold) as [H|H]; [left; apply Hfifo; exact H|right].
           unfold processing in *. rewrite Ep. exact H.
        -- destruct Hq as [H|H]; [now left|right]. unfold processing in *. rewrite Ep. exact H.
      * intros post j t0 g pre E. rewrite El in E. cbn [st1 q_log] in E.
        destruct (split_cons _ _ _ _ _ E) as [(-> & [= <- <- <-] & ->)|(post' & -> & E')].
        -- right. right. exact Hi.
        -- destruct (Hs _ _ _ _ _ E') as [(s & Hin)|[Hw|Hm]].
           ++ left. exists s. now right.
           ++ right. left. rewrite Ew. exact Hw.
           ++ right. right. apply Hmono. exact Hm.
    + constructor; cbn [q_dirty q_fifo q_proc q_log q_wait processing].
      * exact Hd.
      * intros post j t0 g pre E.
        destruct (split_cons _ _ _ _ _ E) as [(-> & [= <- <- <-] & ->)|(post' & -> & E')].
        -- right. left. apply wait_find_insert_same.
        -- destruct (Hs _ _ _ _ _ E') as [(s & Hin)|[Hw|Hm]].
           ++ left. exists s. now right.
           ++ right. left. cbn [q_wait]. destruct (Nat.eq_dec j i) as [->|Hne].
              ** apply wait_find_insert_same.
              ** rewrite wait_find_insert_other by exact Hne. exact Hw.
           ++ right. right. exact Hm.
Qed.

Lemma retry_is_arrive f D st t i d :
  qevent_apply f D st t (Retry i d) = qevent_apply (fun _ _ => (d, q_last st)) D st t (Arrive i).
Proof. reflexivity. Qed.

Lemma ninv_step f D st e st' : NInv st -> qstep f D st e = Some st' -> NInv st'.
Proof.
  intros I. pose proof I as [Hd Hs]. unfold qstep.
  destruct ((q_now st <=? fst e) && forallb (fun d => fst e <=? d) (dues st)); [|discriminate].
  destruct e as [t ev]. cbn [fst snd]. destruct ev as [i|i|d| |i|i d0].
  6:{ rewrite retry_is_arrive. apply ninv_arrive. exact I. }
  5:{ cbn [qevent_apply]. intros [= <-]. constructor; [exact Hd|exact Hs]. }
  1:{ apply ninv_arrive. exact I. }
  all: cbn [qevent_apply].
  - (* Fire *)
    destruct (wait_find i (q_wait st)) as [r|] eqn:Ef; [|discriminate].
    destruct (r <=? t); intros [= <-].
    set (st1 := {| q_now := t; q_last := q_last st; q_wait := wait_remove i (q_wait st);
                   q_fifo := q_fifo st; q_dirty := q_dirty st; q_proc := q_proc st; q_log := q_log st |}).
    destruct (q_add_spec i st1) as (El & Ew & Ep & Hi & Hmono & Hfifo & Hnew).
    constructor.
    + intros j Hj. destruct (Hnew j Hj) as [Hold|(-> & Hq)].
      * destruct (Hd j Hold) as [H|H]; [left; apply Hfifo; exact H|right].
        unfold processing in *. rewrite Ep. exact H.
      * destruct Hq as [H|H]; [now left|right]. unfold processing in *. rewrite Ep. exact H.
    + intros post j t0 g pre E. rewrite El in E. cbn [st1 q_log] in E.
      destruct (Hs _ _ _ _ _ E) as [H|[Hw|Hm]]; [now left| |].
      * right. destruct (Nat.eq_dec j i) as [->|Hne]; [right; exact Hi|left].
        rewrite Ew. cbn [st1 q_wait]. rewrite wait_find_remove_other by exact Hne. exact Hw.
      * right. right. apply Hmono. exact Hm.
  - (* Get *)
    destruct (q_proc st) as [[j e]|] eqn:Ep; [discriminate|].
    destruct (q_fifo st) as [|i rest] eqn:Eq; [discriminate|].
    destruct ((0 <=? d) && (d <=? D)); intros [= <-].
    constructor; cbn [q_dirty q_fifo q_proc q_log q_wait processing].
    + intros j Hj. rewrite mem_remove in Hj. apply andb_true_iff in Hj as [Hj Hne].
      destruct (Nat.eqb_spec i j) as [->|Hij]; [discriminate|].
      destruct (Hd j Hj) as [[E|H]|H]; [contradiction|now left|].
      unfold processing in H. rewrite Ep in H. discriminate.
    + intros post j t0 g pre E.
      destruct (split_cons _ _ _ _ _ E) as [(_ & Ho & _)|(post' & -> & E')]; [discriminate|].
      destruct (Nat.eq_dec j i) as [->|Hne].
      * left. exists t. now left.
      * destruct (Hs _ _ _ _ _ E') as [(s & Hin)|[Hw|Hm]].
        -- left. exists s. now right.
        -- right. left. exact Hw.
        -- right. right. cbn [q_dirty]. rewrite mem_remove, Hm.
           destruct (Nat.eqb_spec i j); [congruence|reflexivity].
  - (* Done *)
    destruct (q_proc st) as [[i e]|] eqn:Ep; [|discriminate].
    destruct (e <=? t); intros [= <-].
    constructor; cbn [q_dirty q_fifo q_proc q_log q_wait processing].
    + intros j Hj. left. destruct (Hd j Hj) as [H|H].
      * destruct (mem i (q_dirty st)); [apply in_or_app; now left|exact H].
      * unfold processing in H. rewrite Ep in H. apply Nat.eqb_eq in H. subst j.
        rewrite Hj. apply in_or_app. right. now left.
    + intros post j t0 g pre E. destruct (Hs _ _ _ _ _ E) as [H|H]; [now left|right; exact H].
Qed.

(* Whatever the limiter, the number of kinds and the callback durations: a notification is
   followed by a hand-over of its item, or the item is still waiting for its timer or marked
   dirty -- and a dirty item is queued or will be queued when the running callback returns *)
Theorem queue_never_drops f D last0 t0 tr st :
  qexec f D (q_init last0 t0) tr = Some st ->
  (forall post i t g pre, q_log st = post ++ OArrive i t g :: pre ->
     (exists s, In (ORun i s) post) \/ on_its_way i st) /\
  (forall i, mem i (q_dirty st) = true -> In i (q_fifo st) \/ processing i st = true).
Proof.
  assert (G : forall tr st0 st, NInv st0 -> qexec f D st0 tr = Some st -> NInv st).
  { induction tr0 as [|e tr0 IH]; intros st0 st1 I0 Hx; cbn [qexec] in Hx.
    - injection Hx as <-. exact I0.
    - destruct (qstep f D st0 e) as [st2|] eqn:E; [|discriminate].
      eapply IH; [|exact Hx]. eapply ninv_step; eassumption. }
  intros Hx. destruct (G tr _ _ (ninv_init last0 t0) Hx) as [Hd Hs]. split; assumption.
Qed.

(* ---------- non-vacuity ---------- *)

(* one kind, interval 2000, wait 200, callbacks 500 and 300: notifications at 0, 100, 250,
   2150 and 9000; hand-overs at 200 and 2200, the last notification waits for 9200 *)
Definition example_history : list (Z * qevent) :=
  [(0, Arrive 0%nat); (100, Arrive 0%nat); (200, Fire 0%nat); (200, Get 500); (250, Arrive 0%nat);
   (700, Done); (2150, Arrive 0%nat); (2200, Fire 0%nat); (2200, Get 300); (2500, Done);
   (9000, Arrive 0%nat)].

Example example_history_runs :
  arrives_only 0%nat example_history /\
  option_map q_log (qexec (reconciler_when 2000 200) 500 (q_init (-1000000) 0) example_history)
  = Some [OArrive 0%nat 9000 9200; ORun 0%nat 2200; OArrive 0%nat 2150 2200;
          OArrive 0%nat 250 2200; ORun 0%nat 200; OArrive 0%nat 100 200; OArrive 0%nat 0 200].
Proof.
  split; [|vm_compute; reflexivity].
  intros t i H. unfold example_history in H. cbn [In] in H.
  repeat (destruct H as [H|H]; [try discriminate; injection H as _ <-; reflexivity|]). destruct H.
Qed.

(* ---------- two kinds of item on one worker: spacing per kind is refuted ---------- *)

(* The ingress reconciler queue carries two items, rparam{fullsync:false} and
   rparam{fullsync:true}, which share the limiter and the single worker. When both are
   granted the same instant the second one is handed over only when the callback of the
   first returns (at g + d), and its next hand-over at g + delta is then delta - d after it.
   Interval 2000, wait 200, callbacks of 500: kind 1 is handed over at 700 and at 2200. *)
Definition two_kinds_history : list (Z * qevent) :=
  [(0, Arrive 0%nat); (100, Arrive 1%nat); (200, Fire 0%nat); (200, Fire 1%nat); (200, Get 500);
   (700, Done); (700, Get 500); (1000, Arrive 1%nat); (1200, Done); (2200, Fire 1%nat);
   (2200, Get 500)].

Lemma queue_two_kinds_spacing_refuted :
  exists delta wait D last0 t0 tr st l3 i s2 l2 s1 l1,
    0 < delta /\ 0 <= wait /\ 0 <= D < delta /\
    qexec (reconciler_when delta wait) D (q_init last0 t0) tr = Some st /\
    q_log st = l3 ++ ORun i s2 :: l2 ++ ORun i s1 :: l1 /\ s2 < s1 + delta.
Proof.
  exists 2000, 200, 500, (-1000000), 0, two_kinds_history.
  destruct (qexec (reconciler_when 2000 200) 500 (q_init (-1000000) 0) two_kinds_history) as [st|] eqn:E;
    [|vm_compute in E; discriminate].
  exists st, [], 1%nat, 2200, [OArrive 1%nat 1000 2200], 700,
    [ORun 0%nat 200; OArrive 1%nat 100 200; OArrive 0%nat 0 200].
  repeat split; try lia.
  vm_compute in E. injection E as <-. reflexivity.
Qed.
