(* Proofs for C03 (Model/Route.v). *)
From Coq Require Import List Bool String ZArith Ascii Lia Permutation Sorted.
From HI Require Import Model.Route.
Import ListNotations.
Open Scope string_scope.
Open Scope list_scope.

(* ------------------------------------------------------------------ generic helpers *)

Lemma fold_left_snoc_inv {A B} (f : A -> B -> A) (P : list B -> A -> Prop) (a0 : A) :
  P [] a0 -> (forall l a b, P l a -> P (l ++ [b]) (f a b)) ->
  forall l, P l (fold_left f l a0).
Proof.
  intros H0 Hs l. induction l using rev_ind.
  - exact H0.
  - rewrite fold_left_app. cbn. apply Hs. exact IHl.
Qed.

Lemma fold_left_flat_map {A B C} (f : A -> C -> A) (g : B -> list C) (l : list B) (a : A) :
  fold_left f (flat_map g l) a = fold_left (fun a b => fold_left f (g b) a) l a.
Proof.
  revert a. induction l as [|b l IH]; intros a; cbn.
  - reflexivity.
  - rewrite fold_left_app. apply IH.
Qed.

Lemma map_fst_filter {A B} (g : A -> bool) (l : list (A * B)) :
  map fst (filter (fun x => g (fst x)) l) = filter g (map fst l).
Proof.
  induction l as [|x l IH]; cbn; [reflexivity|].
  destruct (g (fst x)); cbn; rewrite IH; reflexivity.
Qed.

Lemma existsb_map {A B} (f : A -> B) (p : B -> bool) (l : list A) :
  existsb p (map f l) = existsb (fun x => p (f x)) l.
Proof. induction l; cbn; [reflexivity|]. rewrite IHl. reflexivity. Qed.

Lemma find_some_app {A} (p : A -> bool) (l l' : list A) (x : A) :
  find p l = Some x -> find p (l ++ l') = Some x.
Proof.
  induction l as [|y l IH]; cbn; [discriminate|].
  destruct (p y); [auto|]. exact IH.
Qed.

Lemma find_none_app {A} (p : A -> bool) (l l' : list A) :
  find p l = None -> find p (l ++ l') = find p l'.
Proof.
  induction l as [|y l IH]; cbn; [reflexivity|].
  destruct (p y); [discriminate|]. exact IH.
Qed.

(* ------------------------------------------------------------------ equality tests *)

Lemma ptype_eqb_eq a b : ptype_eqb a b = true <-> a = b.
Proof. destruct a, b; cbn; split; intros H; try reflexivity; discriminate. Qed.

Lemma ohost_eqb_eq a b : ohost_eqb a b = true <-> a = b.
Proof.
  destruct a as [x|], b as [y|]; cbn; split; intros H; try reflexivity; try discriminate.
  - apply String.eqb_eq in H. subst. reflexivity.
  - injection H as ->. apply String.eqb_refl.
Qed.

Lemma key_eqb_spec a b : key_eqb a b = true <-> dkey a = dkey b.
Proof.
  unfold key_eqb, dkey. rewrite !andb_true_iff, ohost_eqb_eq, String.eqb_eq, ptype_eqb_eq.
  split.
  - intros [[-> ->] ->]. reflexivity.
  - intros H. injection H as -> -> ->. auto.
Qed.

Lemma key_eqb_sym a b : key_eqb a b = key_eqb b a.
Proof.
  destruct (key_eqb a b) eqn:E1, (key_eqb b a) eqn:E2; try reflexivity.
  - apply key_eqb_spec in E1. symmetry in E1. apply key_eqb_spec in E1. congruence.
  - apply key_eqb_spec in E2. symmetry in E2. apply key_eqb_spec in E2. congruence.
Qed.

Lemma key_eqb_trans a b c : key_eqb a b = true -> key_eqb b c = true -> key_eqb a c = true.
Proof. rewrite !key_eqb_spec. congruence. Qed.

Lemma bkey_eqb_eq a b : bkey_eqb a b = true <-> a = b.
Proof.
  destruct a as [[a1 a2] a3], b as [[b1 b2] b3]. unfold bkey_eqb. cbn.
  rewrite !andb_true_iff, !String.eqb_eq. split.
  - intros [[-> ->] ->]. reflexivity.
  - intros H. injection H as -> -> ->. auto.
Qed.

Lemma bkey_eqb_refl a : bkey_eqb a a = true.
Proof. apply bkey_eqb_eq. reflexivity. Qed.

Lemma target_eqb_eq a b : target_eqb a b = true <-> a = b.
Proof.
  destruct a as [a1 a2], b as [b1 b2]. unfold target_eqb. cbn.
  rewrite andb_true_iff, String.eqb_eq, Z.eqb_eq. split.
  - intros [-> ->]. reflexivity.
  - intros H. injection H as -> ->. auto.
Qed.

Lemma target_dec (a b : target) : a = b \/ a <> b.
Proof.
  destruct (target_eqb a b) eqn:E.
  - left. apply target_eqb_eq. exact E.
  - right. intros H. apply target_eqb_eq in H. congruence.
Qed.

(* ------------------------------------------------------------------ (A) the servers of a service port *)

Definition no_dup_targets (l : list server) : Prop := NoDup (map sv_target l).

Lemma server_eta (s : server) : {| sv_ip := sv_ip s; sv_port := sv_port s; sv_drain := sv_drain s |} = s.
Proof. destruct s; reflexivity. Qed.

Lemma existsb_target (t : target) (l : list server) :
  existsb (fun s => target_eqb t (sv_target s)) l = true <-> In t (map sv_target l).
Proof.
  rewrite existsb_exists, in_map_iff. split.
  - intros [s [Hs E]]. apply target_eqb_eq in E. exists s. auto.
  - intros [s [E Hs]]. exists s. split; [exact Hs|]. apply target_eqb_eq. auto.
Qed.

Lemma mark_drain_targets t l : map sv_target (mark_drain t l) = map sv_target l.
Proof.
  induction l as [|s l IH]; cbn; [reflexivity|].
  destruct (target_eqb t (sv_target s)) eqn:E; cbn.
  - reflexivity.
  - rewrite IH. reflexivity.
Qed.

Lemma NoDup_snoc {A} (l : list A) (x : A) : NoDup l -> ~ In x l -> NoDup (l ++ [x]).
Proof.
  intros H Hx. apply (Permutation_NoDup (Permutation_cons_append l x)).
  constructor; assumption.
Qed.

Lemma acquire_no_dup b l t : no_dup_targets l -> no_dup_targets (acquire b l t).
Proof.
  unfold no_dup_targets, acquire. intros H. destruct t as [ip p].
  destruct (existsb (fun s => target_eqb (ip, p) (sv_target s)) l) eqn:E.
  - destruct b; [rewrite mark_drain_targets|]; exact H.
  - rewrite map_app. cbn.
    apply NoDup_snoc; [exact H|].
    intros Hin. change (In (ip, p) (map sv_target l)) in Hin.
    apply existsb_target in Hin. rewrite Hin in E. discriminate.
Qed.

Lemma server_ext (s : server) (t : target) (b : bool) :
  sv_target s = t -> sv_drain s = b -> s = {| sv_ip := fst t; sv_port := snd t; sv_drain := b |}.
Proof. destruct s as [i p d]. unfold sv_target. cbn. intros <- <-. reflexivity. Qed.

Lemma acquire_false_in l t s :
  In s (acquire false l t) <->
  In s l \/ (sv_drain s = false /\ sv_target s = t /\ ~ In t (map sv_target l)).
Proof.
  unfold acquire. destruct (existsb (fun s0 => target_eqb t (sv_target s0)) l) eqn:E.
  - apply existsb_target in E. split; [auto|]. intros [H|[_ [_ H]]]; [exact H|contradiction].
  - assert (Hn : ~ In t (map sv_target l)).
    { intros H. apply existsb_target in H. congruence. }
    rewrite in_app_iff. cbn. split.
    + intros [H|[H|[]]]; [left; exact H|]. right. subst s. destruct t. cbn. auto.
    + intros [H|[Hd [Ht _]]]; [left; exact H|]. right. left. symmetry. apply server_ext; assumption.
Qed.

Lemma mark_drain_in t l s : no_dup_targets l -> In t (map sv_target l) ->
  (In s (mark_drain t l) <-> (In s l /\ sv_target s <> t) \/ (sv_drain s = true /\ sv_target s = t)).
Proof.
  unfold no_dup_targets. induction l as [|s0 l IH]; cbn; intros Hnd Hin; [contradiction|].
  inversion Hnd as [|? ? Hnot Hnd']; subst.
  destruct (target_eqb t (sv_target s0)) eqn:E.
  - apply target_eqb_eq in E. subst t. cbn. split.
    + intros [H|H].
      * right. subst s. cbn. auto.
      * left. split; [right; exact H|]. intros Heq. apply Hnot. rewrite <- Heq. apply in_map. exact H.
    + intros [[[H|H] Hne]|[Hd Ht]].
      * subst s. contradiction.
      * right. exact H.
      * left. symmetry. rewrite (server_ext s (sv_target s0) true Ht Hd). reflexivity.
  - assert (Hne : sv_target s0 <> t).
    { intros H. subst t. rewrite (proj2 (target_eqb_eq _ _) eq_refl) in E. discriminate. }
    destruct Hin as [Hin|Hin]; [contradiction|].
    cbn. rewrite (IH Hnd' Hin). split.
    + intros [H|[[H Hn]|H]].
      * left. subst s. auto.
      * left. auto.
      * right. exact H.
    + intros [[[H|H] Hn]|H].
      * left. exact H.
      * right. left. auto.
      * right. right. exact H.
Qed.

Lemma acquire_true_in l t s : no_dup_targets l ->
  (In s (acquire true l t) <-> (In s l /\ sv_target s <> t) \/ (sv_drain s = true /\ sv_target s = t)).
Proof.
  intros Hnd. unfold acquire.
  destruct (existsb (fun s0 => target_eqb t (sv_target s0)) l) eqn:E.
  - apply existsb_target in E. apply mark_drain_in; assumption.
  - assert (Hn : ~ In t (map sv_target l)).
    { intros H. apply existsb_target in H. congruence. }
    rewrite in_app_iff. cbn. split.
    + intros [H|[H|[]]].
      * left. split; [exact H|]. intros Heq. apply Hn. rewrite <- Heq. apply in_map. exact H.
      * right. subst s. destruct t. cbn. auto.
    + intros [[H _]|[Hd Ht]]; [left; exact H|]. right. left. symmetry. apply server_ext; assumption.
Qed.

Lemma fold_acquire_no_dup b ts l : no_dup_targets l -> no_dup_targets (fold_left (acquire b) ts l).
Proof.
  revert l. induction ts as [|t ts IH]; intros l H; cbn; [exact H|].
  apply IH. apply acquire_no_dup. exact H.
Qed.

Lemma fold_acquire_false_in ts l s :
  In s (fold_left (acquire false) ts l) <->
  In s l \/ (sv_drain s = false /\ In (sv_target s) ts /\ ~ In (sv_target s) (map sv_target l)).
Proof.
  revert l. induction ts as [|t ts IH]; intros l; cbn.
  - split; [auto|]. intros [H|[_ [[] _]]]. exact H.
  - rewrite IH. rewrite acquire_false_in. split.
    + intros [[H|[Hd [Ht Hn]]]|[Hd [Hin Hn]]].
      * left. exact H.
      * right. subst t. auto.
      * destruct (target_dec (sv_target s) t) as [Heq|Hne].
        -- subst t. destruct (in_dec (fun a b => ltac:(destruct (target_eqb a b) eqn:E; [left; apply target_eqb_eq; exact E|right; intros H; apply target_eqb_eq in H; congruence])) (sv_target s) (map sv_target l)) as [Hi|Hi].
           ++ exfalso. apply Hn. unfold acquire.
              rewrite (proj2 (existsb_target _ _) Hi). exact Hi.
           ++ right. auto.
        -- right. split; [exact Hd|]. split; [right; exact Hin|].
           intros Hi. apply Hn. unfold acquire.
           destruct (existsb (fun s0 => target_eqb t (sv_target s0)) l); [exact Hi|].
           rewrite map_app, in_app_iff. left. exact Hi.
    + intros [H|[Hd [[Heq|Hin] Hn]]].
      * left. left. exact H.
      * left. right. subst t. auto.
      * destruct (target_dec (sv_target s) t) as [Heq|Hne].
        -- left. right. subst t. auto.
        -- right. split; [exact Hd|]. split; [exact Hin|].
           intros Hi. unfold acquire in Hi.
           destruct (existsb (fun s0 => target_eqb t (sv_target s0)) l); [contradiction|].
           rewrite map_app, in_app_iff in Hi. destruct Hi as [Hi|Hi]; [contradiction|].
           cbn in Hi. destruct Hi as [Hi|[]]. destruct t. apply Hne. symmetry. exact Hi.
Qed.

Lemma fold_acquire_true_in ts l s : no_dup_targets l ->
  (In s (fold_left (acquire true) ts l) <->
   (In s l /\ ~ In (sv_target s) ts) \/ (sv_drain s = true /\ In (sv_target s) ts)).
Proof.
  revert l. induction ts as [|t ts IH]; intros l Hnd; cbn.
  - split; [intros H; left; auto|]. intros [[H _]|[_ []]]. exact H.
  - rewrite (IH _ (acquire_no_dup true l t Hnd)). rewrite (acquire_true_in l t s Hnd). split.
    + intros [[[[H Hne]|[Hd Ht]] Hn]|[Hd Hin]].
      * left. split; [exact H|]. intros [Heq|Hi]; [congruence|contradiction].
      * right. auto.
      * right. auto.
    + intros [[H Hn]|[Hd [Heq|Hin]]].
      * left. split.
        -- left. split; [exact H|]. intros Heq. apply Hn. left. congruence.
        -- intros Hi. apply Hn. right. exact Hi.
      * destruct (in_dec (fun a b => ltac:(destruct (target_eqb a b) eqn:E; [left; apply target_eqb_eq; exact E|right; intros H; apply target_eqb_eq in H; congruence])) (sv_target s) ts) as [Hi|Hi].
        -- right. auto.
        -- left. split; [right; auto|exact Hi].
      * right. auto.
Qed.

(* the servers created for a service port are exactly the designated ones *)
Theorem servers_of_designated c svc sp s :
  In s (servers_of c svc sp) <-> designated c svc sp s.
Proof.
  unfold servers_of, designated, ready_at, notready_at, terminating_at.
  destruct (find_endpoints c (s_ns svc) (s_name svc)) as [e|] eqn:Fe.
  - set (ready := ep_targets ss_ready e sp).
    set (nr := ep_targets ss_notready e sp).
    set (tm := term_targets c svc sp).
    assert (L1 : forall x, In x (fold_left (acquire false) ready []) <-> sv_drain x = false /\ In (sv_target x) ready).
    { intros x. rewrite fold_acquire_false_in. cbn. split.
      - intros [[]|[A [B _]]]. auto.
      - intros [A B]. right. auto. }
    assert (ND : no_dup_targets (fold_left (acquire false) ready [])).
    { apply fold_acquire_no_dup. constructor. }
    destruct (c_drain c) eqn:Dr.
    + rewrite (fold_acquire_true_in _ _ s ND). rewrite L1. rewrite in_app_iff. split.
      * intros [[[Hd Hr] Hn]|[Hd Hin]].
        -- left. split; [exact Hd|]. split; [exists e; auto|].
           intros [_ [[e' [Fe' Hi]]|[_ Hi]]]; apply Hn.
           ++ left. injection Fe' as <-. exact Hi.
           ++ right. exact Hi.
        -- right. split; [exact Hd|]. split; [reflexivity|].
           destruct Hin as [Hi|Hi]; [left; exists e; auto|right; split; [exists e; reflexivity|exact Hi]].
      * intros [[Hd [[e' [Fe' Hr]] Hn]]|[Hd [_ Hin]]].
        -- injection Fe' as <-. left. split; [split; [exact Hd|exact Hr]|].
           intros [Hi|Hi]; apply Hn; split; try reflexivity.
           ++ left. exists e. auto.
           ++ right. split; [exists e; reflexivity|exact Hi].
        -- right. split; [exact Hd|].
           destruct Hin as [[e' [Fe' Hi]]|[_ Hi]]; [left; injection Fe' as <-; exact Hi|right; exact Hi].
    + rewrite L1. split.
      * intros [Hd Hr]. left. split; [exact Hd|]. split; [exists e; auto|]. intros [H _]. discriminate.
      * intros [[Hd [[e' [Fe' Hr]] _]]|[_ [H _]]]; [|discriminate]. injection Fe' as <-. split; [exact Hd|exact Hr].
  - cbn. split; [contradiction|].
    intros [[_ [[e [H _]] _]]|[_ [_ [[e [H _]]|[[e H] _]]]]]; discriminate.
Qed.

(* ------------------------------------------------------------------ (B) first declaration wins *)

Lemma winners_app c a x y : winners c a (x ++ y) = winners c a x ++ winners c (a ++ x) y.
Proof.
  revert a. induction x as [|d x IH]; intros a; cbn.
  - rewrite app_nil_r. reflexivity.
  - rewrite IH. rewrite <- !app_assoc. cbn. reflexivity.
Qed.

Lemma winners_snoc c pre d :
  winners c [] (pre ++ [d]) = winners c [] pre ++ (if effectiveb c pre d then [d] else []).
Proof. rewrite winners_app. cbn. rewrite app_nil_r. reflexivity. Qed.

(* a (host,path,type) is taken by a winner of `pre` iff some resolving declaration of `pre` has it *)
Lemma winners_claim c pre d :
  existsb (key_eqb d) (winners c [] pre) = existsb (fun d' => resolves c d' && key_eqb d d') pre.
Proof.
  induction pre as [|x pre IH] using rev_ind; [reflexivity|].
  rewrite winners_snoc, !existsb_app, IH. cbn. rewrite !orb_false_r.
  destruct (existsb (fun d' => resolves c d' && key_eqb d d') pre) eqn:E; [reflexivity|]. cbn.
  unfold effectiveb.
  destruct (resolves c x) eqn:Rx; cbn; [|reflexivity].
  destruct (key_eqb d x) eqn:K.
  - assert (Hn : existsb (fun d' => resolves c d' && key_eqb x d') pre = false).
    { apply not_true_is_false. intros H. apply existsb_exists in H. destruct H as [d' [Hin Hd']].
      apply andb_true_iff in Hd'. destruct Hd' as [R K'].
      assert (existsb (fun d' => resolves c d' && key_eqb d d') pre = true).
      { apply existsb_exists. exists d'. split; [exact Hin|]. rewrite R. cbn. eapply key_eqb_trans; eassumption. }
      congruence. }
    rewrite Hn. cbn. rewrite K. reflexivity.
  - destruct (negb _); cbn; [rewrite K|]; reflexivity.
Qed.

(* add_decl on the list of paths = one step of winners *)
Lemma add_decl_paths c st pre d :
  map fst (st_paths st) = winners c [] pre ->
  map fst (st_paths (add_decl c st d)) = winners c [] (pre ++ [d]).
Proof.
  intros H. rewrite winners_snoc. unfold add_decl, effectiveb.
  assert (E : existsb (fun x => key_eqb d (fst x)) (st_paths st)
              = existsb (fun d' => resolves c d' && key_eqb d d') pre).
  { rewrite <- winners_claim, <- H, existsb_map. reflexivity. }
  rewrite E.
  destruct (existsb (fun d' => resolves c d' && key_eqb d d') pre).
  - rewrite andb_false_r, app_nil_r. exact H.
  - unfold resolves. destruct (resolve c d) as [[svc sp]|]; cbn.
    + rewrite map_app, H. reflexivity.
    + rewrite app_nil_r. exact H.
Qed.

Lemma add_decl_tls c st d : st_tls (add_decl c st d) = st_tls st.
Proof.
  unfold add_decl. destruct (existsb _ _); [reflexivity|].
  destruct (resolve c d) as [[? ?]|]; reflexivity.
Qed.

Lemma add_decl_default c st d : st_default (add_decl c st d) = st_default st.
Proof.
  unfold add_decl. destruct (existsb _ _); [reflexivity|].
  destruct (resolve c d) as [[? ?]|]; reflexivity.
Qed.

Lemma fold_add_decl_paths c ds st pre :
  map fst (st_paths st) = winners c [] pre ->
  map fst (st_paths (fold_left (add_decl c) ds st)) = winners c [] (pre ++ ds).
Proof.
  revert st pre. induction ds as [|d ds IH]; intros st pre H; cbn.
  - rewrite app_nil_r. exact H.
  - replace (pre ++ d :: ds) with ((pre ++ [d]) ++ ds) by (rewrite <- app_assoc; reflexivity).
    apply IH. apply add_decl_paths. exact H.
Qed.

Lemma fold_add_decl_tls c ds st : st_tls (fold_left (add_decl c) ds st) = st_tls st.
Proof. revert st. induction ds; intros; cbn; [reflexivity|]. rewrite IHds. apply add_decl_tls. Qed.

Lemma fold_add_decl_default c ds st : st_default (fold_left (add_decl c) ds st) = st_default st.
Proof. revert st. induction ds; intros; cbn; [reflexivity|]. rewrite IHds. apply add_decl_default. Qed.

Lemma init_paths c : st_paths (init_state c) = [].
Proof.
  unfold init_state. destruct (c_default_backend c) as [[ns name]|]; [|reflexivity].
  destruct (find_service c ns name); [|reflexivity]. destruct (s_ports s); reflexivity.
Qed.

Lemma init_tls c : st_tls (init_state c) = [].
Proof.
  unfold init_state. destruct (c_default_backend c) as [[ns name]|]; [|reflexivity].
  destruct (find_service c ns name); [|reflexivity]. destruct (s_ports s); reflexivity.
Qed.

Lemma init_default c :
  st_default (init_state c) = option_map (fun x => key_of (fst x) (snd x)) (default_backend_port c).
Proof.
  unfold init_state, default_backend_port. destruct (c_default_backend c) as [[ns name]|]; [|reflexivity].
  destruct (find_service c ns name); [|reflexivity]. destruct (s_ports s); reflexivity.
Qed.

Lemma sync_ings_facts c is :
  let st := fold_left (sync_ingress c) is (init_state c) in
  map fst (st_paths st) = winners c [] (flat_map decls_of is) /\
  st_tls st = flat_map i_tls is /\
  st_default st = st_default (init_state c).
Proof.
  apply (fold_left_snoc_inv (sync_ingress c)
    (fun l st => map fst (st_paths st) = winners c [] (flat_map decls_of l) /\
                 st_tls st = flat_map i_tls l /\ st_default st = st_default (init_state c))).
  - rewrite init_paths, init_tls. cbn. auto.
  - intros l st i [Hp [Ht Hd]]. unfold sync_ingress. cbn.
    rewrite !flat_map_app. cbn. rewrite !app_nil_r. split; [|split].
    + apply fold_add_decl_paths. exact Hp.
    + rewrite fold_add_decl_tls, Ht. reflexivity.
    + rewrite fold_add_decl_default. exact Hd.
Qed.

Theorem sync_full_paths c : map fst (st_paths (sync_full c)) = effective_decls c.
Proof. apply (sync_ings_facts c (sorted_ingresses c)). Qed.

Theorem sync_full_tls c : st_tls (sync_full c) = tls_hosts c.
Proof. apply (sync_ings_facts c (sorted_ingresses c)). Qed.

Theorem sync_full_default c :
  st_default (sync_full c) = option_map (fun x => key_of (fst x) (snd x)) (default_backend_port c).
Proof. rewrite <- init_default. apply (sync_ings_facts c (sorted_ingresses c)). Qed.

(* ------------------------------------------------------------------ (C) backends *)

Lemma find_service_some c ns name svc :
  find_service c ns name = Some svc ->
  In svc (c_services c) /\ s_ns svc = ns /\ s_name svc = name.
Proof.
  unfold find_service. intros H. apply find_some in H. destruct H as [Hin H].
  apply andb_true_iff in H. destruct H as [A B].
  apply String.eqb_eq in A. apply String.eqb_eq in B. auto.
Qed.

Lemma find_service_port_in svc r sp : find_service_port svc r = Some sp -> In sp (s_ports svc).
Proof.
  unfold find_service_port. intros H.
  destruct (find (fun p => sp_name p =? pr_str r) (s_ports svc)) eqn:F1.
  - injection H as <-. apply find_some in F1. apply F1.
  - destruct (match pr_num r with Some n => find (fun p => (sp_port p =? n)%Z) (s_ports svc) | None => None end) eqn:F2.
    + injection H as <-. destruct (pr_num r); [|discriminate]. apply find_some in F2. apply F2.
    + apply find_some in H. apply H.
Qed.

Lemma resolve_some c d svc sp :
  resolve c d = Some (svc, sp) ->
  find_service c (d_ns d) (d_svc d) = Some svc /\ In sp (s_ports svc).
Proof.
  unfold resolve. destruct (find_service c (d_ns d) (d_svc d)) as [svc'|] eqn:F; [|discriminate].
  destruct (find_service_port svc' (d_port d)) as [sp'|] eqn:P; [|discriminate].
  intros H. injection H as <- <-. split; [reflexivity|]. eapply find_service_port_in. exact P.
Qed.

(* a backend holds the servers of SOME port of its service with that target port *)
Definition back_ok (c : cluster) (b : bkey * list server) : Prop :=
  exists svc sp, find_service c (s_ns svc) (s_name svc) = Some svc /\ In sp (s_ports svc) /\
                 fst b = key_of svc sp /\ snd b = servers_of c svc sp.

Definition state_ok (c : cluster) (st : state) : Prop :=
  Forall (back_ok c) (st_backs st) /\
  (forall d k, In (d, k) (st_paths st) ->
     exists svc sp, resolve c d = Some (svc, sp) /\ k = key_of svc sp /\
                    exists srv, lookup_back k (st_backs st) = Some srv) /\
  (forall k, st_default st = Some k -> exists srv, lookup_back k (st_backs st) = Some srv).

Lemma lookup_back_app k bs bs' srv :
  lookup_back k bs = Some srv -> lookup_back k (bs ++ bs') = Some srv.
Proof.
  unfold lookup_back. destruct (find (fun b => bkey_eqb k (fst b)) bs) eqn:F; [|discriminate].
  intros H. rewrite (find_some_app _ _ bs' _ F). exact H.
Qed.

Lemma lookup_back_in k bs srv : lookup_back k bs = Some srv -> In (k, srv) bs.
Proof.
  unfold lookup_back. destruct (find (fun b => bkey_eqb k (fst b)) bs) as [[k' srv']|] eqn:F; [|discriminate].
  intros H. injection H as <-. apply find_some in F. destruct F as [Hin E].
  apply bkey_eqb_eq in E. cbn in E. subst k'. exact Hin.
Qed.

Lemma acquire_backend_lookup c bs svc sp :
  exists srv, lookup_back (key_of svc sp) (acquire_backend c bs svc sp) = Some srv.
Proof.
  unfold acquire_backend. destruct (lookup_back (key_of svc sp) bs) as [srv|] eqn:L.
  - exists srv. exact L.
  - exists (servers_of c svc sp). unfold lookup_back in *.
    destruct (find (fun b => bkey_eqb (key_of svc sp) (fst b)) bs) eqn:F; [discriminate|].
    rewrite (find_none_app _ _ _ F). cbn. rewrite bkey_eqb_refl. reflexivity.
Qed.

Lemma acquire_backend_mono c bs svc sp k srv :
  lookup_back k bs = Some srv -> lookup_back k (acquire_backend c bs svc sp) = Some srv.
Proof.
  intros H. unfold acquire_backend. destruct (lookup_back (key_of svc sp) bs); [exact H|].
  apply lookup_back_app. exact H.
Qed.

Lemma add_decl_ok c st d : state_ok c st -> state_ok c (add_decl c st d).
Proof.
  intros [Hb [Hp Hd]]. unfold add_decl.
  destruct (existsb (fun x => key_eqb d (fst x)) (st_paths st)); [repeat split; assumption|].
  destruct (resolve c d) as [[svc sp]|] eqn:R; [|repeat split; assumption].
  destruct (resolve_some _ _ _ _ R) as [Fs Hsp].
  destruct (find_service_some _ _ _ _ Fs) as [Hin [Hns Hname]].
  split; [|split]; cbn.
  - unfold acquire_backend. destruct (lookup_back (key_of svc sp) (st_backs st)); [exact Hb|].
    apply Forall_app. split; [exact Hb|]. constructor; [|constructor].
    exists svc, sp. cbn. rewrite Hns, Hname. auto.
  - intros d' k Hin'. apply in_app_iff in Hin'. destruct Hin' as [Hin'|[Heq|[]]].
    + destruct (Hp _ _ Hin') as [svc' [sp' [R' [K' [srv L]]]]].
      exists svc', sp'. split; [exact R'|]. split; [exact K'|]. exists srv.
      apply acquire_backend_mono. exact L.
    + injection Heq as <- <-. exists svc, sp. split; [exact R|]. split; [reflexivity|].
      apply acquire_backend_lookup.
  - intros k Hk. destruct (Hd _ Hk) as [srv L]. exists srv. apply acquire_backend_mono. exact L.
Qed.

Lemma fold_add_decl_ok c ds st : state_ok c st -> state_ok c (fold_left (add_decl c) ds st).
Proof. revert st. induction ds; intros st H; cbn; [exact H|]. apply IHds. apply add_decl_ok. exact H. Qed.

Lemma sync_ingress_ok c st i : state_ok c st -> state_ok c (sync_ingress c st i).
Proof.
  intros H. pose proof (fold_add_decl_ok c (decls_of i) st H) as [Hb [Hp Hd]].
  unfold sync_ingress. repeat split; assumption.
Qed.

Lemma init_ok c : state_ok c (init_state c).
Proof.
  unfold init_state.
  assert (E : state_ok c {| st_paths := []; st_backs := []; st_tls := []; st_default := None |}).
  { split; [constructor|]. split; cbn; [intros ? ? []|intros ? H; discriminate]. }
  destruct (c_default_backend c) as [[ns name]|]; [|exact E].
  destruct (find_service c ns name) as [svc|] eqn:F; [|exact E].
  destruct (s_ports svc) as [|sp ps] eqn:P; [exact E|].
  destruct (find_service_some _ _ _ _ F) as [Hin [Hns Hname]].
  split; [|split]; cbn.
  - constructor; [|constructor]. exists svc, sp. cbn. rewrite Hns, Hname, P. cbn. auto.
  - intros ? ? [].
  - intros k Hk. injection Hk as <-. exists (servers_of c svc sp).
    unfold lookup_back. cbn. rewrite bkey_eqb_refl. reflexivity.
Qed.

Theorem sync_full_ok c : state_ok c (sync_full c).
Proof.
  unfold sync_full. generalize (sorted_ingresses c). intros l.
  generalize (init_ok c). generalize (init_state c). induction l as [|i l IH]; intros st H; cbn; [exact H|].
  apply IH. apply sync_ingress_ok. exact H.
Qed.

(* under ports_consistent a backend found under the key of (svc, sp) holds sp's servers *)
Lemma back_servers c st svc sp srv :
  ports_consistent c -> Forall (back_ok c) (st_backs st) ->
  find_service c (s_ns svc) (s_name svc) = Some svc -> In sp (s_ports svc) ->
  lookup_back (key_of svc sp) (st_backs st) = Some srv ->
  srv = servers_of c svc sp.
Proof.
  intros PC Hb Fs Hsp L. apply lookup_back_in in L.
  rewrite Forall_forall in Hb. destruct (Hb _ L) as [svc' [sp' [Fs' [Hsp' [K S]]]]]. cbn in K, S.
  unfold key_of in K. injection K as Kns Kname Ktgt.
  rewrite <- Kns, <- Kname in Fs'. rewrite Fs in Fs'. injection Fs' as <-.
  rewrite S. symmetry. apply PC; try assumption.
  apply (find_service_some _ _ _ _ Fs).
Qed.

(* ------------------------------------------------------------------ (D) lookup = specification *)

Lemma best_fold_proj {A} (proj : A -> decl) (l : list A) (acc : option A) :
  option_map proj (fold_left (best_step proj) l acc)
  = fold_left (best_step (fun d => d)) (map proj l) (option_map proj acc).
Proof.
  revert acc. induction l as [|x l IH]; intros acc; cbn; [reflexivity|].
  rewrite IH. f_equal. destruct acc as [a|]; cbn; [|reflexivity].
  destruct (better (proj x) (proj a)); reflexivity.
Qed.

Lemma best_proj {A} (proj : A -> decl) (l : list A) :
  option_map proj (best proj l) = best (fun d => d) (map proj l).
Proof. unfold best. rewrite best_fold_proj. reflexivity. Qed.

Lemma best_fold_in {A} (proj : A -> decl) (l : list A) (acc : option A) (x : A) :
  fold_left (best_step proj) l acc = Some x -> In x l \/ acc = Some x.
Proof.
  revert acc. induction l as [|y l IH]; intros acc H; cbn in *; [right; exact H|].
  destruct (IH _ H) as [Hin|Hacc]; [left; right; exact Hin|].
  destruct acc as [a|]; cbn in Hacc.
  - destruct (better (proj y) (proj a)).
    + injection Hacc as <-. left. left. reflexivity.
    + right. exact Hacc.
  - injection Hacc as <-. left. left. reflexivity.
Qed.

Lemma best_in {A} (proj : A -> decl) (l : list A) (x : A) : best proj l = Some x -> In x l.
Proof. intros H. destruct (best_fold_in _ _ _ _ H) as [Hin|Hn]; [exact Hin|discriminate]. Qed.

(* what the frontends look at = the specification's candidates *)
Lemma candidates_eq c (f : decl -> bool) (p : string) :
  map fst (filter (fun x => f (fst x) && path_matches (d_type (fst x)) (d_path (fst x)) p)
                  (st_paths (sync_full c)))
  = filter (fun d => f d && path_matches (d_type d) (d_path d) p) (effective_decls c).
Proof.
  rewrite <- sync_full_paths.
  apply (map_fst_filter (fun d => f d && path_matches (d_type d) (d_path d) p)).
Qed.

(* the implementation follows the specification's choice of the rule, whatever the ports look like *)
Definition served_by (c : cluster) (r : request) (svc : service) (sp : sport) : Prop :=
  find_service c (s_ns svc) (s_name svc) = Some svc /\ In sp (s_ports svc) /\
  exists srv, lookup_back (key_of svc sp) (st_backs (sync_full c)) = Some srv /\ route_impl c r = Serve srv.

Lemma serve_back_served c r svc sp :
  find_service c (s_ns svc) (s_name svc) = Some svc -> In sp (s_ports svc) ->
  (exists srv, lookup_back (key_of svc sp) (st_backs (sync_full c)) = Some srv) ->
  route_impl c r = serve_back (sync_full c) (key_of svc sp) ->
  served_by c r svc sp.
Proof.
  intros Fs Hsp [srv L] Hr. split; [exact Fs|]. split; [exact Hsp|]. exists srv. split; [exact L|].
  rewrite Hr. unfold serve_back. rewrite L. reflexivity.
Qed.

Theorem route_impl_target : forall c r,
  match spec_target c r with
  | TDecl d => exists svc sp, resolve c d = Some (svc, sp) /\ served_by c r svc sp
  | TDefaultBackend => exists svc sp, default_backend_port c = Some (svc, sp) /\ served_by c r svc sp
  | TNotFound => route_impl c r = NotFound
  end.
Proof.
  intros c r. unfold spec_target.
  destruct (sync_full_ok c) as [Hb [Hp Hd]].
  pose proof (candidates_eq c (host_visible (tls_hosts c) r) (rq_path r)) as C1.
  pose proof (candidates_eq c default_visible (rq_path r)) as C2.
  rewrite <- C1, <- C2, <- !best_proj.
  assert (Hroute : route_impl c r = route (sync_full c) r) by reflexivity.
  unfold route in Hroute. rewrite sync_full_tls in Hroute.
  set (sel1 := filter (fun x => host_visible (tls_hosts c) r (fst x) && path_matches (d_type (fst x)) (d_path (fst x)) (rq_path r)) (st_paths (sync_full c))) in *.
  set (sel2 := filter (fun x => default_visible (fst x) && path_matches (d_type (fst x)) (d_path (fst x)) (rq_path r)) (st_paths (sync_full c))) in *.
  destruct (best fst sel1) as [[d k]|] eqn:B1; cbn.
  - apply best_in in B1. apply filter_In in B1. destruct B1 as [Hin _].
    destruct (Hp _ _ Hin) as [svc [sp [R [K L]]]]. subst k.
    exists svc, sp. split; [exact R|].
    destruct (resolve_some _ _ _ _ R) as [Fs Hsp].
    destruct (find_service_some _ _ _ _ Fs) as [_ [Hns Hname]].
    apply serve_back_served; try assumption. rewrite Hns, Hname. exact Fs.
  - destruct (best fst sel2) as [[d k]|] eqn:B2; cbn.
    + apply best_in in B2. apply filter_In in B2. destruct B2 as [Hin _].
      destruct (Hp _ _ Hin) as [svc [sp [R [K L]]]]. subst k.
      exists svc, sp. split; [exact R|].
      destruct (resolve_some _ _ _ _ R) as [Fs Hsp].
      destruct (find_service_some _ _ _ _ Fs) as [_ [Hns Hname]].
      apply serve_back_served; try assumption. rewrite Hns, Hname. exact Fs.
    + rewrite sync_full_default in Hroute, Hd.
      destruct (default_backend_port c) as [[svc sp]|] eqn:DB; cbn in *.
      * exists svc, sp. split; [reflexivity|].
        unfold default_backend_port in DB.
        destruct (c_default_backend c) as [[ns name]|]; [|discriminate].
        destruct (find_service c ns name) as [svc'|] eqn:Fs; [|discriminate].
        destruct (s_ports svc') as [|sp' ps] eqn:P; [discriminate|]. injection DB as -> ->.
        destruct (find_service_some _ _ _ _ Fs) as [_ [Hns Hname]].
        apply serve_back_served.
        -- rewrite Hns, Hname. exact Fs.
        -- rewrite P. left. reflexivity.
        -- apply Hd. reflexivity.
        -- exact Hroute.
      * exact Hroute.
Qed.

Lemma served_reaches c r svc sp : ports_consistent c -> served_by c r svc sp -> reaches c r svc sp.
Proof.
  intros PC [Fs [Hsp [srv [L Hr]]]]. exists srv. split; [exact Hr|].
  intros s. destruct (sync_full_ok c) as [Hb _].
  rewrite (back_servers c (sync_full c) svc sp srv PC Hb Fs Hsp L).
  apply servers_of_designated.
Qed.

Theorem route_full_spec_under_H : forall c, ports_consistent c -> forall r, route_full_spec_at c r.
Proof.
  intros c PC r. unfold route_full_spec_at. pose proof (route_impl_target c r) as H.
  destruct (spec_target c r) as [d| |].
  - destruct H as [svc [sp [R S]]]. exists svc, sp. split; [exact R|]. apply served_reaches; assumption.
  - destruct H as [svc [sp [R S]]]. exists svc, sp. split; [exact R|]. apply served_reaches; assumption.
  - exact H.
Qed.

(* 404 exactly when nothing is designated: no rule of the host, none of the default host, no default backend *)
Theorem route_not_found_iff : forall c r, route_impl c r = NotFound <-> spec_target c r = TNotFound.
Proof.
  intros c r. pose proof (route_impl_target c r) as H.
  destruct (spec_target c r) as [d| |].
  - destruct H as [svc [sp [_ [_ [_ [srv [_ Hr]]]]]]]. rewrite Hr. split; discriminate.
  - destruct H as [svc [sp [_ [_ [_ [srv [_ Hr]]]]]]]. rewrite Hr. split; discriminate.
  - split; auto.
Qed.

(* whatever is served is what SOME port of an existing service designates: not-ready and
   terminating endpoints only as draining servers and only with drain-support *)
Theorem served_are_designated : forall c r srv, route_impl c r = Serve srv ->
  exists svc sp, In svc (c_services c) /\ In sp (s_ports svc) /\ forall s, In s srv <-> designated c svc sp s.
Proof.
  intros c r srv Hr. pose proof (route_impl_target c r) as H.
  destruct (sync_full_ok c) as [Hb _]. rewrite Forall_forall in Hb.
  assert (G : forall svc sp, served_by c r svc sp ->
    exists svc sp, In svc (c_services c) /\ In sp (s_ports svc) /\ forall s, In s srv <-> designated c svc sp s).
  { intros svc sp [Fs [Hsp [srv' [L Hr']]]]. rewrite Hr in Hr'. injection Hr' as <-.
    apply lookup_back_in in L. destruct (Hb _ L) as [svc' [sp' [Fs' [Hsp' [_ S]]]]]. cbn in S.
    exists svc', sp'. split; [apply (find_service_some _ _ _ _ Fs')|]. split; [exact Hsp'|].
    intros s. rewrite S. apply servers_of_designated. }
  destruct (spec_target c r) as [d| |].
  - destruct H as [svc [sp [_ S]]]. eapply G. exact S.
  - destruct H as [svc [sp [_ S]]]. eapply G. exact S.
  - rewrite H in Hr. discriminate.
Qed.

Corollary drain_only_with_drain_support : forall c r srv s,
  route_impl c r = Serve srv -> In s srv -> sv_drain s = true -> c_drain c = true.
Proof.
  intros c r srv s Hr Hin Hd. destruct (served_are_designated c r srv Hr) as [svc [sp [_ [_ H]]]].
  apply H in Hin. destruct Hin as [[Hf _]|[_ [Hdr _]]]; [congruence|exact Hdr].
Qed.

Corollary without_drain_support_only_ready : forall c r srv s,
  route_impl c r = Serve srv -> In s srv -> c_drain c = false ->
  sv_drain s = false /\ exists svc sp, In svc (c_services c) /\ In sp (s_ports svc) /\ ready_at c svc sp (sv_target s).
Proof.
  intros c r srv s Hr Hin Hd. destruct (served_are_designated c r srv Hr) as [svc [sp [Hs [Hp H]]]].
  apply H in Hin. destruct Hin as [[Hf [Hr' _]]|[_ [Hdr _]]]; [|congruence].
  split; [exact Hf|]. exists svc, sp. auto.
Qed.

Corollary draining_server_is_not_ready_or_terminating : forall c r srv s,
  route_impl c r = Serve srv -> In s srv -> sv_drain s = true ->
  exists svc sp, In svc (c_services c) /\ In sp (s_ports svc) /\
    (notready_at c svc sp (sv_target s) \/ terminating_at c svc sp (sv_target s)).
Proof.
  intros c r srv s Hr Hin Hd. destruct (served_are_designated c r srv Hr) as [svc [sp [Hs [Hp H]]]].
  apply H in Hin. destruct Hin as [[Hf _]|[_ [_ Hx]]]; [congruence|].
  exists svc, sp. auto.
Qed.

(* ------------------------------------------------------------------ what the specification's words mean *)

(* an effective declaration = it resolves and no earlier resolving declaration has its (host,path,type) *)
Lemma winners_in c a l d :
  In d (winners c a l) <-> exists pre post, l = pre ++ d :: post /\ effectiveb c (a ++ pre) d = true.
Proof.
  revert a. induction l as [|x l IH]; intros a; cbn.
  - split; [contradiction|]. intros [pre [post [H _]]]. destruct pre; discriminate.
  - rewrite in_app_iff, IH. split.
    + intros [H|[pre [post [-> E]]]].
      * destruct (effectiveb c a x) eqn:E; [|contradiction]. destruct H as [<-|[]].
        exists [], l. rewrite app_nil_r. auto.
      * exists (x :: pre), post. split; [reflexivity|]. rewrite <- app_assoc in E. exact E.
    + intros [pre [post [H E]]]. destruct pre as [|y pre]; cbn in H.
      * injection H as <- <-. rewrite app_nil_r in E. rewrite E. left. left. reflexivity.
      * injection H as <- ->. right. exists pre, post. split; [reflexivity|].
        rewrite <- app_assoc. exact E.
Qed.

Theorem effective_first_wins c d :
  In d (effective_decls c) <->
  exists earlier later, all_decls c = earlier ++ d :: later /\ resolves c d = true /\
    forall d', In d' earlier -> resolves c d' = true -> dkey d' <> dkey d.
Proof.
  unfold effective_decls. rewrite winners_in. split.
  - intros [pre [post [H E]]]. exists pre, post. split; [exact H|]. cbn in E.
    unfold effectiveb in E. apply andb_true_iff in E. destruct E as [R N]. split; [exact R|].
    intros d' Hin R' K. apply negb_true_iff in N.
    assert (existsb (fun d'0 => resolves c d'0 && key_eqb d d'0) pre = true); [|congruence].
    apply existsb_exists. exists d'. split; [exact Hin|]. rewrite R'. cbn. apply key_eqb_spec. auto.
  - intros [pre [post [H [R N]]]]. exists pre, post. split; [exact H|]. cbn.
    unfold effectiveb. rewrite R. cbn. apply negb_true_iff. apply not_true_is_false.
    intros E. apply existsb_exists in E. destruct E as [d' [Hin E]].
    apply andb_true_iff in E. destruct E as [R' K]. apply key_eqb_spec in K.
    apply (N d' Hin R'). auto.
Qed.

(* the order of the declarations: ingresses sorted by (creation, namespace/name) *)
Lemma insert_ing_perm x l : Permutation (insert_ing x l) (x :: l).
Proof.
  induction l as [|y l IH]; cbn; [reflexivity|].
  destruct (ing_leb x y); [reflexivity|].
  rewrite IH. apply perm_swap.
Qed.

Lemma sort_ings_perm l : Permutation (sort_ings l) l.
Proof.
  induction l as [|x l IH]; cbn; [reflexivity|].
  rewrite insert_ing_perm. constructor. exact IH.
Qed.

Lemma ing_leb_total a b : ing_leb a b = false -> ing_leb b a = true.
Proof.
  unfold ing_leb. intros H. apply orb_false_iff in H. destruct H as [H1 H2].
  apply Z.ltb_ge in H1. destruct (Z.eqb_spec (i_stamp a) (i_stamp b)) as [E|E]; cbn in H2.
  - rewrite E, Z.eqb_refl. cbn. destruct (String.leb_total (full_name a) (full_name b)) as [L|L]; [congruence|].
    rewrite L. apply orb_true_r.
  - assert (i_stamp b < i_stamp a)%Z by lia. apply Z.ltb_lt in H. rewrite H. reflexivity.
Qed.

Lemma insert_ing_sorted x l : Sorted ing_le l -> Sorted ing_le (insert_ing x l).
Proof.
  induction l as [|y l IH]; cbn; intros H.
  - constructor; constructor.
  - destruct (ing_leb x y) eqn:E.
    + constructor; [exact H|]. constructor. exact E.
    + inversion H as [|? ? Hs Hh]; subst. constructor; [apply IH; exact Hs|].
      destruct l as [|z l]; cbn.
      * constructor. apply ing_leb_total. exact E.
      * destruct (ing_leb x z); constructor.
        -- apply ing_leb_total. exact E.
        -- inversion Hh. assumption.
Qed.

Theorem sorted_ingresses_sorted c : Sorted ing_le (sorted_ingresses c).
Proof.
  unfold sorted_ingresses, sort_ings. induction (filter i_valid (c_ingresses c)) as [|x l IH]; cbn.
  - constructor.
  - apply insert_ing_sorted. exact IH.
Qed.

Theorem sorted_ingresses_perm c : Permutation (sorted_ingresses c) (filter i_valid (c_ingresses c)).
Proof. apply sort_ings_perm. Qed.

(* `best`: the result is a candidate and no candidate is strictly better *)
Definition rank (d : decl) : nat * nat * nat :=
  if is_exact d then (1, 0, 0) else (0, String.length (d_path d), if is_prefix d then 1 else 0).

Lemma better_rank a b :
  better a b = true <->
  let '(ea, la, pa) := rank a in let '(eb, lb, pb) := rank b in
  ea > eb \/ (ea = eb /\ (la > lb \/ (la = lb /\ pa > pb))).
Proof.
  unfold better, rank.
  destruct (is_exact a), (is_exact b); cbn [negb].
  - split; [discriminate|lia].
  - split; [lia|reflexivity].
  - split; [discriminate|lia].
  - destruct (Nat.ltb (String.length (d_path b)) (String.length (d_path a))) eqn:L1.
    + apply Nat.ltb_lt in L1. split; [lia|reflexivity].
    + apply Nat.ltb_ge in L1.
      destruct (Nat.ltb (String.length (d_path a)) (String.length (d_path b))) eqn:L2.
      * apply Nat.ltb_lt in L2. split; [discriminate|lia].
      * apply Nat.ltb_ge in L2.
        destruct (is_prefix a), (is_prefix b); cbn [negb andb]; split; try discriminate; try reflexivity; lia.
Qed.

Lemma better_trans a b c : better a b = true -> better b c = true -> better a c = true.
Proof.
  rewrite !better_rank. destruct (rank a) as [[ea la] pa], (rank b) as [[eb lb] pb], (rank c) as [[ec lc] pc].
  lia.
Qed.

Lemma better_irrefl a : better a a = false.
Proof.
  apply not_true_is_false. rewrite better_rank. destruct (rank a) as [[ea la] pa]. lia.
Qed.

Lemma best_fold_max (l : list decl) (acc : option decl) (seen : list decl) (d : decl) :
  (forall a, acc = Some a -> forall y, In y seen -> better y a = false) ->
  (acc = None -> seen = []) ->
  fold_left (best_step (fun d => d)) l acc = Some d ->
  forall y, In y (seen ++ l) -> better y d = false.
Proof.
  revert acc seen. induction l as [|x l IH]; intros acc seen Hacc Hnone H; cbn in H.
  - rewrite app_nil_r. apply Hacc. exact H.
  - intros y Hy. replace (seen ++ x :: l) with ((seen ++ [x]) ++ l) in Hy by (rewrite <- app_assoc; reflexivity).
    revert y Hy. eapply IH; [| |exact H].
    + intros a Ha y Hy. apply in_app_iff in Hy. destruct acc as [a0|]; cbn in Ha.
      * destruct (better x a0) eqn:B; injection Ha as <-.
        -- destruct Hy as [Hy|[<-|[]]]; [|apply better_irrefl].
           apply not_true_is_false. intros B'. pose proof (better_trans _ _ _ B' B) as T.
           rewrite (Hacc a0 eq_refl y Hy) in T. discriminate.
        -- destruct Hy as [Hy|[<-|[]]]; [apply (Hacc a0 eq_refl); exact Hy|exact B].
      * injection Ha as <-. rewrite (Hnone eq_refl) in Hy. destruct Hy as [[]|[<-|[]]]. apply better_irrefl.
    + intros Hn. destruct acc as [a0|]; cbn in Hn; [destruct (better x a0)|]; discriminate.
Qed.

Theorem best_is_maximal (l : list decl) (d : decl) :
  best (fun d => d) l = Some d -> In d l /\ forall y, In y l -> better y d = false.
Proof.
  intros H. split; [apply (best_in _ _ _ H)|].
  apply (best_fold_max l None [] d); [discriminate|reflexivity|exact H].
Qed.

(* the selected rule: an effective declaration of the request's host (with TLS when https) whose
   path matches and that no other such declaration beats; the default host only when there is none *)
Theorem spec_target_decl c r d : spec_target c r = TDecl d ->
  In d (effective_decls c) /\ path_matches (d_type d) (d_path d) (rq_path r) = true /\
  ( (host_visible (tls_hosts c) r d = true /\
     forall d', In d' (effective_decls c) -> host_visible (tls_hosts c) r d' = true ->
                path_matches (d_type d') (d_path d') (rq_path r) = true -> better d' d = false)
    \/
    (default_visible d = true /\
     (forall d', In d' (effective_decls c) -> host_visible (tls_hosts c) r d' = true ->
                 path_matches (d_type d') (d_path d') (rq_path r) = false) /\
     forall d', In d' (effective_decls c) -> default_visible d' = true ->
                path_matches (d_type d') (d_path d') (rq_path r) = true -> better d' d = false) ).
Proof.
  unfold spec_target.
  set (c1 := filter (fun d0 => host_visible (tls_hosts c) r d0 && path_matches (d_type d0) (d_path d0) (rq_path r)) (effective_decls c)).
  set (c2 := filter (fun d0 => default_visible d0 && path_matches (d_type d0) (d_path d0) (rq_path r)) (effective_decls c)).
  destruct (best (fun d0 => d0) c1) as [d1|] eqn:B1.
  - intros H. injection H as <-. destruct (best_is_maximal _ _ B1) as [Hin Hmax].
    apply filter_In in Hin. destruct Hin as [Hin Hf]. apply andb_true_iff in Hf. destruct Hf as [Hv Hm].
    split; [exact Hin|]. split; [exact Hm|]. left. split; [exact Hv|].
    intros d' Hin' Hv' Hm'. apply Hmax. apply filter_In. split; [exact Hin'|]. rewrite Hv', Hm'. reflexivity.
  - destruct (best (fun d0 => d0) c2) as [d2|] eqn:B2.
    + intros H. injection H as <-. destruct (best_is_maximal _ _ B2) as [Hin Hmax].
      apply filter_In in Hin. destruct Hin as [Hin Hf]. apply andb_true_iff in Hf. destruct Hf as [Hv Hm].
      split; [exact Hin|]. split; [exact Hm|]. right. split; [exact Hv|]. split.
      * intros d' Hin' Hv'. apply not_true_is_false. intros Hm'.
        assert (In d' c1) as Hc1 by (apply filter_In; split; [exact Hin'|rewrite Hv', Hm'; reflexivity]).
        unfold best in B1. destruct c1 as [|x c1']; [contradiction|]. cbn in B1.
        clear - B1. assert (forall l a, fold_left (best_step (fun d0 : decl => d0)) l (Some a) <> None) as G.
        { induction l as [|y l IH]; intros a; cbn; [discriminate|]. destruct (better y a); apply IH. }
        exact (G _ _ B1).
      * intros d' Hin' Hv' Hm'. apply Hmax. apply filter_In. split; [exact Hin'|]. rewrite Hv', Hm'. reflexivity.
    + destruct (default_backend_port c); discriminate.
Qed.

(* the fallback order: default backend only when no rule of the host and none of the default host matches *)
Theorem spec_target_fallback c r : spec_target c r <> TNotFound ->
  (forall d, spec_target c r <> TDecl d) ->
  spec_target c r = TDefaultBackend /\ default_backend_port c <> None /\
  forall d, In d (effective_decls c) ->
    (host_visible (tls_hosts c) r d || default_visible d) && path_matches (d_type d) (d_path d) (rq_path r) = false.
Proof.
  unfold spec_target.
  set (c1 := filter (fun d0 => host_visible (tls_hosts c) r d0 && path_matches (d_type d0) (d_path d0) (rq_path r)) (effective_decls c)).
  set (c2 := filter (fun d0 => default_visible d0 && path_matches (d_type d0) (d_path d0) (rq_path r)) (effective_decls c)).
  assert (G : forall l, best (fun d0 : decl => d0) l = None -> l = []).
  { intros l. unfold best. destruct l as [|x l]; [reflexivity|]. cbn.
    assert (forall l a, fold_left (best_step (fun d0 : decl => d0)) l (Some a) <> None) as G.
    { induction l0 as [|y l0 IH]; intros a; cbn; [discriminate|]. destruct (better y a); apply IH. }
    intros H. exfalso. exact (G _ _ H). }
  destruct (best (fun d0 => d0) c1) as [d1|] eqn:B1; [intros _ H; exfalso; apply (H d1); reflexivity|].
  destruct (best (fun d0 => d0) c2) as [d2|] eqn:B2; [intros _ H; exfalso; apply (H d2); reflexivity|].
  destruct (default_backend_port c) as [p|]; [|intros H; exfalso; apply H; reflexivity].
  intros _ _. split; [reflexivity|]. split; [discriminate|].
  intros d Hin. apply G in B1. apply G in B2.
  destruct (host_visible (tls_hosts c) r d) eqn:V1; cbn.
  - destruct (path_matches (d_type d) (d_path d) (rq_path r)) eqn:M; [|reflexivity].
    assert (In d c1) as X by (apply filter_In; split; [exact Hin|rewrite V1, M; reflexivity]).
    rewrite B1 in X. contradiction.
  - destruct (default_visible d) eqn:V2; cbn; [|reflexivity].
    destruct (path_matches (d_type d) (d_path d) (rq_path r)) eqn:M; [|reflexivity].
    assert (In d c2) as X by (apply filter_In; split; [exact Hin|rewrite V2, M; reflexivity]).
    rewrite B2 in X. contradiction.
Qed.

(* ------------------------------------------------------------------ ports_consistent is decidable *)

Definition server_eqb (a b : server) : bool :=
  (sv_ip a =? sv_ip b) && (sv_port a =? sv_port b)%Z && Bool.eqb (sv_drain a) (sv_drain b).

Fixpoint servers_eqb (a b : list server) : bool :=
  match a, b with
  | [], [] => true
  | x :: a', y :: b' => server_eqb x y && servers_eqb a' b'
  | _, _ => false
  end.

Lemma server_eqb_eq a b : server_eqb a b = true -> a = b.
Proof.
  destruct a, b. unfold server_eqb. cbn. intros H.
  apply andb_true_iff in H. destruct H as [H H3]. apply andb_true_iff in H. destruct H as [H1 H2].
  apply String.eqb_eq in H1. apply Z.eqb_eq in H2. apply Bool.eqb_prop in H3. subst. reflexivity.
Qed.

Lemma servers_eqb_eq a b : servers_eqb a b = true -> a = b.
Proof.
  revert b. induction a as [|x a IH]; intros [|y b]; cbn; intros H; try discriminate; [reflexivity|].
  apply andb_true_iff in H. destruct H as [H1 H2]. apply server_eqb_eq in H1. apply IH in H2. subst. reflexivity.
Qed.

Definition ports_consistentb (c : cluster) : bool :=
  forallb (fun svc =>
    forallb (fun p => forallb (fun q =>
      negb (sp_target p =? sp_target q) || servers_eqb (servers_of c svc p) (servers_of c svc q))
      (s_ports svc)) (s_ports svc)) (c_services c).

Lemma ports_consistentb_sound c : ports_consistentb c = true -> ports_consistent c.
Proof.
  unfold ports_consistentb, ports_consistent. intros H svc p q Hs Hp Hq E.
  rewrite forallb_forall in H. specialize (H _ Hs).
  rewrite forallb_forall in H. specialize (H _ Hp).
  rewrite forallb_forall in H. specialize (H _ Hq).
  rewrite E, String.eqb_refl in H. cbn in H. apply servers_eqb_eq. exact H.
Qed.

(* ------------------------------------------------------------------ witnesses *)

Definition pnum (n : Z) (s : string) : portref := {| pr_str := s; pr_num := Some n |}.
Definition mk_sport (name : string) (port : Z) (tgt : string) (tgtn : Z) : sport :=
  {| sp_name := name; sp_port := port; sp_target := tgt; sp_target_int := tgtn; sp_proto := "TCP" |}.

(* two ports of one service share targetPort 8080 but not the endpoints *)
Definition sp_a := mk_sport "a" 80 "8080" 8080.
Definition sp_b := mk_sport "b" 81 "8080" 8080.
Definition svc_x : service := {| s_ns := "ns1"; s_name := "svc1"; s_ports := [sp_a; sp_b]; s_selector := [("app", "svc1")] |}.
Definition ep_x : endpoints := {| e_ns := "ns1"; e_name := "svc1"; e_subsets :=
  [ {| ss_ports := [{| epp_name := "a"; epp_port := 8080; epp_tcp := true |}]; ss_ready := ["10.0.0.1"]; ss_notready := [] |};
    {| ss_ports := [{| epp_name := "b"; epp_port := 8080; epp_tcp := true |}]; ss_ready := ["10.0.0.2"]; ss_notready := [] |} ] |}.
Definition ing_x : ingress := {| i_stamp := 10; i_ns := "ns1"; i_name := "ing1"; i_valid := true; i_default := None;
  i_rules := [ {| ir_host := "a.example"; ir_paths :=
     [ {| ip_path := "/a"; ip_type := Prefix; ip_svc := "svc1"; ip_port := pnum 80 "80" |};
       {| ip_path := "/b"; ip_type := Prefix; ip_svc := "svc1"; ip_port := pnum 81 "81" |} ] |} ];
  i_tls := [] |}.
Definition cluster_x : cluster := {| c_ingresses := [ing_x]; c_services := [svc_x]; c_endpoints := [ep_x]; c_pods := [];
  c_default_backend := None; c_drain := false |}.
Definition request_x : request := {| rq_https := false; rq_host := "a.example"; rq_path := "/b" |}.
Definition decl_x : decl := {| d_host := Some "a.example"; d_path := "/b"; d_type := Prefix; d_ns := "ns1"; d_svc := "svc1";
  d_port := pnum 81 "81" |}.

(* C03 at full strength is false of the faithful model: the rule names port 81 (endpoint 10.0.0.2),
   the shared backend section holds port 80's endpoint 10.0.0.1 *)
Theorem route_full_spec_refuted : exists c r, ~ route_full_spec_at c r.
Proof.
  exists cluster_x, request_x. unfold route_full_spec_at.
  assert (E : spec_target cluster_x request_x = TDecl decl_x) by (vm_compute; reflexivity).
  rewrite E. intros [svc [sp [R [srv [Hr H]]]]].
  assert (R' : resolve cluster_x decl_x = Some (svc_x, sp_b)) by (vm_compute; reflexivity).
  rewrite R' in R. injection R as <- <-.
  assert (Hr' : route_impl cluster_x request_x = Serve [{| sv_ip := "10.0.0.1"; sv_port := 8080; sv_drain := false |}])
    by (vm_compute; reflexivity).
  rewrite Hr' in Hr. injection Hr as <-.
  destruct (H {| sv_ip := "10.0.0.2"; sv_port := 8080; sv_drain := false |}) as [_ H2].
  assert (D : designated cluster_x svc_x sp_b {| sv_ip := "10.0.0.2"; sv_port := 8080; sv_drain := false |}).
  { left. split; [reflexivity|]. split.
    - exists ep_x. split; [vm_compute; reflexivity|]. vm_compute. left. reflexivity.
    - intros [Hd _]. discriminate Hd. }
  apply H2 in D. destruct D as [D|[]]. discriminate D.
Qed.

Example cluster_x_not_consistent : ports_consistentb cluster_x = false.
Proof. vm_compute. reflexivity. Qed.

(* a cluster that satisfies the hypothesis, with a duplicated path, TLS, a default backend, drain *)
Definition sp_http := mk_sport "http" 80 "8080" 8080.
Definition svc_1 : service := {| s_ns := "ns1"; s_name := "svc1"; s_ports := [sp_http]; s_selector := [("app", "svc1")] |}.
Definition svc_2 : service := {| s_ns := "ns1"; s_name := "svc2"; s_ports := [sp_http]; s_selector := [("app", "svc2")] |}.
Definition ep_of (name ready notready : string) : endpoints := {| e_ns := "ns1"; e_name := name; e_subsets :=
  [ {| ss_ports := [{| epp_name := "http"; epp_port := 8080; epp_tcp := true |}]; ss_ready := [ready]; ss_notready := [notready] |} ] |}.
Definition ing_young : ingress := {| i_stamp := 20; i_ns := "ns1"; i_name := "ing1"; i_valid := true; i_default := None;
  i_rules := [ {| ir_host := "a.example"; ir_paths :=
     [ {| ip_path := "/"; ip_type := Prefix; ip_svc := "svc1"; ip_port := pnum 80 "80" |};
       {| ip_path := "/b"; ip_type := Exact; ip_svc := "svc1"; ip_port := {| pr_str := "http"; pr_num := None |} |} ] |} ];
  i_tls := [] |}.
Definition ing_old : ingress := {| i_stamp := 10; i_ns := "ns1"; i_name := "ing2"; i_valid := true; i_default := None;
  i_rules := [ {| ir_host := "a.example"; ir_paths :=
     [ {| ip_path := "/"; ip_type := Prefix; ip_svc := "svc2"; ip_port := pnum 80 "80" |} ] |} ];
  i_tls := ["a.example"] |}.
Definition pod_t : pod := {| pod_ns := "ns1"; pod_labels := [("app", "svc2")]; pod_ip := "10.0.0.9"; pod_terminating := true;
  pod_ports := [{| cp_name := "web"; cp_proto := "TCP"; cp_port := 8080 |}] |}.
Definition cluster_ok : cluster := {| c_ingresses := [ing_young; ing_old]; c_services := [svc_1; svc_2];
  c_endpoints := [ep_of "svc1" "10.0.0.1" "10.0.0.3"; ep_of "svc2" "10.0.0.2" "10.0.0.4"]; c_pods := [pod_t];
  c_default_backend := Some ("ns1", "svc2"); c_drain := true |}.

Example cluster_ok_consistent : ports_consistent cluster_ok.
Proof. apply ports_consistentb_sound. vm_compute. reflexivity. Qed.

(* the older ingress (ing2) wins the duplicated "/" of a.example; its not-ready address and its
   terminating pod are draining servers *)
Example cluster_ok_root :
  route_impl cluster_ok {| rq_https := true; rq_host := "A.example:443"; rq_path := "/x" |}
  = Serve [ {| sv_ip := "10.0.0.2"; sv_port := 8080; sv_drain := false |};
            {| sv_ip := "10.0.0.4"; sv_port := 8080; sv_drain := true |};
            {| sv_ip := "10.0.0.9"; sv_port := 8080; sv_drain := true |} ].
Proof. vm_compute. reflexivity. Qed.

Example cluster_ok_exact :
  route_impl cluster_ok {| rq_https := false; rq_host := "a.example"; rq_path := "/b" |}
  = Serve [ {| sv_ip := "10.0.0.1"; sv_port := 8080; sv_drain := false |};
            {| sv_ip := "10.0.0.3"; sv_port := 8080; sv_drain := true |} ].
Proof. vm_compute. reflexivity. Qed.

Example cluster_ok_unknown_host_default_backend :
  spec_target cluster_ok {| rq_https := false; rq_host := "zzz.example"; rq_path := "/" |} = TDefaultBackend.
Proof. vm_compute. reflexivity. Qed.
