(* Proofs about Model/AuthRules.v (C18, rendered rules). *)
From Coq Require Import ZArith NArith List Bool Lia.
From HI Require Import Model.AuthExt Model.AuthRules Proofs.AuthExt.
Import ListNotations.

(* ------------------------------------------------------------------ *)
(* evaluation *)

Lemma xexec_app : forall out q l1 l2 st,
  xexec out q st (l1 ++ l2) =
  match xexec out q st l1 with Stop v => Stop v | Cont st' => xexec out q st' l2 end.
Proof.
  induction l1 as [|r l1 IH]; intros l2 st; cbn; [reflexivity|].
  destruct (xstep out q st r); [reflexivity|apply IH].
Qed.

Lemma xexec_app_cont : forall out q l1 l2 st st2,
  xexec out q st (l1 ++ l2) = Cont st2 ->
  exists st1, xexec out q st l1 = Cont st1 /\ xexec out q st1 l2 = Cont st2.
Proof.
  intros out q l1 l2 st st2. rewrite xexec_app.
  destruct (xexec out q st l1) as [v|st1]; [discriminate|eauto].
Qed.

Lemma xexec_flat_map_cont : forall A out q (f : A -> list xrule) l x st st2,
  In x l -> xexec out q st (flat_map f l) = Cont st2 ->
  exists s1 s2, xexec out q s1 (f x) = Cont s2.
Proof.
  intros A out q f l x st st2 Hin H.
  apply in_split in Hin as (l1 & l2 & ->).
  rewrite flat_map_app in H. cbn in H.
  apply xexec_app_cont in H as (s1 & _ & H).
  apply xexec_app_cont in H as (s2 & H & _). eauto.
Qed.

Lemma cond_terms_hold : forall st q c, cond_holds c (xq q) = true ->
  forallb (term_holds st q) (cond_terms c) = true.
Proof. intros st q [|ids|k] H; cbn in *; [reflexivity| |]; now rewrite H. Qed.

Lemma skip_terms_hold : forall st q a, skip_free a (xq q) ->
  forallb (term_holds st q) (skip_terms (a_allowed a)) = true.
Proof.
  intros st q a H. unfold skip_free in H. destruct (a_allowed a) as [p|]; cbn; [|reflexivity].
  rewrite andb_true_r. apply negb_true_iff.
  destruct (existsb (N.eqb p) (q_under (xq q))) eqn:E; [|reflexivity].
  apply existsb_exists in E as (y & Hy & Hpy). apply N.eqb_eq in Hpy. subst y. contradiction.
Qed.

(* the rules of one configuration, under a condition that holds for the request, let it
   through only if the configuration has an auth backend whose service answered ok *)
Lemma x_own_rules : forall out q st st' e a c,
  cond_holds c (xq q) = true -> skip_free a (xq q) ->
  xexec out q st (x_auth_rules e a c) = Cont st' ->
  a_deny a = false /\ (a_name a = None \/ exists n, a_name a = Some n /\ out n = OOk).
Proof.
  intros out q st st' e a c Hc Hs. unfold x_auth_rules.
  destruct (a_deny a) eqn:Hd.
  - cbn. unfold xstep, xapplies. cbn [x_if x_act]. rewrite (cond_terms_hold _ _ _ Hc). discriminate.
  - destruct (a_name a) as [n|] eqn:Hn; [|intros _; split; auto].
    assert (Htail : forall s, forallb (term_holds s q) (skip_terms (a_allowed a) ++ cond_terms c) = true).
    { intros s. rewrite forallb_app, (skip_terms_hold _ _ _ Hs), (cond_terms_hold _ _ _ Hc). reflexivity. }
    cbn [xexec]. unfold xstep at 1, xapplies. cbn [x_if x_act]. rewrite Htail.
    unfold xstep at 1, xapplies. cbn [x_if x_act forallb term_holds]. rewrite Htail.
    destruct (out n) eqn:Ho; cbn [is_ok negb andb];
      try (destruct (e_redirect e); discriminate).
    intros _. split; [reflexivity|]. right. eauto.
Qed.

(* ------------------------------------------------------------------ *)
(* the backend block *)

Lemma x_auth_block_own : forall b id a out q st st',
  In (id, a) (b_auth b) -> q_id (xq q) = id -> skip_free a (xq q) ->
  xexec out q st (x_auth_block b) = Cont st' ->
  a_deny a = false /\ (a_name a = None \/ exists n, a_name a = Some n /\ out n = OOk).
Proof.
  intros b id a out q st st' Hin Hq Hs H.
  destruct (groups_in (b_auth b) id a Hin) as (ids & Hg & Hid).
  unfold x_auth_block in H.
  destruct (xexec_flat_map_cont _ out q _ _ _ _ _ Hg H) as (s1 & s2 & H1).
  unfold x_auth_group in H1. cbn [fst snd] in H1.
  rewrite <- Hq in Hid.
  destruct (group_conds_cover (1 <? length (groups (b_auth b)))%nat ids (xq q) Hid) as (c & Hc & Hh).
  destruct (xexec_flat_map_cont _ out q _ _ _ _ _ Hc H1) as (s3 & s4 & H2).
  eapply x_own_rules; eauto.
Qed.

Lemma xexec_stop_not_served : forall out q rs st v, xexec out q st rs = Stop v -> v <> Served.
Proof.
  induction rs as [|r rs IH]; cbn; intros st v H; [discriminate|].
  destruct (xstep out q st r) as [w|st'] eqn:E; [|eauto].
  inversion H; subst w. unfold xstep in E.
  destruct (xapplies st q r); [|discriminate].
  destruct (x_act r); inversion E; discriminate.
Qed.

Lemma eval_served_cont : forall rs q out st, eval_rules rs q out st = Served ->
  exists st', xexec out q st rs = Cont st'.
Proof.
  intros rs q out st. unfold eval_rules.
  destruct (xexec out q st rs) as [v|st'] eqn:E; [|eauto].
  intros ->. now apply xexec_stop_not_served in E.
Qed.

(* C18, rendered rules of a backend: whatever the CORS configuration of the paths, the
   copied headers, the method of the request and the state the frontend left, a request of
   a path in the charge of its backend is Served only if the path has an auth backend and
   the authentication service behind it answered ok (not: non-2xx, unreachable, missing) *)
Lemma rendered_rules_fail_closed : forall lua fe used0 px ds px' cfgs crs exs d,
  process_backend lua fe used0 px ds = (px', cfgs) -> In d ds ->
  backend_in_charge fe d = true ->
  exists a, In (d_id d, a) cfgs /\
    forall out st q, q_id (xq q) = d_id d -> skip_free a (xq q) ->
      eval_rules (gen_auth_rules {| b_auth := cfgs; b_cors := crs; b_extra := exs |}) q out st = Served ->
      authenticated out a.
Proof.
  intros lua fe used0 px ds px' cfgs crs exs d Hp Hin Hc.
  destruct (backend_decision _ _ _ _ _ _ _ _ Hp Hin Hc) as (a & Ha & Hprot).
  exists a. split; [assumption|].
  intros out st q Hq Hs He. apply eval_served_cont in He as (st2 & E).
  unfold gen_auth_rules in E. apply xexec_app_cont in E as (s1 & _ & E).
  assert (Hb : In (d_id d, a) (b_auth {| b_auth := cfgs; b_cors := crs; b_extra := exs |})) by exact Ha.
  destruct (x_auth_block_own _ _ _ out q s1 st2 Hb Hq Hs E) as (Hd & [Hn|Hn]).
  - destruct Hprot as [Hx|(n & Hx)]; congruence.
  - split; assumption.
Qed.

(* ------------------------------------------------------------------ *)
(* paths without external authentication are not touched *)

Lemma xexec_harmless : forall out q rs st,
  (forall r s, In r rs -> xstep out q s r = Cont s) -> xexec out q st rs = Cont st.
Proof.
  induction rs as [|r rs IH]; intros st H; cbn; [reflexivity|].
  rewrite (H r st (or_introl eq_refl)). apply IH. intros r' s Hr. apply H. now right.
Qed.

Lemma xstep_not_applies : forall out q s r, xapplies s q r = false -> xstep out q s r = Cont s.
Proof. intros. unfold xstep. now rewrite H. Qed.

Lemma cors_rules_not_options : forall out q b st, xmeth q <> MOptions ->
  xexec out q st (x_cors_rules b) = Cont st.
Proof.
  intros out q b st Hm. apply xexec_harmless. intros r s Hr.
  unfold x_cors_rules in Hr. apply in_flat_map in Hr as (g & _ & Hr).
  unfold x_cors_group in Hr. destruct (c_on (fst g)); [|contradiction].
  apply in_app_or in Hr as [Hr|Hr].
  - destruct (c_dyn (fst g)); [|contradiction]. destruct Hr as [<-|[]]. reflexivity.
  - apply in_flat_map in Hr as (c & _ & Hr).
    assert (Hopt : term_holds s q options_only = false).
    { cbn. destruct (xmeth q); cbn; try reflexivity. congruence. }
    destruct Hr as [<-|[<-|[]]]; apply xstep_not_applies; unfold xapplies; cbn [x_if forallb];
      now rewrite Hopt.
Qed.

Definition sound_groups (gs : list (auth * list N)) (L : list (N * auth)) : Prop :=
  forall a ids i, In (a, ids) gs -> In i ids -> In (i, a) L.

Lemma add_group_sound : forall id a gs L, sound_groups gs L -> In (id, a) L ->
  sound_groups (add_group id a gs) L.
Proof.
  induction gs as [|[b ids] r IH]; intros L Hs Hin a' ids' i; cbn.
  - intros [H|[]] Hi. inversion H; subst. destruct Hi as [<-|[]]. assumption.
  - destruct (auth_eqb a b) eqn:E.
    + apply auth_eqb_eq in E. subst b. intros [H|H] Hi.
      * inversion H; subst. apply in_app_or in Hi as [Hi|[<-|[]]]; [|assumption].
        apply (Hs a' ids i); [now left|assumption].
      * apply (Hs a' ids' i); [now right|assumption].
    + intros [H|H] Hi.
      * inversion H; subst. apply (Hs a' ids' i); [now left|assumption].
      * assert (Hr : sound_groups r L) by (intros x y z Hx Hz; apply (Hs x y z); [now right|assumption]).
        exact (IH L Hr Hin a' ids' i H Hi).
Qed.

Lemma groups_sound : forall cfgs, sound_groups (groups cfgs) cfgs.
Proof.
  intros cfgs. unfold groups.
  assert (H : forall l gs, sound_groups gs cfgs -> (forall x, In x l -> In x cfgs) ->
            sound_groups (fold_left (fun gs p => add_group (fst p) (snd p) gs) l gs) cfgs).
  { induction l as [|[i a] r IH]; intros gs Hs Hsub; cbn; [assumption|].
    apply IH; [|intros x Hx; apply Hsub; now right].
    apply add_group_sound; [assumption|apply Hsub; now left]. }
  apply H; [intros a ids i []|auto].
Qed.

Lemma chunks_aux_sub : forall n fuel l c x, In c (chunks_aux fuel n l) -> In x c -> In x l.
Proof.
  intros n. induction fuel as [|f IH]; intros l c x Hc Hx; [contradiction|].
  destruct l as [|y r]; [contradiction|]. cbn [chunks_aux] in Hc.
  rewrite <- (firstn_skipn n (y :: r)). apply in_or_app.
  destruct Hc as [<-|Hc]; [now left|right; eapply IH; eauto].
Qed.

Lemma nodup_fst_unique : forall (l : list (N * auth)) k a b,
  NoDup (map fst l) -> In (k, a) l -> In (k, b) l -> a = b.
Proof.
  induction l as [|[k0 a0] r IH]; intros k a b Hn Ha Hb; [contradiction|].
  cbn in Hn. inversion Hn as [|x xs Hnin Hnd]; subst.
  destruct Ha as [Ha|Ha], Hb as [Hb|Hb].
  - congruence.
  - inversion Ha; subst. exfalso. apply Hnin. apply (in_map fst) in Hb. exact Hb.
  - inversion Hb; subst. exfalso. apply Hnin. apply (in_map fst) in Ha. exact Ha.
  - eauto.
Qed.

Lemma x_auth_rules_tail : forall e a c r, In r (x_auth_rules e a c) ->
  exists pre, x_if r = pre ++ cond_terms c.
Proof.
  intros e a c r. unfold x_auth_rules. destruct (a_deny a).
  - intros [<-|[]]. exists []. reflexivity.
  - destruct (a_name a) as [n|]; [|intros []].
    intros [<-|[<-|H]].
    + exists (skip_terms (a_allowed a)). reflexivity.
    + exists (TAuthFailed :: skip_terms (a_allowed a)). reflexivity.
    + apply repeat_spec in H. subst r. exists (TVarFound :: skip_terms (a_allowed a)). reflexivity.
Qed.

Lemma x_auth_rules_nil : forall e a c, a_deny a = false -> a_name a = None -> x_auth_rules e a c = [].
Proof. intros e a c Hd Hn. unfold x_auth_rules. now rewrite Hd, Hn. Qed.

(* a path the updater left without deny marker and without auth backend: its requests,
   other than a CORS preflight, go through the generated rules untouched *)
Lemma rendered_rules_unprotected : forall b id a out q st,
  NoDup (map fst (b_auth b)) -> In (id, a) (b_auth b) ->
  a_deny a = false -> a_name a = None ->
  q_id (xq q) = id -> xmeth q <> MOptions ->
  xexec out q st (gen_auth_rules b) = Cont st.
Proof.
  intros b id a out q st Hnd Hin Hd Hn Hq Hm. unfold gen_auth_rules.
  rewrite xexec_app, cors_rules_not_options by assumption.
  apply xexec_harmless. intros r s Hr. apply xstep_not_applies.
  unfold x_auth_block in Hr. apply in_flat_map in Hr as ([a' ids'] & Hg & Hr).
  unfold x_auth_group in Hr. cbn [fst snd] in Hr. apply in_flat_map in Hr as (c & Hc & Hr).
  destruct (groups_in (b_auth b) id a Hin) as (ids & Hown & Hid).
  (* the group of this rule is not the group of the path, or has no rule *)
  assert (Hdiff : ~ In id ids').
  { intros Hi. pose proof (groups_sound (b_auth b) a' ids' id Hg Hi) as Hin'.
    assert (a' = a) by (eapply nodup_fst_unique; eauto). subst a'.
    rewrite x_auth_rules_nil in Hr by assumption. exact Hr. }
  unfold group_conds in Hc. destruct (1 <? length (groups (b_auth b)))%nat eqn:Hneed.
  - apply in_map_iff in Hc as (ch & <- & Hch).
    destruct (x_auth_rules_tail _ _ _ _ Hr) as (pre & Hif).
    unfold xapplies. rewrite Hif, forallb_app. cbn [cond_terms forallb term_holds].
    assert (existsb (N.eqb (q_id (xq q))) ch = false) as ->; [|now rewrite !andb_false_r].
    destruct (existsb (N.eqb (q_id (xq q))) ch) eqn:E; [|reflexivity].
    apply existsb_exists in E as (y & Hy & Heq). apply N.eqb_eq in Heq. subst y.
    exfalso. apply Hdiff. rewrite <- Hq.
    apply sort_n_in. eapply chunks_aux_sub; eauto.
  - (* a single group: it is the group of the path *)
    exfalso. apply Nat.ltb_ge in Hneed.
    destruct (groups (b_auth b)) as [|g0 [|g1 gs]]; [contradiction| |cbn in Hneed; lia].
    destruct Hg as [Hg|[]], Hown as [Hown|[]]. subst g0. inversion Hown; subst. contradiction.
Qed.

Lemma rendered_rules_unprotected_served : forall b id a out q st,
  NoDup (map fst (b_auth b)) -> In (id, a) (b_auth b) ->
  a_deny a = false -> a_name a = None ->
  q_id (xq q) = id -> xmeth q <> MOptions ->
  eval_rules (gen_auth_rules b) q out st = Served.
Proof.
  intros. unfold eval_rules. erewrite rendered_rules_unprotected; eauto.
Qed.

(* a CORS preflight is answered by the proxy or goes on: the Cors block never denies and never
   changes the authentication state *)
Lemma setvar_service_flow : forall out q st rs,
  (forall r, In r rs -> x_act r = XSetVar \/ x_act r = XUseService) ->
  xexec out q st rs = Cont st \/ xexec out q st rs = Stop AnsweredByProxy.
Proof.
  intros out q st. induction rs as [|r rs IH]; intros Hall; cbn; [now left|].
  unfold xstep. destruct (xapplies st q r).
  - destruct (Hall r (or_introl eq_refl)) as [-> | ->]; [|now right].
    apply IH. intros r' Hr'. apply Hall. now right.
  - apply IH. intros r' Hr'. apply Hall. now right.
Qed.

Lemma cors_rules_flow : forall out q b st,
  xexec out q st (x_cors_rules b) = Cont st \/ xexec out q st (x_cors_rules b) = Stop AnsweredByProxy.
Proof.
  intros out q b st. apply setvar_service_flow. intros r Hr.
  unfold x_cors_rules in Hr. apply in_flat_map in Hr as (g & _ & Hr).
  unfold x_cors_group in Hr. destruct (c_on (fst g)); [|contradiction].
  apply in_app_or in Hr as [Hr|Hr].
  - destruct (c_dyn (fst g)); [|contradiction]. destruct Hr as [<-|[]]. now left.
  - apply in_flat_map in Hr as (c & _ & [<-|[<-|[]]]); [now left|now right].
Qed.

(* ------------------------------------------------------------------ *)
(* the frontend form *)

Lemma rendered_frontend_fail_closed_exact : forall lua used0 px u tag keys px' hcfgs exs k,
  process_host lua used0 px PlFrontend (Some (u, tag)) keys = (px', hcfgs) -> In k keys ->
  exists a, In (k, Some a) hcfgs /\
    forall out st q, q_path (xq q) = k -> q_exact (xq q) = true ->
      eval_rules (gen_frontend_rules exs hcfgs) q out st = Served -> authenticated out a.
Proof.
  intros lua used0 px u tag keys px' hcfgs exs k Hp Hin. cbn in Hp.
  destruct (host_loop_spec _ _ _ _ _ _ _ _ _ _ Hp Hin) as (a & Ha & Hal & Hprot).
  exists a. split; [assumption|].
  intros out st q Hq He Hs. apply eval_served_cont in Hs as (st2 & E).
  unfold gen_frontend_rules in E.
  destruct (xexec_flat_map_cont _ out q _ _ _ _ _ Ha E) as (s1 & s2 & H1). cbn [fst snd] in H1.
  assert (Hsf : skip_free a (xq q)) by (unfold skip_free; now rewrite Hal).
  assert (Hc : cond_holds (CKey k) (xq q) = true) by (cbn; rewrite He, Hq; cbn; apply N.eqb_refl).
  destruct (x_own_rules _ _ _ _ _ _ _ Hc Hsf H1) as (Hd & [Hn|Hn]).
  - destruct Hprot as [Hx|(n & Hx)]; congruence.
  - split; assumption.
Qed.

(* ... and it is false as soon as req.base is not literally the key (known finding) *)
Lemma rendered_frontend_refuted :
  exists lua used0 px u tag keys k q,
    In k keys /\ q_path (xq q) = k /\
    eval_rules (gen_frontend_rules [] (snd (process_host lua used0 px PlFrontend (Some (u, tag)) keys)))
      q (fun _ => ONon2xx) false = Served.
Proof.
  exists true, [], px_default, good_url, 1%N, [7%N], 7%N,
    {| xq := {| q_path := 7; q_id := 1; q_exact := false; q_under := [] |}; xmeth := MGet; xfound := false |}.
  repeat split; try (now left); vm_compute; reflexivity.
Qed.

(* ------------------------------------------------------------------ *)
(* examples: the hypotheses are satisfiable, the generator writes what is meant *)

Definition q_admin (m : meth) : xreq :=
  {| xq := {| q_path := 2; q_id := 2; q_exact := true; q_under := [] |}; xmeth := m; xfound := false |}.

(* /api with CORS (path 1), /admin with auth-url (path 2), one backend: the preflight of
   /api is answered by the proxy, OPTIONS on /admin is denied unless authenticated *)
Definition b_cors_sibling : bcfg :=
  {| b_auth := [ (1%N, auth0);
                 (2%N, {| a_deny := false; a_name := Some (NAuth 14415); a_allowed := None; a_tag := 1 |}) ];
     b_cors := [ (1%N, {| c_on := true; c_dyn := false; c_tag := 1 |});
                 (2%N, {| c_on := false; c_dyn := false; c_tag := 0 |}) ];
     b_extra := [] |}.

Example ex_options_admin_denied :
  eval_rules (gen_auth_rules b_cors_sibling) (q_admin MOptions) (fun _ => OUnreachable) false = Denied.
Proof. reflexivity. Qed.

Example ex_options_admin_ok :
  eval_rules (gen_auth_rules b_cors_sibling) (q_admin MOptions) (fun _ => OOk) false = Served.
Proof. reflexivity. Qed.

Example ex_options_api_preflight :
  eval_rules (gen_auth_rules b_cors_sibling)
    {| xq := {| q_path := 1; q_id := 1; q_exact := true; q_under := [] |}; xmeth := MOptions; xfound := false |}
    (fun _ => OMissing) false = AnsweredByProxy.
Proof. reflexivity. Qed.

Example ex_get_api_served :
  eval_rules (gen_auth_rules b_cors_sibling)
    {| xq := {| q_path := 1; q_id := 1; q_exact := true; q_under := [] |}; xmeth := MGet; xfound := false |}
    (fun _ => OMissing) false = Served.
Proof. reflexivity. Qed.

(* ------------------------------------------------------------------ *)
(* txn.pathID derived from the maps *)

Lemma assoc_n_in : forall (m : list (N * N)) k v d,
  NoDup (map fst m) -> In (k, v) m -> assoc_n d k m = v.
Proof.
  induction m as [|[k0 v0] r IH]; intros k v d Hn Hin; [contradiction|].
  cbn in Hn. inversion Hn as [|x xs Hnin Hnd]; subst. cbn.
  destruct Hin as [H|H].
  - inversion H; subst. now rewrite N.eqb_refl.
  - destruct (N.eqb_spec k k0) as [->|Hne]; [|eauto].
    exfalso. apply Hnin. apply (in_map fst) in H. exact H.
Qed.

Lemma pathid_total : forall m ds, ids_cover m ds -> NoDup (map fst m) ->
  forall d, In d ds -> derive_id m (d_key d) = d_id d.
Proof. intros m ds Hc Hn d Hd. unfold derive_id. apply assoc_n_in; auto. Qed.

Lemma ids_coverb_spec : forall m ds, ids_coverb m ds = true -> ids_cover m ds.
Proof.
  intros m ds H d Hd. unfold ids_coverb in H. rewrite forallb_forall in H.
  specialize (H d Hd). apply existsb_exists in H as ([k v] & Hin & He).
  cbn in He. apply andb_true_iff in He as (Hk & Hv).
  apply N.eqb_eq in Hk. apply N.eqb_eq in Hv. subst. exact Hin.
Qed.

(* the rendered rules with the id HAProxy derives: complete maps -> fail closed *)
Lemma rendered_rules_fail_closed_mapped : forall lua fe used0 px ds px' cfgs crs exs m d,
  process_backend lua fe used0 px ds = (px', cfgs) -> In d ds ->
  backend_in_charge fe d = true ->
  ids_cover m ds -> NoDup (map fst m) ->
  exists a, In (d_id d, a) cfgs /\
    forall out st q, q_path (xq q) = d_key d -> q_id (xq q) = derive_id m (q_path (xq q)) ->
      skip_free a (xq q) ->
      eval_rules (gen_auth_rules {| b_auth := cfgs; b_cors := crs; b_extra := exs |}) q out st = Served ->
      authenticated out a.
Proof.
  intros lua fe used0 px ds px' cfgs crs exs m d Hp Hin Hc Hcov Hn.
  destruct (rendered_rules_fail_closed _ _ _ _ _ _ _ crs exs _ Hp Hin Hc) as (a & Ha & H).
  exists a. split; [assumption|]. intros out st q Hq Hid. apply H.
  rewrite Hid, Hq. now apply (pathid_total m ds).
Qed.

(* ... an entry missing (txn.pathID unset) and the request goes through every rule *)
Lemma pathid_missing_refuted :
  exists ds cfgs m d q,
    snd (process_backend true (fun _ => false) [] px_default ds) = cfgs /\
    In d ds /\ backend_in_charge (fun _ => false) d = true /\ ~ ids_cover m ds /\
    q_path (xq q) = d_key d /\ q_id (xq q) = derive_id m (q_path (xq q)) /\
    eval_rules (gen_auth_rules {| b_auth := cfgs; b_cors := []; b_extra := [] |}) q (fun _ => OUnreachable) false = Served.
Proof.
  set (d1 := {| d_id := 1; d_url := Some (bad_url, 1%N); d_place := PlBackend; d_host := 1; d_key := 5; d_oauth := None |}).
  set (d2 := {| d_id := 2; d_url := None; d_place := PlBackend; d_host := 1; d_key := 6; d_oauth := None |}).
  exists [d1; d2], [(1%N, deny_cfg); (2%N, auth0)], [(6%N, 2%N)], d1,
    {| xq := {| q_path := 5; q_id := 0; q_exact := true; q_under := [] |}; xmeth := MGet; xfound := false |}.
  repeat split; try reflexivity; try (now left).
  intros H. specialize (H d1 (or_introl eq_refl)). cbn in H. destruct H as [H|[]]. discriminate.
Qed.
