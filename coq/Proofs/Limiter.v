(* Proofs about Model/Limiter.v *)
From Coq Require Import ZArith List Bool Lia.
From HI Require Import Model.Limiter.
Import ListNotations.
Open Scope Z_scope.

(* ---------- one call ---------- *)

Lemma reload_is_reconciler interval last now :
  reload_when interval last now = reconciler_when interval 0 last now.
Proof.
  unfold reload_when, reconciler_when.
  destruct (now <? last); [reflexivity|].
  destruct (last + interval <? now); [f_equal; lia|reflexivity].
Qed.

(* the grant instant is the new value of last *)
Lemma when_grant_is_last delta wait last now :
  now + fst (reconciler_when delta wait last now) = snd (reconciler_when delta wait last now).
Proof.
  unfold reconciler_when.
  destruct (now <? last); cbn [fst snd]; [lia|].
  destruct (last + delta <? now); cbn [fst snd]; lia.
Qed.

(* last never moves, or moves forward by at least delta *)
Lemma when_step delta wait last now : 0 <= wait ->
  let l' := snd (reconciler_when delta wait last now) in
  l' = last \/ last + delta <= l'.
Proof.
  intros Hw. unfold reconciler_when.
  destruct (Z.ltb_spec now last); cbn [snd]; [left; reflexivity|].
  destruct (Z.ltb_spec (last + delta) now); cbn [snd]; right; lia.
Qed.

(* an arrival while a grant is pending receives that grant and changes nothing *)
Lemma when_pending delta wait last now : now < last ->
  reconciler_when delta wait last now = (last - now, last).
Proof. intros H. unfold reconciler_when. destruct (Z.ltb_spec now last); [reflexivity|lia]. Qed.

(* grant within [now, max (now + wait) (last + delta)] *)
Lemma when_bounds delta wait last now : 0 <= wait -> 0 <= delta ->
  let g := snd (reconciler_when delta wait last now) in
  now <= g <= Z.max (now + wait) (last + delta).
Proof.
  intros Hw Hd. unfold reconciler_when.
  destruct (Z.ltb_spec now last); cbn [snd]; [lia|].
  destruct (Z.ltb_spec (last + delta) now); cbn [snd]; lia.
Qed.

(* ---------- sequences of calls ---------- *)

Section Seq.
Variable delta wait : Z.
Hypothesis Hwait : 0 <= wait.
Hypothesis Hdelta : 0 <= delta.
Let f := reconciler_when delta wait.

Lemma grants_cons last now rest :
  grants f last (now :: rest) = snd (f last now) :: grants f (snd (f last now)) rest.
Proof.
  unfold grants. cbn [run_when combine map fst snd]. f_equal.
  apply when_grant_is_last.
Qed.

Lemma grants_length last nows : length (grants f last nows) = length nows.
Proof.
  revert last; induction nows as [|n r IH]; intros last; [reflexivity|].
  rewrite grants_cons. cbn [length]. now rewrite IH.
Qed.

(* every grant is the starting `last` or at least delta after it *)
Lemma grants_from last nows g :
  In g (grants f last nows) -> g = last \/ last + delta <= g.
Proof.
  revert last; induction nows as [|n r IH]; intros last Hin; [destruct Hin|].
  rewrite grants_cons in Hin. destruct Hin as [<-|Hin].
  - apply when_step; assumption.
  - pose proof (when_step delta wait last n Hwait) as Hs. cbn zeta in Hs. fold f in Hs.
    destruct (IH _ Hin) as [->|Hg]; [exact Hs|]. right. lia.
Qed.

(* (1) spacing: two grants are the same instant or at least delta apart, in arrival order *)
Lemma grants_spaced last nows i j gi gj :
  (i < j)%nat -> nth_error (grants f last nows) i = Some gi ->
  nth_error (grants f last nows) j = Some gj ->
  gi = gj \/ gi + delta <= gj.
Proof.
  revert last i j; induction nows as [|n r IH]; intros last i j Hij Hi Hj.
  - destruct i; discriminate.
  - rewrite grants_cons in Hi, Hj. destruct j as [|j]; [lia|]. cbn [nth_error] in Hj.
    destruct i as [|i]; cbn [nth_error] in Hi.
    + injection Hi as <-. apply nth_error_In in Hj.
      destruct (grants_from _ _ _ Hj) as [->|H]; [left; reflexivity|right; exact H].
    + eapply IH; [|exact Hi|exact Hj]. lia.
Qed.

(* and the first grant relative to the initial `last` (a run granted before the sequence) *)
Lemma grants_spaced_from_initial last nows g :
  In g (grants f last nows) -> g = last \/ last + delta <= g.
Proof. apply grants_from. Qed.

(* the values taken by `last` are exactly the grants *)
Lemma run_when_last_is_grant last nows :
  map snd (run_when f last nows) = grants f last nows.
Proof.
  revert last; induction nows as [|n r IH]; intros last; [reflexivity|].
  rewrite grants_cons. cbn [run_when map]. now rewrite IH.
Qed.

Lemma grants_app last pre post :
  grants f last (pre ++ post) = grants f last pre ++ grants f (last_after f last pre) post.
Proof.
  revert last; induction pre as [|n r IH]; intros last; [reflexivity|].
  cbn [app]. rewrite !grants_cons, IH. reflexivity.
Qed.

Lemma last_after_snoc last pre n :
  last_after f last (pre ++ [n]) = snd (f (last_after f last pre) n).
Proof. unfold last_after. now rewrite fold_left_app. Qed.

(* last_after is the last grant (or the initial value) *)
Lemma last_default_irrelevant (l : list Z) d d' : l <> [] -> List.last l d = List.last l d'.
Proof.
  induction l as [|a l IH]; intros Hne; [contradiction|].
  destruct l as [|b l]; [reflexivity|]. cbn [List.last] in *. apply IH. discriminate.
Qed.

Lemma last_after_grants last pre :
  last_after f last pre = List.last (grants f last pre) last.
Proof.
  revert last; induction pre as [|n r IH]; intros last; [reflexivity|].
  rewrite grants_cons. unfold last_after in *. cbn [fold_left]. rewrite IH.
  destruct (grants f (snd (f last n)) r) as [|z l] eqn:E; [reflexivity|].
  change (List.last (snd (f last n) :: z :: l) last) with (List.last (z :: l) last).
  apply last_default_irrelevant. discriminate.
Qed.

(* (2) coalescing: the arrival t comes while the latest grant is still in the future:
   it receives that same instant *)
Lemma coalesce last pre t post :
  t < last_after f last pre ->
  nth_error (grants f last (pre ++ t :: post)) (length pre) = Some (last_after f last pre).
Proof.
  intros Hp. rewrite grants_app, nth_error_app2 by (rewrite grants_length; lia).
  rewrite grants_length, Nat.sub_diag, grants_cons. cbn [nth_error]. f_equal.
  unfold f. rewrite when_pending by exact Hp. reflexivity.
Qed.

(* (3) bounded wait: the arrival t is granted within [t, max (t + wait) (latest grant + delta)] *)
Lemma bounded_wait last pre t post g :
  nth_error (grants f last (pre ++ t :: post)) (length pre) = Some g ->
  t <= g <= Z.max (t + wait) (last_after f last pre + delta).
Proof.
  rewrite grants_app, nth_error_app2 by (rewrite grants_length; lia).
  rewrite grants_length, Nat.sub_diag, grants_cons. cbn [nth_error]. intros [= <-].
  apply when_bounds; assumption.
Qed.

(* grants never decrease (so "consecutive" below is in time order as well) *)
Lemma grants_monotone last nows i j gi gj :
  (i <= j)%nat -> nth_error (grants f last nows) i = Some gi ->
  nth_error (grants f last nows) j = Some gj -> gi <= gj.
Proof.
  intros Hij Hi Hj. destruct (Nat.eq_dec i j) as [->|Hne].
  - rewrite Hi in Hj. injection Hj as ->. lia.
  - destruct (grants_spaced last nows i j gi gj) as [->|H]; try assumption; lia.
Qed.
End Seq.

(* the same for the reload limiter: it is the instance wait = 0 *)
Lemma run_when_ext (f g : whenfn) : (forall l n, f l n = g l n) ->
  forall last nows, run_when f last nows = run_when g last nows.
Proof.
  intros E last nows; revert last; induction nows as [|n r IH]; intros last; [reflexivity|].
  cbn [run_when]. rewrite E, IH. reflexivity.
Qed.

Lemma grants_ext (f g : whenfn) : (forall l n, f l n = g l n) ->
  forall last nows, grants f last nows = grants g last nows.
Proof. intros E last nows. unfold grants. now rewrite (run_when_ext f g E). Qed.

Lemma last_after_ext (f g : whenfn) : (forall l n, f l n = g l n) ->
  forall last nows, last_after f last nows = last_after g last nows.
Proof.
  intros E last nows; revert last; induction nows as [|n r IH]; intros last; [reflexivity|].
  unfold last_after in *. cbn [fold_left]. rewrite E. apply IH.
Qed.

Lemma reload_grants interval last nows :
  grants (reload_when interval) last nows = grants (reconciler_when interval 0) last nows.
Proof. apply grants_ext. intros; apply reload_is_reconciler. Qed.

Lemma reload_last_after interval last nows :
  last_after (reload_when interval) last nows = last_after (reconciler_when interval 0) last nows.
Proof. apply last_after_ext. intros; apply reload_is_reconciler. Qed.

(* ---------- non-vacuity and the pre-repair code ---------- *)

(* reconciler, 2 s interval (rate 0.5/s), wait 200 ms, fresh limiter (last far in the past):
   arrivals at 0, 100 ms (pending), 250 ms (after the run), 2150 ms (pending), 9 s (idle) *)
Example grants_example :
  grants (reconciler_when 2000 200) (-1000000) [0; 100; 250; 2150; 9000]
  = [200; 200; 2200; 2200; 9200].
Proof. reflexivity. Qed.

(* reload limiter, 400 ms: the historical pattern 0, 40, 420 is now spaced *)
Example reload_example :
  grants (reload_when 400) (-1000000) [0; 40; 420; 430; 900] = [0; 400; 800; 800; 1200].
Proof. reflexivity. Qed.

(* the code before the repair: grants (now + delay) of three calls; interval 400,
   arrivals 0, 40, 420 -> reloads granted at 0, 400 and 420: 20 apart *)
Definition v0_grants (interval last : Z) (nows : list Z) : list Z :=
  (fix go last nows := match nows with
     | [] => []
     | n :: r => let p := reload_when_v0 interval last n n in (n + fst p) :: go (snd p) r
     end) last nows.

Lemma reload_v0_spacing_refuted :
  exists interval last nows g1 g2,
    0 < interval /\ nth_error (v0_grants interval last nows) 1 = Some g1 /\
    nth_error (v0_grants interval last nows) 2 = Some g2 /\ g1 <> g2 /\ g2 < g1 + interval.
Proof.
  exists 400, (-1000000), [0; 40; 420], 400, 420.
  repeat split; try reflexivity; lia.
Qed.

(* ---------- the three statements for the reload limiter ---------- *)

Lemma reload_grants_spaced interval : 0 <= interval ->
  forall last nows i j gi gj, (i < j)%nat ->
  nth_error (grants (reload_when interval) last nows) i = Some gi ->
  nth_error (grants (reload_when interval) last nows) j = Some gj ->
  gi = gj \/ gi + interval <= gj.
Proof.
  intros Hi last nows i j gi gj. rewrite reload_grants.
  apply grants_spaced; lia.
Qed.

Lemma reload_grants_spaced_from_initial interval : 0 <= interval ->
  forall last nows g, In g (grants (reload_when interval) last nows) ->
  g = last \/ last + interval <= g.
Proof.
  intros Hi last nows g. rewrite reload_grants. apply grants_spaced_from_initial; lia.
Qed.

Lemma reload_coalesce interval last pre t post :
  t < last_after (reload_when interval) last pre ->
  nth_error (grants (reload_when interval) last (pre ++ t :: post)) (length pre)
  = Some (last_after (reload_when interval) last pre).
Proof. rewrite reload_grants, reload_last_after. apply coalesce. Qed.

Lemma reload_bounded_wait interval : 0 <= interval ->
  forall last pre t post g,
  nth_error (grants (reload_when interval) last (pre ++ t :: post)) (length pre) = Some g ->
  t <= g <= Z.max t (last_after (reload_when interval) last pre + interval).
Proof.
  intros Hi last pre t post g. rewrite reload_grants, reload_last_after. intros H.
  pose proof (bounded_wait interval 0 (Z.le_refl 0) Hi last pre t post g H). lia.
Qed.
