(* Proofs/Order_batch.v -- C06, events inside a batch: the model of syncPartial
   (Model/Conv.v sync_partial) reads the batch only through sets.  Permuting b_links,
   b_add, b_upd and b_del -- and starting from states that are equal as functions /
   as sets of links -- ends in states that are equal as functions / as sets of links. *)
From Coq Require Import List Bool String ZArith Ascii Arith Lia Sorted Permutation Relations.
From HI Require Import Model.Tracker Model.Conv Model.Order Proofs.Tracker Proofs.Conv Proofs.ConvSort
                       Proofs.ConvHist_base Proofs.ConvHist_keys Proofs.Order.
Import ListNotations.
Open Scope string_scope.
Open Scope list_scope.

(* the haproxy model is a function and the tracker a list standing for a set of links *)
Definition seq_c (s s' : cstate) : Prop := forall t, s t = s' t.
Definition teq (T T' : ctracker) : Prop := forall e, In e T <-> In e T'.
Definition st_equiv (x y : st) : Prop := seq_c (fst x) (fst y) /\ teq (snd x) (snd y).

Lemma seq_c_refl s : seq_c s s. Proof. intros t. reflexivity. Qed.
Lemma teq_refl T : teq T T. Proof. intros e. tauto. Qed.
Lemma st_equiv_refl x : st_equiv x x. Proof. split; [apply seq_c_refl|apply teq_refl]. Qed.
Lemma st_equiv_sym x y : st_equiv x y -> st_equiv y x.
Proof. intros [H1 H2]. split; [intros t; symmetry; apply H1|intros e; symmetry; apply H2]. Qed.
Lemma st_equiv_trans x y z : st_equiv x y -> st_equiv y z -> st_equiv x z.
Proof.
  intros [H1 H2] [H3 H4]. split; [intros t; rewrite H1; apply H3|].
  intros e. split; intros H; [apply H4, H2, H|apply H2, H4, H].
Qed.

Lemma seq_get_host s s' h : seq_c s s' -> get_host s h = get_host s' h.
Proof. intros H. unfold get_host. rewrite (H (THost h)). reflexivity. Qed.
Lemma seq_get_back s s' b : seq_c s s' -> get_back s b = get_back s' b.
Proof. intros H. unfold get_back. rewrite (H (TBack b)). reflexivity. Qed.
Lemma seq_upd s s' t c : seq_c s s' -> seq_c (upd s t c) (upd s' t c).
Proof. intros H t'. unfold upd. destruct (tgt_eqb t' t); [reflexivity|apply H]. Qed.
Lemma teq_track T T' (a b : node) : teq T T' -> teq (track T a b) (track T' a b).
Proof. intros H e. unfold track. cbn [In]. pose proof (H e). tauto. Qed.

(* ---- the steps of a sync respect the equivalence ---- *)
Lemma add_host_equiv i hn x y : st_equiv x y -> st_equiv (add_host i hn x) (add_host i hn y).
Proof.
  destruct x as [s T], y as [s' T']. intros [Hs HT]. cbn [fst snd] in *. unfold add_host.
  rewrite (seq_get_host s s' hn Hs). split; cbn [fst snd]; [|apply teq_track; exact HT].
  destruct (get_host s' hn); [exact Hs|apply seq_upd; exact Hs].
Qed.

Lemma add_backend_equiv w i hn r x y : st_equiv x y ->
  st_equiv (fst (add_backend w i hn r x)) (fst (add_backend w i hn r y)) /\
  snd (add_backend w i hn r x) = snd (add_backend w i hn r y).
Proof.
  destruct x as [s T], y as [s' T']. intros [Hs HT]. cbn [fst snd] in *. unfold add_backend.
  destruct (find_svc w _) as [svc|].
  - destruct (pick_port svc _) as [p|].
    + cbn [fst snd]. split; [|reflexivity]. split; cbn [fst snd].
      * rewrite (seq_get_back s s' _ Hs). destruct (get_back s' _); [exact Hs|apply seq_upd; exact Hs].
      * repeat apply teq_track. exact HT.
    + cbn [fst snd]. split; [|reflexivity]. split; cbn [fst snd]; [exact Hs|repeat apply teq_track; exact HT].
  - cbn [fst snd]. split; [|reflexivity]. split; cbn [fst snd]; [exact Hs|repeat apply teq_track; exact HT].
Qed.

Lemma sync_path_equiv w i hn r x y : st_equiv x y -> st_equiv (sync_path w i hn x r) (sync_path w i hn y r).
Proof.
  intros He. unfold sync_path. rewrite (seq_get_host (fst x) (fst y) hn (proj1 He)).
  destruct (get_host (fst y) hn) as [hr|]; [|exact He].
  destruct (has_path hr _ _); [exact He|].
  destruct (add_backend_equiv w i hn r x y He) as [H1 H2].
  destruct (add_backend w i hn r x) as [x1 ob1]. destruct (add_backend w i hn r y) as [y1 ob2].
  cbn [fst snd] in H1, H2. subst ob2. destruct ob1 as [bid|]; [|exact H1].
  destruct x1 as [s1 T1], y1 as [s2 T2]. destruct H1 as [Hs HT]. cbn [fst snd] in Hs, HT.
  rewrite (seq_get_host s1 s2 hn Hs). destruct (get_host s2 hn) as [hr1|]; [|split; assumption].
  split; cbn [fst snd]; [apply seq_upd; exact Hs|exact HT].
Qed.

Lemma fold_equiv {A} (f : st -> A -> st) (l : list A) :
  (forall a x y, st_equiv x y -> st_equiv (f x a) (f y a)) ->
  forall x y, st_equiv x y -> st_equiv (fold_left f l x) (fold_left f l y).
Proof.
  intros Hf. induction l as [|a l IH]; intros x y He; cbn [fold_left]; [exact He|]. apply IH. apply Hf. exact He.
Qed.

Lemma sync_rule_equiv w i rule x y : st_equiv x y -> st_equiv (sync_rule w i x rule) (sync_rule w i y rule).
Proof.
  intros He. unfold sync_rule. apply fold_equiv; [intros r a b; apply sync_path_equiv|].
  apply add_host_equiv. destruct (i_class i); [|exact He].
  destruct He as [Hs HT]. split; cbn [fst snd]; [exact Hs|apply teq_track; exact HT].
Qed.

Lemma tls_of_equiv w i sec T T' : teq T T' ->
  fst (tls_of w i sec T) = fst (tls_of w i sec T') /\ teq (snd (tls_of w i sec T)) (snd (tls_of w i sec T')).
Proof.
  intros HT. unfold tls_of. destruct (String.eqb sec ""); [split; [reflexivity|exact HT]|].
  destruct (assoc _ _); (split; [reflexivity|apply teq_track; exact HT]).
Qed.

Lemma sync_tls_host_equiv w i sec hn x y :
  st_equiv x y -> st_equiv (sync_tls_host w i sec x hn) (sync_tls_host w i sec y hn).
Proof.
  intros He. unfold sync_tls_host. pose proof (add_host_equiv i hn x y He) as Ha.
  destruct (add_host i hn x) as [s1 T1]. destruct (add_host i hn y) as [s2 T2].
  destruct Ha as [Hs HT]. cbn [fst snd] in Hs, HT.
  destruct (tls_of_equiv w i sec T1 T2 HT) as [Hh Ht].
  destruct (tls_of w i sec T1) as [hash1 T1']. destruct (tls_of w i sec T2) as [hash2 T2'].
  cbn [fst snd] in Hh, Ht. subst hash2.
  rewrite (seq_get_host s1 s2 hn Hs). destruct (get_host s2 hn) as [hr|]; [|split; assumption].
  destruct (h_tls hr); (split; cbn [fst snd]; [|exact Ht]); [exact Hs|apply seq_upd; exact Hs].
Qed.

Lemma sync_tls_equiv w i blk x y : st_equiv x y -> st_equiv (sync_tls w i x blk) (sync_tls w i y blk).
Proof. intros He. unfold sync_tls. apply fold_equiv; [|exact He]. intros hn a b. apply sync_tls_host_equiv. Qed.

Theorem sync_ingress_equiv w i x y : st_equiv x y -> st_equiv (sync_ingress w x i) (sync_ingress w y i).
Proof.
  intros He. unfold sync_ingress. apply fold_equiv; [intros blk a b; apply sync_tls_equiv|].
  apply fold_equiv; [intros rule a b; apply sync_rule_equiv|exact He].
Qed.

Theorem fold_sync_equiv w l x y :
  st_equiv x y -> st_equiv (fold_left (sync_ingress w) l x) (fold_left (sync_ingress w) l y).
Proof. apply fold_equiv. intros i a b. apply sync_ingress_equiv. Qed.

(* ================================================================== *)
(* trackAddedIngress only adds links: it prepends them                  *)
(* ================================================================== *)
Definition same_set {A} (l l' : list A) : Prop := forall x, In x l <-> In x l'.

Lemma perm_same_set {A} (l l' : list A) : Permutation l l' -> same_set l l'.
Proof.
  intros Hp x. split; intros H; [eapply Permutation_in; [exact Hp|exact H]|].
  eapply Permutation_in; [apply Permutation_sym; exact Hp|exact H].
Qed.

Lemma fold_prepend {A B} (f : list B -> A -> list B) :
  (forall T a, f T a = f [] a ++ T) -> forall l T, fold_left f l T = fold_left f l [] ++ T.
Proof.
  intros Hf. induction l as [|a l IH]; intros T; cbn [fold_left]; [reflexivity|].
  rewrite IH, (IH (f [] a)), (Hf T a), app_assoc. reflexivity.
Qed.

Lemma find_backend_seq w s s' i r : seq_c s s' -> find_backend w s i r = find_backend w s' i r.
Proof.
  intros Hs. unfold find_backend. destruct (find_svc w _) as [svc|]; [|reflexivity].
  destruct (find_port svc _ _) as [p|]; [|reflexivity]. rewrite (seq_get_back s s' _ Hs). reflexivity.
Qed.

Lemma track_added_seq w s s' T i : seq_c s s' -> track_added_ing w s T i = track_added_ing w s' T i.
Proof.
  intros Hs. unfold track_added_ing. f_equal. apply fold_left_ext_in. intros T0 rule _.
  apply fold_left_ext_in. intros T1 r _. rewrite (find_backend_seq w s s' i r Hs). reflexivity.
Qed.

Lemma track_added_prepend w s i T : track_added_ing w s T i = track_added_ing w s [] i ++ T.
Proof.
  unfold track_added_ing.
  set (g := fun (T : ctracker) (r : prule) =>
              match find_backend w s i r with
              | Some bid => track T (KIngress, i_full i) (KBackend, bid)
              | None => T
              end).
  set (f := fun (T : ctracker) (rule : string * list prule) =>
              let T' := track T (KIngress, i_full i) (KHost, norm_host (fst rule)) in
              fold_left g (snd rule) T').
  set (h1 := fun (T : ctracker) (h : string) => track T (KIngress, i_full i) (KHost, h)).
  set (h := fun (T : ctracker) (blk : list string * string) => fold_left h1 (fst blk) T).
  assert (Hg : forall T r, g T r = g [] r ++ T).
  { intros T0 r. unfold g. destruct (find_backend w s i r); reflexivity. }
  assert (Hf : forall T rule, f T rule = f [] rule ++ T).
  { intros T0 rule. unfold f. cbv zeta. rewrite (fold_prepend g Hg), (fold_prepend g Hg _ (track [] _ _)).
    rewrite <- app_assoc. reflexivity. }
  assert (Hh1 : forall T x, h1 T x = h1 [] x ++ T) by (intros; reflexivity).
  assert (Hh : forall T blk, h T blk = h [] blk ++ T).
  { intros T0 blk. unfold h. apply (fold_prepend h1 Hh1). }
  rewrite (fold_prepend h Hh), (fold_prepend f Hf), (fold_prepend h Hh _ (fold_left f _ [])).
  rewrite <- app_assoc. reflexivity.
Qed.

Lemma fold_track_added_In w s l : forall T e,
  In e (fold_left (track_added_ing w s) l T) <-> In e T \/ exists i, In i l /\ In e (track_added_ing w s [] i).
Proof.
  induction l as [|i l IH]; intros T e; cbn [fold_left].
  - split; [intros H; left; exact H|intros [H|(i & [] & _)]; exact H].
  - rewrite IH, track_added_prepend, in_app_iff. split.
    + intros [[H|H]|(j & Hj & H)].
      * right. exists i. split; [left; reflexivity|exact H].
      * left. exact H.
      * right. exists j. split; [right; exact Hj|exact H].
    + intros [H|(j & [<-|Hj] & H)].
      * left. right. exact H.
      * left. left. exact H.
      * right. exists j. split; assumption.
Qed.

Lemma fold_track_added_equiv w s s' l l' T T' :
  seq_c s s' -> same_set l l' -> teq T T' ->
  teq (fold_left (track_added_ing w s) l T) (fold_left (track_added_ing w s') l' T').
Proof.
  intros Hs Hl HT e. rewrite !fold_track_added_In. split.
  - intros [H|(i & Hi & H)]; [left; apply HT; exact H|right]. exists i. split; [apply Hl; exact Hi|].
    rewrite <- (track_added_seq w s s' [] i Hs). exact H.
  - intros [H|(i & Hi & H)]; [left; apply HT; exact H|right]. exists i. split; [apply Hl; exact Hi|].
    rewrite (track_added_seq w s s' [] i Hs). exact H.
Qed.

(* ================================================================== *)
(* QueryLinks: the output, as a set, depends on the links and the input as sets *)
(* ================================================================== *)
Lemma clos_trans_equiv {A} (R R' : A -> A -> Prop) :
  (forall a b, R a b -> R' a b) -> forall a b, clos_trans A R a b -> clos_trans A R' a b.
Proof.
  intros H a b Hc. induction Hc as [a b Hr|a b c _ IH1 _ IH2]; [apply t_step; apply H; exact Hr|].
  eapply t_trans; eassumption.
Qed.

Lemma reach_equiv (T T' : ctracker) input input' m :
  teq T T' -> same_set input input' -> reach node T input m -> reach node T' input' m.
Proof.
  intros HT Hi (n & Hn & Hc). exists n. split; [apply Hi; exact Hn|].
  eapply clos_trans_equiv; [|exact Hc]. intros a b. unfold edge. apply HT.
Qed.

Lemma query_remove_equiv (T T' : ctracker) input input' :
  teq T T' -> same_set input input' ->
  match query_remove node_eqb T input, query_remove node_eqb T' input' with
  | Some (out, T2), Some (out', T2') => same_set out out' /\ teq T2 T2'
  | _, _ => False
  end.
Proof.
  intros HT Hi. unfold query_remove.
  destruct (query_links node_eqb T input) as [out|] eqn:E1;
    [|exfalso; exact (query_links_total node node_eqb node_eqb_spec _ _ E1)].
  destruct (query_links node_eqb T' input') as [out'|] eqn:E2;
    [|exfalso; exact (query_links_total node node_eqb node_eqb_spec _ _ E2)].
  assert (Ho : same_set out out').
  { intros m. rewrite (query_links_reach node node_eqb node_eqb_spec T input out E1),
                      (query_links_reach node node_eqb node_eqb_spec T' input' out' E2).
    split; apply reach_equiv; try assumption.
    - intros e. symmetry. apply HT.
    - intros x. symmetry. apply Hi. }
  split; [exact Ho|]. intros [a b].
  rewrite !(remove_refs_spec node node_eqb node_eqb_spec). rewrite (HT (a, b)), (Ho a), (Ho b). tauto.
Qed.

Lemma mem_same_set (n : node) out out' : same_set out out' -> mem node_eqb n out = mem node_eqb n out'.
Proof.
  intros H. apply eq_true_iff_eq. rewrite !(mem_In node node_eqb node_eqb_spec). apply H.
Qed.

Lemma remove_all_equiv s s' out out' : seq_c s s' -> same_set out out' -> seq_c (remove_all s out) (remove_all s' out').
Proof.
  intros Hs Ho t. unfold remove_all. destruct t as [h|b].
  - rewrite (mem_same_set (KHost, h) out out' Ho). destruct (mem _ _ _); [reflexivity|apply Hs].
  - rewrite (mem_same_set (KBackend, b) out out' Ho). destruct (mem _ _ _); [reflexivity|apply Hs].
Qed.

(* ================================================================== *)
(* the merge of the names, then sortIngress                             *)
(* ================================================================== *)
Record batch_perm (b b' : batch) : Prop := {
  bp_links : Permutation (b_links b) (b_links b');
  bp_add : Permutation (b_add b) (b_add b');
  bp_upd : Permutation (b_upd b) (b_upd b');
  bp_del : Permutation (b_del b) (b_del b')
}.

(* two added objects of one name: the same object, unless the name was also updated or
   deleted in the batch (then the cache is asked, whatever was added) *)
Definition add_consistent (b : batch) : Prop :=
  forall i j, In i (b_add b) -> In j (b_add b) -> i_full i = i_full j ->
    i = j \/ In (i_full i) (b_del b) \/ In (i_full i) (map i_full (b_upd b)).

Lemma existsb_same_set {A} (f : A -> bool) l l' : same_set l l' -> existsb f l = existsb f l'.
Proof.
  intros H. apply eq_true_iff_eq. rewrite !existsb_exists.
  split; intros (x & Hx & Hf); exists x; (split; [apply H; exact Hx|exact Hf]).
Qed.

Lemma merge_names_In dirty b x :
  In x (merge_names dirty b) <->
  ((In x dirty \/ In x (map i_full (b_upd b))) /\ ~ In x (b_del b)) \/ In x (map i_full (b_add b)).
Proof.
  unfold merge_names. rewrite dedup_In, !in_app_iff, !filter_In.
  assert (He : negb (existsb (String.eqb x) (b_del b)) = true <-> ~ In x (b_del b)).
  { rewrite negb_true_iff. split.
    - intros Hf Hin. apply Bool.not_true_iff_false in Hf. apply Hf. apply existsb_exists.
      exists x. split; [exact Hin|apply String.eqb_refl].
    - intros Hn. apply Bool.not_true_iff_false. intros Ht. apply Hn.
      apply existsb_exists in Ht as (y & Hy & Hxy). apply String.eqb_eq in Hxy. subst y. exact Hy. }
  rewrite He. tauto.
Qed.

Lemma merge_names_perm dirty dirty' b b' :
  same_set dirty dirty' -> batch_perm b b' -> Permutation (merge_names dirty b) (merge_names dirty' b').
Proof.
  intros Hd Hb. apply NoDup_Permutation; [apply dedup_NoDup|apply dedup_NoDup|].
  intros x. rewrite !merge_names_In.
  pose proof (perm_same_set _ _ (bp_del b b' Hb) x) as H1.
  pose proof (perm_same_set _ _ (Permutation_map i_full (bp_add b b' Hb)) x) as H2.
  pose proof (perm_same_set _ _ (Permutation_map i_full (bp_upd b b' Hb)) x) as H4.
  pose proof (Hd x) as H3. tauto.
Qed.

Lemma find_ing_name w n i : find_ing w n = Some i -> i_full i = n.
Proof. unfold find_ing. intros H. apply find_some in H as [_ H]. apply String.eqb_eq. exact H. Qed.

Lemma pick_ing_name w b n i : pick_ing w b n = Some i -> i_full i = n.
Proof.
  unfold pick_ing. destruct (_ || _); [apply find_ing_name|].
  destruct (find _ (rev (b_add b))) as [j|] eqn:E; [|apply find_ing_name].
  intros H. inversion H; subst j. apply find_some in E as [_ E]. apply String.eqb_eq. exact E.
Qed.

Lemma pick_ing_perm w b b' n : batch_perm b b' -> add_consistent b -> pick_ing w b n = pick_ing w b' n.
Proof.
  intros Hb Hc. unfold pick_ing.
  rewrite (existsb_same_set _ _ _ (perm_same_set _ _ (bp_del b b' Hb))),
          (existsb_same_set _ _ _ (perm_same_set _ _ (bp_upd b b' Hb))).
  destruct (existsb (String.eqb n) (b_del b')) eqn:Ed; [reflexivity|].
  destruct (existsb (fun i => String.eqb (i_full i) n) (b_upd b')) eqn:Eu; [reflexivity|]. cbn [orb].
  assert (Hf : find (fun i => String.eqb (i_full i) n) (rev (b_add b))
             = find (fun i => String.eqb (i_full i) n) (rev (b_add b'))).
  { apply find_perm_unique.
    - eapply perm_trans; [apply Permutation_sym, Permutation_rev|].
      eapply perm_trans; [exact (bp_add b b' Hb)|apply Permutation_rev].
    - intros x y Hx Hy Hfx Hfy. apply String.eqb_eq in Hfx, Hfy.
      apply in_rev in Hx. apply in_rev in Hy.
      destruct (Hc x y Hx Hy (eq_trans Hfx (eq_sym Hfy))) as [H|[H|H]]; [exact H| |]; exfalso.
      + rewrite Hfx in H. apply (perm_same_set _ _ (bp_del b b' Hb)) in H.
        apply Bool.not_true_iff_false in Ed. apply Ed. apply existsb_exists. exists n. split; [exact H|apply String.eqb_refl].
      + rewrite Hfx in H. apply in_map_iff in H as (u & Hu & Hin). apply (perm_same_set _ _ (bp_upd b b' Hb)) in Hin.
        apply Bool.not_true_iff_false in Eu. apply Eu. apply existsb_exists. exists u. split; [exact Hin|apply String.eqb_eq; exact Hu]. }
  rewrite Hf. reflexivity.
Qed.

Lemma picked_NoDup w b names : NoDup names ->
  NoDup (map i_full (flat_map (fun n => opt_list (pick_ing w b n)) names)).
Proof.
  induction names as [|n r IH]; intros Hn; cbn [flat_map map]; [constructor|].
  inversion Hn as [|? ? Hnr Hr]; subst. rewrite map_app. apply NoDup_app_intro; [|apply IH; exact Hr|].
  - destruct (pick_ing w b n); cbn; [constructor; [intros []|constructor]|constructor].
  - intros x Hx Hin. destruct (pick_ing w b n) as [i|] eqn:E; cbn in Hx; [|destruct Hx].
    destruct Hx as [<-|[]]. rewrite (pick_ing_name w b n i E) in Hin.
    apply in_map_iff in Hin as (j & Hj & Hin). apply in_flat_map in Hin as (m & Hm & Hjm).
    destruct (pick_ing w b m) as [j'|] eqn:E2; cbn in Hjm; [|destruct Hjm]. destruct Hjm as [->|[]].
    rewrite (pick_ing_name w b m j E2) in Hj. subst m. contradiction.
Qed.

Lemma sorted_picks_perm w b b' names names' :
  batch_perm b b' -> add_consistent b -> Permutation names names' -> NoDup names ->
  sort_ings (flat_map (fun n => opt_list (pick_ing w b n)) names)
  = sort_ings (flat_map (fun n => opt_list (pick_ing w b' n)) names').
Proof.
  intros Hb Hc Hp Hn. apply sort_ings_perm; [|apply picked_NoDup; exact Hn].
  rewrite (flat_map_ext _ (fun n => opt_list (pick_ing w b' n))).
  - apply Permutation_flat_map. exact Hp.
  - intros n. rewrite (pick_ing_perm w b b' n Hb Hc). reflexivity.
Qed.

(* ================================================================== *)
(* syncPartial: the order of the events of a batch does not matter     *)
(* ================================================================== *)
Theorem sync_partial_batch_perm w' x x' b b' :
  st_equiv x x' -> batch_perm b b' -> add_consistent b ->
  match sync_partial w' x b, sync_partial w' x' b' with
  | Some y, Some y' => st_equiv y y'
  | _, _ => False
  end.
Proof.
  destruct x as [s T], x' as [s' T']. intros [Hs HT] Hb Hc. cbn [fst snd] in Hs, HT. unfold sync_partial.
  assert (Hl : same_set (b_add b ++ b_upd b) (b_add b' ++ b_upd b')).
  { apply perm_same_set. apply Permutation_app; [exact (bp_add b b' Hb)|exact (bp_upd b b' Hb)]. }
  pose proof (fold_track_added_equiv w' s s' _ _ T T' Hs Hl HT) as HT1.
  pose proof (query_remove_equiv _ _ (b_links b) (b_links b') HT1 (perm_same_set _ _ (bp_links b b' Hb))) as Hq.
  destruct (query_remove node_eqb (fold_left (track_added_ing w' s) (b_add b ++ b_upd b) T) (b_links b)) as [[out T2]|];
    [|exact Hq].
  destruct (query_remove node_eqb (fold_left (track_added_ing w' s') (b_add b' ++ b_upd b') T') (b_links b')) as [[out' T2']|];
    [|exact Hq].
  destruct Hq as [Ho HT2].
  assert (Hnames : same_set (names_of KIngress out) (names_of KIngress out')).
  { intros n. rewrite !names_of_In. apply Ho. }
  rewrite (sorted_picks_perm w' b b' _ _ Hb Hc (merge_names_perm _ _ b b' Hnames Hb) (dedup_NoDup _)).
  apply fold_sync_equiv. split; cbn [fst snd]; [apply remove_all_equiv; assumption|exact HT2].
Qed.

(* what the normal form of the written files shows *)
Corollary sync_partial_batch_perm_obs w' x b b' :
  batch_perm b b' -> add_consistent b ->
  match sync_partial w' x b, sync_partial w' x b' with
  | Some y, Some y' => forall hn, obs_host (fst y) hn = obs_host (fst y') hn
  | _, _ => False
  end.
Proof.
  intros Hb Hc. pose proof (sync_partial_batch_perm w' x x b b' (st_equiv_refl x) Hb Hc) as H.
  destruct (sync_partial w' x b) as [y|]; [|exact H]. destruct (sync_partial w' x b') as [y'|]; [|exact H].
  destruct H as [Hs _]. intros hn. unfold obs_host. rewrite (seq_get_host _ _ hn Hs).
  destruct (get_host (fst y') hn) as [r|]; [|reflexivity]. f_equal. f_equal.
  apply map_ext. intros p. unfold obs_path. rewrite (seq_get_back _ _ _ Hs). reflexivity.
Qed.

(* a whole history of batches, each delivered in another event order *)
Fixpoint run_batches (x : st) (h : list (batch * world)) : option st :=
  match h with
  | [] => Some x
  | (b, w') :: r => match sync_partial w' x b with Some x' => run_batches x' r | None => None end
  end.

Theorem run_batches_perm h : forall h' x x',
  Forall2 (fun p p' => snd p = snd p' /\ batch_perm (fst p) (fst p') /\ add_consistent (fst p)) h h' ->
  st_equiv x x' ->
  match run_batches x h, run_batches x' h' with
  | Some y, Some y' => st_equiv y y'
  | _, _ => False
  end.
Proof.
  induction h as [|[b w] r IH]; intros h' x x' H2 He; inversion H2 as [|? [b' w2] ? r' (Hw & Hb & Hc) Hr]; subst.
  - exact He.
  - cbn [fst snd] in *. subst w2. cbn [run_batches].
    pose proof (sync_partial_batch_perm w x x' b b' He Hb Hc) as Hstep.
    destruct (sync_partial w x b) as [y|]; [|exact Hstep]. destruct (sync_partial w x' b') as [y'|]; [|destruct Hstep].
    apply IH; assumption.
Qed.

(* the premises are satisfiable: two adds, one update, one delete, in another order *)
Example batch_perm_example :
  let i1 := {| i_ns := "d"; i_name := "i1"; i_stamp := 5; i_class := None; i_rules := [("h1.local", [])]; i_tls := [] |} in
  let i2 := {| i_ns := "d"; i_name := "i2"; i_stamp := 5; i_class := None; i_rules := [("h2.local", [])]; i_tls := [] |} in
  let b := {| b_links := [(KIngress, "d/i1"); (KIngress, "d/i2"); (KIngress, "d/i3")]; b_add := [i1; i2]; b_upd := []; b_del := ["d/i3"] |} in
  let b' := {| b_links := [(KIngress, "d/i3"); (KIngress, "d/i2"); (KIngress, "d/i1")]; b_add := [i2; i1]; b_upd := []; b_del := ["d/i3"] |} in
  batch_perm b b' /\ add_consistent b.
Proof.
  cbv zeta. split.
  - constructor; cbn.
    + eapply perm_trans; [apply perm_skip; apply perm_swap|].
      eapply perm_trans; [apply perm_swap|]. eapply perm_trans; [apply perm_skip; apply perm_swap|]. apply Permutation_refl.
    + apply perm_swap.
    + constructor.
    + apply Permutation_refl.
  - intros i j [<-|[<-|[]]] [<-|[<-|[]]] H; cbn in H; try discriminate; left; reflexivity.
Qed.
