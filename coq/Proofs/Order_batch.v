(* Proofs/Order_batch.v -- C06, events inside a batch: the model of syncPartial
   (Model/Conv.v sync_partial) reads the batch only through sets.  Permuting b_links,
   b_add, b_upd and b_del -- and starting from states that are equal as functions /
   as sets of links -- ends in states that are equal as functions / as sets of links. *)
From Coq Require Import List Bool String ZArith Ascii Arith Lia Sorted Permutation Relations.
From HI Require Import Model.Tracker Model.Conv Model.Order Proofs.Tracker Proofs.Conv Proofs.ConvSort
                       Proofs.ConvHist_base Proofs.ConvHist_keys Proofs.Order.
Import ListNotations.
Open Scope string_scope.
Open Scope list_scope.

(* the haproxy model is a function and the tracker a list standing for a set of links *)
Definition seq_c (s s' : cstate) : Prop := forall t, s t = s' t.
Definition teq (T T' : ctracker) : Prop := forall e, In e T <-> In e T'.
Definition st_equiv (x y : st) : Prop := seq_c (fst x) (fst y) /\ teq (snd x) (snd y).

Lemma seq_c_refl s : seq_c s s. Proof. intros t. reflexivity. Qed.
Lemma teq_refl T : teq T T. Proof. intros e. tauto. Qed.
Lemma st_equiv_refl x : st_equiv x x. Proof. split; [apply seq_c_refl|apply teq_refl]. Qed.
Lemma st_equiv_sym x y : st_equiv x y -> st_equiv y x.
Proof. intros [H1 H2]. split; [intros t; symmetry; apply H1|intros e; symmetry; apply H2]. Qed.
Lemma st_equiv_trans x y z : st_equiv x y -> st_equiv y z -> st_equiv x z.
Proof.
  intros [H1 H2] [H3 H4]. split; [intros t; rewrite H1; apply H3|].
  intros e. split; intros H; [apply H4, H2, H|apply H2, H4, H].
Qed.

Lemma seq_get_host s s' h : seq_c s s' -> get_host s h = get_host s' h.
Proof. intros H. unfold get_host. rewrite (H (THost h)). reflexivity. Qed.
Lemma seq_get_back s s' b : seq_c s s' -> get_back s b = get_back s' b.
Proof. intros H. unfold get_back. rewrite (H (TBack b)). reflexivity. Qed.
Lemma seq_upd s s' t c : seq_c s s' -> seq_c (upd s t c) (upd s' t c).
Proof. intros H t'. unfold upd. destruct (tgt_eqb t' t); [reflexivity|apply H]. Qed.
Lemma teq_track T T' (a b : node) : teq T T' -> teq (track T a b) (track T' a b).
Proof. intros H e. unfold track. cbn [In]. pose proof (H e). tauto. Qed.

(* ---- the steps of a sync respect the equivalence ---- *)
Lemma add_host_equiv i hn x y : st_equiv x y -> st_equiv (add_host i hn x) (add_host i hn y).
Proof.
  destruct x as [s T], y as [s' T']. intros [Hs HT]. cbn [fst snd] in *. unfold add_host.
  rewrite (seq_get_host s s' hn Hs). split; cbn [fst snd]; [|apply teq_track; exact HT].
  destruct (get_host s' hn); [exact Hs|apply seq_upd; exact Hs].
Qed.

Lemma add_backend_equiv w i hn r x y : st_equiv x y ->
  st_equiv (fst (add_backend w i hn r x)) (fst (add_backend w i hn r y)) /\
  snd (add_backend w i hn r x) = snd (add_backend w i hn r y).
Proof.
  destruct x as [s T], y as [s' T']. intros [Hs HT]. cbn [fst snd] in *. unfold add_backend.
  destruct (find_svc w _) as [svc|].
  - destruct (pick_port svc _) as [p|].
    + cbn [fst snd]. split; [|reflexivity]. split; cbn [fst snd].
      * rewrite (seq_get_back s s' _ Hs). destruct (get_back s' _); [exact Hs|apply seq_upd; exact Hs].
      * repeat apply teq_track. exact HT.
    + cbn [fst snd]. split; [|reflexivity]. split; cbn [fst snd]; [exact Hs|repeat apply teq_track; exact HT].
  - cbn [fst snd]. split; [|reflexivity]. split; cbn [fst snd]; [exact Hs|repeat apply teq_track; exact HT].
Qed.

Lemma sync_path_equiv w i hn r x y : st_equiv x y -> st_equiv (sync_path w i hn x r) (sync_path w i hn y r).
Proof.
  intros He. unfold sync_path. rewrite (seq_get_host (fst x) (fst y) hn (proj1 He)).
  destruct (get_host (fst y) hn) as [hr|]; [|exact He].
  destruct (has_path hr _ _); [exact He|].
  destruct (add_backend_equiv w i hn r x y He) as [H1 H2].
  destruct (add_backend w i hn r x) as [x1 ob1]. destruct (add_backend w i hn r y) as [y1 ob2].
  cbn [fst snd] in H1, H2. subst ob2. destruct ob1 as [bid|]; [|exact H1].
  destruct x1 as [s1 T1], y1 as [s2 T2]. destruct H1 as [Hs HT]. cbn [fst snd] in Hs, HT.
  rewrite (seq_get_host s1 s2 hn Hs). destruct (get_host s2 hn) as [hr1|]; [|split; assumption].
  split; cbn [fst snd]; [apply seq_upd; exact Hs|exact HT].
Qed.

Lemma fold_equiv {A} (f : st -> A -> st) (l : list A) :
  (forall a x y, st_equiv x y -> st_equiv (f x a) (f y a)) ->
  forall x y, st_equiv x y -> st_equiv (fold_left f l x) (fold_left f l y).
Proof.
  intros Hf. induction l as [|a l IH]; intros x y He; cbn [fold_left]; [exact He|]. apply IH. apply Hf. exact He.
Qed.

Lemma sync_rule_equiv w i rule x y : st_equiv x y -> st_equiv (sync_rule w i x rule) (sync_rule w i y rule).
Proof.
  intros He. unfold sync_rule. apply fold_equiv; [intros r a b; apply sync_path_equiv|].
  apply add_host_equiv. destruct (i_class i); [|exact He].
  destruct He as [Hs HT]. split; cbn [fst snd]; [exact Hs|apply teq_track; exact HT].
Qed.

Lemma tls_of_equiv w i sec T T' : teq T T' ->
  fst (tls_of w i sec T) = fst (tls_of w i sec T') /\ teq (snd (tls_of w i sec T)) (snd (tls_of w i sec T')).
Proof.
  intros HT. unfold tls_of. destruct (String.eqb sec ""); [split; [reflexivity|exact HT]|].
  destruct (assoc _ _); (split; [reflexivity|apply teq_track; exact HT]).
Qed.

Lemma sync_tls_host_equiv w i sec hn x y :
  st_equiv x y -> st_equiv (sync_tls_host w i sec x hn) (sync_tls_host w i sec y hn).
Proof.
  intros He. unfold sync_tls_host. pose proof (add_host_equiv i hn x y He) as Ha.
  destruct (add_host i hn x) as [s1 T1]. destruct (add_host i hn y) as [s2 T2].
  destruct Ha as [Hs HT]. cbn [fst snd] in Hs, HT.
  destruct (tls_of_equiv w i sec T1 T2 HT) as [Hh Ht].
  destruct (tls_of w i sec T1) as [hash1 T1']. destruct (tls_of w i sec T2) as [hash2 T2'].
  cbn [fst snd] in Hh, Ht. subst hash2.
  rewrite (seq_get_host s1 s2 hn Hs). destruct (get_host s2 hn) as [hr|]; [|split; assumption].
  destruct (h_tls hr); (split; cbn [fst snd]; [|exact Ht]); [apply seq_upd; exact Hs|exact Hs].
Qed.

Lemma sync_tls_equiv w i blk x y : st_equiv x y -> st_equiv (sync_tls w i x blk) (sync_tls w i y blk).
Proof. intros He. unfold sync_tls. apply fold_equiv; [|exact He]. intros hn a b. apply sync_tls_host_equiv. Qed.

Theorem sync_ingress_equiv w i x y : st_equiv x y -> st_equiv (sync_ingress w x i) (sync_ingress w y i).
Proof.
  intros He. unfold sync_ingress. apply fold_equiv; [intros blk a b; apply sync_tls_equiv|].
  apply fold_equiv; [intros rule a b; apply sync_rule_equiv|exact He].
Qed.

Theorem fold_sync_equiv w l x y :
  st_equiv x y -> st_equiv (fold_left (sync_ingress w) l x) (fold_left (sync_ingress w) l y).
Proof. apply fold_equiv. intros i a b. apply sync_ingress_equiv. Qed.
