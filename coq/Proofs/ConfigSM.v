(* Proofs about Model/ConfigSM.v: specification of "the files hold exactly the current model"
   ([disk_ok]), the protocol the converters follow ([wf_batch]), the invariant kept between
   updates, and the main lemma: from a state that is either good or marked as failed, an
   update that reports success leaves the files good (C05 disk_invariant, C12 retry_converges). *)
From Coq Require Import NArith List Bool Lia.
From HI Require Import Model.ConfigSM Model.ConfigSM_Faults.
Import ListNotations.
Open Scope N_scope.

(* ================================================================ specification *)

(* the file a backend belongs to: 0 = main file (no sharding), j+1 = haproxy5-backend<j>.cfg *)
Definition file_of (e : env) (x : N) : N := if nsh e =? 0 then 0 else sh e x + 1.

(* The files hold exactly the current model. *)
Record disk_ok (e : env) (c : config) (d : disk) : Prop := {
  (* every backend of the current state is loaded from exactly one file (the main file without
     sharding, otherwise the file of its shard) with its current content, and no file loads
     anything else: nothing removed remains, nothing is duplicated *)
  ok_backends : forall j x, loaded_in e d j x = if j =? file_of e x then b_items (c_b c) x else None;
  (* the main file exists and renders the current globals, default backend and tcp services *)
  ok_main : exists m, d_main d = Some m /\ m_glob m = c_glob c /\ m_def m = b_def (c_b c) /\
                      forall t, m_tcp m t = t_items (c_t c) t;
  (* the certificate list and every map the main file refers to render the current hosts *)
  ok_crt : forall h, loaded_crt d h = h_items (c_h c) h;
  ok_hostmap : forall h, loaded_hostmap e d h = h_items (c_h c) h;
  ok_rootredir : forall h, loaded_rootredir e d h = h_items (c_h c) h;
  ok_rootssl : forall h, loaded_rootssl e d h = rssl c h;
  (* the maps of every current backend that needs them hold the keys of its current paths:
     hostname and current aliases of the hosts they belong to *)
  ok_backmap : forall x bc, b_items (c_b c) x = Some bc -> needs_map bc = true ->
    d_backmap d x = Some (bmap_keys (h_items (c_h c)) x bc);
  (* the tcp maps / crt-lists the main file refers to render the current tcp services *)
  ok_tcpmap : forall t, loaded_tcpmap e d t = t_items (c_t c) t;
  ok_tcpcrt : forall t, loaded_tcpcrt e d t =
                        if port_tls e (t_items (c_t c)) (tport t) then t_items (c_t c) t else None
}.

(* shards are below the shard count *)
Definition shard_range (e : env) : Prop := forall x, In x (UB e) -> 0 < nsh e -> sh e x < nsh e.

(* ---- the protocol of the converters (converters.go Sync, ingress.go syncFull / syncPartial) *)

Definition is_acq (o : op) : bool :=
  match o with
  | OBackAcquire _ _ | OHostAcquire _ _ | OTcpAcquire _ _ | ODefault _ | OGlobal _ => true
  | _ => false
  end.
(* names belong to the universes *)
Definition op_in (e : env) (o : op) : Prop :=
  match o with
  | OBackAcquire x _ => In x (UB e)
  | OHostAcquire x _ => In x (UH e)
  | OTcpAcquire x _ => In x (UT e)
  | _ => True
  end.
(* a batch is a full sync (Clear, then everything acquired again) or a partial sync (the dirty
   tcp services, hosts and backends removed once, then acquired again) *)
Inductive batch_shape : list op -> Prop :=
| shape_full : forall acqs, forallb is_acq acqs = true -> batch_shape (OClear :: acqs)
| shape_partial : forall lt lh lb acqs, forallb is_acq acqs = true ->
    batch_shape (OTcpRemove lt :: OHostsRemove lh :: OBacksRemove lb :: acqs).
(* when the update starts: the backend of a host's root path exists *)
Definition ready (c : config) : Prop :=
  forall h hc b, h_items (c_h c) h = Some hc -> hroot hc = Some b -> b_items (c_b c) b <> None.
(* the tracker: a backend that needs maps and was not acquired again by the batch has only paths
   of hosts that the batch left as they were (hosts and the backends they route to are dirty
   together: the converter removes and builds again both sides of every link it follows) *)
Definition tracked (c0 c : config) : Prop :=
  forall x bc, b_items (c_b c) x = Some bc -> needs_map bc = true -> b_add (c_b c) x = None ->
  forall hp, In hp (bpaths bc) -> h_items (c_h c) (fst hp) = h_items (c_h c0) (fst hp).
Definition wf_batch (e : env) (c : config) (l : list op) : Prop :=
  batch_shape l /\ Forall (op_in e) l /\ ready (apply_ops e c l) /\ tracked c (apply_ops e c l).

(* ================================================================ basics *)

Lemma armed_nil : forall p, armed [] p = false.
Proof. reflexivity. Qed.

Lemma list_eqb_eq : forall A (f : A -> A -> bool), (forall x y, f x y = true -> x = y) ->
  forall a b, list_eqb f a b = true -> a = b.
Proof.
  intros A f Hf. induction a as [|x a IH]; destruct b as [|y b]; cbn; intros H; try discriminate; auto.
  apply andb_true_iff in H. destruct H as [H1 H2]. f_equal; auto.
Qed.
Lemma pair_eqb_eq : forall p q, pair_eqb p q = true -> p = q.
Proof.
  intros [a b] [c d]. unfold pair_eqb. cbn. intros H. apply andb_true_iff in H. destruct H as [H1 H2].
  apply N.eqb_eq in H1. apply N.eqb_eq in H2. congruence.
Qed.
Lemma bcont_eqb_eq : forall a b, bcont_eqb a b = true -> a = b.
Proof.
  intros [v1 a1 p1 r1] [v2 a2 p2 r2]. unfold bcont_eqb. cbn. intros H.
  repeat (apply andb_true_iff in H; destruct H as [H ?]).
  apply N.eqb_eq in H. apply eqb_prop in H2.
  apply (list_eqb_eq _ _ pair_eqb_eq) in H1.
  apply (list_eqb_eq _ N.eqb (fun x y => proj1 (N.eqb_eq x y))) in H0. congruence.
Qed.
Lemma hcont_eqb_eq : forall a b, hcont_eqb a b = true -> a = b.
Proof.
  intros [v1 a1 p1 l1] [v2 a2 p2 l2]. unfold hcont_eqb. cbn. intros H.
  repeat (apply andb_true_iff in H; destruct H as [H ?]).
  apply N.eqb_eq in H. apply eqb_prop in H2.
  apply (list_eqb_eq _ _ pair_eqb_eq) in H1.
  apply (list_eqb_eq _ N.eqb (fun x y => proj1 (N.eqb_eq x y))) in H0. congruence.
Qed.

Lemma existsb_false : forall A (f : A -> bool) l, existsb f l = false -> forall x, In x l -> f x = false.
Proof.
  intros A f l H x Hx. destruct (f x) eqn:E; auto.
  assert (existsb f l = true) by (apply existsb_exists; eauto). congruence.
Qed.
Lemma existsb_ext_in : forall A (f g : A -> bool) l, (forall x, In x l -> f x = g x) -> existsb f l = existsb g l.
Proof.
  induction l as [|a l IH]; cbn; intros H; auto. rewrite H by auto. rewrite IH; auto.
Qed.
Lemma isSome_true : forall A (o : option A), isSome o = true <-> o <> None.
Proof. destruct o; cbn; split; congruence. Qed.
Lemma isSome_false : forall A (o : option A), isSome o = false <-> o = None.
Proof. destruct o; cbn; split; congruence. Qed.

(* ================================================================ names stay in the universes *)

Definition dom_b (e : env) (b : backends) : Prop :=
  forall x, (b_items b x <> None \/ b_add b x <> None \/ b_del b x <> None) -> In x (UB e).
Definition dom_h (e : env) (h : hosts) : Prop :=
  forall x, (h_items h x <> None \/ h_add h x <> None \/ h_del h x <> None) -> In x (UH e).
Definition dom_t (e : env) (t : tcps) : Prop := forall x, t_items t x <> None -> In x (UT e).
Definition dom (e : env) (c : config) : Prop := dom_b e (c_b c) /\ dom_h e (c_h c) /\ dom_t e (c_t c).

Lemma fset_neq : forall A (m : fmap A) k v x, x <> k -> fset m k v x = m x.
Proof. intros. unfold fset. destruct (N.eqb_spec x k); congruence. Qed.
Lemma fset_eq : forall A (m : fmap A) k v, fset m k v k = Some v.
Proof. intros. unfold fset. rewrite N.eqb_refl. reflexivity. Qed.
Lemma fdel_neq : forall A (m : fmap A) k x, x <> k -> fdel m k x = m x.
Proof. intros. unfold fdel. destruct (N.eqb_spec x k); congruence. Qed.
Lemma fdel_eq : forall A (m : fmap A) k, fdel m k k = None.
Proof. intros. unfold fdel. rewrite N.eqb_refl. reflexivity. Qed.

Lemma dom_b_remove1 : forall e b x, dom_b e b -> dom_b e (backs_remove1 e b x).
Proof.
  intros e b x H. unfold backs_remove1. destruct (b_items b x) eqn:E; auto.
  intros y Hy. cbn in Hy. destruct (N.eqb_spec y x) as [->|N].
  - apply H. left. congruence.
  - rewrite fdel_neq, fset_neq in Hy by auto. apply H. exact Hy.
Qed.
Lemma dom_b_remove : forall e l b, dom_b e b -> dom_b e (backs_remove e b l).
Proof. unfold backs_remove. induction l; cbn; intros; auto. apply IHl. apply dom_b_remove1; auto. Qed.
Lemma dom_b_acquire : forall e b x c, In x (UB e) -> dom_b e b -> dom_b e (backs_acquire e b x c).
Proof.
  intros e b x c Hx H. unfold backs_acquire. destruct (b_items b x) eqn:E; auto.
  intros y Hy. cbn in Hy. destruct (N.eqb_spec y x) as [->|N]; auto.
  rewrite !fset_neq in Hy by auto. apply H. exact Hy.
Qed.
Lemma dom_h_remove1 : forall e h x, dom_h e h -> dom_h e (hosts_remove1 h x).
Proof.
  intros e h x H. unfold hosts_remove1. destruct (h_items h x) eqn:E; auto.
  intros y Hy. cbn in Hy. destruct (N.eqb_spec y x) as [->|N].
  - apply H. left. congruence.
  - rewrite fdel_neq, fset_neq in Hy by auto. apply H. exact Hy.
Qed.
Lemma dom_h_remove : forall e l h, dom_h e h -> dom_h e (hosts_remove h l).
Proof. unfold hosts_remove. induction l; cbn; intros; auto. apply IHl. apply dom_h_remove1; auto. Qed.
Lemma dom_h_acquire : forall e h x c, In x (UH e) -> dom_h e h -> dom_h e (hosts_acquire h x c).
Proof.
  intros e h x c Hx H. unfold hosts_acquire. destruct (h_items h x) eqn:E; auto.
  intros y Hy. cbn in Hy. destruct (N.eqb_spec y x) as [->|N]; auto.
  rewrite !fset_neq in Hy by auto. apply H. exact Hy.
Qed.
Lemma dom_t_remove1 : forall e t x, dom_t e t -> dom_t e (tcps_remove1 t x).
Proof.
  intros e t x H. unfold tcps_remove1. destruct (t_items t x) eqn:E; auto.
  intros y Hy. cbn in Hy. destruct (N.eqb_spec y x) as [->|N].
  - apply H. congruence.
  - rewrite fdel_neq in Hy by auto. apply H. exact Hy.
Qed.
Lemma dom_t_remove : forall e l t, dom_t e t -> dom_t e (tcps_remove t l).
Proof. unfold tcps_remove. induction l; cbn; intros; auto. apply IHl. apply dom_t_remove1; auto. Qed.
Lemma dom_t_acquire : forall e t x c, In x (UT e) -> dom_t e t -> dom_t e (tcps_acquire t x c).
Proof.
  intros e t x c Hx H. unfold tcps_acquire. destruct (t_items t x) eqn:E; auto.
  intros y Hy. cbn in Hy. destruct (N.eqb_spec y x) as [->|N]; auto.
  rewrite fset_neq in Hy by auto. apply H. exact Hy.
Qed.

Lemma dom_apply_op : forall e c o, op_in e o -> dom e c -> dom e (apply_op e c o).
Proof.
  intros e c o Ho [Hb [Hh Ht]]. destruct o; cbn in *; unfold dom; cbn.
  - (* clear *) repeat split.
    + intros x Hx. cbn in Hx. apply Hb. destruct Hx as [Hx|[Hx|Hx]]; try (exfalso; apply Hx; reflexivity). left. exact Hx.
    + intros x Hx. cbn in Hx. destruct Hx as [Hx|[Hx|Hx]]; exfalso; apply Hx; reflexivity.
    + intros x Hx. cbn in Hx. exfalso; apply Hx; reflexivity.
  - repeat split; auto.
  - repeat split; auto. apply dom_t_remove; auto.
  - repeat split; auto. apply dom_h_remove; auto.
  - repeat split; auto. apply dom_b_remove; auto.
  - repeat split; auto. apply dom_b_acquire; auto.
  - repeat split; auto. apply dom_h_acquire; auto.
  - repeat split; auto. apply dom_t_acquire; auto.
  - repeat split; auto.
Qed.
Lemma dom_apply_ops : forall e l c, Forall (op_in e) l -> dom e c -> dom e (apply_ops e c l).
Proof.
  unfold apply_ops. induction l; cbn; intros c Hl Hc; auto. inversion Hl; subst.
  apply IHl; auto. apply dom_apply_op; auto.
Qed.

Lemma bmatch_some : forall b x, bmatch b x = true ->
  exists a d, b_add b x = Some a /\ b_del b x = Some d /\ a = d /\ bacl d = false.
Proof.
  intros b x. unfold bmatch. destruct (b_del b x) as [d|]; try discriminate. destruct (b_add b x) as [a|]; try discriminate.
  intros H. apply andb_true_iff in H. destruct H as [H1 H2]. apply bcont_eqb_eq in H1. apply negb_true_iff in H2.
  exists a, d. auto.
Qed.
Lemma hmatch_some : forall h x, hmatch h x = true ->
  exists a d, h_add h x = Some a /\ h_del h x = Some d /\ a = d.
Proof.
  intros h x. unfold hmatch. destruct (h_del h x) as [d|]; try discriminate. destruct (h_add h x) as [a|]; try discriminate.
  intros H. apply hcont_eqb_eq in H. exists a, d. auto.
Qed.

Lemma dom_shrink : forall e c, dom e c -> dom e (config_shrink e c).
Proof.
  intros e c [Hb [Hh Ht]]. unfold config_shrink, dom. cbn. repeat split; auto.
  - intros x Hx. cbn in Hx. apply Hb. destruct (bmatch (c_b c) x) eqn:M.
    + apply bmatch_some in M. destruct M as [a [d [Ha _]]]. right. left. congruence.
    + exact Hx.
  - intros x Hx. cbn in Hx. apply Hh. destruct (hmatch (c_h c) x) eqn:M.
    + apply hmatch_some in M. destruct M as [a [d [Ha _]]]. right. left. congruence.
    + exact Hx.
Qed.
Lemma dom_change_all : forall e c, dom e c -> dom e (config_change_all e c).
Proof.
  intros e c [Hb [Hh Ht]]. unfold config_change_all, dom. cbn. repeat split; auto.
  intros x Hx. cbn in Hx. apply Hb. destruct (b_items (c_b c) x) eqn:E.
  - left. congruence.
  - exact Hx.
Qed.
Lemma dom_commit : forall e c, dom e c -> dom e (config_commit c).
Proof.
  intros e c [Hb [Hh Ht]]. unfold config_commit, dom. cbn. repeat split; auto.
  - intros x Hx. cbn in Hx. apply Hb. destruct Hx as [Hx|[Hx|Hx]]; try (exfalso; apply Hx; reflexivity). left; exact Hx.
  - intros x Hx. cbn in Hx. apply Hh. destruct Hx as [Hx|[Hx|Hx]]; try (exfalso; apply Hx; reflexivity). left; exact Hx.
Qed.

(* ================================================================ the state between two updates *)

Definition clean (c : config) : Prop :=
  (forall x, b_add (c_b c) x = None) /\ (forall x, b_del (c_b c) x = None) /\ (forall j, b_chg (c_b c) j = false) /\
  (forall x, h_add (c_h c) x = None) /\ (forall x, h_del (c_h c) x = None) /\ t_chg (c_t c) = false.

(* what the files are known to hold; each part is only relied on when the update can skip it *)
Record disk_inv (e : env) (c : config) (d : disk) : Prop := {
  di_main : c_globold c <> None ->
    exists m, d_main d = Some m /\ m_glob m = c_glob c /\ m_def m = b_def (c_b c) /\
      (forall x, m_backs m x = if nsh e =? 0 then b_items (c_b c) x else None) /\
      (forall t, m_tcp m t = t_items (c_t c) t) /\
      exists f, m_fs m = Some f /\ (forall h, fs_hosts f h = h_items (c_h c) h) /\ (forall h, fs_rssl f h = rssl c h);
  di_front : c_fmaps c <> None ->
    (exists f, d_crt d = Some f /\ forall h, f h = h_items (c_h c) h) /\
    (any_host e (h_items (c_h c)) = true ->
       (exists f, d_hostmap d = Some f /\ forall h, f h = h_items (c_h c) h) /\
       (exists f, d_rootredir d = Some f /\ forall h, f h = h_items (c_h c) h)) /\
    (any_rssl e (rssl c) = true -> exists f, d_rootssl d = Some f /\ forall h, f h = rssl c h);
  di_fmaps : forall f, c_fmaps c = Some f ->
    (forall h, fs_hosts f h = h_items (c_h c) h) /\ (forall h, fs_rssl f h = rssl c h);
  di_back : forall x bc, b_items (c_b c) x = Some bc -> needs_map bc = true ->
    d_backmap d x = Some (bmap_keys (h_items (c_h c)) x bc);
  di_tcpmap : forall p, port_used e (t_items (c_t c)) p = true ->
    exists f, d_tcpmap d p = Some f /\ forall t, f t = restrict_port (t_items (c_t c)) p t;
  di_tcpcrt : forall p, port_tls e (t_items (c_t c)) p = true ->
    exists f, d_tcpcrt d p = Some f /\ forall t, f t = restrict_port (t_items (c_t c)) p t
}.

(* no shard file beyond the shard count *)
Definition no_high_shards (e : env) (d : disk) : Prop := forall j, nsh e <= j -> d_shard d j = None.
(* shard file j holds the backends of shard j, as they are *)
Definition shard_holds (e : env) (d : disk) (c : config) (j : N) : Prop :=
  forall x, (match d_shard d j with Some f => f x | None => None end) = if sh e x =? j then b_items (c_b c) x else None.
Definition shards_inv (e : env) (c : config) (d : disk) : Prop := forall j, j < nsh e -> shard_holds e d c j.
(* an instance that has not written a configuration yet knows nothing *)
Definition virgin (c : config) : Prop := c_globold c = None /\ forall x, b_items (c_b c) x = None.

(* Commit remembers the default backend *)
Definition defp (c : config) : Prop := b_defc (c_b c) = b_def (c_b c).
(* Commit copies the globals *)
Definition glob_ok (c : config) : Prop := forall g, c_globold c = Some g -> g = c_glob c.

(* what haproxy loaded last is also a rendering of the current state - unless a reload sits
   in the reload queue *)
Definition run_inv (e : env) (s : inst) : Prop :=
  (inline e = true \/ i_pending s = false) -> c_globold (i_cfg s) <> None ->
  exists r, i_running s = Some r /\ no_high_shards e r /\ shards_inv e (i_cfg s) r /\ disk_inv e (i_cfg s) r.

(* every state a history reaches: either the files are known, or the last update failed.
   Nothing is known of the backend files until the instance has written a configuration
   ([i_clean]): a restarted controller finds whatever the former one left. *)
Definition reach (e : env) (s : inst) : Prop :=
  dom e (i_cfg s) /\ clean (i_cfg s) /\ defp (i_cfg s) /\ glob_ok (i_cfg s) /\
  (i_clean s = true -> no_high_shards e (i_disk s)) /\
  (i_failed s = true \/
   (i_failed s = false /\ disk_inv e (i_cfg s) (i_disk s) /\ run_inv e s /\
    (c_globold (i_cfg s) <> None -> c_fmaps (i_cfg s) <> None) /\
    (i_clean s = true -> shards_inv e (i_cfg s) (i_disk s)) /\
    (i_clean s = false -> virgin (i_cfg s)))).

(* after a successful update *)
Definition good (e : env) (s : inst) : Prop :=
  dom e (i_cfg s) /\ clean (i_cfg s) /\ defp (i_cfg s) /\ glob_ok (i_cfg s) /\
  i_failed s = false /\ i_clean s = true /\ no_high_shards e (i_disk s) /\
  shards_inv e (i_cfg s) (i_disk s) /\ disk_inv e (i_cfg s) (i_disk s) /\ run_inv e s /\
  c_globold (i_cfg s) <> None /\ c_fmaps (i_cfg s) <> None.

Lemma good_reach : forall e s, good e s -> reach e s.
Proof.
  intros e s [H1 [H2 [H3 [H4 [H5 [H6 [H7 [H8 [H9 [H10 [H11 H12]]]]]]]]]]].
  split; auto. split; auto. split; auto. split; auto. split; auto.
  right. split; auto. split; auto. split; auto. split; auto. split; auto.
  intros C. congruence.
Qed.

(* ================================================================ a batch, relative to the committed state *)

Record MB (e : env) (i0 : fmap bcont) (b : backends) : Prop := {
  mb1 : forall x d, b_del b x = Some d -> i0 x = Some d;
  mb2 : forall x a, b_add b x = Some a -> b_items b x = Some a;
  mb3 : forall x, b_add b x = None -> b_del b x = None -> b_items b x = i0 x;
  mb4 : forall x, b_add b x = None -> b_del b x <> None -> b_items b x = None;
  mb5 : 0 < nsh e -> forall x, In x (UB e) -> (b_add b x <> None \/ b_del b x <> None) -> b_chg b (sh e x) = true
}.
Record MH (i0 : fmap hcont) (h : hosts) : Prop := {
  mh1 : forall x d, h_del h x = Some d -> i0 x = Some d;
  mh2 : forall x a, h_add h x = Some a -> h_items h x = Some a;
  mh3 : forall x, h_add h x = None -> h_del h x = None -> h_items h x = i0 x;
  mh4 : forall x, h_add h x = None -> h_del h x <> None -> h_items h x = None
}.

Inductive mode := Full | Partial.
Definition mid_rest (c0 c : config) (md : mode) : Prop :=
  match md with
  | Full => c_globold c = None /\ c_fmaps c = None /\
            (forall x, h_del (c_h c) x = None) /\ (forall x, h_add (c_h c) x = h_items (c_h c) x) /\
            (t_chg (c_t c) = false -> forall t, t_items (c_t c) t = None)
  | Partial => c_globold c = c_globold c0 /\ c_fmaps c = c_fmaps c0 /\ MH (h_items (c_h c0)) (c_h c) /\
               (t_chg (c_t c) = false -> forall t, t_items (c_t c) t = t_items (c_t c0) t) /\
               b_defc (c_b c) = b_defc (c_b c0)
  end.
Definition mid (e : env) (c0 c : config) (md : mode) : Prop :=
  MB e (b_items (c_b c0)) (c_b c) /\ mid_rest c0 c md.

Lemma flag_true : forall c j x, (x = j \/ c x = true) -> flag c j x = true.
Proof. intros c j x [->|H]; unfold flag. rewrite N.eqb_refl; auto. rewrite H. apply orb_true_r. Qed.

Lemma MB_acquire : forall e i0 b x c, MB e i0 b -> MB e i0 (backs_acquire e b x c).
Proof.
  intros e i0 b x c M. unfold backs_acquire. destruct (b_items b x) eqn:E; auto.
  destruct M as [m1 m2 m3 m4 m5]. constructor; cbn.
  - auto.
  - intros y a. destruct (N.eqb_spec y x) as [->|N].
    + rewrite !fset_eq. auto.
    + rewrite !fset_neq by auto. auto.
  - intros y. destruct (N.eqb_spec y x) as [->|N].
    + rewrite fset_eq. discriminate.
    + rewrite !fset_neq by auto. auto.
  - intros y. destruct (N.eqb_spec y x) as [->|N].
    + rewrite fset_eq. discriminate.
    + rewrite !fset_neq by auto. auto.
  - intros Hn y Hy H. destruct (N.eqb_spec y x) as [->|N].
    + apply flag_true. auto.
    + rewrite fset_neq in H by auto. apply flag_true. right. auto.
Qed.

(* RemoveAll keeps the relation as long as nothing was added yet *)
Lemma MB_remove1 : forall e i0 b x, MB e i0 b -> (forall y, b_add b y = None) ->
  MB e i0 (backs_remove1 e b x) /\ (forall y, b_add (backs_remove1 e b x) y = None).
Proof.
  intros e i0 b x M A. unfold backs_remove1. destruct (b_items b x) eqn:E; auto.
  destruct M as [m1 m2 m3 m4 m5]. split; [|cbn; auto].
  assert (Dx : b_del b x = None).
  { destruct (b_del b x) eqn:D; auto. rewrite m4 in E; congruence. }
  constructor; cbn.
  - intros y d. destruct (N.eqb_spec y x) as [->|N].
    + rewrite fset_eq. intros H. inversion H; subst. rewrite <- m3; auto.
    + rewrite fset_neq by auto. auto.
  - intros y a H. rewrite A in H. discriminate.
  - intros y _. destruct (N.eqb_spec y x) as [->|N].
    + rewrite fset_eq. discriminate.
    + rewrite fset_neq, fdel_neq by auto. auto.
  - intros y _. destruct (N.eqb_spec y x) as [->|N].
    + intros _. apply fdel_eq.
    + rewrite fset_neq, fdel_neq by auto. auto.
  - intros Hn y Hy H. destruct (N.eqb_spec y x) as [->|N].
    + apply flag_true. auto.
    + rewrite fset_neq in H by auto. apply flag_true. right. auto.
Qed.
Lemma MB_remove : forall e i0 l b, MB e i0 b -> (forall y, b_add b y = None) ->
  MB e i0 (backs_remove e b l) /\ (forall y, b_add (backs_remove e b l) y = None).
Proof.
  unfold backs_remove. induction l as [|x l IH]; cbn; intros b M A; auto.
  destruct (MB_remove1 e i0 b x M A) as [M' A']. apply IH; auto.
Qed.

Lemma MB_clean : forall e b, (forall x, b_add b x = None) -> (forall x, b_del b x = None) -> MB e (b_items b) b.
Proof.
  intros e b A D. constructor; intros.
  - rewrite D in H. discriminate.
  - rewrite A in H. discriminate.
  - reflexivity.
  - rewrite D in H0. congruence.
  - destruct H1 as [H1|H1]; [rewrite A in H1|rewrite D in H1]; congruence.
Qed.

Lemma MB_clear : forall e b, shard_range e -> dom_b e b -> MB e (b_items b) (backs_clear e b).
Proof.
  intros e b R Db. constructor; cbn; intros.
  - auto.
  - discriminate.
  - symmetry. exact H0.
  - reflexivity.
  - destruct H1 as [H1|H1]; [exfalso; apply H1; reflexivity|].
    apply andb_true_iff. split.
    + apply N.ltb_lt. apply R; auto.
    + apply existsb_exists. exists x. split; auto. rewrite N.eqb_refl, andb_true_r. apply isSome_true. exact H1.
Qed.

Lemma MH_acquire : forall i0 h x c, MH i0 h -> MH i0 (hosts_acquire h x c).
Proof.
  intros i0 h x c M. unfold hosts_acquire. destruct (h_items h x) eqn:E; auto.
  destruct M as [m1 m2 m3 m4]. constructor; cbn.
  - auto.
  - intros y a. destruct (N.eqb_spec y x) as [->|N].
    + rewrite !fset_eq. auto.
    + rewrite !fset_neq by auto. auto.
  - intros y. destruct (N.eqb_spec y x) as [->|N].
    + rewrite fset_eq. discriminate.
    + rewrite !fset_neq by auto. auto.
  - intros y. destruct (N.eqb_spec y x) as [->|N].
    + rewrite fset_eq. discriminate.
    + rewrite !fset_neq by auto. auto.
Qed.
Lemma MH_remove1 : forall i0 h x, MH i0 h -> (forall y, h_add h y = None) ->
  MH i0 (hosts_remove1 h x) /\ (forall y, h_add (hosts_remove1 h x) y = None).
Proof.
  intros i0 h x M A. unfold hosts_remove1. destruct (h_items h x) eqn:E; auto.
  destruct M as [m1 m2 m3 m4]. split; [|cbn; auto].
  assert (Dx : h_del h x = None).
  { destruct (h_del h x) eqn:D; auto. rewrite m4 in E; congruence. }
  constructor; cbn.
  - intros y d. destruct (N.eqb_spec y x) as [->|N].
    + rewrite fset_eq. intros H. inversion H; subst. rewrite <- m3; auto.
    + rewrite fset_neq by auto. auto.
  - intros y a H. rewrite A in H. discriminate.
  - intros y _. destruct (N.eqb_spec y x) as [->|N].
    + rewrite fset_eq. discriminate.
    + rewrite fset_neq, fdel_neq by auto. auto.
  - intros y _. destruct (N.eqb_spec y x) as [->|N].
    + intros _. apply fdel_eq.
    + rewrite fset_neq, fdel_neq by auto. auto.
Qed.
Lemma MH_remove : forall i0 l h, MH i0 h -> (forall y, h_add h y = None) ->
  MH i0 (hosts_remove h l) /\ (forall y, h_add (hosts_remove h l) y = None).
Proof.
  unfold hosts_remove. induction l as [|x l IH]; cbn; intros h M A; auto.
  destruct (MH_remove1 i0 h x M A) as [M' A']. apply IH; auto.
Qed.
Lemma MH_clean : forall h, (forall x, h_add h x = None) -> (forall x, h_del h x = None) -> MH (h_items h) h.
Proof.
  intros h A D. constructor; intros.
  - rewrite D in H. discriminate.
  - rewrite A in H. discriminate.
  - reflexivity.
  - rewrite D in H0. congruence.
Qed.

(* tcp: while the flag is down the items are those of the reference *)
Lemma tcps_remove_same : forall (r : fmap tcont) l t, (t_chg t = false -> forall x, t_items t x = r x) ->
  t_chg (tcps_remove t l) = false -> forall x, t_items (tcps_remove t l) x = r x.
Proof.
  unfold tcps_remove. induction l as [|a l IH]; cbn; intros t H; auto.
  apply IH. unfold tcps_remove1. destruct (t_items t a); cbn; auto. discriminate.
Qed.
Lemma tcps_acquire_same : forall (r : fmap tcont) t a c, (t_chg t = false -> forall x, t_items t x = r x) ->
  t_chg (tcps_acquire t a c) = false -> forall x, t_items (tcps_acquire t a c) x = r x.
Proof.
  intros r t a c H. unfold tcps_acquire. destruct (t_items t a); cbn; auto. discriminate.
Qed.

Lemma backs_remove_defc : forall e l b, b_defc (backs_remove e b l) = b_defc b.
Proof.
  unfold backs_remove. induction l as [|x l IH]; cbn; intros b; auto. rewrite IH.
  unfold backs_remove1. destruct (b_items b x); reflexivity.
Qed.
Lemma backs_acquire_defc : forall e b x c, b_defc (backs_acquire e b x c) = b_defc b.
Proof. intros. unfold backs_acquire. destruct (b_items b x); reflexivity. Qed.

Lemma mid_acq : forall e c0 c md o, is_acq o = true -> mid e c0 c md -> mid e c0 (apply_op e c o) md.
Proof.
  intros e c0 c md o Ho [Mb Mr]. destruct o; try discriminate; cbn.
  - (* global *) split; auto.
  - (* back acquire *) split; cbn.
    + apply MB_acquire; auto.
    + destruct md; cbn in *; auto.
      destruct Mr as [H1 [H2 [H3 [H4 H5]]]]. split; [|split; [|split; [|split]]]; auto.
      rewrite backs_acquire_defc. exact H5.
  - (* host acquire *) split; cbn; auto.
    destruct md; cbn in *.
    + destruct Mr as [H1 [H2 [H3 [H4 H5]]]]. repeat split; auto.
      * intros y. unfold hosts_acquire. destruct (h_items (c_h c) x); cbn; auto.
      * intros y. unfold hosts_acquire. destruct (h_items (c_h c) x) eqn:E; cbn; auto.
        destruct (N.eqb_spec y x) as [->|N]; [rewrite !fset_eq|rewrite !fset_neq by auto]; auto.
    + destruct Mr as [H1 [H2 [H3 [H4 H5]]]]. split; [|split; [|split; [|split]]]; auto. apply MH_acquire; auto.
  - (* tcp acquire *) split; cbn; auto.
    destruct md; cbn in *.
    + destruct Mr as [H1 [H2 [H3 [H4 H5]]]]. repeat split; auto.
      apply (tcps_acquire_same (fun _ => None)); auto.
    + destruct Mr as [H1 [H2 [H3 [H4 H5]]]]. split; [|split; [|split; [|split]]]; auto.
      apply (tcps_acquire_same (t_items (c_t c0))); auto.
  - (* default *) split; cbn.
    + destruct Mb; constructor; cbn; auto.
    + destruct md; cbn in *; auto.
Qed.
Lemma mid_acqs : forall e c0 md l c, forallb is_acq l = true -> mid e c0 c md -> mid e c0 (apply_ops e c l) md.
Proof.
  unfold apply_ops. induction l as [|o l IH]; cbn; intros c H M; auto.
  apply andb_true_iff in H. destruct H as [H1 H2]. apply IH; auto. apply mid_acq; auto.
Qed.

(* the batch, from a clean state *)
Lemma mid_batch : forall e c0 l, shard_range e -> dom e c0 -> clean c0 -> batch_shape l ->
  exists md, mid e c0 (apply_ops e c0 l) md.
Proof.
  intros e c0 l R D [Ca [Cd [Cc [Ha [Hd Ct]]]]] S. inversion S; subst.
  - exists Full. change (apply_ops e c0 (OClear :: acqs)) with (apply_ops e (config_clear e c0) acqs).
    apply mid_acqs; auto. split; cbn.
    + apply MB_clear; auto. apply D.
    + repeat split; auto.
  - exists Partial.
    change (apply_ops e c0 (OTcpRemove lt :: OHostsRemove lh :: OBacksRemove lb :: acqs))
      with (apply_ops e (apply_op e (apply_op e (apply_op e c0 (OTcpRemove lt)) (OHostsRemove lh)) (OBacksRemove lb)) acqs).
    apply mid_acqs; auto. split; cbn.
    + apply MB_remove; auto. apply MB_clean; auto.
    + split; [|split; [|split; [|split]]]; auto.
      * apply MH_remove; auto. apply MH_clean; auto.
      * apply (tcps_remove_same (t_items (c_t c0))). auto.
      * apply backs_remove_defc.
Qed.

(* ================================================================ Shrink keeps the relation *)

Lemma MB_shrink : forall e i0 b, MB e i0 b -> MB e i0 (backs_shrink e b).
Proof.
  intros e i0 b [m1 m2 m3 m4 m5]. constructor; cbn.
  - intros x d. destruct (bmatch b x); [discriminate|auto].
  - intros x a. destruct (bmatch b x); [discriminate|auto].
  - intros x. destruct (bmatch b x) eqn:M.
    + intros _ _. apply bmatch_some in M. destruct M as [a [d [Ha [Hd _]]]]. rewrite Hd. symmetry. auto.
    + auto.
  - intros x. destruct (bmatch b x) eqn:M.
    + intros _ H. congruence.
    + auto.
  - intros Hn x Hx H. destruct (existsb (bmatch b) (UB e)) eqn:Ex.
    + apply existsb_exists. exists x. split; auto. rewrite N.eqb_refl, andb_true_r.
      destruct H as [H|H]; apply isSome_true in H; rewrite H; auto. apply orb_true_r.
    + apply m5; auto. destruct (bmatch b x); auto. destruct H; congruence.
Qed.
Lemma MH_shrink : forall i0 h, MH i0 h -> MH i0 (hosts_shrink h).
Proof.
  intros i0 h [m1 m2 m3 m4]. constructor; cbn.
  - intros x d. destruct (hmatch h x); [discriminate|auto].
  - intros x a. destruct (hmatch h x); [discriminate|auto].
  - intros x. destruct (hmatch h x) eqn:M.
    + intros _ _. apply hmatch_some in M. destruct M as [a [d [Ha [Hd _]]]]. rewrite Hd. symmetry. auto.
    + auto.
  - intros x. destruct (hmatch h x) eqn:M.
    + intros _ H. congruence.
    + auto.
Qed.
Lemma mid_shrink : forall e c0 c md, mid e c0 c md -> mid e c0 (config_shrink e c) md.
Proof.
  intros e c0 c md [Mb Mr]. split; cbn.
  - apply MB_shrink; auto.
  - destruct md; cbn in *.
    + destruct Mr as [H1 [H2 [H3 [H4 H5]]]].
      assert (Hm : forall x, hmatch (c_h c) x = false) by (intros x; unfold hmatch; rewrite H3; reflexivity).
      repeat split; auto; intros x; rewrite Hm; auto.
    + destruct Mr as [H1 [H2 [H3 [H4 H5]]]]. split; [|split; [|split; [|split]]]; auto. apply MH_shrink; auto.
Qed.

(* items exist before Shrink iff they exist after *)
Lemma shrink_items_some : forall e i0 b x, MB e i0 b ->
  isSome (b_items (backs_shrink e b) x) = isSome (b_items b x).
Proof.
  intros e i0 b x M. cbn. destruct (bmatch b x) eqn:E; auto.
  apply bmatch_some in E. destruct E as [a [d [Ha [Hd _]]]]. rewrite Hd. rewrite (mb2 _ _ _ M x a Ha). reflexivity.
Qed.
Lemma shrink_hitems : forall i0 h x, MH i0 h -> h_items (hosts_shrink h) x = h_items h x.
Proof.
  intros i0 h x M. cbn. destruct (hmatch h x) eqn:E; auto.
  apply hmatch_some in E. destruct E as [a [d [Ha [Hd Had]]]]. rewrite Hd. rewrite (mh2 _ _ M x a Ha). congruence.
Qed.

(* ================================================================ the phases, when they do not fail *)

Definition tcpmaps_w (e : env) (c : config) (d : disk) : disk :=
  if t_chg (c_t c) then
    with_tcpmap d (fun p => if port_used e (t_items (c_t c)) p then Some (restrict_port (t_items (c_t c)) p) else d_tcpmap d p)
  else d.
Lemma ph_tcpmaps_ok : forall e fs c d d', ph_tcpmaps e fs c d = (d', false) -> d' = tcpmaps_w e c d.
Proof.
  intros e fs c d d'. unfold ph_tcpmaps, tcpmaps_w. destruct (t_chg (c_t c)).
  - destruct (armed fs FTcpMaps && _); intros H; inversion H; reflexivity.
  - intros H; inversion H; reflexivity.
Qed.

Definition front_guard (e : env) (c : config) : bool :=
  negb (isSome (c_fmaps c)) || hosts_changed e (c_h c) || rootdep_changed e c.
Definition front_w (e : env) (c : config) (d : disk) : disk :=
  if front_guard e c then
    let hs := h_items (c_h c) in
    let rs := rssl c in
    let d1 := with_front d (Some hs) (d_hostmap d) (d_rootredir d) (d_rootssl d) in
    let d2 := if any_host e hs then with_front d1 (d_crt d1) (Some hs) (d_rootredir d1) (d_rootssl d1) else d1 in
    let d3 := if any_host e hs then with_front d2 (d_crt d2) (d_hostmap d2) (Some hs) (d_rootssl d2) else d2 in
    if any_rssl e rs then with_front d3 (d_crt d3) (d_hostmap d3) (d_rootredir d3) (Some rs) else d3
  else d.
Definition front_c (e : env) (c : config) : config :=
  if front_guard e c then
    {| c_b := c_b c; c_h := c_h c; c_t := c_t c; c_glob := c_glob c; c_globold := c_globold c;
       c_fmaps := Some {| fs_hosts := h_items (c_h c); fs_rssl := rssl c |} |}
  else c.
Lemma ph_front_ok : forall e fs c d c' d', ph_front e fs c d = (c', d', false) ->
  c' = front_c e c /\ d' = front_w e c d.
Proof.
  intros e fs c d c' d'. unfold ph_front, front_c, front_w, front_guard.
  destruct (negb (isSome (c_fmaps c)) || hosts_changed e (c_h c) || rootdep_changed e c).
  - destruct (armed fs FFrontCrt); [intros H; inversion H|].
    destruct (any_host e (h_items (c_h c))); cbn [andb].
    + destruct (armed fs FFrontHost); [intros H; inversion H|].
      destruct (armed fs FFrontRootRedir); [intros H; inversion H|].
      destruct (any_rssl e (rssl c)); cbn [andb].
      * destruct (armed fs FFrontRootSSL); intros H; inversion H. auto.
      * intros H; inversion H. auto.
    + destruct (any_rssl e (rssl c)); cbn [andb].
      * destruct (armed fs FFrontRootSSL); intros H; inversion H. auto.
      * intros H; inversion H. auto.
  - intros H; inversion H. auto.
Qed.

Definition backmaps_w (e : env) (c : config) (d : disk) : disk :=
  if backs_changed e (c_b c) then
    with_backmap d (fun x => match b_add (c_b c) x with
                             | Some bc => if needs_map bc then Some (bmap_keys (h_items (c_h c)) x bc) else d_backmap d x
                             | None => d_backmap d x end)
  else d.
Lemma ph_backmaps_ok : forall e fs c d d', ph_backmaps e fs c d = (d', false) -> d' = backmaps_w e c d.
Proof.
  intros e fs c d d'. unfold ph_backmaps, backmaps_w. destruct (backs_changed e (c_b c)).
  - destruct (armed fs FBackMaps && _); intros H; inversion H; reflexivity.
  - intros H; inversion H; reflexivity.
Qed.

Definition tcpcrt_w (e : env) (c : config) (d : disk) : disk :=
  with_tcpcrt d (fun p => if port_tls e (t_items (c_t c)) p then Some (restrict_port (t_items (c_t c)) p) else d_tcpcrt d p).
Lemma ph_tcpcrt_ok : forall e fs c d d', ph_tcpcrt e fs c d = (d', false) -> d' = tcpcrt_w e c d.
Proof.
  intros e fs c d d'. unfold ph_tcpcrt, tcpcrt_w.
  destruct (armed fs FTcpCrt && _); intros H; inversion H; reflexivity.
Qed.

Definition config_w (e : env) (fs : list fpoint) (cl : bool) (c : config) (d : disk) : disk :=
  let d1 := with_main d (Some (render_main e c)) in
  with_shard d1 (fun j => if (j <? nsh e) && b_chg (c_b c) j && negb (shard_fails e fs c (Some j))
                          then Some (restrict_shard e (b_items (c_b c)) j)
                          else if cl || shard_fails e fs c None then d_shard d1 j else None).
Lemma ph_config_ok : forall e fs cl c d d', ph_config e fs cl c d = (d', false) ->
  d' = config_w e fs cl c d /\ shard_fails e fs c None = false.
Proof.
  intros e fs cl c d d'. unfold ph_config, config_w. destruct (armed fs FMain); [intros H; inversion H|].
  intros H. inversion H. auto.
Qed.
Lemma shard_fails_upto : forall e fs c j, shard_fails e fs c None = false -> shard_fails e fs c (Some j) = false.
Proof.
  intros e fs c j. unfold shard_fails. induction fs as [|p fs IH]; cbn; auto.
  intros H. apply orb_false_iff in H. destruct H as [H1 H2]. rewrite IH by auto.
  destruct p; auto. rewrite andb_true_r in H1. rewrite H1. reflexivity.
Qed.

Definition mk_inst (c : config) (d : disk) (f : bool) (cl : bool) (r : option disk) (p : bool) : inst :=
  {| i_cfg := c; i_disk := d; i_failed := f; i_clean := cl; i_running := r; i_pending := p |}.

(* what an update that reports success did *)
Lemma update_f_ok : forall e fs s s', update_f e fs s = (s', false) ->
  let c0 := config_shrink e (i_cfg s) in
  let c1 := if i_failed s then config_change_all e c0 else c0 in
  let d1 := tcpmaps_w e c1 (i_disk s) in
  let c2 := front_c e c1 in
  let d2 := front_w e c1 d1 in
  let d3 := backmaps_w e c2 d2 in
  let d4 := tcpcrt_w e c2 d3 in
  (updated e c2 = true /\ s' = mk_inst (config_commit c2) d4 false (i_clean s) (i_running s) (i_pending s)) \/
  (updated e c2 = false /\ shard_fails e fs c2 None = false /\
   s' = mk_inst (config_commit c2) (config_w e fs (i_clean s) c2 d4) false true
          (if inline e then (if armed fs FReloadSilent then i_running s else Some (config_w e fs (i_clean s) c2 d4))
           else i_running s)
          (if inline e then i_pending s else true)).
Proof.
  intros e fs s s'. unfold update_f.
  destruct (ph_tcpmaps e fs _ (i_disk s)) as [d1 e1] eqn:P1.
  destruct e1; [unfold finish; intros H; inversion H|]. apply ph_tcpmaps_ok in P1. subst d1.
  destruct (ph_front e fs _ _) as [[c2 d2] e2] eqn:P2.
  destruct e2; [unfold finish; intros H; inversion H|]. apply ph_front_ok in P2. destruct P2 as [-> ->].
  destruct (ph_backmaps e fs _ _) as [d3 e3] eqn:P3.
  destruct e3; [unfold finish; intros H; inversion H|]. apply ph_backmaps_ok in P3. subst d3.
  destruct (ph_tcpcrt e fs _ _) as [d4 e4] eqn:P4.
  destruct e4; [unfold finish; intros H; inversion H|]. apply ph_tcpcrt_ok in P4. subst d4.
  cbv zeta.
  destruct (updated e _) eqn:U.
  - unfold finish. intros H. inversion H. left. auto.
  - destruct (ph_config e fs _ _ _) as [d5 e5] eqn:P5.
    destruct e5; [unfold finish; intros H; inversion H|]. apply ph_config_ok in P5. destruct P5 as [-> SF].
    right. split; auto. split; auto.
    destruct (inline e).
    + destruct (armed fs FReloadRequest || armed fs FReloadResult || armed fs FReloadReset); unfold finish in H; inversion H. reflexivity.
    + unfold finish in H. inversion H. reflexivity.
Qed.

(* ---- what each phase leaves in each file *)

Ltac split_ifs :=
  repeat match goal with |- context [if ?b then _ else _] => destruct b end.

Lemma tcpmaps_w_others : forall e c d,
  d_main (tcpmaps_w e c d) = d_main d /\ d_shard (tcpmaps_w e c d) = d_shard d /\ d_crt (tcpmaps_w e c d) = d_crt d /\
  d_hostmap (tcpmaps_w e c d) = d_hostmap d /\ d_rootredir (tcpmaps_w e c d) = d_rootredir d /\
  d_rootssl (tcpmaps_w e c d) = d_rootssl d /\ d_backmap (tcpmaps_w e c d) = d_backmap d /\
  d_tcpcrt (tcpmaps_w e c d) = d_tcpcrt d.
Proof. intros. unfold tcpmaps_w. destruct (t_chg (c_t c)); cbn; repeat split. Qed.
Lemma tcpmaps_w_own : forall e c d p,
  d_tcpmap (tcpmaps_w e c d) p =
  if t_chg (c_t c) && port_used e (t_items (c_t c)) p then Some (restrict_port (t_items (c_t c)) p) else d_tcpmap d p.
Proof. intros. unfold tcpmaps_w. destruct (t_chg (c_t c)); cbn; auto. Qed.

Lemma front_w_others : forall e c d,
  d_main (front_w e c d) = d_main d /\ d_shard (front_w e c d) = d_shard d /\
  d_backmap (front_w e c d) = d_backmap d /\ d_tcpmap (front_w e c d) = d_tcpmap d /\
  d_tcpcrt (front_w e c d) = d_tcpcrt d.
Proof. intros. unfold front_w. split_ifs; cbn; repeat split. Qed.
Lemma front_w_skip : forall e c d, front_guard e c = false -> front_w e c d = d.
Proof. intros e c d H. unfold front_w. rewrite H. reflexivity. Qed.
Lemma front_w_own : forall e c d, front_guard e c = true ->
  d_crt (front_w e c d) = Some (h_items (c_h c)) /\
  d_hostmap (front_w e c d) = (if any_host e (h_items (c_h c)) then Some (h_items (c_h c)) else d_hostmap d) /\
  d_rootredir (front_w e c d) = (if any_host e (h_items (c_h c)) then Some (h_items (c_h c)) else d_rootredir d) /\
  d_rootssl (front_w e c d) = (if any_rssl e (rssl c) then Some (rssl c) else d_rootssl d).
Proof. intros e c d H. unfold front_w. rewrite H. split_ifs; cbn; repeat split. Qed.

Lemma backmaps_w_others : forall e c d,
  d_main (backmaps_w e c d) = d_main d /\ d_shard (backmaps_w e c d) = d_shard d /\ d_crt (backmaps_w e c d) = d_crt d /\
  d_hostmap (backmaps_w e c d) = d_hostmap d /\ d_rootredir (backmaps_w e c d) = d_rootredir d /\
  d_rootssl (backmaps_w e c d) = d_rootssl d /\ d_tcpmap (backmaps_w e c d) = d_tcpmap d /\
  d_tcpcrt (backmaps_w e c d) = d_tcpcrt d.
Proof. intros. unfold backmaps_w. destruct (backs_changed e (c_b c)); cbn; repeat split. Qed.
Lemma backmaps_w_own : forall e c d x,
  d_backmap (backmaps_w e c d) x =
  if backs_changed e (c_b c) then
    match b_add (c_b c) x with
    | Some bc => if needs_map bc then Some (bmap_keys (h_items (c_h c)) x bc) else d_backmap d x
    | None => d_backmap d x end
  else d_backmap d x.
Proof. intros. unfold backmaps_w. destruct (backs_changed e (c_b c)); cbn; auto. Qed.

Lemma tcpcrt_w_others : forall e c d,
  d_main (tcpcrt_w e c d) = d_main d /\ d_shard (tcpcrt_w e c d) = d_shard d /\ d_crt (tcpcrt_w e c d) = d_crt d /\
  d_hostmap (tcpcrt_w e c d) = d_hostmap d /\ d_rootredir (tcpcrt_w e c d) = d_rootredir d /\
  d_rootssl (tcpcrt_w e c d) = d_rootssl d /\ d_backmap (tcpcrt_w e c d) = d_backmap d /\
  d_tcpmap (tcpcrt_w e c d) = d_tcpmap d.
Proof. intros. unfold tcpcrt_w. cbn. repeat split. Qed.

Lemma config_w_others : forall e fs cl c d,
  d_crt (config_w e fs cl c d) = d_crt d /\ d_hostmap (config_w e fs cl c d) = d_hostmap d /\
  d_rootredir (config_w e fs cl c d) = d_rootredir d /\ d_rootssl (config_w e fs cl c d) = d_rootssl d /\
  d_backmap (config_w e fs cl c d) = d_backmap d /\ d_tcpmap (config_w e fs cl c d) = d_tcpmap d /\
  d_tcpcrt (config_w e fs cl c d) = d_tcpcrt d.
Proof. intros. unfold config_w. cbn. repeat split. Qed.
Lemma config_w_shard : forall e fs cl c d j, shard_fails e fs c None = false ->
  d_shard (config_w e fs cl c d) j =
  if (j <? nsh e) && b_chg (c_b c) j then Some (restrict_shard e (b_items (c_b c)) j)
  else if cl then d_shard d j else None.
Proof.
  intros e fs cl c d j H. unfold config_w. cbn. rewrite (shard_fails_upto _ _ _ j H). rewrite H. cbn.
  rewrite andb_true_r, orb_false_r. reflexivity.
Qed.

(* the frontend maps are not read by the other decisions *)
Lemma front_c_fields : forall e c,
  c_b (front_c e c) = c_b c /\ c_h (front_c e c) = c_h c /\ c_t (front_c e c) = c_t c /\
  c_glob (front_c e c) = c_glob c /\ c_globold (front_c e c) = c_globold c.
Proof. intros. unfold front_c. destruct (front_guard e c); cbn; repeat split. Qed.
Lemma updated_front_c : forall e c, updated e (front_c e c) = updated e c.
Proof.
  intros. unfold updated. destruct (front_c_fields e c) as [Hb [Hh [Ht [Hg Ho]]]]. rewrite Hb, Hh, Ht, Hg, Ho. reflexivity.
Qed.
Lemma rssl_front_c : forall e c h, rssl (front_c e c) h = rssl c h.
Proof. intros. unfold rssl. destruct (front_c_fields e c) as [Hb [Hh _]]. rewrite Hb, Hh. reflexivity. Qed.

Lemma rssl_commit : forall c h, rssl (config_commit c) h = rssl c h.
Proof. intros. reflexivity. Qed.

(* ================================================================ the core: one update that reports success.
   c1 is the configuration once Shrink (and changeAll, after a failure) ran; d0 the files
   before the update.  The hypotheses say what may be relied on for each thing the update skips. *)
Section Core.
Variable e : env.
Variable fs : list fpoint.
Variable cl : bool.
Variable c1 : config.
Variable d0 : disk.
Let c2 := front_c e c1.
Let d1 := tcpmaps_w e c1 d0.
Let d2 := front_w e c1 d1.
Let d3 := backmaps_w e c2 d2.
Let d4 := tcpcrt_w e c2 d3.

Definition main_holds (d : disk) (c : config) : Prop :=
  exists m, d_main d = Some m /\ m_glob m = c_glob c /\ m_def m = b_def (c_b c) /\
    (forall x, m_backs m x = if nsh e =? 0 then b_items (c_b c) x else None) /\
    (forall t, m_tcp m t = t_items (c_t c) t) /\
    exists f, m_fs m = Some f /\ (forall h, fs_hosts f h = h_items (c_h c) h) /\ (forall h, fs_rssl f h = rssl c h).
Definition front_holds (d : disk) (c : config) : Prop :=
  (exists f, d_crt d = Some f /\ forall h, f h = h_items (c_h c) h) /\
  (any_host e (h_items (c_h c)) = true ->
     (exists f, d_hostmap d = Some f /\ forall h, f h = h_items (c_h c) h) /\
     (exists f, d_rootredir d = Some f /\ forall h, f h = h_items (c_h c) h)) /\
  (any_rssl e (rssl c) = true -> exists f, d_rootssl d = Some f /\ forall h, f h = rssl c h).
Definition fmaps_hold (c : config) (f : fsnap) : Prop :=
  (forall h, fs_hosts f h = h_items (c_h c) h) /\ (forall h, fs_rssl f h = rssl c h).

Hypothesis A_tcp : t_chg (c_t c1) = false -> forall p, port_used e (t_items (c_t c1)) p = true ->
  exists f, d_tcpmap d0 p = Some f /\ forall t, f t = restrict_port (t_items (c_t c1)) p t.
Hypothesis A_front : front_guard e c1 = false ->
  (exists f, c_fmaps c1 = Some f /\ fmaps_hold c1 f) /\ front_holds d0 c1.
Hypothesis A_add : forall x a, b_add (c_b c1) x = Some a -> b_items (c_b c1) x = Some a.
Hypothesis A_back : forall x bc, b_items (c_b c1) x = Some bc -> needs_map bc = true ->
  (backs_changed e (c_b c1) = false \/ b_add (c_b c1) x = None) -> d_backmap d0 x = Some (bmap_keys (h_items (c_h c1)) x bc).
Hypothesis A_shard : cl = true -> forall j, j < nsh e -> b_chg (c_b c1) j = false -> shard_holds e d0 c1 j.
Hypothesis A_fresh : cl = false -> forall j, j < nsh e -> b_chg (c_b c1) j = false ->
  forall x, sh e x = j -> b_items (c_b c1) x = None.
Hypothesis A_high : cl = true -> no_high_shards e d0.
Hypothesis A_upd : updated e c1 = true ->
  main_holds d0 c1 /\ (forall j, j < nsh e -> shard_holds e d0 c1 j) /\ no_high_shards e d0.

Lemma c2_fields : c_b c2 = c_b c1 /\ c_h c2 = c_h c1 /\ c_t c2 = c_t c1 /\ c_glob c2 = c_glob c1.
Proof. destruct (front_c_fields e c1) as [H1 [H2 [H3 [H4 _]]]]. auto. Qed.

Lemma c2_fmaps : exists f, c_fmaps c2 = Some f /\ fmaps_hold c1 f.
Proof.
  unfold c2, front_c. destruct (front_guard e c1) eqn:G.
  - eexists. split; [reflexivity|]. split; intros; reflexivity.
  - destruct (A_front eq_refl) as [[f [Hf Hh]] _]. exists f. auto.
Qed.

Lemma d4_fields :
  d_main d4 = d_main d0 /\ d_shard d4 = d_shard d0 /\
  d_crt d4 = d_crt d2 /\ d_hostmap d4 = d_hostmap d2 /\ d_rootredir d4 = d_rootredir d2 /\ d_rootssl d4 = d_rootssl d2 /\
  (forall x, d_backmap d4 x = d_backmap d3 x) /\ (forall p, d_tcpmap d4 p = d_tcpmap d1 p).
Proof.
  destruct (tcpcrt_w_others e c2 d3) as [T1 [T2 [T3 [T4 [T5 [T6 [T7 T8]]]]]]].
  destruct (backmaps_w_others e c2 d2) as [B1 [B2 [B3 [B4 [B5 [B6 [B7 B8]]]]]]].
  destruct (front_w_others e c1 d1) as [F1 [F2 [F3 [F4 F5]]]].
  destruct (tcpmaps_w_others e c1 d0) as [M1 [M2 [M3 [M4 [M5 [M6 [M7 M8]]]]]]].
  fold d1 in M1, M2, M3, M4, M5, M6, M7, M8. fold d2 in F1, F2, F3, F4, F5.
  fold d3 in B1, B2, B3, B4, B5, B6, B7, B8. fold d4 in T1, T2, T3, T4, T5, T6, T7, T8.
  repeat split; intros; try reflexivity; congruence.
Qed.

Lemma core_front : front_holds d4 c1.
Proof.
  destruct d4_fields as [_ [_ [Hc [Hh [Hr [Hs _]]]]]]. unfold front_holds. rewrite Hc, Hh, Hr, Hs.
  destruct (front_guard e c1) eqn:G.
  - destruct (front_w_own e c1 d1 G) as [O1 [O2 [O3 O4]]]. fold d2 in O1, O2, O3, O4. rewrite O1, O2, O3, O4.
    split; [|split].
    + eexists; split; [reflexivity|]. reflexivity.
    + intros A. rewrite A. split; eexists; (split; [reflexivity|]); reflexivity.
    + intros A. rewrite A. eexists; split; [reflexivity|]. reflexivity.
  - unfold d2. rewrite (front_w_skip e c1 d1 G).
    destruct (tcpmaps_w_others e c1 d0) as [_ [_ [M3 [M4 [M5 [M6 _]]]]]]. fold d1 in M3, M4, M5, M6.
    rewrite M3, M4, M5, M6. apply (A_front eq_refl).
Qed.

Lemma core_back : forall x bc, b_items (c_b c1) x = Some bc -> needs_map bc = true ->
  d_backmap d4 x = Some (bmap_keys (h_items (c_h c1)) x bc).
Proof.
  intros x bc Hx Hn. destruct d4_fields as [_ [_ [_ [_ [_ [_ [Hb _]]]]]]]. rewrite Hb. unfold d3.
  rewrite backmaps_w_own. destruct c2_fields as [Cb [Ch _]]. rewrite Cb, Ch.
  assert (Old : d_backmap d2 x = d_backmap d0 x).
  { destruct (front_w_others e c1 d1) as [_ [_ [F3 _]]]. destruct (tcpmaps_w_others e c1 d0) as [_ [_ [_ [_ [_ [_ [M7 _]]]]]]].
    unfold d2. rewrite F3. unfold d1. rewrite M7. reflexivity. }
  destruct (backs_changed e (c_b c1)) eqn:BC.
  - destruct (b_add (c_b c1) x) as [a|] eqn:A.
    + apply A_add in A. rewrite Hx in A. inversion A; subst. rewrite Hn. reflexivity.
    + rewrite Old. apply A_back; auto.
  - rewrite Old. apply A_back; auto.
Qed.

Lemma core_tcpmap : forall p, port_used e (t_items (c_t c1)) p = true ->
  exists f, d_tcpmap d4 p = Some f /\ forall t, f t = restrict_port (t_items (c_t c1)) p t.
Proof.
  intros p Hp. destruct d4_fields as [_ [_ [_ [_ [_ [_ [_ Ht]]]]]]]. rewrite Ht. unfold d1. rewrite tcpmaps_w_own.
  destruct (t_chg (c_t c1)) eqn:C.
  - rewrite Hp. cbn. eexists; split; [reflexivity|]. reflexivity.
  - cbn. apply A_tcp; auto.
Qed.

Lemma core_tcpcrt : forall p, port_tls e (t_items (c_t c1)) p = true ->
  exists f, d_tcpcrt d4 p = Some f /\ forall t, f t = restrict_port (t_items (c_t c1)) p t.
Proof.
  intros p Hp. unfold d4, tcpcrt_w. cbn. destruct c2_fields as [_ [_ [Ct _]]]. rewrite Ct. rewrite Hp.
  eexists; split; [reflexivity|]. reflexivity.
Qed.

(* everything but the shards *)
Lemma core_rest : forall d, d_crt d = d_crt d4 -> d_hostmap d = d_hostmap d4 -> d_rootredir d = d_rootredir d4 ->
  d_rootssl d = d_rootssl d4 -> d_backmap d = d_backmap d4 -> d_tcpmap d = d_tcpmap d4 -> d_tcpcrt d = d_tcpcrt d4 ->
  main_holds d c1 -> disk_inv e (config_commit c2) d.
Proof.
  intros d E1 E2 E3 E4 E5 E6 E7 Hm.
  destruct c2_fields as [Cb [Ch [Ct Cg]]].
  assert (R : forall h, rssl (config_commit c2) h = rssl c1 h) by (intros h; unfold rssl; cbn; rewrite Cb, Ch; reflexivity).
  assert (AR : any_rssl e (rssl (config_commit c2)) = any_rssl e (rssl c1)) by (apply existsb_ext_in; intros; apply R).
  constructor; cbn [config_commit c_b c_h c_t c_glob c_globold c_fmaps backs_commit hosts_commit b_items b_def h_items t_items];
    rewrite ?Cb, ?Ch, ?Ct, ?Cg.
  - intros _. destruct Hm as [m [M1 [M2 [M3 [M4 [M5 [f [M6 [M7 M8]]]]]]]]]. exists m. repeat split; auto.
    exists f. repeat split; auto. intros h. rewrite M8. symmetry. apply R.
  - intros _. generalize core_front. unfold front_holds. rewrite E1, E2, E3, E4.
    intros [F1 [F2 F3]]. split; [exact F1|]. split; [exact F2|].
    rewrite AR. intros A. destruct (F3 A) as [f [Hf Hh]]. exists f. split; auto. intros h. rewrite R. auto.
  - intros f Hf. destruct c2_fmaps as [f' [Hf' [H1 H2]]]. rewrite Hf in Hf'. inversion Hf'; subst. split; auto.
    intros h. rewrite H2. symmetry. apply R.
  - intros x bc Hx Hn. rewrite E5. apply core_back; auto.
  - intros p Hp. rewrite E6. apply core_tcpmap; auto.
  - intros p Hp. rewrite E7. apply core_tcpcrt; auto.
Qed.

Lemma shard_holds_commit : forall d j, shard_holds e d c1 j -> shard_holds e d (config_commit c2) j.
Proof.
  intros d j H x. destruct c2_fields as [Cb _]. cbn [config_commit c_b backs_commit b_items]. rewrite Cb. apply H.
Qed.

Lemma core_upd : updated e c2 = true ->
  disk_inv e (config_commit c2) d4 /\ shards_inv e (config_commit c2) d4 /\ no_high_shards e d4.
Proof.
  intros U. unfold c2 in U. rewrite updated_front_c in U. destruct (A_upd U) as [Hm [Hs Hh]].
  destruct d4_fields as [Dm [Ds _]]. split; [|split].
  - apply core_rest; auto. unfold main_holds. rewrite Dm. exact Hm.
  - intros j Hj. apply shard_holds_commit. unfold shard_holds. rewrite Ds. apply Hs; auto.
  - unfold no_high_shards. rewrite Ds. exact Hh.
Qed.

Lemma core_wr : shard_fails e fs c2 None = false ->
  disk_inv e (config_commit c2) (config_w e fs cl c2 d4) /\
  shards_inv e (config_commit c2) (config_w e fs cl c2 d4) /\
  no_high_shards e (config_w e fs cl c2 d4).
Proof.
  intros SF. destruct d4_fields as [Dm [Ds _]]. destruct c2_fields as [Cb [Ch [Ct Cg]]].
  destruct (config_w_others e fs cl c2 d4) as [W1 [W2 [W3 [W4 [W5 [W6 W7]]]]]].
  split; [|split].
  - apply core_rest; auto.
    unfold main_holds, config_w. cbn. eexists. split; [reflexivity|]. cbn. rewrite Cb, Ct, Cg.
    repeat split; auto.
    + intros x. destruct (nsh e =? 0); reflexivity.
    + destruct c2_fmaps as [f [Hf Hh]]. exists f. destruct Hh. repeat split; auto.
  - intros j Hj. apply shard_holds_commit. unfold shard_holds. rewrite (config_w_shard e fs cl c2 d4 j SF). rewrite Cb.
    assert (Hj' := Hj). apply N.ltb_lt in Hj'. rewrite Hj'. cbn [andb]. destruct (b_chg (c_b c1) j) eqn:C.
    + intros x. reflexivity.
    + destruct cl eqn:Ecl.
      * rewrite Ds. apply A_shard; auto.
      * intros x. destruct (N.eqb_spec (sh e x) j) as [E|E]; auto. symmetry. apply (A_fresh eq_refl j); auto.
  - intros j Hj. rewrite (config_w_shard e fs cl c2 d4 j SF).
    assert (L : (j <? nsh e) = false) by (apply N.ltb_ge; auto). rewrite L. cbn [andb].
    destruct cl eqn:Ecl; auto. rewrite Ds. apply A_high; auto.
Qed.
End Core.

(* ================================================================ the two situations an update starts from *)

Lemma hosts_unchanged : forall e i0 h, dom_h e h -> MH i0 h -> hosts_changed e h = false -> forall x, h_items h x = i0 x.
Proof.
  intros e i0 h D M C x. apply (mh3 _ _ M).
  - destruct (h_add h x) eqn:A; auto. assert (In x (UH e)) by (apply D; right; left; congruence).
    apply (existsb_false _ _ _ C) in H. rewrite A in H. discriminate.
  - destruct (h_del h x) eqn:A; auto. assert (In x (UH e)) by (apply D; right; right; congruence).
    apply (existsb_false _ _ _ C) in H. rewrite A in H. rewrite orb_true_r in H. discriminate.
Qed.
Lemma backs_unchanged : forall e i0 b, dom_b e b -> MB e i0 b -> backs_changed e b = false -> forall x, b_items b x = i0 x.
Proof.
  intros e i0 b D M C x. apply (mb3 _ _ _ M).
  - destruct (b_add b x) eqn:A; auto. assert (In x (UB e)) by (apply D; right; left; congruence).
    apply (existsb_false _ _ _ C) in H. rewrite A in H. discriminate.
  - destruct (b_del b x) eqn:A; auto. assert (In x (UB e)) by (apply D; right; right; congruence).
    apply (existsb_false _ _ _ C) in H. rewrite A in H. rewrite orb_true_r in H. discriminate.
Qed.

Lemma rssl_ext : forall c c', (forall h, h_items (c_h c) h = h_items (c_h c') h) ->
  (forall h hc b, h_items (c_h c) h = Some hc -> hroot hc = Some b -> b_items (c_b c) b = b_items (c_b c') b) ->
  forall h, rssl c h = rssl c' h.
Proof.
  intros c c' Hh Hb h. unfold rssl. rewrite <- Hh. destruct (h_items (c_h c) h) as [hc|] eqn:E; auto.
  destruct (hroot hc) as [b|] eqn:R; auto. rewrite (Hb h hc b E R). reflexivity.
Qed.

Lemma port_used_ext : forall e (a b : fmap tcont) p, (forall t, a t = b t) -> port_used e a p = port_used e b p.
Proof. intros. unfold port_used. apply existsb_ext_in. intros. rewrite H. reflexivity. Qed.
Lemma port_tls_ext : forall e (a b : fmap tcont) p, (forall t, a t = b t) -> port_tls e a p = port_tls e b p.
Proof. intros. unfold port_tls. apply existsb_ext_in. intros. rewrite H. reflexivity. Qed.
Lemma any_host_ext : forall e (a b : fmap hcont), (forall h, a h = b h) -> any_host e a = any_host e b.
Proof. intros. unfold any_host. apply existsb_ext_in. intros. rewrite H. reflexivity. Qed.
Lemma any_rssl_ext : forall e (a b : N -> bool), (forall h, a h = b h) -> any_rssl e a = any_rssl e b.
Proof. intros. unfold any_rssl. apply existsb_ext_in. intros. apply H. Qed.

(* the update is taken for a no-op: nothing differs from the committed state *)
Lemma optN_eqb_eq : forall a b, optN_eqb a b = true -> a = b.
Proof. intros [a|] [b|]; cbn; intros H; try discriminate; auto. apply N.eqb_eq in H. congruence. Qed.

Lemma updated_same : forall e c0 c md, dom e c -> mid e c0 c md -> glob_ok c0 -> defp c0 -> updated e c = true ->
  md = Partial /\ c_globold c0 <> None /\ c_glob c = c_glob c0 /\
  (forall t, t_items (c_t c) t = t_items (c_t c0) t) /\
  (forall h, h_items (c_h c) h = h_items (c_h c0) h) /\
  (forall x, b_items (c_b c) x = b_items (c_b c0) x) /\
  b_def (c_b c) = b_def (c_b c0).
Proof.
  intros e c0 c md [Db [Dh Dt]] [Mb Mr] G Dp U. unfold updated in U.
  destruct (c_globold c) as [g|] eqn:Go; [|discriminate].
  apply andb_true_iff in U. destruct U as [U H].
  apply andb_true_iff in U. destruct U as [U Hd].
  apply andb_true_iff in U. destruct U as [U H0].
  apply andb_true_iff in U. destruct U as [U H1].
  apply N.eqb_eq in U. apply negb_true_iff in H1. apply negb_true_iff in H0. apply optN_eqb_eq in Hd.
  destruct md; cbn in Mr.
  - destruct Mr as [Mr _]. congruence.
  - destruct Mr as [M1 [M2 [M3 [M4 M5]]]]. split; auto. split; [congruence|]. split.
    + rewrite M1 in Go. apply G in Go. congruence.
    + split; [auto|]. split; [|split].
      * apply (hosts_unchanged e); auto.
      * intros x. destruct (b_add (c_b c) x) as [a|] eqn:A.
        -- assert (Ix : In x (UB e)) by (apply Db; right; left; congruence).
           rewrite forallb_forall in H. specialize (H x Ix). rewrite A in H.
           destruct (b_del (c_b c) x) as [d|] eqn:D; [|discriminate]. apply bcont_eqb_eq in H. subst d.
           rewrite (mb2 _ _ _ Mb x a A). symmetry. apply (mb1 _ _ _ Mb x a D).
        -- destruct (b_del (c_b c) x) as [d|] eqn:D.
           ++ assert (Ix : In x (UB e)) by (apply Db; right; right; congruence).
              rewrite forallb_forall in H. specialize (H x Ix). rewrite A, D in H. discriminate.
           ++ apply (mb3 _ _ _ Mb); auto.
      * unfold defp in Dp. congruence.
Qed.

(* a shard that is not flagged holds what it held *)
Lemma shard_unflagged : forall e i0 b j, dom_b e b -> MB e i0 b -> j < nsh e -> b_chg b j = false ->
  forall x, sh e x = j -> b_items b x = i0 x.
Proof.
  intros e i0 b j D M Hj C x Hx. apply (mb3 _ _ _ M).
  - destruct (b_add b x) eqn:A; auto. assert (Ix : In x (UB e)) by (apply D; right; left; congruence).
    assert (b_chg b (sh e x) = true) by (apply (mb5 _ _ _ M); [lia|auto|left; congruence]). congruence.
  - destruct (b_del b x) eqn:A; auto. assert (Ix : In x (UB e)) by (apply D; right; right; congruence).
    assert (b_chg b (sh e x) = true) by (apply (mb5 _ _ _ M); [lia|auto|right; congruence]). congruence.
Qed.

Lemma front_guard_false : forall e c, front_guard e c = false ->
  c_fmaps c <> None /\ hosts_changed e (c_h c) = false /\ rootdep_changed e c = false.
Proof.
  intros e c H. unfold front_guard in H. apply orb_false_iff in H. destruct H as [H H3].
  apply orb_false_iff in H. destruct H as [H1 H2]. apply negb_false_iff in H1. apply isSome_true in H1. auto.
Qed.

(* when the frontend maps are not rebuilt, what they were built from is what is there now *)
Lemma front_same : forall e c0 c md, dom e c -> mid e c0 c md -> ready c -> front_guard e c = false ->
  md = Partial /\ c_fmaps c = c_fmaps c0 /\ (forall h, h_items (c_h c) h = h_items (c_h c0) h) /\
  (forall h, rssl c h = rssl c0 h).
Proof.
  intros e c0 c md [Db [Dh Dt]] [Mb Mr] Ri G. apply front_guard_false in G. destruct G as [G1 [G2 G3]].
  destruct md; cbn in Mr.
  - destruct Mr as [_ [Mr _]]. congruence.
  - destruct Mr as [M1 [M2 [M3 [M4 M5]]]]. split; auto. split; auto.
    assert (Hh : forall h, h_items (c_h c) h = h_items (c_h c0) h) by (apply (hosts_unchanged e); auto).
    split; auto. apply rssl_ext; auto.
    intros h hc b Eh Er. unfold rootdep_changed in G3. apply andb_false_iff in G3. destruct G3 as [G3|G3].
    + apply (backs_unchanged e); auto.
    + assert (Ih : In h (UH e)) by (apply Dh; left; congruence).
      apply (existsb_false _ _ _ G3) in Ih. rewrite Eh, Er in Ih. apply isSome_false in Ih.
      apply (mb3 _ _ _ Mb); auto. destruct (b_del (c_b c) b) eqn:D; auto.
      exfalso. apply (Ri h hc b Eh Er). apply (mb4 _ _ _ Mb); auto. congruence.
Qed.

(* the keys of a backend's maps only depend on the hosts of its paths *)
Lemma bmap_keys_ext : forall hs hs' x bc,
  (forall hp, In hp (bpaths bc) -> hs (fst hp) = hs' (fst hp)) -> bmap_keys hs x bc = bmap_keys hs' x bc.
Proof.
  intros hs hs' x bc H. unfold bmap_keys. induction (bpaths bc) as [|hp l IH]; cbn [flat_map]; auto.
  rewrite (H hp (or_introl eq_refl)). rewrite IH; auto. intros q Hq. apply H. right. exact Hq.
Qed.

Record upd_pre (e : env) (cl : bool) (c1 : config) (d0 : disk) : Prop := {
  p_tcp : t_chg (c_t c1) = false -> forall p, port_used e (t_items (c_t c1)) p = true ->
    exists f, d_tcpmap d0 p = Some f /\ forall t, f t = restrict_port (t_items (c_t c1)) p t;
  p_front : front_guard e c1 = false -> (exists f, c_fmaps c1 = Some f /\ fmaps_hold c1 f) /\ front_holds e d0 c1;
  p_add : forall x a, b_add (c_b c1) x = Some a -> b_items (c_b c1) x = Some a;
  p_back : forall x bc, b_items (c_b c1) x = Some bc -> needs_map bc = true ->
    (backs_changed e (c_b c1) = false \/ b_add (c_b c1) x = None) -> d_backmap d0 x = Some (bmap_keys (h_items (c_h c1)) x bc);
  p_shard : cl = true -> forall j, j < nsh e -> b_chg (c_b c1) j = false -> shard_holds e d0 c1 j;
  p_fresh : cl = false -> forall j, j < nsh e -> b_chg (c_b c1) j = false ->
    forall x, sh e x = j -> b_items (c_b c1) x = None;
  p_high : cl = true -> no_high_shards e d0;
  p_upd : updated e c1 = true ->
    main_holds e d0 c1 /\ (forall j, j < nsh e -> shard_holds e d0 c1 j) /\ no_high_shards e d0
}.

(* the committed state was good: whatever the update skips is still right *)
Lemma upd_pre_good : forall e cl c0 c1 md d0,
  dom e c1 -> mid e c0 c1 md -> ready c1 -> tracked c0 c1 -> glob_ok c0 -> defp c0 ->
  disk_inv e c0 d0 ->
  (cl = true -> shards_inv e c0 d0 /\ no_high_shards e d0) -> (cl = false -> virgin c0) ->
  upd_pre e cl c1 d0.
Proof.
  intros e cl c0 c1 md d0 D M R Tr G Dp I Hcl Hvg.
  assert (D' := D). destruct D' as [Db [Dh Dt]]. assert (M' := M). destruct M' as [Mb Mr].
  constructor.
  - (* tcp maps *)
    intros C p Hp. destruct md; cbn in Mr.
    + destruct Mr as [_ [_ [_ [_ Mt]]]]. exfalso. unfold port_used in Hp. apply existsb_exists in Hp.
      destruct Hp as [t [_ Ht]]. rewrite (Mt C t) in Ht. rewrite andb_false_r in Ht. discriminate.
    + destruct Mr as [_ [_ [_ [Mt _]]]]. specialize (Mt C).
      rewrite (port_used_ext e _ _ p Mt) in Hp. destruct (di_tcpmap _ _ _ I p Hp) as [f [Hf Hg]].
      exists f. split; auto. intros t. rewrite Hg. unfold restrict_port. rewrite Mt. reflexivity.
  - (* frontend maps *)
    intros Gd. destruct (front_same e c0 c1 md D M R Gd) as [-> [Ef [Eh Er]]].
    destruct (front_guard_false _ _ Gd) as [Gf _]. rewrite Ef in Gf.
    split.
    + destruct (c_fmaps c0) as [f|] eqn:F0; [|congruence]. exists f. split; [congruence|].
      destruct (di_fmaps _ _ _ I f F0) as [H1 H2]. split; intros h.
      * rewrite H1. symmetry. apply Eh.
      * rewrite H2. symmetry. apply Er.
    + destruct (di_front _ _ _ I Gf) as [[f [F1 F2]] [F3 F4]]. unfold front_holds.
      rewrite (any_host_ext e _ _ Eh). rewrite (any_rssl_ext e _ _ Er).
      split; [|split].
      * exists f. split; auto. intros h. rewrite F2. symmetry. apply Eh.
      * intros A. destruct (F3 A) as [[g [G1 G2]] [g' [G3 G4]]]. split.
        -- exists g. split; auto. intros h. rewrite G2. symmetry. apply Eh.
        -- exists g'. split; auto. intros h. rewrite G4. symmetry. apply Eh.
      * intros A. destruct (F4 A) as [g [G1 G2]]. exists g. split; auto. intros h. rewrite G2. symmetry. apply Er.
  - apply (mb2 _ _ _ Mb).
  - (* backend maps *)
    intros x bc Hx Hn Hc.
    assert (A : b_add (c_b c1) x = None).
    { destruct Hc as [Hc|Hc]; auto. assert (Ix : In x (UB e)) by (apply Db; left; congruence).
      apply (existsb_false _ _ _ Hc) in Ix. apply orb_false_iff in Ix. destruct Ix as [Ix _]. apply isSome_false in Ix. auto. }
    assert (Dl : b_del (c_b c1) x = None).
    { destruct (b_del (c_b c1) x) eqn:Dl; auto. rewrite (mb4 _ _ _ Mb x A) in Hx; congruence. }
    rewrite (bmap_keys_ext _ (h_items (c_h c0)) x bc (Tr x bc Hx Hn A)).
    apply (di_back _ _ _ I); auto. rewrite <- (mb3 _ _ _ Mb x A Dl). auto.
  - (* shards *)
    intros Ecl j Hj C x. destruct (Hcl Ecl) as [Hs _]. rewrite (Hs j Hj x). destruct (N.eqb_spec (sh e x) j); auto.
    symmetry. apply (shard_unflagged e _ _ j); auto.
  - (* a new instance: the shards it does not flag have no backend *)
    intros Ecl j Hj C x Hx. destruct (Hvg Ecl) as [_ Hv]. rewrite <- (Hv x). apply (shard_unflagged e _ _ j); auto.
  - intros Ecl. apply (Hcl Ecl).
  - (* no-op *)
    intros U. destruct (updated_same e c0 c1 md D M G Dp U) as [-> [Go [Eg [Et [Eh [Eb Ed]]]]]].
    assert (Er : forall h, rssl c1 h = rssl c0 h) by (apply rssl_ext; auto).
    split.
    + destruct (di_main _ _ _ I Go) as [m [M1 [M2 [M3 [M4 [M5 [f [M6 [M7 M8]]]]]]]]].
      exists m. split; auto. split; [congruence|]. split.
      { rewrite M3. symmetry. exact Ed. }
      split; [intros x; rewrite M4, Eb; reflexivity|]. split; [intros t; rewrite M5, Et; reflexivity|].
      exists f. split; auto. split; intros h; [rewrite M7, Eh|rewrite M8, Er]; reflexivity.
    + assert (Ecl : cl = true).
      { destruct cl; auto. destruct (Hvg eq_refl) as [Hv _]. congruence. }
      destruct (Hcl Ecl) as [Hs Hh]. split; auto.
      intros j Hj x. rewrite (Hs j Hj x). rewrite Eb. reflexivity.
Qed.

(* the last update failed: changeAll makes the update skip nothing *)
Lemma upd_pre_failed : forall e i0 cl c d0, dom e c -> MB e i0 (c_b c) -> (cl = true -> no_high_shards e d0) ->
  upd_pre e cl (config_change_all e c) d0.
Proof.
  intros e i0 cl c d0 [Db [Dh Dt]] Mb Hi. constructor; cbn.
  - discriminate.
  - unfold front_guard. cbn. discriminate.
  - intros x a. destruct (b_items (c_b c) x) eqn:E; auto. intros A. rewrite (mb2 _ _ _ Mb x a A) in E. discriminate.
  - intros x bc Hx Hn [Hc|Hc].
    + exfalso. assert (Ix : In x (UB e)) by (apply Db; left; congruence).
      apply (existsb_false _ _ _ Hc) in Ix. cbn in Ix. rewrite Hx in Ix. discriminate.
    + rewrite Hx in Hc. discriminate.
  - intros _ j Hj C. apply N.ltb_lt in Hj. rewrite Hj in C. discriminate.
  - intros _ j Hj C. apply N.ltb_lt in Hj. rewrite Hj in C. discriminate.
  - exact Hi.
  - unfold updated. cbn. discriminate.
Qed.

(* ================================================================ one reconciliation *)

Lemma mid_hitems_shrink : forall e c0 c md, mid e c0 c md ->
  forall x, h_items (c_h (config_shrink e c)) x = h_items (c_h c) x.
Proof.
  intros e c0 c md [_ Mr] x. destruct md; cbn in Mr.
  - destruct Mr as [_ [_ [H3 _]]]. cbn. unfold hmatch. rewrite H3. reflexivity.
  - destruct Mr as [_ [_ [M3 _]]]. apply (shrink_hitems _ _ x M3).
Qed.
Lemma ready_shrink : forall e c0 c md, mid e c0 c md -> ready c -> ready (config_shrink e c).
Proof.
  intros e c0 c md M R2. assert (M' := M). destruct M' as [Mb _].
  intros h hc b Hh Hr. rewrite (mid_hitems_shrink e c0 c md M) in Hh.
  specialize (R2 h hc b Hh Hr). apply isSome_true. cbn [config_shrink with_h with_b c_b].
  rewrite (shrink_items_some e _ _ b Mb). apply isSome_true. exact R2.
Qed.

(* Shrink only takes out of the changed sets backends that have no maps *)
Lemma tracked_shrink : forall e c0 c md, mid e c0 c md -> tracked c0 c -> tracked c0 (config_shrink e c).
Proof.
  intros e c0 c md M T x bc Hx Hn A hp Hp.
  rewrite (mid_hitems_shrink e c0 c md M). cbn [config_shrink with_h with_b c_b backs_shrink b_items b_add] in Hx, A.
  destruct (bmatch (c_b c) x) eqn:E.
  - apply bmatch_some in E. destruct E as [a [d [Ha [Hd [Had Hacl]]]]]. rewrite Hd in Hx. inversion Hx; subst.
    unfold needs_map in Hn. rewrite Hacl in Hn. discriminate.
  - apply (T x bc Hx Hn A hp Hp).
Qed.
Lemma tracked_change_all : forall e c0 c, tracked c0 (config_change_all e c).
Proof.
  intros e c0 c x bc Hx Hn A. cbn in Hx, A. rewrite Hx in A. discriminate.
Qed.

(* the files also are those of a configuration that has the same items *)
Lemma disk_inv_transfer : forall e c c' d,
  (forall x, b_items (c_b c') x = b_items (c_b c) x) -> (forall h, h_items (c_h c') h = h_items (c_h c) h) ->
  (forall t, t_items (c_t c') t = t_items (c_t c) t) -> c_glob c' = c_glob c -> b_def (c_b c') = b_def (c_b c) ->
  c_globold c <> None -> c_fmaps c <> None ->
  (forall f, c_fmaps c' = Some f -> fmaps_hold c' f) ->
  disk_inv e c d -> disk_inv e c' d.
Proof.
  intros e c c' d Eb Eh Et Eg Ed Go Fo Fm I.
  assert (Er : forall h, rssl c' h = rssl c h) by (apply rssl_ext; auto).
  constructor.
  - intros _. destruct (di_main _ _ _ I Go) as [m [M1 [M2 [M3 [M4 [M5 [f [M6 [M7 M8]]]]]]]]].
    exists m. split; auto. split; [congruence|]. split; [congruence|].
    split; [intros x; rewrite M4, Eb; reflexivity|]. split; [intros t; rewrite M5, Et; reflexivity|].
    exists f. split; auto. split; intros h; [rewrite M7, Eh|rewrite M8, Er]; reflexivity.
  - intros _. destruct (di_front _ _ _ I Fo) as [[f [F1 F2]] [F3 F4]].
    rewrite (any_host_ext e _ _ Eh). rewrite (any_rssl_ext e _ _ Er). split; [|split].
    + exists f. split; auto. intros h. rewrite F2, Eh. reflexivity.
    + intros A. destruct (F3 A) as [[g [G1 G2]] [g' [G3 G4]]]. split.
      * exists g. split; auto. intros h. rewrite G2, Eh. reflexivity.
      * exists g'. split; auto. intros h. rewrite G4, Eh. reflexivity.
    + intros A. destruct (F4 A) as [g [G1 G2]]. exists g. split; auto. intros h. rewrite G2, Er. reflexivity.
  - exact Fm.
  - intros x bc Hx Hn. rewrite (bmap_keys_ext _ (h_items (c_h c)) x bc (fun hp _ => Eh (fst hp))).
    apply (di_back _ _ _ I); auto. rewrite <- Eb. auto.
  - intros p Hp. rewrite (port_used_ext e _ _ p Et) in Hp. destruct (di_tcpmap _ _ _ I p Hp) as [f [Hf Hg]].
    exists f. split; auto. intros t. rewrite Hg. unfold restrict_port. rewrite Et. reflexivity.
  - intros p Hp. rewrite (port_tls_ext e _ _ p Et) in Hp. destruct (di_tcpcrt _ _ _ I p Hp) as [f [Hf Hg]].
    exists f. split; auto. intros t. rewrite Hg. unfold restrict_port. rewrite Et. reflexivity.
Qed.

Lemma shards_inv_transfer : forall e c c' d, (forall x, b_items (c_b c') x = b_items (c_b c) x) ->
  shards_inv e c d -> shards_inv e c' d.
Proof. intros e c c' d Eb H j Hj x. rewrite (H j Hj x). rewrite Eb. reflexivity. Qed.

Lemma front_c_fmaps : forall e c, c_fmaps (front_c e c) <> None.
Proof.
  intros e c. unfold front_c. destruct (front_guard e c) eqn:G; cbn; [discriminate|].
  apply front_guard_false in G. apply G.
Qed.
Lemma dom_front_c : forall e c, dom e c -> dom e (front_c e c).
Proof.
  intros e c D. unfold dom. destruct (front_c_fields e c) as [Hb [Hh [Ht _]]]. rewrite Hb, Hh, Ht. exact D.
Qed.
Lemma clean_commit : forall c, clean (config_commit c).
Proof. intros c. unfold clean. cbn. repeat split; auto. Qed.

(* A reconciliation whose update reports success leaves the files exactly those of the
   current state - from a state whose files were right, and from a state marked as failed. *)
Lemma update_good : forall e fs s0 l s',
  shard_range e -> reach e s0 -> wf_batch e (i_cfg s0) l -> armed fs FReloadSilent = false ->
  update_f e fs (sync e s0 l) = (s', false) -> good e s'.
Proof.
  intros e fs s0 l s' SR [D0 [Cl0 [Dp0 [G0 [NH0 St]]]]] [Shape [Oin [Rdy Trk]]] NS U.
  set (cs := apply_ops e (i_cfg s0) l) in *.
  assert (Dcs : dom e cs) by (apply dom_apply_ops; auto).
  destruct (mid_batch e (i_cfg s0) l SR D0 Cl0 Shape) as [md Mcs]. fold cs in Mcs.
  assert (Dsh : dom e (config_shrink e cs)) by (apply dom_shrink; auto).
  assert (Msh : mid e (i_cfg s0) (config_shrink e cs) md) by (apply mid_shrink; auto).
  assert (Rsh : ready (config_shrink e cs)) by (apply (ready_shrink e (i_cfg s0) cs md); auto).
  assert (Tsh : tracked (i_cfg s0) (config_shrink e cs)) by (apply (tracked_shrink e (i_cfg s0) cs md); auto).
  apply update_f_ok in U. cbn [sync i_cfg i_disk i_failed i_clean i_running i_pending] in U. fold cs in U.
  (* c1: the configuration the phases see *)
  set (c1 := if i_failed s0 then config_change_all e (config_shrink e cs) else config_shrink e cs) in *.
  assert (Dc1 : dom e c1) by (unfold c1; destruct (i_failed s0); auto using dom_change_all).
  assert (Rc1 : ready c1) by (unfold c1; destruct (i_failed s0); auto).
  assert (P : upd_pre e (i_clean s0) c1 (i_disk s0)).
  { unfold c1. destruct St as [F|[F [I0 [_ [_ [Hs Hv]]]]]]; rewrite F.
    - destruct Msh as [Mb _]. apply (upd_pre_failed e _ _ _ _ Dsh Mb NH0).
    - apply (upd_pre_good e _ (i_cfg s0) _ md); auto. }
  destruct P as [P1 P2 P3 P4 P5 P5' P6 P7].
  assert (Dc2 : dom e (config_commit (front_c e c1))) by (apply dom_commit; apply dom_front_c; auto).
  assert (Dp2 : defp (config_commit (front_c e c1))) by reflexivity.
  assert (G2 : glob_ok (config_commit (front_c e c1))).
  { unfold glob_ok. cbn [config_commit c_globold c_glob]. intros g Hg. congruence. }
  destruct U as [[Up ->]|[Up [SF ->]]].
  - (* taken for a no-op *)
    destruct (core_upd e c1 (i_disk s0) P1 P2 P3 P4 P7 Up) as [I [Sh NH]].
    rewrite updated_front_c in Up.
    destruct St as [F|[F [I0 [Rn0 [Gf0 [Hs Hv]]]]]].
    { exfalso. unfold c1 in Up. rewrite F in Up. unfold updated in Up. cbn in Up. discriminate. }
    unfold c1 in Up. rewrite F in Up.
    destruct (updated_same e (i_cfg s0) _ md Dsh Msh G0 Dp0 Up) as [_ [Go [Eg [Et [Eh [Eb Edf]]]]]].
    assert (Ecl : i_clean s0 = true).
    { destruct (i_clean s0); auto. destruct (Hv eq_refl) as [Hv' _]. congruence. }
    unfold good, mk_inst. cbn [i_cfg i_disk i_failed i_clean i_running i_pending].
    repeat (split; [solve [auto using clean_commit]|]).
    split; [|split; [cbn; discriminate|apply front_c_fmaps]].
    (* the running instance *)
    intros Inl _.
    destruct (Rn0 Inl Go) as [r [Hr [NHr [Shr Ir]]]]. exists r. split; auto. split; auto.
    assert (Ec1 : c1 = config_shrink e cs) by (unfold c1; rewrite F; reflexivity).
    destruct (front_c_fields e c1) as [Hb [Hh [Ht [Hg _]]]].
    split.
    + apply (shards_inv_transfer e (i_cfg s0) (config_commit (front_c e c1)) r); [|exact Shr].
      intros x. cbn [config_commit c_b backs_commit b_items]. rewrite Hb, Ec1. apply Eb.
    + apply (disk_inv_transfer e (i_cfg s0) (config_commit (front_c e c1)) r).
      * intros x. cbn [config_commit c_b backs_commit b_items]. rewrite Hb, Ec1. apply Eb.
      * intros h. cbn [config_commit c_h hosts_commit h_items]. rewrite Hh, Ec1. apply Eh.
      * intros t. cbn [config_commit c_t t_items]. rewrite Ht, Ec1. apply Et.
      * cbn [config_commit c_glob]. rewrite Hg, Ec1. exact Eg.
      * cbn [config_commit c_b backs_commit b_def]. rewrite Hb, Ec1. exact Edf.
      * exact Go.
      * apply Gf0. exact Go.
      * apply (di_fmaps _ _ _ I).
      * exact Ir.
  - (* the configuration files were written *)
    destruct (core_wr e fs (i_clean s0) c1 (i_disk s0) P1 P2 P3 P4 P5 P5' P6 SF) as [I [Sh NH]].
    unfold good, mk_inst. cbn [i_cfg i_disk i_failed i_clean i_running i_pending].
    repeat (split; [solve [auto using clean_commit]|]).
    split; [|split; [cbn; discriminate|apply front_c_fmaps]].
    intros Inl _.
    assert (Inl' : inline e = true) by (destruct Inl as [Inl|Inl]; auto; destruct (inline e); [reflexivity|discriminate]).
    rewrite Inl', NS. eexists. split; [reflexivity|]. split; auto.
Qed.

(* ================================================================ whatever happens: the shape of the result *)

Lemma ph_tcpmaps_shard : forall e fs c d, d_shard (fst (ph_tcpmaps e fs c d)) = d_shard d.
Proof. intros. unfold ph_tcpmaps. split_ifs; reflexivity. Qed.
Lemma ph_backmaps_shard : forall e fs c d, d_shard (fst (ph_backmaps e fs c d)) = d_shard d.
Proof. intros. unfold ph_backmaps. split_ifs; reflexivity. Qed.
Lemma ph_tcpcrt_shard : forall e fs c d, d_shard (fst (ph_tcpcrt e fs c d)) = d_shard d.
Proof. intros. unfold ph_tcpcrt. split_ifs; reflexivity. Qed.
Lemma ph_front_inv : forall e fs c d,
  c_b (fst (fst (ph_front e fs c d))) = c_b c /\ c_h (fst (fst (ph_front e fs c d))) = c_h c /\
  c_t (fst (fst (ph_front e fs c d))) = c_t c /\ c_glob (fst (fst (ph_front e fs c d))) = c_glob c /\
  d_shard (snd (fst (ph_front e fs c d))) = d_shard d.
Proof. intros. unfold ph_front. split_ifs; cbn; repeat split. Qed.
Lemma ph_config_high : forall e fs cl c d, (cl = true -> no_high_shards e d) ->
  (cl = true \/ snd (ph_config e fs cl c d) = false) -> no_high_shards e (fst (ph_config e fs cl c d)).
Proof.
  intros e fs cl c d H Hc. unfold ph_config in *. destruct (armed fs FMain); cbn [fst snd] in *.
  - destruct Hc as [Hc|Hc]; [auto|discriminate].
  - intros j Hj. cbn [with_shard with_main d_shard].
    assert (L : (j <? nsh e) = false) by (apply N.ltb_ge; auto). rewrite L. cbn [andb].
    destruct cl; cbn [orb].
    + apply H; auto.
    + destruct Hc as [Hc|Hc]; [discriminate|]. rewrite Hc. reflexivity.
Qed.

Definition pre_cfg (e : env) (s : inst) : config :=
  if i_failed s then config_change_all e (config_shrink e (i_cfg s)) else config_shrink e (i_cfg s).

Lemma update_f_shape : forall e fs s,
  exists c d cl r p,
    update_f e fs s = (mk_inst (config_commit c) d (snd (update_f e fs s)) cl r p, snd (update_f e fs s)) /\
    c_b c = c_b (pre_cfg e s) /\ c_h c = c_h (pre_cfg e s) /\ c_t c = c_t (pre_cfg e s) /\
    c_glob c = c_glob (pre_cfg e s) /\
    ((i_clean s = true -> no_high_shards e (i_disk s)) -> cl = true -> no_high_shards e d).
Proof.
  intros e fs s. unfold update_f. fold (pre_cfg e s).
  pose proof (ph_tcpmaps_shard e fs (pre_cfg e s) (i_disk s)) as S1.
  destruct (ph_tcpmaps e fs (pre_cfg e s) (i_disk s)) as [d1 e1]. cbn [fst] in S1.
  destruct e1.
  { unfold finish. cbn [snd]. do 5 eexists. split; [reflexivity|]. repeat split; auto.
    intros H C. unfold no_high_shards. rewrite S1. apply H; auto. }
  pose proof (ph_front_inv e fs (pre_cfg e s) d1) as S2.
  destruct (ph_front e fs (pre_cfg e s) d1) as [[c2 d2] e2]. cbn [fst snd] in S2. destruct S2 as [Hb [Hh [Ht [Hg S2]]]].
  destruct e2.
  { unfold finish. cbn [snd]. do 5 eexists. split; [reflexivity|]. repeat split; auto.
    intros H C. unfold no_high_shards. rewrite S2, S1. apply H; auto. }
  pose proof (ph_backmaps_shard e fs c2 d2) as S3.
  destruct (ph_backmaps e fs c2 d2) as [d3 e3]. cbn [fst] in S3.
  destruct e3.
  { unfold finish. cbn [snd]. do 5 eexists. split; [reflexivity|]. repeat split; auto.
    intros H C. unfold no_high_shards. rewrite S3, S2, S1. apply H; auto. }
  pose proof (ph_tcpcrt_shard e fs c2 d3) as S4.
  destruct (ph_tcpcrt e fs c2 d3) as [d4 e4]. cbn [fst] in S4.
  destruct e4.
  { unfold finish. cbn [snd]. do 5 eexists. split; [reflexivity|]. repeat split; auto.
    intros H C. unfold no_high_shards. rewrite S4, S3, S2, S1. apply H; auto. }
  assert (N4 : (i_clean s = true -> no_high_shards e (i_disk s)) -> i_clean s = true -> no_high_shards e d4)
    by (intros H C; unfold no_high_shards; rewrite S4, S3, S2, S1; apply H; auto).
  destruct (updated e c2).
  { unfold finish. cbn [snd]. do 5 eexists. split; [reflexivity|]. repeat split; auto. }
  pose proof (ph_config_high e fs (i_clean s) c2 d4) as S5.
  destruct (ph_config e fs (i_clean s) c2 d4) as [d5 e5]. cbn [fst snd] in S5.
  destruct e5.
  { unfold finish. cbn [snd]. do 5 eexists. split; [reflexivity|]. repeat split; auto. }
  assert (N5 : (i_clean s = true -> no_high_shards e (i_disk s)) -> no_high_shards e d5) by (intros H; apply S5; auto).
  destruct (inline e).
  - destruct (armed fs FReloadRequest || armed fs FReloadResult || armed fs FReloadReset); unfold finish; cbn [snd];
      do 5 eexists; (split; [reflexivity|]); repeat split; auto.
  - unfold finish. cbn [snd]. do 5 eexists. split; [reflexivity|]. repeat split; auto.
Qed.

(* no armed fault, no error *)
Lemma update_nofault_ok : forall e s, snd (update_f e [] s) = false.
Proof.
  intros e s. unfold update_f.
  destruct (ph_tcpmaps e [] _ (i_disk s)) as [d1 e1] eqn:P1.
  assert (e1 = false) by (unfold ph_tcpmaps in P1; cbn [armed existsb andb] in P1; destruct (t_chg _); inversion P1; auto). subst e1.
  destruct (ph_front e [] _ d1) as [[c2 d2] e2] eqn:P2.
  assert (e2 = false).
  { unfold ph_front in P2. cbn [armed existsb andb] in P2. rewrite !andb_false_r in P2.
    destruct (negb _ || _ || _); inversion P2; auto. } subst e2.
  destruct (ph_backmaps e [] c2 d2) as [d3 e3] eqn:P3.
  assert (e3 = false) by (unfold ph_backmaps in P3; cbn [armed existsb andb] in P3; destruct (backs_changed _ _); inversion P3; auto). subst e3.
  destruct (ph_tcpcrt e [] c2 d3) as [d4 e4] eqn:P4.
  assert (e4 = false) by (unfold ph_tcpcrt in P4; cbn [armed existsb andb] in P4; inversion P4; auto). subst e4.
  destruct (updated e c2); [reflexivity|].
  destruct (ph_config e [] (i_clean s) c2 d4) as [d5 e5] eqn:P5.
  assert (e5 = false) by (unfold ph_config in P5; cbn [armed existsb shard_fails] in P5; inversion P5; auto). subst e5.
  destruct (inline e); reflexivity.
Qed.

(* every reconciliation keeps the history within [reach] *)
Lemma step_reach : forall e fs s0 l,
  shard_range e -> reach e s0 -> wf_batch e (i_cfg s0) l -> armed fs FReloadSilent = false ->
  reach e (fst (step_f e fs s0 l)).
Proof.
  intros e fs s0 l SR R W NS. unfold step_f.
  destruct (snd (update_f e fs (sync e s0 l))) eqn:Err.
  - (* failed *)
    destruct (update_f_shape e fs (sync e s0 l)) as [c [d [cl [r [p [U [Hb [Hh [Ht [Hg Hn]]]]]]]]]].
    rewrite U. rewrite Err. cbn [fst].
    destruct R as [D0 [Cl0 [Dp0 [G0 [NH0 St]]]]]. destruct W as [Shape [Oin [Rdy Trk]]].
    set (cs := apply_ops e (i_cfg s0) l) in *.
    assert (Dcs : dom e cs) by (apply dom_apply_ops; auto).
    destruct (mid_batch e (i_cfg s0) l SR D0 Cl0 Shape) as [md Mcs]. fold cs in Mcs.
    assert (Dsh : dom e (config_shrink e cs)) by (apply dom_shrink; auto).
    assert (Rsh : ready (config_shrink e cs)) by (apply (ready_shrink e (i_cfg s0) cs md); auto).
    assert (Dpre : dom e (pre_cfg e (sync e s0 l))).
    { unfold pre_cfg. cbn [sync i_failed i_cfg]. fold cs. destruct (i_failed s0); auto using dom_change_all. }
    assert (Rpre : ready (pre_cfg e (sync e s0 l))).
    { unfold pre_cfg. cbn [sync i_failed i_cfg]. fold cs. destruct (i_failed s0); auto. }
    unfold reach, mk_inst. cbn [i_cfg i_disk i_failed i_clean].
    split; [|split; [|split; [|split; [|split]]]].
    + apply dom_commit. unfold dom. rewrite Hb, Hh, Ht. exact Dpre.
    + apply clean_commit.
    + reflexivity.
    + unfold glob_ok. cbn [config_commit c_globold c_glob]. intros g Hg'. congruence.
    + apply Hn. exact NH0.
    + left. reflexivity.
  - (* succeeded *)
    apply good_reach. apply (update_good e fs s0 l); auto.
    destruct (update_f e fs (sync e s0 l)) as [s' err]. cbn in Err. subst err. reflexivity.
Qed.

(* ================================================================ from the invariant to the specification *)

Lemma inv_disk_ok : forall e c d, shard_range e -> dom e c -> no_high_shards e d -> shards_inv e c d -> disk_inv e c d ->
  c_globold c <> None -> c_fmaps c <> None -> disk_ok e c d.
Proof.
  intros e c d SR [Db [Dh Dt]] NH Sh I Go Fo.
  destruct (di_main _ _ _ I Go) as [m [M1 [M2 [M3 [M4 [M5 [f [M6 [M7 M8]]]]]]]]].
  destruct (di_front _ _ _ I Fo) as [[fc [F1 F2]] [F3 F4]].
  assert (AH : any_host e (fs_hosts f) = any_host e (h_items (c_h c))) by (apply any_host_ext; auto).
  assert (AR : any_rssl e (fs_rssl f) = any_rssl e (rssl c)) by (apply any_rssl_ext; auto).
  assert (Hnone : any_host e (h_items (c_h c)) = false -> forall h, h_items (c_h c) h = None).
  { intros A h. destruct (h_items (c_h c) h) eqn:E; auto. assert (Ih : In h (UH e)) by (apply Dh; left; congruence).
    apply (existsb_false _ _ _ A) in Ih. rewrite E in Ih. discriminate. }
  constructor.
  - (* backends *)
    intros j x. unfold loaded_in, file_of. rewrite M1.
    destruct (N.eqb_spec j 0) as [->|Nj].
    + rewrite M4. destruct (N.eqb_spec (nsh e) 0) as [Z|Z].
      * rewrite N.eqb_refl. reflexivity.
      * destruct (N.eqb_spec 0 (sh e x + 1)) as [E|E]; auto. exfalso; lia.
    + destruct (N.eqb_spec (nsh e) 0) as [Z|Z].
      * rewrite (NH (j - 1)) by lia. destruct (N.eqb_spec j 0); auto. congruence.
      * destruct (N.ltb_spec (j - 1) (nsh e)) as [L|L].
        -- rewrite (Sh (j - 1) L x).
           destruct (N.eqb_spec (sh e x) (j - 1)) as [E|E]; destruct (N.eqb_spec j (sh e x + 1)) as [E'|E']; auto; exfalso; lia.
        -- rewrite (NH (j - 1) L). destruct (N.eqb_spec j (sh e x + 1)) as [E'|E']; auto.
           destruct (b_items (c_b c) x) eqn:Ex; auto. exfalso.
           assert (Ix : In x (UB e)) by (apply Db; left; congruence). specialize (SR x Ix). lia.
  - exists m. repeat split; auto.
  - intros h. unfold loaded_crt. rewrite F1. apply F2.
  - intros h. unfold loaded_hostmap, ref_hostmap, main_fs. rewrite M1, M6, AH.
    destruct (any_host e (h_items (c_h c))) eqn:A.
    + destruct (F3 eq_refl) as [[g [G1 G2]] _]. rewrite G1. apply G2.
    + symmetry. apply Hnone; auto.
  - intros h. unfold loaded_rootredir, ref_hostmap, main_fs. rewrite M1, M6, AH.
    destruct (any_host e (h_items (c_h c))) eqn:A.
    + destruct (F3 eq_refl) as [_ [g [G1 G2]]]. rewrite G1. apply G2.
    + symmetry. apply Hnone; auto.
  - intros h. unfold loaded_rootssl, ref_rootssl, main_fs. rewrite M1, M6, AR.
    destruct (any_rssl e (rssl c)) eqn:A.
    + destruct (F4 eq_refl) as [g [G1 G2]]. rewrite G1. apply G2.
    + destruct (rssl c h) eqn:E; auto. exfalso.
      assert (Ih : In h (UH e)).
      { apply Dh. left. unfold rssl in E. destruct (h_items (c_h c) h); congruence. }
      apply (existsb_false _ _ _ A) in Ih. congruence.
  - apply (di_back _ _ _ I).
  - intros t. unfold loaded_tcpmap, main_tcp. rewrite M1. rewrite (port_used_ext e _ _ (tport t) M5).
    destruct (port_used e (t_items (c_t c)) (tport t)) eqn:A.
    + destruct (di_tcpmap _ _ _ I _ A) as [g [G1 G2]]. rewrite G1, G2. unfold restrict_port. rewrite N.eqb_refl. reflexivity.
    + destruct (t_items (c_t c) t) eqn:E; auto. exfalso.
      assert (It : In t (UT e)) by (apply Dt; congruence).
      apply (existsb_false _ _ _ A) in It. rewrite N.eqb_refl, E in It. discriminate.
  - intros t. unfold loaded_tcpcrt, main_tcp. rewrite M1. rewrite (port_tls_ext e _ _ (tport t) M5).
    destruct (port_tls e (t_items (c_t c)) (tport t)) eqn:A; auto.
    destruct (di_tcpcrt _ _ _ I _ A) as [g [G1 G2]]. rewrite G1, G2. unfold restrict_port. rewrite N.eqb_refl. reflexivity.
Qed.

Lemma good_disk_ok : forall e s, shard_range e -> good e s -> disk_ok e (i_cfg s) (i_disk s).
Proof.
  intros e s SR [D [_ [_ [_ [_ [_ [NH [Sh [I [_ [Go Fo]]]]]]]]]]]. apply inv_disk_ok; auto.
Qed.
(* what an inline reload loaded *)
Lemma good_running_ok : forall e s, shard_range e -> good e s -> inline e = true ->
  exists r, i_running s = Some r /\ disk_ok e (i_cfg s) r.
Proof.
  intros e s SR [D [_ [_ [_ [_ [_ [_ [_ [_ [Rn [Go Fo]]]]]]]]]]] Inl.
  destruct (Rn (or_introl Inl) Go) as [r [Hr [NHr [Shr Ir]]]]. exists r. split; auto. apply inv_disk_ok; auto.
Qed.

(* ================================================================ histories *)

Fixpoint wf_hist (e : env) (s : inst) (h : list (list op * list fpoint)) : Prop :=
  match h with
  | [] => True
  | st :: h' => wf_batch e (i_cfg s) (fst st) /\ armed (snd st) FReloadSilent = false /\
                wf_hist e (fst (step_f e (snd st) s (fst st))) h'
  end.

Lemma port_used_empty : forall e p, port_used e fempty p = false.
Proof. intros. unfold port_used. induction (UT e); cbn; auto. rewrite andb_false_r. auto. Qed.
Lemma port_tls_empty : forall e p, port_tls e fempty p = false.
Proof. intros. unfold port_tls. induction (UT e); cbn; auto. rewrite andb_false_r. auto. Qed.

Lemma disk_inv_virgin : forall e d, disk_inv e config_empty d.
Proof.
  intros e d. constructor; cbn.
  - intros H. congruence.
  - intros H. congruence.
  - intros f H. discriminate.
  - intros x bc H. discriminate.
  - intros p H. rewrite port_used_empty in H. discriminate.
  - intros p H. rewrite port_tls_empty in H. discriminate.
Qed.
Lemma dom_empty : forall e, dom e config_empty.
Proof.
  intros e. unfold dom, dom_b, dom_h, dom_t. cbn.
  repeat split; intros x H; repeat (destruct H as [H|H]); exfalso; apply H; reflexivity.
Qed.
(* a new instance, whatever the directory holds *)
Lemma reach_new : forall e d r, reach e (mk_inst config_empty d false false r false).
Proof.
  intros e d r. unfold reach, mk_inst. cbn [i_cfg i_disk i_failed i_clean].
  split; [apply dom_empty|]. split; [unfold clean; cbn; repeat split; auto|].
  split; [reflexivity|]. split; [intros g H; discriminate|]. split; [discriminate|].
  right. split; [reflexivity|]. split; [apply disk_inv_virgin|]. split; [|split; [|split]].
  - intros _ H. cbn in H. congruence.
  - intros H. cbn in H. congruence.
  - discriminate.
  - intros _. split; reflexivity.
Qed.
Lemma reach_empty : forall e, reach e inst_empty.
Proof. intros e. apply (reach_new e disk_empty None). Qed.

Lemma reach_hist : forall e, shard_range e -> forall h s, reach e s -> wf_hist e s h -> reach e (run_f e s h).
Proof.
  intros e SR. induction h as [|[l fs] h IH]; cbn; intros s R W; auto.
  destruct W as [W1 [NS W2]]. apply IH; auto. apply step_reach; auto.
Qed.

(* C12: whatever signalled faults hit the earlier updates of a history ([wf_hist] leaves out
   FReloadSilent only: a master that drops the reload without any sign of it), a
   reconciliation whose update reports success leaves files - and, when the update reloads
   itself, the running haproxy - that are exactly those of the current state. *)
Theorem success_is_convergence : forall e, shard_range e ->
  forall h, wf_hist e inst_empty h ->
  forall l fs s', wf_batch e (i_cfg (run_f e inst_empty h)) l -> armed fs FReloadSilent = false ->
    step_f e fs (run_f e inst_empty h) l = (s', false) ->
    i_failed s' = false /\ disk_ok e (i_cfg s') (i_disk s') /\
    (inline e = true -> exists r, i_running s' = Some r /\ disk_ok e (i_cfg s') r).
Proof.
  intros e SR h W l fs s' Wl NS U.
  assert (R : reach e (run_f e inst_empty h)) by (apply reach_hist; auto using reach_empty).
  assert (G : good e s') by (apply (update_good e fs (run_f e inst_empty h) l); auto).
  split; [apply G|]. split.
  - apply (good_disk_ok e); auto.
  - apply (good_running_ok e); auto.
Qed.

(* a failed update is reported and remembered *)
Theorem failure_is_remembered : forall e fs s l s', step_f e fs s l = (s', true) -> i_failed s' = true.
Proof.
  intros e fs s l s' U. unfold step_f in U.
  destruct (update_f_shape e fs (sync e s l)) as [c [d [cl [r [p [Us _]]]]]]. rewrite U in Us. cbn [snd] in Us.
  inversion Us. reflexivity.
Qed.

(* ---- fault-free histories (C05) *)
Definition nofault (h : list (list op)) : list (list op * list fpoint) := map (fun l => (l, [])) h.
Lemma run_nofault : forall e h s, run e s h = run_f e s (nofault h).
Proof. intros e. unfold run, run_f, nofault. induction h as [|l h IH]; cbn; intros s; auto. Qed.

Theorem disk_invariant : forall e, shard_range e ->
  forall h l, wf_hist e inst_empty (nofault (h ++ [l])) ->
    snd (step e (run e inst_empty h) l) = false /\
    disk_ok e (i_cfg (run e inst_empty (h ++ [l]))) (i_disk (run e inst_empty (h ++ [l]))).
Proof.
  intros e SR h l W.
  assert (E : snd (step e (run e inst_empty h) l) = false) by (unfold step, update; apply update_nofault_ok).
  split; auto.
  assert (Wh : wf_hist e inst_empty (nofault h) /\ wf_batch e (i_cfg (run_f e inst_empty (nofault h))) l).
  { clear E. unfold nofault in W. rewrite map_app in W. cbn in W. fold (nofault h) in W.
    revert W. generalize inst_empty. induction (nofault h) as [|st g IH]; cbn; intros s W.
    - destruct W as [W _]. auto.
    - destruct W as [W1 [NS W2]]. destruct (IH _ W2) as [A B]. auto. }
  destruct Wh as [Wh Wl].
  assert (R : run e inst_empty (h ++ [l]) = fst (step e (run e inst_empty h) l)).
  { unfold run. rewrite fold_left_app. reflexivity. }
  rewrite R. destruct (step e (run e inst_empty h) l) as [s' err] eqn:S. cbn in E. subst err. cbn [fst].
  rewrite run_nofault in S.
  destruct (success_is_convergence e SR (nofault h) Wh l [] s' Wl eq_refl S) as [_ [D _]]. exact D.
Qed.

(* what haproxy has loaded, when no reload is waiting in the reload queue *)
Lemma good_loaded_ok : forall e s, shard_range e -> good e s -> (inline e = true \/ i_pending s = false) ->
  exists r, i_running s = Some r /\ disk_ok e (i_cfg s) r.
Proof.
  intros e s SR [D [_ [_ [_ [_ [_ [_ [_ [_ [Rn [Go Fo]]]]]]]]]]] P.
  destruct (Rn P Go) as [r [Hr [NHr [Shr Ir]]]]. exists r. split; auto. apply inv_disk_ok; auto.
Qed.

(* C05 over histories with failed updates: every update that succeeds leaves the files right *)
Theorem disk_invariant_after_faults : forall e, shard_range e ->
  forall h, wf_hist e inst_empty h ->
  forall l fs s', wf_batch e (i_cfg (run_f e inst_empty h)) l -> armed fs FReloadSilent = false ->
    step_f e fs (run_f e inst_empty h) l = (s', false) ->
    disk_ok e (i_cfg s') (i_disk s').
Proof.
  intros e SR h W l fs s' Wl NS U. destruct (success_is_convergence e SR h W l fs s' Wl NS U) as [_ [D _]]. exact D.
Qed.
