(* Model/ConvAnn.v, executable witnesses: checkers for the premises of model_history_a_obs and
   a history that meets them (an annotation-only update of an ingress, a change of the
   annotations of a Service, a deletion), by theorem and by evaluation. *)
From Coq Require Import List Bool String ZArith Lia Relations.
From HI Require Import Model.Tracker Model.Conv Model.ConvAnn Proofs.Tracker Proofs.IncSync Proofs.Conv
                       Proofs.ConvSort Proofs.ConvHist_base Proofs.ConvHist_keys Proofs.ConvHist_sim
                       Proofs.ConvBack Proofs.ConvHist Proofs.ConvHist_multi Proofs.ConvBack_multi
                       Proofs.ConvAnn Proofs.ConvAnn_hist Proofs.ConvAnn_back Proofs.ConvAnn_step.
Import ListNotations.
Open Scope string_scope.
Open Scope list_scope.

Lemma key_eq_dec (a c : key) : {a = c} + {a <> c}.
Proof. repeat decide equality. Defined.

Fixpoint nodup_keysb (l : list key) : bool :=
  match l with
  | [] => true
  | k :: r => (if in_dec key_eq_dec k r then false else true) && nodup_keysb r
  end.

Lemma nodup_keysb_sound l : nodup_keysb l = true -> NoDup l.
Proof.
  induction l as [|k r IH]; cbn; intros H; [constructor|].
  apply andb_true_iff in H as [H1 H2]. destruct (in_dec key_eq_dec k r); [discriminate|].
  constructor; [assumption|apply IH; exact H2].
Qed.

Definition ports_okb (w : world) : bool :=
  forallb (fun i => forallb (fun rule => forallb (fun r => negb (String.eqb (r_port r) "")) (snd rule)) (i_rules i)) (w_ings w).

Lemma ports_okb_sound w : ports_okb w = true -> ports_ok w.
Proof.
  unfold ports_okb. intros H i rule r Hi Hrule Hr Hc. rewrite forallb_forall in H.
  pose proof (H i Hi) as H1. rewrite forallb_forall in H1. pose proof (H1 rule Hrule) as H2.
  rewrite forallb_forall in H2. pose proof (H2 r Hr) as H3. rewrite Hc in H3. discriminate.
Qed.

Definition ids_injb (w : world) : bool :=
  forallb (fun a => forallb (fun c =>
     negb (String.eqb (bid_of (fst a) (snd a)) (bid_of (fst c) (snd c))) ||
     String.eqb (s_full (fst a)) (s_full (fst c))) (sp_pairs w)) (sp_pairs w).

Lemma ids_injb_sound w : ids_injb w = true -> ids_inj w.
Proof.
  unfold ids_injb. intros H svc svc' p p' Hs Hs' Hp Hp' Hb. rewrite forallb_forall in H.
  pose proof (H _ (sp_pairs_In w svc p Hs Hp)) as H1. rewrite forallb_forall in H1.
  pose proof (H1 _ (sp_pairs_In w svc' p' Hs' Hp')) as H2. cbn [fst snd] in H2.
  apply orb_true_iff in H2 as [H2|H2].
  - apply negb_true_iff in H2. rewrite Hb, String.eqb_refl in H2. discriminate.
  - apply String.eqb_eq. exact H2.
Qed.

Definition H_annb (w : world) : bool := nodup_keysb (world_keys w) && ports_okb w && ids_injb w.

Lemma H_annb_sound w : H_annb w = true -> H_ann w.
Proof.
  unfold H_annb. intros H. apply andb_true_iff in H as [H H3]. apply andb_true_iff in H as [H1 H2].
  split; [apply nodup_keysb_sound; exact H1|]. split; [apply ports_okb_sound; exact H2|apply ids_injb_sound; exact H3].
Qed.

Definition amap2_eqb (a c : amap * amap) : bool := if amap_eq_dec a c then true else false.
Definition amap1_eqb (a c : amap) : bool := if amap1_eq_dec a c then true else false.

Definition ann_ing_okb (w w' : aworld) (b : batch) : bool :=
  forallb (fun i =>
    amap2_eqb (iann w i) (iann w' i)
    || namein (i_full i) (map i_full (b_add b)) || namein (i_full i) (map i_full (b_upd b)) || namein (i_full i) (b_del b))
    (w_ings (aw_base w)).

Lemma ann_ing_okb_sound w w' b : ann_ing_okb w w' b = true -> ann_ing_ok w w' b.
Proof.
  unfold ann_ing_okb. intros H i Hi _ Hne. rewrite forallb_forall in H. pose proof (H i Hi) as H1.
  apply orb_true_iff in H1 as [H1|H1]; [|right; right; apply namein_In; exact H1].
  apply orb_true_iff in H1 as [H1|H1]; [|right; left; apply namein_In; exact H1].
  apply orb_true_iff in H1 as [H1|H1]; [|left; apply namein_In; exact H1].
  unfold amap2_eqb in H1. destruct (amap_eq_dec (iann w i) (iann w' i)); [contradiction|discriminate].
Qed.

Definition ann_svc_okb (w w' : aworld) (b : batch) : bool :=
  forallb (fun n => amap1_eqb (sann w n) (sann w' n) || mem node_eqb (KService, n) (b_links b))
          (map fst (aw_sann w) ++ map fst (aw_sann w')).

Lemma ann_svc_okb_sound w w' b : ann_svc_okb w w' b = true -> ann_svc_ok w w' b.
Proof.
  unfold ann_svc_okb. intros H n Hne. rewrite forallb_forall in H.
  destruct (string_in_dec n (map fst (aw_sann w) ++ map fst (aw_sann w'))) as [Hin|Hin].
  - apply H in Hin. apply orb_true_iff in Hin as [Hc|Hc].
    + unfold amap1_eqb in Hc. destruct (amap1_eq_dec (sann w n) (sann w' n)); [contradiction|discriminate].
    + apply (mem_In node node_eqb node_eqb_spec). exact Hc.
  - exfalso. apply Hne. unfold sann. rewrite !assoc_none; [reflexivity| |];
      intros Hc; apply Hin; apply in_or_app; [right|left]; exact Hc.
Qed.

(* ---------- a history ---------- *)
Open Scope Z_scope.
(* ing1 (a.example / -> svc1) and ing2 (b.example / -> svc1) share backend ns1_svc1_8080; ing3
   serves c.example from svc2.
   step 1: annotation-only update of ing2 (balance-algorithm appears): ing1 is older and has
           hsts-max-age only, so Mapper.Get(balance-algorithm) is ing2's value;
   step 2: Service svc1 gets annotation hsts-max-age=200 (precedence over the ingresses);
   step 3: ing1 is deleted. *)
Definition xa_ing (name : string) (stamp : Z) (host svc : string) : ingress :=
  {| i_ns := "ns1"; i_name := name; i_stamp := stamp; i_class := None;
     i_rules := [(host, [{| r_path := "/"; r_type := Prefix; r_svc := svc; r_port := "80" |}])]; i_tls := [] |}.
Definition xa_i1 := xa_ing "ing1" 1 "a.example" "svc1".
Definition xa_i2 := xa_ing "ing2" 5 "b.example" "svc1".
Definition xa_i3 := xa_ing "ing3" 9 "c.example" "svc2".
Definition xa_world (l : list ingress) (ia : list (string * (amap * amap))) (sa : list (string * amap)) : aworld :=
  {| aw_base := {| w_ings := l; w_svcs := [af_svc1; af_svc2]; w_eps := af_eps; w_secrets := [] |};
     aw_iann := ia; aw_sann := sa |}.
Definition xa_ia0 := [("ns1/ing1", ([("app-root", "/app")], [("hsts-max-age", "100")]))].
Definition xa_ia1 := xa_ia0 ++ [("ns1/ing2", ([], [("balance-algorithm", "leastconn")]))].
Definition xa_sa2 := [("ns1/svc1", [("hsts-max-age", "200")])].
Definition xa_w0 := xa_world [xa_i1; xa_i2; xa_i3] xa_ia0 [].
Definition xa_w1 := xa_world [xa_i1; xa_i2; xa_i3] xa_ia1 [].
Definition xa_w2 := xa_world [xa_i1; xa_i2; xa_i3] xa_ia1 xa_sa2.
Definition xa_w3 := xa_world [xa_i2; xa_i3] xa_ia1 xa_sa2.
Definition xa_b1 := {| b_links := [(KIngress, "ns1/ing2")]; b_add := []; b_upd := [xa_i2]; b_del := [] |}.
Definition xa_b2 := {| b_links := [(KService, "ns1/svc1")]; b_add := []; b_upd := []; b_del := [] |}.
Definition xa_b3 := {| b_links := [(KIngress, "ns1/ing1")]; b_add := []; b_upd := []; b_del := ["ns1/ing1"] |}.
Definition xa_hist := [(xa_b1, xa_w1); (xa_b2, xa_w2); (xa_b3, xa_w3)].

Example ann_history_ok : H_ann (aw_base xa_w0) /\ hist_ok_ab xa_w0 xa_hist.
Proof.
  split; [apply H_annb_sound; vm_compute; reflexivity|].
  unfold xa_hist. cbn [hist_ok_ab].
  refine (conj _ (conj _ (conj _ (conj _ (conj _ (conj _ (conj _ (conj _ (conj _ (conj _
         (conj _ (conj _ (conj _ (conj _ (conj _ I)))))))))))))));
    first [apply batch_wfb_sound; vm_compute; reflexivity
          |apply batch_links_ok_eb_sound; vm_compute; reflexivity
          |apply ann_ing_okb_sound; vm_compute; reflexivity
          |apply ann_svc_okb_sound; vm_compute; reflexivity
          |apply H_annb_sound; vm_compute; reflexivity].
Qed.

Example ann_history_by_theorem :
  exists y', run_hist_a (sync_full_a xa_w0) xa_hist = Some y' /\
             forall hn, obs_ann y' hn = obs_ann (sync_full_a xa_w3) hn.
Proof. exact (model_history_a_obs xa_w0 xa_hist (proj1 ann_history_ok) (proj2 ann_history_ok)). Qed.

Example ann_history_eval :
  obs_a (run_hist_a (sync_full_a xa_w0) [(xa_b1, xa_w1)]) "a.example"
    = Some (Some ([("app-root", "/app")],
                  [("/", Prefix, [("hsts-max-age", "100"); ("balance-algorithm", "leastconn")],
                    Some [("hsts-max-age", "100")])])) /\
  obs_a (run_hist_a (sync_full_a xa_w0) xa_hist) "b.example"
    = Some (Some ([], [("/", Prefix, [("hsts-max-age", "200"); ("balance-algorithm", "leastconn")],
                        Some [("hsts-max-age", "200"); ("balance-algorithm", "leastconn")])])) /\
  obs_a (run_hist_a (sync_full_a xa_w0) xa_hist) "b.example" = obs_a (Some (sync_full_a xa_w3)) "b.example".
Proof. vm_compute. repeat split; reflexivity. Qed.

(* the finding violates H_ann: path / of a.example is declared twice *)
Example finding_not_H_ann : ~ H_ann (aw_base af_w0).
Proof.
  intros [H _]. unfold no_redecl in H. vm_compute in H.
  inversion H as [|? ? Hn _]. apply Hn. left. reflexivity.
Qed.
