(* Proofs for Model/CfgRefs.v (C07). *)
From Coq Require Import String Ascii List NArith ZArith Bool Arith Lia Permutation Sorted
  DecimalString DecimalNat DecimalN Decimal.
From HI Require Import Model.CfgRefs.
Import ListNotations.
Open Scope string_scope.

(* ------------------------------------------------------------------ Part A *)

Lemma mem_In : forall x l, mem x l = true <-> In x l.
Proof.
  intros x l. unfold mem. rewrite existsb_exists. split.
  - intros [y [Hy He]]. apply String.eqb_eq in He. subst. exact Hy.
  - intros H. exists x. split; [exact H | apply String.eqb_refl].
Qed.

Lemma memN_In : forall x l, memN x l = true <-> In x l.
Proof.
  intros x l. unfold memN. rewrite existsb_exists. split.
  - intros [y [Hy He]]. apply N.eqb_eq in He. subst. exact Hy.
  - intros H. exists x. split; [exact H | apply N.eqb_refl].
Qed.

Lemma memZ_In : forall x l, memZ x l = true <-> In x l.
Proof.
  intros x l. unfold memZ. rewrite existsb_exists. split.
  - intros [y [Hy He]]. apply Z.eqb_eq in He. subst. exact Hy.
  - intros H. exists x. split; [exact H | apply Z.eqb_refl].
Qed.

Lemma count_count_occ : forall x l, count x l = count_occ string_dec l x.
Proof.
  intros x l. unfold count. induction l as [|y l IH]; cbn [filter count_occ length]; [reflexivity|].
  destruct (string_dec y x) as [->|Hne].
  - rewrite String.eqb_refl. cbn [length]. now rewrite IH.
  - destruct (String.eqb x y) eqn:E.
    + apply String.eqb_eq in E. congruence.
    + exact IH.
Qed.

Lemma nodupb_NoDup : forall l, nodupb l = true <-> NoDup l.
Proof.
  induction l as [|x l IH]; cbn [nodupb].
  - split; [constructor | reflexivity].
  - rewrite andb_true_iff, negb_true_iff, IH. split.
    + intros [Hm Hn]. constructor; [|exact Hn]. intro Hin. apply mem_In in Hin. congruence.
    + intros H. inversion H; subst. split; [|assumption].
      destruct (mem x l) eqn:E; [|reflexivity]. apply mem_In in E. contradiction.
Qed.

Lemma nodupbN_NoDup : forall l, nodupbN l = true <-> NoDup l.
Proof.
  induction l as [|x l IH]; cbn [nodupbN].
  - split; [constructor | reflexivity].
  - rewrite andb_true_iff, negb_true_iff, IH. split.
    + intros [Hm Hn]. constructor; [|exact Hn]. intro Hin. apply memN_In in Hin. congruence.
    + intros H. inversion H; subst. split; [|assumption].
      destruct (memN x l) eqn:E; [|reflexivity]. apply memN_In in E. contradiction.
Qed.

Lemma one_exactly : forall c n, one (backend_names c) n = true <-> exactly_one c n.
Proof.
  intros c n. unfold one, exactly_one. rewrite Nat.eqb_eq, count_count_occ. reflexivity.
Qed.

Lemma In_map_values : forall c f v,
  In v (map_values c f) <-> exists es k, lookup f (c_maps c) = Some es /\ In (k, v) es.
Proof.
  intros c f v. unfold map_values. destruct (lookup f (c_maps c)) as [es|].
  - rewrite in_map_iff. split.
    + intros [[k v'] [E Hin]]. cbn in E. subst. exists es, k. auto.
    + intros [es' [k [E Hin]]]. inversion E; subst. exists (k, v). auto.
  - split; [intros [] | intros [es [k [E _]]]; discriminate].
Qed.

Lemma dyn_ok_iff : forall c d,
  dyn_ok c (backend_names c) d = true <->
  (forall n, In n (dyn_targets c d) -> exactly_one c n) /\
  (forall f, In f (d_maps d) -> exists es, lookup f (c_maps c) = Some es).
Proof.
  intros c d. unfold dyn_ok, dyn_targets. rewrite andb_true_iff, !forallb_forall. split.
  - intros [Hd Hm]. split.
    + intros n Hn. apply in_app_or in Hn. destruct Hn as [Hn|Hn].
      * apply one_exactly. auto.
      * apply in_flat_map in Hn. destruct Hn as [f [Hf Hv]].
        apply In_map_values in Hv. destruct Hv as [es [k [E Hin]]].
        specialize (Hm f Hf). rewrite E in Hm. rewrite forallb_forall in Hm.
        apply one_exactly. exact (Hm (k, n) Hin).
    + intros f Hf. specialize (Hm f Hf). destruct (lookup f (c_maps c)) as [es|]; [eauto | discriminate].
  - intros [Ht Hl]. split.
    + intros n Hn. apply one_exactly. apply Ht. apply in_or_app. now left.
    + intros f Hf. destruct (Hl f Hf) as [es E]. rewrite E. apply forallb_forall.
      intros [k v] Hin. apply one_exactly. apply Ht. apply in_or_app. right.
      apply in_flat_map. exists f. split; [exact Hf|]. apply In_map_values. eauto.
Qed.

Lemma crtlist_ok_iff : forall c f,
  crtlist_ok c f = true <->
  In f (c_files c) /\ exists fs, lookup f (c_crtlists c) = Some fs /\ forall x, In x fs -> In x (c_files c).
Proof.
  intros c f. unfold crtlist_ok. rewrite andb_true_iff, mem_In. split.
  - intros [Hf Hl]. split; [exact Hf|]. destruct (lookup f (c_crtlists c)) as [fs|]; [|discriminate].
    exists fs. split; [reflexivity|]. rewrite forallb_forall in Hl. intros x Hx. apply mem_In. auto.
  - intros [Hf [fs [E Hx]]]. split; [exact Hf|]. rewrite E. apply forallb_forall. intros x Hin. apply mem_In. auto.
Qed.

(* what one section must satisfy *)
Definition section_spec (c : cfg) (s : section) : Prop :=
  (forall n, In n (backend_refs c s) -> exactly_one c n) /\
  ((forall u, In u (s_userlists s) -> count_occ string_dec (c_userlists c) u = 1%nat) /\
   (forall f, In f (s_maps s) -> In f (c_files c)) /\
   (forall d f, In d (s_usedyn s) -> In f (d_maps d) -> exists es, lookup f (c_maps c) = Some es) /\
   (forall f, In f (s_crtlists s) ->
      In f (c_files c) /\ exists fs, lookup f (c_crtlists c) = Some fs /\ forall x, In x fs -> In x (c_files c)) /\
   (forall f, In f (s_files s) -> In f (c_files c))) /\
  (NoDup (map fst (s_servers s)) /\ NoDup (filter nonzero (map snd (s_servers s))) /\
   (forall u, In u (s_useserver s) -> In u (map fst (s_servers s)))) /\
  (forall id, In id (s_idsused s) ->
     exists f es k, In f (s_idmaps s) /\ lookup f (c_maps c) = Some es /\ In (k, id) es).

Lemma section_ok_iff : forall c s, section_ok c (backend_names c) s = true <-> section_spec c s.
Proof.
  intros c s. unfold section_ok, section_spec. rewrite !andb_true_iff, !forallb_forall.
  rewrite nodupb_NoDup, nodupbN_NoDup. split.
  - intros [[[[[[[[[H1 H2] H3] H4] H5] H6] H7] H8] H9] H10].
    split; [|split; [|split]].
    + intros n Hn. unfold backend_refs in Hn. rewrite !app_assoc in Hn.
      apply in_app_or in Hn. destruct Hn as [Hn|Hn].
      * apply one_exactly. apply H1. rewrite <- app_assoc in Hn. exact Hn.
      * apply in_flat_map in Hn. destruct Hn as [d [Hd Hn]].
        apply (proj1 (dyn_ok_iff c d) (H2 d Hd)). exact Hn.
    + split; [|split; [|split; [|split]]].
      * intros u Hu. specialize (H3 u Hu). apply Nat.eqb_eq in H3. now rewrite <- count_count_occ.
      * intros f Hf. apply mem_In. auto.
      * intros d f Hd Hf. apply (proj2 (proj1 (dyn_ok_iff c d) (H2 d Hd))). exact Hf.
      * intros f Hf. apply crtlist_ok_iff. auto.
      * intros f Hf. apply mem_In. auto.
    + split; [exact H7|split; [exact H8|]]. intros u Hu. apply mem_In. auto.
    + intros id Hid. specialize (H10 id Hid). apply mem_In in H10. unfold id_values in H10.
      apply in_flat_map in H10. destruct H10 as [f [Hf Hv]]. apply In_map_values in Hv.
      destruct Hv as [es [k [E Hin]]]. exists f, es, k. auto.
  - intros [R [[U [M [D [C F]]]] [[S1 [S2 S3]] P]]].
    assert (G1 : forall x, In x (s_use s ++ s_default s ++ s_authback s) -> one (backend_names c) x = true).
    { intros n Hn. apply one_exactly. apply R. unfold backend_refs. rewrite !app_assoc.
      apply in_or_app. left. rewrite <- app_assoc. exact Hn. }
    assert (G2 : forall x, In x (s_usedyn s) -> dyn_ok c (backend_names c) x = true).
    { intros d Hd. apply dyn_ok_iff. split.
      - intros n Hn. apply R. unfold backend_refs. rewrite !app_assoc. apply in_or_app. right.
        apply in_flat_map. eauto.
      - intros f Hf. eapply D; eauto. }
    assert (G3 : forall x, In x (s_userlists s) -> Nat.eqb (count x (c_userlists c)) 1 = true).
    { intros u Hu. apply Nat.eqb_eq. rewrite count_count_occ. auto. }
    assert (G4 : forall x, In x (s_maps s) -> mem x (c_files c) = true).
    { intros f Hf. apply mem_In. auto. }
    assert (G5 : forall x, In x (s_crtlists s) -> crtlist_ok c x = true).
    { intros f Hf. apply crtlist_ok_iff. auto. }
    assert (G6 : forall x, In x (s_files s) -> mem x (c_files c) = true).
    { intros f Hf. apply mem_In. auto. }
    assert (G9 : forall x, In x (s_useserver s) -> mem x (map fst (s_servers s)) = true).
    { intros u Hu. apply mem_In. auto. }
    assert (G10 : forall x, In x (s_idsused s) -> mem x (id_values c s) = true).
    { intros id Hid. apply mem_In. destruct (P id Hid) as [f [es [k [Hf [E Hin]]]]].
      unfold id_values. apply in_flat_map. exists f. split; [exact Hf|]. apply In_map_values. eauto. }
    tauto.
Qed.

Lemma loadable_sections : forall c,
  loadable c <-> (forall s, In s (c_sections c) -> section_spec c s) /\ auth_ports_unique c.
Proof.
  intros c. unfold loadable, backends_resolve, files_present, servers_unique, path_ids_defined, section_spec.
  split.
  - intros [R [F [S [P A]]]]. split; [|exact A]. intros s Hs.
    specialize (F s Hs). specialize (S s Hs).
    split; [intros n Hn; eapply R; eauto|]. split; [exact F|]. split; [exact S|].
    intros id Hid; eapply P; eauto.
  - intros [H A].
    split; [intros s n Hs Hn; exact (proj1 (H s Hs) n Hn)|].
    split; [intros s Hs; exact (proj1 (proj2 (H s Hs)))|].
    split; [intros s Hs; exact (proj1 (proj2 (proj2 (H s Hs))))|].
    split; [intros s id Hs Hid; exact (proj2 (proj2 (proj2 (H s Hs))) id Hid)| exact A].
Qed.

Lemma auth_ok_iff : forall c,
  (nodupbN (c_authbinds c) && nodupbN (filter nonzero (c_authids c)) &&
   forallb (fun bp : string * N => memN (snd bp) (c_authbinds c)) (c_authservers c)) = true
  <-> auth_ports_unique c.
Proof.
  intros c. unfold auth_ports_unique. rewrite !andb_true_iff, !nodupbN_NoDup, forallb_forall. split.
  - intros [[H1 H2] H3]. repeat split; auto. intros b p Hin. apply memN_In. exact (H3 (b, p) Hin).
  - intros [H1 [H2 H3]]. repeat split; auto. intros [b p] Hin. apply memN_In. cbn. eauto.
Qed.

(* the checker decides the property *)
Theorem wellformed_iff : forall c, wellformed c = true <-> loadable c.
Proof.
  intros c. rewrite loadable_sections. unfold wellformed.
  rewrite <- auth_ok_iff. rewrite !andb_true_iff, forallb_forall. split.
  - intros [[[H1 H2] H3] H4]. split.
    + intros s Hs. apply section_ok_iff. auto.
    + auto.
  - intros [H [[H2 H3] H4]]. repeat split; auto. intros s Hs. apply section_ok_iff. auto.
Qed.

Theorem wellformed_sound : forall c, wellformed c = true ->
  backends_resolve c /\ files_present c /\ servers_unique c /\ path_ids_defined c /\ auth_ports_unique c.
Proof. intros c H. apply wellformed_iff in H. exact H. Qed.

Theorem wellformed_complete : forall c, loadable c -> wellformed c = true.
Proof. intros c H. apply wellformed_iff. exact H. Qed.

(* ------------------------------------------------------------------ Part B *)

(* ---- strings and decimal printing ---- *)

Lemma append_inj_l : forall s a b : string, s ++ a = s ++ b -> a = b.
Proof. induction s as [|c s IH]; cbn; intros a b H; [exact H | inversion H; auto]. Qed.

Lemma length_append : forall a b : string, String.length (a ++ b) = (String.length a + String.length b)%nat.
Proof. induction a as [|c a IH]; cbn; intros b; [reflexivity | now rewrite IH]. Qed.

Lemma append_self_nonempty : forall s t : string, s = s ++ t -> t = "".
Proof.
  intros s t H. apply (f_equal String.length) in H. rewrite length_append in H.
  destruct t; [reflexivity | cbn in H; lia].
Qed.

Lemma string_of_uint_inj : forall a b, NilEmpty.string_of_uint a = NilEmpty.string_of_uint b -> a = b.
Proof.
  intros a b H. apply (f_equal NilEmpty.uint_of_string) in H. rewrite !NilEmpty.usu in H. congruence.
Qed.

Lemma dec_inj : forall a b, dec a = dec b -> a = b.
Proof.
  intros a b H. apply string_of_uint_inj in H. apply (f_equal Nat.of_uint) in H.
  now rewrite !DecimalNat.Unsigned.of_to in H.
Qed.

Definition pad2u (n : nat) : uint := if Nat.ltb n 10 then D0 (Nat.to_uint n) else Nat.to_uint n.
Definition pad3u (n : nat) : uint :=
  if Nat.ltb n 10 then D0 (D0 (Nat.to_uint n)) else if Nat.ltb n 100 then D0 (Nat.to_uint n) else Nat.to_uint n.

Lemma pad2_u : forall n, pad2 n = NilEmpty.string_of_uint (pad2u n).
Proof. intros n. unfold pad2, pad2u, dec. destruct (Nat.ltb n 10); reflexivity. Qed.
Lemma pad3_u : forall n, pad3 n = NilEmpty.string_of_uint (pad3u n).
Proof. intros n. unfold pad3, pad3u, dec. destruct (Nat.ltb n 10); [reflexivity|]. destruct (Nat.ltb n 100); reflexivity. Qed.

Lemma of_uint_D0 : forall d, Nat.of_uint (D0 d) = Nat.of_uint d.
Proof. reflexivity. Qed.

Lemma of_pad2u : forall n, Nat.of_uint (pad2u n) = n.
Proof. intros n. unfold pad2u. destruct (Nat.ltb n 10); rewrite ?of_uint_D0; apply DecimalNat.Unsigned.of_to. Qed.
Lemma of_pad3u : forall n, Nat.of_uint (pad3u n) = n.
Proof.
  intros n. unfold pad3u. destruct (Nat.ltb n 10); [|destruct (Nat.ltb n 100)];
    rewrite ?of_uint_D0; apply DecimalNat.Unsigned.of_to.
Qed.

Lemma pad2_inj : forall a b, pad2 a = pad2 b -> a = b.
Proof.
  intros a b H. rewrite !pad2_u in H. apply string_of_uint_inj in H.
  apply (f_equal Nat.of_uint) in H. now rewrite !of_pad2u in H.
Qed.
Lemma pad3_inj : forall a b, pad3 a = pad3 b -> a = b.
Proof.
  intros a b H. rewrite !pad3_u in H. apply string_of_uint_inj in H.
  apply (f_equal Nat.of_uint) in H. now rewrite !of_pad3u in H.
Qed.

Lemma slot_name_inj : forall a b, slot_name a = slot_name b -> a = b.
Proof. intros a b H. unfold slot_name in H. apply append_inj_l in H. now apply pad3_inj. Qed.
Lemma path_id_inj : forall a b, path_id a = path_id b -> a = b.
Proof. intros a b H. unfold path_id in H. apply append_inj_l in H. now apply pad2_inj. Qed.

(* ---- B1: server names ---- *)

Lemma NoDup_map_inj_in : forall (A B : Type) (f : A -> B) (l : list A),
  (forall x y, In x l -> In y l -> f x = f y -> x = y) -> NoDup l -> NoDup (map f l).
Proof.
  intros A B f l Hinj Hn. induction Hn as [|x l Hx Hn IH]; cbn; [constructor|].
  constructor.
  - intro Hin. apply in_map_iff in Hin. destruct Hin as [y [E Hy]].
    assert (y = x) by (apply Hinj; [now right | now left | exact E]). subst. contradiction.
  - apply IH. intros a b Ha Hb. apply Hinj; now right.
Qed.

Lemma cand_inj : forall name i j, (1 <= i)%nat -> (1 <= j)%nat -> cand name i = cand name j -> i = j.
Proof.
  intros name i j Hi Hj H. unfold cand in H.
  destruct (Nat.leb i 1) eqn:Ei; destruct (Nat.leb j 1) eqn:Ej;
    try apply Nat.leb_le in Ei; try apply Nat.leb_le in Ej;
    try apply Nat.leb_gt in Ei; try apply Nat.leb_gt in Ej.
  - lia.
  - apply append_self_nonempty in H. discriminate.
  - symmetry in H. apply append_self_nonempty in H. discriminate.
  - apply append_inj_l in H. apply append_inj_l in H. now apply dec_inj.
Qed.

Lemma sanitize_from_spec : forall fuel names name idx,
  exists k, sanitize_from fuel names name idx = cand name k /\
    (idx <= k <= idx + fuel)%nat /\
    (forall j, (idx <= j < k)%nat -> In (cand name j) names) /\
    ((k < idx + fuel)%nat -> ~ In (cand name k) names).
Proof.
  induction fuel as [|f IH]; intros names name idx; cbn [sanitize_from].
  - exists idx. split; [reflexivity|]. split; [lia|]. split; [intros j Hj; lia | intros Hlt; lia].
  - destruct (mem (cand name idx) names) eqn:E.
    + destruct (IH names name (S idx)) as [k [Hk [Hr [Hall Hfresh]]]].
      exists k. split; [exact Hk|]. split; [lia|]. split.
      * intros j Hj. destruct (Nat.eq_dec j idx) as [->|Hne]; [now apply mem_In|]. apply Hall. lia.
      * intros Hlt. apply Hfresh. lia.
    + exists idx. split; [reflexivity|]. split; [lia|]. split.
      * intros j Hj. lia.
      * intros _ Hin. apply mem_In in Hin. congruence.
Qed.

(* the candidate returned is never a used name: the bounded recursion loses nothing *)
Lemma sanitize_from_fresh : forall names name,
  ~ In (sanitize_from (length names) names name 1) names.
Proof.
  intros names name.
  destruct (sanitize_from_spec (length names) names name 1) as [k [Hk [Hr [Hall Hfresh]]]].
  rewrite Hk. destruct (Nat.lt_ge_cases k (1 + length names)) as [Hlt|Hge]; [auto|].
  assert (k = S (length names)) by lia. subst k. intro Hin.
  (* cand 1 .. cand (len+1) are len+1 distinct members of names *)
  assert (Hnd : NoDup (map (cand name) (seq 1 (S (length names))))).
  { apply NoDup_map_inj_in; [|apply seq_NoDup].
    intros i j Hi Hj. apply in_seq in Hi. apply in_seq in Hj. apply cand_inj; lia. }
  assert (Hincl : incl (map (cand name) (seq 1 (S (length names)))) names).
  { intros x Hx. apply in_map_iff in Hx. destruct Hx as [j [<- Hj]]. apply in_seq in Hj.
    destruct (Nat.eq_dec j (S (length names))) as [->|Hne]; [exact Hin|]. apply Hall. lia. }
  pose proof (NoDup_incl_length Hnd Hincl) as Hlen. rewrite map_length, seq_length in Hlen. lia.
Qed.

Lemma sanitize_fresh : forall names name, ~ In (sanitize names name) names.
Proof. intros names name. unfold sanitize. apply sanitize_from_fresh. Qed.

Lemma NoDup_snoc : forall (A : Type) (l : list A) x, NoDup l -> ~ In x l -> NoDup (l ++ [x]).
Proof.
  intros A l x Hn Hx. induction Hn as [|y l Hy Hn IH]; cbn.
  - constructor; [intros []|constructor].
  - constructor.
    + intro Hin. apply in_app_or in Hin. destruct Hin as [Hin|[->|[]]]; [contradiction|]. apply Hx. now left.
    + apply IH. intro Hin. apply Hx. now right.
Qed.

Lemma add_name_NoDup : forall m names op, NoDup names -> NoDup (add_name m names op).
Proof. intros m names op H. unfold add_name. apply NoDup_snoc; [exact H | apply sanitize_fresh]. Qed.

Lemma fold_names_NoDup : forall m ops names, NoDup names -> NoDup (fold_left (add_name m) ops names).
Proof.
  intros m ops. induction ops as [|op ops IH]; intros names H; cbn [fold_left]; [exact H|].
  apply IH. now apply add_name_NoDup.
Qed.

(* for all naming modes and all sequences of AddEndpoint / AddEmptyEndpoint the server
   names of a backend are pairwise distinct *)
Theorem sanitize_names_nodup : forall m ops, NoDup (run_names m ops).
Proof. intros m ops. unfold run_names. apply fold_names_NoDup. constructor. Qed.

(* the code before the repair: a pod named like the empty slot of a later position *)
Example sanitize_names_before_fix_dup :
  run_names_before_fix NPod [AddEndpoint "10.0.0.1" 8080 "ns1/srv002"; AddEmptyEndpoint] = ["srv002"; "srv002"].
Proof. vm_compute. reflexivity. Qed.

(* the same operations on the repaired code *)
Example sanitize_names_after_fix :
  run_names NPod [AddEndpoint "10.0.0.1" 8080 "ns1/srv002"; AddEmptyEndpoint] = ["srv002"; "srv002__2"].
Proof. vm_compute. reflexivity. Qed.

Example run_names_modes :
  run_names NSeq [AddEndpoint "10.0.0.1" 80 "a/p"; AddEmptyEndpoint] = ["srv001"; "srv002"] /\
  run_names NIp [AddEndpoint "10.0.0.1" 80 "a/p"; AddEndpoint "10.0.0.1" 80 "a/q"; AddEmptyEndpoint]
    = ["10.0.0.1:80"; "10.0.0.1:80__2"; "srv003"] /\
  run_names NPod [AddEndpoint "10.0.0.1" 80 "a/p"; AddEndpoint "10.0.0.2" 80 ""; AddEndpoint "10.0.0.3" 80 "b/p"]
    = ["p"; "srv002"; "p__2"].
Proof. vm_compute. repeat split. Qed.

(* ---- B2: path ids ---- *)

Section PathsProofs.
  Context {L : Type} (leqb : L -> L -> bool).
  Context (sortp : list (L * string) -> list (L * string)).
  Context (sortp_perm : forall l, Permutation (sortp l) l).

  Definition paths_inv (ps : list (L * string)) : Prop :=
    NoDup (map snd ps) /\
    forall id, In id (map snd ps) -> exists k, (1 <= k <= length ps)%nat /\ id = path_id k.

  Lemma add_path_inv : forall ps l, paths_inv ps -> paths_inv (add_path leqb sortp ps l).
  Proof.
    intros ps l [Hn Hids]. unfold add_path. destruct (find_path leqb l ps); [split; assumption|].
    set (new := (l, path_id (S (length ps)))).
    pose proof (sortp_perm (ps ++ [new])) as Hp.
    assert (Hinv : paths_inv (ps ++ [new])).
    { split.
      - rewrite map_app. cbn [map snd new]. apply NoDup_snoc; [exact Hn|].
        intro Hin. destruct (Hids _ Hin) as [k [Hk E]]. apply path_id_inj in E. lia.
      - intros id Hin. rewrite map_app in Hin. apply in_app_or in Hin. rewrite app_length. cbn [length].
        destruct Hin as [Hin|[<-|[]]].
        + destruct (Hids _ Hin) as [k [Hk E]]. exists k. split; [lia|exact E].
        + exists (S (length ps)). split; [lia|reflexivity]. }
    destruct Hinv as [Hn' Hids']. split.
    - eapply Permutation_NoDup; [|exact Hn']. apply Permutation_map. apply Permutation_sym. exact Hp.
    - intros id Hin. rewrite (Permutation_length Hp). apply Hids'.
      eapply Permutation_in; [|exact Hin]. apply Permutation_map. exact Hp.
  Qed.

  Lemma fold_paths_inv : forall ops ps, paths_inv ps -> paths_inv (fold_left (add_path leqb sortp) ops ps).
  Proof.
    induction ops as [|l ops IH]; intros ps H; cbn [fold_left]; [exact H|]. apply IH. now apply add_path_inv.
  Qed.

  Lemma run_paths_nodup : forall ops, NoDup (map snd (run_paths leqb sortp ops)).
  Proof.
    intros ops. unfold run_paths. apply (fold_paths_inv ops []). split; [constructor|]. intros id [].
  Qed.
End PathsProofs.

(* whatever order sortPaths leaves b.Paths in, the ids of a backend's paths are distinct *)
Theorem path_ids_nodup : forall (L : Type) (leqb : L -> L -> bool) (sortp : list (L * string) -> list (L * string)),
  (forall l, Permutation (sortp l) l) ->
  forall ops, NoDup (map snd (run_paths leqb sortp ops)).
Proof. intros L leqb sortp Hp ops. now apply run_paths_nodup. Qed.

Example path_ids_example :
  run_paths String.eqb (fun l => l) ["h/a"; "h/b"; "h/a"; "h/c"] = [("h/a", "path01"); ("h/b", "path02"); ("h/c", "path03")].
Proof. vm_compute. reflexivity. Qed.

(* ---- B3: auth-proxy ports ---- *)

Open Scope Z_scope.

Definition ports (l : list bind) : list Z := map b_port l.

(* strictly ascending ports *)
Definition asc (l : list bind) : Prop := StronglySorted Z.lt (ports l).

Lemma free_port_ge : forall l s, s <= free_port s l.
Proof.
  induction l as [|b l IH]; intros s; cbn [free_port fold_left]; [lia|].
  unfold free_port in IH. unfold scan_step at 2. destruct (Z.eqb s (b_port b)); [specialize (IH (s + 1)) | specialize (IH s)]; lia.
Qed.

Lemma free_port_below : forall l s, (forall x, In x (ports l) -> s < x) -> free_port s l = s.
Proof.
  induction l as [|b l IH]; intros s H; cbn [free_port fold_left]; [reflexivity|].
  unfold scan_step at 2. assert (Hb : s < b_port b) by (apply H; now left).
  destruct (Z.eqb_spec s (b_port b)); [lia|]. apply IH. intros x Hx. apply H. now right.
Qed.

Lemma free_port_fresh : forall l s, asc l -> ~ In (free_port s l) (ports l).
Proof.
  induction l as [|b l IH]; intros s Hs; [intros []|].
  unfold asc, ports in Hs. cbn [map] in Hs. apply StronglySorted_inv in Hs. destruct Hs as [Hs Hall].
  rewrite Forall_forall in Hall.
  cbn [free_port fold_left]. unfold scan_step at 2. fold (free_port (if s =? b_port b then s + 1 else s) l).
  destruct (Z.eqb_spec s (b_port b)) as [->|Hne].
  - intros [E|Hin].
    + pose proof (free_port_ge l (b_port b + 1)). lia.
    + exact (IH _ Hs Hin).
  - intros [E|Hin]; [|exact (IH _ Hs Hin)].
    destruct (Z.lt_ge_cases s (b_port b)) as [Hlt|Hge].
    + rewrite free_port_below in E; [lia|]. intros x Hx. specialize (Hall x Hx). lia.
    + pose proof (free_port_ge l s). lia.
Qed.

Lemma insert_bind_perm : forall b l, Permutation (insert_bind b l) (b :: l).
Proof.
  induction l as [|x l IH]; cbn [insert_bind]; [reflexivity|].
  destruct (Z.leb (b_port b) (b_port x)); [reflexivity|].
  rewrite IH. apply perm_swap.
Qed.

Lemma sort_binds_perm : forall l, Permutation (sort_binds l) l.
Proof.
  induction l as [|x l IH]; cbn [sort_binds]; [reflexivity|]. rewrite insert_bind_perm. now constructor.
Qed.

Definition le_sorted (l : list bind) : Prop := StronglySorted Z.le (ports l).

Lemma insert_bind_sorted : forall b l, le_sorted l -> le_sorted (insert_bind b l).
Proof.
  intros b l. unfold le_sorted, ports. induction l as [|x l IH]; intros Hs; cbn [insert_bind map].
  - constructor; constructor.
  - apply StronglySorted_inv in Hs. destruct Hs as [Hs Hall].
    destruct (Z.leb_spec (b_port b) (b_port x)).
    + cbn [map]. constructor; [constructor; assumption|]. constructor; [assumption|].
      rewrite Forall_forall in *. intros y Hy. specialize (Hall y Hy). lia.
    + cbn [map]. constructor; [apply IH; exact Hs|].
      rewrite Forall_forall in *. intros y Hy.
      assert (Hin : In y (map b_port (b :: l))).
      { eapply Permutation_in; [|exact Hy]. apply Permutation_map. apply insert_bind_perm. }
      destruct Hin as [<-|Hin]; [lia|auto].
Qed.

Lemma sort_binds_sorted : forall l, le_sorted (sort_binds l).
Proof.
  induction l as [|x l IH]; cbn [sort_binds]; [constructor|]. now apply insert_bind_sorted.
Qed.

Lemma le_sorted_nodup_asc : forall l, StronglySorted Z.le l -> NoDup l -> StronglySorted Z.lt l.
Proof.
  induction l as [|x l IH]; intros Hs Hn; [constructor|].
  apply StronglySorted_inv in Hs. destruct Hs as [Hs Hall]. inversion Hn; subst.
  constructor; [auto|]. rewrite Forall_forall in *. intros y Hy.
  specialize (Hall y Hy). assert (x <> y) by (intro; subst; contradiction). lia.
Qed.

Lemma asc_NoDup : forall l, asc l -> NoDup (ports l).
Proof.
  intros l. unfold asc. generalize (ports l). induction l0 as [|x l0 IH]; intros Hs; [constructor|].
  apply StronglySorted_inv in Hs. destruct Hs as [Hs Hall]. constructor; [|auto].
  intro Hin. rewrite Forall_forall in Hall. specialize (Hall x Hin). lia.
Qed.

Lemma filter_asc : forall f l, asc l -> asc (filter f l).
Proof.
  intros f l. unfold asc, ports. induction l as [|x l IH]; intros Hs; cbn [filter map]; [constructor|].
  cbn [map] in Hs. apply StronglySorted_inv in Hs. destruct Hs as [Hs Hall].
  destruct (f x); [|auto]. cbn [map]. constructor; [auto|].
  rewrite Forall_forall in *. intros y Hy. apply Hall. apply in_map_iff in Hy.
  destruct Hy as [b [<- Hb]]. apply filter_In in Hb. apply in_map. tauto.
Qed.

Lemma acquire_asc : forall rs re backend l, asc l -> asc (fst (acquire rs re backend l)).
Proof.
  intros rs re backend l Hs. unfold acquire. destruct (find_bind backend l); [exact Hs|].
  destruct (Z.ltb re (free_port rs l)); [exact Hs|]. cbn [fst].
  set (nb := {| b_backend := backend; b_port := free_port rs l |}).
  apply le_sorted_nodup_asc; [apply sort_binds_sorted|].
  eapply Permutation_NoDup.
  - apply Permutation_map. apply Permutation_sym. apply sort_binds_perm.
  - unfold ports. rewrite map_app. cbn [map]. apply NoDup_snoc; [now apply asc_NoDup|].
    unfold nb. cbn [b_port]. now apply free_port_fresh.
Qed.

Lemma auth_step_asc : forall l op, asc l -> asc (fst (auth_step l op)).
Proof.
  intros l [rs re backend|used|backs] Hs; cbn [auth_step fst].
  - now apply acquire_asc.
  - now apply filter_asc.
  - now apply filter_asc.
Qed.

Lemma run_auth_asc : forall ops l, asc l -> asc (fold_left (fun l op => fst (auth_step l op)) ops l).
Proof.
  induction ops as [|op ops IH]; intros l Hs; cbn [fold_left]; [exact Hs|]. apply IH. now apply auth_step_asc.
Qed.

(* for all sequences of acquire / remove calls (any range on each call) no port is held twice *)
Theorem acquire_auth_port_nodup : forall ops, NoDup (map b_port (run_auth ops)).
Proof. intros ops. apply asc_NoDup. unfold run_auth. apply run_auth_asc. constructor. Qed.

(* a port handed out to a backend that had none is inside the range and was not held by
   anybody in the state the call started from *)
Theorem acquire_new_port_free : forall ops rs re backend p,
  let l := run_auth ops in
  find_bind backend l = None ->
  snd (acquire rs re backend l) = Some p ->
  rs <= p <= re /\ ~ In p (map b_port l).
Proof.
  intros ops rs re backend p l Hf H. unfold acquire in H. rewrite Hf in H.
  destruct (Z.ltb_spec re (free_port rs l)); cbn [snd] in H; [discriminate|]. inversion H; subst.
  split; [split; [apply free_port_ge | assumption]|].
  apply free_port_fresh. unfold l, run_auth. apply run_auth_asc. constructor.
Qed.

(* the scan stops at the first free port: everything between start and the result is held *)
Lemma free_port_held : forall l s, asc l ->
  forall q, s <= q < free_port s l -> In q (ports l).
Proof.
  induction l as [|b l IH]; intros s Hs q Hq; [cbn in Hq; lia|].
  unfold asc, ports in Hs. cbn [map] in Hs. apply StronglySorted_inv in Hs. destruct Hs as [Hs Hall].
  rewrite Forall_forall in Hall.
  cbn [free_port fold_left] in Hq. unfold scan_step at 2 in Hq.
  fold (free_port (if s =? b_port b then s + 1 else s) l) in Hq.
  destruct (Z.eqb_spec s (b_port b)) as [->|Hne].
  - destruct (Z.eq_dec q (b_port b)) as [->|Hq']; [now left|]. right.
    apply (IH (b_port b + 1) Hs). lia.
  - destruct (Z.lt_ge_cases s (b_port b)) as [Hlt|Hge].
    + rewrite free_port_below in Hq; [lia|]. intros x Hx. specialize (Hall x Hx). lia.
    + right. apply (IH s Hs). exact Hq.
Qed.

(* a full range gives the error, and the error is given only when the range is full *)
Theorem acquire_error_iff_full : forall ops rs re backend,
  let l := run_auth ops in
  find_bind backend l = None ->
  (snd (acquire rs re backend l) = None <-> forall q, rs <= q <= re -> In q (map b_port l)).
Proof.
  intros ops rs re backend l Hf.
  assert (Hs : asc l) by (unfold l, run_auth; apply run_auth_asc; constructor).
  unfold acquire. rewrite Hf. destruct (Z.ltb_spec re (free_port rs l)); cbn [snd]; split.
  - intros _ q Hq. apply (free_port_held l rs Hs). lia.
  - reflexivity.
  - discriminate.
  - intros Hall. exfalso. apply (free_port_fresh l rs Hs). apply Hall.
    split; [apply free_port_ge | assumption].
Qed.

(* an error leaves the list as it was *)
Theorem acquire_error_keeps : forall rs re backend l,
  snd (acquire rs re backend l) = None -> fst (acquire rs re backend l) = l.
Proof.
  intros rs re backend l. unfold acquire. destruct (find_bind backend l); [reflexivity|].
  destruct (Z.ltb re (free_port rs l)); [reflexivity | discriminate].
Qed.

Example auth_ports_example :
  trace_auth [] [Acquire 14415 14416 "a"; Acquire 14415 14416 "b"; Acquire 14415 14416 "c";
                 RemoveByTarget ["a"]; Acquire 14415 14416 "c"; Acquire 14415 14416 "b"]
  = [(Some 14415, [("a", 14415)]); (Some 14416, [("a", 14415); ("b", 14416)]);
     (None, [("a", 14415); ("b", 14416)]); (None, [("b", 14416)]);
     (Some 14415, [("c", 14415); ("b", 14416)]); (Some 14416, [("c", 14415); ("b", 14416)])].
Proof. vm_compute. reflexivity. Qed.

(* ---- the hypothesis of wellformed_sound is satisfiable, and the checker rejects ---- *)

Close Scope Z_scope.
Open Scope string_scope.

Definition sec0 (k : skind) (n : string) : section :=
  {| s_kind := k; s_name := n; s_servers := []; s_use := []; s_usedyn := []; s_default := [];
     s_authback := []; s_userlists := []; s_maps := []; s_crtlists := []; s_files := [];
     s_idmaps := []; s_idsused := []; s_useserver := [] |}.

Definition example_cfg (default : string) : cfg :=
  {| c_sections :=
       [ {| s_kind := KBack; s_name := "ns1_svc1_8080";
            s_servers := [("srv001", 0%N); ("srv002", 7%N)]; s_use := []; s_usedyn := []; s_default := [];
            s_authback := ["_auth_14415"]; s_userlists := ["ns1_basic"]; s_maps := ["/maps/id.map"];
            s_crtlists := []; s_files := ["/crt/a.pem"]; s_idmaps := ["/maps/id.map"];
            s_idsused := ["path01"]; s_useserver := ["srv002"] |};
         sec0 KBack "_auth_14415"; sec0 KBack "_error404";
         {| s_kind := KFront; s_name := "_front_http"; s_servers := []; s_use := [];
            s_usedyn := [{| d_maps := ["/maps/host.map"]; d_defaults := [] |}]; s_default := [default];
            s_authback := []; s_userlists := []; s_maps := ["/maps/host.map"]; s_crtlists := ["/maps/crt.list"];
            s_files := []; s_idmaps := []; s_idsused := []; s_useserver := [] |} ];
     c_userlists := ["ns1_basic"];
     c_maps := [("/maps/host.map", [("a.example#/", "ns1_svc1_8080")]); ("/maps/id.map", [("a.example#/", "path01")])];
     c_crtlists := [("/maps/crt.list", ["/crt/a.pem"])];
     c_files := ["/maps/host.map"; "/maps/id.map"; "/maps/crt.list"; "/crt/a.pem"];
     c_authbinds := [14415%N]; c_authids := [0%N]; c_authservers := [("_auth_14415", 14415%N)] |}.

Example wellformed_example : wellformed (example_cfg "_error404") = true.
Proof. vm_compute. reflexivity. Qed.

(* default_backend of a section that does not exist (the shape of the defect fixed in 0dcf616) *)
Example wellformed_rejects_dangling_default : wellformed (example_cfg "ns1_gone_8080") = false.
Proof. vm_compute. reflexivity. Qed.
