(* Proofs about Model/AuthExt.v (C18). *)
From Coq Require Import ZArith NArith List Bool Lia.
From HI Require Import Model.AuthExt.
Import ListNotations.

(* ------------------------------------------------------------------ *)
(* equality of configurations *)

Lemma name_eqb_eq : forall x y, name_eqb x y = true -> x = y.
Proof.
  intros [p|i] [q|j]; cbn; try discriminate.
  - intros H. apply Z.eqb_eq in H. now subst.
  - intros H. apply N.eqb_eq in H. now subst.
Qed.

Lemma opt_eqb_eq : forall A (e : A -> A -> bool),
  (forall x y, e x y = true -> x = y) -> forall x y, opt_eqb e x y = true -> x = y.
Proof.
  intros A e He [a|] [b|]; cbn; try discriminate; auto. intros H. f_equal. auto.
Qed.

Lemma auth_eqb_eq : forall a b, auth_eqb a b = true -> a = b.
Proof.
  intros [d1 n1 l1 t1] [d2 n2 l2 t2]. unfold auth_eqb. cbn.
  rewrite !andb_true_iff. intros [[[Hd Hn] Hl] Ht].
  apply Bool.eqb_prop in Hd. apply (opt_eqb_eq _ _ name_eqb_eq) in Hn.
  apply (opt_eqb_eq _ N.eqb (fun x y H => proj1 (N.eqb_eq x y) H)) in Hl.
  apply N.eqb_eq in Ht. now subst.
Qed.

(* ------------------------------------------------------------------ *)
(* running rules *)

Lemma exec_app : forall ok q l1 l2 st,
  exec ok q st (l1 ++ l2) =
  match exec ok q st l1 with None => None | Some st' => exec ok q st' l2 end.
Proof.
  induction l1 as [|r l1 IH]; intros l2 st; cbn; [reflexivity|].
  destruct (step ok q st r); [apply IH|reflexivity].
Qed.

Lemma exec_app_inv : forall ok q l1 l2 st st2,
  exec ok q st (l1 ++ l2) = Some st2 ->
  exists st1, exec ok q st l1 = Some st1 /\ exec ok q st1 l2 = Some st2.
Proof.
  intros ok q l1 l2 st st2. rewrite exec_app.
  destruct (exec ok q st l1) as [st1|]; [eauto|discriminate].
Qed.

(* if a list of rules made by flat_map lets the request through, so does the part made
   from each element *)
Lemma exec_flat_map_inv : forall A ok q (f : A -> list rule) l x st st2,
  In x l -> exec ok q st (flat_map f l) = Some st2 ->
  exists s1 s2, exec ok q s1 (f x) = Some s2.
Proof.
  intros A ok q f l x st st2 Hin H.
  apply in_split in Hin as (l1 & l2 & ->).
  rewrite flat_map_app in H. cbn in H.
  apply exec_app_inv in H as (s1 & _ & H).
  apply exec_app_inv in H as (s2 & H & _). eauto.
Qed.

(* the rules of one configuration under a condition that holds for the request *)
Lemma own_rules : forall ok q st st' a c,
  cond_holds c q = true -> skip_free a q ->
  exec ok q st (auth_rules a c) = Some st' ->
  a_deny a = false /\
  (a_name a = None \/ exists n, a_name a = Some n /\ ok n = true).
Proof.
  intros ok q st st' a c Hc Hs. unfold auth_rules.
  destruct (a_deny a) eqn:Hd.
  - cbn. unfold step, applies. cbn. rewrite Hc. cbn. discriminate.
  - destruct (a_name a) as [n|] eqn:Hn; [|intros _; split; auto].
    assert (Happ : forall x, applies {| r_act := x; r_cond := c; r_skip := a_allowed a |} q = true).
    { intros x. unfold applies. cbn. rewrite Hc. cbn.
      unfold skip_free in Hs. destruct (a_allowed a) as [p|]; [|reflexivity].
      apply negb_true_iff. destruct (existsb (N.eqb p) (q_under q)) eqn:E; [|reflexivity].
      apply existsb_exists in E as (y & Hy & Hpy). apply N.eqb_eq in Hpy. subst y. contradiction. }
    cbn. unfold step. rewrite !Happ. cbn.
    destruct (ok n) eqn:Hok; [|discriminate].
    intros _. split; [reflexivity|]. right. eauto.
Qed.

(* ------------------------------------------------------------------ *)
(* grouping, sorting, chunking *)

Lemma add_group_has : forall id a gs,
  exists ids, In (a, ids) (add_group id a gs) /\ In id ids.
Proof.
  induction gs as [|[b ids] r IH]; cbn.
  - exists [id]. split; [now left|now left].
  - destruct (auth_eqb a b) eqn:E.
    + apply auth_eqb_eq in E. subst b. exists (ids ++ [id]). split; [now left|].
      apply in_or_app. right. now left.
    + destruct IH as (ids' & H1 & H2). exists ids'. split; [now right|assumption].
Qed.

Lemma add_group_keeps : forall id a gs b ids x,
  In (b, ids) gs -> In x ids ->
  exists ids', In (b, ids') (add_group id a gs) /\ In x ids'.
Proof.
  induction gs as [|[c cs] r IH]; cbn; intros b ids x Hin Hx; [contradiction|].
  destruct (auth_eqb a c) eqn:E.
  - destruct Hin as [H|H].
    + inversion H; subst. exists (ids ++ [id]). split; [now left|]. apply in_or_app. now left.
    + exists ids. split; [now right|assumption].
  - destruct Hin as [H|H].
    + inversion H; subst. exists ids. split; [now left|assumption].
    + destruct (IH b ids x H Hx) as (ids' & H1 & H2). exists ids'. split; [now right|assumption].
Qed.

Lemma groups_fold_keeps : forall cfgs gs b ids x,
  In (b, ids) gs -> In x ids ->
  exists ids', In (b, ids') (fold_left (fun gs p => add_group (fst p) (snd p) gs) cfgs gs) /\ In x ids'.
Proof.
  induction cfgs as [|[i a] r IH]; cbn; intros gs b ids x Hin Hx; [eauto|].
  destruct (add_group_keeps i a gs b ids x Hin Hx) as (ids' & H1 & H2).
  eapply IH; eauto.
Qed.

(* every path sits in the group of its own configuration *)
Lemma groups_in : forall cfgs id a, In (id, a) cfgs ->
  exists ids, In (a, ids) (groups cfgs) /\ In id ids.
Proof.
  unfold groups. intros cfgs. generalize (@nil (auth * list N)).
  induction cfgs as [|[i b] r IH]; cbn; intros gs id a Hin; [contradiction|].
  destruct Hin as [H|H].
  - inversion H; subst. destruct (add_group_has id a gs) as (ids & H1 & H2).
    eapply groups_fold_keeps; eauto.
  - eapply IH; eauto.
Qed.

Lemma insert_n_in : forall x y l, In x (insert_n y l) <-> x = y \/ In x l.
Proof.
  induction l as [|z r IH]; cbn.
  - split; [intros [H|[]]; auto|intros [H|[]]; auto].
  - destruct (y <=? z)%N; cbn.
    + split; [intros [H|H]; auto|intros [H|H]; auto].
    + rewrite IH. split; [intros [H|[H|H]]; auto|intros [H|[H|H]]; auto].
Qed.

Lemma sort_n_in : forall x l, In x (sort_n l) <-> In x l.
Proof.
  induction l as [|y r IH]; cbn; [reflexivity|].
  rewrite insert_n_in, IH. split; [intros [H|H]; auto|intros [H|H]; auto].
Qed.

Lemma chunks_aux_cover : forall n, (0 < n)%nat -> forall fuel l x,
  (length l <= fuel)%nat -> In x l ->
  exists c, In c (chunks_aux fuel n l) /\ In x c.
Proof.
  intros n Hn. induction fuel as [|f IH]; intros l x Hlen Hx.
  - destruct l; [contradiction|cbn in Hlen; lia].
  - destruct l as [|y r]; [contradiction|].
    cbn [chunks_aux].
    rewrite <- (firstn_skipn n (y :: r)) in Hx. apply in_app_or in Hx as [Hx|Hx].
    + exists (firstn n (y :: r)). split; [now left|assumption].
    + destruct (IH (skipn n (y :: r)) x) as (c & Hc & Hxc); [|assumption|].
      * rewrite skipn_length. cbn [length] in *. lia.
      * exists c. split; [now right|assumption].
Qed.

Lemma chunks_cover : forall n l x, (0 < n)%nat -> In x l ->
  exists c, In c (chunks n l) /\ In x c.
Proof. intros. unfold chunks. apply chunks_aux_cover; auto. Qed.

(* whatever the grouping needs, one of the conditions of the group holds for its paths *)
Lemma group_conds_cover : forall need ids q, In (q_id q) ids ->
  exists c, In c (group_conds need ids) /\ cond_holds c q = true.
Proof.
  intros need ids q Hin. unfold group_conds. destruct need.
  - destruct (chunks_cover max_tokens (sort_n ids) (q_id q)) as (c & Hc & Hx).
    + unfold max_tokens. lia.
    + now apply sort_n_in.
    + exists (CIds c). split; [now apply in_map|]. cbn.
      apply existsb_exists. exists (q_id q). split; [assumption|apply N.eqb_refl].
  - exists CAll. split; [now left|reflexivity].
Qed.

(* the rules of a backend let a request of path `id` through only if its own
   configuration does *)
Lemma backend_rules_own : forall cfgs id a ok q st st',
  In (id, a) cfgs -> q_id q = id -> skip_free a q ->
  exec ok q st (backend_rules cfgs) = Some st' ->
  a_deny a = false /\ (a_name a = None \/ exists n, a_name a = Some n /\ ok n = true).
Proof.
  intros cfgs id a ok q st st' Hin Hq Hs H.
  destruct (groups_in cfgs id a Hin) as (ids & Hg & Hid).
  unfold backend_rules in H.
  destruct (exec_flat_map_inv _ ok q _ _ _ _ _ Hg H) as (s1 & s2 & H1).
  unfold group_rules in H1. cbn [fst snd] in H1.
  rewrite <- Hq in Hid.
  destruct (group_conds_cover (1 <? length (groups cfgs))%nat ids q Hid) as (c & Hc & Hh).
  destruct (exec_flat_map_inv _ ok q _ _ _ _ _ Hc H1) as (s3 & s4 & H2).
  eapply own_rules; eauto.
Qed.

(* ------------------------------------------------------------------ *)
(* decisions *)

Definition prot (a : auth) : Prop := a_deny a = true \/ exists n, a_name a = Some n.

Lemma set_auth_external_prot : forall lua used px u tag px' a,
  set_auth_external lua used px u tag = (px', a) ->
  a_allowed a = None /\
  (a = deny_cfg \/ (a_deny a = false /\ exists p, a_name a = Some (NAuth p))).
Proof.
  intros lua used px u tag px' a. unfold set_auth_external.
  destruct (negb lua); [intros [= _ <-]; cbn; auto|].
  destruct (resolve u) as [t|]; [|intros [= _ <-]; cbn; auto].
  destruct (acquire_retry used px t) as [[p|] px1]; intros [= _ <-]; cbn; auto.
  split; auto. right. eauto.
Qed.

Lemma prot_deny_cfg : prot deny_cfg.
Proof. left. reflexivity. Qed.

Lemma prot_set_deny : forall a, prot (set_deny a).
Proof. left. reflexivity. Qed.

Lemma oauth_step_prot : forall lua d a, prot a -> prot (oauth_step lua d a).
Proof.
  intros lua d a Ha. unfold oauth_step.
  destruct (d_oauth d) as [o|]; [|assumption].
  destruct (negb (o_impl o)); [apply prot_set_deny|].
  destruct (negb lua); [apply prot_set_deny|].
  destruct (d_url d); [assumption|].
  destruct (negb (o_prefix_ok o)); [apply prot_set_deny|].
  destruct (o_backend o); [|apply prot_set_deny].
  right. cbn. eauto.
Qed.

Lemma oauth_only_prot : forall lua d a o, d_url d = None -> d_oauth d = Some o ->
  prot (oauth_step lua d a).
Proof.
  intros lua d a o Hu Ho. unfold oauth_step. rewrite Ho, Hu.
  destruct (negb (o_impl o)); [apply prot_set_deny|].
  destruct (negb lua); [apply prot_set_deny|].
  destruct (negb (o_prefix_ok o)); [apply prot_set_deny|].
  destruct (o_backend o); [|apply prot_set_deny].
  right. cbn. eauto.
Qed.

Lemma auth_external_step_prot : forall lua fe used px d px' a,
  auth_external_step lua fe used px d = (px', a) ->
  d_url d <> None -> negb (is_frontend (d_place d) && fe) = true -> prot a.
Proof.
  intros lua fe used px d px' a. unfold auth_external_step.
  destruct (d_url d) as [[u tag]|]; [|congruence].
  intros H _ Hfe.
  destruct (d_place d); cbn in Hfe.
  - apply set_auth_external_prot in H as (_ & [->|(Hd & p & Hn)]); [apply prot_deny_cfg|right; eauto].
  - destruct fe; [discriminate|]. inversion H; subst. apply prot_deny_cfg.
  - apply set_auth_external_prot in H as (_ & [->|(Hd & p & Hn)]); [apply prot_deny_cfg|right; eauto].
Qed.

(* every path of the loop got the result of one auth_external_step *)
Lemma auth_external_loop_spec : forall lua fe used0 ds px done px' l,
  auth_external_loop lua fe used0 px done ds = (px', l) ->
  length l = length ds /\
  forall d a, In (d, a) (combine ds l) ->
    exists used px0 px1, auth_external_step lua (fe d) used px0 d = (px1, a).
Proof.
  intros lua fe used0. induction ds as [|d r IH]; intros px done px' l; cbn.
  - intros [= _ <-]. split; [reflexivity|]. intros d a [].
  - destruct (auth_external_step lua (fe d) (used0 ++ ports_of done) px d) as [px1 a0] eqn:E1.
    destruct (auth_external_loop lua fe used0 px1 (done ++ [a0]) r) as [px2 l0] eqn:E2.
    intros [= _ <-]. destruct (IH _ _ _ _ E2) as (Hlen & Hall).
    split; [cbn; now rewrite Hlen|].
    intros d' a' [H|H].
    + inversion H; subst. eauto.
    + now apply Hall.
Qed.

Lemma in_combine_exists : forall A B (l1 : list A) (l2 : list B) x,
  length l2 = length l1 -> In x l1 -> exists y, In (x, y) (combine l1 l2).
Proof.
  induction l1 as [|a r IH]; intros l2 x Hlen Hin; [contradiction|].
  destruct l2 as [|b l2]; [discriminate|]. cbn in Hlen. injection Hlen as Hlen.
  destruct Hin as [->|Hin].
  - exists b. now left.
  - destruct (IH l2 x Hlen Hin) as (y & Hy). exists y. now right.
Qed.

(* what process_backend leaves on each path *)
Lemma process_backend_spec : forall lua fe used0 px ds px' cfgs d,
  process_backend lua fe used0 px ds = (px', cfgs) -> In d ds ->
  exists a0 used pxa pxb,
    In (d_id d, oauth_step lua d a0) cfgs /\
    auth_external_step lua (fe d) used pxa d = (pxb, a0).
Proof.
  intros lua fe used0 px ds px' cfgs d. unfold process_backend.
  destruct (auth_external_loop lua fe used0 px [] ds) as [px1 l] eqn:E.
  intros [= _ <-] Hin.
  destruct (auth_external_loop_spec _ _ _ _ _ _ _ _ E) as (Hlen & Hall).
  destruct (in_combine_exists _ _ ds l d Hlen Hin) as (a0 & Ha0).
  destruct (Hall d a0 Ha0) as (used & pxa & pxb & Hs).
  exists a0, used, pxa, pxb. split; [|assumption].
  apply (in_map (fun p => (d_id (fst p), oauth_step lua (fst p) (snd p)))) in Ha0. exact Ha0.
Qed.

(* C18, backend side, decision: a path in the charge of its backend ends with the deny
   marker or an auth backend *)
Lemma backend_decision : forall lua fe used0 px ds px' cfgs d,
  process_backend lua fe used0 px ds = (px', cfgs) -> In d ds ->
  backend_in_charge fe d = true ->
  exists a, In (d_id d, a) cfgs /\ prot a.
Proof.
  intros lua fe used0 px ds px' cfgs d Hp Hin Hc.
  destruct (process_backend_spec _ _ _ _ _ _ _ _ Hp Hin) as (a0 & used & pxa & pxb & Hcfg & Hs).
  eexists. split; [exact Hcfg|].
  unfold backend_in_charge in Hc.
  destruct (d_url d) as [ut|] eqn:Hu.
  - apply oauth_step_prot. eapply auth_external_step_prot; eauto. congruence.
  - destruct (d_oauth d) as [o|] eqn:Ho; [|discriminate].
    eapply oauth_only_prot; eauto.
Qed.

(* C18, backend side, the rules: whatever stands before and after the block of the backend,
   a request of that path is served only if the path has an auth backend and its
   authentication service accepted the client *)
Lemma backend_fail_closed : forall lua fe used0 px ds px' cfgs d,
  process_backend lua fe used0 px ds = (px', cfgs) -> In d ds ->
  backend_in_charge fe d = true ->
  exists a, In (d_id d, a) cfgs /\ (a_deny a = true \/ exists n, a_name a = Some n) /\
    forall ok st pre post q, q_id q = d_id d -> skip_free a q ->
      served ok q st (pre ++ backend_rules cfgs ++ post) = true ->
      a_deny a = false /\ exists n, a_name a = Some n /\ ok n = true.
Proof.
  intros lua fe used0 px ds px' cfgs d Hp Hin Hc.
  destruct (backend_decision _ _ _ _ _ _ _ _ Hp Hin Hc) as (a & Ha & Hprot).
  exists a. split; [assumption|]. split; [exact Hprot|].
  intros ok st pre post q Hq Hs Hserved. unfold served in Hserved.
  destruct (exec ok q st (pre ++ backend_rules cfgs ++ post)) as [st2|] eqn:E; [|discriminate].
  apply exec_app_inv in E as (s1 & _ & E). apply exec_app_inv in E as (s2 & E & _).
  destruct (backend_rules_own _ _ _ _ _ _ _ Ha Hq Hs E) as (Hd & [Hn|Hn]).
  - destruct Hprot as [Hx|(n & Hx)]; congruence.
  - split; assumption.
Qed.

(* ------------------------------------------------------------------ *)
(* frontend side *)

Lemma host_loop_spec : forall lua used0 u tag keys px done px' l k,
  host_loop lua used0 px done u tag keys = (px', l) -> In k keys ->
  exists a, In (k, Some a) l /\ a_allowed a = None /\ prot a.
Proof.
  intros lua used0 u tag. induction keys as [|k0 r IH]; intros px done px' l k; cbn; [intros _ []|].
  destruct (set_auth_external lua (used0 ++ ports_of done) px u tag) as [px1 a0] eqn:E1.
  destruct (host_loop lua used0 px1 (done ++ [a0]) u tag r) as [px2 l0] eqn:E2.
  intros [= _ <-] [->|Hin].
  - exists a0. split; [now left|].
    apply set_auth_external_prot in E1 as (Hal & [->|(Hd & p & Hn)]).
    + split; [reflexivity|apply prot_deny_cfg].
    + split; [assumption|right; eauto].
  - destruct (IH _ _ _ _ _ E2 Hin) as (a & Ha & Hr). exists a. split; [now right|assumption].
Qed.

Lemma frontend_rules_own : forall hcfgs k a ok q st st',
  In (k, Some a) hcfgs -> q_path q = k -> q_exact q = true -> skip_free a q ->
  exec ok q st (frontend_rules hcfgs) = Some st' ->
  a_deny a = false /\ (a_name a = None \/ exists n, a_name a = Some n /\ ok n = true).
Proof.
  intros hcfgs k a ok q st st' Hin Hp He Hs H. unfold frontend_rules in H.
  destruct (exec_flat_map_inv _ ok q _ _ _ _ _ Hin H) as (s1 & s2 & H1). cbn in H1.
  eapply own_rules; eauto. cbn. rewrite He, Hp. cbn. apply N.eqb_refl.
Qed.

(* the host mapper answered "frontend" and an auth-url: every path of the host gets the deny
   marker or an auth backend, and a request whose req.base is literally the key of one of
   these paths is served only if that auth service accepted the client *)
Lemma frontend_fail_closed_exact : forall lua used0 px u tag keys px' hcfgs k,
  process_host lua used0 px PlFrontend (Some (u, tag)) keys = (px', hcfgs) -> In k keys ->
  exists a, In (k, Some a) hcfgs /\ (a_deny a = true \/ exists n, a_name a = Some n) /\
    forall ok st pre post q, q_path q = k -> q_exact q = true ->
      served ok q st (pre ++ frontend_rules hcfgs ++ post) = true ->
      a_deny a = false /\ exists n, a_name a = Some n /\ ok n = true.
Proof.
  intros lua used0 px u tag keys px' hcfgs k Hp Hin. cbn in Hp.
  destruct (host_loop_spec _ _ _ _ _ _ _ _ _ _ Hp Hin) as (a & Ha & Hal & Hprot).
  exists a. split; [assumption|]. split; [exact Hprot|].
  intros ok st pre post q Hq He Hserved. unfold served in Hserved.
  destruct (exec ok q st (pre ++ frontend_rules hcfgs ++ post)) as [st2|] eqn:E; [|discriminate].
  apply exec_app_inv in E as (s1 & _ & E). apply exec_app_inv in E as (s2 & E & _).
  assert (Hs : skip_free a q) by (unfold skip_free; now rewrite Hal).
  destruct (frontend_rules_own _ _ _ _ _ _ _ Ha Hq He Hs E) as (Hd & [Hn|Hn]).
  - destruct Hprot as [Hx|(n & Hx)]; congruence.
  - split; assumption.
Qed.

(* ------------------------------------------------------------------ *)
(* both sides: one declared path, its host and its backend *)

Section Site.
  (* the host of the path, processed first (UpdateHostConfig), then its backend *)
  Variables (lua : bool) (hused bused : list Z) (px0 : proxy).
  Variables (hplace : placement) (hurl : option (url_in * N)) (keys : list N) (ds : list pdecl).

  Definition site_host := process_host lua hused px0 hplace hurl keys.
  (* hasFrontendAuthExternal for the paths of this backend that belong to that host *)
  Definition site_fe (d : pdecl) : bool := fe_configured hplace hurl && existsb (N.eqb (d_key d)) keys.
  Definition site_backend := process_backend lua site_fe bused (fst site_host) ds.
  Definition site_rules (mid post : list rule) : list rule :=
    frontend_rules (snd site_host) ++ mid ++ backend_rules (snd site_backend) ++ post.
End Site.

(* the full-strength statement is false for the frontend placement: the rule of the frontend
   only holds when req.base is literally the key of the path *)
Definition good_url : url_in :=
  {| u_parse := true; u_proto := PHttp; u_dns := true; u_port := false; u_ns := false;
     u_xns := false; u_found := false; u_target := 1 |}.
Definition px_default : proxy := {| px_start := 14415; px_end := 14499; px_binds := [] |}.
Definition fe_path : pdecl :=
  {| d_id := 1; d_url := Some (good_url, 1%N); d_place := PlFrontend; d_host := 1; d_key := 7;
     d_oauth := None |}.

Lemma fail_closed_refuted :
  exists lua hused bused px0 hplace hurl keys ds d q,
    In d ds /\ declared d = true /\ In (d_key d) keys /\
    q_path q = d_key d /\ q_id q = d_id d /\ q_under q = [] /\
    served (fun _ => false) q false (site_rules lua hused bused px0 hplace hurl keys ds [] []) = true.
Proof.
  exists true, [], [], px_default, PlFrontend, (Some (good_url, 1%N)), [7%N], [fe_path], fe_path,
    {| q_path := 7; q_id := 1; q_exact := false; q_under := [] |}.
  repeat split; try (now left); vm_compute; reflexivity.
Qed.

(* the strongest true variant: the path is in the charge of its backend, or req.base is
   literally its key *)
Lemma fail_closed_under_H : forall lua hused bused px0 hplace hurl keys ds d,
  In d ds -> declared d = true -> In (d_key d) keys ->
  forall ok st mid post q,
    q_path q = d_key d -> q_id q = d_id d -> q_under q = [] ->
    (backend_in_charge (site_fe hplace hurl keys) d = true \/ q_exact q = true) ->
    served ok q st (site_rules lua hused bused px0 hplace hurl keys ds mid post) = true ->
    exists n, ok n = true /\
      ((exists a, In (d_id d, a) (snd (site_backend lua hused bused px0 hplace hurl keys ds)) /\ a_name a = Some n) \/
       (exists a, In (d_key d, Some a) (snd (site_host lua hused px0 hplace hurl keys)) /\ a_name a = Some n)).
Proof.
  intros lua hused bused px0 hplace hurl keys ds d Hin Hdecl Hkey ok st mid post q Hqp Hqi Hqu HH Hserved.
  unfold site_rules in Hserved.
  destruct (backend_in_charge (site_fe hplace hurl keys) d) eqn:Hc.
  - (* the backend holds the rules *)
    destruct (site_backend lua hused bused px0 hplace hurl keys ds) as [pxb cfgs] eqn:Eb.
    unfold site_backend in Eb.
    destruct (backend_fail_closed _ _ _ _ _ _ _ _ Eb Hin Hc) as (a & Ha & _ & Hrules).
    assert (Hs : skip_free a q).
    { unfold skip_free. destruct (a_allowed a); [rewrite Hqu; intros []|exact I]. }
    cbn [snd] in Hserved.
    replace (frontend_rules (snd (site_host lua hused px0 hplace hurl keys)) ++ mid ++ backend_rules cfgs ++ post)
      with ((frontend_rules (snd (site_host lua hused px0 hplace hurl keys)) ++ mid) ++ backend_rules cfgs ++ post)
      in Hserved by (now rewrite <- app_assoc).
    destruct (Hrules ok st _ post q Hqi Hs Hserved) as (_ & n & Hn & Hok).
    exists n. split; [assumption|]. left. exists a. cbn [snd]. split; assumption.
  - (* the frontend took charge: the host mapper said frontend + url *)
    destruct HH as [HH|Hex]; [discriminate|].
    unfold backend_in_charge in Hc.
    destruct (d_url d) as [ut|] eqn:Hu.
    + apply negb_false_iff, andb_true_iff in Hc as (Hpl & Hfe).
      unfold site_fe in Hfe. apply andb_true_iff in Hfe as (Hconf & _).
      unfold fe_configured in Hconf.
      destruct hplace; try discriminate. destruct hurl as [[u tag]|]; [|discriminate].
      destruct (site_host lua hused px0 PlFrontend (Some (u, tag)) keys) as [pxh hcfgs] eqn:Eh.
      unfold site_host in Eh.
      destruct (frontend_fail_closed_exact _ _ _ _ _ _ _ _ _ Eh Hkey) as (a & Ha & _ & Hrules).
      cbn [snd] in Hserved.
      replace (frontend_rules hcfgs ++ mid ++
               backend_rules (snd (site_backend lua hused bused px0 PlFrontend (Some (u, tag)) keys ds)) ++ post)
        with ([] ++ frontend_rules hcfgs ++
              (mid ++ backend_rules (snd (site_backend lua hused bused px0 PlFrontend (Some (u, tag)) keys ds)) ++ post))
        in Hserved by reflexivity.
      destruct (Hrules ok st [] _ q Hqp Hex Hserved) as (_ & n & Hn & Hok).
      exists n. split; [assumption|]. right. exists a. cbn [snd]. split; assumption.
    + unfold declared in Hdecl. rewrite Hu in Hdecl.
      destruct (d_oauth d) eqn:Ho; discriminate.
Qed.

(* ------------------------------------------------------------------ *)
(* the hypotheses are satisfiable, the model computes what is meant *)

Definition bad_url : url_in :=
  {| u_parse := true; u_proto := PHttp; u_dns := false; u_port := false; u_ns := false;
     u_xns := false; u_found := false; u_target := 2 |}.
Definition oauth_ok : odecl := {| o_impl := true; o_prefix_ok := true; o_backend := Some 9%N; o_prefix := 1; o_tag := 5 |}.

(* the defect repaired by fixes/C18-oauth-authurl-reset.patch: oauth + an auth-url that fails *)
Example ex_oauth_bad_url :
  snd (process_backend true (fun _ => false) [] px_default
    [ {| d_id := 1; d_url := Some (bad_url, 1%N); d_place := PlBackend; d_host := 1; d_key := 1;
         d_oauth := Some oauth_ok |};
      {| d_id := 2; d_url := None; d_place := PlBackend; d_host := 1; d_key := 2; d_oauth := None |} ])
  = [ (1%N, deny_cfg); (2%N, auth0) ].
Proof. reflexivity. Qed.

(* three paths sharing a backend: auth backend, unprotected, dangling -> scoped rules *)
Example ex_shared_backend :
  backend_rules (snd (process_backend true (fun _ => false) [] px_default
    [ {| d_id := 1; d_url := Some (good_url, 1%N); d_place := PlBackend; d_host := 1; d_key := 1; d_oauth := None |};
      {| d_id := 2; d_url := None; d_place := PlBackend; d_host := 1; d_key := 2; d_oauth := None |};
      {| d_id := 3; d_url := Some (bad_url, 1%N); d_place := PlBackend; d_host := 1; d_key := 3; d_oauth := None |} ]))
  = [ {| r_act := AIntercept (NAuth 14415); r_cond := CIds [1%N]; r_skip := None |};
      {| r_act := AGuard; r_cond := CIds [1%N]; r_skip := None |};
      {| r_act := ADeny; r_cond := CIds [3%N]; r_skip := None |} ].
Proof. reflexivity. Qed.

Example ex_under_H_hyps :
  In fe_path [fe_path] /\ declared fe_path = true /\ In (d_key fe_path) [7%N] /\
  backend_in_charge (site_fe PlBackend None [7%N]) fe_path = true.
Proof. repeat split; try (now left); reflexivity. Qed.

Example ex_exhausted :
  snd (process_backend true (fun _ => false) []
         {| px_start := 14420; px_end := 14410; px_binds := [] |}
    [ {| d_id := 1; d_url := Some (good_url, 1%N); d_place := PlBackend; d_host := 1; d_key := 1; d_oauth := None |} ])
  = [ (1%N, deny_cfg) ].
Proof. reflexivity. Qed.

(* ------------------------------------------------------------------ *)
(* the auth proxy: a name handed to a path stays bound to the service of its own auth-url *)

From Coq Require Import Sorting.Sorted.

Definition bports (bs : list bind) : list Z := map b_port bs.
Definition sorted_px (px : proxy) : Prop := StronglySorted Z.lt (bports (px_binds px)).
Definition mkbind (p : Z) (t : N) : bind := {| b_port := p; b_target := t |}.

Lemma scan_inl : forall t bs fp p, scan t fp bs = inl p -> In (mkbind p t) bs.
Proof.
  induction bs as [|b r IH]; cbn; intros fp p H; [discriminate|].
  destruct (N.eqb (b_target b) t) eqn:E.
  - apply N.eqb_eq in E. inversion H; subst. left. destruct b; reflexivity.
  - right. eapply IH; eauto.
Qed.

Lemma scan_below : forall t bs fp fp', (forall b, In b bs -> fp < b_port b)%Z ->
  scan t fp bs = inr fp' -> fp' = fp.
Proof.
  induction bs as [|b r IH]; cbn; intros fp fp' Hlt H; [now inversion H|].
  destruct (N.eqb (b_target b) t); [discriminate|].
  assert (fp <> b_port b) by (specialize (Hlt b (or_introl eq_refl)); lia).
  destruct (Z.eqb_spec fp (b_port b)); [contradiction|].
  apply IH; auto.
Qed.

Lemma scan_fresh : forall t bs fp fp', StronglySorted Z.lt (bports bs) ->
  scan t fp bs = inr fp' -> (fp <= fp')%Z /\ ~ In fp' (bports bs).
Proof.
  induction bs as [|b r IH]; cbn; intros fp fp' Hs H.
  - inversion H; subst. split; [lia|tauto].
  - destruct (N.eqb (b_target b) t); [discriminate|].
    apply StronglySorted_inv in Hs as (Hs & Hall).
    destruct (Z.eqb_spec fp (b_port b)) as [->|Hne].
    + destruct (IH _ _ Hs H) as (Hle & Hnin). split; [lia|]. intros [Hx|Hx]; [lia|contradiction].
    + destruct (Z.lt_ge_cases fp (b_port b)) as [Hlt|Hge].
      * (* below this port, hence below all the following ones *)
        assert (fp' = fp).
        { eapply scan_below; [|exact H]. intros c Hc.
          rewrite Forall_forall in Hall. specialize (Hall (b_port c) (in_map b_port _ _ Hc)). lia. }
        subst. split; [lia|]. intros [Hx|Hx]; [lia|].
        rewrite Forall_forall in Hall. specialize (Hall fp Hx). lia.
      * destruct (IH _ _ Hs H) as (Hle & Hnin). split; [lia|]. intros [Hx|Hx]; [lia|contradiction].
Qed.

Lemma insert_bind_in : forall b bs x, In x (insert_bind b bs) <-> x = b \/ In x bs.
Proof.
  induction bs as [|c r IH]; cbn; intros x.
  - split; [intros [H|[]]; auto|intros [H|[]]; auto].
  - destruct (b_port b <? b_port c)%Z; cbn.
    + split; [intros [H|H]; auto|intros [H|H]; auto].
    + rewrite IH. split; [intros [H|[H|H]]; auto|intros [H|[H|H]]; auto].
Qed.

Lemma insert_bind_sorted : forall b bs, StronglySorted Z.lt (bports bs) ->
  ~ In (b_port b) (bports bs) -> StronglySorted Z.lt (bports (insert_bind b bs)).
Proof.
  induction bs as [|c r IH]; cbn; intros Hs Hnin.
  - constructor; constructor.
  - apply StronglySorted_inv in Hs as (Hs & Hall).
    destruct (Z.ltb_spec (b_port b) (b_port c)).
    + cbn. constructor; [constructor; assumption|].
      constructor; [assumption|]. rewrite Forall_forall in *. intros y Hy. specialize (Hall y Hy). lia.
    + cbn. constructor; [apply IH; [assumption|intros Hx; apply Hnin; right; exact Hx]|].
      rewrite Forall_forall in *. intros y Hy.
      apply in_map_iff in Hy as (x & <- & Hx). apply insert_bind_in in Hx as [->|Hx].
      * assert (b_port b <> b_port c) by (intros Hx; apply Hnin; left; auto). lia.
      * apply Hall. now apply in_map.
Qed.

Lemma acquire_spec : forall px t p px', sorted_px px -> acquire px t = Some (p, px') ->
  sorted_px px' /\ In (mkbind p t) (px_binds px') /\
  forall b, In b (px_binds px) -> In b (px_binds px').
Proof.
  intros px t p px' Hs. unfold acquire.
  destruct (scan t (px_start px) (px_binds px)) as [q|fp] eqn:E.
  - intros [= <- <-]. split; [assumption|]. split; [eapply scan_inl; eauto|auto].
  - destruct (px_end px <? fp)%Z; [discriminate|]. intros [= <- <-].
    destruct (scan_fresh _ _ _ _ Hs E) as (_ & Hnin).
    split; [|split].
    + unfold sorted_px. cbn. apply insert_bind_sorted; assumption.
    + cbn. apply insert_bind_in. now left.
    + intros b Hb. cbn. apply insert_bind_in. now right.
Qed.

Lemma filter_sorted : forall f bs, StronglySorted Z.lt (bports bs) ->
  StronglySorted Z.lt (bports (filter f bs)).
Proof.
  induction bs as [|c r IH]; cbn; intros Hs; [constructor|].
  apply StronglySorted_inv in Hs as (Hs & Hall).
  destruct (f c); cbn; [|auto].
  constructor; [auto|]. rewrite Forall_forall in *. intros y Hy.
  apply in_map_iff in Hy as (x & <- & Hx). apply filter_In in Hx as (Hx & _).
  apply Hall. now apply in_map.
Qed.

Lemma cleanup_spec : forall used px, sorted_px px ->
  sorted_px (cleanup used px) /\
  forall b, In b (px_binds px) -> In (b_port b) used -> In b (px_binds (cleanup used px)).
Proof.
  intros used px Hs. split; [unfold sorted_px; cbn; now apply filter_sorted|].
  intros b Hb Hu. cbn. apply filter_In. split; [assumption|].
  apply existsb_exists. exists (b_port b). split; [assumption|apply Z.eqb_refl].
Qed.

Lemma acquire_retry_spec : forall used px t r px', sorted_px px ->
  acquire_retry used px t = (r, px') ->
  sorted_px px' /\
  (forall b, In b (px_binds px) -> In (b_port b) used -> In b (px_binds px')) /\
  (forall p, r = Some p -> In (mkbind p t) (px_binds px')).
Proof.
  intros used px t r px' Hs. unfold acquire_retry.
  destruct (acquire px t) as [[p1 px1]|] eqn:E1.
  - intros [= <- <-]. destruct (acquire_spec _ _ _ _ Hs E1) as (H1 & H2 & H3).
    split; [assumption|]. split; [auto|]. intros p [= <-]. assumption.
  - destruct (cleanup_spec used px Hs) as (Hc & Hk).
    destruct (acquire (cleanup used px) t) as [[p2 px2]|] eqn:E2.
    + intros [= <- <-]. destruct (acquire_spec _ _ _ _ Hc E2) as (H1 & H2 & H3).
      split; [assumption|]. split; [auto|]. intros p [= <-]. assumption.
    + intros [= <- <-]. split; [assumption|]. split; [assumption|]. intros p [=].
Qed.

Lemma set_auth_external_sound : forall lua used px u tag px' a, sorted_px px ->
  set_auth_external lua used px u tag = (px', a) ->
  sorted_px px' /\
  (forall b, In b (px_binds px) -> In (b_port b) used -> In b (px_binds px')) /\
  (forall n, a_name a = Some n -> exists p t, n = NAuth p /\ resolve u = Some t /\ In (mkbind p t) (px_binds px')).
Proof.
  intros lua used px u tag px' a Hs. unfold set_auth_external.
  destruct (negb lua); [intros [= <- <-]; repeat split; auto; intros n [=]|].
  destruct (resolve u) as [t|] eqn:Er; [|intros [= <- <-]; repeat split; auto; intros n [=]].
  destruct (acquire_retry used px t) as [[p|] px1] eqn:E; intros [= <- <-];
    destruct (acquire_retry_spec _ _ _ _ _ Hs E) as (H1 & H2 & H3).
  - split; [assumption|]. split; [assumption|]. cbn. intros n [= <-].
    exists p, t. split; [reflexivity|]. split; [reflexivity|]. now apply H3.
  - split; [assumption|]. split; [assumption|]. cbn. intros n [=].
Qed.

Lemma ports_of_app : forall l1 l2, ports_of (l1 ++ l2) = ports_of l1 ++ ports_of l2.
Proof. intros. unfold ports_of. apply flat_map_app. Qed.

Lemma auth_external_step_sound : forall lua fe used px d px' a, sorted_px px ->
  auth_external_step lua fe used px d = (px', a) ->
  sorted_px px' /\
  (forall b, In b (px_binds px) -> In (b_port b) used -> In b (px_binds px')) /\
  (forall n, a_name a = Some n -> exists p u tag t, n = NAuth p /\ d_url d = Some (u, tag) /\
      resolve u = Some t /\ In (mkbind p t) (px_binds px')).
Proof.
  intros lua fe used px d px' a Hs. unfold auth_external_step.
  destruct (d_url d) as [[u tag]|]; [|intros [= <- <-]; repeat split; auto; intros n [=]].
  destruct (d_place d).
  - intros H. destruct (set_auth_external_sound _ _ _ _ _ _ _ Hs H) as (H1 & H2 & H3).
    split; [assumption|]. split; [assumption|]. intros n Hn.
    destruct (H3 n Hn) as (p & t & -> & Hr & Hin). exists p, u, tag, t. auto.
  - intros [= <- <-]. repeat split; auto. intros n. destruct fe; cbn; intros [=].
  - intros H. destruct (set_auth_external_sound _ _ _ _ _ _ _ Hs H) as (H1 & H2 & H3).
    split; [assumption|]. split; [assumption|]. intros n Hn.
    destruct (H3 n Hn) as (p & t & -> & Hr & Hin). exists p, u, tag, t. auto.
Qed.

Lemma auth_external_loop_sound : forall lua fe used0 ds px done px' l, sorted_px px ->
  auth_external_loop lua fe used0 px done ds = (px', l) ->
  sorted_px px' /\
  (forall b, In b (px_binds px) -> In (b_port b) (used0 ++ ports_of done) -> In b (px_binds px')) /\
  (forall d a n, In (d, a) (combine ds l) -> a_name a = Some n ->
     exists p u tag t, n = NAuth p /\ d_url d = Some (u, tag) /\ resolve u = Some t /\
       In (mkbind p t) (px_binds px')).
Proof.
  intros lua fe used0. induction ds as [|d r IH]; intros px done px' l Hs; cbn.
  - intros [= <- <-]. repeat split; auto. intros d a n [].
  - destruct (auth_external_step lua (fe d) (used0 ++ ports_of done) px d) as [px1 a0] eqn:E1.
    destruct (auth_external_loop lua fe used0 px1 (done ++ [a0]) r) as [px2 l0] eqn:E2.
    intros [= <- <-].
    destruct (auth_external_step_sound _ _ _ _ _ _ _ Hs E1) as (Hs1 & Hk1 & Hn1).
    destruct (IH _ _ _ _ Hs1 E2) as (Hs2 & Hk2 & Hn2).
    assert (Hmono : forall z, In z (used0 ++ ports_of done) -> In z (used0 ++ ports_of (done ++ [a0]))).
    { intros z Hz. rewrite ports_of_app. apply in_app_or in Hz as [Hz|Hz]; apply in_or_app; [now left|right].
      apply in_or_app. now left. }
    split; [assumption|]. split.
    + intros b Hb Hu. apply Hk2; [apply Hk1; assumption|apply Hmono; assumption].
    + intros d' a' n [H|H] Hn.
      * inversion H; subst d' a'. destruct (Hn1 n Hn) as (p & u & tag & t & -> & Hu & Hr & Hin).
        exists p, u, tag, t. repeat split; auto. apply Hk2; [assumption|].
        rewrite ports_of_app. apply in_or_app. right. apply in_or_app. right.
        unfold ports_of. cbn. rewrite Hn. now left.
      * eapply Hn2; eauto.
Qed.

(* every "_auth_<port>" name on a path of the backend is, in the final auth proxy, bound to
   the service its own auth-url resolves to *)
Lemma backend_auth_service_sound : forall lua fe used0 px ds px' cfgs id a p, sorted_px px ->
  process_backend lua fe used0 px ds = (px', cfgs) ->
  In (id, a) cfgs -> a_name a = Some (NAuth p) ->
  sorted_px px' /\
  exists d u tag t, In d ds /\ d_id d = id /\ d_url d = Some (u, tag) /\ resolve u = Some t /\
    In (mkbind p t) (px_binds px').
Proof.
  intros lua fe used0 px ds px' cfgs id a p Hs. unfold process_backend.
  destruct (auth_external_loop lua fe used0 px [] ds) as [px1 l] eqn:E.
  intros [= <- <-] Hin Hn.
  destruct (auth_external_loop_sound _ _ _ _ _ _ _ _ Hs E) as (Hs1 & _ & Hall).
  split; [assumption|].
  apply in_map_iff in Hin as ([d a0] & Heq & Hda). cbn in Heq. inversion Heq; subst id a.
  assert (Ha0 : a_name a0 = Some (NAuth p)).
  { revert Hn. unfold oauth_step. destruct (d_oauth d) as [o|]; [|auto].
    destruct (negb (o_impl o)); [cbn; auto|]. destruct (negb lua); [cbn; auto|].
    destruct (d_url d); [auto|]. destruct (negb (o_prefix_ok o)); [cbn; auto|].
    destruct (o_backend o); cbn; [intros [=]|auto]. }
  destruct (Hall d a0 _ Hda Ha0) as (q & u & tag & t & Hq & Hu & Hr & Hb).
  inversion Hq; subst q. exists d, u, tag, t. repeat split; auto.
  eapply in_combine_l; eauto.
Qed.

(* a port designates one bind *)
Lemma sorted_port_unique : forall bs b1 b2, StronglySorted Z.lt (bports bs) ->
  In b1 bs -> In b2 bs -> b_port b1 = b_port b2 -> b1 = b2.
Proof.
  induction bs as [|c r IH]; intros b1 b2 Hs H1 H2 Heq; [contradiction|].
  cbn in Hs. apply StronglySorted_inv in Hs as (Hs & Hall). rewrite Forall_forall in Hall.
  destruct H1 as [<-|H1], H2 as [<-|H2]; auto.
  - specialize (Hall (b_port b2) (in_map b_port _ _ H2)). lia.
  - specialize (Hall (b_port b1) (in_map b_port _ _ H1)). lia.
Qed.

Lemma host_loop_sound : forall lua used0 u tag keys px done px' l, sorted_px px ->
  host_loop lua used0 px done u tag keys = (px', l) ->
  sorted_px px' /\
  (forall b, In b (px_binds px) -> In (b_port b) (used0 ++ ports_of done) -> In b (px_binds px')) /\
  (forall k a n, In (k, Some a) l -> a_name a = Some n ->
     exists p t, n = NAuth p /\ resolve u = Some t /\ In (mkbind p t) (px_binds px')).
Proof.
  intros lua used0 u tag. induction keys as [|k0 r IH]; intros px done px' l Hs; cbn.
  - intros [= <- <-]. repeat split; auto. intros k a n [].
  - destruct (set_auth_external lua (used0 ++ ports_of done) px u tag) as [px1 a0] eqn:E1.
    destruct (host_loop lua used0 px1 (done ++ [a0]) u tag r) as [px2 l0] eqn:E2.
    intros [= <- <-].
    destruct (set_auth_external_sound _ _ _ _ _ _ _ Hs E1) as (Hs1 & Hk1 & Hn1).
    destruct (IH _ _ _ _ Hs1 E2) as (Hs2 & Hk2 & Hn2).
    assert (Hmono : forall z, In z (used0 ++ ports_of done) -> In z (used0 ++ ports_of (done ++ [a0]))).
    { intros z Hz. rewrite ports_of_app. apply in_app_or in Hz as [Hz|Hz]; apply in_or_app; [now left|right].
      apply in_or_app. now left. }
    split; [assumption|]. split.
    + intros b Hb Hu. apply Hk2; [apply Hk1; assumption|apply Hmono; assumption].
    + intros k a n [H|H] Hn.
      * inversion H; subst k a. destruct (Hn1 n Hn) as (p & t & -> & Hr & Hin).
        exists p, t. repeat split; auto. apply Hk2; [assumption|].
        rewrite ports_of_app. apply in_or_app. right. apply in_or_app. right.
        unfold ports_of. cbn. rewrite Hn. now left.
      * eapply Hn2; eauto.
Qed.

Lemma frontend_auth_service_sound : forall lua used0 px hplace hurl keys px' hcfgs k a n,
  sorted_px px -> process_host lua used0 px hplace hurl keys = (px', hcfgs) ->
  In (k, Some a) hcfgs -> a_name a = Some n ->
  sorted_px px' /\
  exists p u tag t, n = NAuth p /\ hplace = PlFrontend /\ hurl = Some (u, tag) /\
    resolve u = Some t /\ In (mkbind p t) (px_binds px').
Proof.
  intros lua used0 px hplace hurl keys px' hcfgs k a n Hs. unfold process_host.
  destruct hplace; try (intros [= <- <-] Hin; apply in_map_iff in Hin as (x & [=] & _)).
  destruct hurl as [[u tag]|]; [|intros [= <- <-] Hin; apply in_map_iff in Hin as (x & [=] & _)].
  intros H Hin Hn. destruct (host_loop_sound _ _ _ _ _ _ _ _ _ Hs H) as (Hs1 & _ & Hall).
  split; [assumption|]. destruct (Hall k a n Hin Hn) as (p & t & -> & Hr & Hb).
  exists p, u, tag, t. auto.
Qed.

Example ex_sorted_default : sorted_px px_default.
Proof. constructor. Qed.

(* binds referenced elsewhere (other backends, host paths: `used0`) survive the processing
   of a backend or of a host, clean up included *)
Lemma backend_keeps_referenced : forall lua fe used0 px ds px' cfgs b, sorted_px px ->
  process_backend lua fe used0 px ds = (px', cfgs) ->
  In b (px_binds px) -> In (b_port b) used0 -> In b (px_binds px').
Proof.
  intros lua fe used0 px ds px' cfgs b Hs. unfold process_backend.
  destruct (auth_external_loop lua fe used0 px [] ds) as [px1 l] eqn:E.
  intros [= <- <-] Hb Hu.
  destruct (auth_external_loop_sound _ _ _ _ _ _ _ _ Hs E) as (_ & Hk & _).
  apply Hk; [assumption|]. apply in_or_app. now left.
Qed.

Lemma host_keeps_referenced : forall lua used0 px hplace hurl keys px' hcfgs b, sorted_px px ->
  process_host lua used0 px hplace hurl keys = (px', hcfgs) ->
  In b (px_binds px) -> In (b_port b) used0 -> In b (px_binds px').
Proof.
  intros lua used0 px hplace hurl keys px' hcfgs b Hs. unfold process_host.
  destruct hplace; try (intros [= <- <-]; auto).
  destruct hurl as [[u tag]|]; [|intros [= <- <-]; auto].
  intros H Hb Hu. destruct (host_loop_sound _ _ _ _ _ _ _ _ _ Hs H) as (_ & Hk & _).
  apply Hk; [assumption|]. apply in_or_app. now left.
Qed.

(* oauth-uri-prefix "/" or "": the allowed path would be "/" and exempt every request *)
Example ex_oauth_root_prefix :
  snd (process_backend true (fun _ => false) [] px_default
    [ {| d_id := 1; d_url := None; d_place := PlBackend; d_host := 1; d_key := 1;
         d_oauth := Some {| o_impl := true; o_prefix_ok := false; o_backend := Some 1%N; o_prefix := 1; o_tag := 5 |} |} ])
  = [ (1%N, deny_cfg) ].
Proof. reflexivity. Qed.
